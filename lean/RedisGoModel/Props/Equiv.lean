import RedisGoModel.Props.EquivString
import RedisGoModel.Props.EquivList
import RedisGoModel.Props.EquivSet
import RedisGoModel.Props.EquivHash
import RedisGoModel.Props.EquivZSet
/-! # Representation independence of the command table

The model stores a set as a duplicate-free LIST, a hash as an association LIST, a sorted set as an AVL TREE; the Go code stores maps
and its own tree.  The order of the list and the shape of the tree are representation detail (Go map iteration order; a tree rebuilt
from a snapshot has another shape).  This file proves that the detail does not leak through ANY command.

`DbEquiv a b`: every key holds the same value up to the container's own equality (`Snap.ValEquiv`: sets and hashes as permutations,
sorted sets with the same `ZT.members` sequence, strings/lists/streams equal) with the same deadline.

FULL (all 77 entries of `Exec.cmdTable`, the empty and the unknown command; every environment — any clock, any observed reply or none
(checker mode and prediction mode), any float bits; two keyspaces with the table-wide invariant `Exec.Global.Inv` that are `DbEquiv`):

* `exec_respects_equiv`: the replies are EQUAL after the canonicalisation the driver itself applies (`canonReply`:
  SMEMBERS/SUNION/SINTER/SDIFF/HKEYS/HVALS sorted, HGETALL sorted as pairs; the identity on all other commands, whose replies are
  therefore equal as they are: `exec_reply_equal`), and the resulting keyspaces are again `DbEquiv` and satisfy the invariant.
  `exec_replies_agree`: the driver's own comparison accepts the one reply for the other.  `prog_respects_equiv`: for programs, step
  by step.
* corollaries kept under their own names: `exec_state_respects_equiv`, `prog_state_respects_equiv` (the keyspace never records the
  representation); `driver_verdict_respects_equiv`, `verdicts_respect_equiv` (in checker mode the driver's verdict
  `replyAgrees (canonReply name r) (canonReply name o)` on the observed reply `o` is the same on both keyspaces).
* `Snap.commands_agree : Snap.commands_agree_statement` (the item C08 listed as "stated, not proved"): every command answers on the
  keyspace loaded from a snapshot as on the original one.  `Snap.restored_node_indistinguishable`: a node restored from
  `Snap.encode db` answers every subsequent program like the original node; `Snap.same_snapshot_same_answers`: two nodes restored
  from snapshots of equivalent keyspaces answer alike; `Snap.restored_node_same_verdicts`: the driver checking the restored node
  reaches the verdicts it reaches checking the original.

HISTORY (a finding about the model, since repaired).  In the first version of the model HRANDFIELD without an acceptable observation
(prediction mode, or a refused observation) answered a PREFIX OF THE STORED association list: two `DbEquiv` keyspaces answered
differently, the table-wide theorem had to exclude HRANDFIELD (`ReprFree args`, theorems named `…_partial`), and
`Snap.commands_agree_statement` was refuted by a kernel-evaluated witness (`hrandfield_witness`, `hrandfield_leaks_representation`,
`commands_agree_statement_false`).  The leak was visible only in prediction mode and in the "expected" text of a mismatch report (the
verdict theorems were full already).  It was removed by canonicalising the default: `Exec.hrandDefault` now selects from
`Exec.hrandCanon h`, the fields in bytewise order, which is the same list for every presentation of the hash
(`hrandCanon_eq`, by `sortBy_of_perm`), so `hrandReply_perm`/`e_hrandfield` hold and the restriction, the witnesses and the refutation
are gone.  The examples below evaluate HRANDFIELD on the two presentations that used to be the witness.

Structure (that of `C06Table`): `EquivBase` (the relation, how `checkTTL`/`put`/`del`/`setVal` act on it, "a sort of a permutation
is the same list" for the two sorts of `canonReply`, tactics), one module per family with `CmdOk cmdX` (`CmdPerm`/`CmdPairs` for the
seven commands that list the stored order), per-table theorems here, lifted to `exec` through `List.find?` membership. -/
namespace Exec.Equiv
open Resp (Reply Bytes)
open Exec
open Exec.Global (Inv GoodValue)
open Snap (ValEquiv EntryEquiv OptEquiv)

/-! ### reply comparison is reflexive -/

mutual
theorem replyEq_refl : ∀ (r : Reply), replyEq r r = true
| .simple a => by simp [replyEq]
| .err a => by simp [replyEq]
| .int a => by simp [replyEq]
| .bulk a => by simp [replyEq]
| .arr none => by simp [replyEq]
| .arr (some l) => by rw [replyEq]; exact replyListEq_refl l
theorem replyListEq_refl : ∀ (l : List Reply), replyListEq l l = true
| [] => by simp [replyListEq]
| a :: as => by rw [replyListEq, replyEq_refl a, replyListEq_refl as]; rfl
end

theorem replyAgrees_refl (r : Reply) : replyAgrees r r = true := by
  cases r <;> simp [replyAgrees, replyEq_refl]

theorem replyAgrees_of_eq {r r' : Reply} (h : r = r') : replyAgrees r r' = true := h ▸ replyAgrees_refl r

mutual
theorem replyEq_sound : ∀ (r : Reply) (r' : Reply), replyEq r r' = true → r = r'
| .simple a, r', h => by
  rcases r' with b | b | b | b | (_ | b) <;> simp [replyEq] at h
  rw [h]
| .err a, r', h => by
  rcases r' with b | b | b | b | (_ | b) <;> simp [replyEq] at h
  rw [h]
| .int a, r', h => by
  rcases r' with b | b | b | b | (_ | b) <;> simp [replyEq] at h
  rw [h]
| .bulk a, r', h => by
  rcases r' with b | b | b | b | (_ | b) <;> simp [replyEq] at h
  rw [h]
| .arr none, r', h => by
  rcases r' with b | b | b | b | (_ | b) <;> simp [replyEq] at h
  rfl
| .arr (some l), r', h => by
  rcases r' with b | b | b | b | (_ | b) <;> try (simp [replyEq] at h; done)
  rw [replyEq] at h
  rw [replyListEq_sound l b h]
theorem replyListEq_sound : ∀ (l l' : List Reply), replyListEq l l' = true → l = l'
| [], [], _ => rfl
| [], _ :: _, h => by simp [replyListEq] at h
| _ :: _, [], h => by simp [replyListEq] at h
| a :: as, b :: bs, h => by
  rw [replyListEq, Bool.and_eq_true] at h
  rw [replyEq_sound a b h.1, replyListEq_sound as bs h.2]
end

/-- the driver's comparison accepts `o` for `r` only if they are equal or `r` is an error reply -/
theorem replyAgrees_true_cases {r o : Reply} (h : replyAgrees r o = true) : (∃ e, r = .err e) ∨ r = o := by
  cases r with
  | err e => exact Or.inl ⟨e, rfl⟩
  | simple a => right; apply replyEq_sound; simpa [replyAgrees] using h
  | int a => right; apply replyEq_sound; simpa [replyAgrees] using h
  | bulk a => right; apply replyEq_sound; simpa [replyAgrees] using h
  | arr a => right; apply replyEq_sound; simpa [replyAgrees] using h

/-! ### what `canonReply` does to the commands that list a stored order -/

theorem canon_unordered {n : Bytes} (h1 : pairedCmds.any (fun m => ofStr m == n) = false)
    (h2 : unorderedCmds.any (fun m => ofStr m == n) = true) (l : List Reply) :
    canonReply n (.arr (some l)) = .arr (some (sortReplies l)) := by
  unfold canonReply
  rw [if_neg (by rw [h1]; decide), if_pos h2]

theorem canon_paired {n : Bytes} (h1 : pairedCmds.any (fun m => ofStr m == n) = true) (l : List Reply) :
    canonReply n (.arr (some l)) = .arr (some (sortPairs l)) := by
  unfold canonReply
  rw [if_pos h1]

theorem canon_of_perm {n : Bytes} (h1 : pairedCmds.any (fun m => ofStr m == n) = false)
    (h2 : unorderedCmds.any (fun m => ofStr m == n) = true) {r r' : Reply} (h : ReplyPerm r r') : canonReply n r = canonReply n r' := by
  rcases h with rfl | ⟨l, l', rfl, rfl, hp⟩
  · rfl
  · show canonReply n (.arr (some (l.map bulk))) = canonReply n (.arr (some (l'.map bulk)))
    rw [canon_unordered h1 h2, canon_unordered h1 h2, sortReplies_bulks hp]

theorem canon_of_pairs {n : Bytes} (h1 : pairedCmds.any (fun m => ofStr m == n) = true) {r r' : Reply} (h : ReplyPairs r r') :
    canonReply n r = canonReply n r' := by
  rcases h with rfl | ⟨x, x', rfl, rfl, hp⟩
  · rfl
  · show canonReply n (.arr (some ((flatPairs x).map bulk))) = canonReply n (.arr (some ((flatPairs x').map bulk)))
    rw [canon_paired h1, canon_paired h1, sortPairs_flat hp]

/-! ### every entry of every table -/

/-- a table entry: equal canonical replies (canonicalised under the entry's own name), equivalent keyspaces -/
def EntryOk (p : String × Cmd) : Prop := ∀ (env : Env) (a b : Db) (args : List Bytes), Sim a b →
  canonReply (ofStr p.1) (p.2 env a args).1 = canonReply (ofStr p.1) (p.2 env b args).1 ∧ DbEquiv (p.2 env a args).2 (p.2 env b args).2

theorem EntryOk.of_ok {n : String} {c : Cmd} (h : CmdOk c) : EntryOk (n, c) := fun env a b args hs =>
  ⟨congrArg _ (h env a b args hs).1, (h env a b args hs).2⟩

theorem EntryOk.of_perm {n : String} {c : Cmd} (h1 : pairedCmds.any (fun m => ofStr m == ofStr n) = false)
    (h2 : unorderedCmds.any (fun m => ofStr m == ofStr n) = true) (h : CmdPerm c) : EntryOk (n, c) := fun env a b args hs =>
  ⟨canon_of_perm h1 h2 (h env a b args hs).1, (h env a b args hs).2⟩

theorem EntryOk.of_pairs {n : String} {c : Cmd} (h1 : pairedCmds.any (fun m => ofStr m == ofStr n) = true) (h : CmdPairs c) :
    EntryOk (n, c) := fun env a b args hs =>
  ⟨canon_of_pairs h1 (h env a b args hs).1, (h env a b args hs).2⟩

theorem string_entries : ∀ p ∈ stringKeyTable, EntryOk p := fun p hp => EntryOk.of_ok (n := p.1) (string_ok p hp)
theorem misc_entries : ∀ p ∈ miscTable, EntryOk p := fun p hp => EntryOk.of_ok (n := p.1) (misc_ok p hp)
theorem list_entries : ∀ p ∈ listTable, EntryOk p := fun p hp => EntryOk.of_ok (n := p.1) (list_ok p hp)
theorem zset_entries : ∀ p ∈ zsetTable, EntryOk p := fun p hp => EntryOk.of_ok (n := p.1) (zset_ok p hp)
theorem stream_entries : ∀ p ∈ streamTable, EntryOk p := fun p hp => EntryOk.of_ok (n := p.1) (stream_ok p hp)

theorem set_entries : ∀ p ∈ setTable, EntryOk p :=
  List.forall_mem_cons.mpr ⟨.of_ok e_sadd, List.forall_mem_cons.mpr ⟨.of_ok e_srem, List.forall_mem_cons.mpr ⟨.of_ok e_sismember,
  List.forall_mem_cons.mpr ⟨.of_ok e_scard,
  List.forall_mem_cons.mpr ⟨.of_perm (by decide +kernel) (by decide +kernel) e_smembers,
  List.forall_mem_cons.mpr ⟨.of_ok e_smove, List.forall_mem_cons.mpr ⟨.of_ok e_spop, List.forall_mem_cons.mpr ⟨.of_ok e_srandmember,
  List.forall_mem_cons.mpr ⟨.of_perm (by decide +kernel) (by decide +kernel) e_sunion,
  List.forall_mem_cons.mpr ⟨.of_perm (by decide +kernel) (by decide +kernel) e_sinter,
  List.forall_mem_cons.mpr ⟨.of_perm (by decide +kernel) (by decide +kernel) e_sdiff,
  List.forall_mem_cons.mpr ⟨.of_ok e_sunionstore, List.forall_mem_cons.mpr ⟨.of_ok e_sinterstore,
  List.forall_mem_cons.mpr ⟨.of_ok e_sdiffstore, fun _ h => nomatch h⟩⟩⟩⟩⟩⟩⟩⟩⟩⟩⟩⟩⟩⟩

theorem hash_entries : ∀ p ∈ hashTable, EntryOk p :=
  List.forall_mem_cons.mpr ⟨.of_ok e_hset, List.forall_mem_cons.mpr ⟨.of_ok e_hsetnx,
  List.forall_mem_cons.mpr ⟨.of_ok e_hget, List.forall_mem_cons.mpr ⟨.of_ok e_hmget,
  List.forall_mem_cons.mpr ⟨.of_pairs (by decide +kernel) e_hgetall,
  List.forall_mem_cons.mpr ⟨.of_perm (by decide +kernel) (by decide +kernel) e_hkeys,
  List.forall_mem_cons.mpr ⟨.of_perm (by decide +kernel) (by decide +kernel) e_hvals,
  List.forall_mem_cons.mpr ⟨.of_ok e_hlen, List.forall_mem_cons.mpr ⟨.of_ok e_hexists,
  List.forall_mem_cons.mpr ⟨.of_ok e_hstrlen, List.forall_mem_cons.mpr ⟨.of_ok e_hdel,
  List.forall_mem_cons.mpr ⟨.of_ok e_hincrby, List.forall_mem_cons.mpr ⟨.of_ok e_hincrbyfloat,
  List.forall_mem_cons.mpr ⟨.of_ok e_hrandfield, fun _ h => nomatch h⟩⟩⟩⟩⟩⟩⟩⟩⟩⟩⟩⟩⟩⟩

/-- **every entry of `cmdTable`** (all 77) -/
theorem table_entries : ∀ p ∈ cmdTable, EntryOk p := by
  intro p hp
  unfold cmdTable at hp
  simp only [List.mem_append, or_assoc] at hp
  rcases hp with h | h | h | h | h | h | h
  · exact string_entries p h
  · exact misc_entries p h
  · exact set_entries p h
  · exact hash_entries p h
  · exact list_entries p h
  · exact zset_entries p h
  · exact stream_entries p h

/-! ### dispatch -/

/-- the name under which the driver canonicalises the reply of `args` -/
def cmdName (args : List Bytes) : Bytes := lower (args.headD [])

theorem exec_ok (env : Env) (a b : Db) (args : List Bytes) (hs : Sim a b) :
    canonReply (cmdName args) (exec env a args).1 = canonReply (cmdName args) (exec env b args).1 ∧
    DbEquiv (exec env a args).2 (exec env b args).2 := by
  unfold exec
  split
  · exact ⟨rfl, hs.eqv⟩
  · rename_i name rest
    split
    · rename_i c hc
      unfold lookupCmd at hc
      obtain ⟨p, hp, rfl⟩ := Option.map_eq_some_iff.mp hc
      have hname : ofStr p.1 = lower name := by simpa using List.find?_some hp
      have := table_entries p (List.mem_of_find?_eq_some hp) env a b (name :: rest) hs
      unfold cmdName
      rw [List.headD_cons, ← hname]
      exact this
    · exact ⟨rfl, hs.eqv⟩

/-- **Representation independence of the command table** (all 77 commands, the empty and the unknown command): on two keyspaces
    with the table-wide invariant holding the same values up to the containers' own equality, every command — under the same clock,
    the same observed reply or none (checker mode, prediction mode) and the same float bits — gives the same canonical reply, and
    leaves keyspaces that again hold the same values up to the containers' own equality and satisfy the invariant. -/
theorem exec_respects_equiv (env : Env) (a b : Db) (args : List Bytes) (ha : Inv a) (hb : Inv b) (h : DbEquiv a b) :
    canonReply (cmdName args) (exec env a args).1 = canonReply (cmdName args) (exec env b args).1 ∧
    DbEquiv (exec env a args).2 (exec env b args).2 ∧ Inv (exec env a args).2 ∧ Inv (exec env b args).2 :=
  ⟨(exec_ok env a b args ⟨ha, hb, h⟩).1, (exec_ok env a b args ⟨ha, hb, h⟩).2, Global.exec_inv env a args ha,
    Global.exec_inv env b args hb⟩

/-- the driver's own comparison (`replyAgrees` after `canonReply`) accepts the one reply for the other -/
theorem exec_replies_agree (env : Env) (a b : Db) (args : List Bytes) (ha : Inv a) (hb : Inv b) (h : DbEquiv a b) :
    replyAgrees (canonReply (cmdName args) (exec env a args).1) (canonReply (cmdName args) (exec env b args).1) = true :=
  replyAgrees_of_eq (exec_respects_equiv env a b args ha hb h).1

/-- for a command outside the seven that list a stored order, `canonReply` is the identity: the replies are equal as they are -/
theorem canon_id {n : Bytes} (h1 : pairedCmds.any (fun m => ofStr m == n) = false)
    (h2 : unorderedCmds.any (fun m => ofStr m == n) = false) (r : Reply) : canonReply n r = r := by
  unfold canonReply
  rw [if_neg (by rw [h1]; decide), if_neg (by rw [h2]; decide)]

theorem exec_reply_equal (env : Env) (a b : Db) (args : List Bytes) (ha : Inv a) (hb : Inv b) (h : DbEquiv a b)
    (h1 : pairedCmds.any (fun m => ofStr m == cmdName args) = false)
    (h2 : unorderedCmds.any (fun m => ofStr m == cmdName args) = false) : (exec env a args).1 = (exec env b args).1 := by
  have := (exec_respects_equiv env a b args ha hb h).1
  rwa [canon_id h1 h2, canon_id h1 h2] at this

/-! ### programs -/

/-- the canonical replies of a run: each reply canonicalised under its own command's name -/
def canonRun : C06T.Prog → List Reply → List Reply
| (_, args) :: rest, r :: rs => canonReply (cmdName args) r :: canonRun rest rs
| _, _ => []

/-- **for programs**: two equivalent keyspaces answer every program with the same canonical replies, step by step, and end
    equivalent (each step under its own clock reading, observed reply and float bits) -/
theorem prog_respects_equiv : ∀ (prog : C06T.Prog) (a b : Db), Inv a → Inv b → DbEquiv a b →
    canonRun prog (C06T.runProg a prog).1 = canonRun prog (C06T.runProg b prog).1 ∧
    DbEquiv (C06T.runProg a prog).2 (C06T.runProg b prog).2 ∧ Inv (C06T.runProg a prog).2 ∧ Inv (C06T.runProg b prog).2
| [], _, _, ha, hb, h => ⟨rfl, h, ha, hb⟩
| (env, args) :: rest, a, b, ha, hb, h => by
  have h1 := exec_respects_equiv env a b args ha hb h
  have ih := prog_respects_equiv rest _ _ h1.2.2.1 h1.2.2.2 h1.2.1
  unfold C06T.runProg
  exact ⟨by simp only [canonRun, h1.1, ih.1], ih.2⟩

/-! ### corollary: the keyspace never records the representation -/

/-- equivalent keyspaces stay equivalent (and keep the invariant) under every command -/
theorem exec_state_respects_equiv (env : Env) (a b : Db) (args : List Bytes) (ha : Inv a) (hb : Inv b) (h : DbEquiv a b) :
    DbEquiv (exec env a args).2 (exec env b args).2 ∧ Inv (exec env a args).2 ∧ Inv (exec env b args).2 :=
  (exec_respects_equiv env a b args ha hb h).2

/-- … and under every program -/
theorem prog_state_respects_equiv (prog : C06T.Prog) (a b : Db) (ha : Inv a) (hb : Inv b) (h : DbEquiv a b) :
    DbEquiv (C06T.runProg a prog).2 (C06T.runProg b prog).2 ∧ Inv (C06T.runProg a prog).2 ∧ Inv (C06T.runProg b prog).2 :=
  (prog_respects_equiv prog a b ha hb h).2

/-! ### corollary: the driver's verdict in checker mode

The differential driver runs the model with the implementation's reply as `env.obs` and accepts the step when
`replyAgrees (canonReply name r) (canonReply name obs)`.  The canonical replies are equal, so the verdict is the same whatever the
reply is compared with. -/

/-- with the implementation's reply `o` as the observation, the driver's verdict is the same on two equivalent keyspaces -/
theorem driver_verdict_respects_equiv (env : Env) (a b : Db) (args : List Bytes) (o : Reply) (ha : Inv a) (hb : Inv b)
    (h : DbEquiv a b) (_ho : env.obs = some o) :
    replyAgrees (canonReply (cmdName args) (exec env a args).1) (canonReply (cmdName args) o) =
      replyAgrees (canonReply (cmdName args) (exec env b args).1) (canonReply (cmdName args) o) ∧
    DbEquiv (exec env a args).2 (exec env b args).2 ∧ Inv (exec env a args).2 ∧ Inv (exec env b args).2 :=
  ⟨by rw [(exec_respects_equiv env a b args ha hb h).1], exec_state_respects_equiv env a b args ha hb h⟩

/-- the verdicts of a checked run: one per step that carries an observation (a step without one has nothing to compare) -/
def verdicts : Db → C06T.Prog → List Bool
| _, [] => []
| db, (env, args) :: rest =>
  (match env.obs with
    | some o => replyAgrees (canonReply (cmdName args) (exec env db args).1) (canonReply (cmdName args) o)
    | none => true) :: verdicts (exec env db args).2 rest

/-- **for programs**: a checked run gives the same verdicts, step by step, from two equivalent keyspaces -/
theorem verdicts_respect_equiv : ∀ (prog : C06T.Prog) (a b : Db), Inv a → Inv b → DbEquiv a b → verdicts a prog = verdicts b prog
| [], _, _, _, _, _ => rfl
| (env, args) :: rest, a, b, ha, hb, h => by
  have hst := exec_state_respects_equiv env a b args ha hb h
  have ih := verdicts_respect_equiv rest _ _ hst.2.1 hst.2.2 hst.1
  unfold verdicts
  rw [ih]
  cases ho : env.obs with
  | none => rfl
  | some o => simp only [(driver_verdict_respects_equiv env a b args o ha hb h ho).1]

/-! ### the relation is not equality, and the hypotheses are satisfiable -/

def exA : Db := [([115], { val := .set [[1], [2]] }), ([104], { val := .hash [([102], [49]), ([103], [50])], exp := some 9 })]
def exB : Db := [([104], { val := .hash [([103], [50]), ([102], [49])], exp := some 9 }), ([115], { val := .set [[2], [1]] })]

theorem exA_inv : Inv exA := by
  refine (Global.inv_iff_mem exA).mpr ⟨by unfold Db.WF; decide, ?_⟩
  intro p hp
  simp only [exA, List.mem_cons, List.mem_nil_iff, or_false] at hp
  rcases hp with rfl | rfl
  · show [[1], [2]].Nodup ∧ [[1], [2]] ≠ []; decide
  · exact ⟨by unfold HashSel.Ok; decide, by decide⟩

theorem exB_inv : Inv exB := by
  refine (Global.inv_iff_mem exB).mpr ⟨by unfold Db.WF; decide, ?_⟩
  intro p hp
  simp only [exB, List.mem_cons, List.mem_nil_iff, or_false] at hp
  rcases hp with rfl | rfl
  · exact ⟨by unfold HashSel.Ok; decide, by decide⟩
  · show [[2], [1]].Nodup ∧ [[2], [1]] ≠ []; decide

theorem exAB_equiv : DbEquiv exA exB := by
  intro k
  by_cases h1 : k = [115]
  · subst h1
    show OptEquiv (some _) (some _)
    exact ⟨List.Perm.swap _ _ _, rfl⟩
  · by_cases h2 : k = [104]
    · subst h2
      show OptEquiv (some _) (some _)
      exact ⟨List.Perm.swap _ _ _, rfl⟩
    · have n1 : (([115] : Bytes) == k) = false := beq_eq_false_iff_ne.mpr (Ne.symm h1)
      have n2 : (([104] : Bytes) == k) = false := beq_eq_false_iff_ne.mpr (Ne.symm h2)
      have ea : exA.get k = none := by
        simp [Db.get, exA, List.find?, n1, n2]
      have eb : exB.get k = none := by
        simp [Db.get, exB, List.find?, n1, n2]
      rw [ea, eb]; trivial

example : Inv exA ∧ Inv exB ∧ DbEquiv exA exB ∧ exA ≠ exB := ⟨exA_inv, exB_inv, exAB_equiv, by decide⟩

/-- HGETALL on the two presentations: different replies, the same canonical reply -/
example : replyEq (exec { now := 0 } exA [ofStr "HGETALL", [104]]).1 (exec { now := 0 } exB [ofStr "HGETALL", [104]]).1 = false := by
  decide +kernel
example : canonReply (cmdName [ofStr "HGETALL", [104]]) (exec { now := 0 } exA [ofStr "HGETALL", [104]]).1 =
    canonReply (cmdName [ofStr "HGETALL", [104]]) (exec { now := 0 } exB [ofStr "HGETALL", [104]]).1 :=
  (exec_respects_equiv _ _ _ _ exA_inv exB_inv exAB_equiv).1

/-! ### HRANDFIELD in prediction mode on the two presentations (the former witness of the leak) -/

def hrandArgs : List Bytes := [ofStr "HRANDFIELD", [104]]

/-- `exA` stores the field `f` first, `exB` the field `g`; both answer the bytewise smallest field `f` (in the first version of the
    model, where the default answer was the first STORED field, this evaluated to `false`) -/
theorem hrandfield_example :
    replyEq (exec { now := 0 } exA hrandArgs).1 (bulk [102]) = true ∧ replyEq (exec { now := 0 } exB hrandArgs).1 (bulk [102]) = true := by
  decide +kernel

/-- … with a count and WITHVALUES, positive and negative -/
example : replyEq (exec { now := 0 } exA [ofStr "HRANDFIELD", [104], ofStr "5", ofStr "WITHVALUES"]).1
      (exec { now := 0 } exB [ofStr "HRANDFIELD", [104], ofStr "5", ofStr "WITHVALUES"]).1 = true ∧
    replyEq (exec { now := 0 } exA [ofStr "HRANDFIELD", [104], ofStr "-3"]).1 (bulks [[102], [102], [102]]) = true ∧
    replyEq (exec { now := 0 } exB [ofStr "HRANDFIELD", [104], ofStr "-3"]).1 (bulks [[102], [102], [102]]) = true := by
  decide +kernel

/-- HRANDFIELD is outside the seven commands whose reply `canonReply` sorts: its replies are equal as they are, in every environment -/
theorem hrandfield_reply_equal (env : Env) (a b : Db) (rest : List Bytes) (ha : Inv a) (hb : Inv b) (h : DbEquiv a b) :
    (exec env a (ofStr "HRANDFIELD" :: rest)).1 = (exec env b (ofStr "HRANDFIELD" :: rest)).1 :=
  have e : cmdName (ofStr "HRANDFIELD" :: rest) = lower (ofStr "HRANDFIELD") := rfl
  exec_reply_equal env a b _ ha hb h (by rw [e]; decide +kernel) (by rw [e]; decide +kernel)

end Exec.Equiv

/-! ## the snapshot consequences (C08) -/
namespace Snap
open Exec (Db Entry Value)
open Exec.Global (Inv GoodValue)
open Exec.Equiv (DbEquiv cmdName)

theorem canonVal_good (v : Value) (hg : GoodValue v) : GoodValue (canonVal v) := by
  cases v with
  | str b => trivial
  | list l => exact hg
  | stream es last => exact hg
  | set s =>
    have hp : (setOrder s).Perm s := Exec.C06T.sortBytes_perm s
    refine ⟨(hp.nodup_iff).mpr hg.1, fun e => hg.2 ?_⟩
    have := hp.length_eq
    rw [e] at this
    exact List.eq_nil_of_length_eq_zero this.symm
  | hash h =>
    have hp : (hashOrder h).Perm h := sortK_perm h
    refine ⟨sortK_nodup hg.1, fun e => hg.2 ?_⟩
    have := hp.length_eq
    rw [e] at this
    exact List.eq_nil_of_length_eq_zero this.symm
  | zset t =>
    have hn : ((zsetOrder t).map (·.1)).Nodup := sortK_nodup (ZT.names_nodup hg.1)
    refine ⟨zbuild_inv hn, fun e => ?_⟩
    have hm := members_rebuild hg.1
    rw [e] at hm
    exact (GoodValue.nonEmpty (v := .zset t) hg).2 hm.symm

/-- the canonical presentation satisfies the table-wide invariant -/
theorem canon_inv (db : Db) (hi : Inv db) : Inv (canon db) := by
  obtain ⟨hw, hg⟩ := (Exec.Global.inv_iff_mem db).mp hi
  have hperm : (keyOrder db).Perm db := sortK_perm db
  refine (Exec.Global.inv_iff_mem _).mpr ⟨?_, ?_⟩
  · have : (canon db).map (·.1) = (keyOrder db).map (·.1) := by
      unfold canon; rw [List.map_map]; rfl
    unfold Exec.Db.WF
    rw [this]
    exact sortK_nodup hw
  · intro p hp
    unfold canon at hp
    obtain ⟨q, hq, rfl⟩ := List.mem_map.mp hp
    exact canonVal_good _ (hg q (hperm.subset hq))

theorem canon_dbEquiv (db : Db) (hi : Inv db) : DbEquiv (canon db) db := canon_equiv db hi

/-- **every command answers on the keyspace restored from a snapshot as on the original one** (after `canonReply`): the C08 item
    that was "stated, not proved" — `commands_agree_statement` itself, all commands, checker mode and prediction mode -/
theorem commands_agree : commands_agree_statement := fun env db args hi _ =>
  Exec.Equiv.exec_replies_agree env (canon db) db args (canon_inv db hi) hi (canon_dbEquiv db hi)

/-- … with equal canonical replies and equivalent resulting keyspaces -/
theorem commands_agree_state (env : Exec.Env) (db : Db) (args : List Bytes) (hi : Inv db) :
    Exec.canonReply (cmdName args) (Exec.exec env (canon db) args).1 = Exec.canonReply (cmdName args) (Exec.exec env db args).1 ∧
    DbEquiv (Exec.exec env (canon db) args).2 (Exec.exec env db args).2 :=
  ⟨(Exec.Equiv.exec_respects_equiv env (canon db) db args (canon_inv db hi) hi (canon_dbEquiv db hi)).1,
    (Exec.Equiv.exec_respects_equiv env (canon db) db args (canon_inv db hi) hi (canon_dbEquiv db hi)).2.1⟩

/-- a hash whose stored order is not the snapshot's (field) order: the keyspace that refuted `commands_agree_statement` in the first
    version of the model -/
def cexDb : Db := [([104], { val := .hash [([103], [50]), ([102], [49])] })]

theorem cexDb_inv : Inv cexDb := by
  refine (Exec.Global.inv_iff_mem cexDb).mpr ⟨by unfold Exec.Db.WF; decide, ?_⟩
  intro p hp
  simp only [cexDb, List.mem_cons, List.mem_nil_iff, or_false] at hp
  subst hp
  exact ⟨by unfold HashSel.Ok; decide, by decide⟩

/-- HRANDFIELD in prediction mode on that keyspace and on its snapshot image: the snapshot reorders the fields, the answers agree
    (kernel-evaluated; also an instance of `commands_agree`) -/
example : Exec.replyAgrees (Exec.canonReply (Exec.lower (Exec.Equiv.hrandArgs.headD []))
      (Exec.exec { now := 0 } (canon cexDb) Exec.Equiv.hrandArgs).1)
    (Exec.canonReply (Exec.lower (Exec.Equiv.hrandArgs.headD [])) (Exec.exec { now := 0 } cexDb Exec.Equiv.hrandArgs).1) = true := by
  decide +kernel

example : Exec.replyAgrees (Exec.canonReply (Exec.lower (Exec.Equiv.hrandArgs.headD []))
      (Exec.exec { now := 0 } (canon cexDb) Exec.Equiv.hrandArgs).1)
    (Exec.canonReply (Exec.lower (Exec.Equiv.hrandArgs.headD [])) (Exec.exec { now := 0 } cexDb Exec.Equiv.hrandArgs).1) = true :=
  commands_agree _ cexDb _ cexDb_inv (by unfold Bounded; decide)

/-- **a node restored from a snapshot is indistinguishable from the original**: loading `encode db` succeeds, and the restored node
    answers every subsequent program (all commands; each step in checker or prediction mode) with the same canonical replies, step
    by step, as the node that took the snapshot, and ends in an equivalent keyspace -/
theorem restored_node_indistinguishable (db : Db) (hi : Inv db) (hb : Bounded db) (prog : Exec.C06T.Prog) :
    ∃ db', decode (encode db) = some db' ∧
      Exec.Equiv.canonRun prog (Exec.C06T.runProg db' prog).1 = Exec.Equiv.canonRun prog (Exec.C06T.runProg db prog).1 ∧
      DbEquiv (Exec.C06T.runProg db' prog).2 (Exec.C06T.runProg db prog).2 := by
  refine ⟨canon db, decode_encode db hi hb, ?_⟩
  have := Exec.Equiv.prog_respects_equiv prog (canon db) db (canon_inv db hi) hi (canon_dbEquiv db hi)
  exact ⟨this.1, this.2.1⟩

/-- **checker mode**: the differential driver, checking a node restored from a snapshot against any observed run, reaches exactly
    the verdicts it reaches checking the original node -/
theorem restored_node_same_verdicts (db : Db) (hi : Inv db) (hb : Bounded db) (prog : Exec.C06T.Prog) :
    ∃ db', decode (encode db) = some db' ∧ Exec.Equiv.verdicts db' prog = Exec.Equiv.verdicts db prog :=
  ⟨canon db, decode_encode db hi hb,
    Exec.Equiv.verdicts_respect_equiv prog (canon db) db (canon_inv db hi) hi (canon_dbEquiv db hi)⟩

/-- two nodes restored from snapshots of equivalent keyspaces (in particular from the same bytes) are indistinguishable from each
    other as well -/
theorem same_snapshot_same_answers (a b : Db) (ha : Inv a) (hb : Inv b) (h : DbEquiv a b) (prog : Exec.C06T.Prog) :
    Exec.Equiv.canonRun prog (Exec.C06T.runProg (canon a) prog).1 = Exec.Equiv.canonRun prog (Exec.C06T.runProg (canon b) prog).1 :=
  (Exec.Equiv.prog_respects_equiv prog (canon a) (canon b) (canon_inv a ha) (canon_inv b hb)
    (((canon_dbEquiv a ha).trans h).trans (canon_dbEquiv b hb).symm)).1

example : ∃ db', decode (encode exDb) = some db' ∧
    Exec.Equiv.canonRun [] (Exec.C06T.runProg db' []).1 = Exec.Equiv.canonRun [] (Exec.C06T.runProg exDb []).1 ∧
    DbEquiv (Exec.C06T.runProg db' []).2 (Exec.C06T.runProg exDb []).2 :=
  restored_node_indistinguishable exDb exDb_inv exDb_bounded []

end Snap

#print axioms Exec.Equiv.exec_respects_equiv
#print axioms Exec.Equiv.exec_replies_agree
#print axioms Exec.Equiv.exec_reply_equal
#print axioms Exec.Equiv.prog_respects_equiv
#print axioms Exec.Equiv.table_entries
#print axioms Exec.Equiv.exec_state_respects_equiv
#print axioms Exec.Equiv.prog_state_respects_equiv
#print axioms Exec.Equiv.driver_verdict_respects_equiv
#print axioms Exec.Equiv.verdicts_respect_equiv
#print axioms Exec.Equiv.hrandCanon_eq
#print axioms Exec.Equiv.hrandDefault_perm
#print axioms Exec.Equiv.hrandDefault_accepted
#print axioms Exec.Equiv.hrandReply_perm
#print axioms Exec.Equiv.e_hrandfield
#print axioms Exec.Equiv.hrandfield_example
#print axioms Exec.Equiv.hrandfield_reply_equal
#print axioms Snap.canon_inv
#print axioms Snap.commands_agree
#print axioms Snap.commands_agree_state
#print axioms Snap.restored_node_indistinguishable
#print axioms Snap.restored_node_same_verdicts
#print axioms Snap.same_snapshot_same_answers
