import RedisGoModel.Props.EquivString
import RedisGoModel.Props.EquivList
import RedisGoModel.Props.EquivSet
import RedisGoModel.Props.EquivHash
import RedisGoModel.Props.EquivZSet
/-! # Representation independence of the command table

The model stores a set as a duplicate-free LIST, a hash as an association LIST, a sorted set as an AVL TREE; the Go code stores maps
and its own tree.  The order of the list and the shape of the tree are representation detail (Go map iteration order; a tree rebuilt
from a snapshot has another shape).  This file proves that the detail does not leak through the commands, and says exactly where it
does.

`DbEquiv a b`: every key holds the same value up to the container's own equality (`Snap.ValEquiv`: sets and hashes as permutations,
sorted sets with the same `ZT.members` sequence, strings/lists/streams equal) with the same deadline.

FULL (all 77 entries of `Exec.cmdTable`, the empty and the unknown command; every environment; two keyspaces with the table-wide
invariant `Exec.Global.Inv` that are `DbEquiv`):

* `exec_state_respects_equiv`, `prog_state_respects_equiv`: the resulting keyspaces are again `DbEquiv` and satisfy the invariant —
  the keyspace never records the representation.
* `driver_verdict_respects_equiv`, `verdicts_respect_equiv`: in checker mode (the implementation's reply `o` is `env.obs`, which is
  how the differential driver runs the model) the driver's verdict `replyAgrees (canonReply name r) (canonReply name o)` is the same
  on both keyspaces, for every command and, step by step, for every program.

PARTIAL in the replies themselves (`ReprFree args`: the command is not HRANDFIELD — 76 of the 77 entries):

* `exec_respects_equiv_partial`: the replies are EQUAL after the canonicalisation the driver itself applies (`canonReply`:
  SMEMBERS/SUNION/SINTER/SDIFF/HKEYS/HVALS sorted, HGETALL sorted as pairs; the identity on all other commands, whose replies are
  therefore equal as they are: `exec_reply_equal_partial`) — hence the verdict is the same against ANY comparison target (also the
  score-normalised observation the driver uses for ZADD/ZRANGE).  `prog_respects_equiv_partial` lifts it to programs without
  HRANDFIELD, `prog_respects_equiv_mixed` to all programs (the replies of the HRANDFIELD steps are not compared; such a step is
  read-only and does not disturb what follows).
* FINDING `hrandfield_leaks_representation`: HRANDFIELD without an acceptable observation (prediction mode, or a refused
  observation) answers `hrandDefault`, a PREFIX OF THE STORED LIST — two `DbEquiv` keyspaces answer differently (kernel-evaluated
  witness `hrandfield_witness`).  When the observed reply is acceptable the answer is the observation on both sides
  (`hrandfield_respects_equiv_of_accepted`; acceptance is permutation-invariant: `hrandAccept_perm`); when it is refused the two
  fallback answers differ from each other but both differ from the observation (`hrandDefault_accepted`), which is why the verdict
  theorem is full.  The leak shows only in the "expected" text of a mismatch report and in prediction mode.
* `Snap.commands_agree_partial` (the item C08 listed as "stated, not proved"): every `ReprFree` command answers on the keyspace
  loaded from a snapshot as on the original one.  `Snap.commands_agree_statement_false`: the statement as it was written (ALL
  commands, prediction mode allowed) is FALSE, by the same witness.  `Snap.restored_node_indistinguishable_partial` / `_mixed`: a
  node restored from `Snap.encode db` answers every subsequent program like the original node (canonical replies of all
  non-HRANDFIELD steps); `Snap.restored_node_same_verdicts` (FULL): the driver checking the restored node reaches the verdicts it
  reaches checking the original.

Structure (that of `C06Table`): `EquivBase` (the relation, how `checkTTL`/`put`/`del`/`setVal` act on it, "a sort of a permutation
is the same list" for the two sorts of `canonReply`, tactics), one module per family with `CmdOk cmdX` (`CmdPerm`/`CmdPairs` for the
seven commands that list the stored order), per-table theorems here, lifted to `exec` through `List.find?` membership. -/
namespace Exec.Equiv
open Resp (Reply Bytes)
open Exec
open Exec.Global (Inv GoodValue)
open Snap (ValEquiv EntryEquiv OptEquiv)

/-! ### reply comparison is reflexive -/

mutual
theorem replyEq_refl : ∀ (r : Reply), replyEq r r = true
| .simple a => by simp [replyEq]
| .err a => by simp [replyEq]
| .int a => by simp [replyEq]
| .bulk a => by simp [replyEq]
| .arr none => by simp [replyEq]
| .arr (some l) => by rw [replyEq]; exact replyListEq_refl l
theorem replyListEq_refl : ∀ (l : List Reply), replyListEq l l = true
| [] => by simp [replyListEq]
| a :: as => by rw [replyListEq, replyEq_refl a, replyListEq_refl as]; rfl
end

theorem replyAgrees_refl (r : Reply) : replyAgrees r r = true := by
  cases r <;> simp [replyAgrees, replyEq_refl]

theorem replyAgrees_of_eq {r r' : Reply} (h : r = r') : replyAgrees r r' = true := h ▸ replyAgrees_refl r

mutual
theorem replyEq_sound : ∀ (r : Reply) (r' : Reply), replyEq r r' = true → r = r'
| .simple a, r', h => by
  rcases r' with b | b | b | b | (_ | b) <;> simp [replyEq] at h
  rw [h]
| .err a, r', h => by
  rcases r' with b | b | b | b | (_ | b) <;> simp [replyEq] at h
  rw [h]
| .int a, r', h => by
  rcases r' with b | b | b | b | (_ | b) <;> simp [replyEq] at h
  rw [h]
| .bulk a, r', h => by
  rcases r' with b | b | b | b | (_ | b) <;> simp [replyEq] at h
  rw [h]
| .arr none, r', h => by
  rcases r' with b | b | b | b | (_ | b) <;> simp [replyEq] at h
  rfl
| .arr (some l), r', h => by
  rcases r' with b | b | b | b | (_ | b) <;> try (simp [replyEq] at h; done)
  rw [replyEq] at h
  rw [replyListEq_sound l b h]
theorem replyListEq_sound : ∀ (l l' : List Reply), replyListEq l l' = true → l = l'
| [], [], _ => rfl
| [], _ :: _, h => by simp [replyListEq] at h
| _ :: _, [], h => by simp [replyListEq] at h
| a :: as, b :: bs, h => by
  rw [replyListEq, Bool.and_eq_true] at h
  rw [replyEq_sound a b h.1, replyListEq_sound as bs h.2]
end

/-- the driver's comparison accepts `o` for `r` only if they are equal or `r` is an error reply -/
theorem replyAgrees_true_cases {r o : Reply} (h : replyAgrees r o = true) : (∃ e, r = .err e) ∨ r = o := by
  cases r with
  | err e => exact Or.inl ⟨e, rfl⟩
  | simple a => right; apply replyEq_sound; simpa [replyAgrees] using h
  | int a => right; apply replyEq_sound; simpa [replyAgrees] using h
  | bulk a => right; apply replyEq_sound; simpa [replyAgrees] using h
  | arr a => right; apply replyEq_sound; simpa [replyAgrees] using h

/-! ### what `canonReply` does to the commands that list a stored order -/

theorem canon_unordered {n : Bytes} (h1 : pairedCmds.any (fun m => ofStr m == n) = false)
    (h2 : unorderedCmds.any (fun m => ofStr m == n) = true) (l : List Reply) :
    canonReply n (.arr (some l)) = .arr (some (sortReplies l)) := by
  unfold canonReply
  rw [if_neg (by rw [h1]; decide), if_pos h2]

theorem canon_paired {n : Bytes} (h1 : pairedCmds.any (fun m => ofStr m == n) = true) (l : List Reply) :
    canonReply n (.arr (some l)) = .arr (some (sortPairs l)) := by
  unfold canonReply
  rw [if_pos h1]

theorem canon_of_perm {n : Bytes} (h1 : pairedCmds.any (fun m => ofStr m == n) = false)
    (h2 : unorderedCmds.any (fun m => ofStr m == n) = true) {r r' : Reply} (h : ReplyPerm r r') : canonReply n r = canonReply n r' := by
  rcases h with rfl | ⟨l, l', rfl, rfl, hp⟩
  · rfl
  · show canonReply n (.arr (some (l.map bulk))) = canonReply n (.arr (some (l'.map bulk)))
    rw [canon_unordered h1 h2, canon_unordered h1 h2, sortReplies_bulks hp]

theorem canon_of_pairs {n : Bytes} (h1 : pairedCmds.any (fun m => ofStr m == n) = true) {r r' : Reply} (h : ReplyPairs r r') :
    canonReply n r = canonReply n r' := by
  rcases h with rfl | ⟨x, x', rfl, rfl, hp⟩
  · rfl
  · show canonReply n (.arr (some ((flatPairs x).map bulk))) = canonReply n (.arr (some ((flatPairs x').map bulk)))
    rw [canon_paired h1, canon_paired h1, sortPairs_flat hp]

/-! ### every entry of every table -/

/-- a table entry: equal canonical replies (canonicalised under the entry's own name), equivalent keyspaces -/
def EntryOk (p : String × Cmd) : Prop := ∀ (env : Env) (a b : Db) (args : List Bytes), Sim a b →
  canonReply (ofStr p.1) (p.2 env a args).1 = canonReply (ofStr p.1) (p.2 env b args).1 ∧ DbEquiv (p.2 env a args).2 (p.2 env b args).2

theorem EntryOk.of_ok {n : String} {c : Cmd} (h : CmdOk c) : EntryOk (n, c) := fun env a b args hs =>
  ⟨congrArg _ (h env a b args hs).1, (h env a b args hs).2⟩

theorem EntryOk.of_perm {n : String} {c : Cmd} (h1 : pairedCmds.any (fun m => ofStr m == ofStr n) = false)
    (h2 : unorderedCmds.any (fun m => ofStr m == ofStr n) = true) (h : CmdPerm c) : EntryOk (n, c) := fun env a b args hs =>
  ⟨canon_of_perm h1 h2 (h env a b args hs).1, (h env a b args hs).2⟩

theorem EntryOk.of_pairs {n : String} {c : Cmd} (h1 : pairedCmds.any (fun m => ofStr m == ofStr n) = true) (h : CmdPairs c) :
    EntryOk (n, c) := fun env a b args hs =>
  ⟨canon_of_pairs h1 (h env a b args hs).1, (h env a b args hs).2⟩

theorem string_entries : ∀ p ∈ stringKeyTable, EntryOk p := fun p hp => EntryOk.of_ok (n := p.1) (string_ok p hp)
theorem misc_entries : ∀ p ∈ miscTable, EntryOk p := fun p hp => EntryOk.of_ok (n := p.1) (misc_ok p hp)
theorem list_entries : ∀ p ∈ listTable, EntryOk p := fun p hp => EntryOk.of_ok (n := p.1) (list_ok p hp)
theorem zset_entries : ∀ p ∈ zsetTable, EntryOk p := fun p hp => EntryOk.of_ok (n := p.1) (zset_ok p hp)
theorem stream_entries : ∀ p ∈ streamTable, EntryOk p := fun p hp => EntryOk.of_ok (n := p.1) (stream_ok p hp)

theorem set_entries : ∀ p ∈ setTable, EntryOk p :=
  List.forall_mem_cons.mpr ⟨.of_ok e_sadd, List.forall_mem_cons.mpr ⟨.of_ok e_srem, List.forall_mem_cons.mpr ⟨.of_ok e_sismember,
  List.forall_mem_cons.mpr ⟨.of_ok e_scard,
  List.forall_mem_cons.mpr ⟨.of_perm (by decide +kernel) (by decide +kernel) e_smembers,
  List.forall_mem_cons.mpr ⟨.of_ok e_smove, List.forall_mem_cons.mpr ⟨.of_ok e_spop, List.forall_mem_cons.mpr ⟨.of_ok e_srandmember,
  List.forall_mem_cons.mpr ⟨.of_perm (by decide +kernel) (by decide +kernel) e_sunion,
  List.forall_mem_cons.mpr ⟨.of_perm (by decide +kernel) (by decide +kernel) e_sinter,
  List.forall_mem_cons.mpr ⟨.of_perm (by decide +kernel) (by decide +kernel) e_sdiff,
  List.forall_mem_cons.mpr ⟨.of_ok e_sunionstore, List.forall_mem_cons.mpr ⟨.of_ok e_sinterstore,
  List.forall_mem_cons.mpr ⟨.of_ok e_sdiffstore, fun _ h => nomatch h⟩⟩⟩⟩⟩⟩⟩⟩⟩⟩⟩⟩⟩⟩

/-- the hash table without HRANDFIELD -/
theorem hash_entries : ∀ p ∈ hashTable, p.1 ≠ "hrandfield" → EntryOk p :=
  List.forall_mem_cons.mpr ⟨fun _ => .of_ok e_hset, List.forall_mem_cons.mpr ⟨fun _ => .of_ok e_hsetnx,
  List.forall_mem_cons.mpr ⟨fun _ => .of_ok e_hget, List.forall_mem_cons.mpr ⟨fun _ => .of_ok e_hmget,
  List.forall_mem_cons.mpr ⟨fun _ => .of_pairs (by decide +kernel) e_hgetall,
  List.forall_mem_cons.mpr ⟨fun _ => .of_perm (by decide +kernel) (by decide +kernel) e_hkeys,
  List.forall_mem_cons.mpr ⟨fun _ => .of_perm (by decide +kernel) (by decide +kernel) e_hvals,
  List.forall_mem_cons.mpr ⟨fun _ => .of_ok e_hlen, List.forall_mem_cons.mpr ⟨fun _ => .of_ok e_hexists,
  List.forall_mem_cons.mpr ⟨fun _ => .of_ok e_hstrlen, List.forall_mem_cons.mpr ⟨fun _ => .of_ok e_hdel,
  List.forall_mem_cons.mpr ⟨fun _ => .of_ok e_hincrby, List.forall_mem_cons.mpr ⟨fun _ => .of_ok e_hincrbyfloat,
  List.forall_mem_cons.mpr ⟨fun h => absurd rfl h, fun _ h => nomatch h⟩⟩⟩⟩⟩⟩⟩⟩⟩⟩⟩⟩⟩⟩

/-- **the covered sub-table**: every entry of `cmdTable` except HRANDFIELD -/
theorem table_entries : ∀ p ∈ cmdTable, p.1 ≠ "hrandfield" → EntryOk p := by
  intro p hp hne
  unfold cmdTable at hp
  simp only [List.mem_append, or_assoc] at hp
  rcases hp with h | h | h | h | h | h | h
  · exact string_entries p h
  · exact misc_entries p h
  · exact set_entries p h
  · exact hash_entries p h hne
  · exact list_entries p h
  · exact zset_entries p h
  · exact stream_entries p h

/-! ### dispatch -/

/-- the excluded command, as a decidable predicate on the argument vector: anything but HRANDFIELD (any letter case) -/
def ReprFree (args : List Bytes) : Bool := lower (args.headD []) != ofStr "hrandfield"

/-- the name under which the driver canonicalises the reply of `args` -/
def cmdName (args : List Bytes) : Bytes := lower (args.headD [])

theorem exec_ok (env : Env) (a b : Db) (args : List Bytes) (hs : Sim a b) (hf : ReprFree args = true) :
    canonReply (cmdName args) (exec env a args).1 = canonReply (cmdName args) (exec env b args).1 ∧
    DbEquiv (exec env a args).2 (exec env b args).2 := by
  unfold exec
  split
  · exact ⟨rfl, hs.eqv⟩
  · rename_i name rest
    split
    · rename_i c hc
      unfold lookupCmd at hc
      obtain ⟨p, hp, rfl⟩ := Option.map_eq_some_iff.mp hc
      have hname : ofStr p.1 = lower name := by simpa using List.find?_some hp
      have hne : p.1 ≠ "hrandfield" := by
        intro e
        unfold ReprFree at hf
        simp only [List.headD_cons, ← hname, e, bne_self_eq_false] at hf
        cases hf
      have := table_entries p (List.mem_of_find?_eq_some hp) hne env a b (name :: rest) hs
      unfold cmdName
      rw [List.headD_cons, ← hname]
      exact this
    · exact ⟨rfl, hs.eqv⟩

/-- **Representation independence of the command table** (all commands but HRANDFIELD): on two keyspaces with the table-wide
    invariant holding the same values up to the containers' own equality, every command — under the same clock, the same observed
    reply (checker mode) and the same float bits — gives the same canonical reply, and leaves keyspaces that again hold the same
    values up to the containers' own equality and satisfy the invariant. -/
theorem exec_respects_equiv_partial (env : Env) (a b : Db) (args : List Bytes) (ha : Inv a) (hb : Inv b) (h : DbEquiv a b)
    (hf : ReprFree args = true) :
    canonReply (cmdName args) (exec env a args).1 = canonReply (cmdName args) (exec env b args).1 ∧
    DbEquiv (exec env a args).2 (exec env b args).2 ∧ Inv (exec env a args).2 ∧ Inv (exec env b args).2 :=
  ⟨(exec_ok env a b args ⟨ha, hb, h⟩ hf).1, (exec_ok env a b args ⟨ha, hb, h⟩ hf).2, Global.exec_inv env a args ha,
    Global.exec_inv env b args hb⟩

/-- the driver's own comparison (`replyAgrees` after `canonReply`) accepts the one reply for the other -/
theorem exec_replies_agree_partial (env : Env) (a b : Db) (args : List Bytes) (ha : Inv a) (hb : Inv b) (h : DbEquiv a b)
    (hf : ReprFree args = true) :
    replyAgrees (canonReply (cmdName args) (exec env a args).1) (canonReply (cmdName args) (exec env b args).1) = true :=
  replyAgrees_of_eq (exec_respects_equiv_partial env a b args ha hb h hf).1

/-- for a command outside the seven that list a stored order, `canonReply` is the identity: the replies are equal as they are -/
theorem canon_id {n : Bytes} (h1 : pairedCmds.any (fun m => ofStr m == n) = false)
    (h2 : unorderedCmds.any (fun m => ofStr m == n) = false) (r : Reply) : canonReply n r = r := by
  unfold canonReply
  rw [if_neg (by rw [h1]; decide), if_neg (by rw [h2]; decide)]

theorem exec_reply_equal_partial (env : Env) (a b : Db) (args : List Bytes) (ha : Inv a) (hb : Inv b) (h : DbEquiv a b)
    (hf : ReprFree args = true) (h1 : pairedCmds.any (fun m => ofStr m == cmdName args) = false)
    (h2 : unorderedCmds.any (fun m => ofStr m == cmdName args) = false) : (exec env a args).1 = (exec env b args).1 := by
  have := (exec_respects_equiv_partial env a b args ha hb h hf).1
  rwa [canon_id h1 h2, canon_id h1 h2] at this

/-! ### programs -/

/-- the canonical replies of a run: each reply canonicalised under its own command's name -/
def canonRun : C06T.Prog → List Reply → List Reply
| (_, args) :: rest, r :: rs => canonReply (cmdName args) r :: canonRun rest rs
| _, _ => []

/-- **for programs**: two equivalent keyspaces answer every program without HRANDFIELD with the same canonical replies, step by
    step, and end equivalent (each step under its own clock reading, observed reply and float bits) -/
theorem prog_respects_equiv_partial : ∀ (prog : C06T.Prog) (a b : Db), Inv a → Inv b → DbEquiv a b →
    (∀ st ∈ prog, ReprFree st.2 = true) →
    canonRun prog (C06T.runProg a prog).1 = canonRun prog (C06T.runProg b prog).1 ∧
    DbEquiv (C06T.runProg a prog).2 (C06T.runProg b prog).2 ∧ Inv (C06T.runProg a prog).2 ∧ Inv (C06T.runProg b prog).2
| [], _, _, ha, hb, h, _ => ⟨rfl, h, ha, hb⟩
| (env, args) :: rest, a, b, ha, hb, h, hf => by
  have h1 := exec_respects_equiv_partial env a b args ha hb h (hf _ List.mem_cons_self)
  have ih := prog_respects_equiv_partial rest _ _ h1.2.2.1 h1.2.2.2 h1.2.1 (fun st hst => hf st (List.mem_cons_of_mem _ hst))
  unfold C06T.runProg
  exact ⟨by simp only [canonRun, h1.1, ih.1], ih.2⟩

/-! ### the keyspace part holds for ALL commands (HRANDFIELD is read-only) -/

abbrev StateOk (c : Cmd) : Prop := ∀ (env : Env) (a b : Db) (args : List Bytes), Sim a b → DbEquiv (c env a args).2 (c env b args).2

theorem EntryOk.state {p : String × Cmd} (h : EntryOk p) : StateOk p.2 := fun env a b args hs => (h env a b args hs).2

theorem hashRead_state (env : Env) {a b : Db} (k : Bytes) (body : HashT → Reply) (hs : Sim a b) :
    DbEquiv (hashRead env a k body).2 (hashRead env b k body).2 :=
  (e_hashRead (R := fun _ _ => True) (fun _ => trivial) env k body (fun _ _ _ => trivial) hs).2

theorem hrandWithCount_state (env : Env) {a b : Db} (k c : Bytes) (wv : Bool) (hs : Sim a b) :
    DbEquiv (hrandWithCount env a k c wv).2 (hrandWithCount env b k c wv).2 := by
  unfold hrandWithCount
  repeat' (first | exact hs.eqv | exact hashRead_state _ _ _ hs | split)

theorem hrandfield_state : StateOk cmdHRandField := by
  intro env a b args hs; unfold cmdHRandField
  repeat' (first | exact hs.eqv | exact hashRead_state _ _ _ hs | exact hrandWithCount_state _ _ _ _ hs | split)

theorem hash_state : ∀ p ∈ hashTable, StateOk p.2 :=
  List.forall_mem_cons.mpr ⟨(EntryOk.of_ok (n := "") e_hset).state, List.forall_mem_cons.mpr ⟨(EntryOk.of_ok (n := "") e_hsetnx).state,
  List.forall_mem_cons.mpr ⟨(EntryOk.of_ok (n := "") e_hget).state, List.forall_mem_cons.mpr ⟨(EntryOk.of_ok (n := "") e_hmget).state,
  List.forall_mem_cons.mpr ⟨fun env a b args hs => (e_hgetall env a b args hs).2,
  List.forall_mem_cons.mpr ⟨fun env a b args hs => (e_hkeys env a b args hs).2,
  List.forall_mem_cons.mpr ⟨fun env a b args hs => (e_hvals env a b args hs).2,
  List.forall_mem_cons.mpr ⟨(EntryOk.of_ok (n := "") e_hlen).state, List.forall_mem_cons.mpr ⟨(EntryOk.of_ok (n := "") e_hexists).state,
  List.forall_mem_cons.mpr ⟨(EntryOk.of_ok (n := "") e_hstrlen).state, List.forall_mem_cons.mpr ⟨(EntryOk.of_ok (n := "") e_hdel).state,
  List.forall_mem_cons.mpr ⟨(EntryOk.of_ok (n := "") e_hincrby).state, List.forall_mem_cons.mpr ⟨(EntryOk.of_ok (n := "") e_hincrbyfloat).state,
  List.forall_mem_cons.mpr ⟨hrandfield_state, fun _ h => nomatch h⟩⟩⟩⟩⟩⟩⟩⟩⟩⟩⟩⟩⟩⟩

theorem table_state : ∀ p ∈ cmdTable, StateOk p.2 := by
  intro p hp
  unfold cmdTable at hp
  simp only [List.mem_append, or_assoc] at hp
  rcases hp with h | h | h | h | h | h | h
  · exact (string_entries p h).state
  · exact (misc_entries p h).state
  · exact (set_entries p h).state
  · exact hash_state p h
  · exact (list_entries p h).state
  · exact (zset_entries p h).state
  · exact (stream_entries p h).state

/-- **the keyspace never records the representation** — for ALL 77 commands, HRANDFIELD included: equivalent keyspaces stay
    equivalent (and keep the invariant) under every command -/
theorem exec_state_respects_equiv (env : Env) (a b : Db) (args : List Bytes) (ha : Inv a) (hb : Inv b) (h : DbEquiv a b) :
    DbEquiv (exec env a args).2 (exec env b args).2 ∧ Inv (exec env a args).2 ∧ Inv (exec env b args).2 := by
  refine ⟨?_, Global.exec_inv env a args ha, Global.exec_inv env b args hb⟩
  unfold exec
  split
  · exact h
  · split
    · rename_i c hc
      unfold lookupCmd at hc
      obtain ⟨p, hp, rfl⟩ := Option.map_eq_some_iff.mp hc
      exact table_state p (List.mem_of_find?_eq_some hp) env a b _ ⟨ha, hb, h⟩
    · exact h

/-- … and under every program -/
theorem prog_state_respects_equiv : ∀ (prog : C06T.Prog) (a b : Db), Inv a → Inv b → DbEquiv a b →
    DbEquiv (C06T.runProg a prog).2 (C06T.runProg b prog).2 ∧ Inv (C06T.runProg a prog).2 ∧ Inv (C06T.runProg b prog).2
| [], _, _, ha, hb, h => ⟨h, ha, hb⟩
| (env, args) :: rest, a, b, ha, hb, h => by
  have h1 := exec_state_respects_equiv env a b args ha hb h
  unfold C06T.runProg
  exact prog_state_respects_equiv rest _ _ h1.2.1 h1.2.2 h1.1

/-! ### the relation is not equality, and the hypotheses are satisfiable -/

def exA : Db := [([115], { val := .set [[1], [2]] }), ([104], { val := .hash [([102], [49]), ([103], [50])], exp := some 9 })]
def exB : Db := [([104], { val := .hash [([103], [50]), ([102], [49])], exp := some 9 }), ([115], { val := .set [[2], [1]] })]

theorem exA_inv : Inv exA := by
  refine (Global.inv_iff_mem exA).mpr ⟨by unfold Db.WF; decide, ?_⟩
  intro p hp
  simp only [exA, List.mem_cons, List.mem_nil_iff, or_false] at hp
  rcases hp with rfl | rfl
  · show [[1], [2]].Nodup ∧ [[1], [2]] ≠ []; decide
  · exact ⟨by unfold HashSel.Ok; decide, by decide⟩

theorem exB_inv : Inv exB := by
  refine (Global.inv_iff_mem exB).mpr ⟨by unfold Db.WF; decide, ?_⟩
  intro p hp
  simp only [exB, List.mem_cons, List.mem_nil_iff, or_false] at hp
  rcases hp with rfl | rfl
  · exact ⟨by unfold HashSel.Ok; decide, by decide⟩
  · show [[2], [1]].Nodup ∧ [[2], [1]] ≠ []; decide

theorem exAB_equiv : DbEquiv exA exB := by
  intro k
  by_cases h1 : k = [115]
  · subst h1
    show OptEquiv (some _) (some _)
    exact ⟨List.Perm.swap _ _ _, rfl⟩
  · by_cases h2 : k = [104]
    · subst h2
      show OptEquiv (some _) (some _)
      exact ⟨List.Perm.swap _ _ _, rfl⟩
    · have n1 : (([115] : Bytes) == k) = false := beq_eq_false_iff_ne.mpr (Ne.symm h1)
      have n2 : (([104] : Bytes) == k) = false := beq_eq_false_iff_ne.mpr (Ne.symm h2)
      have ea : exA.get k = none := by
        simp [Db.get, exA, List.find?, n1, n2]
      have eb : exB.get k = none := by
        simp [Db.get, exB, List.find?, n1, n2]
      rw [ea, eb]; trivial

example : Inv exA ∧ Inv exB ∧ DbEquiv exA exB ∧ exA ≠ exB := ⟨exA_inv, exB_inv, exAB_equiv, by decide⟩

/-- HGETALL on the two presentations: different replies, the same canonical reply -/
example : replyEq (exec { now := 0 } exA [ofStr "HGETALL", [104]]).1 (exec { now := 0 } exB [ofStr "HGETALL", [104]]).1 = false := by
  decide +kernel
example : canonReply (cmdName [ofStr "HGETALL", [104]]) (exec { now := 0 } exA [ofStr "HGETALL", [104]]).1 =
    canonReply (cmdName [ofStr "HGETALL", [104]]) (exec { now := 0 } exB [ofStr "HGETALL", [104]]).1 :=
  (exec_respects_equiv_partial _ _ _ _ exA_inv exB_inv exAB_equiv (by decide +kernel)).1

/-! ### FINDING: HRANDFIELD leaks the representation when it falls back to its default answer -/

def hrandArgs : List Bytes := [ofStr "HRANDFIELD", [104]]

/-- the canonical replies differ: `exA` answers its first stored field `f`, `exB` its first stored field `g` -/
theorem hrandfield_witness :
    replyAgrees (canonReply (cmdName hrandArgs) (exec { now := 0 } exA hrandArgs).1)
      (canonReply (cmdName hrandArgs) (exec { now := 0 } exB hrandArgs).1) = false := by
  decide +kernel

/-- **the excluded command is excluded for a reason**: two keyspaces with the invariant, holding the same values up to the
    containers' own equality, on which HRANDFIELD (no observed reply: prediction mode, or a refused observation) gives different
    canonical replies.  The model's `hrandDefault` takes a prefix of the stored association list. -/
theorem hrandfield_leaks_representation : ∃ (env : Env) (a b : Db) (args : List Bytes), Inv a ∧ Inv b ∧ DbEquiv a b ∧
    ReprFree args = false ∧ canonReply (cmdName args) (exec env a args).1 ≠ canonReply (cmdName args) (exec env b args).1 := by
  refine ⟨{ now := 0 }, exA, exB, hrandArgs, exA_inv, exB_inv, exAB_equiv, by decide +kernel, fun h => ?_⟩
  have := replyAgrees_of_eq h
  rw [hrandfield_witness] at this
  cases this

/-- with an acceptable observation HRANDFIELD is representation-free: the shared read skeleton with the HRANDFIELD body answers the
    observation itself on both sides (acceptance is decided by lookups and the length, which do not depend on the presentation) -/
theorem hrandfield_respects_equiv_of_accepted (env : Env) (a b : Db) (k : Bytes) (count : Option Int) (wv : Bool) (hs : Sim a b)
    (o : Reply) (ho : env.obs = some o)
    (hacc : ∀ h, getHash (checkTTL a env.now k).1 k = some (some h) → hrandAccept h count wv o = true) :
    Res (hashRead env a k fun h => hrandReply env.obs h count wv) (hashRead env b k fun h => hrandReply env.obs h count wv) := by
  unfold hashRead
  obtain ⟨a', b', x, hca, hcb, hs'⟩ := hs.ttl env.now k
  rw [hca] at hacc
  simp only [hca, hcb]
  rcases getHash_cases hs' k with ⟨ha, hb⟩ | ⟨ha, hb⟩ | ⟨h, h', ha, hb, hr⟩ <;> simp only [ha, hb]
  · exact ⟨rfl, hs'.eqv⟩
  · exact ⟨rfl, hs'.eqv⟩
  · rw [ho]
    exact ⟨hrandReply_perm_of_accepted ⟨hr.1, hr.2.1, hr.2.2.1⟩ count wv o (hacc h ha), hs'.eqv⟩

/-! ### the FULL table in checker mode: the driver's verdict on the observed reply never depends on the representation

The differential driver runs the model with the implementation's reply as `env.obs` and accepts the step when
`replyAgrees (canonReply name r) (canonReply name obs)`.  For the `ReprFree` commands the canonical replies are equal, so the verdict
is the same whatever it is compared with.  For HRANDFIELD: an acceptable observation is answered by itself on both sides; a refused
one is answered by the fallback `hrandDefault`, which depends on the presentation but is itself an acceptable answer
(`hrandDefault_accepted`) and therefore different from the refused observation on both sides — the verdict is "disagree" on both. -/

/-- a refused observation is not matched by the fallback answer -/
theorem hrandDefault_disagrees {h : HashT} (ok : HashSel.Ok h) (count : Option Int) (wv : Bool) {o : Reply}
    (hn : hrandAccept h count wv o = false) : replyAgrees (hrandDefault h count wv) o = false := by
  cases hv : replyAgrees (hrandDefault h count wv) o with
  | false => rfl
  | true =>
    rcases replyAgrees_true_cases hv with ⟨e, he⟩ | he
    · exact absurd he (hrandDefault_not_err h count wv e)
    · rw [← he, hrandDefault_accepted ok] at hn; cases hn

theorem hrandReply_verdict {h h' : HashT} (hr : HashP h h') (count : Option Int) (wv : Bool) (o : Reply) :
    replyAgrees (hrandReply (some o) h count wv) o = replyAgrees (hrandReply (some o) h' count wv) o := by
  unfold hrandReply
  simp only
  rw [← hrandAccept_perm hr]
  cases hacc : hrandAccept h count wv o with
  | true => simp only [if_true]
  | false =>
    simp only [Bool.false_eq_true, if_false]
    rw [hrandDefault_disagrees hr.2.1 count wv hacc,
      hrandDefault_disagrees hr.2.2 count wv (by rw [← hrandAccept_perm hr]; exact hacc)]

/-- same verdict against `o`, equivalent keyspaces -/
def VerdictRes (o : Reply) (x y : Reply × Db) : Prop := replyAgrees x.1 o = replyAgrees y.1 o ∧ DbEquiv x.2 y.2

theorem hrandRead_verdict (env : Env) {a b : Db} (k : Bytes) (count : Option Int) (wv : Bool) (hs : Sim a b) (o : Reply)
    (ho : env.obs = some o) :
    VerdictRes o (hashRead env a k fun h => hrandReply env.obs h count wv) (hashRead env b k fun h => hrandReply env.obs h count wv) := by
  rw [ho]
  exact e_hashRead (R := fun r r' => replyAgrees r o = replyAgrees r' o) (fun _ => rfl) env k _
    (fun h h' hr => hrandReply_verdict hr count wv o) hs

theorem hrandWithCount_verdict (env : Env) {a b : Db} (k c : Bytes) (wv : Bool) (hs : Sim a b) (o : Reply) (ho : env.obs = some o) :
    VerdictRes o (hrandWithCount env a k c wv) (hrandWithCount env b k c wv) := by
  unfold hrandWithCount
  repeat' (first | exact ⟨rfl, hs.eqv⟩ | exact hrandRead_verdict _ _ _ _ hs o ho | split)

theorem cmdHRandField_verdict (env : Env) (a b : Db) (args : List Bytes) (hs : Sim a b) (o : Reply) (ho : env.obs = some o) :
    VerdictRes o (cmdHRandField env a args) (cmdHRandField env b args) := by
  unfold cmdHRandField
  repeat' (first | exact ⟨rfl, hs.eqv⟩ | exact hrandRead_verdict _ _ _ _ hs o ho | exact hrandWithCount_verdict _ _ _ _ hs o ho | split)

/-- a table entry in checker mode: the same verdict on the observed reply, equivalent keyspaces -/
def VerdictOk (p : String × Cmd) : Prop := ∀ (env : Env) (a b : Db) (args : List Bytes) (o : Reply), Sim a b → env.obs = some o →
  replyAgrees (canonReply (ofStr p.1) (p.2 env a args).1) (canonReply (ofStr p.1) o) =
    replyAgrees (canonReply (ofStr p.1) (p.2 env b args).1) (canonReply (ofStr p.1) o) ∧
  DbEquiv (p.2 env a args).2 (p.2 env b args).2

theorem EntryOk.verdict {p : String × Cmd} (h : EntryOk p) : VerdictOk p := fun env a b args o hs _ =>
  ⟨by rw [(h env a b args hs).1], (h env a b args hs).2⟩

theorem hrandfield_verdict : VerdictOk ("hrandfield", cmdHRandField) := by
  intro env a b args o hs ho
  have hid := canon_id (n := ofStr "hrandfield") (by decide +kernel) (by decide +kernel)
  simp only [hid]
  exact cmdHRandField_verdict env a b args hs o ho

theorem hash_verdict : ∀ p ∈ hashTable, VerdictOk p := by
  intro p hp
  by_cases h : p.1 = "hrandfield"
  · simp only [hashTable, List.mem_cons, List.mem_nil_iff, or_false] at hp
    rcases hp with rfl | rfl | rfl | rfl | rfl | rfl | rfl | rfl | rfl | rfl | rfl | rfl | rfl | rfl <;>
      first | exact hrandfield_verdict | exact absurd h (by decide)
  · exact (hash_entries p hp h).verdict

/-- all 77 entries -/
theorem table_verdict : ∀ p ∈ cmdTable, VerdictOk p := by
  intro p hp
  unfold cmdTable at hp
  simp only [List.mem_append, or_assoc] at hp
  rcases hp with h | h | h | h | h | h | h
  · exact (string_entries p h).verdict
  · exact (misc_entries p h).verdict
  · exact (set_entries p h).verdict
  · exact hash_verdict p h
  · exact (list_entries p h).verdict
  · exact (zset_entries p h).verdict
  · exact (stream_entries p h).verdict

/-- **Representation independence of the whole command table in checker mode** (all 77 commands, the empty and the unknown
    command): with the implementation's reply `o` as the observation, the driver's verdict
    `replyAgrees (canonReply name r) (canonReply name o)` is the same on two keyspaces that hold the same values up to the
    containers' own equality, and the resulting keyspaces are again equivalent and satisfy the invariant. -/
theorem driver_verdict_respects_equiv (env : Env) (a b : Db) (args : List Bytes) (o : Reply) (ha : Inv a) (hb : Inv b)
    (h : DbEquiv a b) (ho : env.obs = some o) :
    replyAgrees (canonReply (cmdName args) (exec env a args).1) (canonReply (cmdName args) o) =
      replyAgrees (canonReply (cmdName args) (exec env b args).1) (canonReply (cmdName args) o) ∧
    DbEquiv (exec env a args).2 (exec env b args).2 ∧ Inv (exec env a args).2 ∧ Inv (exec env b args).2 := by
  refine ⟨?_, exec_state_respects_equiv env a b args ha hb h⟩
  unfold exec
  split
  · rfl
  · rename_i name rest
    split
    · rename_i c hc
      unfold lookupCmd at hc
      obtain ⟨p, hp, rfl⟩ := Option.map_eq_some_iff.mp hc
      have hname : ofStr p.1 = lower name := by simpa using List.find?_some hp
      have := (table_verdict p (List.mem_of_find?_eq_some hp) env a b (name :: rest) o ⟨ha, hb, h⟩ ho).1
      unfold cmdName
      rw [List.headD_cons, ← hname]
      exact this
    · rfl

/-- the verdicts of a checked run: one per step that carries an observation (a step without one has nothing to compare) -/
def verdicts : Db → C06T.Prog → List Bool
| _, [] => []
| db, (env, args) :: rest =>
  (match env.obs with
    | some o => replyAgrees (canonReply (cmdName args) (exec env db args).1) (canonReply (cmdName args) o)
    | none => true) :: verdicts (exec env db args).2 rest

/-- **for programs, all commands**: a checked run gives the same verdicts, step by step, from two equivalent keyspaces -/
theorem verdicts_respect_equiv : ∀ (prog : C06T.Prog) (a b : Db), Inv a → Inv b → DbEquiv a b → verdicts a prog = verdicts b prog
| [], _, _, _, _, _ => rfl
| (env, args) :: rest, a, b, ha, hb, h => by
  have hst := exec_state_respects_equiv env a b args ha hb h
  have ih := verdicts_respect_equiv rest _ _ hst.2.1 hst.2.2 hst.1
  unfold verdicts
  rw [ih]
  cases ho : env.obs with
  | none => rfl
  | some o => simp only [(driver_verdict_respects_equiv env a b args o ha hb h ho).1]

/-- the canonical replies of the `ReprFree` steps of a run (an HRANDFIELD step contributes a placeholder) -/
def canonRunFree : C06T.Prog → List Reply → List Reply
| (_, args) :: rest, r :: rs => (if ReprFree args then canonReply (cmdName args) r else .bulk none) :: canonRunFree rest rs
| _, _ => []

/-- **for programs with HRANDFIELD steps interleaved**: every reply of every other step agrees, and the final keyspaces are
    equivalent (an HRANDFIELD step does not disturb what follows: it is read-only) -/
theorem prog_respects_equiv_mixed : ∀ (prog : C06T.Prog) (a b : Db), Inv a → Inv b → DbEquiv a b →
    canonRunFree prog (C06T.runProg a prog).1 = canonRunFree prog (C06T.runProg b prog).1 ∧
    DbEquiv (C06T.runProg a prog).2 (C06T.runProg b prog).2 ∧ Inv (C06T.runProg a prog).2 ∧ Inv (C06T.runProg b prog).2
| [], _, _, ha, hb, h => ⟨rfl, h, ha, hb⟩
| (env, args) :: rest, a, b, ha, hb, h => by
  have hst := exec_state_respects_equiv env a b args ha hb h
  have ih := prog_respects_equiv_mixed rest _ _ hst.2.1 hst.2.2 hst.1
  unfold C06T.runProg
  refine ⟨?_, ih.2⟩
  simp only [canonRunFree, ih.1]
  cases hf : ReprFree args with
  | false => rfl
  | true => simp only [if_true, (exec_respects_equiv_partial env a b args ha hb h hf).1]

end Exec.Equiv

/-! ## the snapshot consequences (C08) -/
namespace Snap
open Exec (Db Entry Value)
open Exec.Global (Inv GoodValue)
open Exec.Equiv (DbEquiv ReprFree cmdName)

theorem canonVal_good (v : Value) (hg : GoodValue v) : GoodValue (canonVal v) := by
  cases v with
  | str b => trivial
  | list l => exact hg
  | stream es last => exact hg
  | set s =>
    have hp : (setOrder s).Perm s := Exec.C06T.sortBytes_perm s
    refine ⟨(hp.nodup_iff).mpr hg.1, fun e => hg.2 ?_⟩
    have := hp.length_eq
    rw [e] at this
    exact List.eq_nil_of_length_eq_zero this.symm
  | hash h =>
    have hp : (hashOrder h).Perm h := sortK_perm h
    refine ⟨sortK_nodup hg.1, fun e => hg.2 ?_⟩
    have := hp.length_eq
    rw [e] at this
    exact List.eq_nil_of_length_eq_zero this.symm
  | zset t =>
    have hn : ((zsetOrder t).map (·.1)).Nodup := sortK_nodup (ZT.names_nodup hg.1)
    refine ⟨zbuild_inv hn, fun e => ?_⟩
    have hm := members_rebuild hg.1
    rw [e] at hm
    exact (GoodValue.nonEmpty (v := .zset t) hg).2 hm.symm

/-- the canonical presentation satisfies the table-wide invariant -/
theorem canon_inv (db : Db) (hi : Inv db) : Inv (canon db) := by
  obtain ⟨hw, hg⟩ := (Exec.Global.inv_iff_mem db).mp hi
  have hperm : (keyOrder db).Perm db := sortK_perm db
  refine (Exec.Global.inv_iff_mem _).mpr ⟨?_, ?_⟩
  · have : (canon db).map (·.1) = (keyOrder db).map (·.1) := by
      unfold canon; rw [List.map_map]; rfl
    unfold Exec.Db.WF
    rw [this]
    exact sortK_nodup hw
  · intro p hp
    unfold canon at hp
    obtain ⟨q, hq, rfl⟩ := List.mem_map.mp hp
    exact canonVal_good _ (hg q (hperm.subset hq))

theorem canon_dbEquiv (db : Db) (hi : Inv db) : DbEquiv (canon db) db := canon_equiv db hi

/-- **every command but HRANDFIELD answers on the keyspace restored from a snapshot as on the original one** (after `canonReply`),
    and leaves equivalent keyspaces: the C08 item that was "stated, not proved", for the `ReprFree` commands -/
theorem commands_agree_partial (env : Exec.Env) (db : Db) (args : List Bytes) (hi : Inv db) (hf : ReprFree args = true) :
    Exec.replyAgrees (Exec.canonReply (Exec.lower (args.headD [])) (Exec.exec env (canon db) args).1)
      (Exec.canonReply (Exec.lower (args.headD [])) (Exec.exec env db args).1) = true ∧
    DbEquiv (Exec.exec env (canon db) args).2 (Exec.exec env db args).2 :=
  ⟨Exec.Equiv.exec_replies_agree_partial env (canon db) db args (canon_inv db hi) hi (canon_dbEquiv db hi) hf,
    (Exec.Equiv.exec_respects_equiv_partial env (canon db) db args (canon_inv db hi) hi (canon_dbEquiv db hi) hf).2.1⟩

/-- a hash whose stored order is not the snapshot's (field) order -/
def cexDb : Db := [([104], { val := .hash [([103], [50]), ([102], [49])] })]

theorem cexDb_inv : Inv cexDb := by
  refine (Exec.Global.inv_iff_mem cexDb).mpr ⟨by unfold Exec.Db.WF; decide, ?_⟩
  intro p hp
  simp only [cexDb, List.mem_cons, List.mem_nil_iff, or_false] at hp
  subst hp
  exact ⟨by unfold HashSel.Ok; decide, by decide⟩

/-- **`commands_agree_statement` as it was written (ALL commands) is false**: HRANDFIELD in prediction mode answers the first stored
    field, and the snapshot reorders the fields -/
theorem commands_agree_statement_false : ¬ commands_agree_statement := by
  intro h
  have := h { now := 0 } cexDb Exec.Equiv.hrandArgs cexDb_inv (by unfold Bounded; decide)
  have hf : Exec.replyAgrees (Exec.canonReply (Exec.lower (Exec.Equiv.hrandArgs.headD []))
      (Exec.exec { now := 0 } (canon cexDb) Exec.Equiv.hrandArgs).1)
      (Exec.canonReply (Exec.lower (Exec.Equiv.hrandArgs.headD [])) (Exec.exec { now := 0 } cexDb Exec.Equiv.hrandArgs).1) = false := by
    decide +kernel
  rw [hf] at this
  cases this

/-- **a node restored from a snapshot is indistinguishable from the original**: loading `encode db` succeeds, and the restored node
    answers every subsequent program without HRANDFIELD with the same canonical replies, step by step, as the node that took the
    snapshot, and ends in an equivalent keyspace -/
theorem restored_node_indistinguishable_partial (db : Db) (hi : Inv db) (hb : Bounded db) (prog : Exec.C06T.Prog)
    (hf : ∀ st ∈ prog, ReprFree st.2 = true) :
    ∃ db', decode (encode db) = some db' ∧
      Exec.Equiv.canonRun prog (Exec.C06T.runProg db' prog).1 = Exec.Equiv.canonRun prog (Exec.C06T.runProg db prog).1 ∧
      DbEquiv (Exec.C06T.runProg db' prog).2 (Exec.C06T.runProg db prog).2 := by
  refine ⟨canon db, decode_encode db hi hb, ?_⟩
  have := Exec.Equiv.prog_respects_equiv_partial prog (canon db) db (canon_inv db hi) hi (canon_dbEquiv db hi) hf
  exact ⟨this.1, this.2.1⟩

/-- … with HRANDFIELD steps interleaved: all other replies agree -/
theorem restored_node_indistinguishable_mixed (db : Db) (hi : Inv db) (hb : Bounded db) (prog : Exec.C06T.Prog) :
    ∃ db', decode (encode db) = some db' ∧
      Exec.Equiv.canonRunFree prog (Exec.C06T.runProg db' prog).1 = Exec.Equiv.canonRunFree prog (Exec.C06T.runProg db prog).1 ∧
      DbEquiv (Exec.C06T.runProg db' prog).2 (Exec.C06T.runProg db prog).2 := by
  refine ⟨canon db, decode_encode db hi hb, ?_⟩
  have := Exec.Equiv.prog_respects_equiv_mixed prog (canon db) db (canon_inv db hi) hi (canon_dbEquiv db hi)
  exact ⟨this.1, this.2.1⟩

/-- **checker mode, all commands**: the differential driver, checking a node restored from a snapshot against any observed run,
    reaches exactly the verdicts it reaches checking the original node -/
theorem restored_node_same_verdicts (db : Db) (hi : Inv db) (hb : Bounded db) (prog : Exec.C06T.Prog) :
    ∃ db', decode (encode db) = some db' ∧ Exec.Equiv.verdicts db' prog = Exec.Equiv.verdicts db prog :=
  ⟨canon db, decode_encode db hi hb,
    Exec.Equiv.verdicts_respect_equiv prog (canon db) db (canon_inv db hi) hi (canon_dbEquiv db hi)⟩

/-- two nodes restored from the same bytes are indistinguishable from each other as well -/
theorem same_snapshot_same_answers_partial (a b : Db) (ha : Inv a) (hb : Inv b) (h : DbEquiv a b) (prog : Exec.C06T.Prog)
    (hf : ∀ st ∈ prog, ReprFree st.2 = true) :
    Exec.Equiv.canonRun prog (Exec.C06T.runProg (canon a) prog).1 = Exec.Equiv.canonRun prog (Exec.C06T.runProg (canon b) prog).1 :=
  (Exec.Equiv.prog_respects_equiv_partial prog (canon a) (canon b) (canon_inv a ha) (canon_inv b hb)
    (((canon_dbEquiv a ha).trans h).trans (canon_dbEquiv b hb).symm) hf).1

example : ∃ db', decode (encode exDb) = some db' ∧
    Exec.Equiv.canonRun [] (Exec.C06T.runProg db' []).1 = Exec.Equiv.canonRun [] (Exec.C06T.runProg exDb []).1 ∧
    DbEquiv (Exec.C06T.runProg db' []).2 (Exec.C06T.runProg exDb []).2 :=
  restored_node_indistinguishable_partial exDb exDb_inv exDb_bounded [] (fun _ h => nomatch h)

end Snap

#print axioms Exec.Equiv.exec_respects_equiv_partial
#print axioms Exec.Equiv.exec_replies_agree_partial
#print axioms Exec.Equiv.exec_reply_equal_partial
#print axioms Exec.Equiv.prog_respects_equiv_partial
#print axioms Exec.Equiv.table_entries
#print axioms Exec.Equiv.exec_state_respects_equiv
#print axioms Exec.Equiv.prog_state_respects_equiv
#print axioms Exec.Equiv.driver_verdict_respects_equiv
#print axioms Exec.Equiv.verdicts_respect_equiv
#print axioms Exec.Equiv.prog_respects_equiv_mixed
#print axioms Exec.Equiv.hrandDefault_accepted
#print axioms Exec.Equiv.hrandfield_witness
#print axioms Exec.Equiv.hrandfield_leaks_representation
#print axioms Exec.Equiv.hrandfield_respects_equiv_of_accepted
#print axioms Snap.canon_inv
#print axioms Snap.commands_agree_partial
#print axioms Snap.commands_agree_statement_false
#print axioms Snap.restored_node_indistinguishable_partial
#print axioms Snap.restored_node_indistinguishable_mixed
#print axioms Snap.restored_node_same_verdicts
#print axioms Snap.same_snapshot_same_answers_partial
