import RedisGoModel.Props.C07TString
import RedisGoModel.Props.C07TColl
import RedisGoModel.Props.C07TZS
/-! # C07 — "nodes that have applied the same log prefix hold identical keyspaces"

Clause of C07: *replicas apply the same history: nodes that have applied the same log prefix hold identical keyspaces.*

Context.  In cluster mode every replica applies the same committed log (Raft theorems: committed logs agree; `Cluster/Apply.lean`:
every committed entry is applied exactly once, in index order; `Props/C14.lean`: the log carries the argument vector unchanged) to
its own keyspace — with its OWN clock, its own random source and its own float formatting.  In the model this is: the same list of
argument vectors run through `Exec.exec` under two *different* sequences of environments (`Env` = clock reading `now`, observed
choice `obs` of the checker-mode commands, `fl` = `strconv.ParseFloat` of the arguments).

* `C07_replicas_statement` is the full clause.  It is **false**, for the model as for the pinned code
  (`C07_replicas_statement_false`; kernel-evaluated witnesses `set_ex_env_dependent`, `expire_env_dependent`,
  `spop_env_dependent`, `xadd_auto_env_dependent`, mirroring the recorded findings `replicas-own-clock-ttl`,
  `replicas-own-random-spop`, `replicas-own-clock-xadd`).
* `C07_replicas_partial` (= `replicas_agree`) is the fragment that holds: for every log all of whose entries are `Deterministic`
  (a decidable classification by command name and options: everything except SPOP, SRANDMEMBER, HRANDFIELD, INCRBYFLOAT,
  HINCRBYFLOAT, XADD with a `*` ID, EXPIRE, SETEX, SET with EX/PX/EXAT and — a model artefact, see below — ZADD, BLPOP, BRPOP),
  from the same well-formed start without deadlines, ANY two sequences of environments give identical replies and identical
  keyspaces after every prefix.  `C07_replicas_fl_partial` adds ZADD (all options, INCR included: the addition is `ZT.fadd`, a
  function) and BLPOP/BRPOP under the hypothesis that the two replicas' `ParseFloat` readings of the arguments agree
  (`env.fl` is a function of the argument bytes in the implementation, but a free field of `Env` in the model).
* `C07_same_clock_partial`: with the SAME clock readings (what a leader-assigned timestamp in the log entry would give) and the
  same ParseFloat readings, every command outside the random/float-arithmetic set agrees on ANY keyspace, deadlines included —
  relative TTLs (EXPIRE, SETEX, SET EX/PX) and TTL replies are then deterministic; what remains is SPOP, SRANDMEMBER, HRANDFIELD,
  INCRBYFLOAT, HINCRBYFLOAT, XADD `*`.

* `classification_tight`: every class left out of `Deterministic` has a kernel-evaluated diverging witness, so the fragment
  cannot be enlarged by command name/options.

All 77 table entries are covered (`table_ok`); `exec` is connected to the table through `List.find?` membership, so no
command-name string is evaluated in the general theorems.  What is NOT proved is exactly the rest of the clause: agreement for
the commands outside `Deterministic`, and for keyspaces that hold deadlines under different clocks — both are false
(the witnesses) and are the recorded findings. -/
namespace Exec.C07
open Resp (Reply Bytes)
open Exec

/-- a replica: apply the log entries in order, the `i`-th under the environment `envs i` of this replica -/
def runLog (envs : Nat → Env) : Db → List (List Bytes) → List Reply × Db
| db, [] => ([], db)
| db, args :: rest =>
  ((exec (envs 0) db args).1 :: (runLog (fun i => envs (i + 1)) (exec (envs 0) db args).2 rest).1,
   (runLog (fun i => envs (i + 1)) (exec (envs 0) db args).2 rest).2)

/-- **the full clause** (NOT claimed — see `C07_replicas_statement_false`): for every log and any two replicas (arbitrary
    environments at every step), the same well-formed initial keyspace gives identical keyspaces after the same prefix -/
def C07_replicas_statement : Prop :=
  ∀ (log : List (List Bytes)) (e1 e2 : Nat → Env) (db : Db) (n : Nat), db.WF →
    (runLog e1 db (log.take n)).2 = (runLog e2 db (log.take n)).2

/-! ### 1. the full clause is false: kernel-evaluated witnesses (all from the empty keyspace) -/

def kK : Bytes := [107]
def kS : Bytes := [115]
def kX : Bytes := [120]

/-- `SET k v EX 100` at clock 0 and at clock 3: deadlines 100 and 103 (finding `replicas-own-clock-ttl`) -/
theorem set_ex_env_dependent :
    (exec { now := 0 } [] [ofStr "SET", kK, [118], ofStr "EX", ofStr "100"]).2 = [(kK, { val := .str [118], exp := some 100 })] ∧
    (exec { now := 3 } [] [ofStr "SET", kK, [118], ofStr "EX", ofStr "100"]).2 = [(kK, { val := .str [118], exp := some 103 })] := by
  decide +kernel

def logExpire : List (List Bytes) := [[ofStr "SET", kK, [118]], [ofStr "EXPIRE", kK, ofStr "10"]]

/-- `SET k v; EXPIRE k 10` with the second command at clock 0 resp. 3: deadlines 10 and 13 -/
theorem expire_env_dependent :
    (runLog (fun _ => { now := 0 }) [] logExpire).2 = [(kK, { val := .str [118], exp := some 10 })] ∧
    (runLog (fun i => { now := 3 * i }) [] logExpire).2 = [(kK, { val := .str [118], exp := some 13 })] := by
  decide +kernel

def logSpop : List (List Bytes) := [[ofStr "SADD", kS, [97], [98]], [ofStr "SPOP", kS]]

/-- `SADD s a b; SPOP s` where one replica's random source picks `a`, the other's `b` (both choices are accepted by the
    checker): the sets differ (finding `replicas-own-random-spop`) -/
theorem spop_env_dependent :
    (runLog (fun _ => { now := 0, obs := some (.bulk (some [97])) }) [] logSpop).2 ≠
    (runLog (fun _ => { now := 0, obs := some (.bulk (some [98])) }) [] logSpop).2 := by
  decide +kernel

/-- `XADD x * f v` in the same second, the two millisecond clocks reading 1000 and 1500 (both accepted by `autoOk` for
    `now = 1`): entry IDs 1000-0 and 1500-0 (finding `replicas-own-clock-xadd`) -/
theorem xadd_auto_env_dependent :
    (exec { now := 1, obs := some (.bulk (some (ofStr "1000-0"))) } [] [ofStr "XADD", kX, [42], [102], [118]]).2
      = [(kX, { val := .stream [⟨⟨1000, 0⟩, [[102], [118]]⟩] ⟨1000, 0⟩ })] ∧
    (exec { now := 1, obs := some (.bulk (some (ofStr "1500-0"))) } [] [ofStr "XADD", kX, [42], [102], [118]]).2
      = [(kX, { val := .stream [⟨⟨1500, 0⟩, [[102], [118]]⟩] ⟨1500, 0⟩ })] := by
  decide +kernel

/-- the clause "same prefix ⇒ identical keyspaces" does not hold for arbitrary logs: already a one-entry log from the empty
    keyspace separates two replicas whose clocks differ by three seconds -/
theorem C07_replicas_statement_false : ¬ C07_replicas_statement := by
  intro h
  have := h [[ofStr "SET", kK, [118], ofStr "EX", ofStr "100"]] (fun _ => { now := 0 }) (fun _ => { now := 3 }) [] 1 Db.wf_nil
  revert this
  decide +kernel

/-! ### 2. every table entry meets its obligations -/

macro "c07_nofl" : tactic => `(tactic| (unfold CmdNoFl; first
  | (intro hn; exact absurd (by decide) hn)
  | (intro _ _ _ _ _ _ _; rfl)))

macro "c07_noobs" : tactic => `(tactic| (unfold CmdNoObs; first
  | (intro hn; exact absurd (by decide) hn)
  | (intro _ _ _ _ _ _ _ _; rfl)))

theorem xadd_noobs : CmdNoObs "xadd" cmdXAdd :=
  fun _ _ _ _ _ db args hx => xadd_det_aux _ _ db args (hx rfl) (fun _ => rfl)

theorem string_ok : ∀ p ∈ stringKeyTable, EntryOk p :=
  List.forall_mem_cons.mpr ⟨⟨d_set, by c07_nofl, by c07_noobs⟩, List.forall_mem_cons.mpr ⟨⟨d_get, by c07_nofl, by c07_noobs⟩, List.forall_mem_cons.mpr ⟨⟨d_getrange, by c07_nofl, by c07_noobs⟩, List.forall_mem_cons.mpr ⟨⟨d_setrange, by c07_nofl, by c07_noobs⟩, List.forall_mem_cons.mpr ⟨⟨d_mget, by c07_nofl, by c07_noobs⟩, List.forall_mem_cons.mpr ⟨⟨d_mset, by c07_nofl, by c07_noobs⟩, List.forall_mem_cons.mpr ⟨⟨d_setex, by c07_nofl, by c07_noobs⟩, List.forall_mem_cons.mpr ⟨⟨d_setnx, by c07_nofl, by c07_noobs⟩, List.forall_mem_cons.mpr ⟨⟨d_strlen, by c07_nofl, by c07_noobs⟩, List.forall_mem_cons.mpr ⟨⟨d_incr, by c07_nofl, by c07_noobs⟩, List.forall_mem_cons.mpr ⟨⟨d_incrby, by c07_nofl, by c07_noobs⟩, List.forall_mem_cons.mpr ⟨⟨d_decr, by c07_nofl, by c07_noobs⟩, List.forall_mem_cons.mpr ⟨⟨d_decrby, by c07_nofl, by c07_noobs⟩, List.forall_mem_cons.mpr ⟨⟨d_incrbyfloat, by c07_nofl, by c07_noobs⟩, List.forall_mem_cons.mpr ⟨⟨d_append, by c07_nofl, by c07_noobs⟩, List.forall_mem_cons.mpr ⟨⟨d_ping, by c07_nofl, by c07_noobs⟩, List.forall_mem_cons.mpr ⟨⟨d_del, by c07_nofl, by c07_noobs⟩, List.forall_mem_cons.mpr ⟨⟨d_exists, by c07_nofl, by c07_noobs⟩, List.forall_mem_cons.mpr ⟨⟨d_keys, by c07_nofl, by c07_noobs⟩, List.forall_mem_cons.mpr ⟨⟨d_expire, by c07_nofl, by c07_noobs⟩, List.forall_mem_cons.mpr ⟨⟨d_persist, by c07_nofl, by c07_noobs⟩, List.forall_mem_cons.mpr ⟨⟨d_ttl, by c07_nofl, by c07_noobs⟩, List.forall_mem_cons.mpr ⟨⟨d_type, by c07_nofl, by c07_noobs⟩, List.forall_mem_cons.mpr ⟨⟨d_rename, by c07_nofl, by c07_noobs⟩, fun _ h => nomatch h⟩⟩⟩⟩⟩⟩⟩⟩⟩⟩⟩⟩⟩⟩⟩⟩⟩⟩⟩⟩⟩⟩⟩⟩

theorem misc_ok : ∀ p ∈ miscTable, EntryOk p :=
  List.forall_mem_cons.mpr ⟨⟨d_publish, by c07_nofl, by c07_noobs⟩, List.forall_mem_cons.mpr ⟨⟨d_member, by c07_nofl, by c07_noobs⟩, List.forall_mem_cons.mpr ⟨⟨d_rconf, by c07_nofl, by c07_noobs⟩, fun _ h => nomatch h⟩⟩⟩

theorem set_ok : ∀ p ∈ setTable, EntryOk p :=
  List.forall_mem_cons.mpr ⟨⟨d_sadd, by c07_nofl, by c07_noobs⟩, List.forall_mem_cons.mpr ⟨⟨d_srem, by c07_nofl, by c07_noobs⟩, List.forall_mem_cons.mpr ⟨⟨d_sismember, by c07_nofl, by c07_noobs⟩, List.forall_mem_cons.mpr ⟨⟨d_scard, by c07_nofl, by c07_noobs⟩, List.forall_mem_cons.mpr ⟨⟨d_smembers, by c07_nofl, by c07_noobs⟩, List.forall_mem_cons.mpr ⟨⟨d_smove, by c07_nofl, by c07_noobs⟩, List.forall_mem_cons.mpr ⟨⟨d_spop, by c07_nofl, by c07_noobs⟩, List.forall_mem_cons.mpr ⟨⟨d_srandmember, by c07_nofl, by c07_noobs⟩, List.forall_mem_cons.mpr ⟨⟨d_sunion, by c07_nofl, by c07_noobs⟩, List.forall_mem_cons.mpr ⟨⟨d_sinter, by c07_nofl, by c07_noobs⟩, List.forall_mem_cons.mpr ⟨⟨d_sdiff, by c07_nofl, by c07_noobs⟩, List.forall_mem_cons.mpr ⟨⟨d_sunionstore, by c07_nofl, by c07_noobs⟩, List.forall_mem_cons.mpr ⟨⟨d_sinterstore, by c07_nofl, by c07_noobs⟩, List.forall_mem_cons.mpr ⟨⟨d_sdiffstore, by c07_nofl, by c07_noobs⟩, fun _ h => nomatch h⟩⟩⟩⟩⟩⟩⟩⟩⟩⟩⟩⟩⟩⟩

theorem hash_ok : ∀ p ∈ hashTable, EntryOk p :=
  List.forall_mem_cons.mpr ⟨⟨d_hset, by c07_nofl, by c07_noobs⟩, List.forall_mem_cons.mpr ⟨⟨d_hsetnx, by c07_nofl, by c07_noobs⟩, List.forall_mem_cons.mpr ⟨⟨d_hget, by c07_nofl, by c07_noobs⟩, List.forall_mem_cons.mpr ⟨⟨d_hmget, by c07_nofl, by c07_noobs⟩, List.forall_mem_cons.mpr ⟨⟨d_hgetall, by c07_nofl, by c07_noobs⟩, List.forall_mem_cons.mpr ⟨⟨d_hkeys, by c07_nofl, by c07_noobs⟩, List.forall_mem_cons.mpr ⟨⟨d_hvals, by c07_nofl, by c07_noobs⟩, List.forall_mem_cons.mpr ⟨⟨d_hlen, by c07_nofl, by c07_noobs⟩, List.forall_mem_cons.mpr ⟨⟨d_hexists, by c07_nofl, by c07_noobs⟩, List.forall_mem_cons.mpr ⟨⟨d_hstrlen, by c07_nofl, by c07_noobs⟩, List.forall_mem_cons.mpr ⟨⟨d_hdel, by c07_nofl, by c07_noobs⟩, List.forall_mem_cons.mpr ⟨⟨d_hincrby, by c07_nofl, by c07_noobs⟩, List.forall_mem_cons.mpr ⟨⟨d_hincrbyfloat, by c07_nofl, by c07_noobs⟩, List.forall_mem_cons.mpr ⟨⟨d_hrandfield, by c07_nofl, by c07_noobs⟩, fun _ h => nomatch h⟩⟩⟩⟩⟩⟩⟩⟩⟩⟩⟩⟩⟩⟩

theorem list_ok : ∀ p ∈ listTable, EntryOk p :=
  List.forall_mem_cons.mpr ⟨⟨d_llen, by c07_nofl, by c07_noobs⟩, List.forall_mem_cons.mpr ⟨⟨d_lindex, by c07_nofl, by c07_noobs⟩, List.forall_mem_cons.mpr ⟨⟨d_lpos, by c07_nofl, by c07_noobs⟩, List.forall_mem_cons.mpr ⟨⟨d_lpop, by c07_nofl, by c07_noobs⟩, List.forall_mem_cons.mpr ⟨⟨d_rpop, by c07_nofl, by c07_noobs⟩, List.forall_mem_cons.mpr ⟨⟨d_lpush, by c07_nofl, by c07_noobs⟩, List.forall_mem_cons.mpr ⟨⟨d_lpushx, by c07_nofl, by c07_noobs⟩, List.forall_mem_cons.mpr ⟨⟨d_rpush, by c07_nofl, by c07_noobs⟩, List.forall_mem_cons.mpr ⟨⟨d_rpushx, by c07_nofl, by c07_noobs⟩, List.forall_mem_cons.mpr ⟨⟨d_lset, by c07_nofl, by c07_noobs⟩, List.forall_mem_cons.mpr ⟨⟨d_lrem, by c07_nofl, by c07_noobs⟩, List.forall_mem_cons.mpr ⟨⟨d_ltrim, by c07_nofl, by c07_noobs⟩, List.forall_mem_cons.mpr ⟨⟨d_lrange, by c07_nofl, by c07_noobs⟩, List.forall_mem_cons.mpr ⟨⟨d_lmove, by c07_nofl, by c07_noobs⟩, List.forall_mem_cons.mpr ⟨⟨d_blpop, by c07_nofl, by c07_noobs⟩, List.forall_mem_cons.mpr ⟨⟨d_brpop, by c07_nofl, by c07_noobs⟩, fun _ h => nomatch h⟩⟩⟩⟩⟩⟩⟩⟩⟩⟩⟩⟩⟩⟩⟩⟩

theorem zset_ok : ∀ p ∈ zsetTable, EntryOk p :=
  List.forall_mem_cons.mpr ⟨⟨d_zadd, by c07_nofl, by c07_noobs⟩, List.forall_mem_cons.mpr ⟨⟨d_zrem, by c07_nofl, by c07_noobs⟩, List.forall_mem_cons.mpr ⟨⟨d_zrange, by c07_nofl, by c07_noobs⟩, List.forall_mem_cons.mpr ⟨⟨d_zrank, by c07_nofl, by c07_noobs⟩, fun _ h => nomatch h⟩⟩⟩⟩

theorem stream_ok : ∀ p ∈ streamTable, EntryOk p :=
  List.forall_mem_cons.mpr ⟨⟨d_xadd, by c07_nofl, xadd_noobs⟩, List.forall_mem_cons.mpr ⟨⟨d_xrange, by c07_nofl, by c07_noobs⟩, fun _ h => nomatch h⟩⟩

theorem table_ok : ∀ p ∈ cmdTable, EntryOk p := by
  intro p hp
  unfold cmdTable at hp
  simp only [List.mem_append, or_assoc] at hp
  rcases hp with h | h | h | h | h | h | h
  · exact string_ok p h
  · exact misc_ok p h
  · exact set_ok p h
  · exact hash_ok p h
  · exact list_ok p h
  · exact zset_ok p h
  · exact stream_ok p h

/-! ### 3. dispatch -/

/-- whatever `exec` selects is a table entry whose name is the (lower-cased) command word, or one of the two fixed errors -/
theorem exec_cases (args : List Bytes) :
    (∀ env db, exec env db args = (.err (ofStr "ERR empty command"), db)) ∨
    (∀ env db, exec env db args = (.err (ofStr "ERR unknown command"), db)) ∨
    ∃ name rest p, args = name :: rest ∧ p ∈ cmdTable ∧ (ofStr p.1 == lower name) = true ∧ ∀ env db, exec env db args = p.2 env db args := by
  cases args with
  | nil => exact Or.inl fun _ _ => rfl
  | cons name rest =>
    cases hl : lookupCmd (lower name) with
    | none => exact Or.inr (Or.inl fun env db => by simp only [exec, hl])
    | some c =>
      refine Or.inr (Or.inr ?_)
      unfold lookupCmd at hl
      obtain ⟨p, hp, rfl⟩ := Option.map_eq_some_iff.mp hl
      have hn : (fun q : String × Cmd => ofStr q.1 == lower name) p = true :=
        List.find?_some (p := fun q : String × Cmd => ofStr q.1 == lower name) hp
      refine ⟨name, rest, p, rfl, List.mem_of_find?_eq_some hp, hn, fun env db => ?_⟩
      simp only [exec, lookupCmd, hp, Option.map_some]

theorem notFloat_of {s : String} {name : Bytes} {rest : List Bytes} (hd : Deterministic (name :: rest) = true)
    (hn : (ofStr s == lower name) = true) : s ∉ floatArgNames := by
  simp only [Deterministic, Bool.and_eq_true, Bool.not_eq_true'] at hd
  intro hm
  rw [nameIn_of_mem hm hn] at hd
  exact absurd hd.2 (by decide)

theorem clockDet_of {s : String} {name : Bytes} {rest : List Bytes} (hd : ClockDeterministic (name :: rest) = true)
    (hn : (ofStr s == lower name) = true) : s ∉ randomNames ∧ (s = "xadd" → xaddDet (name :: rest) = true) := by
  simp only [ClockDeterministic, Bool.and_eq_true, Bool.not_eq_true', Bool.or_eq_true] at hd
  refine ⟨fun hm => ?_, fun he => ?_⟩
  · rw [nameIn_of_mem hm hn] at hd; exact absurd hd.1 (by decide)
  · subst he; rcases hd.2 with h4 | h4
    · rw [hn] at h4; cases h4
    · exact h4

/-- physical form of the step theorem: same `fl`, arbitrary clocks and observations -/
theorem exec_det (n1 n2 : Int) (o1 o2 : Option Reply) (fl : Nat → Option UInt64) (db : Db) (args : List Bytes)
    (h : NoDLp db) (hd : DeterministicFl args = true) :
    exec ⟨n1, o1, fl⟩ db args = exec ⟨n2, o2, fl⟩ db args ∧ NoDLp (exec ⟨n1, o1, fl⟩ db args).2 := by
  rcases exec_cases args with he | he | ⟨name, rest, p, rfl, hp, hn, he⟩
  · rw [he, he]; exact ⟨rfl, h⟩
  · rw [he, he]; exact ⟨rfl, h⟩
  · rw [he, he]; exact (table_ok p hp).det n1 n2 o1 o2 fl db _ h (detFor_of hd hn)

theorem exec_nofl (n : Int) (o : Option Reply) (fl1 fl2 : Nat → Option UInt64) (db : Db) (args : List Bytes)
    (hd : Deterministic args = true) : exec ⟨n, o, fl1⟩ db args = exec ⟨n, o, fl2⟩ db args := by
  rcases exec_cases args with he | he | ⟨name, rest, p, rfl, hp, hn, he⟩
  · rw [he, he]
  · rw [he, he]
  · rw [he, he]; exact (table_ok p hp).nofl (notFloat_of hd hn) n o fl1 fl2 db _

theorem exec_noobs (n : Int) (o1 o2 : Option Reply) (fl : Nat → Option UInt64) (db : Db) (args : List Bytes)
    (hd : ClockDeterministic args = true) : exec ⟨n, o1, fl⟩ db args = exec ⟨n, o2, fl⟩ db args := by
  rcases exec_cases args with he | he | ⟨name, rest, p, rfl, hp, hn, he⟩
  · rw [he, he]
  · rw [he, he]
  · rw [he, he]; exact (table_ok p hp).noobs (clockDet_of hd hn).1 n o1 o2 fl db _ (clockDet_of hd hn).2

theorem deterministic_fl {args : List Bytes} (hd : Deterministic args = true) : DeterministicFl args = true := by
  simp only [Deterministic, Bool.and_eq_true] at hd; exact hd.1

/-- every command keeps the keyspace well-formed (from the C06 table theorem) -/
theorem exec_wf (env : Env) (db : Db) (args : List Bytes) (hw : db.WF) : (exec env db args).2.WF :=
  (C06T.c06_congruence env db db args hw hw (C06T.LiveEq.refl _ _)).2.2

/-! ### 4. one log entry -/

/-- **one step, same ParseFloat readings**: a `DeterministicFl` command on a well-formed keyspace without deadlines gives the
    same reply and the same keyspace under any two clocks and any two observations; the result has no deadline and is
    well-formed -/
theorem replicas_agree_step_fl (env1 env2 : Env) (db : Db) (args : List Bytes) (hd : DeterministicFl args = true)
    (hn : NoDeadlines db) (hw : db.WF) (hfl : env1.fl = env2.fl) :
    exec env1 db args = exec env2 db args ∧ NoDeadlines (exec env1 db args).2 ∧ (exec env1 db args).2.WF := by
  obtain ⟨n1, o1, fl1⟩ := env1
  obtain ⟨n2, o2, fl2⟩ := env2
  simp only at hfl; subst hfl
  have := exec_det n1 n2 o1 o2 fl1 db args ((noDLp_iff hw).mpr hn) hd
  exact ⟨this.1, this.2.noDeadlines, exec_wf _ db args hw⟩

/-- **one step, ANY two environments** -/
theorem replicas_agree_step (env1 env2 : Env) (db : Db) (args : List Bytes) (hd : Deterministic args = true)
    (hn : NoDeadlines db) (hw : db.WF) :
    exec env1 db args = exec env2 db args ∧ NoDeadlines (exec env1 db args).2 ∧ (exec env1 db args).2.WF := by
  obtain ⟨n1, o1, fl1⟩ := env1
  obtain ⟨n2, o2, fl2⟩ := env2
  have h1 := exec_det n1 n2 o1 o2 fl1 db args ((noDLp_iff hw).mpr hn) (deterministic_fl hd)
  exact ⟨h1.1.trans (exec_nofl n2 o2 fl1 fl2 db args hd), h1.2.noDeadlines, exec_wf _ db args hw⟩

/-- **one step, same clock and ParseFloat readings, ANY keyspace** (deadlines allowed, well-formedness not needed) -/
theorem replicas_agree_step_same_clock (env1 env2 : Env) (db : Db) (args : List Bytes) (hd : ClockDeterministic args = true)
    (hnow : env1.now = env2.now) (hfl : env1.fl = env2.fl) : exec env1 db args = exec env2 db args := by
  obtain ⟨n1, o1, fl1⟩ := env1
  obtain ⟨n2, o2, fl2⟩ := env2
  simp only at hnow hfl; subst hnow; subst hfl
  exact exec_noobs n1 o1 o2 fl1 db args hd

/-! ### 5. logs -/

theorem take_succ_cons {α : Type} (a : α) (l : List α) (n : Nat) : (a :: l).take (n + 1) = a :: l.take n := rfl

/-- **replicas agree (deterministic fragment)**: identical replies and identical keyspaces after every prefix -/
theorem replicas_agree : ∀ (log : List (List Bytes)), (∀ args ∈ log, Deterministic args = true) →
    ∀ (e1 e2 : Nat → Env) (db : Db), NoDeadlines db → db.WF → ∀ n : Nat,
      runLog e1 db (log.take n) = runLog e2 db (log.take n) ∧
      NoDeadlines (runLog e1 db (log.take n)).2 ∧ (runLog e1 db (log.take n)).2.WF
| [], _, _, _, db, hn, hw, n => by rw [List.take_nil]; exact ⟨rfl, hn, hw⟩
| args :: rest, hall, e1, e2, db, hn, hw, 0 => ⟨rfl, hn, hw⟩
| args :: rest, hall, e1, e2, db, hn, hw, n + 1 => by
  have hs := replicas_agree_step (e1 0) (e2 0) db args (hall args (List.mem_cons_self ..)) hn hw
  have ih := replicas_agree rest (fun a ha => hall a (List.mem_cons_of_mem _ ha)) (fun i => e1 (i + 1)) (fun i => e2 (i + 1))
    _ hs.2.1 hs.2.2 n
  rw [take_succ_cons]
  unfold runLog
  refine ⟨?_, ih.2⟩
  rw [← hs.1, ih.1]

/-- the same with ZADD, BLPOP, BRPOP included, for replicas whose ParseFloat readings agree at every step -/
theorem replicas_agree_fl : ∀ (log : List (List Bytes)), (∀ args ∈ log, DeterministicFl args = true) →
    ∀ (e1 e2 : Nat → Env) (db : Db), (∀ i, (e1 i).fl = (e2 i).fl) → NoDeadlines db → db.WF → ∀ n : Nat,
      runLog e1 db (log.take n) = runLog e2 db (log.take n) ∧
      NoDeadlines (runLog e1 db (log.take n)).2 ∧ (runLog e1 db (log.take n)).2.WF
| [], _, _, _, db, _, hn, hw, n => by rw [List.take_nil]; exact ⟨rfl, hn, hw⟩
| args :: rest, hall, e1, e2, db, hfl, hn, hw, 0 => ⟨rfl, hn, hw⟩
| args :: rest, hall, e1, e2, db, hfl, hn, hw, n + 1 => by
  have hs := replicas_agree_step_fl (e1 0) (e2 0) db args (hall args (List.mem_cons_self ..)) hn hw (hfl 0)
  have ih := replicas_agree_fl rest (fun a ha => hall a (List.mem_cons_of_mem _ ha)) (fun i => e1 (i + 1)) (fun i => e2 (i + 1))
    _ (fun i => hfl (i + 1)) hs.2.1 hs.2.2 n
  rw [take_succ_cons]
  unfold runLog
  refine ⟨?_, ih.2⟩
  rw [← hs.1, ih.1]

/-- same clock readings: everything outside the random/float-arithmetic set agrees, on any keyspace -/
theorem replicas_agree_same_clock : ∀ (log : List (List Bytes)), (∀ args ∈ log, ClockDeterministic args = true) →
    ∀ (e1 e2 : Nat → Env) (db : Db), (∀ i, (e1 i).now = (e2 i).now) → (∀ i, (e1 i).fl = (e2 i).fl) → ∀ n : Nat,
      runLog e1 db (log.take n) = runLog e2 db (log.take n)
| [], _, _, _, db, _, _, n => by rw [List.take_nil]; rfl
| args :: rest, hall, e1, e2, db, hnow, hfl, 0 => rfl
| args :: rest, hall, e1, e2, db, hnow, hfl, n + 1 => by
  have hs := replicas_agree_step_same_clock (e1 0) (e2 0) db args (hall args (List.mem_cons_self ..)) (hnow 0) (hfl 0)
  have ih := replicas_agree_same_clock rest (fun a ha => hall a (List.mem_cons_of_mem _ ha)) (fun i => e1 (i + 1))
    (fun i => e2 (i + 1)) (exec (e1 0) db args).2 (fun i => hnow (i + 1)) (fun i => hfl (i + 1)) n
  rw [take_succ_cons]
  unfold runLog
  rw [← hs, ih]

/-! ### 6. the fragment of C07 that holds -/

/-- **C07, replica agreement — the part that holds.**  `C07_replicas_statement` restricted to logs of `Deterministic`
    commands and to start keyspaces without deadlines (in particular the empty keyspace every node starts from); on this
    fragment the conclusion is stronger than the clause asks: the reply lists agree as well, at every prefix.
    Missing from the full clause (and false: `C07_replicas_statement_false`): the commands outside `Deterministic` and
    keyspaces holding deadlines under different clocks — the recorded findings. -/
def C07_replicas_partial_statement : Prop :=
  ∀ (log : List (List Bytes)), (∀ args ∈ log, Deterministic args = true) →
    ∀ (e1 e2 : Nat → Env) (db : Db) (n : Nat), NoDeadlines db → db.WF →
      (runLog e1 db (log.take n)).1 = (runLog e2 db (log.take n)).1 ∧
      (runLog e1 db (log.take n)).2 = (runLog e2 db (log.take n)).2

theorem C07_replicas_partial : C07_replicas_partial_statement :=
  fun log hall e1 e2 db n hn hw =>
    let h := replicas_agree log hall e1 e2 db hn hw n
    ⟨congrArg Prod.fst h.1, congrArg Prod.snd h.1⟩

/-- from the empty keyspace (what every node starts from), with ZADD/BLPOP/BRPOP under agreeing ParseFloat readings -/
theorem C07_replicas_fl_partial (log : List (List Bytes)) (hall : ∀ args ∈ log, DeterministicFl args = true)
    (e1 e2 : Nat → Env) (hfl : ∀ i, (e1 i).fl = (e2 i).fl) (n : Nat) :
    runLog e1 [] (log.take n) = runLog e2 [] (log.take n) :=
  (replicas_agree_fl log hall e1 e2 [] hfl NoDLp.nil.noDeadlines Db.wf_nil n).1

/-- leader-assigned clock readings would leave only the random/float-arithmetic commands and XADD `*` -/
theorem C07_same_clock_partial (log : List (List Bytes)) (hall : ∀ args ∈ log, ClockDeterministic args = true)
    (e1 e2 : Nat → Env) (db : Db) (hnow : ∀ i, (e1 i).now = (e2 i).now) (hfl : ∀ i, (e1 i).fl = (e2 i).fl) (n : Nat) :
    runLog e1 db (log.take n) = runLog e2 db (log.take n) :=
  replicas_agree_same_clock log hall e1 e2 db hnow hfl n

/-! ### 7. the classification on examples; the hypotheses are satisfiable -/

/-- a log over five value types, every entry `Deterministic` -/
def exLog : List (List Bytes) := [
  [ofStr "SET", kK, [118]], [ofStr "append", kK, [119]], [ofStr "INCR", [110]], [ofStr "SADD", kS, [97], [98]],
  [ofStr "HSET", [104], [102], [118]], [ofStr "LPUSH", [108], [49], [50]], [ofStr "XADD", kX, ofStr "5-1", [102], [118]],
  [ofStr "XADD", kX, ofStr "7-*", [102], [118]], [ofStr "SET", kK, [118], ofStr "KEEPTTL"], [ofStr "DEL", kK, kS],
  [ofStr "TTL", [110]], [ofStr "KEYS", [42]], [ofStr "RENAME", [110], [109]], [ofStr "SUNIONSTORE", [100], kS, kK]]

example : (∀ args ∈ exLog, Deterministic args = true) ∧ NoDeadlines [] ∧ Db.WF [] :=
  ⟨by decide +kernel, NoDLp.nil.noDeadlines, Db.wf_nil⟩

/-- the classification rejects exactly the option forms that read the node's clock -/
example : Deterministic [ofStr "SET", kK, [118], ofStr "EX", ofStr "100"] = false ∧
    Deterministic [ofStr "set", kK, [118], ofStr "px", ofStr "100"] = false ∧
    Deterministic [ofStr "SET", kK, [118], ofStr "EXAT", ofStr "100"] = false ∧
    Deterministic [ofStr "SET", kK, [118], ofStr "NX", ofStr "GET"] = true ∧
    Deterministic [ofStr "XADD", kX, [42], [102], [118]] = false ∧
    Deterministic [ofStr "XADD", kX, ofStr "MAXLEN", ofStr "10", [42], [102], [118]] = false ∧
    Deterministic [ofStr "XADD", kX, ofStr "5-*", [102], [118]] = true ∧
    Deterministic [ofStr "Expire", kK, ofStr "10"] = false ∧ Deterministic [ofStr "SETEX", kK, ofStr "10", [118]] = false ∧
    Deterministic [ofStr "SPOP", kS] = false ∧ Deterministic [ofStr "SRANDMEMBER", kS] = false ∧
    Deterministic [ofStr "HRANDFIELD", [104]] = false ∧ Deterministic [ofStr "INCRBYFLOAT", kK, ofStr "1.5"] = false ∧
    Deterministic [ofStr "HINCRBYFLOAT", [104], [102], ofStr "1.5"] = false ∧
    Deterministic [ofStr "ZADD", [122], ofStr "1", [109]] = false ∧ DeterministicFl [ofStr "ZADD", [122], ofStr "INCR", ofStr "1", [109]] = true ∧
    Deterministic [ofStr "BLPOP", [108], ofStr "0"] = false ∧ DeterministicFl [ofStr "BLPOP", [108], ofStr "0"] = true ∧
    ClockDeterministic [ofStr "EXPIRE", kK, ofStr "10"] = true ∧ ClockDeterministic [ofStr "SPOP", kS] = false := by
  decide +kernel

/-- with the same clock the relative-TTL witness of the false statement disappears -/
example (o1 o2 : Option Reply) (fl : Nat → Option UInt64) (db : Db) :
    exec ⟨3, o1, fl⟩ db [ofStr "SET", kK, [118], ofStr "EX", ofStr "100"] =
    exec ⟨3, o2, fl⟩ db [ofStr "SET", kK, [118], ofStr "EX", ofStr "100"] :=
  replicas_agree_step_same_clock _ _ db _ (by decide +kernel) rfl rfl

/-! ### 8. the classification is tight: every excluded class has a diverging witness

For each command class left out of `Deterministic` two environments are exhibited under which reply or keyspace differ (for
SET … EXAT, whose own effect is absolute, the divergence shows one command later, when the two clocks disagree about whether the
deadline has passed).  ZADD/BLPOP/BRPOP diverge only through `env.fl`, i.e. through ParseFloat readings that a real replica
cannot disagree on — which is why they are back in `DeterministicFl`. -/

def fOne : UInt64 := 0x3ff0000000000000
def fTwo : UInt64 := 0x4000000000000000
def flAt (i : Nat) (b : UInt64) : Nat → Option UInt64 := fun j => if j = i then some b else none

def dbSet : Db := [(kS, { val := .set [[97], [98]] })]
def dbHash : Db := [([104], { val := .hash [([102], ofStr "1"), ([103], ofStr "2")] })]
def dbList : Db := [([108], { val := .list [[49]] })]

example : NoDeadlines dbSet ∧ dbSet.WF ∧ NoDeadlines dbHash ∧ dbHash.WF ∧ NoDeadlines dbList ∧ dbList.WF := by
  refine ⟨?_, by unfold Db.WF; decide, ?_, by unfold Db.WF; decide, ?_, by unfold Db.WF; decide⟩ <;>
    exact NoDLp.noDeadlines (by unfold NoDLp; decide)

theorem classification_tight :
    -- relative deadlines: SETEX, SET … PX (EX: `set_ex_env_dependent`, EXPIRE: `expire_env_dependent`)
    (exec { now := 0 } [] [ofStr "SETEX", kK, ofStr "10", [118]]).2 ≠ (exec { now := 3 } [] [ofStr "SETEX", kK, ofStr "10", [118]]).2 ∧
    (exec { now := 0 } [] [ofStr "SET", kK, [118], ofStr "PX", ofStr "10000"]).2 ≠
      (exec { now := 3 } [] [ofStr "SET", kK, [118], ofStr "PX", ofStr "10000"]).2 ∧
    -- an absolute deadline: `SET k v EXAT 2; GET k` at clock 0 resp. 3
    (runLog (fun _ => { now := 0 }) [] [[ofStr "SET", kK, [118], ofStr "EXAT", ofStr "2"], [ofStr "GET", kK]]).2 ≠
      (runLog (fun _ => { now := 3 }) [] [[ofStr "SET", kK, [118], ofStr "EXAT", ofStr "2"], [ofStr "GET", kK]]).2 ∧
    -- random selection that leaves the keyspace alone: the replies differ
    replyEq (exec { now := 0, obs := some (.bulk (some [97])) } dbSet [ofStr "SRANDMEMBER", kS]).1
      (exec { now := 0, obs := some (.bulk (some [98])) } dbSet [ofStr "SRANDMEMBER", kS]).1 = false ∧
    replyEq (exec { now := 0, obs := some (.bulk (some [102])) } dbHash [ofStr "HRANDFIELD", [104]]).1
      (exec { now := 0, obs := some (.bulk (some [103])) } dbHash [ofStr "HRANDFIELD", [104]]).1 = false ∧
    -- float formatting is the implementation's: two renderings of the same sum are stored as different strings
    (exec { now := 0, obs := some (.bulk (some (ofStr "1.5"))), fl := flAt 2 fOne } [] [ofStr "INCRBYFLOAT", kK, ofStr "1.5"]).2 ≠
      (exec { now := 0, obs := some (.bulk (some (ofStr "1.50"))), fl := flAt 2 fOne } [] [ofStr "INCRBYFLOAT", kK, ofStr "1.5"]).2 ∧
    (exec { now := 0, obs := some (.bulk (some (ofStr "1.5"))), fl := flAt 3 fOne } [] [ofStr "HINCRBYFLOAT", [104], [102], ofStr "1.5"]).2 ≠
      (exec { now := 0, obs := some (.bulk (some (ofStr "1.50"))), fl := flAt 3 fOne } [] [ofStr "HINCRBYFLOAT", [104], [102], ofStr "1.5"]).2 ∧
    -- model artefact: different ParseFloat readings of the same argument
    (exec { now := 0, fl := flAt 2 fOne } [] [ofStr "ZADD", [122], ofStr "1", [109]]).2 ≠
      (exec { now := 0, fl := flAt 2 fTwo } [] [ofStr "ZADD", [122], ofStr "1", [109]]).2 ∧
    (exec { now := 0, fl := flAt 2 fOne } dbList [ofStr "BLPOP", [108], ofStr "1"]).2 ≠ (exec { now := 0 } dbList [ofStr "BLPOP", [108], ofStr "1"]).2 ∧
    (exec { now := 0, fl := flAt 2 fOne } dbList [ofStr "BRPOP", [108], ofStr "1"]).2 ≠ (exec { now := 0 } dbList [ofStr "BRPOP", [108], ofStr "1"]).2 := by
  decide +kernel

end Exec.C07
