import RedisGoModel.Props.C08ReadyStmtE
/-! Preservation of `Inv` by `wal.Save`'s write (`walWrite`): the statement that consumes etcd's contract.  Core Lean only. -/
namespace ReadyLoop

variable {c : Cfg} {s : State}

theorem full_write (d : Disk) (rs : List Rec) : replay (d.write rs) (d.write rs).buffered.length = replayRecs (d.all ++ rs) d.files := by
  simp only [replay, Disk.image, Disk.write, Disk.all]
  rw [List.take_of_length_le (by simp), List.append_assoc]

theorem Disk.write_nil (d : Disk) : d.write [] = d := by
  cases d; simp [Disk.write]

theorem storageAppend_ents_congr {n n' : Node} (ho : n'.off = n.off) (he : n'.ents = n.ents) (es : List Entry) :
    (storageAppend n' es).ents = (storageAppend n es).ents := by
  cases es with
  | nil => exact he
  | cons e r => simp only [storageAppend, ho, he]

theorem storageAppend_last_congr {n n' : Node} (ho : n'.off = n.off) (he : n'.ents = n.ents) (es : List Entry) :
    (storageAppend n' es).last = (storageAppend n es).last := by
  unfold Node.last
  rw [storageAppend_off, storageAppend_off, storageAppend_ents_congr ho he, ho]

theorem bool_cases (b : Bool) : b = true ∨ b = false := by cases b <;> simp

/-- the contract, unfolded -/
theorem readyOk_parts {n : Node} {rd : Ready} (h : ReadyOk c n rd) :
    (rd.hs.isEmpty = false → n.hs.term ≤ rd.hs.term ∧ n.hs.commit ≤ rd.hs.commit ∧ (rd.hs.term = n.hs.term → n.hs.vote = 0 ∨ rd.hs.vote = n.hs.vote)) ∧
    Chain rd.ents ∧
    (∀ e ∈ rd.ents.head?, n.hs.commit < e.index ∧ e.index ≤ (if rd.snap.isEmpty then n.last else rd.snap.index) + 1) ∧
    (rd.snap.isEmpty = false → n.hs.commit < rd.snap.index ∧ rd.snap.index ≤ (hsAfter n rd).commit ∧ rd.ents = []) ∧
    (∀ e ∈ rd.committed, e ∈ (storageAppend (if rd.snap.isEmpty then n else { n with snap := rd.snap, off := rd.snap.index, ents := [] }) rd.ents).ents ∧
      e.index ≤ (hsAfter n rd).commit) ∧
    (∀ m ∈ rd.msgs, MsgOk c.self (hsAfter n rd)
      (storageAppend (if rd.snap.isEmpty then n else { n with snap := rd.snap, off := rd.snap.index, ents := [] }) rd.ents).last m) := by
  simp only [ReadyOk] at h
  obtain ⟨h1, h2, h3, h4, _, _, h7, _, h9⟩ := h
  exact ⟨h1, h2, h3, h4, h7, h9⟩

theorem inv_walWrite_core (h : Inv c s) (ht : s.todo = .walWrite :: after .walWrite)
    (hsO : Option HardState) (n' : Node)
    (hO : ∀ hh ∈ hsO, hh = s.rd.hs ∧ s.rd.hs.isEmpty = false)
    (hn_hs : n'.hs = hsO.getD s.node.hs) (hh' : hsAfter s.node s.rd = hsO.getD s.node.hs)
    (hn_off : n'.off = s.node.off) (hn_ents : n'.ents = s.node.ents) (hn_app : n'.applied = s.node.applied)
    (hn_si : n'.snapIndex = s.node.snapIndex) (hn_trig : n'.trig = s.node.trig)
    (hms : n'.mustSync = false → s.rd.ents = [] ∧ ∀ hh ∈ hsO, hh.term = s.node.hs.term ∧ hh.vote = s.node.hs.vote)
    (hn_ws : n'.walState = {} ∨ (n'.walState.term = n'.hs.term ∧ n'.walState.vote = n'.hs.vote)) :
    Inv c { s with disk := s.disk.write (s.rd.ents.map Rec.entry ++ hsO.toList.map Rec.state), node := n', todo := after .walWrite } := by
  have hwin : Stmt.walWrite ∈ s.todo := by rw [ht]; decide
  obtain ⟨hok, hntb, hsnapW⟩ := h.rdW hwin
  obtain ⟨c1, hch, c3, c4, c7, c9⟩ := readyOk_parts hok
  have htn := trig_none h (by rw [ht]; decide)
  have eL : L s = s.node := by unfold L; rw [if_neg (fun hc => absurd hwin hc.1)]
  have hnotrig : ∀ sn, n'.trig = some sn → False := by
    intro sn hs2
    have : s.node.trig = some sn := by rw [← hn_trig]; exact hs2
    rw [htn] at this; cases this
  obtain ⟨v0, hv0, hF0⟩ := h.full
  rw [replay_full] at hv0
  have hc0 : Cover v0 s.node := by have := hF0.2.1; rw [eL] at this; exact this
  have hcommit0 : v0.snap.index ≤ s.node.hs.commit := by rw [← hF0.1]; exact replay_base_le_commit hv0
  -- hypotheses of `save_keeps_promises`
  have hfirst : ∀ e ∈ s.rd.ents.head?, v0.snap.index < e.index ∧ e.index ≤ v0.last + 1 := by
    intro e he
    obtain ⟨a, b⟩ := c3 e he
    refine ⟨by omega, ?_⟩
    rcases bool_cases s.rd.snap.isEmpty with hsn | hsn
    · rw [hsn] at b; simp at b; have := cover_reach hc0; omega
    · have := (c4 hsn).2.2; rw [this] at he; simp at he
  have hhs : ∀ hh ∈ hsO, HsKeeps v0.hs hh ∧ v0.hs.commit ≤ hh.commit := by
    intro hh hm
    obtain ⟨rfl, hne⟩ := hO hh hm
    obtain ⟨a, b, cc⟩ := c1 hne
    rw [hF0.1]
    exact ⟨⟨a, cc⟩, b⟩
  let written := s.rd.ents.map Rec.entry ++ hsO.toList.map Rec.state
  have hsave := save_keeps_promises hv0 s.rd.ents hch hfirst hsO hhs
  -- the full image after the write
  obtain ⟨v1, hv1, hk1, hfin1⟩ := hsave written.length
  rw [List.take_of_length_le (Nat.le_refl _)] at hv1
  obtain ⟨hv1hs, hv1ents⟩ := hfin1 (Nat.le_refl _)
  rw [hF0.1] at hv1hs
  have hoff : ∀ e ∈ s.rd.ents.head?, s.node.off < e.index := fun e he => by
    have := (c3 e he).1; have := h.node.offc; omega
  have eL' : L { s with disk := s.disk.write written, node := n', todo := after .walWrite } = storageAppend n' s.rd.ents := by
    unfold L; rw [if_pos ⟨by tdec, by tdec⟩]
  -- the new log is covered by the new full image
  have hcontig' : Contig s.node.off (storageAppend s.node s.rd.ents).ents :=
    contig_storageAppend h.node.contig hch (fun e he => ⟨hoff e he, by
      have hb := (c3 e he).2
      rcases bool_cases s.rd.snap.isEmpty with hsn | hsn
      · rw [hsn] at hb; simpa using hb
      · have := (c4 hsn).2.2; rw [this] at he; simp at he⟩)
  have hentsCov : ∀ e ∈ (storageAppend s.node s.rd.ents).ents, (Promise.ent e).holds v1 := by
    intro e he
    cases hre : s.rd.ents with
    | nil =>
      rw [hre] at he
      exact hk1 _ (cover_ent hc0 he) (by show Below s.rd.ents e.index; rw [hre]; intro x hx; simp at hx)
    | cons f r =>
      rw [hre] at he
      simp only [storageAppend, List.mem_append] at he
      rcases he with he | he
      · rw [mem_take_contig h.node.contig] at he
        have hof := hoff f (by rw [hre]; simp)
        refine hk1 _ (cover_ent hc0 he.1) ?_
        show Below s.rd.ents e.index
        rw [hre]; intro x hx; simp at hx; subst hx; omega
      · exact hv1ents e (by rw [hre]; exact he)
  have hcov1 : Cover v1 (storageAppend n' s.rd.ents) := by
    refine cover_intro ?_ ?_ ?_
    · intro e he; rw [storageAppend_ents_congr hn_off hn_ents] at he; exact hentsCov e he
    · rw [storageAppend_last_congr hn_off hn_ents]
      by_cases hre : s.rd.ents = []
      · rw [hre]
        show s.node.last ≤ v1.last
        exact hk1 (.reach s.node.last) (cover_reach hc0) (by show Below s.rd.ents _; rw [hre]; intro x hx; simp at hx)
      · -- the last entry of the new log sits at its end
        obtain ⟨f, r, hfr⟩ := List.exists_cons_of_ne_nil hre
        have hlen : 0 < (storageAppend s.node s.rd.ents).ents.length := by rw [hfr]; simp [storageAppend]; omega
        have hpos : (storageAppend s.node s.rd.ents).ents.length - 1 < (storageAppend s.node s.rd.ents).ents.length := by omega
        have hx := hcontig' _ ((storageAppend s.node s.rd.ents).ents[(storageAppend s.node s.rd.ents).ents.length - 1]) (List.getElem?_eq_getElem hpos)
        have hreach := reach_of_ent hv1 (hentsCov _ (List.getElem_mem hpos))
        simp only [Promise.holds] at hreach
        show (storageAppend s.node s.rd.ents).off + (storageAppend s.node s.rd.ents).ents.length ≤ v1.last
        rw [storageAppend_off]
        omega
    · rw [storageAppend_snapIndex, hn_si]
      exact hk1 (.snap s.node.snapIndex) (cover_snap hc0) trivial
  have hsnap1 : s.rd.snap.isEmpty = false → s.rd.snap.index ≤ v1.snap.index := by
    intro hsn
    obtain ⟨hfile, hrec⟩ := hsnapW hsn
    refine base_ge_of_valid hv1 (hfile (by rw [ht]; decide)) ?_ ?_
    · rw [snapRecs_append]; exact List.mem_append_left _ (hrec (by rw [ht]; decide))
    · rw [hv1hs, ← hh']; exact (c4 hsn).2.1
  have hF1 : FullOk { s with disk := s.disk.write written, node := n', todo := after .walWrite } v1 :=
    ⟨by rw [hv1hs]; exact hn_hs.symm, by rw [eL']; exact hcov1, fun _ hsn => hsnap1 hsn, fun sn hs2 => (hnotrig sn hs2).elim⟩
  have hsnapEmptyCommitted : s.rd.snap.isEmpty = false → s.rd.committed = [] := by
    intro hsn
    apply List.eq_nil_iff_forall_not_mem.mpr
    intro e he
    have := (c7 e he).1
    rw [hsn, (c4 hsn).2.2] at this
    simp [storageAppend] at this
  refine
    { down := h.down
      suf := tails_tail (ht ▸ h.suf)
      safe := ?_
      full := ⟨v1, by rw [full_write]; exact hv1, hF1⟩
      imgs := ?_
      node :=
        { contig := by rw [hn_off, hn_ents]; exact h.node.contig
          offc := by
            rw [hn_off, hn_hs, ← hh']
            have := h.node.offc
            unfold hsAfter; split
            · exact this
            · rename_i hne; have := (c1 (by simpa using hne)).2.1; omega
          appc := by
            rw [hn_app, hn_hs, ← hh']
            have := h.node.appc
            unfold hsAfter; split
            · exact this
            · rename_i hne; have := (c1 (by simpa using hne)).2.1; omega
          ws := hn_ws }
      idle := fun hc => absurd hc (by tdec)
      novote0 := h.novote0
      rdW := fun hc => absurd hc (by tdec)
      post := fun _ _ =>
        { snapc := fun hsn => ⟨by show s.rd.snap.index ≤ n'.hs.commit; rw [hn_hs, ← hh']; exact (c4 hsn).2.1, (c4 hsn).2.2, hsnapEmptyCommitted hsn⟩
          appendF := fun _ => ⟨hch, fun e he => ⟨by show n'.off < e.index; rw [hn_off]; exact hoff e he, by
            show e.index ≤ n'.off + n'.ents.length + 1
            rw [hn_off, hn_ents]
            have hb := (c3 e he).2
            rcases bool_cases s.rd.snap.isEmpty with hsn | hsn
            · rw [hsn] at hb; simpa [Node.last] using hb
            · have := (c4 hsn).2.2; rw [this] at he; simp at he⟩⟩
          sendF := fun _ => by
            show ∀ m ∈ s.rd.msgs, MsgOk c.self n'.hs (lastP { s with disk := s.disk.write written, node := n', todo := after .walWrite }) m
            have e1 : lastP { s with disk := s.disk.write written, node := n', todo := after .walWrite } =
                (storageAppend (if s.rd.snap.isEmpty then s.node else { s.node with snap := s.rd.snap, off := s.rd.snap.index, ents := [] }) s.rd.ents).last := by
              unfold lastP
              rcases bool_cases s.rd.snap.isEmpty with hsn | hsn
              · rw [if_neg (fun hc => by have h0 : s.rd.snap.isEmpty = false := hc.1; rw [hsn] at h0; cases h0), eL']
                rw [hsn]; simp only [if_true]
                exact storageAppend_last_congr hn_off hn_ents _
              · rw [if_pos ⟨hsn, by tdec⟩]
                rw [hsn, (c4 hsn).2.2]
                simp [storageAppend, Node.last]
            rw [e1, hn_hs, ← hh']; exact c9
          pubF := fun _ => by
            show ∀ e ∈ s.rd.committed, e ∈ (L { s with disk := s.disk.write written, node := n', todo := after .walWrite }).ents ∧ e.index ≤ n'.hs.commit
            intro e he
            rcases bool_cases s.rd.snap.isEmpty with hsn | hsn
            · have := c7 e he
              rw [hsn] at this
              simp only [if_true] at this
              rw [eL', storageAppend_ents_congr hn_off hn_ents, hn_hs, ← hh']
              exact this
            · rw [hsnapEmptyCommitted hsn] at he; simp at he }
      trigF := fun sn hs2 => (hnotrig sn hs2).elim }
  · -- Safe: `wal.Save` torn anywhere
    intro k
    show ∃ v', replay (s.disk.write written) k = some v' ∧ ∀ p ∈ s.owed, p.holds v'
    rw [replay_write]
    split
    · exact h.safe k
    · obtain ⟨v', hv', hk, _⟩ := hsave (k - s.disk.buffered.length)
      refine ⟨v', hv', fun p hp => hk p ?_ (hntb p hp)⟩
      obtain ⟨vv, hvv, hpp⟩ := h.safe s.disk.buffered.length
      rw [replay_full, hv0] at hvv
      have : vv = v0 := (Option.some.inj hvv).symm
      subst this
      exact hpp p hp
  · -- the crash images when nothing of this Ready has to be synced
    intro hs
    have hmsf : n'.mustSync = false := by
      rcases hs.1 (by tdec) with h1 | h1
      · exact absurd h1 (by tdec)
      · exact h1
    have hsnE : s.rd.snap.isEmpty = true := by
      rcases bool_cases s.rd.snap.isEmpty with hsn | hsn
      · exact hsn
      · rcases hs.2 hsn with h1 | h1
        · exact absurd h1 (by tdec)
        · exact absurd (show Stmt.walSync ∈ after .walWrite by decide) h1
    obtain ⟨hents, hsame⟩ := hms hmsf
    have hset : Settled s := ⟨fun _ => Or.inl hwin, fun _ => Or.inl hwin⟩
    have hold : ∀ v, ImgOk s v → ImgOk { s with disk := s.disk.write written, node := n', todo := after .walWrite } v := by
      intro v hI
      have hcv : Cover v s.node := by have := hI.2.2.1; rw [eL] at this; exact this
      have hr3 : s.node.last ≤ v.last := cover_reach hcv
      have hs3 : s.node.snapIndex ≤ v.snap.index := cover_snap hcv
      refine ⟨?_, ?_, ⟨?_, (fun _ hsn => by have h0 : s.rd.snap.isEmpty = false := hsn; rw [hsnE] at h0; cases h0), fun sn hs2 => (hnotrig sn hs2).elim⟩⟩
      · show v.hs.term = n'.hs.term
        rw [hn_hs, hI.1]
        cases hsO with
        | none => rfl
        | some hh => exact ((hsame hh rfl).1).symm
      · show v.hs.vote = n'.hs.vote
        rw [hn_hs, hI.2.1]
        cases hsO with
        | none => rfl
        | some hh => exact ((hsame hh rfl).2).symm
      · rw [eL', hents]
        show Cover v n'
        exact cover_intro (fun e he => by rw [hn_ents] at he; exact cover_ent hcv he)
          (by show n'.off + n'.ents.length ≤ v.last; rw [hn_off, hn_ents]; exact hr3) (by rw [hn_si]; exact hs3)
    intro k
    show ∃ v, replay (s.disk.write written) k = some v ∧ _
    rw [replay_write]
    split
    · obtain ⟨v, hv, hI⟩ := h.imgs hset k
      exact ⟨v, hv, hold v hI⟩
    · -- written = [] or [state h]: every longer image is the full one
      rename_i hk
      have hw2 : written = hsO.toList.map Rec.state := by show s.rd.ents.map Rec.entry ++ _ = _; rw [hents]; rfl
      cases hsO with
      | none =>
        have : written = [] := by rw [hw2]; rfl
        rw [this]
        simp only [List.take_nil, List.append_nil]
        have hI0 := h.imgs hset s.disk.buffered.length
        obtain ⟨v, hv, hI⟩ := hI0
        rw [replay_full] at hv
        exact ⟨v, hv, hold v hI⟩
      | some hh =>
        have hw3 : written = [Rec.state hh] := by rw [hw2]; rfl
        have : List.take (k - s.disk.buffered.length) written = written := by
          rw [hw3]
          have : k - s.disk.buffered.length = (k - s.disk.buffered.length - 1) + 1 := by omega
          rw [this]; simp
        rw [this]
        exact ⟨v1, hv1, by rw [hF1.1], by rw [hF1.1], hF1.2.1, hF1.2.2.1, fun sn hs2 => (hnotrig sn hs2).elim⟩

end ReadyLoop
