import RedisGoModel.Props.C15Conf
/-! C15, Stage D (first step): `confchange.Changer` — theorems about `RQJ.simple`, `RQJ.enterJoint`, `RQJ.leaveJoint`
    (`Raft/RQJoint.lean`, the functions `RaftDriver.lean` runs against etcd's `confchange.Changer`).

    * every accepted operation returns a config that satisfies `checkInvariants` (`*_preserves_invariants`; by the final
      `checkAndReturn`, as in the Go code) — and, the part with content, **that final check never fails**: the operations fail only
      for the reasons they name (`simple_eq_ok_iff`, `enterJoint_eq_ok_iff`, `leaveJoint_eq_ok_iff`);
    * `checkInvariants` as written is NOT inductive for `LeaveJoint` (`leaveJoint_needs_next_disjoint`: it does not say that
      `LearnersNext` and `Voters[0]` are disjoint); the Changer maintains the stronger `WF` (`changer_result_wf`), under which it is;
    * an accepted `Simple` changes the voter set by at most one id and stays non-joint (`simple_is_single_change`), so every quorum
      before meets every quorum after (`simple_quorums_overlap`); `EnterJoint` keeps the old voters as the outgoing half
      (`enterJoint_shape`), so every joint quorum after meets every quorum before (`enterJoint_quorums_overlap`); `LeaveJoint`
      keeps the incoming half (`leaveJoint_quorums_overlap`);
    * `LeaveJoint ∘ EnterJoint` yields exactly the requested voters and learners (`leave_after_enter`). -/
namespace RQJ

/-- the per-change invariant: the first two clauses of `checkInvariants`, plus the clause it omits (`LearnersNext ∩ Voters[0] = ∅`) -/
def Inv1 (c : Config) : Prop :=
  (∀ id ∈ c.learnersNext, id ∈ c.outgoing ∧ id ∉ c.learners ∧ id ∉ c.voters) ∧
  (∀ id ∈ c.learners, id ∉ c.outgoing ∧ id ∉ c.voters)

/-- what the Changer maintains: `checkInvariants` and `LearnersNext ∩ Voters[0] = ∅` -/
def WF (c : Config) : Prop := Inv1 c ∧ (c.outgoing = ∅ → c.autoLeave = false)

theorem next_empty_of_inv1 {c : Config} (h : Inv1 c) (ho : c.outgoing = ∅) : c.learnersNext = ∅ := by
  apply Finset.eq_empty_of_forall_notMem
  intro x hx
  have := (h.1 x hx).1
  rw [ho] at this
  simp at this

theorem wf_iff (c : Config) : WF c ↔ checkInvariants c ∧ ∀ id ∈ c.learnersNext, id ∉ c.voters := by
  unfold WF Inv1 checkInvariants
  constructor
  · rintro ⟨⟨h1, h2⟩, h3⟩
    refine ⟨⟨fun id hid => ⟨(h1 id hid).1, (h1 id hid).2.1⟩, h2, fun ho => ⟨next_empty_of_inv1 ⟨h1, h2⟩ ho, h3 ho⟩⟩,
      fun id hid => (h1 id hid).2.2⟩
  · rintro ⟨⟨h1, h2, h3⟩, h4⟩
    exact ⟨⟨fun id hid => ⟨(h1 id hid).1, (h1 id hid).2, h4 id hid⟩, h2⟩, fun ho => (h3 ho).2⟩

theorem WF.check {c : Config} (h : WF c) : checkInvariants c := ((wf_iff c).mp h).1

/-- a non-joint config that passes `checkInvariants` is `WF` -/
theorem wf_of_check_nonjoint {c : Config} (h : checkInvariants c) (ho : c.outgoing = ∅) : WF c := by
  rw [wf_iff]
  refine ⟨h, ?_⟩
  intro id hid
  rw [(h.2.2 ho).1] at hid
  simp at hid

theorem wf_empty : WF Config.empty := by
  unfold WF Inv1 Config.empty; simp

/-! ### the single changes in closed form -/

theorem makeVoter_eq (c : Config) (id : Nat) :
    makeVoter c id = { c with learners := c.learners.erase id, learnersNext := c.learnersNext.erase id, voters := insert id c.voters } := by
  unfold makeVoter initProgress hasProgress
  split
  · rename_i h
    simp only [Bool.not_eq_true', decide_eq_false_iff_not, not_or] at h
    simp [Finset.erase_eq_of_notMem, h]
  · rfl

theorem remove_eq (c : Config) (id : Nat) :
    remove c id = { c with voters := c.voters.erase id, learners := c.learners.erase id, learnersNext := c.learnersNext.erase id } := by
  unfold remove hasProgress
  split
  · rename_i h
    simp only [Bool.not_eq_true', decide_eq_false_iff_not, not_or] at h
    simp [Finset.erase_eq_of_notMem, h]
  · rfl

theorem makeLearner_eq (c : Config) (id : Nat) :
    makeLearner c id =
      if id ∈ c.learners then c
      else if id ∈ c.outgoing then
        { c with voters := c.voters.erase id, learnersNext := insert id c.learnersNext }
      else { c with voters := c.voters.erase id, learners := insert id c.learners, learnersNext := c.learnersNext.erase id } := by
  unfold makeLearner
  by_cases hp : hasProgress c id = true
  · by_cases hl : id ∈ c.learners
    · simp [hp, isLearnerPr, hl]
    · simp only [hp, isLearnerPr, hl, remove_eq]
      by_cases ho : id ∈ c.outgoing
      · have e : insert id (c.learnersNext.erase id) = insert id c.learnersNext := by
          ext x; simp only [Finset.mem_insert, Finset.mem_erase]; tauto
        simp [ho, hl, e]
      · simp [ho, hl]
  · have h := hp
    simp only [hasProgress, decide_eq_true_eq, not_or] at h
    simp [hp, initProgress, h]

theorem makeVoter_inv1 (c : Config) (id : Nat) (h : Inv1 c) : Inv1 (makeVoter c id) := by
  rw [makeVoter_eq]
  obtain ⟨h1, h2⟩ := h
  refine ⟨?_, ?_⟩
  · intro x hx
    simp only [Finset.mem_erase, Finset.mem_insert] at hx ⊢
    have := h1 x hx.2
    tauto
  · intro x hx
    simp only [Finset.mem_erase, Finset.mem_insert] at hx ⊢
    have := h2 x hx.2
    tauto

theorem remove_inv1 (c : Config) (id : Nat) (h : Inv1 c) : Inv1 (remove c id) := by
  rw [remove_eq]
  obtain ⟨h1, h2⟩ := h
  refine ⟨?_, ?_⟩
  · intro x hx
    simp only [Finset.mem_erase] at hx ⊢
    have := h1 x hx.2
    tauto
  · intro x hx
    simp only [Finset.mem_erase] at hx ⊢
    have := h2 x hx.2
    tauto

theorem makeLearner_inv1 (c : Config) (id : Nat) (h : Inv1 c) : Inv1 (makeLearner c id) := by
  rw [makeLearner_eq]
  obtain ⟨h1, h2⟩ := h
  split
  · exact ⟨h1, h2⟩
  · rename_i hl
    split
    · rename_i ho
      refine ⟨?_, ?_⟩
      · intro x hx
        simp only [Finset.mem_insert] at hx
        simp only [Finset.mem_erase]
        rcases hx with rfl | hx
        · exact ⟨ho, hl, by tauto⟩
        · have := h1 x hx
          tauto
      · intro x hx
        simp only [Finset.mem_erase]
        have := h2 x hx
        tauto
    · rename_i ho
      refine ⟨?_, ?_⟩
      · intro x hx
        simp only [Finset.mem_erase, Finset.mem_insert] at hx ⊢
        have := h1 x hx.2
        tauto
      · intro x hx
        simp only [Finset.mem_erase, Finset.mem_insert] at hx ⊢
        rcases hx with rfl | hx
        · exact ⟨ho, by tauto⟩
        · have := h2 x hx
          tauto

/-! ### the requested effect of a list of changes -/

/-- what one change asks of the voter set -/
def stepVoters (v : Finset Nat) (cc : Change) : Finset Nat :=
  if cc.id = 0 then v else
  match cc.typ with
  | .addNode => insert cc.id v
  | .addLearnerNode => v.erase cc.id
  | .removeNode => v.erase cc.id
  | .updateNode => v
  | .other => v

/-- what one change asks of the learner set (current and staged learners together) -/
def stepLearners (l : Finset Nat) (cc : Change) : Finset Nat :=
  if cc.id = 0 then l else
  match cc.typ with
  | .addNode => l.erase cc.id
  | .addLearnerNode => insert cc.id l
  | .removeNode => l.erase cc.id
  | .updateNode => l
  | .other => l

/-- the voters requested by `ccs` from `v`: AddNode adds, AddLearnerNode and RemoveNode remove, in order -/
def targetVoters (v : Finset Nat) (ccs : List Change) : Finset Nat := ccs.foldl stepVoters v
/-- the learners requested by `ccs` from `l`: AddLearnerNode adds, AddNode and RemoveNode remove, in order -/
def targetLearners (l : Finset Nat) (ccs : List Change) : Finset Nat := ccs.foldl stepLearners l

theorem applyOne_frame {c c' : Config} {cc : Change} (h : applyOne c cc = .ok c') :
    c'.outgoing = c.outgoing ∧ c'.autoLeave = c.autoLeave := by
  unfold applyOne at h
  split at h
  · cases h; exact ⟨rfl, rfl⟩
  · split at h <;> cases h
    · rw [makeVoter_eq]; exact ⟨rfl, rfl⟩
    · rw [makeLearner_eq]; split
      · exact ⟨rfl, rfl⟩
      · split <;> exact ⟨rfl, rfl⟩
    · rw [remove_eq]; exact ⟨rfl, rfl⟩
    · exact ⟨rfl, rfl⟩

theorem applyOne_spec {c c' : Config} {cc : Change} (h : applyOne c cc = .ok c') (hi : Inv1 c) :
    Inv1 c' ∧ c'.voters = stepVoters c.voters cc ∧
      c'.learners ∪ c'.learnersNext = stepLearners (c.learners ∪ c.learnersNext) cc := by
  unfold applyOne at h
  unfold stepVoters stepLearners
  by_cases h0 : cc.id = 0
  · simp only [h0, if_true] at h ⊢
    cases h; exact ⟨hi, rfl, rfl⟩
  · simp only [h0, if_false] at h ⊢
    cases ht : cc.typ <;> simp only [ht] at h ⊢ <;> cases h
    · refine ⟨makeVoter_inv1 c _ hi, ?_, ?_⟩
      · rw [makeVoter_eq]
      · rw [makeVoter_eq]; ext x; simp only [Finset.mem_union, Finset.mem_erase]; tauto
    · refine ⟨makeLearner_inv1 c _ hi, ?_, ?_⟩
      · rw [makeLearner_eq]
        split
        · rename_i hl
          exact (Finset.erase_eq_of_notMem (hi.2 _ hl).2).symm
        · split <;> rfl
      · rw [makeLearner_eq]
        split
        · rename_i hl
          ext x; simp only [Finset.mem_union, Finset.mem_insert]
          constructor
          · tauto
          · rintro (rfl | h) <;> tauto
        · split
          · ext x; simp only [Finset.mem_union, Finset.mem_insert]; tauto
          · ext x; simp only [Finset.mem_union, Finset.mem_insert, Finset.mem_erase]; tauto
    · refine ⟨remove_inv1 c _ hi, ?_, ?_⟩
      · rw [remove_eq]
      · rw [remove_eq]; ext x; simp only [Finset.mem_union, Finset.mem_erase]; tauto
    · exact ⟨hi, rfl, rfl⟩

theorem foldlM_cons_ok {c c' : Config} {cc : Change} {ccs : List Change} :
    (cc :: ccs).foldlM applyOne c = .ok c' ↔ ∃ c1, applyOne c cc = .ok c1 ∧ ccs.foldlM applyOne c1 = .ok c' := by
  rw [List.foldlM_cons]
  cases h : applyOne c cc with
  | error e => simp [bind, Except.bind]
  | ok c1 => simp [bind, Except.bind]

theorem applyAll_frame {ccs : List Change} {c c' : Config} (h : ccs.foldlM applyOne c = .ok c') :
    c'.outgoing = c.outgoing ∧ c'.autoLeave = c.autoLeave := by
  induction ccs generalizing c with
  | nil => simp [pure, Except.pure] at h; cases h; exact ⟨rfl, rfl⟩
  | cons cc ccs ih =>
    obtain ⟨c1, h1, h2⟩ := foldlM_cons_ok.mp h
    obtain ⟨a, b⟩ := applyOne_frame h1
    obtain ⟨a', b'⟩ := ih h2
    exact ⟨a'.trans a, b'.trans b⟩

theorem applyAll_spec {ccs : List Change} {c c' : Config} (h : ccs.foldlM applyOne c = .ok c') (hi : Inv1 c) :
    Inv1 c' ∧ c'.voters = targetVoters c.voters ccs ∧
      c'.learners ∪ c'.learnersNext = targetLearners (c.learners ∪ c.learnersNext) ccs := by
  induction ccs generalizing c with
  | nil => simp [pure, Except.pure] at h; cases h; exact ⟨hi, rfl, rfl⟩
  | cons cc ccs ih =>
    obtain ⟨c1, h1, h2⟩ := foldlM_cons_ok.mp h
    obtain ⟨i1, v1, l1⟩ := applyOne_spec h1 hi
    obtain ⟨i2, v2, l2⟩ := ih h2 i1
    refine ⟨i2, ?_, ?_⟩
    · rw [v2, v1]; rfl
    · rw [l2, l1]; rfl

theorem apply_ok_iff {c c' : Config} {ccs : List Change} :
    apply c ccs = .ok c' ↔ ccs.foldlM applyOne c = .ok c' ∧ c'.voters ≠ ∅ := by
  unfold apply
  cases h : ccs.foldlM applyOne c with
  | error e => simp [bind, Except.bind]
  | ok c1 =>
    simp only [bind, Except.bind]
    split
    · rename_i hv
      simp only [reduceCtorEq, Except.ok.injEq, false_iff, not_and, not_not]
      rintro rfl; exact hv
    · rename_i hv
      simp only [Except.ok.injEq]
      constructor
      · rintro rfl; exact ⟨rfl, hv⟩
      · rintro ⟨rfl, _⟩; rfl

theorem checkAndReturn_ok_iff {c c' : Config} : checkAndReturn c = .ok c' ↔ checkInvariants c ∧ c' = c := by
  unfold checkAndReturn
  split <;> simp_all [eq_comm]

theorem checkAndCopy_ok_iff {c c' : Config} : checkAndCopy c = .ok c' ↔ checkInvariants c.clone ∧ c' = c.clone :=
  checkAndReturn_ok_iff

theorem joint_eq_false_iff (c : Config) : joint c = false ↔ c.outgoing = ∅ := by simp [joint]
theorem joint_eq_true_iff (c : Config) : joint c = true ↔ c.outgoing ≠ ∅ := by simp [joint]

/-! ### Simple -/

/-- how `simple` evaluates once the copy passed its check -/
theorem simple_unfold (c : Config) (ccs : List Change) (hc : checkInvariants c.clone) :
    simple c ccs =
      if c.outgoing ≠ ∅ then .error "can't apply simple config change in joint config"
      else match apply c.clone ccs with
        | .error e => .error e
        | .ok cfg => if symdiff c.voters cfg.voters > 1 then .error "more than one voter changed without entering joint config"
                     else checkAndReturn cfg := by
  unfold simple checkAndCopy
  rw [checkAndReturn, if_pos hc]
  simp only [bind, Except.bind, joint, Config.clone]
  by_cases ho : c.outgoing = ∅
  · simp [ho]
    generalize apply _ ccs = r
    cases r <;> rfl
  · simp [ho]

theorem simple_error_of_not_check (c : Config) (ccs : List Change) (hc : ¬ checkInvariants c.clone) :
    ∃ e, simple c ccs = .error e := by
  unfold simple checkAndCopy
  rw [checkAndReturn, if_neg hc]
  exact ⟨_, rfl⟩

/-- **`Simple` fails only for the reasons it names**: the copy violates the invariants, the config is joint, `apply` fails
    (a type outside the enum, or no voter left), or more than one voter changed.  The final `checkAndReturn` never fails. -/
theorem simple_eq_ok_iff (c c' : Config) (ccs : List Change) :
    simple c ccs = .ok c' ↔
      checkInvariants c.clone ∧ c.outgoing = ∅ ∧ apply c.clone ccs = .ok c' ∧ symdiff c.voters c'.voters ≤ 1 := by
  by_cases hc : checkInvariants c.clone
  swap
  · obtain ⟨e, he⟩ := simple_error_of_not_check c ccs hc
    simp [he, hc]
  rw [simple_unfold c ccs hc]
  by_cases ho : c.outgoing = ∅
  swap
  · simp [ho]
  simp only [ho, ne_eq, not_true_eq_false, if_false, hc, true_and]
  cases ha : apply c.clone ccs with
  | error e => simp
  | ok cfg =>
    simp only [Except.ok.injEq]
    by_cases hs : symdiff c.voters cfg.voters > 1
    · simp only [hs, if_true, reduceCtorEq, false_iff, not_and, not_le]
      rintro rfl; exact hs
    · simp only [hs, if_false, checkAndReturn_ok_iff]
      constructor
      · rintro ⟨_, rfl⟩; exact ⟨rfl, by omega⟩
      · rintro ⟨rfl, _⟩
        refine ⟨?_, rfl⟩
        -- the final check: the stepwise invariant, and the result is still non-joint with AutoLeave = false
        obtain ⟨hf, _⟩ := apply_ok_iff.mp ha
        have hwf : WF c.clone := wf_of_check_nonjoint hc (by simpa [Config.clone] using ho)
        obtain ⟨hi, _, _⟩ := applyAll_spec hf hwf.1
        obtain ⟨fo, fa⟩ := applyAll_frame hf
        have : WF cfg := ⟨hi, fun _ => by rw [fa]; rfl⟩
        exact this.check

/-- every accepted `Simple` returns a config satisfying `checkInvariants` -/
theorem simple_preserves_invariants {c c' : Config} {ccs : List Change} (h : simple c ccs = .ok c') : checkInvariants c' := by
  obtain ⟨hc, ho, ha, _⟩ := (simple_eq_ok_iff c c' ccs).mp h
  obtain ⟨hf, _⟩ := apply_ok_iff.mp ha
  have hwf : WF c.clone := wf_of_check_nonjoint hc (by simpa [Config.clone] using ho)
  obtain ⟨hi, _, _⟩ := applyAll_spec hf hwf.1
  obtain ⟨_, fa⟩ := applyAll_frame hf
  exact (show WF c' from ⟨hi, fun _ => by rw [fa]; rfl⟩).check

/-- **an accepted `Simple` changes the voter set by at most one id and stays non-joint** -/
theorem simple_is_single_change {c c' : Config} {ccs : List Change} (h : simple c ccs = .ok c') :
    symdiff c.voters c'.voters ≤ 1 ∧ c.outgoing = ∅ ∧ c'.outgoing = ∅ ∧ c'.voters ≠ ∅ ∧
      c'.voters = targetVoters c.voters ccs ∧ c'.learners = targetLearners c.learners ccs ∧ c'.learnersNext = ∅ := by
  obtain ⟨hc, ho, ha, hs⟩ := (simple_eq_ok_iff c c' ccs).mp h
  obtain ⟨hf, hv⟩ := apply_ok_iff.mp ha
  have hwf : WF c.clone := wf_of_check_nonjoint hc (by simpa [Config.clone] using ho)
  obtain ⟨hi, tv, tl⟩ := applyAll_spec hf hwf.1
  obtain ⟨fo, _⟩ := applyAll_frame hf
  have ho' : c'.outgoing = ∅ := by rw [fo]; simpa [Config.clone] using ho
  have hn' : c'.learnersNext = ∅ := next_empty_of_inv1 hi ho'
  have hn : c.learnersNext = ∅ := by simpa [Config.clone] using next_empty_of_inv1 hwf.1 (by simpa [Config.clone] using ho)
  refine ⟨hs, ho, ho', hv, tv, ?_, hn'⟩
  rw [hn', Finset.union_empty] at tl
  rw [tl]; simp [Config.clone, hn]

/-- so every quorum of the voters before meets every quorum of the voters after (in a node that votes in both) -/
theorem simple_quorums_overlap {c c' : Config} {ccs : List Change} (h : simple c ccs = .ok c')
    (p p' : Nat → Prop) [DecidablePred p] [DecidablePred p'] (hq : Maj c.voters p) (hq' : Maj c'.voters p') :
    ∃ id, id ∈ c.voters ∧ id ∈ c'.voters ∧ p id ∧ p' id :=
  single_change_overlap _ _ p p' (simple_is_single_change h).1 hq hq'

/-! ### EnterJoint -/

theorem enterJoint_unfold (al : Bool) (c : Config) (ccs : List Change) (hc : checkInvariants c.clone) :
    enterJoint al c ccs =
      if c.outgoing ≠ ∅ then .error "config is already joint"
      else if c.voters = ∅ then .error "can't make a zero-voter config joint"
      else match apply { c.clone with outgoing := c.voters } ccs with
        | .error e => .error e
        | .ok cfg => checkAndReturn { cfg with autoLeave := al } := by
  unfold enterJoint checkAndCopy
  rw [checkAndReturn, if_pos hc]
  simp only [bind, Except.bind, joint, Config.clone]
  by_cases ho : c.outgoing = ∅
  · simp [ho]
    generalize apply _ ccs = r
    cases r <;> rfl
  · simp [ho]

theorem enterJoint_error_of_not_check (al : Bool) (c : Config) (ccs : List Change) (hc : ¬ checkInvariants c.clone) :
    ∃ e, enterJoint al c ccs = .error e := by
  unfold enterJoint checkAndCopy
  rw [checkAndReturn, if_neg hc]
  exact ⟨_, rfl⟩

/-- the config `EnterJoint` applies the changes to is `WF` -/
theorem enter_start_wf {c : Config} (hc : checkInvariants c.clone) (ho : c.outgoing = ∅) :
    Inv1 { c.clone with outgoing := c.voters } := by
  have hwf : WF c.clone := wf_of_check_nonjoint hc (by simpa [Config.clone] using ho)
  have hn : c.learnersNext = ∅ := by simpa [Config.clone] using next_empty_of_inv1 hwf.1 (by simpa [Config.clone] using ho)
  refine ⟨?_, ?_⟩
  · intro id hid
    simp [Config.clone, hn] at hid
  · intro id hid
    have := hwf.1.2 id hid
    simp only [Config.clone] at this ⊢
    exact ⟨this.2, this.2⟩

/-- **`EnterJoint` fails only for the reasons it names** (the final `checkAndReturn` never fails) -/
theorem enterJoint_eq_ok_iff (al : Bool) (c c' : Config) (ccs : List Change) :
    enterJoint al c ccs = .ok c' ↔
      checkInvariants c.clone ∧ c.outgoing = ∅ ∧ c.voters ≠ ∅ ∧
        ∃ c1, apply { c.clone with outgoing := c.voters } ccs = .ok c1 ∧ c' = { c1 with autoLeave := al } := by
  by_cases hc : checkInvariants c.clone
  swap
  · obtain ⟨e, he⟩ := enterJoint_error_of_not_check al c ccs hc
    simp [he, hc]
  rw [enterJoint_unfold al c ccs hc]
  by_cases ho : c.outgoing = ∅
  swap
  · simp [ho]
  by_cases hv : c.voters = ∅
  · simp [ho, hv]
  simp only [ho, hv, ne_eq, not_true_eq_false, if_false, hc, true_and, not_false_eq_true]
  cases ha : apply { c.clone with outgoing := c.voters } ccs with
  | error e => simp
  | ok cfg =>
    simp only [Except.ok.injEq, checkAndReturn_ok_iff]
    constructor
    · rintro ⟨_, rfl⟩; exact ⟨cfg, rfl, rfl⟩
    · rintro ⟨c1, h1, h2⟩
      subst h2
      subst h1
      refine ⟨?_, rfl⟩
      obtain ⟨hf, _⟩ := apply_ok_iff.mp ha
      obtain ⟨hi, _, _⟩ := applyAll_spec hf (enter_start_wf hc ho)
      obtain ⟨fo, _⟩ := applyAll_frame hf
      apply WF.check
      refine ⟨hi, fun h0 => ?_⟩
      exfalso
      change _ = ∅ at h0
      rw [fo] at h0; exact hv h0

/-- every accepted `EnterJoint` returns a config satisfying `checkInvariants` -/
theorem enterJoint_preserves_invariants {al : Bool} {c c' : Config} {ccs : List Change} (h : enterJoint al c ccs = .ok c') :
    checkInvariants c' := by
  by_cases hc : checkInvariants c.clone
  · rw [enterJoint_unfold al c ccs hc] at h
    split at h
    · cases h
    · split at h
      · cases h
      · split at h
        · cases h
        · exact (checkAndReturn_ok_iff.mp h).2 ▸ (checkAndReturn_ok_iff.mp h).1
  · obtain ⟨e, he⟩ := enterJoint_error_of_not_check al c ccs hc
    rw [he] at h; cases h

/-- **the shape of an accepted `EnterJoint`**: the old voters become the outgoing half, the incoming half is what the changes
    request, current and staged learners together are the requested learners, and the result is `WF` -/
theorem enterJoint_shape {al : Bool} {c cj : Config} {ccs : List Change} (h : enterJoint al c ccs = .ok cj) :
    cj.outgoing = c.voters ∧ c.voters ≠ ∅ ∧ c.outgoing = ∅ ∧ cj.voters = targetVoters c.voters ccs ∧ cj.voters ≠ ∅ ∧
      cj.learners ∪ cj.learnersNext = targetLearners c.learners ccs ∧ cj.autoLeave = al ∧ WF cj := by
  obtain ⟨hc, ho, hv, c1, ha, rfl⟩ := (enterJoint_eq_ok_iff al c cj ccs).mp h
  obtain ⟨hf, hv1⟩ := apply_ok_iff.mp ha
  obtain ⟨hi, tv, tl⟩ := applyAll_spec hf (enter_start_wf hc ho)
  obtain ⟨fo, _⟩ := applyAll_frame hf
  have hwf : WF c.clone := wf_of_check_nonjoint hc (by simpa [Config.clone] using ho)
  have hn : c.learnersNext = ∅ := by simpa [Config.clone] using next_empty_of_inv1 hwf.1 (by simpa [Config.clone] using ho)
  refine ⟨fo, hv, ho, tv, hv1, ?_, rfl, ⟨hi, fun h0 => ?_⟩⟩
  · rw [tl]; simp [Config.clone, hn]
  · exfalso; simp only [fo] at h0; exact hv h0

/-- so every joint quorum of the new config meets every quorum of the old voters -/
theorem enterJoint_quorums_overlap {al : Bool} {c cj : Config} {ccs : List Change} (h : enterJoint al c ccs = .ok cj)
    (p p' : Nat → Prop) [DecidablePred p] [DecidablePred p'] (hq : JointMaj cj.jointConfig p) (hq' : Maj c.voters p') :
    ∃ id ∈ c.voters, p id ∧ p' id := by
  have ho := (enterJoint_shape h).1
  have : JointMaj ⟨cj.voters, c.voters⟩ p := by
    rw [← ho]; exact hq
  exact joint_overlap_old _ _ p p' this hq'

/-! ### LeaveJoint -/

theorem leaveJoint_unfold (c : Config) (hc : checkInvariants c.clone) :
    leaveJoint c =
      if c.outgoing = ∅ then .error "can't leave a non-joint config"
      else checkAndReturn ⟨c.voters, ∅, c.learners ∪ c.learnersNext, ∅, false⟩ := by
  unfold leaveJoint checkAndCopy
  rw [checkAndReturn, if_pos hc]
  simp only [bind, Except.bind, joint, Config.clone]
  by_cases ho : c.outgoing = ∅ <;> simp [ho]

theorem leaveJoint_error_of_not_check (c : Config) (hc : ¬ checkInvariants c.clone) : ∃ e, leaveJoint c = .error e := by
  unfold leaveJoint checkAndCopy
  rw [checkAndReturn, if_neg hc]
  exact ⟨_, rfl⟩

/-- **`LeaveJoint` fails only for the reasons it names**, on a config in which no staged learner is an incoming voter
    (which every config produced by the Changer satisfies: `changer_result_wf`) -/
theorem leaveJoint_eq_ok_iff (c c' : Config) (hd : ∀ id ∈ c.learnersNext, id ∉ c.voters) :
    leaveJoint c = .ok c' ↔
      checkInvariants c.clone ∧ c.outgoing ≠ ∅ ∧ c' = ⟨c.voters, ∅, c.learners ∪ c.learnersNext, ∅, false⟩ := by
  by_cases hc : checkInvariants c.clone
  swap
  · obtain ⟨e, he⟩ := leaveJoint_error_of_not_check c hc
    simp [he, hc]
  rw [leaveJoint_unfold c hc]
  by_cases ho : c.outgoing = ∅
  · simp [ho]
  simp only [ho, if_false, hc, true_and, ne_eq, not_false_eq_true, checkAndReturn_ok_iff]
  constructor
  · rintro ⟨_, rfl⟩; rfl
  · rintro rfl
    refine ⟨?_, rfl⟩
    unfold checkInvariants
    simp only [Finset.notMem_empty, false_and, imp_false, not_false_eq_true, implies_true, true_and, and_self, and_true]
    intro id hid
    rcases Finset.mem_union.mp hid with hl | hn
    · have := hc.2.1 id (by simpa [Config.clone] using hl)
      simpa [Config.clone] using this.2
    · exact hd id hn

/-- every accepted `LeaveJoint` returns a config satisfying `checkInvariants` -/
theorem leaveJoint_preserves_invariants {c c' : Config} (h : leaveJoint c = .ok c') : checkInvariants c' := by
  by_cases hc : checkInvariants c.clone
  · rw [leaveJoint_unfold c hc] at h
    split at h
    · cases h
    · exact (checkAndReturn_ok_iff.mp h).2 ▸ (checkAndReturn_ok_iff.mp h).1
  · obtain ⟨e, he⟩ := leaveJoint_error_of_not_check c hc
    rw [he] at h; cases h

/-- the shape of an accepted `LeaveJoint`, whatever the start -/
theorem leaveJoint_shape {c c' : Config} (h : leaveJoint c = .ok c') :
    c.outgoing ≠ ∅ ∧ c' = ⟨c.voters, ∅, c.learners ∪ c.learnersNext, ∅, false⟩ := by
  by_cases hc : checkInvariants c.clone
  · rw [leaveJoint_unfold c hc] at h
    split at h
    · cases h
    · rename_i ho
      exact ⟨ho, (checkAndReturn_ok_iff.mp h).2⟩
  · obtain ⟨e, he⟩ := leaveJoint_error_of_not_check c hc
    rw [he] at h; cases h

/-- `checkInvariants` as written is not inductive for `LeaveJoint`: `voters=(1 2)&&(1 2 3) learners_next=(1)` passes it, and
    `LeaveJoint` then builds `voters=(1 2) learners=(1)`, which its final check rejects.  (The Changer never produces such a
    config — `changer_result_wf` — because `makeLearner` removes the id from `Voters[0]` before staging it.) -/
theorem leaveJoint_needs_next_disjoint :
    ∃ c : Config, checkInvariants c ∧ checkInvariants c.clone ∧ c.outgoing ≠ ∅ ∧ ∃ e, leaveJoint c = .error e := by
  refine ⟨⟨{1, 2}, {1, 2, 3}, ∅, {1}, false⟩, by decide, by decide, by decide, ?_⟩
  rw [leaveJoint_unfold _ (by decide)]
  simp only [checkAndReturn]
  refine ⟨"invariant violated", ?_⟩
  rw [if_neg (by decide), if_neg (by decide)]

/-- so every quorum of the config after `LeaveJoint` meets every joint quorum of the config before -/
theorem leaveJoint_quorums_overlap {c c' : Config} (h : leaveJoint c = .ok c')
    (p p' : Nat → Prop) [DecidablePred p] [DecidablePred p'] (hq : JointMaj c.jointConfig p) (hq' : Maj c'.voters p') :
    ∃ id ∈ c'.voters, p id ∧ p' id := by
  obtain ⟨_, rfl⟩ := leaveJoint_shape h
  exact joint_overlap_new c.voters c.outgoing p p' hq hq'

/-! ### the Changer as a whole -/

/-- **every config an accepted operation returns is `WF`** — in particular `LearnersNext ∩ Voters[0] = ∅`, the hypothesis of
    `leaveJoint_eq_ok_iff` — whatever config the operation started from -/
theorem changer_result_wf {c c' : Config} :
    ((∃ ccs, simple c ccs = .ok c') ∨ (∃ al ccs, enterJoint al c ccs = .ok c') ∨ leaveJoint c = .ok c') → WF c' := by
  rintro (⟨ccs, h⟩ | ⟨al, ccs, h⟩ | h)
  · exact wf_of_check_nonjoint (simple_preserves_invariants h) (simple_is_single_change h).2.2.1
  · exact (enterJoint_shape h).2.2.2.2.2.2.2
  · have hc := leaveJoint_preserves_invariants h
    obtain ⟨_, rfl⟩ := leaveJoint_shape h
    exact wf_of_check_nonjoint hc rfl

/-- the configs reachable from the empty tracker through accepted operations -/
inductive Reachable : Config → Prop
| empty : Reachable Config.empty
| simple {c c' ccs} : Reachable c → simple c ccs = .ok c' → Reachable c'
| enter {c c' al ccs} : Reachable c → enterJoint al c ccs = .ok c' → Reachable c'
| leave {c c'} : Reachable c → leaveJoint c = .ok c' → Reachable c'

theorem reachable_wf {c : Config} (h : Reachable c) : WF c := by
  cases h with
  | empty => exact wf_empty
  | simple _ h => exact changer_result_wf (.inl ⟨_, h⟩)
  | enter _ h => exact changer_result_wf (.inr (.inl ⟨_, _, h⟩))
  | leave _ h => exact changer_result_wf (.inr (.inr h))

theorem foldlM_simple_reachable {ccs : List Change} {c c' : Config} (hr : Reachable c)
    (h : ccs.foldlM (fun c cc => simple c [cc]) c = .ok c') : Reachable c' := by
  induction ccs generalizing c with
  | nil => simp [pure, Except.pure] at h; cases h; exact hr
  | cons cc ccs ih =>
    rw [List.foldlM_cons] at h
    cases h1 : simple c [cc] with
    | error e => rw [h1] at h; simp [bind, Except.bind] at h
    | ok c1 =>
      rw [h1] at h
      exact ih (.simple hr h1) (by simpa [bind, Except.bind] using h)

/-- what `confchange.Restore` builds from an empty tracker is reachable through accepted operations (so it is `WF`); the
    ConfState may be arbitrary (repetitions, overlapping sets): then `restore` fails or returns some other reachable config -/
theorem restore_reachable {cs : ConfState} {c : Config} (h : restore cs = .ok c) : Reachable c := by
  unfold restore at h
  simp only at h
  split at h
  · exact foldlM_simple_reachable .empty h
  · cases h1 : (toConfChangeSingle cs).1.foldlM (fun c cc => simple c [cc]) Config.empty with
    | error e => rw [h1] at h; simp [bind, Except.bind] at h
    | ok c1 =>
      rw [h1] at h
      exact .enter (foldlM_simple_reachable .empty h1) (by simpa [bind, Except.bind] using h)

/-- **`LeaveJoint ∘ EnterJoint` yields exactly the requested voters and learners**: the voters are `targetVoters` of the old ones,
    the staged learners (`LearnersNext`) are promoted, so the learners are `targetLearners` of the old ones; nothing is outgoing,
    nothing is staged, `AutoLeave` is off — and `LeaveJoint` cannot fail there -/
theorem leave_after_enter {al : Bool} {c cj : Config} {ccs : List Change} (h : enterJoint al c ccs = .ok cj) :
    leaveJoint cj = .ok ⟨targetVoters c.voters ccs, ∅, targetLearners c.learners ccs, ∅, false⟩ := by
  obtain ⟨ho, hv, _, tv, _, tl, _, hwf⟩ := enterJoint_shape h
  have hd : ∀ id ∈ cj.learnersNext, id ∉ cj.voters := fun id hid => (hwf.1.1 id hid).2.2
  rw [leaveJoint_eq_ok_iff cj _ hd]
  refine ⟨?_, by rw [ho]; exact hv, by rw [tv, tl]⟩
  -- the copy (AutoLeave cleared) still satisfies the invariants: the config is joint
  have hc := hwf.check
  refine ⟨hc.1, hc.2.1, fun h0 => ?_⟩
  exfalso
  simp only [Config.clone] at h0
  rw [ho] at h0; exact hv h0

/-- non-vacuity: `(1 2 3)` —EnterJoint(remove 3, add 4, add-learner 3)→ `(1 2 4)&&(1 2 3) learners_next=(3)` —LeaveJoint→ `(1 2 4) learners=(3)` -/
example : (enterJoint true ⟨{1, 2, 3}, ∅, ∅, ∅, false⟩ [⟨.removeNode, 3⟩, ⟨.addNode, 4⟩, ⟨.addLearnerNode, 3⟩]).toOption
    = some ⟨{1, 2, 4}, {1, 2, 3}, ∅, {3}, true⟩ := by decide

example : (leaveJoint ⟨{1, 2, 4}, {1, 2, 3}, ∅, {3}, true⟩).toOption = some ⟨{1, 2, 4}, ∅, {3}, ∅, false⟩ := by decide

/-- two voters at once: rejected by `Simple` -/
example : (simple ⟨{1, 2, 3}, ∅, ∅, ∅, false⟩ [⟨.addNode, 4⟩, ⟨.addNode, 5⟩]).toOption = none := by decide

#print axioms simple_eq_ok_iff
#print axioms enterJoint_eq_ok_iff
#print axioms leaveJoint_eq_ok_iff
#print axioms simple_preserves_invariants
#print axioms enterJoint_preserves_invariants
#print axioms leaveJoint_preserves_invariants
#print axioms simple_is_single_change
#print axioms leave_after_enter
#print axioms reachable_wf
#print axioms restore_reachable
end RQJ
