import RedisGoModel.Raft.RSJLemmas
import RedisGoModel.Props.C15ConfDyn

/-! C15 Stage D, last step: safety of the protocol with JOINT configurations entered and left through the log (`Raft/RSJ.lean`).

    The structure is that of `Props/C15ConfDyn.lean` (single-voter changes), which is the template; what is generalised is the one
    place where the kind of configuration change matters: "the voter sets of two configurations at most one conf-change entry apart
    differ in at most one id" (`RSC.cfgAt_symdiff`, `RSC.quorumC_overlap`) becomes "the quorums of two configurations at most one
    conf-change entry apart intersect" (`RSJ.cfgAt_ovl`, `RSJ.quorumJ_overlap`), which holds for `Simple`, `EnterJoint` and
    `LeaveJoint` alike (`RSJ.applyCC_ovl`) — `C_old` vs `C_new,old` because a joint quorum contains a majority of `C_old`,
    `C_new,old` vs `C_new` because it contains a majority of `C_new`.  A node still in `C_old` and one already in `C_new` are TWO
    conf-change entries apart (the `enter` and the `leave`); that both decide is excluded exactly as two single changes apart is
    excluded in `RSC`: the decision that first committed the second entry was taken one entry away (`fc`), so an elector
    acknowledged it and the candidate holds it, contradicting "at most one conf change above applied" (`elect_not_behind`).
    No guard was added that etcd lacks; of etcd's three proposal-gate reasons only `alreadyPending` is used by the safety proof
    (the other two keep the Changer from refusing at apply time, where etcd panics).

    The generic facts about the guarded L0 (`Ext`, `voter_holds`, `cmt_agree`, `Cmtd`) are reused from `C15ConfDyn`. -/
namespace RSJ
open RS hiding Inv0 Inv1 Inv2 Inv3 Inv4 Step Reach reach_inv leader_completeness committed_agree fresh_term QA QAc
  state_machine_safety committed_in_later_leader ldr_unique C15_election_safety C15_log_matching C15_leader_completeness
  C15_state_machine_safety C15_committed_never_rewritten commit_in_leader handleAE_keeps_committed
open RSQ
open RSC (nid nidsOf mem_nidsOf CSys updN updN_same updN_other cBecomeLeader cAdvanceCommit Label cinit LinkedStep
  Ext ext_step take_of_prefix voter_holds cmt_agree Cmtd node_cmtd take_take_le take_le_of_take)

variable {N : Nat}

/-! ### the invariant of the joint-configuration protocol -/

/-- what the invariant says about one node: its state `nd`, its applied index `ap`, its `pendingConfIndex` `pd` -/
structure NodeOK (b : Sys N) (nd : NodeSt N) (ap pd : Nat) : Prop where
  app_le : ap ≤ nd.commit
  one    : cnt nd.log nd.commit nd.log.length ≤ 1
  pendok : nd.role = .leader → ∀ c, c ≤ nd.log.length → confAt nd.log c = true → c ≤ pd
  cand   : nd.role = .candidate → cnt nd.log ap nd.commit = 0 ∧ Cmtd b nd.log nd.commit nd.term
  ldr    : nd.role = .leader → cnt nd.log ap nd.log.length ≤ 1

structure CInv (c0 : RQJ.Config) (s : CSys N) : Prop where
  reach  : Reach s.base
  node   : ∀ i, NodeOK s.base (s.base.nodes i) (s.applied i) (s.pend i)
  aeone  : ∀ t src prev pt ents cm, s.base.msgs (.ae t src prev pt ents cm) → cnt (s.base.llog t) cm (prev + ents.length) ≤ 1
  el     : ∀ t c, s.base.isLdr t c → IsQuorumJ (cfgAt c0 (s.base.clog t c) (s.eapp t)) (s.base.equo t) ∧
             cnt (s.base.clog t c) (s.eapp t) (s.base.clog t c).length ≤ 1 ∧ Cmtd s.base (s.base.clog t c) (s.eapp t) t
  cq     : ∀ k t a, s.capp k t a → s.base.cmt k t ∧ a < k ∧
             (∃ Qc : Finset (Fin N), IsQuorumJ (cfgAt c0 (s.base.llog t) a) Qc ∧ ∀ j ∈ Qc, ∃ n, k ≤ n ∧ s.base.acks t j n) ∧
             cnt (s.base.llog t) a k ≤ 1
  cqex   : ∀ k t, s.base.cmt k t → ∃ a, s.capp k t a
  fc     : ∀ k t c, s.base.cmt k t → c ≤ k → confAt (s.base.llog t) c = true →
             ∃ k' t' a', s.capp k' t' a' ∧ a' < c ∧ c ≤ k' ∧ t' ≤ t ∧ (s.base.llog t').take c = (s.base.llog t).take c

theorem CInv.app_le {c0 : RQJ.Config} {s : CSys N} (ci : CInv c0 s) (i : Fin N) : s.applied i ≤ (s.base.nodes i).commit :=
  (ci.node i).app_le
theorem CInv.one {c0 : RQJ.Config} {s : CSys N} (ci : CInv c0 s) (i : Fin N) :
    cnt (s.base.nodes i).log (s.base.nodes i).commit (s.base.nodes i).log.length ≤ 1 := (ci.node i).one
theorem CInv.cand {c0 : RQJ.Config} {s : CSys N} (ci : CInv c0 s) (i : Fin N) (h : (s.base.nodes i).role = .candidate) :
    cnt (s.base.nodes i).log (s.applied i) (s.base.nodes i).commit = 0 ∧
    Cmtd s.base (s.base.nodes i).log (s.base.nodes i).commit (s.base.nodes i).term := (ci.node i).cand h
theorem CInv.ldr {c0 : RQJ.Config} {s : CSys N} (ci : CInv c0 s) (i : Fin N) (h : (s.base.nodes i).role = .leader) :
    cnt (s.base.nodes i).log (s.applied i) (s.base.nodes i).log.length ≤ 1 := (ci.node i).ldr h

/-- an election point: `Q` is a quorum of the configuration at applied index `bq` of the log `clog t0 c`, and all of `Q` voted for `c` in `t0` -/
structure EPoint (c0 : RQJ.Config) (s : CSys N) (t0 : Nat) (c : Fin N) (bq : Nat) (Q : Finset (Fin N)) : Prop where
  quo  : IsQuorumJ (cfgAt c0 (s.base.clog t0 c) bq) Q
  vote : ∀ y ∈ Q, s.base.votes t0 y c
  one  : cnt (s.base.clog t0 c) bq (s.base.clog t0 c).length ≤ 1

/-- a winner whose configuration is within one change of the configuration of a commit decision of an earlier term holds what was committed -/
theorem elect_holds {c0 : RQJ.Config} {s : CSys N} (ci : CInv c0 s) {t0 : Nat} {c : Fin N} {bq : Nat} {Q : Finset (Fin N)}
    (ep : EPoint c0 s t0 c bq Q) {k' t' a' : Nat} (hr : s.capp k' t' a') (hlt : t' < t0)
    (hd : Ovl (cfgAt c0 (s.base.llog t') a') (cfgAt c0 (s.base.clog t0 c) bq)) :
    Good s.base.llog (s.base.clog t0 c) t' k' := by
  obtain ⟨hc, _, ⟨Qc, hqc, hQc⟩, _⟩ := ci.cq k' t' a' hr
  obtain ⟨y, hy1, hy2⟩ := quorumJ_overlap hqc ep.quo hd
  obtain ⟨n, hn, ha⟩ := hQc y hy1
  exact voter_holds ci.reach (ep.vote y hy2) ha hn hc hlt

/-- the configuration of an election point cannot be two or more conf changes behind a committed prefix of earlier terms -/
theorem elect_not_behind {c0 : RQJ.Config} {s : CSys N} (ci : CInv c0 s) {t0 : Nat} {c : Fin N} {bq : Nat} {Q : Finset (Fin N)}
    (ep : EPoint c0 s t0 c bq Q) {L : Log} {hi T : Nat} (hL : L.take bq = (s.base.clog t0 c).take bq)
    (hcm : Cmtd s.base L hi T) (hT : T ≤ t0) (h2 : 2 ≤ cnt L bq hi) : False := by
  obtain ⟨c2, hc1, hc2, hconf, hcnt⟩ := cnt_second L h2
  rcases hcm with z | ⟨k, t, hk, hik, htT, eL⟩
  · omega
  have eL2 : L.take c2 = (s.base.llog t).take c2 := take_le_of_take eL hc2
  have hconf' : confAt (s.base.llog t) c2 = true := by rw [← confAt_congr eL2 (Nat.le_refl _)]; exact hconf
  obtain ⟨k', t', a', hr, ha', hck', htt, e2⟩ := ci.fc k t c2 hk (by omega) hconf'
  obtain ⟨hc', _, _, hone⟩ := ci.cq k' t' a' hr
  have e3 : (s.base.llog t').take c2 = L.take c2 := by rw [e2, eL2]
  -- no conf change in (a', c2-1]
  have h0 : cnt L a' (c2 - 1) = 0 := by
    have e4 : L.take (c2 - 1) = (s.base.llog t').take (c2 - 1) := (take_le_of_take e3 (by omega)).symm
    rw [cnt_congr e4]
    have hcf : confAt (s.base.llog t') c2 = true := by rw [confAt_congr e3 (Nat.le_refl _)]; exact hconf
    have := cnt_conf (s.base.llog t') ha' hcf
    have := cnt_mono_hi (s.base.llog t') a' hck'
    omega
  have hd : Ovl (cfgAt c0 (s.base.llog t') a') (cfgAt c0 (s.base.clog t0 c) bq) := by
    rw [cfgAt_congr c0 (take_le_of_take e3 (by omega : a' ≤ c2)), ← cfgAt_congr c0 hL]
    apply cfgAt_ovl'
    · rcases Nat.le_total bq a' with h | h
      · rw [cnt_of_le L h]; omega
      · have := cnt_mono_hi L a' (by omega : bq ≤ c2 - 1); omega
    · rcases Nat.le_total bq a' with h | h
      · have := cnt_mono_hi L bq (by omega : a' ≤ c2 - 1); omega
      · rw [cnt_of_le L h]; omega
  obtain ⟨g1, g2⟩ := elect_holds ci ep hr (by omega) hd
  have e5 : (s.base.clog t0 c).take c2 = L.take c2 := by rw [take_le_of_take g2 hck', e3]
  have h3 : cnt (s.base.clog t0 c) bq c2 = 2 := by
    rw [cnt_congr e5, cnt_conf L hc1 hconf, hcnt]
  have := cnt_mono_hi (s.base.clog t0 c) bq (by omega : c2 ≤ (s.base.clog t0 c).length)
  have := ep.one
  omega

/-- **every election of the joint-configuration protocol is linked** -/
theorem electOK_of_cinv {c0 : RQJ.Config} {s : CSys N} (ci : CInv c0 s) (i : Fin N) (Q : Finset (Fin N))
    (hq : IsQuorumJ (cfg c0 s i) Q) (hc : (s.base.nodes i).role = .candidate)
    (hQ : ∀ j ∈ Q, j = i ∨ s.base.msgs (.rvResp (s.base.nodes i).term j i true)) : ElectOK s.base i Q := by
  obtain ⟨h0, h1, h2, h3, _⟩ := reach_inv ci.reach
  have hlog : (s.base.nodes i).log = s.base.clog (s.base.nodes i).term i := h1.cand_log i hc
  have hvote : ∀ y ∈ Q, s.base.votes (s.base.nodes i).term y i := by
    intro j hj
    rcases hQ j hj with rfl | hm
    · exact h0.cand_self j (by rw [hc]; simp)
    · exact h0.resp_voted _ _ _ hm
  have hble := ci.app_le i
  have hcl := (h3.n1 i).1
  have hone : cnt (s.base.nodes i).log (s.applied i) (s.base.nodes i).log.length ≤ 1 := by
    rw [cnt_split _ hble hcl, (ci.cand i hc).1]; have := ci.one i; omega
  have ep : EPoint c0 s (s.base.nodes i).term i (s.applied i) Q :=
    ⟨by rw [← hlog]; exact hq, hvote, by rw [← hlog]; exact hone⟩
  have hcB' := (ci.cand i hc).2
  have hcB := hcB'.mono hble
  refine ⟨?_, ?_, ?_⟩
  · obtain ⟨y, hy, _⟩ := quorumJ_overlap hq hq (Ovl.refl _)
    exact ⟨y, hy⟩
  · intro j hj
    obtain ⟨q', one', cm'⟩ := ci.el _ j hj
    have ep' : EPoint c0 s (s.base.nodes i).term j (s.eapp (s.base.nodes i).term) (s.base.equo (s.base.nodes i).term) :=
      ⟨q', (h0.ldr_quorum _ j hj).2, one'⟩
    rcases Nat.le_total (s.applied i) (s.eapp (s.base.nodes i).term) with hbb | hbb
    · have hL : (s.base.clog (s.base.nodes i).term j).take (s.applied i) = (s.base.clog (s.base.nodes i).term i).take (s.applied i) := by
        rw [← hlog]; exact Cmtd.agree ci.reach cm' hcB hbb (Nat.le_refl _)
      by_cases h1c : cnt (s.base.clog (s.base.nodes i).term j) (s.applied i) (s.eapp (s.base.nodes i).term) ≤ 1
      · have hd : Ovl (cfgAt c0 (s.base.clog (s.base.nodes i).term i) (s.applied i))
            (cfgAt c0 (s.base.clog (s.base.nodes i).term j) (s.eapp (s.base.nodes i).term)) := by
          rw [← cfgAt_congr c0 hL]; exact cfgAt_ovl c0 _ hbb h1c
        exact quorumJ_overlap ep.quo q' hd
      · exact (elect_not_behind ci ep hL cm' (Nat.le_refl _) (by omega)).elim
    · have hL : (s.base.clog (s.base.nodes i).term i).take (s.eapp (s.base.nodes i).term) =
          (s.base.clog (s.base.nodes i).term j).take (s.eapp (s.base.nodes i).term) := by
        rw [← hlog]; exact Cmtd.agree ci.reach hcB cm' hbb (Nat.le_refl _)
      by_cases h1c : cnt (s.base.clog (s.base.nodes i).term i) (s.eapp (s.base.nodes i).term) (s.applied i) ≤ 1
      · have hd : Ovl (cfgAt c0 (s.base.clog (s.base.nodes i).term i) (s.applied i))
            (cfgAt c0 (s.base.clog (s.base.nodes i).term j) (s.eapp (s.base.nodes i).term)) := by
          rw [← cfgAt_congr c0 hL]; exact (cfgAt_ovl c0 _ hbb h1c).symm
        exact quorumJ_overlap ep.quo q' hd
      · exact (elect_not_behind ci ep' hL (by rw [← hlog]; exact hcB) (Nat.le_refl _) (by omega)).elim
  · intro k t htt hck
    obtain ⟨qa, _⟩ := h3.cm k t hck
    by_cases hkc : k ≤ (s.base.nodes i).commit
    · right
      have e := Cmtd.agree_cmt ci.reach hcB' hck hkc (Nat.le_refl _)
      refine ⟨k, Nat.le_refl _, by omega, ?_⟩
      rw [termAt_of_take_eq e, qa.2.1]
    · obtain ⟨a, hr⟩ := ci.cqex k t hck
      obtain ⟨_, hak, ⟨Qc, hqc, hQc⟩, hone'⟩ := ci.cq k t a hr
      have eb : (s.base.clog (s.base.nodes i).term i).take (s.applied i) = (s.base.llog t).take (s.applied i) := by
        rw [← hlog]; exact Cmtd.agree_cmt ci.reach hcB hck (Nat.le_refl _) (by omega)
      rcases Nat.le_total a (s.applied i) with hab | hab
      · have hd : Ovl (cfgAt c0 (s.base.llog t) a)
            (cfgAt c0 (s.base.clog (s.base.nodes i).term i) (s.applied i)) := by
          rw [cfgAt_congr c0 eb]
          exact cfgAt_ovl c0 _ hab (by have := cnt_mono_hi (s.base.llog t) a (by omega : s.applied i ≤ k); omega)
        obtain ⟨y, hy1, hy2⟩ := quorumJ_overlap hqc ep.quo hd
        exact Or.inl ⟨y, hy2, hQc y hy1⟩
      · by_cases h1c : cnt (s.base.llog t) (s.applied i) a ≤ 1
        · have hd : Ovl (cfgAt c0 (s.base.llog t) a)
              (cfgAt c0 (s.base.clog (s.base.nodes i).term i) (s.applied i)) := by
            rw [cfgAt_congr c0 eb]
            exact (cfgAt_ovl c0 _ hab h1c).symm
          obtain ⟨y, hy1, hy2⟩ := quorumJ_overlap hqc ep.quo hd
          exact Or.inl ⟨y, hy2, hQc y hy1⟩
        · exact (elect_not_behind ci ep eb.symm (Or.inr ⟨k, t, hck, by omega, Nat.lt_succ_self t, rfl⟩ : Cmtd s.base (s.base.llog t) a (t+1))
            (by omega) (by omega)).elim

/-- the case analysis of `commitOK_of_cinv` for one later leader, given leader completeness for the leaders in between -/
theorem commitOK_one {c0 : RQJ.Config} {s : CSys N} (ci : CInv c0 s) (i : Fin N) (k : Nat) (Q : Finset (Fin N))
    (hl : (s.base.nodes i).role = .leader) (hk : (s.base.nodes i).commit < k ∧ k ≤ (s.base.nodes i).log.length)
    (hterm : termAt (s.base.nodes i).log k = (s.base.nodes i).term)
    (hq : IsQuorumJ (cfg c0 s i) Q) (hQ : ∀ j ∈ Q, ∃ n, k ≤ n ∧ s.base.acks (s.base.nodes i).term j n)
    (B : Nat) (c' : Fin N) (htt : (s.base.nodes i).term < B + 1) (hl' : s.base.isLdr (B + 1) c')
    (ihg : ∀ t'', (s.base.nodes i).term < t'' → t'' ≤ B → ∀ c, s.base.isLdr t'' c →
      Good s.base.llog (s.base.elog t'') (s.base.nodes i).term k) :
    (∃ y, y ∈ s.base.equo (B + 1) ∧ ∃ n, k ≤ n ∧ s.base.acks (s.base.nodes i).term y n) ∨
    (∃ idx, k ≤ idx ∧ idx ≤ (s.base.elog (B + 1)).length ∧ (s.base.nodes i).term ≤ termAt (s.base.elog (B + 1)) idx ∧
      termAt (s.base.elog (B + 1)) idx < B + 1) := by
  obtain ⟨h0, h1, h2, h3, _⟩ := reach_inv ci.reach
  have hlog : (s.base.nodes i).log = s.base.llog (s.base.nodes i).term := h0.ldr_log i hl
  have hil := h0.ldr_role i hl
  obtain ⟨q', one', cm'⟩ := ci.el (B + 1) c' hl'
  have ep' : EPoint c0 s (B + 1) c' (s.eapp (B + 1)) (s.base.equo (B + 1)) := ⟨q', (h0.ldr_quorum _ c' hl').2, one'⟩
  have hcmL : Cmtd s.base (s.base.nodes i).log (s.applied i) ((s.base.nodes i).term + 1) :=
    (node_cmtd ci.reach i).mono (ci.app_le i)
  have honeL := ci.ldr i hl
  have hq' : IsQuorumJ (cfgAt c0 (s.base.nodes i).log (s.applied i)) Q := hq
  rcases Nat.le_total (s.applied i) (s.eapp (B + 1)) with hab | hab
  · have hL : (s.base.clog (B + 1) c').take (s.applied i) = (s.base.nodes i).log.take (s.applied i) :=
      Cmtd.agree ci.reach cm' hcmL hab (Nat.le_refl _)
    by_cases h1c : cnt (s.base.clog (B + 1) c') (s.applied i) (s.eapp (B + 1)) ≤ 1
    · have hd : Ovl (cfgAt c0 (s.base.nodes i).log (s.applied i))
          (cfgAt c0 (s.base.clog (B + 1) c') (s.eapp (B + 1))) := by
        rw [← cfgAt_congr c0 hL]; exact cfgAt_ovl c0 _ hab h1c
      obtain ⟨y, hy1, hy2⟩ := quorumJ_overlap hq' q' hd
      exact Or.inl ⟨y, hy2, hQ y hy1⟩
    · obtain ⟨c2, hc1, hc2, hconf, hcnt⟩ := cnt_second (s.base.clog (B + 1) c') (a := s.applied i) (b := s.eapp (B + 1)) (by omega)
      rcases cm' with z | ⟨k0, t0, hk0, hbk, htt0, e0⟩
      · omega
      have e02 : (s.base.clog (B + 1) c').take c2 = (s.base.llog t0).take c2 := take_le_of_take e0 hc2
      have hconf0 : confAt (s.base.llog t0) c2 = true := by rw [← confAt_congr e02 (Nat.le_refl _)]; exact hconf
      obtain ⟨k2, t2, a2, hr, ha2, hck2, htt2, e2⟩ := ci.fc k0 t0 c2 hk0 (by omega) hconf0
      have e3 : (s.base.llog t2).take c2 = (s.base.clog (B + 1) c').take c2 := by rw [e2, e02]
      obtain ⟨hc2', _, _, _⟩ := ci.cq k2 t2 a2 hr
      have contra : (s.base.llog (s.base.nodes i).term).take c2 = (s.base.clog (B + 1) c').take c2 →
          c2 ≤ (s.base.llog (s.base.nodes i).term).length → False := by
        intro e hlen
        rw [← hlog] at e hlen
        have h3' : cnt (s.base.nodes i).log (s.applied i) c2 = 2 := by
          rw [cnt_congr e, cnt_conf _ hc1 hconf, hcnt]
        have := cnt_mono_hi (s.base.nodes i).log (s.applied i) hlen
        omega
      by_cases htle : t2 ≤ (s.base.nodes i).term
      · by_cases hteq : t2 = (s.base.nodes i).term
        · rw [hteq] at e3 hc2'
          exact (contra e3 (by have := (h3.cm k2 _ hc2').2; omega)).elim
        · obtain ⟨g1, g2⟩ := C15_leader_completeness ci.reach hc2' (by omega : t2 < (s.base.nodes i).term) hil
          exact (contra (by rw [take_le_of_take g2 hck2, e3]) (by omega)).elim
      · have ht2B : t2 ≤ B := by omega
        obtain ⟨M, hM⟩ := (h3.cm k2 t2 hc2').1.has_leader h1
        obtain ⟨gM1, gM2⟩ := ihg t2 (by omega) ht2B M hM
        obtain ⟨gk, ge⟩ := leader_completeness h0 h1 h2 (h3.cm k2 t2 hc2').1 (B + 1) (by omega) c' hl'
        obtain ⟨_, _, f3, _⟩ := h1.el t2 M hM
        by_cases hkk : k ≤ k2
        · right
          have e5 : (s.base.elog (B + 1)).take k = (s.base.llog (s.base.nodes i).term).take k := by
            rw [take_le_of_take ge hkk, ← gM2, ← f3, take_take_le _ gM1]
          refine ⟨k, Nat.le_refl _, by omega, ?_, ?_⟩
          · rw [termAt_of_take_eq e5, ← hlog, hterm]
          · rw [termAt_of_take_eq e5, ← hlog, hterm]; exact htt
        · have hc2k : c2 ≤ k := by omega
          have e6 : (s.base.llog (s.base.nodes i).term).take c2 = (s.base.clog (B + 1) c').take c2 := by
            rw [← take_le_of_take gM2 hc2k, ← e3, ← f3, take_take_le _ (by omega : c2 ≤ (s.base.elog t2).length)]
          exact (contra e6 (by rw [← hlog]; omega)).elim
  · have hL : (s.base.nodes i).log.take (s.eapp (B + 1)) = (s.base.clog (B + 1) c').take (s.eapp (B + 1)) :=
      Cmtd.agree ci.reach hcmL cm' hab (Nat.le_refl _)
    by_cases h1c : cnt (s.base.nodes i).log (s.eapp (B + 1)) (s.applied i) ≤ 1
    · have hd : Ovl (cfgAt c0 (s.base.nodes i).log (s.applied i))
          (cfgAt c0 (s.base.clog (B + 1) c') (s.eapp (B + 1))) := by
        rw [← cfgAt_congr c0 hL]; exact (cfgAt_ovl c0 _ hab h1c).symm
      obtain ⟨y, hy1, hy2⟩ := quorumJ_overlap hq' q' hd
      exact Or.inl ⟨y, hy2, hQ y hy1⟩
    · exact (elect_not_behind ci ep' hL hcmL (by omega) (by omega)).elim

/-- **every commit decision of the joint-configuration protocol is linked** -/
theorem commitOK_of_cinv {c0 : RQJ.Config} {s : CSys N} (ci : CInv c0 s) (i : Fin N) (k : Nat) (Q : Finset (Fin N))
    (hl : (s.base.nodes i).role = .leader) (hk : (s.base.nodes i).commit < k ∧ k ≤ (s.base.nodes i).log.length)
    (hterm : termAt (s.base.nodes i).log k = (s.base.nodes i).term)
    (hq : IsQuorumJ (cfg c0 s i) Q) (hQ : ∀ j ∈ Q, ∃ n, k ≤ n ∧ s.base.acks (s.base.nodes i).term j n) :
    CommitOK s.base i k := by
  obtain ⟨h0, h1, h2, _, _⟩ := reach_inv ci.reach
  have hlog : (s.base.nodes i).log = s.base.llog (s.base.nodes i).term := h0.ldr_log i hl
  have main : ∀ B t' c', (s.base.nodes i).term < t' → t' ≤ B → s.base.isLdr t' c' →
      (∃ y, y ∈ s.base.equo t' ∧ ∃ n, k ≤ n ∧ s.base.acks (s.base.nodes i).term y n) ∨
      (∃ idx, k ≤ idx ∧ idx ≤ (s.base.elog t').length ∧ (s.base.nodes i).term ≤ termAt (s.base.elog t') idx ∧
        termAt (s.base.elog t') idx < t') := by
    intro B
    induction B with
    | zero => intro t' c' a b; omega
    | succ B ih =>
      intro t' c' htt htB hl'
      by_cases hb : t' ≤ B
      · exact ih t' c' htt hb hl'
      · have : t' = B + 1 := by omega
        subst this
        have ihg := leader_completeness_upto h0 h1 h2 (by omega : 1 ≤ k) (by rw [← hlog]; exact hterm) ih
        exact commitOK_one ci i k Q hl hk hterm hq hQ B c' htt hl' ihg
  intro t' c' htt hl'
  exact main t' t' c' htt (Nat.le_refl _) hl'

end RSJ
