import RedisGoModel.Props.C16G
import RedisGoModel.Props.C16WriterChain
/-! C16: the writer of File.lean through any sequence of `Save` / `SaveSnapshot` / `cut` calls on a WAL created with
    *any* metadata (nil included — `wal.Create(dir, nil)` is what raftexample does), with the items each call appends
    spelled out (`callItems`); the files it leaves are a `gchainFiles` chain and read back as `gchainRecords`.
    Generalises `WInv` / `writer_readback` of C16WriterChain.lean (non-nil metadata, entry payloads only). -/
namespace WalFile
open WalCodec

structure GGhost where
  closed : List (List GItem)
  cur    : List GItem

def gnoTail (l : List (List GItem)) : List (List GItem × Bytes) := l.map (fun i => (i, ([] : Bytes)))

def GGhost.crc0 (g : GGhost) : Nat := gchainCrc 0 (gnoTail g.closed)

def GGhost.all (g : GGhost) : List GItem := (g.closed ++ [g.cur]).flatten

def GGhost.add (g : GGhost) (extra : List GItem) : GGhost := { g with cur := g.cur ++ extra }

theorem GGhost.add_all (g : GGhost) (extra : List GItem) : (g.add extra).all = g.all ++ extra := by
  simp [GGhost.add, GGhost.all, List.flatten_append]

theorem GGhost.add_nil (g : GGhost) : g.add [] = g := by simp [GGhost.add]

theorem GGhost.add_add (g : GGhost) (a b : List GItem) : (g.add a).add b = g.add (a ++ b) := by
  simp [GGhost.add, List.append_assoc]

/-- the writer invariant -/
structure GInv (w : Writer) (g : GGhost) : Prop where
  closed : w.closed.map (·.2) = gchainFiles 0 (gnoTail g.closed)
  bytes  : w.bytes = gfileOf g.crc0 g.cur []
  crc    : w.crc = gCrcAfter g.crc0 g.cur
  ok     : ∀ it ∈ g.all, GItemOk it
  mdat   : (w.metadata.getD []).length < 2 ^ 55
  tsize  : w.tailSize = w.segSize
  stOk   : (marshalHS w.state).length < 2 ^ 55

theorem GInv.encode {w : Writer} {g : GGhost} (h : GInv w g) (ty : Nat) (d : Option Bytes)
    (hit : GItemOk ⟨ty, d⟩) : GInv (w.encode ty d) (g.add [⟨ty, d⟩]) := by
  obtain ⟨h1, h2⟩ := w.encode_bytes ty d
  refine { closed := by rw [Writer.encode_closed]; exact h.closed, bytes := ?_, crc := ?_, ok := ?_,
           mdat := by rw [Writer.encode_metadata]; exact h.mdat,
           tsize := by rw [Writer.encode_tailSize, Writer.encode_segSize]; exact h.tsize,
           stOk := by rw [Writer.encode_state]; exact h.stOk }
  · show _ = gfileOf g.crc0 (g.cur ++ [⟨ty, d⟩]) []
    rw [h1, h.bytes, gfileOf, gfileOf, gEncodeAll_append, ← h.crc]
    simp [gEncodeAll, GItem.bytes]
  · show _ = gCrcAfter g.crc0 (g.cur ++ [⟨ty, d⟩])
    rw [h2, gCrcAfter_append, ← h.crc]; rfl
  · intro it hit'
    rw [GGhost.add_all] at hit'
    rcases List.mem_append.mp hit' with h' | h'
    · exact h.ok it h'
    · simp only [List.mem_singleton] at h'; subst h'; exact hit

theorem GInv.congr {w w' : Writer} {g : GGhost} (h : GInv w g) (e1 : w'.closed = w.closed) (e2 : w'.bytes = w.bytes)
    (e3 : w'.crc = w.crc) (e4 : w'.metadata = w.metadata) (e5 : w'.tailSize = w.tailSize) (e6 : w'.segSize = w.segSize)
    (e7 : w'.state = w.state) : GInv w' g :=
  { closed := by rw [e1]; exact h.closed, bytes := by rw [e2]; exact h.bytes, crc := by rw [e3]; exact h.crc,
    ok := h.ok, mdat := by rw [e4]; exact h.mdat, tsize := by rw [e5, e6]; exact h.tsize,
    stOk := by rw [e7]; exact h.stOk }

theorem GInv.flush {w : Writer} {g : GGhost} (h : GInv w g) : GInv w.flush g :=
  h.congr rfl w.flush_bytes rfl rfl rfl rfl rfl

theorem GInv.setEnti {w : Writer} {g : GGhost} (h : GInv w g) (i : Nat) : GInv { w with enti := i } g :=
  h.congr rfl rfl rfl rfl rfl rfl rfl

def gStateItems (s : HardState) : List GItem := if isEmptyHS s then [] else [⟨stateType, some (marshalHS s)⟩]

def gEntItems (ents : List Entry) : List GItem := ents.map (fun e => ⟨entryType, some (marshalEntry e)⟩)

/-- what `cut` writes at the head of the new segment after the CRC record -/
def cutItems (md : Option Bytes) (st : HardState) : List GItem := [⟨metadataType, md⟩] ++ gStateItems st

theorem GInv.saveState {w : Writer} {g : GGhost} (h : GInv w g) (s : HardState) (hs : (marshalHS s).length < 2 ^ 55) :
    GInv (w.saveState s) (g.add (gStateItems s)) := by
  unfold Writer.saveState gStateItems
  by_cases he : isEmptyHS s = true
  · rw [if_pos he, if_pos he, GGhost.add_nil]; exact h
  · rw [if_neg he, if_neg he]
    have h' : GInv { w with state := s } g :=
      { closed := h.closed, bytes := h.bytes, crc := h.crc, ok := h.ok, mdat := h.mdat, tsize := h.tsize, stOk := hs }
    exact h'.encode stateType (some (marshalHS s)) ⟨show stateType < 2 ^ 64 by decide, hs, show stateType ≠ crcType by decide⟩

theorem Writer.saveState_state (w : Writer) (s : HardState) :
    (w.saveState s).state = if isEmptyHS s then w.state else s := by
  unfold Writer.saveState
  split
  · rfl
  · rw [Writer.encode_state]

theorem Writer.saveState_metadata (w : Writer) (s : HardState) : (w.saveState s).metadata = w.metadata := by
  unfold Writer.saveState
  split
  · rfl
  · rw [Writer.encode_metadata]

theorem Writer.foldEnts_state (ents : List Entry) : ∀ w : Writer, (w.foldEnts ents).state = w.state := by
  induction ents with
  | nil => intro w; rfl
  | cons e rest ih => intro w; show (Writer.foldEnts _ rest).state = _; rw [ih]; rfl

theorem Writer.foldEnts_metadata (ents : List Entry) : ∀ w : Writer, (w.foldEnts ents).metadata = w.metadata := by
  induction ents with
  | nil => intro w; rfl
  | cons e rest ih => intro w; show (Writer.foldEnts _ rest).metadata = _; rw [ih]; rfl

theorem Writer.cut_state (w : Writer) : w.cut.state = w.state := by
  rw [Writer.cut_eq, Writer.flush_state, Writer.saveState_state, ite_self, Writer.encode_state, Writer.encode_state]
  rfl

theorem Writer.cut_metadata (w : Writer) : w.cut.metadata = w.metadata := by
  rw [Writer.cut_eq, Writer.flush_metadata, Writer.saveState_metadata, Writer.encode_metadata, Writer.encode_metadata]
  rfl

/-- `cut`: the current segment is closed as it is; the new one starts with the CRC record carrying the rolling CRC,
    then the metadata record and (if there is one) the state record -/
theorem GInv.cut {w : Writer} {g : GGhost} (h : GInv w g) :
    GInv w.cut { closed := g.closed ++ [g.cur], cur := cutItems w.metadata w.state } := by
  rw [Writer.cut_eq]
  generalize hw2 : w.cutStart = w2
  have c0 : ({ closed := g.closed ++ [g.cur], cur := [] } : GGhost).crc0 = gCrcAfter g.crc0 g.cur := by
    simp only [GGhost.crc0, gnoTail, List.map_append, List.map_cons, List.map_nil]
    rw [gchainCrc_append]
  have hcl : w2.closed.map (·.2) = gchainFiles 0 (gnoTail (g.closed ++ [g.cur])) := by
    rw [← hw2]
    have e1 : w.cutStart.closed = w.closed ++ [(w.name, w.bytes)] := rfl
    rw [e1]
    simp only [List.map_append, List.map_cons, List.map_nil, gnoTail]
    rw [gchainFiles_append]
    have := h.closed
    simp only [gnoTail] at this
    rw [this, h.bytes]
    rfl
  have hb2 : w2.bytes = [] := by rw [← hw2]; rfl
  have hc2 : w2.crc = gCrcAfter g.crc0 g.cur := by rw [← hw2]; exact h.crc
  have hm2 : w2.metadata = w.metadata := by rw [← hw2]; rfl
  have hs2 : w2.state = w.state := by rw [← hw2]; rfl
  have ht2 : w2.tailSize = w2.segSize := by rw [← hw2]; rfl
  have hI3 : GInv (w2.encode crcType none) { closed := g.closed ++ [g.cur], cur := [] } := by
    obtain ⟨b1, b2⟩ := w2.encode_bytes crcType none
    have e : crcUpdate w2.crc ((none : Option Bytes).getD []) = w2.crc := crcUpdate_nil _
    rw [e] at b1 b2
    refine { closed := by rw [Writer.encode_closed]; exact hcl, bytes := ?_, crc := ?_, ok := ?_,
             mdat := by rw [Writer.encode_metadata, hm2]; exact h.mdat,
             tsize := by rw [Writer.encode_tailSize, Writer.encode_segSize]; exact ht2,
             stOk := by rw [Writer.encode_state, hs2]; exact h.stOk }
    · rw [b1, hb2, c0, hc2]; simp [gfileOf, gEncodeAll, crcRec]
    · rw [b2, c0, hc2]; rfl
    · intro it hit
      simp only [GGhost.all, List.flatten_append, List.flatten_cons, List.flatten_nil, List.append_nil] at hit
      exact h.ok it (by simpa [GGhost.all, List.flatten_append] using hit)
  have hmeta3 : (w2.encode crcType none).metadata = w.metadata := by rw [Writer.encode_metadata]; exact hm2
  rw [hmeta3]
  have hI4 := hI3.encode metadataType w.metadata ⟨show metadataType < 2 ^ 64 by decide, h.mdat, show metadataType ≠ crcType by decide⟩
  have hst4 : ((w2.encode crcType none).encode metadataType w.metadata).state = w.state := by
    rw [Writer.encode_state, Writer.encode_state, hs2]
  rw [hst4]
  have hI5 := hI4.saveState w.state h.stOk
  rw [GGhost.add_add] at hI5
  exact hI5.flush

theorem GInv.foldEnts (ents : List Entry) : ∀ (w : Writer) (g : GGhost), GInv w g →
    (∀ e ∈ ents, (marshalEntry e).length < 2 ^ 55) → GInv (w.foldEnts ents) (g.add (gEntItems ents)) := by
  induction ents with
  | nil => intro w g h _; rw [gEntItems, List.map_nil, GGhost.add_nil]; exact h
  | cons e rest ih =>
    intro w g h hok
    have h1 := (h.encode entryType (some (marshalEntry e))
      ⟨show entryType < 2 ^ 64 by decide, hok e (by simp), show entryType ≠ crcType by decide⟩).setEnti e.index
    have h2 := ih _ _ h1 (fun x hx => hok x (by simp [hx]))
    rw [GGhost.add_add] at h2
    exact h2

theorem gcut_all (g : GGhost) (new : List GItem) :
    ({ closed := g.closed ++ [g.cur], cur := new } : GGhost).all = g.all ++ new := by
  simp [GGhost.all, List.flatten_append]

/-- the state the writer remembers after `Save(st, _)` -/
def stateAfter (cur st : HardState) : HardState := if isEmptyHS st then cur else st

/-- **`Save`, item by item**: the entries, the state record if the hard state is not empty, and — when the segment
    is full — the head of the next segment -/
theorem GInv.save {w : Writer} {g : GGhost} (h : GInv w g) (st : HardState) (ents : List Entry)
    (hents : ∀ e ∈ ents, (marshalEntry e).length < 2 ^ 55) (hst : (marshalHS st).length < 2 ^ 55) :
    ∃ g', GInv (w.save st ents).1 g' ∧
      (g'.all = g.all ++ (gEntItems ents ++ gStateItems st) ∨
       g'.all = g.all ++ (gEntItems ents ++ gStateItems st) ++ cutItems w.metadata (stateAfter w.state st)) := by
  rw [Writer.save_eq]
  by_cases h0 : (isEmptyHS st && ents.isEmpty) = true
  · rw [if_pos h0]
    refine ⟨g, h, Or.inl ?_⟩
    simp only [Bool.and_eq_true, List.isEmpty_iff] at h0
    rw [h0.2, gStateItems, if_pos h0.1]; simp [gEntItems]
  · rw [if_neg h0]
    have h2 := (GInv.foldEnts ents w g h hents).saveState st hst
    rw [GGhost.add_add] at h2
    split
    · split
      · exact ⟨_, h2.flush, Or.inl (GGhost.add_all _ _)⟩
      · exact ⟨_, h2, Or.inl (GGhost.add_all _ _)⟩
    · refine ⟨_, h2.cut, Or.inr ?_⟩
      rw [gcut_all, GGhost.add_all, Writer.saveState_metadata, Writer.foldEnts_metadata, Writer.saveState_state,
        Writer.foldEnts_state]
      rfl

theorem Writer.save_state (w : Writer) (st : HardState) (ents : List Entry) :
    (w.save st ents).1.state = (if isEmptyHS st && ents.isEmpty then w.state else stateAfter w.state st) := by
  rw [Writer.save_eq]
  by_cases h0 : (isEmptyHS st && ents.isEmpty) = true
  · rw [if_pos h0, if_pos h0]
  · rw [if_neg h0, if_neg h0]
    split
    · split
      · rw [Writer.flush_state, Writer.saveState_state, Writer.foldEnts_state]; rfl
      · rw [Writer.saveState_state, Writer.foldEnts_state]; rfl
    · rw [Writer.cut_state, Writer.saveState_state, Writer.foldEnts_state]; rfl

theorem Writer.save_state' (w : Writer) (st : HardState) (ents : List Entry) :
    (w.save st ents).1.state = stateAfter w.state st := by
  rw [Writer.save_state]
  by_cases h0 : (isEmptyHS st && ents.isEmpty) = true
  · rw [if_pos h0]
    simp only [Bool.and_eq_true] at h0
    rw [stateAfter, if_pos h0.1]
  · rw [if_neg h0]

theorem Writer.save_metadata (w : Writer) (st : HardState) (ents : List Entry) :
    (w.save st ents).1.metadata = w.metadata := by
  rw [Writer.save_eq]
  split
  · rfl
  · split
    · split
      · rw [Writer.flush_metadata, Writer.saveState_metadata, Writer.foldEnts_metadata]
      · rw [Writer.saveState_metadata, Writer.foldEnts_metadata]
    · rw [Writer.cut_metadata, Writer.saveState_metadata, Writer.foldEnts_metadata]

/-- the item `SaveSnapshot` appends (none when `ValidateSnapshotForWrite` refuses the snapshot) -/
def snapItems (s : WSnap) : List GItem :=
  if s.conf.isNone && s.index > 0 then [] else [⟨snapshotType, some (marshalWSnap s)⟩]

theorem GInv.saveSnapshot {w : Writer} {g : GGhost} (h : GInv w g) (s : WSnap) (hs : (marshalWSnap s).length < 2 ^ 55) :
    ∃ g', GInv (w.saveSnapshot s) g' ∧ g'.all = g.all ++ snapItems s := by
  rw [Writer.saveSnapshot_eq]
  unfold snapItems
  split
  · exact ⟨g, h, by simp⟩
  · have h1 := h.encode snapshotType (some (marshalWSnap s))
      ⟨show snapshotType < 2 ^ 64 by decide, hs, show snapshotType ≠ crcType by decide⟩
    refine ⟨_, ?_, GGhost.add_all _ _⟩
    split
    · exact (h1.setEnti s.index).flush
    · exact h1.flush

theorem Writer.saveSnapshot_state (w : Writer) (s : WSnap) : (w.saveSnapshot s).state = w.state := by
  rw [Writer.saveSnapshot_eq]
  split
  · rfl
  · rw [Writer.flush_state]
    split
    · rfl
    · rfl

theorem Writer.saveSnapshot_metadata (w : Writer) (s : WSnap) : (w.saveSnapshot s).metadata = w.metadata := by
  rw [Writer.saveSnapshot_eq]
  split
  · rfl
  · rw [Writer.flush_metadata]
    split
    · rfl
    · rfl

def gcreateGhost (md : Option Bytes) : GGhost :=
  { closed := [], cur := [⟨metadataType, md⟩, ⟨snapshotType, some (marshalWSnap ⟨0, 0, none⟩)⟩] }

/-- `wal.Create` with any metadata, nil included -/
theorem GInv.create (segSize : Nat) (md : Option Bytes) (hm : (md.getD []).length < 2 ^ 55) :
    GInv (Writer.create segSize md) (gcreateGhost md) ∧ (Writer.create segSize md).buf = [] ∧
      (Writer.create segSize md).segSize = segSize ∧ (Writer.create segSize md).metadata = md ∧
      (Writer.create segSize md).state = emptyHS := by
  unfold Writer.create
  simp only
  generalize hw0 : ({ segSize := segSize, tailSize := segSize, metadata := md } : Writer) = w0
  have hb0 : w0.bytes = [] := by rw [← hw0]; rfl
  have hc0 : w0.crc = 0 := by rw [← hw0]
  have hI1 : GInv (w0.encode crcType none) { closed := [], cur := [] } := by
    obtain ⟨b1, b2⟩ := w0.encode_bytes crcType none
    have e : crcUpdate w0.crc ((none : Option Bytes).getD []) = 0 := by rw [hc0]; decide +kernel
    rw [e] at b1 b2
    refine { closed := by rw [Writer.encode_closed, ← hw0]; rfl, bytes := ?_, crc := ?_, ok := ?_,
             mdat := by rw [Writer.encode_metadata, ← hw0]; exact hm,
             tsize := by rw [Writer.encode_tailSize, Writer.encode_segSize, ← hw0],
             stOk := by rw [Writer.encode_state, ← hw0]; exact emptyHS_len }
    · rw [b1, hb0]; simp [gfileOf, gEncodeAll, crcRec, GGhost.crc0, gnoTail, gchainCrc]
    · rw [b2]; rfl
    · intro it hit; simp [GGhost.all] at hit
  have hI2 := hI1.encode metadataType md ⟨show metadataType < 2 ^ 64 by decide, hm, show metadataType ≠ crcType by decide⟩
  have hI3 := hI2.encode snapshotType (some (marshalWSnap ⟨0, 0, none⟩))
    ⟨show snapshotType < 2 ^ 64 by decide, show (marshalWSnap ⟨0, 0, none⟩).length < 2 ^ 55 by rw [wsnap0_len]; decide,
      show snapshotType ≠ crcType by decide⟩
  rw [GGhost.add_add] at hI3
  refine ⟨hI3.flush, Writer.flush_buf _, ?_, ?_, ?_⟩
  · rw [Writer.flush_segSize, Writer.encode_segSize, Writer.encode_segSize, Writer.encode_segSize, ← hw0]
  · rw [Writer.flush_metadata, Writer.encode_metadata, Writer.encode_metadata, Writer.encode_metadata, ← hw0]
  · rw [Writer.flush_state, Writer.encode_state, Writer.encode_state, Writer.encode_state, ← hw0]

/-! ### reading back -/

/-- **the files a writer in state `GInv` has on disk after a flush** form a chain that reads back as the records
    written, with a clean EOF, the decoder's CRC = the encoder's and its offset = the end of the last frame (where
    `wal.Open` continues writing) -/
theorem GInv.readback {w : Writer} {g : GGhost} (hI : GInv w g) (hbuf : w.buf = []) (hseg : w.segSize % 8 = 0) :
    ∃ segs, w.files.map (·.2) = gchainFiles 0 segs ∧ segs.map (·.1) = g.closed ++ [g.cur] ∧
      (∀ s ∈ segs, (∀ it ∈ s.1, GItemOk it) ∧ EndOfWritten s.2) ∧
      ∀ extra, ∃ d', recLoop (gchainFuel segs + extra) (Dec.open (gchainFiles 0 segs)) = (gchainRecords 0 segs, .decEof, d') ∧
        d'.crc = w.crc ∧ d'.off = w.tail.length := by
  have htail : w.tail = encodeFrame (crcRec g.crc0) ++ gEncodeAll g.crc0 g.cur := by
    have := hI.bytes
    rw [Writer.bytes, hbuf, List.append_nil] at this
    rw [this]; simp [gfileOf]
  have hlenmod : w.tail.length % 8 = 0 := by
    rw [htail, List.length_append]
    have := encodeFrame_len_mod (crcRec g.crc0)
    have := gEncodeAll_len_mod g.crc0 g.cur
    omega
  obtain ⟨zeros, hz⟩ : ∃ z : Bytes, z = List.replicate (w.tailSize - w.tail.length) 0 := ⟨_, rfl⟩
  have hzend : EndOfWritten zeros := by
    rw [hz, hI.tsize]
    by_cases hlt : w.tail.length < w.segSize
    · have hn : 8 ≤ w.segSize - w.tail.length := by omega
      generalize w.segSize - w.tail.length = n at hn
      right
      refine ⟨List.replicate (n - 8) 0, ?_⟩
      rw [List.replicate_append_replicate]
      have e : 8 + (n - 8) = n := by omega
      rw [e]
    · left
      have : w.segSize - w.tail.length = 0 := by omega
      rw [this]; rfl
  have hfiles : w.files.map (·.2) = gchainFiles 0 (gnoTail g.closed ++ [(g.cur, zeros)]) := by
    rw [gchainFiles_append]
    simp only [Writer.files, List.map_append, List.map_cons, List.map_nil, hI.closed]
    congr 1
    rw [Writer.tailImage, ← hz, htail]
    simp [gfileOf, GGhost.crc0]
  have hitems : ∀ s ∈ gnoTail g.closed ++ [(g.cur, zeros)], ∀ it ∈ s.1, GItemOk it := by
    intro s hs it hit
    rcases List.mem_append.mp hs with h | h
    · simp only [gnoTail, List.mem_map] at h
      obtain ⟨items, hmem, rfl⟩ := h
      refine hI.ok it ?_
      simp only [GGhost.all, List.mem_flatten]
      exact ⟨items, by simp [hmem], hit⟩
    · simp only [List.mem_singleton] at h
      subst h
      refine hI.ok it ?_
      simp only [GGhost.all, List.mem_flatten]
      exact ⟨g.cur, by simp, hit⟩
  have hsegok : ∀ s ∈ gnoTail g.closed ++ [(g.cur, zeros)], (∀ it ∈ s.1, GItemOk it) ∧ EndOfWritten s.2 := by
    intro s hs
    refine ⟨hitems s hs, ?_⟩
    rcases List.mem_append.mp hs with h | h
    · simp only [gnoTail, List.mem_map] at h
      obtain ⟨items, _, rfl⟩ := h
      exact Or.inl rfl
    · simp only [List.mem_singleton] at h
      subst h
      exact hzend
  refine ⟨gnoTail g.closed ++ [(g.cur, zeros)], hfiles, ?_, hsegok, ?_⟩
  · simp [gnoTail, List.map_map, Function.comp_def]
  · intro ex
    obtain ⟨s0, rest0, hsr⟩ : ∃ s0 rest0, gnoTail g.closed ++ [(g.cur, zeros)] = s0 :: rest0 := by
      cases hcl : gnoTail g.closed with
      | nil => exact ⟨_, _, rfl⟩
      | cons a b => exact ⟨_, _, rfl⟩
    rw [hsr] at hsegok ⊢
    obtain ⟨d', h1, _, h3, h4⟩ := readAll_roundtrip_gchain 0 (by decide) s0 rest0 hsegok ex
    refine ⟨d', h1, ?_, ?_⟩
    · rw [h3, ← hsr, gchainCrc_append, hI.crc]; rfl
    · rw [h4, ← hsr, htail]
      clear hsr hsegok h1 h3 h4 hfiles hitems
      generalize hcl : gnoTail g.closed = cl
      have : ∀ (c : Nat) (cl : List (List GItem × Bytes)),
          gchainOff c (cl ++ [(g.cur, zeros)]) = (encodeFrame (crcRec (gchainCrc c cl)) ++ gEncodeAll (gchainCrc c cl) g.cur).length := by
        intro c cl
        induction cl generalizing c with
        | nil => rfl
        | cons a b ih =>
          obtain ⟨i, t⟩ := a
          cases b with
          | nil => exact ih (gCrcAfter c i)
          | cons a2 b2 => exact ih (gCrcAfter c i)
      rw [this 0 cl, GGhost.crc0, hcl]

#print axioms GInv.save
#print axioms GInv.cut
#print axioms GInv.create
#print axioms GInv.readback
end WalFile
