import RedisGoModel.Props.C06TBase
/-! C06 table congruence: sorted-set and stream commands -/
namespace Exec.C06T
open Resp (Reply Bytes)
open Exec

theorem c_zadd : CmdOk cmdZAdd := by
  intro env a b args hs; unfold cmdZAdd; c06_cmd1 hs
theorem c_zrem : CmdOk cmdZRem := by
  intro env a b args hs; unfold cmdZRem; c06_cmd1 hs
theorem c_zrange : CmdOk cmdZRange := by
  intro env a b args hs; unfold cmdZRange; c06_cmd1 hs
theorem c_zrank : CmdOk cmdZRank := by
  intro env a b args hs; unfold cmdZRank; c06_cmd1 hs

theorem c_xaddTo (env : Env) (a b : Db) (k : Bytes) (o : XaddOpts) (req : IdReq) (fields : List Bytes) (s : List StreamEntry)
    (last : StreamId) (hs : Sim env.now a b) (hk : a.get k = b.get k) :
    Res env.now (xaddTo env a k o req fields s last) (xaddTo env b k o req fields s last) := by
  unfold xaddTo
  repeat' (first | c06_pair | split)

theorem c_xadd : CmdOk cmdXAdd := by
  intro env a b args hs; unfold cmdXAdd
  repeat' (first | c06_pair | (apply c_xaddTo <;> assumption) | c06_auto_ttl hs | split)
theorem c_xrange : CmdOk cmdXRange := by
  intro env a b args hs; unfold cmdXRange; c06_cmd1 hs

end Exec.C06T
