import RedisGoModel.Props.C08ReadySave
/-! The invariant that links the volatile node to the disk along a run of the Ready loop (`Inv`), preserved by every event of a conforming
    run; `Props/C08Ready.lean` derives `persist_before_externalise` from it.  Core Lean only. -/
namespace ReadyLoop

/-! ### what a view has to cover of a node -/

/-- the promises a node could make about its log right now -/
def coverPs (n : Node) : List Promise := n.ents.map Promise.ent ++ [.reach n.last, .snap n.snapIndex]

/-- the view holds every entry of the node's log (or a snapshot over it), reaches its end, and has its snapshot -/
def Cover (v : View) (n : Node) : Prop := ∀ p ∈ coverPs n, p.holds v

theorem cover_ent {v : View} {n : Node} (h : Cover v n) {e : Entry} (he : e ∈ n.ents) : (Promise.ent e).holds v :=
  h _ (by simp [coverPs, he])
theorem cover_reach {v : View} {n : Node} (h : Cover v n) : n.last ≤ v.last := h (.reach n.last) (by simp [coverPs])
theorem cover_snap {v : View} {n : Node} (h : Cover v n) : n.snapIndex ≤ v.snap.index := h (.snap n.snapIndex) (by simp [coverPs])
theorem cover_intro {v : View} {n : Node} (h1 : ∀ e ∈ n.ents, (Promise.ent e).holds v) (h2 : n.last ≤ v.last) (h3 : n.snapIndex ≤ v.snap.index) :
    Cover v n := by
  intro p hp
  simp only [coverPs, List.mem_append, List.mem_map, List.mem_cons, List.mem_nil_iff, or_false] at hp
  rcases hp with ⟨e, he, rfl⟩ | rfl | rfl
  · exact h1 e he
  · exact h2
  · exact h3

/-- `v'` is what a restart reads after the disk grew without touching the hard state -/
structure Grows (v v' : View) : Prop where
  hs : v'.hs = v.hs
  snap : v.snap.index ≤ v'.snap.index
  last : v.last ≤ v'.last
  ents : ∀ x ∈ v.ents, v'.snap.index < x.index → x ∈ v'.ents

theorem Grows.holds {v v' : View} (g : Grows v v') (p : Promise) (hp : p.holds v) : p.holds v' :=
  holds_of_extend g.hs g.snap g.last g.ents p hp

theorem Grows.cover {v v' : View} (g : Grows v v') {n : Node} (h : Cover v n) : Cover v' n := fun p hp => g.holds p (h p hp)

theorem grow_files {recs : List Rec} {files : List Snap} {v : View} (f : Snap) (hv : replayRecs recs files = some v) :
    ∃ v', replayRecs recs (files ++ [f]) = some v' ∧ Grows v v' := by
  obtain ⟨v', h1, h2, h3, h4, h5⟩ := replay_extend (extra := []) (files' := files ++ [f]) hv
    (by intro r hr; simp at hr) (by simp [lastState]) (fun g hg => List.mem_append_left _ hg)
  exact ⟨v', by simpa using h1, by simpa [lastState] using h2, h3, h5, h4⟩

theorem grow_snaprec {recs : List Rec} {files : List Snap} {v : View} (i t : Nat) (hv : replayRecs recs files = some v) :
    ∃ v', replayRecs (recs ++ [.snap i t]) files = some v' ∧ Grows v v' := by
  obtain ⟨v', h1, h2, h3, h4, h5⟩ := replay_extend (extra := [.snap i t]) (files' := files) hv
    (by intro r hr e; simp at hr; subst hr; simp) (by simp [lastState]) (fun g hg => hg)
  exact ⟨v', h1, by simpa [lastState] using h2, h3, h5, h4⟩

/-! ### crash images under the three disk operations -/

theorem replay_addFile (d : Disk) (f : Snap) (k : Nat) :
    replay { d with files := d.files ++ [f] } k = replayRecs (d.image k).synced (d.files ++ [f]) := rfl

theorem imgs_files {d : Disk} {P P' : View → Prop} (f : Snap) (h : ∀ k, ∃ v, replay d k = some v ∧ P v)
    (hp : ∀ v v', Grows v v' → P v → P' v') : ∀ k, ∃ v, replay { d with files := d.files ++ [f] } k = some v ∧ P' v := by
  intro k
  obtain ⟨v, hv, hP⟩ := h k
  obtain ⟨v', hv', g⟩ := grow_files f (show replayRecs (d.image k).synced d.files = some v from hv)
  exact ⟨v', hv', hp v v' g hP⟩

theorem imgs_flush {d : Disk} {F P' : View → Prop} (h : ∃ v, replay d d.buffered.length = some v ∧ F v)
    (hp : ∀ v, F v → P' v) : ∀ k, ∃ v, replay d.flush k = some v ∧ P' v := by
  intro k
  obtain ⟨v, hv, hF⟩ := h
  exact ⟨v, by rw [replay_flush]; exact hv, hp v hF⟩

theorem replay_full (d : Disk) : replay d d.buffered.length = replayRecs d.all d.files := by
  simp [replay, Disk.image, Disk.all]

/-- one record that is not an entry is written: the old crash images, and the full one -/
theorem imgs_write1 {d : Disk} {P P' : View → Prop} (r : Rec) (h : ∀ k, ∃ v, replay d k = some v ∧ P v)
    (hold : ∀ v, P v → P' v) (hnew : ∃ v, replayRecs (d.all ++ [r]) d.files = some v ∧ P' v) :
    ∀ k, ∃ v, replay (d.write [r]) k = some v ∧ P' v := by
  intro k
  rw [replay_write]
  split
  · obtain ⟨v, hv, hP⟩ := h k; exact ⟨v, hv, hold v hP⟩
  · rename_i hk
    have : List.take (k - d.buffered.length) [r] = [r] := by
      have : k - d.buffered.length = (k - d.buffered.length - 1) + 1 := by omega
      rw [this]; simp
    rw [this]; exact hnew

theorem full_write1 (d : Disk) (r : Rec) : replay (d.write [r]) (d.write [r]).buffered.length = replayRecs (d.all ++ [r]) d.files := by
  simp only [replay, Disk.image, Disk.write, Disk.all]
  rw [List.take_of_length_le (by simp), List.append_assoc]

theorem full_flush (d : Disk) : replay d.flush d.flush.buffered.length = replay d d.buffered.length := by
  rw [replay_flush]

/-! ### phases of the arm, read off `todo` -/

/-- the log raft regards as stable: between `wal.Save` and `raftStorage.Append` the entries of the Ready already belong to it -/
def L (s : State) : Node :=
  if Stmt.walWrite ∉ s.todo ∧ Stmt.append ∈ s.todo then storageAppend s.node s.rd.ents else s.node

/-- no write of this Ready that has to be synced is still unsynced -/
def Settled (s : State) : Prop :=
  (Stmt.walFlush ∈ s.todo → Stmt.walWrite ∈ s.todo ∨ s.node.mustSync = false) ∧
  (s.rd.snap.isEmpty = false → Stmt.walWrite ∈ s.todo ∨ Stmt.walSync ∉ s.todo)

/-- the last index of raft's log once this Ready is stable -/
def lastP (s : State) : Nat :=
  if s.rd.snap.isEmpty = false ∧ Stmt.applySnap ∈ s.todo then s.rd.snap.index else (L s).last

/-- what a crash image has to satisfy apart from the hard state (`img = false`: the full image, i.e. everything written) -/
def VOk (s : State) (img : Bool) (v : View) : Prop :=
  Cover v (L s) ∧
  (Stmt.walWrite ∉ s.todo → s.rd.snap.isEmpty = false → s.rd.snap.index ≤ v.snap.index) ∧
  (∀ sn, s.node.trig = some sn → (if img then Stmt.trigWalSync else Stmt.trigWalWrite) ∉ s.todo → sn.index ≤ v.snap.index)

def FullOk (s : State) (v : View) : Prop := v.hs = s.node.hs ∧ VOk s false v
def ImgOk (s : State) (v : View) : Prop := v.hs.term = s.node.hs.term ∧ v.hs.vote = s.node.hs.vote ∧ VOk s true v

theorem VOk.grows {s : State} {b : Bool} {v v' : View} (g : Grows v v') (h : VOk s b v) : VOk s b v' :=
  ⟨g.cover h.1, fun h1 h2 => Nat.le_trans (h.2.1 h1 h2) g.snap, fun sn h1 h2 => Nat.le_trans (h.2.2 sn h1 h2) g.snap⟩

theorem FullOk.grows {s : State} {v v' : View} (g : Grows v v') (h : FullOk s v) : FullOk s v' :=
  ⟨by rw [g.hs]; exact h.1, h.2.grows g⟩

theorem ImgOk.grows {s : State} {v v' : View} (g : Grows v v') (h : ImgOk s v) : ImgOk s v' :=
  ⟨by rw [g.hs]; exact h.1, by rw [g.hs]; exact h.2.1, h.2.2.grows g⟩

/-! ### the invariant -/

def tailsOf {α : Type} : List α → List (List α)
| [] => [[]]
| a :: l => (a :: l) :: tailsOf l

structure NodeOk (n : Node) : Prop where
  contig : Contig n.off n.ents
  offc : n.off ≤ n.hs.commit
  appc : n.applied ≤ n.hs.commit
  ws : n.walState = {} ∨ (n.walState.term = n.hs.term ∧ n.walState.vote = n.hs.vote)

/-- what is known about the Ready in progress once `wal.Save` has written it (the part of `ReadyOk` still needed) -/
structure Post (c : Cfg) (s : State) : Prop where
  snapc : s.rd.snap.isEmpty = false → s.rd.snap.index ≤ s.node.hs.commit ∧ s.rd.ents = [] ∧ s.rd.committed = []
  appendF : Stmt.append ∈ s.todo → Chain s.rd.ents ∧
    ∀ e ∈ s.rd.ents.head?, s.node.off < e.index ∧ e.index ≤ s.node.last + 1
  sendF : Stmt.send ∈ s.todo → ∀ m ∈ s.rd.msgs, MsgOk c.self s.node.hs (lastP s) m
  pubF : Stmt.publish ∈ s.todo → ∀ e ∈ s.rd.committed, e ∈ (L s).ents ∧ e.index ≤ s.node.hs.commit

structure Inv (c : Cfg) (s : State) : Prop where
  down : s.down = false
  suf : s.todo ∈ tailsOf theArm
  safe : Safe s
  full : ∃ v, replay s.disk s.disk.buffered.length = some v ∧ FullOk s v
  imgs : Settled s → ∀ k, ∃ v, replay s.disk k = some v ∧ ImgOk s v
  node : NodeOk s.node
  idle : s.todo = [] → s.rd = {}
  novote0 : ∀ t, Promise.vote t 0 ∉ s.owed
  rdW : Stmt.walWrite ∈ s.todo → ReadyOk c s.node s.rd ∧ (∀ p ∈ s.owed, NotTakenBack s.rd.ents p) ∧
    (s.rd.snap.isEmpty = false → (Stmt.snapFile ∉ s.todo → s.rd.snap ∈ s.disk.files) ∧
      (Stmt.snapWalWrite ∉ s.todo → (s.rd.snap.index, s.rd.snap.term) ∈ snapRecs s.disk.all))
  post : Stmt.walWrite ∉ s.todo → s.todo ≠ [] → Post c s
  trigF : ∀ sn, s.node.trig = some sn → Stmt.trigCompact ∈ s.todo ∧ Stmt.trigFile ∉ s.todo ∧ sn.index = s.node.applied ∧ 0 < sn.index ∧
    sn ∈ s.disk.files ∧ (Stmt.trigWalWrite ∉ s.todo → (sn.index, sn.term) ∈ snapRecs s.disk.all)

end ReadyLoop
