import RedisGoModel.Props.C12Cmd
/-! # C12 — the integer reply of a multi-pair ZADD (`zadd_reply_counts`)

`Props/C12Cmd.lean` proves what ONE score/member pair does (`zadd_new`, `zadd_xx_missing`, `zadd_nx_existing`, `zadd_gt_lt_refused`,
`zadd_existing_updated`).  The reply of the command (no INCR) is `added`, or with CH `added + updated`, where the two counters are
accumulated by `zaddLoop` over the pairs IN ORDER, each pair acting on the tree its predecessors left — so a member named twice in one
command is judged twice (`ZADD k 1 a 2 a` on a missing key: the first pair adds, the second changes: reply 1, with CH 2), exactly as
`zadd` in memdb/sorted_set.go does.

* `pairAdds` / `pairChanges` — the SPECIFICATION of one pair in terms of the member's current score only (no reference to
  `zaddOne`): a pair adds iff the member is absent and XX is not given; it changes iff the member is present, NX is not given, GT/LT do
  not refuse, and the score differs.  `zaddOne_spec` derives the outcome and the next tree of `zaddOne` from the per-pair laws.
* `countPairs` — the two counts over the pairs, sequentially.
* **`zadd_reply_counts`** — for every accepted ZADD without INCR (options scanned, an even non-empty pair list, no option conflict,
  every score a float other than NaN, the key missing or a sorted set): the reply is `.int added`, with CH `.int (added + changed)`,
  the counts being `countPairs` on the stored tree (`.nil` for a missing key).
* `zadd_reply_counts_distinct` — when the member names of the command are pairwise distinct, every pair is judged on the ORIGINAL
  sorted set: the reply is the number of pairs whose member was absent (without CH), plus (with CH) the number of pairs whose member
  was present with another score and not refused by NX/GT/LT. -/
namespace Exec
open Resp (Reply Bytes)
open ZT (Inv)

/-! ### one pair, specified by the member's current score -/

/-- the pair adds a new member -/
def pairAdds (o : ZAddOpts) (t : ZT.T) (m : Bytes) : Bool := (ZT.lookup t m).isNone && !o.xx

/-- the pair moves an existing member to another score (no INCR: the target score is the argument) -/
def pairChanges (o : ZAddOpts) (t : ZT.T) (s : Int) (m : Bytes) : Bool :=
  match ZT.lookup t m with
  | some cur => !o.nx && !(o.lt && decide (s ≥ cur)) && !(o.gt && decide (s ≤ cur)) && decide (s ≠ cur)
  | none => false

def ZOut.isAdded : ZOut → Bool | .added _ => true | _ => false
def ZOut.isUpdated : ZOut → Bool | .updated _ => true | _ => false

/-- **one pair of ZADD without INCR, from the per-pair laws**: the outcome is `added` exactly when `pairAdds`, `updated` exactly when
    `pairChanges`, and the tree is re-scored at that member in exactly these two cases -/
theorem zaddOne_spec (o : ZAddOpts) (t : ZT.T) (s : Int) (m : Bytes) (hi : o.incr = false) :
    (zaddOne o t s m).1.isAdded = pairAdds o t m ∧ (zaddOne o t s m).1.isUpdated = pairChanges o t s m ∧
    (zaddOne o t s m).2 = if pairAdds o t m || pairChanges o t s m then ZT.setScore t m s else t := by
  unfold pairAdds pairChanges
  cases hl : ZT.lookup t m with
  | none =>
    cases hx : o.xx
    · rw [zadd_new o t s m hx hl]; simp [ZOut.isAdded, ZOut.isUpdated]
    · rw [zadd_xx_missing o t s m hx hl]; simp [ZOut.isAdded, ZOut.isUpdated]
  | some cur =>
    cases hn : o.nx
    · have ht : target o cur s = some s := by unfold target; simp [hi]
      by_cases h : (o.lt = true ∧ s ≥ cur) ∨ (o.gt = true ∧ s ≤ cur)
      · rw [zadd_gt_lt_refused o t s cur s m hn hl ht h]
        rcases h with ⟨h1, h2⟩ | ⟨h1, h2⟩ <;> simp [ZOut.isAdded, ZOut.isUpdated, h1, h2]
      · have h1 : ¬ (o.lt = true ∧ s ≥ cur) := fun x => h (Or.inl x)
        have h2 : ¬ (o.gt = true ∧ s ≤ cur) := fun x => h (Or.inr x)
        rw [zadd_existing_updated o t s cur s m hn hl ht h1 h2]
        have e1 : (o.lt && decide (s ≥ cur)) = false := by
          cases hlt : o.lt <;> simp_all
        have e2 : (o.gt && decide (s ≤ cur)) = false := by
          cases hgt : o.gt <;> simp_all
        by_cases hc : s = cur
        · simp [ZOut.isAdded, ZOut.isUpdated, hc]
        · simp [ZOut.isAdded, ZOut.isUpdated, hc, e1, e2]
    · rw [zadd_nx_existing o t s cur m hn hl]; simp [ZOut.isAdded, ZOut.isUpdated]

/-- the tree one pair leaves (specification side) -/
def pairTree (o : ZAddOpts) (t : ZT.T) (s : Int) (m : Bytes) : ZT.T :=
  if pairAdds o t m || pairChanges o t s m then ZT.setScore t m s else t

/-! ### all pairs, in order -/

/-- `(added, changed)`: how many pairs add a new member / move an existing one, each pair judged on the sorted set its predecessors
    left (so a member named twice is judged twice) -/
def countPairs (o : ZAddOpts) : ZT.T → List (Int × Bytes) → Nat × Nat
| _, [] => (0, 0)
| t, (s, m) :: rest =>
  let r := countPairs o (pairTree o t s m) rest
  (r.1 + (pairAdds o t m).toNat, r.2 + (pairChanges o t s m).toNat)

/-- the sorted set after all pairs (specification side) -/
def pairsTree (o : ZAddOpts) : ZT.T → List (Int × Bytes) → ZT.T
| t, [] => t
| t, (s, m) :: rest => pairsTree o (pairTree o t s m) rest

theorem zaddLoop_counts' (o : ZAddOpts) (hi : o.incr = false) (ps : List (Int × Bytes)) : ∀ (t : ZT.T) (ad up : Nat) (last : ZOut),
    (zaddLoop o ⟨t, ad, up, last⟩ ps).added = ad + (countPairs o t ps).1 ∧
    (zaddLoop o ⟨t, ad, up, last⟩ ps).updated = up + (countPairs o t ps).2 ∧
    (zaddLoop o ⟨t, ad, up, last⟩ ps).t = pairsTree o t ps := by
  induction ps with
  | nil => intro t ad up last; simp [zaddLoop, countPairs, pairsTree]
  | cons p ps ih =>
    intro t ad up last
    obtain ⟨s, m⟩ := p
    obtain ⟨h1, h2, h3⟩ := zaddOne_spec o t s m hi
    simp only [zaddLoop, countPairs, pairsTree]
    split
    · rename_i s' t' heq
      rw [heq] at h1 h2 h3
      simp only [ZOut.isAdded, ZOut.isUpdated] at h1 h2
      dsimp only at h3
      obtain ⟨i1, i2, i3⟩ := ih t' (ad + 1) up (.added s')
      rw [i1, i2, i3]
      unfold pairTree
      rw [← h3, ← h1, ← h2]
      simp only [Bool.toNat_true, Bool.toNat_false]
      exact ⟨by omega, by omega, trivial⟩
    · rename_i s' t' heq
      rw [heq] at h1 h2 h3
      simp only [ZOut.isAdded, ZOut.isUpdated] at h1 h2
      dsimp only at h3
      obtain ⟨i1, i2, i3⟩ := ih t' ad (up + 1) (.updated s')
      rw [i1, i2, i3]
      unfold pairTree
      rw [← h3, ← h1, ← h2]
      simp only [Bool.toNat_true, Bool.toNat_false]
      exact ⟨by omega, by omega, trivial⟩
    · rename_i out t' hna hnu heq
      rw [heq] at h1 h2 h3
      dsimp only at h1 h2 h3
      have e1 : pairAdds o t m = false := by
        rw [← h1]; cases out <;> simp_all [ZOut.isAdded]
      have e2 : pairChanges o t s m = false := by
        rw [← h2]; cases out <;> simp_all [ZOut.isUpdated]
      obtain ⟨i1, i2, i3⟩ := ih t' ad up out
      rw [i1, i2, i3]
      unfold pairTree
      rw [e1, e2] at h3 ⊢
      simp only [Bool.or_self, Bool.false_eq_true, if_false] at h3 ⊢
      rw [← h3]
      simp only [Bool.toNat_false]
      exact ⟨by omega, by omega, trivial⟩

theorem zaddLoop_counts (o : ZAddOpts) (hi : o.incr = false) (ps : List (Int × Bytes)) (a : ZAcc) :
    (zaddLoop o a ps).added = a.added + (countPairs o a.t ps).1 ∧
    (zaddLoop o a ps).updated = a.updated + (countPairs o a.t ps).2 ∧
    (zaddLoop o a ps).t = pairsTree o a.t ps :=
  zaddLoop_counts' o hi ps a.t a.added a.updated a.last

/-! ### the command -/

/-- the sorted set a ZADD starts from: the stored tree, the empty tree for a missing key -/
def zaddStart (env : Env) (db : Db) (k : Bytes) : ZT.T := ((getZ (checkTTL db env.now k).1 k).bind id).getD .nil

/-- **the integer reply of a multi-pair ZADD (no INCR)** is the number of pairs that added a new member — with CH the number of
    pairs that added or changed one — counted sequentially (`countPairs`) -/
theorem zadd_reply_counts (env : Env) (db : Db) (c k a1 a2 : Bytes) (more : List Bytes) (o : ZAddOpts) (nopt : Nat)
    (rest : List Bytes) (pairs : List (Int × Bytes))
    (hp : parseZOpts (a1 :: a2 :: more) {} 0 = (o, nopt, rest))
    (hne : rest.isEmpty = false) (hev : rest.length % 2 = 0)
    (hc1 : (o.nx && o.xx) = false) (hc2 : ((o.gt && o.lt) || (o.nx && o.gt) || (o.nx && o.lt)) = false)
    (hincr : o.incr = false)
    (hpairs : parsePairs env.fl (2 + nopt) rest = some pairs)
    (hty : getZ (checkTTL db env.now k).1 k ≠ some none) :
    (cmdZAdd env db (c :: k :: a1 :: a2 :: more)).1 =
      .int (if o.ch then (countPairs o (zaddStart env db k) pairs).1 + (countPairs o (zaddStart env db k) pairs).2
            else (countPairs o (zaddStart env db k) pairs).1) := by
  obtain ⟨h1, h2, _⟩ := zaddLoop_counts o hincr pairs { t := zaddStart env db k }
  simp only [Nat.zero_add] at h1 h2
  unfold cmdZAdd
  simp only [hp, hne, hev, hc1, hc2, hincr, hpairs]
  simp only [Bool.false_or, bne_self_eq_false, Bool.false_and, Bool.false_eq_true, ↓reduceIte]
  unfold zaddStart at h1 h2
  rw [h1, h2]
  rfl

/-! ### pairwise distinct members: every pair is judged on the original sorted set -/

theorem lookup_pairTree {o : ZAddOpts} {t : ZT.T} (hi : Inv t) (s : Int) (m m' : Bytes) (h : m' ≠ m) :
    ZT.lookup (pairTree o t s m) m' = ZT.lookup t m' := by
  unfold pairTree
  split
  · exact ZT.lookup_setScore_other hi m s m' h
  · rfl

theorem pairAdds_pairTree {o : ZAddOpts} {t : ZT.T} (hi : Inv t) (s : Int) (m m' : Bytes) (h : m' ≠ m) :
    pairAdds o (pairTree o t s m) m' = pairAdds o t m' := by
  unfold pairAdds; rw [lookup_pairTree hi s m m' h]

theorem pairChanges_pairTree {o : ZAddOpts} {t : ZT.T} (hi : Inv t) (s s' : Int) (m m' : Bytes) (h : m' ≠ m) :
    pairChanges o (pairTree o t s m) s' m' = pairChanges o t s' m' := by
  unfold pairChanges; rw [lookup_pairTree hi s m m' h]

theorem pairTree_inv {o : ZAddOpts} {t : ZT.T} (hi : Inv t) (s : Int) (m : Bytes) : Inv (pairTree o t s m) := by
  unfold pairTree; split
  · exact ZT.inv_setScore hi m s
  · exact hi

/-- judged on a fixed tree `t0`: the counts of the pairs -/
def countOn (o : ZAddOpts) (t0 : ZT.T) (ps : List (Int × Bytes)) : Nat × Nat :=
  ((ps.filter fun p => pairAdds o t0 p.2).length, (ps.filter fun p => pairChanges o t0 p.1 p.2).length)

theorem countPairs_distinct (o : ZAddOpts) : ∀ (ps : List (Int × Bytes)) (t t0 : ZT.T), Inv t →
    (ps.map (·.2)).Nodup →
    (∀ p ∈ ps, pairAdds o t p.2 = pairAdds o t0 p.2 ∧ pairChanges o t p.1 p.2 = pairChanges o t0 p.1 p.2) →
    countPairs o t ps = countOn o t0 ps
| [], _, _, _, _, _ => rfl
| (s, m) :: rest, t, t0, hi, hnd, hag => by
  rw [List.map_cons, List.nodup_cons] at hnd
  have hrest : ∀ p ∈ rest, pairAdds o (pairTree o t s m) p.2 = pairAdds o t0 p.2 ∧
      pairChanges o (pairTree o t s m) p.1 p.2 = pairChanges o t0 p.1 p.2 := by
    intro p hp
    have hne : p.2 ≠ m := fun e => hnd.1 (e ▸ List.mem_map.mpr ⟨p, hp, rfl⟩)
    have := hag p (List.mem_cons_of_mem _ hp)
    rw [pairAdds_pairTree hi s m p.2 hne, pairChanges_pairTree hi s p.1 m p.2 hne]
    exact this
  have ih := countPairs_distinct o rest (pairTree o t s m) t0 (pairTree_inv hi s m) hnd.2 hrest
  have h0 := hag (s, m) List.mem_cons_self
  simp only [countPairs, ih, countOn, List.filter_cons]
  dsimp only at h0
  rw [h0.1, h0.2]
  cases pairAdds o t0 m <;> cases pairChanges o t0 s m <;> simp

/-- **distinct members**: the reply counts the pairs whose member was ABSENT from the stored sorted set (and XX is not given), with
    CH plus the pairs whose member was present with ANOTHER score and not refused by NX / GT / LT — each judged on the sorted set as
    it was before the command -/
theorem zadd_reply_counts_distinct (env : Env) (db : Db) (c k a1 a2 : Bytes) (more : List Bytes) (o : ZAddOpts) (nopt : Nat)
    (rest : List Bytes) (pairs : List (Int × Bytes))
    (hp : parseZOpts (a1 :: a2 :: more) {} 0 = (o, nopt, rest))
    (hne : rest.isEmpty = false) (hev : rest.length % 2 = 0)
    (hc1 : (o.nx && o.xx) = false) (hc2 : ((o.gt && o.lt) || (o.nx && o.gt) || (o.nx && o.lt)) = false)
    (hincr : o.incr = false)
    (hpairs : parsePairs env.fl (2 + nopt) rest = some pairs)
    (hty : getZ (checkTTL db env.now k).1 k ≠ some none)
    (hinv : DbInv db) (hnd : (pairs.map (·.2)).Nodup) :
    (cmdZAdd env db (c :: k :: a1 :: a2 :: more)).1 =
      .int (if o.ch then (countOn o (zaddStart env db k) pairs).1 + (countOn o (zaddStart env db k) pairs).2
            else (countOn o (zaddStart env db k) pairs).1) := by
  rw [zadd_reply_counts env db c k a1 a2 more o nopt rest pairs hp hne hev hc1 hc2 hincr hpairs hty]
  rw [countPairs_distinct o pairs (zaddStart env db k) (zaddStart env db k) (t0_inv (dbInv_checkTTL hinv _ _) k) hnd
    fun _ _ => ⟨rfl, rfl⟩]

/-! ### the hypotheses are satisfiable: concrete commands -/
namespace ZAddReplyEx

/-- score bits for the examples: argument `i` reads as the double `i` … any non-NaN pattern will do -/
def exFl : Nat → Option UInt64 := fun i => some (UInt64.ofNat (0x3ff0000000000000 + i))

def exEnv : Env := { now := 100, fl := exFl }

/-- `ZADD k 1 a 2 a` on a missing key: the member is named twice — the first pair adds, the second changes -/
def exDup : List Bytes := [ofStr "ZADD", [107], [49], [97], [50], [97]]
def exDupCh : List Bytes := [ofStr "ZADD", [107], ofStr "CH", [49], [97], [50], [97]]

example : replyEq (cmdZAdd exEnv [] exDup).1 (.int 1) = true := by decide +kernel
example : replyEq (cmdZAdd exEnv [] exDupCh).1 (.int 2) = true := by decide +kernel

deriving instance DecidableEq for ZAddOpts

/-- the score keys the example arguments denote (argv positions 3 and 5 of `exDupCh`) -/
def exPairs : List (Int × Bytes) := [(ZT.skey (UInt64.ofNat (0x3ff0000000000000 + 3)), [97]), (ZT.skey (UInt64.ofNat (0x3ff0000000000000 + 5)), [97])]

/-- every hypothesis of `zadd_reply_counts` holds for `ZADD k CH 1 a 2 a` on the empty keyspace, and the counts are (1, 1) -/
example : parseZOpts [ofStr "CH", [49], [97], [50], [97]] {} 0 = ({ ch := true }, 1, [[49], [97], [50], [97]]) ∧
    parsePairs exEnv.fl (2 + 1) [[49], [97], [50], [97]] = some exPairs ∧
    getZ (checkTTL [] exEnv.now [107]).1 [107] ≠ some none ∧
    countPairs { ch := true } (zaddStart exEnv [] [107]) exPairs = (1, 1) :=
  ⟨by decide +kernel, by decide +kernel, by decide +kernel, by decide +kernel⟩

/-- … so the theorem gives the reply `.int (1 + 1)` -/
example : (cmdZAdd exEnv [] exDupCh).1 = .int (((1 : Nat) : Int) + ((1 : Nat) : Int)) := by
  have h := zadd_reply_counts exEnv [] (ofStr "ZADD") [107] (ofStr "CH") [49] [[97], [50], [97]] { ch := true } 1 [[49], [97], [50], [97]] exPairs
    (by decide +kernel) (by decide +kernel) (by decide +kernel) (by decide +kernel) (by decide +kernel) (by decide +kernel)
    (by decide +kernel) (by decide +kernel)
  have hc : countPairs { ch := true } (zaddStart exEnv [] [107]) exPairs = (1, 1) := by decide +kernel
  rw [hc] at h
  exact h

/-- distinct members on a stored sorted set: `ZADD k CH 5 a 7 b` where `a` is stored with another score and `b` is new: 1 added, 1 changed -/
def exStored : Db := [([107], { val := .zset (ZT.setScore .nil [97] (ZT.skey (UInt64.ofNat 0x3ff0000000000009))) })]
def exTwoCh : List Bytes := [ofStr "ZADD", [107], ofStr "CH", [53], [97], [55], [98]]
example : replyEq (cmdZAdd exEnv exStored exTwoCh).1 (.int 2) = true := by decide +kernel
example : replyEq (cmdZAdd exEnv exStored [ofStr "ZADD", [107], [53], [97], [55], [98]]).1 (.int 1) = true := by decide +kernel
example : ([(1, [97]), (2, [98])] : List (Int × Bytes)).map (·.2) |>.Nodup := by decide

end ZAddReplyEx

end Exec

#print axioms Exec.zaddOne_spec
#print axioms Exec.zaddLoop_counts
#print axioms Exec.zadd_reply_counts
#print axioms Exec.zadd_reply_counts_distinct
