import RedisGoModel.Props.C07Base
/-! C07 determinism obligations: sorted-set and stream commands -/
namespace Exec.C07
open Resp (Reply Bytes)
open Exec

/-! ### sorted sets (ZADD reads `env.fl`, the same on both sides; ZADD INCR adds with `ZT.fadd`, a function) -/

theorem d_zadd : CmdDet "zadd" cmdZAdd := by
  intro n1 n2 o1 o2 fl db args h _; unfold cmdZAdd; c07_cmd h
theorem d_zrem : CmdDet "zrem" cmdZRem := by
  intro n1 n2 o1 o2 fl db args h _; unfold cmdZRem; c07_cmd h
theorem d_zrange : CmdDet "zrange" cmdZRange := by
  intro n1 n2 o1 o2 fl db args h _; unfold cmdZRange; c07_cmd h
theorem d_zrank : CmdDet "zrank" cmdZRank := by
  intro n1 n2 o1 o2 fl db args h _; unfold cmdZRank; c07_cmd h

/-! ### streams -/

theorem d_xrange : CmdDet "xrange" cmdXRange := by
  intro n1 n2 o1 o2 fl db args h _; unfold cmdXRange; c07_cmd h

/-- only the fully automatic ID reads the environment -/
theorem nextId_det {req : IdReq} (hr : req ≠ .auto) (e1 e2 : Env) (last : StreamId) :
    nextId e1 last req = nextId e2 last req := by
  cases req with
  | auto => exact absurd rfl hr
  | autoSeq ms => rfl
  | explicit id => rfl

theorem xaddTo_det {req : IdReq} (hr : req ≠ .auto) (e1 e2 : Env) (db : Db) (k : Bytes) (o : XaddOpts) (fields : List Bytes)
    (s : List StreamEntry) (last : StreamId) : xaddTo e1 db k o req fields s last = xaddTo e2 db k o req fields s last := by
  unfold xaddTo; rw [nextId_det hr e1 e2]

theorem xaddDet_req {name k : Bytes} {rest : List Bytes} {o : XaddOpts} {req : IdReq} {fields : List Bytes}
    (hd : xaddDet (name :: k :: rest) = true) (hp : parseXadd rest {} = some (o, req, fields)) : req ≠ .auto := by
  intro he; subst he; simp [xaddDet, hp] at hd

theorem xaddTo_nodl (e : Env) {db : Db} (h : NoDLp db) (k : Bytes) (o : XaddOpts) (req : IdReq) (fields : List Bytes)
    (s : List StreamEntry) (last : StreamId) : NoDLp (xaddTo e db k o req fields s last).2 := by
  unfold xaddTo
  repeat' (first | c07_nodl | split)

/-- XADD with an ID that is not `*`: same clock not even needed when `checkTTL` is the identity (`hc`) -/
theorem xadd_det_aux (e1 e2 : Env) (db : Db) (args : List Bytes) (hx : xaddDet args = true)
    (hc : ∀ k, checkTTL db e1.now k = checkTTL db e2.now k) : cmdXAdd e1 db args = cmdXAdd e2 db args := by
  unfold cmdXAdd
  split
  · split
    · rfl
    · split
      · rfl
      · rename_i o req fields hp
        have hr := xaddDet_req hx hp
        simp only [hc, xaddTo_det hr e1 e2]
  · rfl

theorem d_xadd : CmdDet "xadd" cmdXAdd := by
  intro n1 n2 o1 o2 fl db args h hd
  refine ⟨xadd_det_aux _ _ db args (hd.xadd rfl) (fun k => by rw [checkTTL_nodl h, checkTTL_nodl h]), ?_⟩
  unfold cmdXAdd
  simp only [checkTTL_nodl h]
  repeat' (first | c07_nodl | exact xaddTo_nodl _ h _ _ _ _ _ _ | split)

end Exec.C07
