import RedisGoModel.Raft.RT
/-! # C08, item `all_restart`: an acknowledged write survives the crash and restart of all nodes

Level: the abstract Raft protocol L0 (`RedisGoModel/Raft/RS.lean`, `RS2.lean`, `RT.lean`), every cluster size `N`,
every schedule.

**Does L0 have a restart action?** Yes: `Step.restart s i : Step s (doRestart s i)`, enabled in every state for every
node, sets `role := .follower` at node `i` and keeps everything else, *including the node's `commit` field*. (L0 also
has `updateTerm`, `handleAE`, `ackCommitted`, `handleHB`, which demote a node as a side effect.) So the crash of a
set of nodes in which only the role is lost is already covered by `Reach`/`Steps`: it is a sequence of existing L0
steps (`restart_is_stutter`, part 2).

What L0's own `restart` does *not* cover is the loss of the commit index (in the Raft paper `commitIndex` is volatile;
in etcd `HardState.Commit` is persisted, but what is on disk can be older than what was in memory). Along `Step` the
`commit` field of a node never decreases (`C15_committed_never_rewritten`), so a crash that lowers it is not a
composition of L0 steps. This file therefore adds the transition `crash R c`: every node in the finite set `R` comes
back as a follower with commit index `min commit (c i)` (`c := fun _ => 0` is the Raft paper's restart, `c i ≥ commit i`
is L0's `restart`), keeps `term`, `vote`, `log` (the persisted state), and all the rest of the system is untouched.
The five invariants `Inv0 … Inv4` of `reach_inv` are re-proved for it (`inv_vloss`), `StepR := Step ∨ crash`,
`StepsR`, `ReachR` are the extended relations, and the survival theorem is proved over them.

What is *not* modelled here: loss or corruption of the persisted state itself (that is C16, the WAL), and the
connection between L0's `log` and what the Go code has fsynced (F4 below is a hypothesis about the implementation,
not a theorem of this file). The message soup `msgs` is kept by `crash`; this loses nothing, because in L0 a sent
message may be handled any number of times or never, so dropping the in-flight messages is a behaviour of the same
model. The ghost fields (`votes llog isLdr acks clog elog equo cmt`) are history variables, not state of any node:
they record what has happened in the run and are, by definition, not affected by a crash. -/
namespace RS
namespace C08
variable {N : Nat}

/-! ## the crash transitions -/

/-- L0-flavoured crash+restart of the set `R`: every node of `R` comes back as follower (exactly `doRestart` at each
    node of `R`). `R = Finset.univ` is the crash of the whole cluster. -/
def restart (R : Finset (Fin N)) (s : Sys N) : Sys N :=
  { s with nodes := fun i => if i ∈ R then { (s.nodes i) with role := .follower } else s.nodes i }

/-- Crash+restart of the set `R` with loss of *all* volatile node state: role becomes follower and the commit index
    falls back to `min commit (c i)` (any value not above the old one; `c = 0`: completely forgotten). -/
def crash (R : Finset (Fin N)) (c : Fin N → Nat) (s : Sys N) : Sys N :=
  { s with nodes := fun i => if i ∈ R then
      { (s.nodes i) with role := .follower, commit := min (s.nodes i).commit (c i) } else s.nodes i }

/-- The persisted projection: per node the hard state `(term, vote, log)` with the volatile fields blanked
    (`role := follower`, `commit := 0`), and every other component of the system as it is. -/
def persisted (s : Sys N) : Sys N :=
  { s with nodes := fun i => ⟨(s.nodes i).term, (s.nodes i).vote, .follower, (s.nodes i).log, 0⟩ }

theorem restart_eq_crash (R : Finset (Fin N)) (s : Sys N) : restart R s = crash R (fun i => (s.nodes i).commit) s := by
  simp [restart, crash]

theorem persisted_crash (R : Finset (Fin N)) (c : Fin N → Nat) (s : Sys N) : persisted (crash R c s) = persisted s := by
  unfold persisted crash
  congr 1
  funext i
  by_cases h : i ∈ R <;> simp [h]

theorem persisted_restart (R : Finset (Fin N)) (s : Sys N) : persisted (restart R s) = persisted s := by
  rw [restart_eq_crash]; exact persisted_crash _ _ _

/-- what a crash does to each node, field by field -/
theorem crash_node (R : Finset (Fin N)) (c : Fin N → Nat) (s : Sys N) (i : Fin N) :
    ((crash R c s).nodes i).term = (s.nodes i).term ∧ ((crash R c s).nodes i).vote = (s.nodes i).vote ∧
    ((crash R c s).nodes i).log = (s.nodes i).log ∧
    ((crash R c s).nodes i).role = (if i ∈ R then .follower else (s.nodes i).role) ∧
    ((crash R c s).nodes i).commit = (if i ∈ R then min (s.nodes i).commit (c i) else (s.nodes i).commit) := by
  by_cases h : i ∈ R <;> simp [crash, h]

/-- after the crash of all nodes there is no leader and no candidate -/
theorem crash_univ_role (c : Fin N → Nat) (s : Sys N) (i : Fin N) : ((crash Finset.univ c s).nodes i).role = .follower := by
  simp [crash]

theorem restart_empty (s : Sys N) : restart ∅ s = s := by
  cases s; simp [restart]

theorem restart_insert (a : Fin N) (R : Finset (Fin N)) (s : Sys N) :
    restart (insert a R) s = doRestart (restart R s) a := by
  unfold restart doRestart
  congr 1
  funext i
  by_cases hi : i = a
  · subst hi
    by_cases hR : i ∈ R <;> simp [hR]
  · simp [upd, hi]

/-- the L0-flavoured crash of any set of nodes is a sequence of L0's own `restart` steps -/
theorem steps_restart (R : Finset (Fin N)) (s : Sys N) : Steps s (restart R s) := by
  induction R using Finset.induction_on with
  | empty => rw [restart_empty]; exact .refl s
  | insert a R _ ih => rw [restart_insert]; exact .tail ih (Step.restart _ a)

/-! ## the invariants survive the loss of volatile state -/

/-- `VLoss s n'`: the node map `n'` is `s.nodes` after some nodes lost volatile state: persisted fields equal, role
    kept or follower, commit not larger. -/
structure VLoss (s : Sys N) (n' : Fin N → NodeSt N) : Prop where
  term   : ∀ i, (n' i).term = (s.nodes i).term
  vote   : ∀ i, (n' i).vote = (s.nodes i).vote
  log    : ∀ i, (n' i).log = (s.nodes i).log
  role   : ∀ i, (n' i).role = .follower ∨ (n' i).role = (s.nodes i).role
  commit : ∀ i, (n' i).commit ≤ (s.nodes i).commit

theorem vloss_crash (R : Finset (Fin N)) (c : Fin N → Nat) (s : Sys N) : VLoss s (crash R c s).nodes := by
  refine ⟨?_, ?_, ?_, ?_, ?_⟩ <;> intro i <;> by_cases h : i ∈ R <;> simp [crash, h]

theorem inv0_vloss {s : Sys N} (h : Inv0 s) {n' : Fin N → NodeSt N} (v : VLoss s n') : Inv0 { s with nodes := n' } := by
  have hR : ∀ k r, r ≠ .follower → (n' k).role = r → (s.nodes k).role = r := by
    intro k r hr hk
    rcases v.role k with h1 | h1
    · rw [h1] at hk; exact absurd hk.symm hr
    · rw [← h1]; exact hk
  refine ⟨?_, h.resp_voted, ?_, h.votes_fun, h.ldr_quorum, ?_, ?_, h.llog_none, ?_, ?_, h.p_llog, h.ae_ok⟩
  · intro t k c hv
    show t ≤ (n' k).term ∧ ((n' k).term = t → (n' k).vote = some c)
    rw [v.term, v.vote]; exact h.vote_durable t k c hv
  · intro k hk
    show s.votes (n' k).term k k
    have hk' : (n' k).role ≠ .follower := hk
    rw [v.term]
    cases hr : (n' k).role with
    | follower => exact absurd hr hk'
    | candidate => exact h.cand_self k (by rw [hR k .candidate (by simp) hr]; simp)
    | leader => exact h.cand_self k (by rw [hR k .leader (by simp) hr]; simp)
  · intro k hk
    show s.isLdr (n' k).term k
    rw [v.term]; exact h.ldr_role k (hR k .leader (by simp) hk)
  · intro t k hk
    show t ≤ (n' k).term ∧ ((n' k).term = t → (n' k).role ≠ .candidate)
    rw [v.term]
    exact ⟨(h.ldr_term t k hk).1, fun e hc => (h.ldr_term t k hk).2 e (hR k .candidate (by simp) hc)⟩
  · intro k hk
    show (n' k).log = s.llog (n' k).term
    rw [v.log, v.term]; exact h.ldr_log k (hR k .leader (by simp) hk)
  · intro k
    show PrefixOK s.llog (n' k).log
    rw [v.log]; exact h.p_nodes k

theorem inv1_vloss {s : Sys N} (h : Inv1 s) {n' : Fin N → NodeSt N} (v : VLoss s n') : Inv1 { s with nodes := n' } := by
  refine ⟨?_, h.ldr_pos, ?_, h.tm_llog, h.el, ?_, ?_, h.clog_tm, h.clog_p, ?_, ?_⟩
  · intro k hk
    show 1 ≤ (n' k).term
    have hk' : (n' k).role ≠ .follower := hk
    rw [v.term]
    rcases v.role k with hr | hr
    · exact absurd hr hk'
    · exact h.cand_pos k (by rw [← hr]; exact hk')
  · intro k m h1 h2
    show termAt (n' k).log m ≤ (n' k).term
    have h2' : m ≤ (n' k).log.length := h2
    rw [v.log] at h2' ⊢; rw [v.term]; exact h.tm_node k m h1 h2'
  · intro k hk
    show (n' k).log = s.clog (n' k).term k
    have hk' : (n' k).role = .candidate := hk
    rw [v.log, v.term]
    rcases v.role k with hr | hr
    · rw [hr] at hk'; cases hk'
    · exact h.cand_log k (by rw [← hr]; exact hk')
  · intro t c li lt hm
    obtain ⟨a, b, c'⟩ := h.rv_ok t c li lt hm
    refine ⟨a, b, ?_⟩
    show t ≤ (n' c).term
    rw [v.term]; exact c'
  · intro t y n ha
    obtain ⟨a, b, c⟩ := h.ack_ok t y n ha
    refine ⟨a, ?_, c⟩
    show t ≤ (n' y).term
    rw [v.term]; exact b
  · intro t y c hv
    show t ≤ (n' c).term
    rw [v.term]; exact h.vote_cand t y c hv

theorem inv2_vloss {s : Sys N} (h : Inv2 s) {n' : Fin N → NodeSt N} (v : VLoss s n') : Inv2 { s with nodes := n' } :=
  inv2_frame h n' s.msgs s.cmt v.log (fun y => Nat.le_of_eq (v.term y).symm)

theorem inv3_vloss {s : Sys N} (h : Inv3 s) {n' : Fin N → NodeSt N} (v : VLoss s n') : Inv3 { s with nodes := n' } := by
  refine ⟨h.cm, ?_, h.aec⟩
  intro i
  show (n' i).commit ≤ (n' i).log.length ∧ ((n' i).commit = 0 ∨ ∃ k t, s.cmt k t ∧ (n' i).commit ≤ k ∧
    t ≤ (n' i).term ∧ (n' i).log.take (n' i).commit = (s.llog t).take (n' i).commit)
  rw [v.log, v.term]
  obtain ⟨a, b⟩ := h.n1 i
  have hc := v.commit i
  refine ⟨by omega, ?_⟩
  rcases b with z | ⟨k, t, c1, c2, c3, c4⟩
  · left; omega
  · right
    refine ⟨k, t, c1, by omega, c3, ?_⟩
    have := congrArg (List.take (n' i).commit) c4
    rwa [List.take_take, List.take_take, Nat.min_eq_left hc] at this

theorem inv4_vloss {s : Sys N} (h1 : Inv1 s) (h : Inv4 s) {n' : Fin N → NodeSt N} (v : VLoss s n') :
    Inv4 { s with nodes := n' } :=
  inv4_frame h1 h n' s.msgs s.votes s.clog s.cmt v.log (fun y => Nat.le_of_eq (v.term y).symm)
    (fun _ _ _ _ h => h) (fun _ _ _ _ h => h) (fun _ _ h => h)

/-- all five invariants of `reach_inv` are preserved by any loss of volatile node state; none of the 32 conjuncts is
    lost: `role = leader/candidate` occurs only in hypotheses (or negated in a conclusion, `Inv0.ldr_term`), and the
    only conjunct that mentions `commit` (`Inv3.n1`) is downward closed in it. -/
theorem inv_vloss {s : Sys N} (h : Inv0 s ∧ Inv1 s ∧ Inv2 s ∧ Inv3 s ∧ Inv4 s) {n' : Fin N → NodeSt N} (v : VLoss s n') :
    let s' : Sys N := { s with nodes := n' }
    Inv0 s' ∧ Inv1 s' ∧ Inv2 s' ∧ Inv3 s' ∧ Inv4 s' :=
  ⟨inv0_vloss h.1 v, inv1_vloss h.2.1 v, inv2_vloss h.2.2.1 v, inv3_vloss h.2.2.2.1 v, inv4_vloss h.2.1 h.2.2.2.2 v⟩

theorem inv_crash {s : Sys N} (h : Inv0 s ∧ Inv1 s ∧ Inv2 s ∧ Inv3 s ∧ Inv4 s) (R : Finset (Fin N)) (c : Fin N → Nat) :
    Inv0 (crash R c s) ∧ Inv1 (crash R c s) ∧ Inv2 (crash R c s) ∧ Inv3 (crash R c s) ∧ Inv4 (crash R c s) :=
  inv_vloss h (vloss_crash R c s)

/-! ## L0 extended with crashes -/

/-- an L0 step, or the crash+restart of any set of nodes with loss of role and (part of) the commit index -/
inductive StepR : Sys N → Sys N → Prop
| step {s s'} : Step s s' → StepR s s'
| crash (s : Sys N) (R : Finset (Fin N)) (c : Fin N → Nat) : StepR s (crash R c s)

inductive StepsR : Sys N → Sys N → Prop
| refl (s) : StepsR s s
| tail {a b c} : StepsR a b → StepR b c → StepsR a c

inductive ReachR : Sys N → Prop
| init : ReachR (init N)
| step {s s'} : ReachR s → StepR s s' → ReachR s'

theorem StepR.restart (s : Sys N) (R : Finset (Fin N)) : StepR s (restart R s) := by
  rw [restart_eq_crash]; exact .crash s R _

theorem reachR_of_reach {s : Sys N} (r : Reach s) : ReachR s := by
  induction r with
  | init => exact .init
  | step _ st ih => exact .step ih (.step st)

theorem stepsR_of_steps {s s' : Sys N} (st : Steps s s') : StepsR s s' := by
  induction st with
  | refl => exact .refl _
  | tail _ st ih => exact .tail ih (.step st)

theorem StepsR.trans {a b c : Sys N} (h1 : StepsR a b) (h2 : StepsR b c) : StepsR a c := by
  induction h2 with
  | refl => exact h1
  | tail _ st ih => exact .tail ih st

theorem reachR_stepsR {a b : Sys N} (r : ReachR a) (st : StepsR a b) : ReachR b := by
  induction st with
  | refl => exact r
  | tail _ s ih => exact .step ih s

theorem reachR_inv {s : Sys N} (r : ReachR s) : Inv0 s ∧ Inv1 s ∧ Inv2 s ∧ Inv3 s ∧ Inv4 s := by
  induction r with
  | init => exact reach_inv .init
  | step _ st ih =>
    cases st with
    | step st =>
      obtain ⟨h0, h1, h2, h3, h4⟩ := ih
      exact ⟨inv0_step h0 st, inv1_step h0 h1 h2 h3 st, inv2_step h0 h1 h2 h3 st, inv3_step h0 h1 h2 h3 h4 st,
        inv4_step h0 h1 h2 h3 h4 st⟩
    | crash R c => exact inv_crash ih R c

theorem llog_prefix_stepR {s s' : Sys N} (h0 : Inv0 s) (st : StepR s s') (t : Nat) : s.llog t <+: s'.llog t := by
  cases st with
  | step st => exact llog_prefix_step h0 st t
  | crash R c => exact List.prefix_refl _

theorem cmt_mono_stepR {s s' : Sys N} (st : StepR s s') {k t : Nat} (c : s.cmt k t) : s'.cmt k t := by
  cases st with
  | step st => exact cmt_mono_step st c
  | crash R c' => exact c

theorem llog_prefix_stepsR {s s' : Sys N} (r : ReachR s) (st : StepsR s s') (t : Nat) : s.llog t <+: s'.llog t := by
  induction st with
  | refl => exact List.prefix_refl _
  | tail sts st ih => exact List.IsPrefix.trans ih (llog_prefix_stepR (reachR_inv (reachR_stepsR r sts)).1 st t)

theorem cmt_mono_stepsR {s s' : Sys N} (st : StepsR s s') {k t : Nat} (c : s.cmt k t) : s'.cmt k t := by
  induction st with
  | refl => exact c
  | tail _ st ih => exact cmt_mono_stepR st ih

theorem take_of_prefix {l l' : Log} (h : l <+: l') {k : Nat} (hk : k ≤ l.length) : l'.take k = l.take k := by
  obtain ⟨r, rfl⟩ := h
  exact List.take_append_of_le_length hk

/-! ## the theorems of the item -/

/-- **A crash+restart of any set of nodes is a stutter on the persisted state.**
    1. `crash R c` (role lost, commit index lowered arbitrarily) is the identity on the persisted projection: per-node
       `(term, vote, log)`, the messages, and every ghost/history component (`cmt`, `llog`, `votes`, …).
    2. The L0-flavoured variant `restart R` (only the role is lost) is moreover a *sequence of existing L0 steps*
       (`Step.restart`, once per node of `R`), hence maps reachable states to reachable states.
    3. `crash R c` is not an L0 step when it lowers a commit index (L0 never lowers it), but all invariants that
       `reach_inv` establishes for L0 (`Inv0 … Inv4`, all conjuncts) still hold after it. -/
theorem restart_is_stutter (R : Finset (Fin N)) (c : Fin N → Nat) (s : Sys N) :
    (persisted (crash R c s) = persisted s ∧ persisted (restart R s) = persisted s) ∧
    (Steps s (restart R s) ∧ (Reach s → Reach (restart R s))) ∧
    ((Inv0 s ∧ Inv1 s ∧ Inv2 s ∧ Inv3 s ∧ Inv4 s) →
      Inv0 (crash R c s) ∧ Inv1 (crash R c s) ∧ Inv2 (crash R c s) ∧ Inv3 (crash R c s) ∧ Inv4 (crash R c s)) :=
  ⟨⟨persisted_crash R c s, persisted_restart R s⟩,
   ⟨steps_restart R s, fun r => reach_steps r (steps_restart R s)⟩,
   fun h => inv_crash h R c⟩

/-- **An acknowledged write survives the crash and restart of any set of nodes, including all of them.**

    Hypothesis about the implementation, *not* proved here (F4, persist-before-ack): a write is acknowledged to the
    client only when its entry is committed, i.e. `s.cmt k t` holds: the leader of term `t` marked index `k`
    committed, which L0 allows only when a quorum has stored it (`Step.advanceCommit`), and "stored" means in `log`,
    the persisted field.

    Given that, in every state `s'` that follows `s` through any number of L0 steps and crashes (`StepsR`: each crash
    hits an arbitrary set of nodes, `Finset.univ` included, takes away the role and any part of the commit index):
    * the index is still marked committed;
    * every leader of term `≥ t` holds the acknowledged prefix: its log has at least `k` entries and its first `k`
      entries are the first `k` entries of the committing leader's log at acknowledgement time. (A leader of a term
      `< t` may exist in `s'`, a deposed one that has not heard of term `t` yet, and nothing is claimed about its log;
      whatever such a leader marks committed is still covered by the third clause. After a crash of *all* nodes no
      such leader exists: `no_stale_leader_after_full_crash`, `acked_in_every_leader_after_full_crash`.)
    * whatever is marked committed at or beyond `k`, by any term, has the same first `k` entries;
    * every node whose commit index reaches `k` (so every node that applies index `k`) has the same first `k` entries. -/
theorem acked_survives_all_restart {s s' : Sys N} (r : ReachR s) {k t : Nat} (c : s.cmt k t) (st : StepsR s s') :
    s'.cmt k t ∧
    (∀ i, (s'.nodes i).role = .leader → t ≤ (s'.nodes i).term →
      k ≤ (s'.nodes i).log.length ∧ (s'.nodes i).log.take k = (s.llog t).take k) ∧
    (∀ k' t', s'.cmt k' t' → k ≤ k' → (s'.llog t').take k = (s.llog t).take k) ∧
    (∀ i, k ≤ (s'.nodes i).commit → (s'.nodes i).log.take k = (s.llog t).take k) := by
  have r' := reachR_stepsR r st
  obtain ⟨h0, h1, h2, h3, _⟩ := reachR_inv r'
  have c' := cmt_mono_stepsR st c
  have hk : k ≤ (s.llog t).length := ((reachR_inv r).2.2.2.1.cm k t c).2
  have hpre : (s'.llog t).take k = (s.llog t).take k := take_of_prefix (llog_prefix_stepsR r st t) hk
  have hag : ∀ k' t', s'.cmt k' t' → k ≤ k' → (s'.llog t').take k = (s.llog t).take k := by
    intro k' t' c2 hkk
    rw [← hpre]
    rcases Nat.le_total t t' with hle | hle
    · exact committed_agree h0 h1 h2 h3 c' c2 hle (Nat.le_refl _)
    · exact (committed_agree h0 h1 h2 h3 c2 c' hle hkk).symm
  refine ⟨c', ?_, hag, ?_⟩
  · intro i hl ht
    have hlog := h0.ldr_log i hl
    have hld := h0.ldr_role i hl
    rw [hlog]
    rcases Nat.lt_or_ge t (s'.nodes i).term with hlt | hge
    · obtain ⟨p1, p2⟩ := committed_in_later_leader h0 h1 h2 h3 c' hlt hld
      exact ⟨p1, by rw [p2, hpre]⟩
    · have e : (s'.nodes i).term = t := by omega
      rw [e]
      exact ⟨(h3.cm k t c').2, hpre⟩
  · intro i hi
    obtain ⟨_, b⟩ := h3.n1 i
    rcases b with z | ⟨k1, t1, c1, c2, _, c4⟩
    · have : k = 0 := by omega
      subst this; simp
    · have := congrArg (List.take k) c4
      rw [List.take_take, List.take_take, Nat.min_eq_left hi] at this
      rw [this]; exact hag k1 t1 c1 (by omega)

/-- the same for runs of plain L0 (`Reach`, then L0 steps and crashes) -/
theorem acked_survives_all_restart_L0 {s s' : Sys N} (r : Reach s) {k t : Nat} (c : s.cmt k t) (st : StepsR s s') :
    s'.cmt k t ∧
    (∀ i, (s'.nodes i).role = .leader → t ≤ (s'.nodes i).term →
      k ≤ (s'.nodes i).log.length ∧ (s'.nodes i).log.take k = (s.llog t).take k) ∧
    (∀ k' t', s'.cmt k' t' → k ≤ k' → (s'.llog t').take k = (s.llog t).take k) ∧
    (∀ i, k ≤ (s'.nodes i).commit → (s'.nodes i).log.take k = (s.llog t).take k) :=
  acked_survives_all_restart (reachR_of_reach r) c st

/-- entry-wise reading: the acknowledged entry itself (index `k`, 1-based, so list position `k-1`) is what every
    leader of a term `≥ t` and every node that has committed up to `k` holds at that position -/
theorem acked_entry_survives {s s' : Sys N} (r : ReachR s) {k t : Nat} (c : s.cmt k t) (st : StepsR s s') (hk : 1 ≤ k)
    (i : Fin N) (hi : ((s'.nodes i).role = .leader ∧ t ≤ (s'.nodes i).term) ∨ k ≤ (s'.nodes i).commit) :
    (s'.nodes i).log[k - 1]? = (s.llog t)[k - 1]? ∧ ∃ e, (s.llog t)[k - 1]? = some e := by
  obtain ⟨_, a, _, b⟩ := acked_survives_all_restart r c st
  have hlen : k ≤ (s.llog t).length := ((reachR_inv r).2.2.2.1.cm k t c).2
  have hex : ∃ e, (s.llog t)[k - 1]? = some e :=
    ⟨(s.llog t)[k - 1]'(by omega), List.getElem?_eq_getElem (by omega)⟩
  rcases hi with ⟨hl, ht⟩ | hc
  · exact ⟨getElem?_of_take_eq (a i hl ht).2 (by omega), hex⟩
  · exact ⟨getElem?_of_take_eq (b i hc) (by omega), hex⟩

/-! ## after a crash of the whole cluster, no stale leader: every leader has a term above the acknowledged one -/

/-- a step that creates no candidate, no leader and no vote: every node keeps its term and role, or ends as follower
    with a term at least as large -/
structure Quiet (b b' : Sys N) : Prop where
  node  : ∀ y, (b.nodes y).term ≤ (b'.nodes y).term ∧ ((b'.nodes y).role = .follower ∨
            ((b'.nodes y).role = (b.nodes y).role ∧ (b'.nodes y).term = (b.nodes y).term))
  votes : ∀ T j c, b'.votes T j c → b.votes T j c
  isLdr : ∀ T l, b.isLdr T l → b'.isLdr T l

/-- the invariant behind `no_stale_leader_after_full_crash`. `Q` is the quorum that stored the acknowledged entry in
    term `t`; `P` switches the two clauses about roles on (they hold from the crash of all nodes onwards). -/
structure K (Q : Finset (Fin N)) (t : Nat) (P : Prop) (b : Sys N) : Prop where
  tq : ∀ j ∈ Q, t ≤ (b.nodes j).term
  hl : ∃ l, b.isLdr t l
  ld : P → ∀ i, (b.nodes i).role = .leader → t < (b.nodes i).term
  cd : P → ∀ i, (b.nodes i).role = .candidate → (b.nodes i).term < t → ∀ j, b.votes (b.nodes i).term j i → j ∉ Q

theorem K_quiet {Q : Finset (Fin N)} {t : Nat} {P : Prop} {b b' : Sys N} (hK : K Q t P b) (q : Quiet b b') : K Q t P b' := by
  refine ⟨?_, ?_, ?_, ?_⟩
  · intro j hj; exact Nat.le_trans (hK.tq j hj) (q.node j).1
  · obtain ⟨l, hl⟩ := hK.hl; exact ⟨l, q.isLdr _ _ hl⟩
  · intro hP i hl
    rcases (q.node i).2 with hf | ⟨hr, ht⟩
    · rw [hf] at hl; cases hl
    · rw [ht]; exact hK.ld hP i (by rw [← hr]; exact hl)
  · intro hP i hc hlt j hv
    rcases (q.node i).2 with hf | ⟨hr, ht⟩
    · rw [hf] at hc; cases hc
    · rw [ht] at hlt hv
      exact hK.cd hP i (by rw [← hr]; exact hc) hlt j (q.votes _ _ _ hv)

theorem K_timeout {Q : Finset (Fin N)} {t : Nat} {P : Prop} {b : Sys N} (h1 : Inv1 b) (hK : K Q t P b) (i0 : Fin N) :
    K Q t P (doTimeout b i0) := by
  refine ⟨?_, hK.hl, ?_, ?_⟩
  · intro j hj
    have := hK.tq j hj
    by_cases hji : j = i0
    · subst hji; simp [doTimeout]; omega
    · simp only [doTimeout, upd_other _ _ hji]; exact this
  · intro hP i hl
    by_cases hi : i = i0
    · subst hi; simp [doTimeout] at hl
    · simp only [doTimeout, upd_other _ _ hi] at hl ⊢; exact hK.ld hP i hl
  · intro hP i hc hlt j hv
    by_cases hi : i = i0
    · subst hi
      simp only [doTimeout, upd_same] at hlt hv
      rcases hv with hv | ⟨_, rfl, _⟩
      · have := h1.vote_cand _ _ _ hv; omega
      · intro hq; have := hK.tq _ hq; omega
    · simp only [doTimeout, upd_other _ _ hi] at hc hlt hv
      rcases hv with hv | ⟨_, _, e⟩
      · exact hK.cd hP i hc hlt j hv
      · exact absurd e hi

theorem K_grant {Q : Finset (Fin N)} {t : Nat} {P : Prop} {b : Sys N} (hK : K Q t P b) (j0 c0 : Fin N) (t0 : Nat)
    (ht : (b.nodes j0).term = t0) : K Q t P (doGrant b j0 c0 t0) := by
  have hT : ∀ y, ((doGrant b j0 c0 t0).nodes y).term = (b.nodes y).term := by
    intro y; by_cases hy : y = j0
    · subst hy; simp [doGrant]
    · simp only [doGrant, upd_other _ _ hy]
  have hR : ∀ y, ((doGrant b j0 c0 t0).nodes y).role = (b.nodes y).role := by
    intro y; by_cases hy : y = j0
    · subst hy; simp [doGrant]
    · simp only [doGrant, upd_other _ _ hy]
  refine ⟨?_, hK.hl, ?_, ?_⟩
  · intro j hj; rw [hT]; exact hK.tq j hj
  · intro hP i hl; rw [hT]; rw [hR] at hl; exact hK.ld hP i hl
  · intro hP i hc hlt j hv
    rw [hR] at hc; rw [hT] at hlt hv
    simp only [doGrant] at hv
    rcases hv with hv | ⟨e1, e2, _⟩
    · exact hK.cd hP i hc hlt j hv
    · intro hq; have := hK.tq _ hq; subst e2; omega

theorem K_becomeLeader {Q : Finset (Fin N)} {t : Nat} {P : Prop} {b : Sys N} (h0 : Inv0 b) (hqQ : N < 2 * Q.card)
    (hK : K Q t P b) (i0 : Fin N) (Q' : Finset (Fin N)) (hq : N < 2 * Q'.card) (hc : (b.nodes i0).role = .candidate)
    (hQ : ∀ j ∈ Q', j = i0 ∨ b.msgs (.rvResp (b.nodes i0).term j i0 true)) : K Q t P (doBecomeLeader b i0 Q') := by
  obtain ⟨hv, hno⟩ := fresh_term h0 i0 Q' hq hc hQ
  have hgt : P → t < (b.nodes i0).term := by
    intro hP
    apply Classical.byContradiction; intro hcon
    rcases Nat.lt_or_ge (b.nodes i0).term t with hlt | hge
    · obtain ⟨j, hj1, hj2⟩ := quorums_meet Q' Q hq hqQ
      exact hK.cd hP i0 hc hlt j (hv j hj1) hj2
    · have e : (b.nodes i0).term = t := by omega
      obtain ⟨l, hl⟩ := hK.hl
      exact hno l (by rw [e]; exact hl)
  have hT : ∀ y, ((doBecomeLeader b i0 Q').nodes y).term = (b.nodes y).term := by
    intro y; by_cases hy : y = i0
    · subst hy; simp [doBecomeLeader]
    · simp only [doBecomeLeader, upd_other _ _ hy]
  refine ⟨?_, ?_, ?_, ?_⟩
  · intro j hj; rw [hT]; exact hK.tq j hj
  · obtain ⟨l, hl⟩ := hK.hl; exact ⟨l, Or.inl hl⟩
  · intro hP i hl
    rw [hT]
    by_cases hi : i = i0
    · subst hi; exact hgt hP
    · simp only [doBecomeLeader, upd_other _ _ hi] at hl; exact hK.ld hP i hl
  · intro hP i hc' hlt j hv'
    rw [hT] at hlt hv'
    by_cases hi : i = i0
    · subst hi; simp [doBecomeLeader] at hc'
    · simp only [doBecomeLeader, upd_other _ _ hi] at hc' hv'; exact hK.cd hP i hc' hlt j hv'

theorem quiet_crash (R : Finset (Fin N)) (c : Fin N → Nat) (b : Sys N) : Quiet b (crash R c b) := by
  refine ⟨fun y => ?_, fun _ _ _ h => h, fun _ _ h => h⟩
  by_cases h : y ∈ R <;> simp [crash, h]

theorem K_stepR {Q : Finset (Fin N)} {t : Nat} {P : Prop} {b b' : Sys N} (h0 : Inv0 b) (h1 : Inv1 b) (hqQ : N < 2 * Q.card)
    (hK : K Q t P b) (st : StepR b b') : K Q t P b' := by
  cases st with
  | crash R c => exact K_quiet hK (quiet_crash R c b)
  | step st =>
    cases st with
    | timeout i hr => exact K_timeout h1 hK i
    | grant j c t li lt hm ht hv hu => exact K_grant hK j c t ht
    | becomeLeader i Q' hq hc hQ => exact K_becomeLeader h0 hqQ hK i Q' hq hc hQ
    | updateTerm i t ht =>
      refine K_quiet hK ⟨fun y => ?_, fun _ _ _ h => h, fun _ _ h => h⟩
      by_cases hy : y = i
      · subst hy; simp [doUpdateTerm]; omega
      · simp [doUpdateTerm, upd_other _ _ hy]
    | clientReq i v hl =>
      refine K_quiet hK ⟨fun y => ?_, fun _ _ _ h => h, fun _ _ h => h⟩
      by_cases hy : y = i
      · subst hy; simp [doClientReq]
      · simp [doClientReq, upd_other _ _ hy]
    | sendAE i prev cnt hl hp => exact K_quiet hK ⟨fun y => by simp [doSendAE], fun _ _ _ h => h, fun _ _ h => h⟩
    | handleAE j src t prev pt ents cm hm ht hnl hmatch =>
      refine K_quiet hK ⟨fun y => ?_, fun _ _ _ h => h, fun _ _ h => h⟩
      by_cases hy : y = j
      · subst hy; simp [doHandleAE]
      · simp [doHandleAE, upd_other _ _ hy]
    | advanceCommit i k Q' hl hk hterm hq hQ =>
      refine K_quiet hK ⟨fun y => ?_, fun _ _ _ h => h, fun _ _ h => h⟩
      by_cases hy : y = i
      · subst hy; simp [doAdvanceCommit]
      · simp [doAdvanceCommit, upd_other _ _ hy]
    | restart i =>
      refine K_quiet hK ⟨fun y => ?_, fun _ _ _ h => h, fun _ _ h => h⟩
      by_cases hy : y = i
      · subst hy; simp [doRestart]
      · simp [doRestart, upd_other _ _ hy]
    | ackCommitted j src t prev pt ents cm hm ht hnl hlt =>
      refine K_quiet hK ⟨fun y => ?_, fun _ _ _ h => h, fun _ _ h => h⟩
      by_cases hy : y = j
      · subst hy; simp [doAckCommitted]
      · simp [doAckCommitted, upd_other _ _ hy]
    | sendHB i dst c hl hc hack => exact K_quiet hK ⟨fun y => by simp [doSendHB], fun _ _ _ h => h, fun _ _ h => h⟩
    | handleHB j src t c hm ht hnl =>
      refine K_quiet hK ⟨fun y => ?_, fun _ _ _ h => h, fun _ _ h => h⟩
      by_cases hy : y = j
      · subst hy; simp [doHandleHB]
      · simp [doHandleHB, upd_other _ _ hy]

theorem K_stepsR {Q : Finset (Fin N)} {t : Nat} {P : Prop} {b b' : Sys N} (r : ReachR b) (hqQ : N < 2 * Q.card)
    (hK : K Q t P b) (st : StepsR b b') : K Q t P b' := by
  induction st with
  | refl => exact hK
  | tail sts st ih =>
    obtain ⟨h0, h1, _⟩ := reachR_inv (reachR_stepsR r sts)
    exact K_stepR h0 h1 hqQ ih st

/-- **After the crash of all nodes, every leader is a leader of a term above the acknowledged one.** `s`: index `k`
    is marked committed by term `t` (the write is acknowledged). Later (`a`) every node crashes (`crash Finset.univ`)
    and the run goes on, through L0 steps and further crashes, to `s'`. Then every leader in `s'` has a term `> t`.
    (Why: after the crash nobody is candidate or leader; a node that campaigns afterwards does so in a fresh term of
    its own, for which it holds no vote yet; a member of the quorum that stored the entry has a term `≥ t` and votes
    only in its current term; two quorums meet; and term `t` itself cannot be won a second time.)
    With `acked_survives_all_restart` (whose clause on leaders asks for a term `≥ t`) this gives
    `acked_in_every_leader_after_full_crash`: *every* leader after a full crash holds the acknowledged prefix. -/
theorem no_stale_leader_after_full_crash {s a s' : Sys N} (r : ReachR s) {k t : Nat} (c : s.cmt k t)
    (st1 : StepsR s a) (cc : Fin N → Nat) (st2 : StepsR (crash Finset.univ cc a) s') (i : Fin N)
    (hl : (s'.nodes i).role = .leader) : t < (s'.nodes i).term := by
  obtain ⟨_, h1, _, h3, _⟩ := reachR_inv r
  obtain ⟨⟨_, _, Q, hq, hQ⟩, _⟩ := h3.cm k t c
  have hne : Q.Nonempty := by rw [← Finset.card_pos]; omega
  have hKs : K Q t False s := by
    refine ⟨?_, ?_, fun h => h.elim, fun h => h.elim⟩
    · intro j hj
      obtain ⟨n, _, ha⟩ := hQ j hj
      exact (h1.ack_ok t j n ha).2.1
    · obtain ⟨j, hj⟩ := hne
      obtain ⟨n, _, ha⟩ := hQ j hj
      exact (h1.ack_ok t j n ha).2.2
  have hKa := K_stepsR r hq hKs st1
  have ra := reachR_stepsR r st1
  have hKc : K Q t True (crash Finset.univ cc a) := by
    refine ⟨?_, hKa.hl, ?_, ?_⟩
    · intro j hj; rw [(crash_node _ _ _ j).1]; exact hKa.tq j hj
    · intro _ i hl; rw [crash_univ_role] at hl; cases hl
    · intro _ i hc; rw [crash_univ_role] at hc; cases hc
  have rc : ReachR (crash Finset.univ cc a) := .step ra (.crash a _ cc)
  exact (K_stepsR rc hq hKc st2).ld trivial i hl

/-- every leader after a crash of all nodes holds the acknowledged prefix (no side condition on its term) -/
theorem acked_in_every_leader_after_full_crash {s a s' : Sys N} (r : ReachR s) {k t : Nat} (c : s.cmt k t)
    (st1 : StepsR s a) (cc : Fin N → Nat) (st2 : StepsR (crash Finset.univ cc a) s') (i : Fin N)
    (hl : (s'.nodes i).role = .leader) :
    k ≤ (s'.nodes i).log.length ∧ (s'.nodes i).log.take k = (s.llog t).take k := by
  have hlt := no_stale_leader_after_full_crash r c st1 cc st2 i hl
  have st : StepsR s s' := (StepsR.tail st1 (.crash a _ cc)).trans st2
  exact (acked_survives_all_restart r c st).2.1 i hl (by omega)

/-! ## the hypotheses are satisfiable: a concrete 3-node run

`w8`: node 0 campaigns in term 1, node 1 votes for it, node 0 wins with the quorum `{0,1}`, appends its no-op (index 1)
and the client's write `7` (index 2), replicates both to node 1, and marks index 2 committed: the write is acknowledged.
Node 2 has heard nothing. Then **all three nodes crash** and forget their commit indices (`w9`). Node 1 (which stored
the write) campaigns in term 2, node 2 votes for it, node 1 becomes leader of term 2 (`w13`). -/

def w1 : Sys 3 := doTimeout (init 3) 0
def w2 : Sys 3 := doUpdateTerm w1 1 1
def w3 : Sys 3 := doGrant w2 1 0 1
def w4 : Sys 3 := doBecomeLeader w3 0 {0, 1}
def w5 : Sys 3 := doClientReq w4 0 7
def w6 : Sys 3 := doSendAE w5 0 0 2
def w7 : Sys 3 := doHandleAE w6 1 0 1 0 [⟨1, 0⟩, ⟨1, 7⟩] 0
def w8 : Sys 3 := doAdvanceCommit w7 0 2
def w9 : Sys 3 := crash Finset.univ (fun _ => 0) w8
def w10 : Sys 3 := doTimeout w9 1
def w11 : Sys 3 := doUpdateTerm w10 2 2
def w12 : Sys 3 := doGrant w11 2 1 2
def w13 : Sys 3 := doBecomeLeader w12 1 {1, 2}

local macro "wsimp" : tactic =>
  `(tactic| simp [w13, w12, w11, w10, w9, w8, w7, w6, w5, w4, w3, w2, w1, crash, init, doTimeout, doUpdateTerm, doGrant,
      doBecomeLeader, doClientReq, doSendAE, doHandleAE, doAdvanceCommit, upd, lastTerm, termAt, upToDate, follAppend,
      appendFrom])

theorem reach_w8 : Reach w8 := by
  have r1 : Reach w1 := .step .init (Step.timeout _ 0 (by simp [init]))
  have r2 : Reach w2 := .step r1 (Step.updateTerm _ 1 1 (by wsimp))
  have r3 : Reach w3 := .step r2 (Step.grant _ 1 0 1 0 0 (by wsimp) (by wsimp) (by wsimp) (by wsimp))
  have r4 : Reach w4 := .step r3 (Step.becomeLeader _ 0 {0, 1} (by decide) (by wsimp) (by
    intro j hj
    simp only [Finset.mem_insert, Finset.mem_singleton] at hj
    rcases hj with rfl | rfl
    · exact Or.inl rfl
    · right; wsimp))
  have r5 : Reach w5 := .step r4 (Step.clientReq _ 0 7 (by wsimp))
  have r6 : Reach w6 := .step r5 (Step.sendAE _ 0 0 2 (by wsimp) (by wsimp))
  have r7 : Reach w7 := .step r6 (Step.handleAE _ 1 0 1 0 0 [⟨1, 0⟩, ⟨1, 7⟩] 0 (by wsimp) (by wsimp) (by wsimp) (by wsimp))
  exact .step r7 (Step.advanceCommit _ 0 2 {0, 1} (by wsimp) (by wsimp) (by wsimp) (by decide) (by
    intro j hj
    simp only [Finset.mem_insert, Finset.mem_singleton] at hj
    rcases hj with rfl | rfl
    · exact ⟨2, Nat.le_refl _, by wsimp⟩
    · exact ⟨2, Nat.le_refl _, by wsimp⟩))

theorem cmt_w8 : w8.cmt 2 1 := by wsimp

theorem stepsR_w8_w13 : StepsR w9 w13 := by
  have s10 : StepR w9 w10 := .step (Step.timeout _ 1 (by wsimp))
  have s11 : StepR w10 w11 := .step (Step.updateTerm _ 2 2 (by wsimp))
  have s12 : StepR w11 w12 := .step (Step.grant _ 2 1 2 2 1 (by wsimp) (by wsimp) (by wsimp) (by wsimp))
  have s13 : StepR w12 w13 := .step (Step.becomeLeader _ 1 {1, 2} (by decide) (by wsimp) (by
    intro j hj
    simp only [Finset.mem_insert, Finset.mem_singleton] at hj
    rcases hj with rfl | rfl
    · exact Or.inl rfl
    · right; wsimp))
  exact .tail (.tail (.tail (.tail (.refl _) s10) s11) s12) s13

/-- non-vacuity of `acked_survives_all_restart` and of `acked_in_every_leader_after_full_crash`: there is a reachable
    state of a 3-node cluster with an acknowledged write (`cmt 2 1`, the entry is `⟨1, 7⟩`), a crash of all nodes
    after it, and a continuation in which a node is leader again; the theorems then say that this leader (term 2) holds
    the two acknowledged entries, and here one can also see it directly. -/
example : ∃ (s s' : Sys 3) (i : Fin 3), Reach s ∧ s.cmt 2 1 ∧ (s.llog 1)[1]? = some ⟨1, 7⟩ ∧
    StepsR (crash Finset.univ (fun _ => 0) s) s' ∧ (∀ j, ((crash Finset.univ (fun _ => 0) s).nodes j).commit = 0) ∧
    (s'.nodes i).role = .leader ∧ (s'.nodes i).term = 2 ∧
    (s'.nodes i).log.take 2 = [⟨1, 0⟩, ⟨1, 7⟩] :=
  ⟨w8, w13, 1, reach_w8, cmt_w8, by wsimp, stepsR_w8_w13, by intro j; simp [crash], by wsimp, by wsimp, by
    have := (acked_in_every_leader_after_full_crash (reachR_of_reach reach_w8) cmt_w8 (.refl _) _ stepsR_w8_w13 1
      (by wsimp)).2
    rw [this]; wsimp⟩

end C08
end RS

#print axioms RS.C08.restart_is_stutter
#print axioms RS.C08.acked_survives_all_restart
#print axioms RS.C08.acked_survives_all_restart_L0
#print axioms RS.C08.acked_entry_survives
#print axioms RS.C08.no_stale_leader_after_full_crash
#print axioms RS.C08.acked_in_every_leader_after_full_crash
#print axioms RS.C08.reach_w8
#print axioms RS.C08.stepsR_w8_w13
