import RedisGoModel.Exec.Serve
/-! # C03 — each command gets exactly one well-formed RESP reply, in request order

Full statement: for every command the server reads from a connection it writes exactly one complete, well-formed RESP value,
replies appear in request order (Pub/Sub pushes aside), and payload bytes inside replies are framed so that a conforming
client decodes exactly the stored bytes — for all programs, all stored byte strings, every reply-producing path of every command.

Proved: (1) `Resp.decode_encode` / `Resp.decodeList_encode` (Resp/Reply.lean): the independent RESP2 decoder inverts the reply
encoder for every reply whose simple strings and errors contain no LF — bulk payloads unrestricted, nested arrays included;
(2) below, about the connection loop `Server.handleEvents` the driver runs: the number of replies written equals the number of
array commands read before the first protocol error, they are written in request order (`replies_in_order` — the k-th reply is
the reply of the k-th command), and nothing that follows a protocol error is executed (`nothing_after_error`).
Tie to the code: the serve engine decodes the raw bytes `Manager.Handle` wrote with that same verified decoder (every byte must
be consumed) and compares value by value; the exec engine does the same for every executor's reply.
That every executor's *model* reply is `WF` is `Exec.Global.C03_exec_wf` (Props/Global.lean); the composition over BYTES — a
pipeline encoded, parsed, served, the written stream decoded by `Resp.decodeAllReplies` gives exactly one reply per command, the
k-th that of the k-th command in the state left by the first k−1 — is `Exec.C03.pipeline_replies` (Props/C03Pipeline.lean). -/
namespace Exec
open Resp (Reply Bytes)

/-- the array commands of an event list, up to the first error or end -/
def commandsOf : List Resp.Event → List (List Bytes)
| [] => []
| .eof :: _ => []
| .err :: _ => []
| .data (.arr (some vs)) :: evs => vs.map valBytes :: commandsOf evs
| .data _ :: evs => commandsOf evs

def repliesOf (ws : List Written) : List Written := ws.filter (fun w => !w.push)

theorem filter_false_nil {α} (l : List α) : l.filter (fun _ => false) = [] := by
  induction l <;> simp_all

theorem handleEvents_acc (s : Server) (env : Env) (c : Nat) (evs : List Resp.Event) (acc : List Written) :
    (s.handleEvents env c evs acc).2.1 = acc.reverse ++ (s.handleEvents env c evs []).2.1 := by
  induction evs generalizing s acc with
  | nil => simp [Server.handleEvents]
  | cons e evs ih =>
    cases e with
    | eof => simp [Server.handleEvents]
    | err => simp [Server.handleEvents]
    | data v =>
      cases v with
      | bulk b => simp only [Server.handleEvents]; exact ih s acc
      | line b => simp only [Server.handleEvents]; exact ih s acc
      | arr a =>
        cases a with
        | none => simp only [Server.handleEvents]; exact ih s acc
        | some vs =>
          simp only [Server.handleEvents]
          generalize (s.execOn env c (List.map valBytes vs)).2 = s'
          generalize (⟨false, lower ((List.map valBytes vs).headD []), (s.execOn env c (List.map valBytes vs)).1.2⟩ : Written) = x
          generalize (List.map (fun p => (⟨true, [], p⟩ : Written)) (s.execOn env c (List.map valBytes vs)).1.1).reverse = ps
          rw [ih s' (x :: ps ++ acc), ih s' (x :: ps ++ [])]
          simp [List.reverse_append]

/-- **exactly one reply per command**: as many replies as array commands before the first protocol error -/
theorem one_reply_per_command (s : Server) (env : Env) (c : Nat) (evs : List Resp.Event) :
    (repliesOf (s.handleEvents env c evs []).2.1).length = (commandsOf evs).length := by
  induction evs generalizing s with
  | nil => simp [Server.handleEvents, repliesOf, commandsOf]
  | cons e evs ih =>
    cases e with
    | eof => simp [Server.handleEvents, repliesOf, commandsOf]
    | err => simp [Server.handleEvents, repliesOf, commandsOf]
    | data v =>
      cases v with
      | bulk b => simp only [Server.handleEvents, commandsOf]; exact ih s
      | line b => simp only [Server.handleEvents, commandsOf]; exact ih s
      | arr a =>
        cases a with
        | none => simp only [Server.handleEvents, commandsOf]; exact ih s
        | some vs =>
          simp only [Server.handleEvents, commandsOf]
          rw [handleEvents_acc]
          simp only [repliesOf, List.filter_append, List.length_append, List.length_cons]
          have := ih (s.execOn env c (vs.map valBytes)).2
          simp only [repliesOf] at this
          rw [this]
          simp [List.filter_map, Function.comp_def, filter_false_nil]
          try omega

/-- **in request order**: the names of the replies are the (lower-cased) names of the commands, in the order they were read -/
theorem replies_in_order (s : Server) (env : Env) (c : Nat) (evs : List Resp.Event) :
    (repliesOf (s.handleEvents env c evs []).2.1).map (·.name) = (commandsOf evs).map (fun a => lower (a.headD [])) := by
  induction evs generalizing s with
  | nil => simp [Server.handleEvents, repliesOf, commandsOf]
  | cons e evs ih =>
    cases e with
    | eof => simp [Server.handleEvents, repliesOf, commandsOf]
    | err => simp [Server.handleEvents, repliesOf, commandsOf]
    | data v =>
      cases v with
      | bulk b => simp only [Server.handleEvents, commandsOf]; exact ih s
      | line b => simp only [Server.handleEvents, commandsOf]; exact ih s
      | arr a =>
        cases a with
        | none => simp only [Server.handleEvents, commandsOf]; exact ih s
        | some vs =>
          simp only [Server.handleEvents, commandsOf]
          rw [handleEvents_acc]
          simp only [repliesOf, List.filter_append, List.map_append, List.map_cons]
          have := ih (s.execOn env c (vs.map valBytes)).2
          simp only [repliesOf] at this
          rw [this]
          simp [List.filter_map, Function.comp_def, filter_false_nil]
          try omega

/-- **nothing after a protocol error is executed**: whatever follows the first `err` event has no effect on the server state,
    on what is written, or on the connection being closed -/
theorem nothing_after_error (s : Server) (env : Env) (c : Nat) (pre post : List Resp.Event) (acc : List Written) :
    s.handleEvents env c (pre ++ .err :: post) acc = s.handleEvents env c (pre ++ [.err]) acc := by
  induction pre generalizing s acc with
  | nil => simp [Server.handleEvents]
  | cons e pre ih =>
    cases e with
    | eof => simp [Server.handleEvents]
    | err => simp [Server.handleEvents]
    | data v =>
      cases v with
      | bulk b => simp only [List.cons_append, Server.handleEvents]; exact ih s acc
      | line b => simp only [List.cons_append, Server.handleEvents]; exact ih s acc
      | arr a =>
        cases a with
        | none => simp only [List.cons_append, Server.handleEvents]; exact ih s acc
        | some vs => simp only [List.cons_append, Server.handleEvents]; exact ih _ _

end Exec
