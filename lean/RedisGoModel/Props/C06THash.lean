import RedisGoModel.Props.C06TBase
/-! C06 table congruence: misc and hash commands -/
namespace Exec.C06T
open Resp (Reply Bytes)
open Exec

theorem c_publish : CmdOk cmdPublishNoSubs := by
  intro env a b args hs; unfold cmdPublishNoSubs; c06_cmd1 hs
theorem c_member : CmdOk cmdMemberStandalone := by
  intro env a b args hs; unfold cmdMemberStandalone; c06_pair
theorem c_rconf : CmdOk cmdRconfStandalone := by
  intro env a b args hs; unfold cmdRconfStandalone; c06_pair

theorem c_hashRead (env : Env) (a b : Db) (k : Bytes) (body : HashT → Reply) (hs : Sim env.now a b) :
    Res env.now (hashRead env a k body) (hashRead env b k body) := by
  unfold hashRead; c06_cmd1 hs

theorem c_hashWrite (env : Env) (a b : Db) (k : Bytes) (body : HashT → Reply × HashT) (hs : Sim env.now a b) :
    Res env.now (hashWrite env a k body) (hashWrite env b k body) := by
  unfold hashWrite; c06_cmd1 hs

macro "c06_hash " hs:ident : tactic => `(tactic|
  (repeat' (first | c06_pair | exact c_hashRead _ _ _ _ _ $hs | exact c_hashWrite _ _ _ _ _ $hs | split)))

theorem c_hset : CmdOk cmdHSet := by
  intro env a b args hs; unfold cmdHSet; c06_hash hs
theorem c_hsetnx : CmdOk cmdHSetNx := by
  intro env a b args hs; unfold cmdHSetNx; c06_hash hs
theorem c_hget : CmdOk cmdHGet := by
  intro env a b args hs; unfold cmdHGet; c06_hash hs
theorem c_hmget : CmdOk cmdHMGet := by
  intro env a b args hs; unfold cmdHMGet; c06_hash hs
theorem c_hgetall : CmdOk cmdHGetAll := by
  intro env a b args hs; unfold cmdHGetAll; c06_hash hs
theorem c_hkeys : CmdOk cmdHKeys := by
  intro env a b args hs; unfold cmdHKeys; c06_hash hs
theorem c_hvals : CmdOk cmdHVals := by
  intro env a b args hs; unfold cmdHVals; c06_hash hs
theorem c_hlen : CmdOk cmdHLen := by
  intro env a b args hs; unfold cmdHLen; c06_hash hs
theorem c_hexists : CmdOk cmdHExists := by
  intro env a b args hs; unfold cmdHExists; c06_hash hs
theorem c_hstrlen : CmdOk cmdHStrLen := by
  intro env a b args hs; unfold cmdHStrLen; c06_hash hs
theorem c_hdel : CmdOk cmdHDel := by
  intro env a b args hs; unfold cmdHDel; c06_hash hs
theorem c_hincrby : CmdOk cmdHIncrBy := by
  intro env a b args hs; unfold cmdHIncrBy; c06_hash hs
theorem c_hincrbyfloat : CmdOk cmdHIncrByFloat := by
  intro env a b args hs; unfold cmdHIncrByFloat; c06_hash hs
theorem c_hrandWithCount (env : Env) (a b : Db) (k c : Bytes) (wv : Bool) (hs : Sim env.now a b) :
    Res env.now (hrandWithCount env a k c wv) (hrandWithCount env b k c wv) := by
  unfold hrandWithCount; c06_hash hs
theorem c_hrandfield : CmdOk cmdHRandField := by
  intro env a b args hs; unfold cmdHRandField
  repeat' (first | c06_pair | exact c_hashRead _ _ _ _ _ hs | exact c_hrandWithCount _ _ _ _ _ _ hs | split)

end Exec.C06T
