import RedisGoModel.Props.C05Atomic
/-! # C05 / C13 — table atomicity with `CheckTTL` as its own blocks (`table_atomicity_ttl_partial`)

`Props/C05Atomic.lean` gives every command ONE block.  The Go executors run `CheckTTL(k)` BEFORE their own lock scope, as separate short
scopes: a read-locked look at the deadline and — only when it has passed — a write-locked re-check + delete (`memdb/db.go`).  Here a
command is the PROGRAM of blocks the code runs:

    look k₁ ; [reap k₁] ; look k₂ ; [reap k₂] ; … ; main block

* `lookBlock env k` — read block on `[k]`, writes nothing, continues with "expired?" (`expiredAt (entry under k) env.now`);
* `reapBlock env k` — write block on `[k]`: re-checks the deadline and deletes the entry if it has passed (the key may have been rewritten
  between the look and the reap: then nothing happens) — on a keyspace this is exactly the model's `checkTTL` (`reap_adequate`);
* the main block is `Exec.cmdBlock env args` of `C05Atomic` (the executor's own lock scope; `cmdBlock_adequate`).

The keys `CheckTTL` is called on are a PARAMETER `tk : Env → List Bytes → List Bytes` of the whole development: the theorem holds for
every choice (the code's choice — the plan keys, none for DEL / MSET / SETEX, the source only for RENAME, see `Exec/LockSeq.lean` — is
one instance, `tkPlan` is the plan keys; with `tk := fun _ _ => []` every block is a main block: the one-block model of `C05Atomic`).  Blocks of different clients interleave freely at
micro-step granularity (`Cc.Step`: lock acquisitions, reads and writes one key at a time); which block comes next in a client depends on
what the previous one read — the generalised `Cc` of `Conc/Conc.lean`.

**`table_atomicity_ttl_partial`.**  Any number of clients, any lists of commands other than KEYS, any `tk`, every micro-step execution
that ends with every client between blocks (possibly in the middle of a command), `tr` = the commit order of the BLOCKS.  If the clock
readings of the blocks that can write (reap and main blocks; a command has ONE reading, `env.now`) do not decrease in commit order
(`ClockOkT`), then the execution is EQUIVALENT to the sequential execution of the COMMANDS through `Exec.exec` itself, in the order of
their main blocks' commit points (`mainOrder`), where equivalent means:
 1. every client is left with the same remaining commands and has received the same replies, in the same order;
 2. the final keyspace is the lookup function of a keyspace with unique keys that has the same live view (`C06T.LiveEq`, at the last
    clock reading) as the final keyspace of the sequential run.
Why: a look writes nothing; a reap is `checkTTL`, the identity on the live view at its clock reading (`C06.checkTTL_live`) — so it
commutes with every other block on the live view as long as no later block reads an EARLIER clock; a main block is the command
(`cmdBlock_adequate`) and commands respect the live view (`C06T.c06_congruence`).  `clock_hypothesis_needed_example` records the
interleaving that makes the clock hypothesis necessary (a client with a stale reading commits its main block after another client's
reap).

Still `_partial`: KEYS excluded; DEL / EXISTS / MGET / BLPOP / BRPOP keep ONE main block over the union of their keys (stronger than the
code); the main block of an executor that returns at once on an expired `CheckTTL` (`stopOnExpired`) is still executed (it then finds the
key missing and answers what the early return answers); `zrange` / `zrank` / `xrange` get a read block; one clock reading per command
(Go reads `time.Now()` in each `CheckTTL`); the Go memory model, scheduler and `sync.RWMutex` are modelled, not verified. -/
namespace Exec
open Resp (Reply Bytes)

/-! ### the two blocks of `CheckTTL` -/

/-- the deadline of the entry has passed -/
def expiredAt (o : Option Entry) (now : Int) : Bool :=
  match o with
  | some e => (match e.exp with | some d => decide (d ≤ now) | none => false)
  | none => false

theorem checkTTL_eq (db : Db) (now : Int) (k : Bytes) :
    (checkTTL db now k).1 = if expiredAt (db.get k) now then db.del k else db := by
  unfold checkTTL expiredAt
  cases hg : db.get k with
  | none => simp
  | some e =>
    cases hx : e.exp with
    | none => simp [hx]
    | some d => by_cases h : d ≤ now <;> simp [hx, h]

/-- `CheckTTL`'s look: `RLock(k)`, read the deadline, `RUnLock(k)` -/
def lookBlock {P : Type} (env : Env) (k : Bytes) (cont : Bool → P) : Cc.Block Bytes (Option Entry) P where
  mode := .R
  keys := [k]
  body := fun _ => []
  next := fun s => cont (expiredAt (s k) env.now)

/-- `CheckTTL`'s reap: `Lock(k)`, look again, delete if the deadline has (still) passed, `UnLock(k)` -/
def reapBlock {P : Type} (env : Env) (k : Bytes) (cont : P) : Cc.Block Bytes (Option Entry) P where
  mode := .W
  keys := [k]
  body := fun s => if expiredAt (s k) env.now then [(k, none)] else []
  next := fun _ => cont

theorem lookBlock_wf {P : Type} (env : Env) (k : Bytes) (cont : Bool → P) : (lookBlock env k cont).WF := by
  constructor
  · intro s s' h
    have e : s k = s' k := h k List.mem_cons_self
    simp only [lookBlock, e, and_self]
  · intro s kv hkv
    simp only [lookBlock] at hkv
    cases hkv

theorem reapBlock_wf {P : Type} (env : Env) (k : Bytes) (cont : P) : (reapBlock env k cont).WF := by
  constructor
  · intro s s' h
    have e : s k = s' k := h k List.mem_cons_self
    simp only [reapBlock, e, and_self]
  · intro s kv hkv
    simp only [reapBlock] at hkv ⊢
    split at hkv
    · rw [List.mem_singleton.mp hkv]; exact ⟨List.mem_cons_self, trivial⟩
    · cases hkv

/-- executed atomically on the lookup function of a keyspace, the reap is the model's `checkTTL` -/
theorem reap_adequate {P : Type} (env : Env) (k : Bytes) (cont : P) (db : Db) :
    Cc.applyWrites db.get ((reapBlock env k cont).body db.get) = (checkTTL db env.now k).1.get := by
  rw [checkTTL_eq]
  funext k'
  simp only [reapBlock, Cc.applyWrites]
  cases hx : expiredAt (db.get k) env.now with
  | false => simp [Cc.pendVal]
  | true =>
    simp only [if_true, Cc.pendVal]
    by_cases hk : k = k'
    · subst hk; simp [Db.get_del_same]
    · have hk' : k' ≠ k := fun e => hk e.symm
      simp [hk, Db.get_del_other _ hk']

theorem look_adequate {P : Type} (env : Env) (k : Bytes) (cont : Bool → P) (db : Db) :
    Cc.applyWrites db.get ((lookBlock env k cont).body db.get) = db.get := by
  funext k'; simp [lookBlock, Cc.applyWrites, Cc.pendVal]

/-! ### clients whose commands are programs of blocks -/

/-- where a client is inside its current command: before the look at the head of `ks` (before the main block when `ks = []`), or before
    the reap of `k` -/
inductive Stage
| look (ks : List Bytes)
| reap (k : Bytes) (ks : List Bytes)

structure ClientT where
  todo : List (Env × List Bytes)
  /-- `none`: the head command has not begun -/
  stage : Option Stage
  replies : List Reply

/-- the command-level client: what is left to run and what has been answered -/
def ClientT.toClient (c : ClientT) : Client := ⟨c.todo, c.replies⟩

section
variable (tk : Env → List Bytes → List Bytes)

def ClientT.stageOf (c : ClientT) (env : Env) (args : List Bytes) : Stage := c.stage.getD (.look (tk env args))

/-- the next block of a client -/
def viewT (c : ClientT) : Option (Cc.Block Bytes (Option Entry) ClientT) :=
  match c.todo with
  | [] => none
  | (env, args) :: rest =>
    match c.stageOf tk env args with
    | .look [] => some (cmdBlock env args fun r => ⟨rest, none, c.replies ++ [r]⟩)
    | .look (k :: ks) => some (lookBlock env k fun ex => ⟨c.todo, some (if ex then .reap k ks else .look ks), c.replies⟩)
    | .reap k ks => some (reapBlock env k ⟨c.todo, some (.look ks), c.replies⟩)

theorem viewT_closed : Cc.Closed (viewT tk) (fun _ => True) := by
  intro p b _ hv
  unfold viewT at hv
  split at hv
  · cases hv
  · split at hv
    · cases hv; exact ⟨cmdBlock_wf _ _ _, fun _ => trivial⟩
    · cases hv; exact ⟨lookBlock_wf _ _ _, fun _ => trivial⟩
    · cases hv; exact ⟨reapBlock_wf _ _ _, fun _ => trivial⟩

/-- the block-level sequential semantics on a keyspace: blocks executed whole, one at a time -/
structure SeqT (n : Nat) where
  db : Db
  cl : Fin n → ClientT

/-- client `i` runs its next BLOCK -/
def blockStep {n : Nat} (s : SeqT n) (i : Fin n) : SeqT n :=
  match (s.cl i).todo with
  | [] => s
  | (env, args) :: rest =>
    match (s.cl i).stageOf tk env args with
    | .look [] => ⟨(execB env s.db args).2, Cc.setT s.cl i ⟨rest, none, (s.cl i).replies ++ [(execB env s.db args).1]⟩⟩
    | .look (k :: ks) =>
      ⟨s.db, Cc.setT s.cl i ⟨(s.cl i).todo, some (if expiredAt (s.db.get k) env.now then .reap k ks else .look ks), (s.cl i).replies⟩⟩
    | .reap k ks => ⟨(checkTTL s.db env.now k).1, Cc.setT s.cl i ⟨(s.cl i).todo, some (.look ks), (s.cl i).replies⟩⟩

def blockRun {n : Nat} : SeqT n → List (Fin n) → SeqT n
| s, [] => s
| s, i :: tr => blockRun (blockStep tk s i) tr

/-- is the next block of the client the main block of a command? -/
def isMain (c : ClientT) : Bool :=
  match c.todo with
  | [] => false
  | (env, args) :: _ => match c.stageOf tk env args with | .look [] => true | _ => false

/-- **the order of the main blocks' commit points**: the clients of `tr` whose block at that point is a main block -/
def mainOrder {n : Nat} : SeqT n → List (Fin n) → List (Fin n)
| _, [] => []
| s, i :: tr => (if isMain tk (s.cl i) then [i] else []) ++ mainOrder (blockStep tk s i) tr

/-- the clock readings of the blocks that can write (reap, main) never go back along `tr` (starting from `t`) -/
def ClockOkT {n : Nat} : Int → SeqT n → List (Fin n) → Prop
| _, _, [] => True
| t, s, i :: tr =>
  match (s.cl i).todo with
  | [] => ClockOkT t s tr
  | (env, args) :: _ =>
    match (s.cl i).stageOf tk env args with
    | .look (_ :: _) => ClockOkT t (blockStep tk s i) tr
    | _ => t ≤ env.now ∧ ClockOkT env.now (blockStep tk s i) tr

/-- no client runs KEYS -/
def NoWholeT {n : Nat} (cl : Fin n → ClientT) : Prop := ∀ i, ∀ ea ∈ (cl i).todo, footprint ea.2 ≠ .whole

theorem NoWholeT.set {n : Nat} {cl : Fin n → ClientT} (h : NoWholeT cl) (i : Fin n) (c : ClientT)
    (hc : ∀ ea ∈ c.todo, ea ∈ (cl i).todo) : NoWholeT (Cc.setT cl i c) := by
  intro j ea hea
  by_cases hj : j = i
  · subst hj
    rw [Cc.setT_same] at hea
    exact h j ea (hc ea hea)
  · rw [Cc.setT_other _ _ hj] at hea
    exact h j ea hea

theorem blockStep_noWhole {n : Nat} (s : SeqT n) (hn : NoWholeT s.cl) (i : Fin n) : NoWholeT (blockStep tk s i).cl := by
  unfold blockStep
  split
  · exact hn
  · rename_i env args rest ht
    split
    · exact hn.set i _ fun ea hea => by rw [ht]; exact List.mem_cons_of_mem _ hea
    · exact hn.set i _ fun ea hea => hea
    · exact hn.set i _ fun ea hea => hea

/-- one atomic block step of the generic model = one `blockStep` on the keyspace -/
theorem absStep_block {n : Nat} (s : SeqT n) (hn : NoWholeT s.cl) (i : Fin n) :
    Cc.absStep (viewT tk) ⟨s.db.get, s.cl⟩ (some i) = ⟨(blockStep tk s i).db.get, (blockStep tk s i).cl⟩ := by
  cases ht : (s.cl i).todo with
  | nil =>
    have e1 : blockStep tk s i = s := by unfold blockStep; rw [ht]
    have e2 : viewT tk (s.cl i) = none := by unfold viewT; rw [ht]
    rw [e1]; simp only [Cc.absStep, e2]
  | cons ea rest =>
    obtain ⟨env, args⟩ := ea
    have hw : footprint args ≠ .whole := hn i (env, args) (by rw [ht]; exact List.mem_cons_self)
    cases hst : (s.cl i).stageOf tk env args with
    | look ks =>
      cases ks with
      | nil =>
        obtain ⟨h1, h2⟩ := cmdBlock_adequate env args (fun r => (⟨rest, none, (s.cl i).replies ++ [r]⟩ : ClientT)) s.db hw
        have e1 : blockStep tk s i = ⟨(execB env s.db args).2, Cc.setT s.cl i ⟨rest, none, (s.cl i).replies ++ [(execB env s.db args).1]⟩⟩ := by
          unfold blockStep; rw [ht]; simp only [hst]
        have e2 : viewT tk (s.cl i) = some (cmdBlock env args fun r => ⟨rest, none, (s.cl i).replies ++ [r]⟩) := by
          unfold viewT; rw [ht]; simp only [hst]
        rw [e1]
        simp only [Cc.absStep, e2, h1, h2]
        rfl
      | cons k ks =>
        have e1 : blockStep tk s i = ⟨s.db, Cc.setT s.cl i
            ⟨(s.cl i).todo, some (if expiredAt (s.db.get k) env.now then .reap k ks else .look ks), (s.cl i).replies⟩⟩ := by
          unfold blockStep; rw [ht]; simp only [hst]
        have e2 : viewT tk (s.cl i) = some (lookBlock env k fun ex =>
            ⟨(s.cl i).todo, some (if ex then .reap k ks else .look ks), (s.cl i).replies⟩) := by
          unfold viewT; rw [ht]; simp only [hst]
        rw [e1]
        simp only [Cc.absStep, e2, look_adequate]
        rfl
    | reap k ks =>
      have e1 : blockStep tk s i = ⟨(checkTTL s.db env.now k).1, Cc.setT s.cl i ⟨(s.cl i).todo, some (.look ks), (s.cl i).replies⟩⟩ := by
        unfold blockStep; rw [ht]; simp only [hst]
      have e2 : viewT tk (s.cl i) = some (reapBlock env k ⟨(s.cl i).todo, some (.look ks), (s.cl i).replies⟩) := by
        unfold viewT; rw [ht]; simp only [hst]
      rw [e1]
      simp only [Cc.absStep, e2, reap_adequate]
      rfl

theorem absRun_block {n : Nat} : ∀ (tr : List (Fin n)) (s : SeqT n), NoWholeT s.cl →
    Cc.absRun (viewT tk) ⟨s.db.get, s.cl⟩ tr = ⟨(blockRun tk s tr).db.get, (blockRun tk s tr).cl⟩
| [], _, _ => rfl
| i :: tr, s, hn => by
  unfold Cc.absRun blockRun
  rw [absStep_block tk s hn i]
  exact absRun_block tr _ (blockStep_noWhole tk s hn i)


/-! ### from blocks to commands -/

theorem toClient_setT {n : Nat} {cl : Fin n → ClientT} {cl' : Fin n → Client} (hc : ∀ j, (cl j).toClient = cl' j) (i : Fin n)
    {c : ClientT} {c' : Client} (h : c.toClient = c') : ∀ j, (Cc.setT cl i c j).toClient = Cc.setT cl' i c' j := by
  intro j
  by_cases hj : j = i
  · subst hj; rw [Cc.setT_same, Cc.setT_same]; exact h
  · rw [Cc.setT_other _ _ hj, Cc.setT_other _ _ hj]; exact hc j

theorem toClient_setT_same {n : Nat} {cl : Fin n → ClientT} {cl' : Fin n → Client} (hc : ∀ j, (cl j).toClient = cl' j) (i : Fin n)
    {c : ClientT} (h : c.toClient = (cl i).toClient) : ∀ j, (Cc.setT cl i c j).toClient = cl' j := by
  intro j
  by_cases hj : j = i
  · subst hj; rw [Cc.setT_same, h]; exact hc j
  · rw [Cc.setT_other _ _ hj]; exact hc j

/-- the block-level run on a keyspace and the COMMAND-level run through `Exec.exec` in the order of the main blocks stay related: same
    command-level clients, both keyspaces with unique keys, same live view at the current clock -/
theorem blockRun_cmd {n : Nat} : ∀ (tr : List (Fin n)) (t : Int) (s : SeqT n) (s' : Seq n),
    (∀ j, (s.cl j).toClient = s'.cl j) → NoWholeT s.cl → s.db.WF → s'.db.WF → C06T.LiveEq t s.db s'.db → ClockOkT tk t s tr →
    (∀ j, ((blockRun tk s tr).cl j).toClient = (seqRunWith (fun env db args => exec env db args) s' (mainOrder tk s tr)).cl j) ∧
    (blockRun tk s tr).db.WF ∧
    ∃ t', C06T.LiveEq t' (blockRun tk s tr).db (seqRunWith (fun env db args => exec env db args) s' (mainOrder tk s tr)).db
| [], t, _, _, hc, _, hw, _, hl, _ => ⟨hc, hw, t, hl⟩
| i :: tr, t, s, s', hc, hn, hw, hw', hl, hck => by
  unfold blockRun mainOrder
  unfold ClockOkT at hck
  cases ht : (s.cl i).todo with
  | nil =>
    have e1 : blockStep tk s i = s := by unfold blockStep; rw [ht]
    have e2 : isMain tk (s.cl i) = false := by unfold isMain; rw [ht]
    rw [ht] at hck
    rw [e1, e2]
    exact blockRun_cmd tr t s s' hc hn hw hw' hl hck
  | cons ea rest =>
    obtain ⟨env, args⟩ := ea
    rw [ht] at hck
    have hn' := blockStep_noWhole tk s hn i
    cases hst : (s.cl i).stageOf tk env args with
    | look ks =>
      cases ks with
      | nil =>
        -- the main block: one command of the sequential run
        simp only [hst] at hck
        obtain ⟨hle, hck'⟩ := hck
        have e1 : blockStep tk s i = ⟨(execB env s.db args).2, Cc.setT s.cl i ⟨rest, none, (s.cl i).replies ++ [(execB env s.db args).1]⟩⟩ := by
          unfold blockStep; rw [ht]; simp only [hst]
        have e2 : isMain tk (s.cl i) = true := by unfold isMain; rw [ht]; simp only [hst]
        have ht' : (s'.cl i).todo = (env, args) :: rest := by rw [← hc i]; exact ht
        have hr' : (s'.cl i).replies = (s.cl i).replies := by rw [← hc i]; rfl
        have e3 : seqStepWith (fun env db args => exec env db args) s' i =
            ⟨(exec env s'.db args).2, Cc.setT s'.cl i ⟨rest, (s'.cl i).replies ++ [(exec env s'.db args).1]⟩⟩ := by
          unfold seqStepWith; rw [ht']
        have hnw : footprint args ≠ .whole := hn i (env, args) (by rw [ht]; exact List.mem_cons_self)
        have hl' : C06T.LiveEq env.now s.db s'.db := C06T.LiveEq.mono hw hw' hle hl
        have hcong := C06T.c06_congruence env s.db s'.db args hw hw' hl'
        have hcong' := C06T.c06_congruence env s'.db s'.db args hw' hw' (C06T.LiveEq.refl _ _)
        rw [e1] at hck' hn'
        rw [e1, e2]
        simp only [if_true, List.singleton_append]
        unfold seqRunWith
        rw [e3]
        refine blockRun_cmd tr env.now _ _ ?_ hn' (execB_wf env s.db args hw) hcong'.2.2 ?_ hck'
        · refine toClient_setT hc i ?_
          show (⟨rest, (s.cl i).replies ++ [(execB env s.db args).1]⟩ : Client) = _
          rw [execB_reply, hcong.1, hr']
        · exact C06T.LiveEq.trans (execB_liveEq env s.db args hw hnw) hcong.2.1
      | cons k ks =>
        -- a look: nothing is written, no command completes
        simp only [hst] at hck
        have e1 : blockStep tk s i = ⟨s.db, Cc.setT s.cl i
            ⟨(s.cl i).todo, some (if expiredAt (s.db.get k) env.now then .reap k ks else .look ks), (s.cl i).replies⟩⟩ := by
          unfold blockStep; rw [ht]; simp only [hst]
        have e2 : isMain tk (s.cl i) = false := by unfold isMain; rw [ht]; simp only [hst]
        rw [e1] at hck hn'
        rw [e1, e2]
        exact blockRun_cmd tr t _ s' (toClient_setT_same hc i rfl) hn' hw hw' hl hck
    | reap k ks =>
      -- a reap: `checkTTL`, the identity on the live view at its clock reading
      simp only [hst] at hck
      obtain ⟨hle, hck'⟩ := hck
      have e1 : blockStep tk s i = ⟨(checkTTL s.db env.now k).1, Cc.setT s.cl i ⟨(s.cl i).todo, some (.look ks), (s.cl i).replies⟩⟩ := by
        unfold blockStep; rw [ht]; simp only [hst]
      have e2 : isMain tk (s.cl i) = false := by unfold isMain; rw [ht]; simp only [hst]
      have hl' : C06T.LiveEq env.now s.db s'.db := C06T.LiveEq.mono hw hw' hle hl
      rw [e1] at hck' hn'
      rw [e1, e2]
      refine blockRun_cmd tr env.now _ s' (toClient_setT_same hc i rfl) hn' (checkTTL_wf s.db hw env.now k) hw' ?_ hck'
      exact C06T.LiveEq.trans (fun k' => checkTTL_live s.db hw env.now k k') hl'

/-- a client that starts with its commands ahead -/
def Client.toT (c : Client) : ClientT := ⟨c.todo, none, c.replies⟩

/-- **atomicity of the command table with `CheckTTL` as its own blocks**: see the file header.  `tr` is the commit order of the BLOCKS
    of a micro-step execution from the keyspace `db₀` that ends with every client between blocks; `q i` is what client `i` is left with. -/
theorem table_atomicity_ttl_partial {n : Nat} (db₀ : Db) (hw : db₀.WF) (cl : Fin n → Client)
    (hn : ∀ i, ∀ ea ∈ (cl i).todo, footprint ea.2 ≠ .whole)
    {c' : Cc.Conc Bytes (Option Entry) ClientT n} {tr : List (Fin n)}
    (e : Cc.Exec (viewT tk) ⟨db₀.get, fun i => .idle (cl i).toT⟩ tr c') (q : Fin n → ClientT) (hq : ∀ i, c'.th i = .idle (q i))
    (t : Int) (hck : ClockOkT tk t ⟨db₀, fun i => (cl i).toT⟩ tr) :
    let order := mainOrder tk ⟨db₀, fun i => (cl i).toT⟩ tr
    let seq := seqRunWith (fun env db args => exec env db args) ⟨db₀, cl⟩ order
    (∀ i, (q i).toClient = seq.cl i) ∧ ∃ db' t', db'.WF ∧ c'.db = db'.get ∧ C06T.LiveEq t' db' seq.db := by
  intro order seq
  have hnT : NoWholeT (fun i => (cl i).toT) := hn
  obtain ⟨h1, h2⟩ := Cc.atomicity (viewT_closed tk) db₀.get (fun i => (cl i).toT) (fun _ => trivial) e q hq
  rw [absRun_block tk tr ⟨db₀, fun i => (cl i).toT⟩ hnT] at h1 h2
  obtain ⟨h3, h4, t', h5⟩ := blockRun_cmd tk tr t ⟨db₀, fun i => (cl i).toT⟩ ⟨db₀, cl⟩ (fun _ => rfl) hnT hw hw
    (C06T.LiveEq.refl _ _) hck
  refine ⟨fun i => ?_, _, t', h4, h1.symm, h5⟩
  rw [← h2]; exact h3 i

end

/-! ### instances, satisfiability, and why the clock hypothesis is there -/

/-- `CheckTTL` on every key of the footprint (the code's choice for the single-key executors, MGET / EXISTS, the set algebra, LMOVE,
    SMOVE, BLPOP; a superset for RENAME; DEL / MSET / SETEX call it on no key) -/
def tkPlan : Env → List Bytes → List Bytes := fun _ args => footKeys (footprint args)

/-- key `k` = "k" holds "v" with deadline 10 -/
def exTtlDb : Db := [([107], { val := .str [118], exp := some 10 })]

/-- client 0 runs `GET k` with clock reading 10 (the deadline has passed), client 1 runs `GET k` with the STALE reading 9 -/
def exTtlClients : Fin 2 → Client := fun i =>
  if i = 0 then ⟨[({ now := 10 }, [ofStr "GET", [107]])], []⟩ else ⟨[({ now := 9 }, [ofStr "GET", [107]])], []⟩

def exTtlStart : SeqT 2 := ⟨exTtlDb, fun i => (exTtlClients i).toT⟩

/-- block order: client 0 looks and reaps, client 1 looks and runs its main block, client 0 runs its main block -/
def exTtlTrace : List (Fin 2) := [0, 0, 1, 1, 0]

example : exTtlDb.WF := by unfold Db.WF; decide
example : ∀ i, ∀ ea ∈ (exTtlClients i).todo, footprint ea.2 ≠ .whole := by
  have h : footprint [ofStr "GET", [107]] = .keys [[107]] false := by decide +kernel
  intro i ea hea
  by_cases hi : i = 0
  · subst hi
    simp only [exTtlClients, if_true, List.mem_cons, List.mem_nil_iff, or_false] at hea
    subst hea; dsimp only; rw [h]; exact fun h => nomatch h
  · simp only [exTtlClients, hi, if_false, List.mem_cons, List.mem_nil_iff, or_false] at hea
    subst hea; dsimp only; rw [h]; exact fun h => nomatch h

/-- the main blocks commit in the order client 1, client 0 -/
example : mainOrder tkPlan exTtlStart exTtlTrace = [1, 0] := by decide +kernel

/-- **why `ClockOkT` is a hypothesis**: in this block order client 0's reap (reading 10) deletes `k` before client 1's main block
    (reading 9) commits: client 1 is answered nil.  In the sequential run of the commands in main-block order client 1 (reading 9, the
    deadline 10 not yet reached) is answered "v".  The clock readings go back (10, then 9) — excluded by `ClockOkT`. -/
theorem clock_hypothesis_needed_example :
    (((blockRun tkPlan exTtlStart exTtlTrace).cl 1).replies.map Resp.encode = [Resp.encode nil]) ∧
    (((seqRunWith (fun env db args => exec env db args) ⟨exTtlDb, exTtlClients⟩ (mainOrder tkPlan exTtlStart exTtlTrace)).cl 1).replies.map
        Resp.encode = [Resp.encode (bulk [118])]) := by
  constructor <;> decide +kernel

/-- the same two commands with equal clock readings (both 10): the hypothesis holds for that block order -/
def exTtlClientsOk : Fin 2 → Client := fun _ => ⟨[({ now := 10 }, [ofStr "GET", [107]])], []⟩

/-- `ClockOkT` as a computation -/
def clockOkTB (tk : Env → List Bytes → List Bytes) {n : Nat} : Int → SeqT n → List (Fin n) → Bool
| _, _, [] => true
| t, s, i :: tr =>
  match (s.cl i).todo with
  | [] => clockOkTB tk t s tr
  | (env, args) :: _ =>
    match (s.cl i).stageOf tk env args with
    | .look (_ :: _) => clockOkTB tk t (blockStep tk s i) tr
    | _ => decide (t ≤ env.now) && clockOkTB tk env.now (blockStep tk s i) tr

theorem clockOkTB_sound (tk : Env → List Bytes → List Bytes) {n : Nat} : ∀ (tr : List (Fin n)) (t : Int) (s : SeqT n),
    clockOkTB tk t s tr = true → ClockOkT tk t s tr
| [], _, _, _ => trivial
| i :: tr, t, s, h => by
  unfold clockOkTB at h
  unfold ClockOkT
  split
  · rename_i ht
    rw [ht] at h
    exact clockOkTB_sound tk tr t s h
  · rename_i env args rest ht
    rw [ht] at h
    dsimp only at h ⊢
    split
    · rename_i k ks hst
      simp only [hst] at h
      exact clockOkTB_sound tk tr t _ h
    · rename_i hst
      split at h
      · rename_i k ks hst'
        exact absurd hst' (hst k ks)
      · simp only [Bool.and_eq_true, decide_eq_true_eq] at h
        exact ⟨h.1, clockOkTB_sound tk tr _ _ h.2⟩

example : ClockOkT tkPlan 0 ⟨exTtlDb, fun i => (exTtlClientsOk i).toT⟩ exTtlTrace :=
  clockOkTB_sound tkPlan _ _ _ (by decide +kernel)

/-- … and with the stale reading it fails -/
example : clockOkTB tkPlan 0 exTtlStart exTtlTrace = false := by decide +kernel

/-- the execution hypothesis is inhabited for every start (the empty execution; every `Cc.Step` extends it) -/
example : let c₀ : Cc.Conc Bytes (Option Entry) ClientT 2 := ⟨Db.get exTtlDb, fun i => .idle (exTtlClients i).toT⟩
    Cc.Exec (viewT tkPlan) c₀ [] c₀ := Cc.Exec.refl _

end Exec

#print axioms Exec.reap_adequate
#print axioms Exec.absRun_block
#print axioms Exec.blockRun_cmd
#print axioms Exec.table_atomicity_ttl_partial
#print axioms Exec.clock_hypothesis_needed_example
