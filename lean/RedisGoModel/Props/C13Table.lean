import RedisGoModel.Exec.LockSeq
import RedisGoModel.Conc.Deadlock
import RedisGoModel.Ds.SetOps
/-! # C13 (and C05) — deadlock freedom of the real command table

`Exec/LockSeq.lean` derives from `Exec.lockPlan` the lock program of every call — all sequences of lock scopes (blocks) the Go executor
can produce, with the acquisition order inside each block, for an arbitrary stripe function.  Here:

* `accepts_iff_mem_runs` — the matcher the driver runs on every traced command decides membership in `LProg.runs` (so "the observed lock
  scopes are a block sequence of the model's program" is exactly what the tie checks); `main_mem_runs`.
* `lockProg_ok` / **`lockSeq_ascending`** — table-wide (every command name, every argument vector, every environment, every bound on the
  BLPOP rounds) and for EVERY stripe function, colliding keys and repeated keys included: every block of every run of the program is
  non-empty, strictly ascending and duplicate-free.  Multi-key blocks through `SetOps.lockPoses_spec` (`sortedLockPoses`); all other blocks
  hold one stripe.  `lockSeq_blocks_ascending`: the same for the blocks of `Exec.lockSeq`.
* `DL.step_ok` / `DL.reach_ok` — `DL.ThreadOk` (the hypothesis of `DL.progress`) is an invariant of `DL.Step`.
* **`lockProg_within`** (+ `lockProg_stripes_within`, `lockProg_write_scopes`, `lockProg_none`) — table-wide: every stripe in any run of
  `lockProg stripe env args rounds` is `stripe k` for a key `k` of `Exec.lockPlan env args` (the keys `CheckTTL` is called on are plan
  keys), and a write scope occurs only where the plan says write, for the write-locking readers `zrange` / `zrank` / `xrange`, or as
  `CheckTTL`'s reap directly behind its read look at the same single stripe (`Within`).  The hard-wired write scopes of DEL, MSET, SETEX,
  RENAME, LMOVE, SMOVE, S*STORE, BLPOP/BRPOP are justified by `table_hardWrite`: their rows of `footTable` have write footprints.
* **`table_deadlock_free`** — any number `n` of clients, each running any list of commands (KEYS included: `CmdRun` lets it take any
  sequence of single-stripe blocks), each command acquiring its stripes block after block as one of the runs of its lock program (the
  choice may depend on the keyspace and on the other clients — it is universally quantified) and releasing everything before its
  next block, under any stripe function: from every state reachable from the start in which some client has not finished, some client
  can take a step (`DL.Step`: start a block, acquire its next stripe, release).  Locks are Go `sync.RWMutex` as modelled in
  `Conc/Deadlock.lean` (a waiting writer blocks new readers).  No hypothesis.

What the statement is about, and what it is not (recorded under `partial` in the registry):
the stripe locks of `memdb/dblock.go` only.  The shard `RWMutex`es inside `ConcurrentMap` are taken and released within one map access
while stripe locks are held and never while waiting for a stripe, so they cannot close a cycle — this is an argument, not part of the
model; the scheduler (some ENABLED step exists; that it is eventually taken is fairness of the Go runtime) and `sync.RWMutex` itself are
modelled, not verified.  That the executors really acquire as `lockProg` says is the tie: `Driver.checkLockOrder` on every traced command. -/
namespace Exec
open Resp (Reply Bytes)

/-! ### the matcher decides membership in `runs` -/

theorem LProg.rem_spec : ∀ (p : LProg) (l r : List LBlock), r ∈ p.rem l ↔ ∃ x ∈ p.runs, l = x ++ r
| .eps, l, r => by simp [LProg.rem, LProg.runs, eq_comm]
| .blk w ps, [], r => by simp [LProg.rem, LProg.runs]
| .blk w ps, b :: t, r => by
  unfold LProg.rem LProg.runs
  by_cases h : b = (w, ps)
  · subst h; simp [eq_comm]
  · have : (b == (w, ps)) = false := by simpa using h
    simp only [this]
    simp only [Bool.false_eq_true, if_false, List.not_mem_nil, List.mem_singleton, exists_eq_left, List.cons_append, List.nil_append,
      List.cons.injEq, false_iff, not_and]
    intro e; exact absurd e h
| .alt a b, l, r => by
  unfold LProg.rem LProg.runs
  rw [List.mem_append, LProg.rem_spec a, LProg.rem_spec b]
  constructor
  · rintro (⟨x, hx, e⟩ | ⟨x, hx, e⟩)
    · exact ⟨x, List.mem_append_left _ hx, e⟩
    · exact ⟨x, List.mem_append_right _ hx, e⟩
  · rintro ⟨x, hx, e⟩
    rcases List.mem_append.mp hx with hx | hx
    · exact Or.inl ⟨x, hx, e⟩
    · exact Or.inr ⟨x, hx, e⟩
| .seq a b, l, r => by
  unfold LProg.rem LProg.runs
  simp only [List.mem_flatMap, List.mem_map]
  constructor
  · rintro ⟨m, hm, hr⟩
    obtain ⟨x, hx, e1⟩ := (LProg.rem_spec a l m).mp hm
    obtain ⟨y, hy, e2⟩ := (LProg.rem_spec b m r).mp hr
    exact ⟨x ++ y, ⟨x, hx, y, hy, rfl⟩, by rw [e1, e2, List.append_assoc]⟩
  · rintro ⟨z, ⟨x, hx, y, hy, rfl⟩, e⟩
    refine ⟨y ++ r, (LProg.rem_spec a l (y ++ r)).mpr ⟨x, hx, by rw [e, List.append_assoc]⟩, ?_⟩
    exact (LProg.rem_spec b (y ++ r) r).mpr ⟨y, hy, rfl⟩

/-- **the driver's matcher is exact**: it accepts `l` iff `l` is one of the program's block sequences -/
theorem accepts_iff_mem_runs (p : LProg) (l : List LBlock) : p.accepts l = true ↔ l ∈ p.runs := by
  unfold LProg.accepts
  rw [List.any_eq_true]
  constructor
  · rintro ⟨r, hr, he⟩
    obtain ⟨x, hx, e⟩ := (LProg.rem_spec p l r).mp hr
    have : r = [] := by simpa using he
    subst this
    rw [List.append_nil] at e
    exact e ▸ hx
  · intro h
    exact ⟨[], (LProg.rem_spec p l []).mpr ⟨l, h, by simp⟩, rfl⟩

theorem main_mem_runs : ∀ (p : LProg), p.main ∈ p.runs
| .eps => by simp [LProg.main, LProg.runs]
| .blk _ _ => by simp [LProg.main, LProg.runs]
| .alt a _ => by unfold LProg.main LProg.runs; exact List.mem_append_left _ (main_mem_runs a)
| .seq a b => by
  unfold LProg.main LProg.runs
  exact List.mem_flatMap.mpr ⟨a.main, main_mem_runs a, List.mem_map.mpr ⟨b.main, main_mem_runs b, rfl⟩⟩

/-! ### every block is non-empty and strictly ascending -/

def BlockOk (b : LBlock) : Prop := b.2 ≠ [] ∧ b.2.Pairwise (· < ·)

def LProg.Ok : LProg → Prop
| .eps => True
| .blk _ ps => ps ≠ [] ∧ ps.Pairwise (· < ·)
| .alt a b => a.Ok ∧ b.Ok
| .seq a b => a.Ok ∧ b.Ok

theorem runs_ok : ∀ (p : LProg), p.Ok → ∀ run ∈ p.runs, ∀ b ∈ run, BlockOk b
| .eps, _, run, hr, b, hb => by simp [LProg.runs] at hr; subst hr; cases hb
| .blk w ps, h, run, hr, b, hb => by
  simp [LProg.runs] at hr; subst hr
  simp at hb; subst hb; exact h
| .alt a c, h, run, hr, b, hb => by
  unfold LProg.runs at hr
  rcases List.mem_append.mp hr with hr | hr
  · exact runs_ok a h.1 run hr b hb
  · exact runs_ok c h.2 run hr b hb
| .seq a c, h, run, hr, b, hb => by
  unfold LProg.runs at hr
  obtain ⟨x, hx, hr⟩ := List.mem_flatMap.mp hr
  obtain ⟨y, hy, rfl⟩ := List.mem_map.mp hr
  rcases List.mem_append.mp hb with hb | hb
  · exact runs_ok a h.1 x hx b hb
  · exact runs_ok c h.2 y hy b hb

theorem single_ok (w : Bool) (p : Nat) : (LProg.blk w [p]).Ok := ⟨by simp, by simp⟩

theorem ttl_ok (p : Nat) : (ttl p).Ok := ⟨single_ok _ _, trivial, single_ok _ _⟩

theorem ttlStop_ok (p : Nat) {main : LProg} (h : main.Ok) : (ttlStop p main).Ok :=
  ⟨single_ok _ _, h, single_ok _ _, trivial, h⟩

/-- `LockMulti`: by `SetOps.lockPoses_spec` the block is strictly ascending, whatever the stripe function and the key list -/
theorem multi_ok (w : Bool) (stripe : Bytes → Nat) (keys : List Bytes) : (multi w stripe keys).Ok := by
  unfold multi
  have hs := (SetOps.lockPoses_spec stripe keys).1
  split
  · trivial
  · rename_i p ps he
    rw [he] at hs
    exact ⟨by simp, hs⟩

theorem seqAll_ok : ∀ (l : List LProg), (∀ p ∈ l, p.Ok) → (seqAll l).Ok
| [], _ => trivial
| p :: ps, h => ⟨h p List.mem_cons_self, seqAll_ok ps fun q hq => h q (List.mem_cons_of_mem _ hq)⟩

theorem seqAll_map_ok {α : Type} (f : α → LProg) (l : List α) (h : ∀ a, (f a).Ok) : (seqAll (l.map f)).Ok :=
  seqAll_ok _ fun p hp => by obtain ⟨a, _, rfl⟩ := List.mem_map.mp hp; exact h a

theorem unionProg_ok (stripe : Bytes → Nat) : ∀ (ks acc : List Bytes), (unionProg stripe ks acc).Ok
| [], acc => by unfold unionProg; exact multi_ok _ _ _
| k :: ks, acc => by
  unfold unionProg
  exact ⟨single_ok _ _, unionProg_ok stripe ks _, single_ok _ _, unionProg_ok stripe ks _, unionProg_ok stripe ks _⟩

theorem bpopItem_ok (stripe : Bytes → Nat) (k : Bytes) : (bpopItem stripe k).Ok := ⟨ttl_ok _, single_ok _ _⟩

theorem bpopPrefixes_ok (stripe : Bytes → Nat) : ∀ (ks : List Bytes), (bpopPrefixes stripe ks).Ok
| [] => trivial
| [k] => bpopItem_ok stripe k
| k :: k' :: ks => ⟨bpopItem_ok stripe k, trivial, bpopPrefixes_ok stripe (k' :: ks)⟩

theorem bpopProg_ok (stripe : Bytes → Nat) (ks : List Bytes) : ∀ (r : Nat), (bpopProg stripe ks r).Ok
| 0 => bpopPrefixes_ok stripe ks
| r + 1 => ⟨bpopPrefixes_ok stripe ks, seqAll_map_ok _ _ (bpopItem_ok stripe), bpopProg_ok stripe ks r⟩

theorem ite_ok {c : Prop} [Decidable c] {a b : LProg} (ha : a.Ok) (hb : b.Ok) : (if c then a else b).Ok := by
  split <;> assumption

/-- the lock program of EVERY call is well-formed -/
theorem lockProg_ok (stripe : Bytes → Nat) (env : Env) (args : List Bytes) (rounds : Nat) : (lockProg stripe env args rounds).Ok := by
  unfold lockProg
  dsimp only
  cases lockPlan env args with
  | none => trivial
  | whole => trivial
  | keys ks w =>
    dsimp only
    repeat' (first
      | exact trivial
      | exact seqAll_map_ok _ _ (fun k => single_ok _ _)
      | exact seqAll_map_ok _ _ (fun k => ⟨ttl_ok _, single_ok _ _⟩)
      | exact seqAll_map_ok _ _ (fun k => ttlStop_ok _ (single_ok _ _))
      | exact bpopProg_ok _ _ _
      | exact multi_ok _ _ _
      | exact unionProg_ok _ _ _
      | exact ttlStop_ok _ (multi_ok _ _ _)
      | exact ttlStop_ok _ ⟨ttl_ok _, multi_ok _ _ _⟩
      | exact ⟨ttl_ok _, ttlStop_ok _ (multi_ok _ _ _)⟩
      | exact ⟨seqAll_map_ok _ _ (fun k => ttl_ok _), multi_ok _ _ _⟩
      | exact ttlStop_ok _ (single_ok _ _)
      | exact ⟨ttl_ok _, single_ok _ _⟩
      | apply ite_ok
      | split)

/-- **within each block the acquisition sequence is strictly ascending and duplicate-free** — for every command of the table (and every
    other name), every argument vector and environment, every run of its lock program, and EVERY stripe function -/
theorem lockSeq_ascending (stripe : Bytes → Nat) (env : Env) (args : List Bytes) (rounds : Nat) :
    ∀ run ∈ (lockProg stripe env args rounds).runs, ∀ b ∈ run, b.2 ≠ [] ∧ b.2.Pairwise (· < ·) ∧ b.2.Nodup := by
  intro run hr b hb
  obtain ⟨h1, h2⟩ := runs_ok _ (lockProg_ok stripe env args rounds) run hr b hb
  exact ⟨h1, h2, h2.imp (fun h => Nat.ne_of_lt h)⟩

/-- the blocks of `Exec.lockSeq` (the run without expiry) are among them -/
theorem lockSeq_blocks_ascending (stripe : Bytes → Nat) (env : Env) (args : List Bytes) :
    ∀ b ∈ (lockProg stripe env args).main, b.2 ≠ [] ∧ b.2.Pairwise (· < ·) ∧ b.2.Nodup :=
  lockSeq_ascending stripe env args 0 _ (main_mem_runs _)

/-- colliding and repeated keys: `MSET k 1 k' 2 k 3` with `stripe k = stripe k'` locks ONE stripe once -/
example : (lockProg (fun _ => 7) { now := 0 } [ofStr "MSET", [1], [2], [3], [4], [1], [5]]).main = [(true, [7])] := by decide +kernel
/-- `RENAME a b` on colliding keys: `CheckTTL(a)`'s look, then the ONE stripe of the multi-key block, once -/
example : lockSeq (fun _ => 7) { now := 0 } [ofStr "RENAME", [1], [2]] = [(7, false), (7, true)] := by decide +kernel
/-- two stripes out of order in the key list are acquired in ascending order (`sortedLockPoses`) -/
example : multi true (fun k => if k = [1] then 9 else 4) [[1], [2]] = .blk true [4, 9] := by
  have h : SetOps.lockPoses (fun k => if k = [1] then 9 else 4) [[1], [2]] = [4, 9] := by
    unfold SetOps.lockPoses
    have : SetOps.posSet (fun k => if k = [1] then 9 else 4) [[1], [2]] = [4, 9] := by decide
    rw [this]
    exact List.mergeSort_of_pairwise (by simp)
  unfold multi; rw [h]

end Exec

/-! ### `ThreadOk` is an invariant of the lock steps -/
namespace DL
variable {n : Nat}

theorem asc_of_pairwise : ∀ {l : List Nat}, l.Pairwise (· < ·) → Asc l
| [], _ => trivial
| [_], _ => trivial
| a :: b :: r, h => by
  rw [List.pairwise_cons] at h
  exact ⟨h.1 b List.mem_cons_self, asc_of_pairwise h.2⟩

theorem asc_tail {a : Nat} {l : List Nat} (h : Asc (a :: l)) : Asc l := by
  cases l with
  | nil => trivial
  | cons b r => exact h.2

theorem step_ok {s s' : Sys n} (st : Step s s') (hok : ∀ i, ThreadOk (s i)) : ∀ i, ThreadOk (s' i) := by
  cases st with
  | start i m ps rest h hne =>
    intro j
    by_cases hj : j = i
    · subst hj
      have hi := hok j
      rw [h] at hi
      simp only [set, if_true]
      refine ⟨fun b hb => hi.1 b (List.mem_cons_of_mem _ hb), ?_⟩
      exact ⟨hne, (hi.1 (m, ps) List.mem_cons_self).2, fun x hx => by cases hx⟩
    · simp only [set, hj, if_false]; exact hok j
  | acquire i m held p todo prog h hc =>
    intro j
    by_cases hj : j = i
    · subst hj
      have hi := hok j
      rw [h] at hi
      simp only [set, if_true]
      refine ⟨hi.1, ?_⟩
      cases todo with
      | nil => trivial
      | cons q r =>
        obtain ⟨_, hasc, hlt⟩ := hi.2
        refine ⟨by simp, asc_tail hasc, ?_⟩
        intro x hx y hy
        rcases List.mem_cons.1 hx with rfl | hx
        · exact asc_head_lt hasc y hy
        · exact hlt x hx y (List.mem_cons_of_mem _ hy)
    · simp only [set, hj, if_false]; exact hok j
  | release i m held prog h =>
    intro j
    by_cases hj : j = i
    · subst hj
      have hi := hok j
      rw [h] at hi
      simp only [set, if_true]
      exact ⟨hi.1, trivial⟩
    · simp only [set, hj, if_false]; exact hok j

/-- the states reachable by lock steps -/
inductive Reach : Sys n → Sys n → Prop
| refl (s : Sys n) : Reach s s
| step {s t u : Sys n} : Reach s t → Step t u → Reach s u

theorem reach_ok {s t : Sys n} (hr : Reach s t) (hok : ∀ i, ThreadOk (s i)) : ∀ i, ThreadOk (t i) := by
  induction hr with
  | refl => exact hok
  | step _ st ih => exact step_ok st ih

end DL

/-! ### the command table -/
namespace Exec
open Resp (Reply Bytes)

def toDL (b : LBlock) : DL.Mode × List Nat := (if b.1 then .W else .R, b.2)

/-- a block sequence ONE execution of the call can produce: a run of its lock program (some bound on the BLPOP rounds); KEYS
    (`whole`): any sequence of single-stripe blocks (`CheckTTL` and `RLock` of the keys that exist) -/
def CmdRun (stripe : Bytes → Nat) (env : Env) (args : List Bytes) (run : List LBlock) : Prop :=
  match lockPlan env args with
  | .whole => ∀ b ∈ run, ∃ p, b.2 = [p]
  | _ => ∃ rounds, run ∈ (lockProg stripe env args rounds).runs

/-- the blocks of a client running a list of commands, one after the other -/
inductive ClientRun (stripe : Bytes → Nat) : List (Env × List Bytes) → List LBlock → Prop
| nil : ClientRun stripe [] []
| cons {env : Env} {args : List Bytes} {rest : List (Env × List Bytes)} {run runs : List LBlock} :
    CmdRun stripe env args run → ClientRun stripe rest runs → ClientRun stripe ((env, args) :: rest) (run ++ runs)

theorem cmdRun_ok {stripe : Bytes → Nat} {env : Env} {args : List Bytes} {run : List LBlock} (h : CmdRun stripe env args run) :
    ∀ b ∈ run, BlockOk b := by
  unfold CmdRun at h
  split at h
  · intro b hb
    obtain ⟨p, hp⟩ := h b hb
    exact ⟨by rw [hp]; simp, by rw [hp]; simp⟩
  · obtain ⟨rounds, hr⟩ := h
    exact runs_ok _ (lockProg_ok stripe env args rounds) run hr

theorem clientRun_ok {stripe : Bytes → Nat} {cmds : List (Env × List Bytes)} {runs : List LBlock} (h : ClientRun stripe cmds runs) :
    ∀ b ∈ runs, BlockOk b := by
  induction h with
  | nil => intro b hb; cases hb
  | cons hc _ ih =>
    intro b hb
    rcases List.mem_append.mp hb with hb | hb
    · exact cmdRun_ok hc b hb
    · exact ih b hb

/-- **deadlock freedom of the command table**: `n` clients, client `i` running the commands `cmds i`; `runs i` is any resolution of
    the keyspace-dependent choices (which `CheckTTL` found a passed deadline, which BLPOP key served, which keys KEYS met); the clients
    acquire block after block in the order of the lock programs and release everything between blocks; the stripe function is arbitrary.
    Then in every reachable lock state in which some client has not finished, some step is enabled. -/
theorem table_deadlock_free {n : Nat} (stripe : Bytes → Nat) (cmds : Fin n → List (Env × List Bytes)) (runs : Fin n → List LBlock)
    (hr : ∀ i, ClientRun stripe (cmds i) (runs i)) (s : DL.Sys n)
    (hreach : DL.Reach (fun i => ⟨.idle, (runs i).map toDL⟩) s) (hnf : ∃ i, ¬ DL.finished (s i)) :
    ∃ s', DL.Step s s' := by
  refine DL.progress s (DL.reach_ok hreach ?_) hnf
  intro i
  refine ⟨?_, trivial⟩
  intro b hb
  obtain ⟨c, hc, rfl⟩ := List.mem_map.mp hb
  obtain ⟨h1, h2⟩ := clientRun_ok (hr i) c hc
  exact ⟨h1, DL.asc_of_pairwise h2⟩

/-! the hypotheses are satisfiable: `RENAME a b` (its look at `a`, then the multi-key block) on colliding keys -/
example : ClientRun (fun _ => 7) [({ now := 0 }, [ofStr "RENAME", [1], [2]]), ({ now := 0 }, [ofStr "PING"])] [(false, [7]), (true, [7])] := by
  have h : CmdRun (fun _ => 7) { now := 0 } [ofStr "RENAME", [1], [2]] [(false, [7]), (true, [7])] := by
    have hp : lockPlan { now := 0 } [ofStr "RENAME", [1], [2]] = .keys [[1], [2]] true := by decide +kernel
    unfold CmdRun; rw [hp]
    exact ⟨0, (accepts_iff_mem_runs _ _).mp (by decide +kernel)⟩
  have h2 : CmdRun (fun _ => 7) { now := 0 } [ofStr "PING"] [] := by
    have hp : lockPlan { now := 0 } [ofStr "PING"] = .none := by decide +kernel
    unfold CmdRun; rw [hp]
    exact ⟨0, (accepts_iff_mem_runs _ _).mp (by decide +kernel)⟩
  simpa using ClientRun.cons h (ClientRun.cons h2 ClientRun.nil)

end Exec

/-! ### `lockProg_within`: every scope of every run is keyed by the lock plan, and write scopes occur only where the plan says so -/
namespace Exec
open Resp (Reply Bytes)

/-- the keys of a lock plan -/
def Footprint.keyList : Footprint → List Bytes
| .keys ks _ => ks
| _ => []

/-- the plan locks in write mode -/
def Footprint.isWrite : Footprint → Bool
| .keys _ w => w
| _ => false

/-- **a run within a plan**: `S` = the stripes of the plan's keys, `allowW` = the plan (or a documented exception) allows write scopes.
    Every scope holds stripes of `S` only; a write scope where `allowW` is false occurs only as the second half of `CheckTTL`'s
    look-then-reap pair: a read scope on one stripe immediately followed by a write scope on the same single stripe. -/
inductive Within (S : List Nat) (allowW : Bool) : List LBlock → Prop
| nil : Within S allowW []
| scope {w : Bool} {ps : List Nat} {rest : List LBlock} :
    (∀ p ∈ ps, p ∈ S) → (w = true → allowW = true) → Within S allowW rest → Within S allowW ((w, ps) :: rest)
| reap {p : Nat} {rest : List LBlock} : p ∈ S → Within S allowW rest → Within S allowW ((false, [p]) :: (true, [p]) :: rest)

theorem Within.append {S : List Nat} {a : Bool} {x y : List LBlock} (hx : Within S a x) (hy : Within S a y) : Within S a (x ++ y) := by
  induction hx with
  | nil => exact hy
  | scope h1 h2 _ ih => exact Within.scope h1 h2 ih
  | reap h1 _ ih => exact Within.reap h1 ih

/-- every stripe of every scope of a run within a plan is a stripe of the plan -/
theorem Within.stripes {S : List Nat} {a : Bool} {r : List LBlock} (h : Within S a r) : ∀ b ∈ r, ∀ p ∈ b.2, p ∈ S := by
  induction h with
  | nil => intro b hb; cases hb
  | scope h1 _ _ ih =>
    intro b hb
    rcases List.mem_cons.mp hb with rfl | hb
    · exact h1
    · exact ih b hb
  | reap h1 _ ih =>
    intro b hb
    rcases List.mem_cons.mp hb with rfl | hb
    · intro p hp; rw [List.mem_singleton.mp hp]; exact h1
    · rcases List.mem_cons.mp hb with rfl | hb
      · intro p hp; rw [List.mem_singleton.mp hp]; exact h1
      · exact ih b hb

/-- where the plan does not allow it, a write scope is `CheckTTL`'s reap: one stripe, directly after the read look at that stripe -/
theorem Within.writes {S : List Nat} {r : List LBlock} (h : Within S false r) :
    ∀ (pre : List LBlock) (b : LBlock) (post : List LBlock), r = pre ++ b :: post → b.1 = true →
      ∃ p, p ∈ S ∧ b = (true, [p]) ∧ ∃ pre', pre = pre' ++ [(false, [p])] := by
  induction h with
  | nil => intro pre b post e; cases pre <;> cases e
  | @scope w ps rest h1 h2 _ ih =>
    intro pre b post e hb
    cases pre with
    | nil =>
      simp only [List.nil_append, List.cons.injEq] at e
      obtain ⟨rfl, _⟩ := e
      exact absurd (h2 hb) (by decide)
    | cons c pre =>
      simp only [List.cons_append, List.cons.injEq] at e
      obtain ⟨rfl, e⟩ := e
      obtain ⟨p, hp, hb', pre', hpre⟩ := ih pre b post e hb
      exact ⟨p, hp, hb', (w, ps) :: pre', by rw [hpre]; rfl⟩
  | @reap p rest h1 _ ih =>
    intro pre b post e hb
    cases pre with
    | nil =>
      simp only [List.nil_append, List.cons.injEq] at e
      obtain ⟨rfl, _⟩ := e
      cases hb
    | cons c pre =>
      simp only [List.cons_append, List.cons.injEq] at e
      obtain ⟨rfl, e⟩ := e
      cases pre with
      | nil =>
        simp only [List.nil_append, List.cons.injEq] at e
        obtain ⟨rfl, _⟩ := e
        exact ⟨p, h1, rfl, [], rfl⟩
      | cons d pre =>
        simp only [List.cons_append, List.cons.injEq] at e
        obtain ⟨rfl, e⟩ := e
        obtain ⟨q, hq, hb', pre', hpre⟩ := ih pre b post e hb
        exact ⟨q, hq, hb', (false, [p]) :: (true, [p]) :: pre', by rw [hpre]; rfl⟩

/-- every run of the program is within the plan -/
def LProg.PW (S : List Nat) (a : Bool) (p : LProg) : Prop := ∀ r ∈ p.runs, Within S a r

/-- every run of the program, put behind a read look at stripe `p`, is within the plan -/
def LProg.PWAfter (S : List Nat) (a : Bool) (p : Nat) (q : LProg) : Prop := ∀ r ∈ q.runs, Within S a ((false, [p]) :: r)

variable {S : List Nat} {a : Bool}

theorem no_w {a : Bool} : false = true → a = true := fun e => nomatch e

theorem pw_eps : (LProg.eps).PW S a := by
  intro r hr; simp only [LProg.runs, List.mem_singleton] at hr; subst hr; exact Within.nil

theorem pw_blk {w : Bool} {ps : List Nat} (h : ∀ p ∈ ps, p ∈ S) (hw : w = true → a = true) : (LProg.blk w ps).PW S a := by
  intro r hr; simp only [LProg.runs, List.mem_singleton] at hr; subst hr; exact Within.scope h hw Within.nil

theorem pw_single {w : Bool} {p : Nat} (h : p ∈ S) (hw : w = true → a = true) : (LProg.blk w [p]).PW S a :=
  pw_blk (fun q hq => by rw [List.mem_singleton.mp hq]; exact h) hw

theorem pw_alt {x y : LProg} (hx : x.PW S a) (hy : y.PW S a) : (LProg.alt x y).PW S a := by
  intro r hr
  unfold LProg.runs at hr
  rcases List.mem_append.mp hr with hr | hr
  · exact hx r hr
  · exact hy r hr

theorem pw_seq {x y : LProg} (hx : x.PW S a) (hy : y.PW S a) : (LProg.seq x y).PW S a := by
  intro r hr
  unfold LProg.runs at hr
  obtain ⟨u, hu, hr⟩ := List.mem_flatMap.mp hr
  obtain ⟨v, hv, rfl⟩ := List.mem_map.mp hr
  exact (hx u hu).append (hy v hv)

theorem pw_dite {c : Prop} [Decidable c] {x y : LProg} (hx : c → x.PW S a) (hy : ¬ c → y.PW S a) : (if c then x else y).PW S a := by
  split
  · exact hx ‹_›
  · exact hy ‹_›

theorem pw_ite {c : Prop} [Decidable c] {x y : LProg} (hx : x.PW S a) (hy : y.PW S a) : (if c then x else y).PW S a := by
  split <;> assumption

/-- a program behind a read look -/
theorem pw_look {p : Nat} {q : LProg} (h : q.PWAfter S a p) : (LProg.seq (.blk false [p]) q).PW S a := by
  intro r hr
  unfold LProg.runs at hr
  obtain ⟨u, hu, hr⟩ := List.mem_flatMap.mp hr
  obtain ⟨v, hv, rfl⟩ := List.mem_map.mp hr
  simp only [LProg.runs, List.mem_singleton] at hu
  subst hu
  exact h v hv

theorem pwa_of_pw {p : Nat} {q : LProg} (hp : p ∈ S) (h : q.PW S a) : q.PWAfter S a p := fun r hr =>
  Within.scope (fun x hx => by rw [List.mem_singleton.mp hx]; exact hp) (fun e => nomatch e) (h r hr)

theorem pwa_alt {p : Nat} {x y : LProg} (hx : x.PWAfter S a p) (hy : y.PWAfter S a p) : (LProg.alt x y).PWAfter S a p := by
  intro r hr
  unfold LProg.runs at hr
  rcases List.mem_append.mp hr with hr | hr
  · exact hx r hr
  · exact hy r hr

/-- the reap scope directly behind the look, then `q` -/
theorem pwa_reap {p : Nat} {q : LProg} (hp : p ∈ S) (h : q.PW S a) : (LProg.seq (.blk true [p]) q).PWAfter S a p := by
  intro r hr
  unfold LProg.runs at hr
  obtain ⟨u, hu, hr⟩ := List.mem_flatMap.mp hr
  obtain ⟨v, hv, rfl⟩ := List.mem_map.mp hr
  simp only [LProg.runs, List.mem_singleton] at hu
  subst hu
  exact Within.reap hp (h v hv)

theorem pwa_reap_end {p : Nat} (hp : p ∈ S) : (LProg.blk true [p]).PWAfter S a p := by
  intro r hr
  simp only [LProg.runs, List.mem_singleton] at hr
  subst hr
  exact Within.reap hp Within.nil

theorem pw_ttl {p : Nat} (hp : p ∈ S) : (ttl p).PW S a :=
  pw_look (pwa_alt (pwa_of_pw hp pw_eps) (pwa_reap_end hp))

theorem pw_ttlStop {p : Nat} {main : LProg} (hp : p ∈ S) (h : main.PW S a) : (ttlStop p main).PW S a :=
  pw_look (pwa_alt (pwa_of_pw hp h) (pwa_reap hp (pw_alt pw_eps h)))

theorem pw_multi {w : Bool} (stripe : Bytes → Nat) (keys : List Bytes) (hs : ∀ k ∈ keys, stripe k ∈ S) (hw : w = true → a = true) :
    (multi w stripe keys).PW S a := by
  unfold multi
  have hm := (SetOps.lockPoses_spec stripe keys).2
  split
  · exact pw_eps
  · rename_i p ps he
    refine pw_blk (fun q hq => ?_) hw
    rw [← he] at hq
    obtain ⟨k, hk, rfl⟩ := (hm q).mp hq
    exact hs k hk

theorem pw_seqAll : ∀ (l : List LProg), (∀ p ∈ l, p.PW S a) → (seqAll l).PW S a
| [], _ => pw_eps
| p :: ps, h => pw_seq (h p List.mem_cons_self) (pw_seqAll ps fun q hq => h q (List.mem_cons_of_mem _ hq))

theorem pw_seqAll_map (f : Bytes → LProg) (l : List Bytes) (h : ∀ k ∈ l, (f k).PW S a) : (seqAll (l.map f)).PW S a :=
  pw_seqAll _ fun p hp => by obtain ⟨k, hk, rfl⟩ := List.mem_map.mp hp; exact h k hk

theorem pw_union (stripe : Bytes → Nat) : ∀ (ks acc : List Bytes), (∀ k ∈ ks, stripe k ∈ S) → (∀ k ∈ acc, stripe k ∈ S) →
    (unionProg stripe ks acc).PW S a
| [], acc, _, ha => by
  unfold unionProg
  exact pw_multi stripe _ (fun k hk => ha k (List.mem_reverse.mp hk)) (fun e => nomatch e)
| k :: ks, acc, hk, ha => by
  unfold unionProg
  have hk0 : stripe k ∈ S := hk k List.mem_cons_self
  have hks : ∀ x ∈ ks, stripe x ∈ S := fun x hx => hk x (List.mem_cons_of_mem _ hx)
  have hka : ∀ x ∈ k :: acc, stripe x ∈ S := fun x hx => by
    rcases List.mem_cons.mp hx with rfl | hx
    · exact hk0
    · exact ha x hx
  exact pw_look (pwa_alt (pwa_of_pw hk0 (pw_union stripe ks _ hks hka))
    (pwa_reap hk0 (pw_alt (pw_union stripe ks _ hks ha) (pw_union stripe ks _ hks hka))))

theorem pw_bpopItem (stripe : Bytes → Nat) {k : Bytes} (hk : stripe k ∈ S) (ha : a = true) : (bpopItem stripe k).PW S a :=
  pw_seq (pw_ttl hk) (pw_single hk fun _ => ha)

theorem pw_bpopPrefixes (stripe : Bytes → Nat) (ha : a = true) : ∀ (ks : List Bytes), (∀ k ∈ ks, stripe k ∈ S) → (bpopPrefixes stripe ks).PW S a
| [], _ => pw_eps
| [k], h => pw_bpopItem stripe (h k List.mem_cons_self) ha
| k :: k' :: ks, h =>
  pw_seq (pw_bpopItem stripe (h k List.mem_cons_self) ha)
    (pw_alt pw_eps (pw_bpopPrefixes stripe ha (k' :: ks) fun x hx => h x (List.mem_cons_of_mem _ hx)))

theorem pw_bpopProg (stripe : Bytes → Nat) (ha : a = true) (ks : List Bytes) (h : ∀ k ∈ ks, stripe k ∈ S) : ∀ (r : Nat), (bpopProg stripe ks r).PW S a
| 0 => pw_bpopPrefixes stripe ha ks h
| r + 1 => pw_alt (pw_bpopPrefixes stripe ha ks h)
    (pw_seq (pw_seqAll_map _ _ fun k hk => pw_bpopItem stripe (h k hk) ha) (pw_bpopProg stripe ha ks h r))

/-! #### the table: the executors whose program write-locks unconditionally have a write footprint -/

/-- the commands whose lock program holds a hard-wired write scope -/
def hardWrite : List String :=
  ["del", "mset", "setex", "rename", "lmove", "smove", "sunionstore", "sinterstore", "sdiffstore", "blpop", "brpop"]

theorem isCmd_mono {name : Bytes} {l l' : List String} (h : isCmd name l = true) (hs : ∀ x ∈ l, x ∈ l') : isCmd name l' = true := by
  unfold isCmd at *
  rw [List.any_eq_true] at *
  obtain ⟨x, hx, e⟩ := h
  exact ⟨x, hs x hx, e⟩

/-- every row of the footprint table named in `hardWrite` has a write footprint (whatever the argument vector) -/
theorem table_hardWrite : ∀ p ∈ footTable, isCmd (ofStr p.1) hardWrite = true →
    ∀ (args ks : List Bytes) (w : Bool), p.2.2.1 args = .keys ks w → w = true := by
  unfold footTable
  repeat' (first | exact (fun _ h => absurd h List.not_mem_nil) | refine List.forall_mem_cons.mpr ⟨?_, ?_⟩)
  all_goals (intro hc args ks w h)
  all_goals first
    | exact absurd hc (by decide +kernel)
    | (dsimp only [fpAll, fpMSet, fpK4, fpRename, fpLMove, fpSMove, fpStore, fpBPop] at h
       repeat' split at h
       all_goals (cases h <;> rfl))

/-- the row of the footprint table a plan with keys comes from -/
theorem plan_entry {env : Env} {args ks : List Bytes} {w : Bool} (h : lockPlan env args = .keys ks w) :
    ∃ p ∈ footTable, ofStr p.1 = lower (args.headD []) ∧ p.2.2.1 args = .keys ks w := by
  have hf : footprint args = .keys ks w := by
    rcases lockPlan_cases env args with e | e
    · rw [← e]; exact h
    · rw [e] at h; cases h
  unfold footprint at hf
  split at hf
  · cases hf
  · rename_i name rest
    split at hf
    · rename_i p' hp'
      unfold lookupFoot at hp'
      obtain ⟨p, hp, rfl⟩ := Option.map_eq_some_iff.mp hp'
      refine ⟨p, List.mem_of_find?_eq_some hp, ?_, hf⟩
      have := List.find?_some hp
      simpa using this
    · cases hf

theorem plan_hardWrite {env : Env} {args ks : List Bytes} {w : Bool} (h : lockPlan env args = .keys ks w)
    (hc : isCmd (lower (args.headD [])) hardWrite = true) : w = true := by
  obtain ⟨p, hp, hn, hfp⟩ := plan_entry h
  exact table_hardWrite p hp (by rw [hn]; exact hc) args ks w hfp

/-- **`lockProg_within`**: every run of the lock program of a call (every command name, argument vector, environment, bound on the
    BLPOP rounds, stripe function) is within its lock plan: each scope holds stripes `stripe k` of keys `k` of `Exec.lockPlan env args`
    only (the keys `CheckTTL` is called on are among them), and a write scope occurs only where the plan says write, or for
    `zrange` / `zrank` / `xrange` (write-locking readers), or as `CheckTTL`'s reap directly behind its look -/
theorem lockProg_within (stripe : Bytes → Nat) (env : Env) (args : List Bytes) (rounds : Nat) :
    (lockProg stripe env args rounds).PW ((lockPlan env args).keyList.map stripe)
      ((lockPlan env args).isWrite || isCmd (lower (args.headD [])) writeLocksForRead) := by
  unfold lockProg
  dsimp only
  cases hplan : lockPlan env args with
  | none => exact pw_eps
  | whole => exact pw_eps
  | keys ks w =>
    dsimp only [Footprint.keyList, Footprint.isWrite]
    have hW : ∀ l : List String, isCmd (lower (args.headD [])) l = true → (∀ x ∈ l, x ∈ hardWrite) →
        ∀ b : Bool, b = true → (w || isCmd (lower (args.headD [])) writeLocksForRead) = true := by
      intro l hc hs _ _
      rw [plan_hardWrite hplan (isCmd_mono hc hs)]; rfl
    have hS : ∀ l : List Bytes, (∀ k ∈ l, k ∈ ks) → ∀ k ∈ l, stripe k ∈ ks.map stripe :=
      fun l hl k hk => List.mem_map.mpr ⟨k, hl k hk, rfl⟩
    have hS0 := hS ks (fun _ h => h)
    refine pw_dite (fun hc => ?_) (fun _ => ?_)
    · exact pw_seqAll_map _ _ fun k hk => pw_single (hS0 k hk) (hW _ hc (by decide) _)
    refine pw_dite (fun hc => ?_) (fun _ => ?_)
    · exact pw_seqAll_map _ _ fun k hk => pw_seq (pw_ttl (hS0 k hk)) (pw_single (hS0 k hk) no_w)
    refine pw_dite (fun hc => ?_) (fun _ => ?_)
    · exact pw_seqAll_map _ _ fun k hk => pw_ttlStop (hS0 k hk) (pw_single (hS0 k hk) no_w)
    refine pw_dite (fun hc => ?_) (fun _ => ?_)
    · exact pw_bpopProg stripe (hW _ hc (by decide) true rfl) ks hS0 rounds
    refine pw_dite (fun hc => ?_) (fun _ => ?_)
    · exact pw_multi stripe ks hS0 (hW _ hc (by decide) _)
    refine pw_dite (fun hc => ?_) (fun _ => ?_)
    · exact pw_seqAll_map _ _ fun k hk => pw_single (hS0 k hk) (hW _ hc (by decide) _)
    refine pw_dite (fun hc => ?_) (fun _ => ?_)
    · have hw := hW _ hc (by decide) true rfl
      cases ks with
      | nil => exact pw_eps
      | cons old rest => exact pw_ttlStop (hS0 _ List.mem_cons_self) (pw_multi stripe _ hS0 fun _ => hw)
    refine pw_dite (fun hc => ?_) (fun _ => ?_)
    · have hw := hW _ hc (by decide) true rfl
      split
      · exact pw_ttlStop (hS0 _ List.mem_cons_self)
          (pw_seq (pw_ttl (hS0 _ (List.mem_cons_of_mem _ List.mem_cons_self))) (pw_multi stripe _ hS0 fun _ => hw))
      · exact pw_eps
    refine pw_dite (fun hc => ?_) (fun _ => ?_)
    · have hw := hW _ hc (by decide) true rfl
      split
      · exact pw_seq (pw_ttl (hS0 _ (List.mem_cons_of_mem _ List.mem_cons_self)))
          (pw_ttlStop (hS0 _ List.mem_cons_self) (pw_multi stripe _ hS0 fun _ => hw))
      · exact pw_eps
    refine pw_dite (fun hc => ?_) (fun _ => ?_)
    · have hw := hW _ hc (by decide) true rfl
      exact pw_seq (pw_seqAll_map _ _ fun k hk => pw_ttl (hS0 k hk)) (pw_multi stripe ks hS0 fun _ => hw)
    refine pw_dite (fun hc => ?_) (fun _ => ?_)
    · exact pw_seq (pw_seqAll_map _ _ fun k hk => pw_ttl (hS0 k hk)) (pw_multi stripe ks hS0 no_w)
    refine pw_dite (fun hc => ?_) (fun _ => ?_)
    · exact pw_union stripe ks [] hS0 (fun _ h => nomatch h)
    · split
      · refine pw_dite (fun _ => ?_) (fun _ => ?_)
        · exact pw_ttlStop (hS0 _ List.mem_cons_self) (pw_single (hS0 _ List.mem_cons_self) id)
        · exact pw_seq (pw_ttl (hS0 _ List.mem_cons_self)) (pw_single (hS0 _ List.mem_cons_self) id)
      · exact pw_eps

/-- **every stripe in any run of `lockProg` is the stripe of a key of `lockPlan`** -/
theorem lockProg_stripes_within (stripe : Bytes → Nat) (env : Env) (args : List Bytes) (rounds : Nat) :
    ∀ run ∈ (lockProg stripe env args rounds).runs, ∀ b ∈ run, ∀ p ∈ b.2, ∃ k ∈ (lockPlan env args).keyList, p = stripe k := by
  intro run hr b hb p hp
  obtain ⟨k, hk, e⟩ := List.mem_map.mp ((lockProg_within stripe env args rounds run hr).stripes b hb p hp)
  exact ⟨k, hk, e.symm⟩

/-- **write scopes only where the plan says write**: a call whose plan is a read plan and whose command is not one of the
    write-locking readers (`zrange`, `zrank`, `xrange`) takes a write scope only as `CheckTTL`'s reap — on one stripe of a plan key,
    directly behind the read look at that stripe -/
theorem lockProg_write_scopes (stripe : Bytes → Nat) (env : Env) (args : List Bytes) (rounds : Nat)
    (hr : (lockPlan env args).isWrite = false) (hx : isCmd (lower (args.headD [])) writeLocksForRead = false) :
    ∀ run ∈ (lockProg stripe env args rounds).runs, ∀ (pre : List LBlock) (b : LBlock) (post : List LBlock),
      run = pre ++ b :: post → b.1 = true →
      ∃ k ∈ (lockPlan env args).keyList, b = (true, [stripe k]) ∧ ∃ pre', pre = pre' ++ [(false, [stripe k])] := by
  intro run hrun pre b post e hb
  have h := lockProg_within stripe env args rounds run hrun
  rw [hr, hx] at h
  obtain ⟨p, hp, hb', pre', hpre⟩ := Within.writes h pre b post e hb
  obtain ⟨k, hk, rfl⟩ := List.mem_map.mp hp
  exact ⟨k, hk, hb', pre', hpre⟩

/-- nothing is locked without a plan -/
theorem lockProg_none (stripe : Bytes → Nat) (env : Env) (args : List Bytes) (rounds : Nat) (h : (lockPlan env args).keyList = []) :
    ∀ run ∈ (lockProg stripe env args rounds).runs, ∀ b ∈ run, b.2 = [] := by
  intro run hr b hb
  have hs := (lockProg_within stripe env args rounds run hr).stripes b hb
  rw [h, List.map_nil] at hs
  cases hb2 : b.2 with
  | nil => rfl
  | cons p ps => exact absurd (hs p (by rw [hb2]; exact List.mem_cons_self)) List.not_mem_nil

/-! the statements are not vacuous: `GET k` on an expired key (look, reap, then the read scope), `LMOVE a b LEFT RIGHT` -/
example : [(false, [3]), (true, [3]), (false, [3])] ∈ (lockProg (fun _ => 3) { now := 0 } [ofStr "GET", [1]]).runs :=
  (accepts_iff_mem_runs _ _).mp (by decide +kernel)
example : (lockPlan { now := 0 } [ofStr "GET", [1]]).isWrite = false ∧ isCmd (lower ([ofStr "GET", [1]].headD [])) writeLocksForRead = false := by
  decide +kernel
example : (lockPlan { now := 0 } [ofStr "LMOVE", [1], [2], ofStr "LEFT", ofStr "RIGHT"]).keyList = [[1], [2]] := by decide +kernel

end Exec

#print axioms Exec.lockProg_within
#print axioms Exec.lockProg_stripes_within
#print axioms Exec.lockProg_write_scopes
