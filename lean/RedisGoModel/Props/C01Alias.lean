import RedisGoModel.Generated.AliasSites
/-!
# C01 / C10 / C03 (also C05) — fact F7 closed in Lean: stored byte slices are never rewritten in place

The Go executors hand STORED slices to their replies (`resp.MakeBulkData(v)` with `v` straight out of the keyspace) and the connection loop
encodes a reply (`res.ToBytes()`) only after the executor returned, i.e. after the key's stripe lock was released; in cluster mode the apply
loop hands the reply object to the connection goroutine and goes on applying.  A write by another client that lands in between must not
change the bytes behind the reply.  That holds as long as

1. no code WRITES INTO a byte slice that is, or may alias, a stored value — every write installs a fresh slice
   (`no_inplace_write_to_stored`, `inventory`), and
2. every byte slice INSTALLED in the keyspace owns its bytes: a fresh allocation, or one of the command's own arguments (the parser gives
   every bulk argument its own `make`d buffer, the log codec decodes every argument separately) — so that no two stored headers share a
   backing array (`installed_values_own_their_bytes`, `install_inventory`).  This is what makes the ONE reviewed in-place write, APPEND's
   `append(typeVal, val...)`, harmless: it writes only cells at or beyond `len(typeVal)` of an array no other stored value lives in
   (`append_in_place_keeps_shorter_views` below is that argument in the small).

`Generated/AliasSites.lean` is rewritten by every `./check` run (harness `facts` engine, `harness/sites_alias.go`, go/ast + go/types): every
`x[i] = …`, `x[i] op= …`, `copy(x…, …)`, `append(x…, …)`, `strconv.Append*(x…, …)`, `Read*/Put*(x…)` on a `[]byte` in memdb (tests and `verif`
files excluded) and every `[]byte` assigned to a map element / field / package variable or passed to a function of the repository outside
package resp, each with the provenance class of the slice (`fresh | param | stored | unknown`, a per-function flow-insensitive analysis with
function summaries; see the header of `sites_alias.go`).

Seeded changes that break it (both also shown by the `alias` engine with a concrete input, `vlib/aliassuite.py`):
`C10-hincrby-inplace-buffer-reader-race` (`strconv.AppendInt(tem[:0], …)` with `tem` read from the hash table: a new `stored` write site) and
`C01-shared-small-ints-append` (`m.db.Set(key, formatInt(v))` with `formatInt` returning an element of a package-level table cut from one
buffer: new `stored` install sites).

Partial / trusted: the extractor (classification rules; in-place writes through `sort.*`, `slices.*`, `bytes.Buffer` internals, `unsafe` or
assembly are not listed — memdb has none on byte slices; packages other than memdb contribute function summaries only); the justifications
of the reviewed entries are by hand.  What the theorems give is: the source has exactly the reviewed exceptions — a new in-place write to a
possibly stored slice, or a new non-owned slice handed to the keyspace, fails the build of this module.
-/
namespace AliasSites
open Generated

/-- the in-place writes to byte slices found in the source on this run -/
abbrev sites : List AliasSite := Generated.aliasWriteSites
/-- the byte slices handed to the keyspace (or on towards it) found in the source on this run -/
abbrev installs : List AliasSite := Generated.aliasInstallSites

/-- In-place writes whose target is not a slice allocated in the function, reviewed by hand -/
def reviewed : List AliasSite := [
  -- APPEND: typeVal is the stored value. `append` writes ONLY cells at index ≥ len(typeVal) (when the capacity allows; else it copies into a new array) — no cell any reply or any other header of that value can see (replies hold the header with the old length or a sub-slice of [0,len): GET, GETRANGE, MGET). Sound because no other stored value lives in the same array (install_inventory: every installed slice is a fresh allocation, the parser's per-argument buffer `make([]byte, bulkLen+2)`, a json-decoded argument / snapshot field, or a value MOVED between containers); the `alias` engine holds GET/MGET/GETRANGE replies across APPEND onto values created by every path
  ⟨"memdb/string.go", "appendString", "append", "append(typeVal, val...)", .stored⟩
]

/-- every in-place write goes to a slice allocated in the function, or is a reviewed exception — re-proved against the regenerated list on every run -/
theorem no_inplace_write_to_stored : ∀ s ∈ sites, s.cls = .fresh ∨ s ∈ reviewed := by decide +kernel

/-- the writes to non-fresh slices in the source are EXACTLY the reviewed list (a new one, or a vanished one, breaks this proof) -/
theorem inventory : sites.filter (fun s => s.cls != .fresh) = reviewed := by decide +kernel

/-- Byte slices handed to the keyspace that are neither fresh allocations nor the command's own arguments, reviewed by hand -/
def reviewedInstalls : List AliasSite := [
  -- LMOVE / RPOPLPUSH: popElem was just REMOVED from the source list (LPop/RPop unlink the node); its value moves to the destination, it is not shared (also for source = destination)
  ⟨"memdb/list.go", "lMoveList", "install-call", "desList.LPush(popElem.Val)", .stored⟩,
  -- LMOVE / RPOPLPUSH: popElem was just REMOVED from the source list (LPop/RPop unlink the node); its value moves to the destination, it is not shared (also for source = destination)
  ⟨"memdb/list.go", "lMoveList", "install-call", "desList.RPush(popElem.Val)", .stored⟩,
  -- snapshot restore: f.Value is a field of the snapshot structure just decoded by encoding/json, which allocates every []byte separately (base64 decode); installed once, the decoded structure is dropped
  ⟨"memdb/snapshot.go", "restoreValue", "install-call", "h.Set(string(f.Field), v)", .stored⟩,
  -- snapshot restore: e ranges over k.List of the snapshot structure just decoded by encoding/json (every element its own allocation); installed once
  ⟨"memdb/snapshot.go", "restoreValue", "install-call", "l.RPush(e)", .stored⟩,
  -- APPEND: newVal is the old value's array grown in place or a new allocation; it REPLACES the old header under the same key, so the array still backs one stored value
  ⟨"memdb/string.go", "appendString", "install-call", "m.db.Set(key, newVal)", .stored⟩
]

/-- every slice handed to the keyspace is a fresh allocation, one of the command's own arguments, or a reviewed exception -/
theorem installed_values_own_their_bytes : ∀ s ∈ installs, s.cls = .fresh ∨ s.cls = .param ∨ s ∈ reviewedInstalls := by decide +kernel

/-- the non-owned slices handed on in the source are EXACTLY the reviewed list -/
theorem install_inventory : installs.filter (fun s => s.cls != .fresh && s.cls != .param) = reviewedInstalls := by decide +kernel

/-- the inventory is not vacuous: the extractor sees the copies of SETRANGE, APPEND's append and the value installations of the string, hash and list executors -/
theorem not_vacuous : 3 ≤ sites.length ∧ 30 ≤ installs.length ∧ 10 ≤ (installs.filter (fun s => s.cls == .fresh)).length
    ∧ ⟨"memdb/string.go", "setRangeString", "copy", "copy(newVal, oldVal)", .fresh⟩ ∈ sites := by decide +kernel

/-! ## Why "beyond the length" is harmless and "from the start" is not (the argument behind the reviewed APPEND entry, in the small) -/

/-- what a slice header of length `len` over the backing array `arr` denotes -/
def view (arr : List UInt8) (len : Nat) : List UInt8 := arr.take len

/-- `append(x, ys...)` with spare capacity, `x` a header of length `len` over `arr`: cells `len ..< len + |ys|` are overwritten -/
def appendInPlace (arr : List UInt8) (len : Nat) (ys : List UInt8) : List UInt8 :=
  arr.take len ++ ys ++ arr.drop (len + ys.length)

/-- `strconv.AppendInt(x[:0], …)`: the digits are written from cell 0 on -/
def rewriteInPlace (arr : List UInt8) (ys : List UInt8) : List UInt8 := ys ++ arr.drop ys.length

/-- an in-place append leaves every header of length ≤ `len` over the same array (a reply taken earlier) reading what it read before -/
theorem append_in_place_keeps_shorter_views (arr ys : List UInt8) (len n : Nat) (hn : n ≤ len) (hl : len ≤ arr.length) :
    view (appendInPlace arr len ys) n = view arr n := by
  unfold view appendInPlace
  have h1 : n ≤ (arr.take len).length := by simp [List.length_take]; omega
  rw [List.append_assoc, List.take_append_of_le_length h1, List.take_take]
  congr 1
  omega

example : view (appendInPlace [0x31, 0x0d, 0x0a] 1 [0x39]) 1 = view [0x31, 0x0d, 0x0a] 1 := by decide

/-- … and the new header denotes the old bytes followed by the appended ones -/
theorem append_in_place_result (arr ys : List UInt8) (len : Nat) (hl : len ≤ arr.length) :
    view (appendInPlace arr len ys) (len + ys.length) = view arr len ++ ys := by
  unfold view appendInPlace
  have h : (arr.take len ++ ys).length = len + ys.length := by simp [List.length_take]; omega
  rw [← h, List.take_left]

/-- the seeded HINCRBY: "99" (parser buffer `99\r\n`) rewritten from cell 0 with "100" — a reply holding the old header (length 2) now reads "10",
    a value the field never held -/
theorem rewrite_in_place_changes_view :
    view (rewriteInPlace [0x39, 0x39, 0x0d, 0x0a] [0x31, 0x30, 0x30]) 2 = [0x31, 0x30] ∧ view [0x39, 0x39, 0x0d, 0x0a] 2 = [0x39, 0x39] := by decide

end AliasSites
