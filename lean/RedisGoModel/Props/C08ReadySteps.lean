import RedisGoModel.Props.C08ReadyInv
/-! Preservation of `Inv` by the statements of the arm.  Core Lean only. -/
namespace ReadyLoop

/-- decide a membership in a concrete `todo` that sits under a structure projection -/
macro "tdec" : tactic => `(tactic| first | decide | (dsimp only; decide))

theorem Grows.refl (v : View) : Grows v v := ⟨rfl, Nat.le_refl _, Nat.le_refl _, fun _ hx _ => hx⟩

/-- the disk changed without new hard states or entries: every crash image of the new disk is a crash image of the old one, grown -/
structure DiskGrows (d d' : Disk) : Prop where
  imgs : ∀ {P P' : View → Prop}, (∀ v v', Grows v v' → P v → P' v') → (∀ k, ∃ v, replay d k = some v ∧ P v) →
    ∀ k, ∃ v, replay d' k = some v ∧ P' v
  full : ∀ {P P' : View → Prop}, (∀ v v', Grows v v' → P v → P' v') → (∃ v, replay d d.buffered.length = some v ∧ P v) →
    ∃ v, replay d' d'.buffered.length = some v ∧ P' v
  files : ∀ f ∈ d.files, f ∈ d'.files
  recs : ∀ p ∈ snapRecs d.all, p ∈ snapRecs d'.all

theorem DiskGrows.rfl' (d : Disk) : DiskGrows d d where
  imgs := fun hp h k => by obtain ⟨v, hv, hP⟩ := h k; exact ⟨v, hv, hp v v (Grows.refl v) hP⟩
  full := fun hp h => by obtain ⟨v, hv, hP⟩ := h; exact ⟨v, hv, hp v v (Grows.refl v) hP⟩
  files := fun _ hf => hf
  recs := fun _ hp => hp

theorem DiskGrows.addFile (d : Disk) (f : Snap) : DiskGrows d { d with files := d.files ++ [f] } where
  imgs := fun hp h => imgs_files f h hp
  full := fun hp h => by
    obtain ⟨v, hv, hP⟩ := h
    obtain ⟨v', hv', g⟩ := grow_files f (show replayRecs (d.image d.buffered.length).synced d.files = some v from hv)
    exact ⟨v', hv', hp v v' g hP⟩
  files := fun _ hf => List.mem_append_left _ hf
  recs := fun _ hp => hp

theorem DiskGrows.flush (d : Disk) : DiskGrows d d.flush where
  imgs := fun hp h k => by
    obtain ⟨v, hv, hP⟩ := h d.buffered.length
    exact ⟨v, by rw [replay_flush]; exact hv, hp v v (Grows.refl v) hP⟩
  full := fun hp h => by
    obtain ⟨v, hv, hP⟩ := h
    exact ⟨v, by rw [full_flush]; exact hv, hp v v (Grows.refl v) hP⟩
  files := fun _ hf => hf
  recs := fun _ hp => by simpa [Disk.flush, Disk.all] using hp

theorem DiskGrows.writeSnap (d : Disk) (i t : Nat) : DiskGrows d (d.write [.snap i t]) where
  imgs := fun {P P'} hp h => by
    apply imgs_write1 (P := P) (.snap i t) h (fun v hP => hp v v (Grows.refl v) hP)
    obtain ⟨v, hv, hP⟩ := h d.buffered.length
    rw [replay_full] at hv
    obtain ⟨v', hv', g⟩ := grow_snaprec i t hv
    exact ⟨v', hv', hp v v' g hP⟩
  full := fun hp h => by
    obtain ⟨v, hv, hP⟩ := h
    rw [replay_full] at hv
    obtain ⟨v', hv', g⟩ := grow_snaprec i t hv
    exact ⟨v', by rw [full_write1]; exact hv', hp v v' g hP⟩
  files := fun _ hf => hf
  recs := fun p hp => by
    simp only [Disk.write, Disk.all] at hp ⊢
    rw [← List.append_assoc, snapRecs_append]
    exact List.mem_append_left _ hp

theorem mem_writeSnap (d : Disk) (i t : Nat) : (i, t) ∈ snapRecs (d.write [.snap i t]).all := by
  simp only [Disk.write, Disk.all]
  rw [← List.append_assoc, snapRecs_append]
  simp [snapRecs]

/-! ### suffixes of the arm -/

theorem tails_tail {α : Type} {a : α} {l m : List α} (h : (a :: l) ∈ tailsOf m) : l ∈ tailsOf m := by
  induction m with
  | nil => simp [tailsOf] at h
  | cons b m ih =>
    simp only [tailsOf, List.mem_cons] at h ⊢
    rcases h with h | h
    · have : l = m := by injection h
      subst this
      right
      cases l with
      | nil => simp [tailsOf]
      | cons x xs => simp [tailsOf]
    · right; exact ih h

theorem tails_last {st : Stmt} (h : [st] ∈ tailsOf theArm) : st = .advance := by
  simp [tailsOf, theArm] at h; exact h

theorem tails_nodup {st : Stmt} {rest : List Stmt} (h : (st :: rest) ∈ tailsOf theArm) : st ∉ rest := by
  simp only [tailsOf, theArm, List.mem_cons, List.mem_nil_iff, or_false] at h
  rcases h with h | h | h | h | h | h | h | h | h | h | h | h | h | h | h | h | h <;>
    first
    | (injection h with h1 h2; subst h1; subst h2; decide)
    | (exact absurd h (by simp))

theorem mem_rest {s : State} {st : Stmt} {rest : List Stmt} (ht : s.todo = st :: rest) (x : Stmt) (hx : x ∈ rest) : x ∈ s.todo := by
  rw [ht]; exact List.mem_cons_of_mem _ hx

theorem mem_todo {s : State} {st : Stmt} {rest : List Stmt} (ht : s.todo = st :: rest) (x : Stmt) (hne : st ≠ x) (hx : x ∈ s.todo) : x ∈ rest := by
  rw [ht] at hx; rcases List.mem_cons.mp hx with h | h
  · exact absurd h.symm hne
  · exact h

theorem L_skip {s : State} {st : Stmt} {rest : List Stmt} {d' : Disk} (ht : s.todo = st :: rest) (i1 : st ≠ .walWrite) (i2 : st ≠ .append) :
    L { s with disk := d', todo := rest } = L s := by
  unfold L
  have e1 : Stmt.walWrite ∈ rest ↔ Stmt.walWrite ∈ s.todo := ⟨mem_rest ht _, mem_todo ht _ i1⟩
  have e2 : Stmt.append ∈ rest ↔ Stmt.append ∈ s.todo := ⟨mem_rest ht _, mem_todo ht _ i2⟩
  simp only [e1, e2]

/-- `VOk` is not disturbed by dropping `st` from `todo` -/
theorem VOk_skip {s : State} {st : Stmt} {rest : List Stmt} {d' : Disk} (ht : s.todo = st :: rest) (i1 : st ≠ .walWrite) (i2 : st ≠ .append)
    (b : Bool) (i8 : ∀ sn, s.node.trig = some sn → st ≠ (if b then Stmt.trigWalSync else Stmt.trigWalWrite)) (v : View) (hv : VOk s b v) :
    VOk { s with disk := d', todo := rest } b v := by
  refine ⟨by rw [L_skip ht i1 i2]; exact hv.1, fun h1 h2 => hv.2.1 (fun hc => h1 (mem_todo ht _ i1 hc)) h2, ?_⟩
  intro sn hsn h1
  exact hv.2.2 sn hsn (fun hc => h1 (mem_todo ht _ (i8 sn hsn) hc))

/-- **the generic step**: the disk changes, node, Ready and promises stay, `st` leaves `todo`; what the crash images (all of them if the new
    state is settled, and the full one) satisfy is supplied by the caller -/
theorem inv_disk {c : Cfg} {s : State} {st : Stmt} {rest : List Stmt} {d' : Disk} (h : Inv c s) (ht : s.todo = st :: rest)
    (i1 : st ≠ .walWrite) (i5 : st ≠ .advance)
    (eL : L { s with disk := d', todo := rest } = L s) (eP : lastP { s with disk := d', todo := rest } = lastP s)
    (i8 : ∀ sn, s.node.trig = some sn → st ≠ .trigCompact)
    (hsafe : Safe { s with disk := d', todo := rest })
    (hfull : ∃ v, replay d' d'.buffered.length = some v ∧ FullOk { s with disk := d', todo := rest } v)
    (himgs : Settled { s with disk := d', todo := rest } → ∀ k, ∃ v, replay d' k = some v ∧ ImgOk { s with disk := d', todo := rest } v)
    (hfiles : ∀ f ∈ s.disk.files, f ∈ d'.files)
    (hrec : ∀ sn, s.node.trig = some sn → Stmt.trigWalWrite ∉ rest → (sn.index, sn.term) ∈ snapRecs d'.all)
    (hsnapW : Stmt.walWrite ∈ rest → s.rd.snap.isEmpty = false → (Stmt.snapFile ∉ rest → s.rd.snap ∈ d'.files) ∧
      (Stmt.snapWalWrite ∉ rest → (s.rd.snap.index, s.rd.snap.term) ∈ snapRecs d'.all)) :
    Inv c { s with disk := d', todo := rest } := by
  have hsuf : (st :: rest) ∈ tailsOf theArm := ht ▸ h.suf
  have m1 := mem_rest ht
  have m2 := mem_todo ht
  refine
    { down := h.down, suf := tails_tail hsuf, safe := hsafe, full := hfull, imgs := himgs, node := h.node, idle := ?_,
      novote0 := h.novote0, rdW := ?_, post := ?_, trigF := ?_ }
  · intro hr
    have hr' : rest = [] := hr
    subst hr'
    exact absurd (tails_last hsuf) i5
  · intro hw
    obtain ⟨a, b, _⟩ := h.rdW (m1 _ hw)
    exact ⟨a, b, hsnapW hw⟩
  · intro hw hne
    have hp := h.post (fun hc => hw (m2 _ i1 hc)) (by rw [ht]; simp)
    exact
      { snapc := hp.snapc
        appendF := fun ha => hp.appendF (m1 _ ha)
        sendF := fun hs => by rw [eP]; exact hp.sendF (m1 _ hs)
        pubF := fun hpb => by rw [eL]; exact hp.pubF (m1 _ hpb) }
  · intro sn hsn
    obtain ⟨a, b, cc, c2, dd, e⟩ := h.trigF sn hsn
    exact ⟨m2 _ (i8 sn hsn) a, fun hc => b (m1 _ hc), cc, c2, hfiles _ dd, hrec sn hsn⟩

theorem lastP_skip {s : State} {st : Stmt} {rest : List Stmt} {d' : Disk} (ht : s.todo = st :: rest) (i1 : st ≠ .walWrite) (i2 : st ≠ .append)
    (i6 : s.rd.snap.isEmpty = false → st ≠ .applySnap) : lastP { s with disk := d', todo := rest } = lastP s := by
  unfold lastP
  rw [L_skip ht i1 i2]
  by_cases hsn : s.rd.snap.isEmpty = false
  · have e1 : Stmt.applySnap ∈ rest ↔ Stmt.applySnap ∈ s.todo := ⟨mem_rest ht _, mem_todo ht _ (i6 hsn)⟩
    simp only [e1]
  · simp at hsn; simp [hsn]

theorem safe_grows {s : State} {d' : Disk} {rest : List Stmt} (hg : DiskGrows s.disk d') (h : Safe s) :
    Safe { s with disk := d', todo := rest } :=
  hg.imgs (P := fun v => ∀ p ∈ s.owed, p.holds v) (fun _ _ g hp p hpm => g.holds p (hp p hpm)) h

/-- the generic step for a disk that only grew, the crash images of a settled new state supplied by the caller -/
theorem inv_grow' {c : Cfg} {s : State} {st : Stmt} {rest : List Stmt} {d' : Disk} (h : Inv c s) (ht : s.todo = st :: rest)
    (i1 : st ≠ .walWrite) (i2 : st ≠ .append) (i5 : st ≠ .advance)
    (i6 : s.rd.snap.isEmpty = false → st ≠ .applySnap)
    (i8 : ∀ sn, s.node.trig = some sn → st ≠ .trigWalWrite ∧ st ≠ .trigCompact)
    (hg : DiskGrows s.disk d')
    (himgs : Settled { s with disk := d', todo := rest } → ∀ k, ∃ v, replay d' k = some v ∧ ImgOk { s with disk := d', todo := rest } v)
    (hsnapW : Stmt.walWrite ∈ rest → s.rd.snap.isEmpty = false → (Stmt.snapFile ∉ rest → s.rd.snap ∈ d'.files) ∧
      (Stmt.snapWalWrite ∉ rest → (s.rd.snap.index, s.rd.snap.term) ∈ snapRecs d'.all)) :
    Inv c { s with disk := d', todo := rest } := by
  refine inv_disk h ht i1 i5 (L_skip ht i1 i2) (lastP_skip ht i1 i2 i6) (fun sn hsn => (i8 sn hsn).2) (safe_grows hg h.safe) ?_ himgs hg.files ?_ hsnapW
  · exact hg.full (fun v v' g hF => (FullOk.grows g ⟨hF.1, VOk_skip ht i1 i2 false (fun sn hsn => (i8 sn hsn).1) _ hF.2⟩ :
      FullOk { s with disk := d', todo := rest } v')) h.full
  · intro sn hsn hw
    exact hg.recs _ ((h.trigF sn hsn).2.2.2.2.2 (fun hc => hw (mem_todo ht _ (i8 sn hsn).1 hc)))

/-- the generic step when nothing becomes settled by it -/
theorem inv_grow {c : Cfg} {s : State} {st : Stmt} {rest : List Stmt} {d' : Disk} (h : Inv c s) (ht : s.todo = st :: rest)
    (i1 : st ≠ .walWrite) (i2 : st ≠ .append) (i5 : st ≠ .advance)
    (i6 : s.rd.snap.isEmpty = false → st ≠ .applySnap ∧ st ≠ .walSync) (i7 : s.node.mustSync = true → st ≠ .walFlush)
    (i8 : ∀ sn, s.node.trig = some sn → st ≠ .trigWalWrite ∧ st ≠ .trigCompact ∧ st ≠ .trigWalSync)
    (hg : DiskGrows s.disk d')
    (hsnapW : Stmt.walWrite ∈ rest → s.rd.snap.isEmpty = false → (Stmt.snapFile ∉ rest → s.rd.snap ∈ d'.files) ∧
      (Stmt.snapWalWrite ∉ rest → (s.rd.snap.index, s.rd.snap.term) ∈ snapRecs d'.all)) :
    Inv c { s with disk := d', todo := rest } := by
  refine inv_grow' h ht i1 i2 i5 (fun hsn => (i6 hsn).1) (fun sn hsn => ⟨(i8 sn hsn).1, (i8 sn hsn).2.1⟩) hg ?_ hsnapW
  intro hs
  have hs' : Settled s := by
    refine ⟨fun hf => ?_, fun hsn => ?_⟩
    · by_cases hst : st = .walFlush
      · right
        cases hm : s.node.mustSync with
        | false => rfl
        | true => exact absurd hst (i7 hm)
      · rcases hs.1 (mem_todo ht _ hst hf) with h1 | h1
        · left; exact mem_rest ht _ h1
        · right; exact h1
    · rcases hs.2 hsn with h1 | h1
      · left; exact mem_rest ht _ h1
      · right; exact fun hc => h1 (mem_todo ht _ (i6 hsn).2 hc)
  exact hg.imgs (fun v v' g hI => (ImgOk.grows g ⟨hI.1, hI.2.1, VOk_skip ht i1 i2 true (fun sn hsn => (i8 sn hsn).2.2) _ hI.2.2⟩ :
    ImgOk { s with disk := d', todo := rest } v')) (h.imgs hs')

/-- a flush makes every crash image the full one -/
theorem imgs_of_full {s s' : State} (hd : s'.disk = s.disk.flush) (h : ∃ v, replay s.disk s.disk.buffered.length = some v ∧ FullOk s v)
    (hp : ∀ v, FullOk s v → ImgOk s' v) : ∀ k, ∃ v, replay s'.disk k = some v ∧ ImgOk s' v := by
  intro k
  obtain ⟨v, hv, hF⟩ := h
  exact ⟨v, by rw [hd, replay_flush]; exact hv, hp v hF⟩

end ReadyLoop
