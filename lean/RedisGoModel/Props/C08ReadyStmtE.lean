import RedisGoModel.Props.C08ReadyStmtD
/-! Preservation of `Inv`: maybeTriggerSnapshot's first and last step, Node.Advance.  Core Lean only. -/
namespace ReadyLoop

variable {c : Cfg} {s : State} {rest : List Stmt}

theorem inv_trigFile (h : Inv c s) (ht : s.todo = .trigFile :: rest) : Inv c { exec c s .trigFile with todo := rest } := by
  have hr := tails_eq (ht ▸ h.suf); subst hr
  have hw : Stmt.walWrite ∉ s.todo := by rw [ht]; decide
  have hp := h.post hw (by rw [ht]; simp)
  have htn := trig_none h (by rw [ht]; decide)
  have hset : Settled s := settled_late (by rw [ht]; decide) (by rw [ht]; decide)
  have eL : L s = s.node := by unfold L; rw [if_neg (fun hc => absurd hc.2 (by rw [ht]; decide))]
  by_cases hg : s.node.applied - s.node.snapIndex ≤ c.snapCount
  · let n' : Node := { s.node with trig := none }
    have hex : exec c s .trigFile = { s with node := n' } := by simp [exec, hg, n']
    rw [hex]
    show Inv c { s with node := n', todo := after .trigFile }
    have eL' : L { s with node := n', todo := after .trigFile } = n' := by
      unfold L; rw [if_neg (fun hc => absurd hc.2 (by tdec))]
    refine inv_nodeT (s := s) n' h ht hw (by decide) rfl (fun _ => hset) ?_ ?_ ?_ ?_
    · intro b v hv
      have hc := hv.1
      rw [eL] at hc
      have hr3 : s.node.last ≤ v.last := cover_reach hc
      have hs3 : s.node.snapIndex ≤ v.snap.index := cover_snap hc
      refine ⟨?_, fun _ hsn => hv.2.1 hw hsn, fun sn hs2 => by cases hs2⟩
      rw [eL']
      exact cover_intro (fun e he => cover_ent hc he) hr3 hs3
    · exact { contig := h.node.contig, offc := h.node.offc, appc := h.node.appc, ws := h.node.ws }
    · intro _
      exact
        { snapc := hp.snapc
          appendF := fun hc => absurd hc (by tdec)
          sendF := fun hc => absurd hc (by tdec)
          pubF := fun hc => absurd hc (by tdec) }
    · intro sn hs2; cases hs2
  · let sn : Snap := { index := s.node.applied, term := termAt s.node s.node.applied, conf := s.node.conf, data := s.node.applied }
    let n' : Node := { s.node with trig := some sn, snap := sn }
    let d' : Disk := { s.disk with files := s.disk.files ++ [sn] }
    have hex : exec c s .trigFile = { s with disk := d', node := n' } := by simp [exec, hg, n', sn, d']
    rw [hex]
    show Inv c { s with disk := d', todo := after .trigFile, node := n' }
    have h1 : Inv c { s with disk := d', todo := after .trigFile } :=
      inv_grow (s := s) h ht (by decide) (by decide) (by decide) (fun _ => ⟨by decide, by decide⟩)
        (fun _ => by decide) (fun sn hsn => by rw [htn] at hsn; cases hsn) (DiskGrows.addFile _ _) (fun hc => absurd hc (by decide))
    have eL1 : L { s with disk := d', todo := after .trigFile } = s.node := by
      unfold L; rw [if_neg (fun hc => absurd hc.2 (by tdec))]
    have eL' : L { s with disk := d', todo := after .trigFile, node := n' } = n' := by
      unfold L; rw [if_neg (fun hc => absurd hc.2 (by tdec))]
    refine inv_node (s := { s with disk := d', todo := after .trigFile }) n' h1 (by tdec) rfl rfl ?_ ?_ ?_ ?_
    · intro b v hv
      have hc := hv.1
      rw [eL1] at hc
      have hr3 : s.node.last ≤ v.last := cover_reach hc
      have hs3 : s.node.snapIndex ≤ v.snap.index := cover_snap hc
      refine ⟨?_, fun _ hsn => hv.2.1 (by tdec) hsn, ?_⟩
      · rw [eL']; exact cover_intro (fun e he => cover_ent hc he) hr3 hs3
      · intro sn' _ hcx
        cases b with
        | true => exact absurd (show Stmt.trigWalSync ∈ after .trigFile by decide) hcx
        | false => exact absurd (show Stmt.trigWalWrite ∈ after .trigFile by decide) hcx
    · exact { contig := h.node.contig, offc := h.node.offc, appc := h.node.appc, ws := h.node.ws }
    · intro _ hp1
      exact
        { snapc := hp1.snapc
          appendF := fun hc => absurd hc (by tdec)
          sendF := fun hc => absurd hc (by tdec)
          pubF := fun hc => absurd hc (by tdec) }
    · intro sn' hs2
      have : sn' = sn := (Option.some.inj hs2).symm
      subst this
      refine ⟨by tdec, by tdec, rfl, ?_, ?_, fun hcx => absurd (show Stmt.trigWalWrite ∈ after .trigFile by decide) hcx⟩
      · show 0 < s.node.applied; omega
      · show sn ∈ s.disk.files ++ [sn]; simp

theorem contig_drop {b u : Nat} {l : List Entry} (h : Contig b l) : Contig (b + u) (l.drop u) := by
  intro j e hj
  rw [List.getElem?_drop] at hj
  have := h (u + j) e hj
  omega

theorem inv_trigCompact (h : Inv c s) (ht : s.todo = .trigCompact :: rest) : Inv c { exec c s .trigCompact with todo := rest } := by
  cases htr : s.node.trig with
  | none => exact inv_trigCompact_none h ht htr
  | some sn0 =>
  have hr := tails_eq (ht ▸ h.suf); subst hr
  have hw : Stmt.walWrite ∉ s.todo := by rw [ht]; decide
  have hp := h.post hw (by rw [ht]; simp)
  have hset : Settled s := settled_late (by rw [ht]; decide) (by rw [ht]; decide)
  have eL : L s = s.node := by unfold L; rw [if_neg (fun hc => absurd hc.2 (by rw [ht]; decide))]
  obtain ⟨_, _, hidx, hpos, _, _⟩ := h.trigF sn0 htr
  let ci : Nat := if s.node.applied > c.catchUp then s.node.applied - c.catchUp else 1
  have hci : ci ≤ s.node.applied := by
    show (if s.node.applied > c.catchUp then s.node.applied - c.catchUp else 1) ≤ s.node.applied
    split <;> omega
  let n0 : Node := if ci ≤ s.node.off then s.node else { s.node with off := ci, ents := s.node.ents.drop (ci - s.node.off) }
  let n' : Node := { n0 with snapIndex := s.node.applied, trig := none }
  have hex : exec c s .trigCompact = { s with node := n' } := by simp [exec, htr, n', n0, ci]
  rw [hex]
  show Inv c { s with node := n', todo := after .trigCompact }
  have eL' : L { s with node := n', todo := after .trigCompact } = n' := by
    unfold L; rw [if_neg (fun hc => absurd hc.2 (by tdec))]
  -- the compacted log
  have hn0 : (n0.hs = s.node.hs ∧ n0.applied = s.node.applied ∧ n0.walState = s.node.walState) ∧ Contig n0.off n0.ents ∧ n0.off ≤ s.node.applied ∨ n0 = s.node := by
    by_cases hle : ci ≤ s.node.off
    · right; show (if ci ≤ s.node.off then s.node else _) = s.node; rw [if_pos hle]
    · left
      have e0 : n0 = { s.node with off := ci, ents := s.node.ents.drop (ci - s.node.off) } := by
        show (if ci ≤ s.node.off then s.node else _) = _; rw [if_neg hle]
      rw [e0]
      refine ⟨⟨rfl, rfl, rfl⟩, ?_, hci⟩
      have := contig_drop (u := ci - s.node.off) h.node.contig
      have e1 : s.node.off + (ci - s.node.off) = ci := by omega
      rw [e1] at this; exact this
  have hcov : ∀ v, Cover v s.node → s.node.applied ≤ v.snap.index → Cover v n' := by
    intro v hc happ
    have hr3 : s.node.last ≤ v.last := cover_reach hc
    by_cases hle : ci ≤ s.node.off
    · have e0 : n0 = s.node := by show (if ci ≤ s.node.off then s.node else _) = s.node; rw [if_pos hle]
      refine cover_intro ?_ ?_ happ
      · intro e he; have he' : e ∈ n0.ents := he; rw [e0] at he'; exact cover_ent hc he'
      · show n0.off + n0.ents.length ≤ v.last; rw [e0]; exact hr3
    · have e0 : n0 = { s.node with off := ci, ents := s.node.ents.drop (ci - s.node.off) } := by
        show (if ci ≤ s.node.off then s.node else _) = _; rw [if_neg hle]
      refine cover_intro ?_ ?_ happ
      · intro e he; have he' : e ∈ n0.ents := he; rw [e0] at he'; exact cover_ent hc (List.mem_of_mem_drop he')
      · show n0.off + n0.ents.length ≤ v.last
        rw [e0]
        show ci + (s.node.ents.drop (ci - s.node.off)).length ≤ v.last
        rw [List.length_drop]
        have := view_le_last v
        unfold Node.last at hr3
        omega
  refine inv_nodeT (s := s) n' h ht hw (by decide) ?_ (fun _ => hset) ?_ ?_ ?_ ?_
  · show n0.hs = s.node.hs
    rcases hn0 with ⟨⟨a, _, _⟩, _, _⟩ | a
    · exact a
    · rw [a]
  · intro b v hv
    have hc := hv.1
    rw [eL] at hc
    have happ : s.node.applied ≤ v.snap.index := by
      have := hv.2.2 sn0 htr (by cases b <;> (rw [ht]; decide))
      omega
    refine ⟨by rw [eL']; exact hcov v hc happ, fun _ hsn => hv.2.1 hw hsn, fun sn hs2 => by cases hs2⟩
  · rcases hn0 with ⟨⟨a, b, cc⟩, d, e⟩ | a
    · exact
        { contig := d
          offc := by show n0.off ≤ n0.hs.commit; rw [a]; exact Nat.le_trans e h.node.appc
          appc := by show n0.applied ≤ n0.hs.commit; rw [a, b]; exact h.node.appc
          ws := by
            show n0.walState = {} ∨ (n0.walState.term = n0.hs.term ∧ n0.walState.vote = n0.hs.vote)
            rw [cc, a]; exact h.node.ws }
    · exact
        { contig := by show Contig n0.off n0.ents; rw [a]; exact h.node.contig
          offc := by show n0.off ≤ n0.hs.commit; rw [a]; exact h.node.offc
          appc := by show n0.applied ≤ n0.hs.commit; rw [a]; exact h.node.appc
          ws := by
            show n0.walState = {} ∨ (n0.walState.term = n0.hs.term ∧ n0.walState.vote = n0.hs.vote)
            rw [a]; exact h.node.ws }
  · intro _
    exact
      { snapc := fun hsn => by
          have := hp.snapc hsn
          refine ⟨?_, this.2⟩
          show s.rd.snap.index ≤ n0.hs.commit
          rcases hn0 with ⟨⟨a, _, _⟩, _, _⟩ | a
          · rw [a]; exact this.1
          · rw [a]; exact this.1
        appendF := fun hc => absurd hc (by tdec)
        sendF := fun hc => absurd hc (by tdec)
        pubF := fun hc => absurd hc (by tdec) }
  · intro sn hs2; cases hs2

theorem inv_advance (h : Inv c s) (ht : s.todo = .advance :: rest) : Inv c { exec c s .advance with todo := rest } := by
  have hr := tails_eq (ht ▸ h.suf); subst hr
  have hset : Settled s := settled_late (by rw [ht]; decide) (by rw [ht]; decide)
  have eL : L s = s.node := by unfold L; rw [if_neg (fun hc => absurd hc.2 (by rw [ht]; decide))]
  have htn : s.node.trig = none := by
    cases htr : s.node.trig with
    | none => rfl
    | some sn => exact absurd (h.trigF sn htr).1 (by rw [ht]; decide)
  show Inv c { s with rd := {}, todo := [] }
  have eL' : L { s with rd := {}, todo := [] } = s.node := by
    unfold L; rw [if_neg (fun hc => absurd hc.2 (by tdec))]
  have hV : ∀ b v, VOk s b v → VOk { s with rd := {}, todo := [] } b v := by
    intro b v hv
    have hc := hv.1
    rw [eL] at hc
    exact ⟨by rw [eL']; exact hc, fun _ hsn => absurd hsn (by tdec), fun sn hs2 => by rw [htn] at hs2; cases hs2⟩
  exact
    { down := h.down
      suf := by simp [tailsOf, theArm]
      safe := h.safe
      full := by
        obtain ⟨v, hv, hF⟩ := h.full
        exact ⟨v, hv, hF.1, hV _ _ hF.2⟩
      imgs := fun _ k => by
        obtain ⟨v, hv, hI⟩ := h.imgs hset k
        exact ⟨v, hv, hI.1, hI.2.1, hV _ _ hI.2.2⟩
      node := h.node
      idle := fun _ => rfl
      novote0 := h.novote0
      rdW := fun hc => absurd hc (by tdec)
      post := fun _ hne => absurd rfl hne
      trigF := fun sn hs2 => by rw [htn] at hs2; cases hs2 }

end ReadyLoop
