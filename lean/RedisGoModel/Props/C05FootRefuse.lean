import RedisGoModel.Props.C05FootBase
/-! C05 footprint theorems: the refusals of `Exec.lockPlan`.  `CmdRefuse c rf`: a call that the refusal predicate `rf` flags (an option /
    integer / float syntax error detected between the arity test and the first `CheckTTL`) is answered without consulting the keyspace:
    the keyspace is returned as it came and the reply does not depend on it (`NoneOk`).  One lemma per command with a refusal
    predicate; the others have `rfNever`. -/
namespace Exec.Foot
open Resp (Reply Bytes)
open Exec

/-- a call the refusal predicate `rf` flags does not consult the keyspace -/
abbrev CmdRefuse (c : Cmd) (rf : Refusal) : Prop := ∀ (env : Env) (args : List Bytes), rf env args = true → NoneOk c env args

macro "ft_refuse" : tactic => `(tactic|
  (refine ⟨?_, fun b => ?_⟩ <;>
   repeat' (first | rfl | (exfalso; simp_all; done) | split | dsimp only)))

theorem r_never (c : Cmd) : CmdRefuse c rfNever := fun _ _ h => nomatch h

theorem r_set : CmdRefuse cmdSet rfSet := by
  intro env args h a; unfold rfSet at h; unfold cmdSet; ft_refuse
theorem r_setrange : CmdRefuse cmdSetRange rfSetRange := by
  intro env args h a; unfold rfSetRange at h; unfold cmdSetRange; ft_refuse
theorem r_setex : CmdRefuse cmdSetEx rfSetEx := by
  intro env args h a; unfold rfSetEx at h; unfold cmdSetEx; ft_refuse
theorem r_incrby : CmdRefuse cmdIncrBy rfInt2 := by
  intro env args h a; unfold rfInt2 at h; unfold cmdIncrBy; ft_refuse
theorem r_decrby : CmdRefuse cmdDecrBy rfDecrBy := by
  intro env args h a; unfold rfDecrBy at h; unfold cmdDecrBy; ft_refuse
theorem r_incrbyfloat : CmdRefuse cmdIncrByFloat rfIncrByFloat := by
  intro env args h a; unfold rfIncrByFloat at h; unfold cmdIncrByFloat; ft_refuse
theorem r_expire : CmdRefuse cmdExpire rfExpire := by
  intro env args h a; unfold rfExpire at h; unfold cmdExpire; ft_refuse
theorem r_spop : CmdRefuse cmdSPop rfCountNat := by
  intro env args h a; unfold rfCountNat at h; unfold cmdSPop; ft_refuse
theorem r_srandmember : CmdRefuse cmdSRandMember rfSRandMember := by
  intro env args h a; unfold rfSRandMember at h; unfold cmdSRandMember; ft_refuse
theorem r_hincrby : CmdRefuse cmdHIncrBy rfInt3 := by
  intro env args h a; unfold rfInt3 at h; unfold cmdHIncrBy; ft_refuse
theorem r_hincrbyfloat : CmdRefuse cmdHIncrByFloat rfHIncrByFloat := by
  intro env args h a; unfold rfHIncrByFloat at h; unfold cmdHIncrByFloat; ft_refuse
theorem r_hrandfield : CmdRefuse cmdHRandField rfHRandField := by
  intro env args h a; unfold rfHRandField rfHRandCount at h; unfold cmdHRandField hrandWithCount; ft_refuse
theorem r_lindex : CmdRefuse cmdLIndex rfInt2 := by
  intro env args h a; unfold rfInt2 at h; unfold cmdLIndex; ft_refuse
theorem r_lpos : CmdRefuse cmdLPos rfLPos := by
  intro env args h a; unfold rfLPos at h; unfold cmdLPos; ft_refuse
theorem r_lpop : CmdRefuse cmdLPop rfCountNat := by
  intro env args h a; unfold rfCountNat at h; unfold cmdLPop popGen; ft_refuse
theorem r_rpop : CmdRefuse cmdRPop rfCountNat := by
  intro env args h a; unfold rfCountNat at h; unfold cmdRPop popGen; ft_refuse
theorem r_lset : CmdRefuse cmdLSet rfInt2 := by
  intro env args h a; unfold rfInt2 at h; unfold cmdLSet; ft_refuse
theorem r_lrem : CmdRefuse cmdLRem rfInt2 := by
  intro env args h a; unfold rfInt2 at h; unfold cmdLRem; ft_refuse
theorem r_ltrim : CmdRefuse cmdLTrim rfInt23 := by
  intro env args h a; unfold rfInt23 at h; unfold cmdLTrim; ft_refuse
theorem r_lrange : CmdRefuse cmdLRange rfInt23 := by
  intro env args h a; unfold rfInt23 at h; unfold cmdLRange; ft_refuse
theorem r_lmove : CmdRefuse cmdLMove rfLMove := by
  intro env args h a; unfold rfLMove at h; unfold cmdLMove; ft_refuse
theorem r_blpop : CmdRefuse cmdBLPop rfBPop := by
  intro env args h a; unfold rfBPop at h; unfold cmdBLPop bpopGen; ft_refuse
theorem r_brpop : CmdRefuse cmdBRPop rfBPop := by
  intro env args h a; unfold rfBPop at h; unfold cmdBRPop bpopGen; ft_refuse
theorem r_zadd : CmdRefuse cmdZAdd rfZAdd := by
  intro env args h a; unfold rfZAdd at h; unfold cmdZAdd; ft_refuse
theorem r_zrange : CmdRefuse cmdZRange rfZRange := by
  intro env args h a; unfold rfZRange at h; unfold cmdZRange; ft_refuse
theorem r_xadd : CmdRefuse cmdXAdd rfXAdd := by
  intro env args h a; unfold rfXAdd at h; unfold cmdXAdd; ft_refuse
theorem r_xrange : CmdRefuse cmdXRange rfXRange := by
  intro env args h a; unfold rfXRange at h; unfold cmdXRange; ft_refuse

/-- every row of the footprint table: a call flagged by the row's refusal predicate does not consult the keyspace -/
theorem table_refuse : ∀ p ∈ footTable, CmdRefuse p.2.1 p.2.2.2 :=
  List.forall_mem_cons.mpr ⟨r_set, List.forall_mem_cons.mpr ⟨r_never _, List.forall_mem_cons.mpr ⟨r_never _, List.forall_mem_cons.mpr ⟨r_setrange, List.forall_mem_cons.mpr ⟨r_never _, List.forall_mem_cons.mpr ⟨r_never _, List.forall_mem_cons.mpr ⟨r_setex, List.forall_mem_cons.mpr ⟨r_never _, List.forall_mem_cons.mpr ⟨r_never _, List.forall_mem_cons.mpr ⟨r_never _, List.forall_mem_cons.mpr ⟨r_incrby, List.forall_mem_cons.mpr ⟨r_never _, List.forall_mem_cons.mpr ⟨r_decrby, List.forall_mem_cons.mpr ⟨r_incrbyfloat, List.forall_mem_cons.mpr ⟨r_never _, List.forall_mem_cons.mpr ⟨r_never _, List.forall_mem_cons.mpr ⟨r_never _, List.forall_mem_cons.mpr ⟨r_never _, List.forall_mem_cons.mpr ⟨r_never _, List.forall_mem_cons.mpr ⟨r_expire, List.forall_mem_cons.mpr ⟨r_never _, List.forall_mem_cons.mpr ⟨r_never _, List.forall_mem_cons.mpr ⟨r_never _, List.forall_mem_cons.mpr ⟨r_never _, List.forall_mem_cons.mpr ⟨r_never _, List.forall_mem_cons.mpr ⟨r_never _, List.forall_mem_cons.mpr ⟨r_never _, List.forall_mem_cons.mpr ⟨r_never _, List.forall_mem_cons.mpr ⟨r_never _, List.forall_mem_cons.mpr ⟨r_never _, List.forall_mem_cons.mpr ⟨r_never _, List.forall_mem_cons.mpr ⟨r_never _, List.forall_mem_cons.mpr ⟨r_never _, List.forall_mem_cons.mpr ⟨r_spop, List.forall_mem_cons.mpr ⟨r_srandmember, List.forall_mem_cons.mpr ⟨r_never _, List.forall_mem_cons.mpr ⟨r_never _, List.forall_mem_cons.mpr ⟨r_never _, List.forall_mem_cons.mpr ⟨r_never _, List.forall_mem_cons.mpr ⟨r_never _, List.forall_mem_cons.mpr ⟨r_never _, List.forall_mem_cons.mpr ⟨r_never _, List.forall_mem_cons.mpr ⟨r_never _, List.forall_mem_cons.mpr ⟨r_never _, List.forall_mem_cons.mpr ⟨r_never _, List.forall_mem_cons.mpr ⟨r_never _, List.forall_mem_cons.mpr ⟨r_never _, List.forall_mem_cons.mpr ⟨r_never _, List.forall_mem_cons.mpr ⟨r_never _, List.forall_mem_cons.mpr ⟨r_never _, List.forall_mem_cons.mpr ⟨r_never _, List.forall_mem_cons.mpr ⟨r_never _, List.forall_mem_cons.mpr ⟨r_hincrby, List.forall_mem_cons.mpr ⟨r_hincrbyfloat, List.forall_mem_cons.mpr ⟨r_hrandfield, List.forall_mem_cons.mpr ⟨r_never _, List.forall_mem_cons.mpr ⟨r_lindex, List.forall_mem_cons.mpr ⟨r_lpos, List.forall_mem_cons.mpr ⟨r_lpop, List.forall_mem_cons.mpr ⟨r_rpop, List.forall_mem_cons.mpr ⟨r_never _, List.forall_mem_cons.mpr ⟨r_never _, List.forall_mem_cons.mpr ⟨r_never _, List.forall_mem_cons.mpr ⟨r_never _, List.forall_mem_cons.mpr ⟨r_lset, List.forall_mem_cons.mpr ⟨r_lrem, List.forall_mem_cons.mpr ⟨r_ltrim, List.forall_mem_cons.mpr ⟨r_lrange, List.forall_mem_cons.mpr ⟨r_lmove, List.forall_mem_cons.mpr ⟨r_blpop, List.forall_mem_cons.mpr ⟨r_brpop, List.forall_mem_cons.mpr ⟨r_zadd, List.forall_mem_cons.mpr ⟨r_never _, List.forall_mem_cons.mpr ⟨r_zrange, List.forall_mem_cons.mpr ⟨r_never _, List.forall_mem_cons.mpr ⟨r_xadd, List.forall_mem_cons.mpr ⟨r_xrange, fun _ h => nomatch h⟩⟩⟩⟩⟩⟩⟩⟩⟩⟩⟩⟩⟩⟩⟩⟩⟩⟩⟩⟩⟩⟩⟩⟩⟩⟩⟩⟩⟩⟩⟩⟩⟩⟩⟩⟩⟩⟩⟩⟩⟩⟩⟩⟩⟩⟩⟩⟩⟩⟩⟩⟩⟩⟩⟩⟩⟩⟩⟩⟩⟩⟩⟩⟩⟩⟩⟩⟩⟩⟩⟩⟩⟩⟩⟩⟩⟩

end Exec.Foot
