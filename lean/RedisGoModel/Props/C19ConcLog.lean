import RedisGoModel.Props.C19ConcLin
/-! # C19, concurrent: delivery logs, the linearizability theorem, and what is false

* `LogInv` (every reachable state): for every connection `c` and channel `ch`, what `c` has received on `ch` is what the
  specification has delivered after the linearization so far, followed by the message of the Send that currently holds the
  channel's object if that Send has already written to `c` (`inflight`: written, not yet linearized).
* `pubsub_linearizable_partial` — PER-CHANNEL linearizability (statement in its docstring).  `_partial` because
  (a) the delivery logs are compared per (connection, channel): for the interleaving of different channels in one connection's
      log the full statement is FALSE — `cross_channel_order_not_linearizable`, a kernel-checked run of the model (two Sends on
      two channels, two common subscribers, each Send writing to its subscribers one by one) — and the Go code behaves like the
      model there (`Send` holds only its own channel's lock while it writes);
  (b) "each completed operation has EXACTLY one entry in `lin`": here "at least one, inside its interval"; that the tags of `lin`
      are pairwise different and belong to real operations is `each_operation_linearized_once` in `Props/C19ConcUniq.lean`.
* connection death is an environment step that only enables write failures; a prune is linearized as the specification's
  `unsubscribe` of that connection from that channel at the prune step. -/
set_option linter.unusedSimpArgs false
set_option linter.unusedVariables false
namespace PSC
open PubSub (Chan Conn Payload)
variable {n : Nat}

/-! ### the delivery logs, per (connection, channel) -/

/-- what the specification has delivered to `c` on channel `ch` after the abstract history `l` -/
def chOut (l : List PubSub.Op) (c : Conn) (ch : Chan) : List Payload :=
  (((PubSub.run l).outbox c).filter (fun p => p.1 = ch)).map (·.2)

/-- (delivered so far, payload) of a thread inside its delivery loop that has already written to somebody -/
def p4view (th : Thread) : Option (List Conn × Payload) :=
  match th.pc with
  | .p4 _ sent _ => if sent = [] then none else some (sent, th.cur.payload)
  | _ => none

/-- the delivery loop (if any) of the holder of object `o` -/
def view (s : St n) (o : Obj) : Option (List Conn × Payload) := (s.ow o).bind (fun u => p4view (s.thr u))

/-- the message of the Send that currently holds the object of channel `ch`, if it has already been written to `c`: delivered, but
    the Send is linearized only at the end of its loop -/
def inflight (s : St n) (c : Conn) (ch : Chan) : List Payload :=
  match s.table ch with
  | none => []
  | some o =>
    match view s o with
    | some (sent, m) => if c ∈ sent then [m] else []
    | none => []

def LogInv (s : St n) : Prop := ∀ c ch, chLog s c ch = chOut (absLin s.lin) c ch ++ inflight s c ch

theorem chOut_snoc_sub (l : List PubSub.Op) (c' : Conn) (ch' : Chan) (c : Conn) (ch : Chan) :
    chOut (l ++ [.subscribe c' ch']) c ch = chOut l c ch := by
  unfold chOut; rw [run_snoc]; simp only [PubSub.step]; split <;> rfl

theorem chOut_snoc_unsub (l : List PubSub.Op) (c' : Conn) (ch' : Chan) (c : Conn) (ch : Chan) :
    chOut (l ++ [.unsubscribe c' ch']) c ch = chOut l c ch := by
  unfold chOut; rw [run_snoc]; rfl

theorem chOut_snoc_pub (l : List PubSub.Op) (ch' : Chan) (m : Payload) (c : Conn) (ch : Chan) :
    chOut (l ++ [.publish ch' m]) c ch =
      if ch = ch' ∧ (ch', c) ∈ (PubSub.run l).subs then chOut l c ch ++ [m] else chOut l c ch := by
  unfold chOut; rw [run_snoc]; simp only [PubSub.step, PubSub.deliver]
  by_cases h1 : (ch', c) ∈ (PubSub.run l).subs
  · by_cases h2 : ch = ch'
    · subst h2; simp [h1]
    · have : ¬ ch' = ch := fun e => h2 e.symm
      simp [h1, h2, List.filter_append, this]
  · simp [h1]

theorem chOut_publishes_nosubs (x : List PubSub.Op) : ∀ (l : List PubSub.Op) (c : Conn) (ch : Chan),
    (∀ op ∈ x, ∃ ch' m, op = .publish ch' m ∧ ∀ c', (ch', c') ∉ (PubSub.run l).subs) → chOut (l ++ x) c ch = chOut l c ch := by
  induction x with
  | nil => intro l c ch _; simp
  | cons op x ih =>
    intro l c ch h
    obtain ⟨ch', m, e0, hno⟩ := h op (by simp)
    subst e0
    have e : l ++ PubSub.Op.publish ch' m :: x = (l ++ [PubSub.Op.publish ch' m]) ++ x := by simp
    have hx : ∀ op ∈ x, ∃ ch2 m2, op = PubSub.Op.publish ch2 m2 ∧ ∀ c', (ch2, c') ∉ (PubSub.run (l ++ [PubSub.Op.publish ch' m])).subs := by
      intro op hop
      obtain ⟨ch2, m2, e2, hno2⟩ := h op (by simp [hop])
      refine ⟨ch2, m2, e2, ?_⟩
      rw [run_snoc]; simpa [PubSub.step] using hno2
    rw [e, ih (l ++ [PubSub.Op.publish ch' m]) c ch hx, chOut_snoc_pub]
    simp [hno c]

theorem view_congr (s s' : St n) (o : Obj) (how : s'.ow o = s.ow o)
    (hthr : ∀ u, s.ow o = some u → p4view (s'.thr u) = p4view (s.thr u)) : view s' o = view s o := by
  unfold view
  rw [how]
  cases h : s.ow o with
  | none => rfl
  | some u => simp [hthr u h]

@[simp] theorem p4view_ite (c : Prop) [Decidable c] (th : Thread) :
    p4view (if c then { th with lpd := true, exp := 0 } else th) = p4view th := by split <;> rfl

theorem view_lock (s s' : St n) (t : Fin n) (th' : Thread) (o' o : Obj) (h1 : s'.ow = upd s.ow o' (some t))
    (h2 : s'.thr = upd s.thr t th') (hfree : s.ow o' = none) (hnone : ∀ o, s.ow o ≠ some t) (hv : p4view th' = none) :
    view s' o = view s o := by
  unfold view
  rw [h1, h2]
  by_cases e : o = o'
  · subst e; simp [upd, hfree, hv]
  · simp only [upd, if_neg e]
    cases ho : s.ow o with
    | none => rfl
    | some u =>
      have : u ≠ t := fun e2 => hnone o (e2 ▸ ho)
      simp [this]

theorem view_unlock (s s' : St n) (t : Fin n) (th' : Thread) (o' o : Obj) (h1 : s'.ow = upd s.ow o' none)
    (h2 : s'.thr = upd s.thr t th') (hheld : ∀ o, s.ow o = some t ↔ o' = o) (hv : p4view (s.thr t) = none) :
    view s' o = view s o := by
  unfold view
  rw [h1, h2]
  by_cases e : o = o'
  · subst e; simp [upd, (hheld o).2 rfl, hv]
  · simp only [upd, if_neg e]
    cases ho : s.ow o with
    | none => rfl
    | some u =>
      have : u ≠ t := fun e2 => e ((hheld o).1 (e2 ▸ ho)).symm
      simp [this]

/-- except for a successful write and the end of a delivery loop, a step changes no object's view -/
theorem view_frame (s s' : St n) (t : Fin n) (b : Bool) (h : next0 s t b = some s') (hl : LInv s) :
    (∀ o, view s' o = view s o) ∨ (∃ o sent c todo, (s.thr t).pc = .p4 o sent (c :: todo) ∧ b = false) ∨
    (∃ o sent, (s.thr t).pc = .p4 o sent []) := by
  have hown := hl.ow t
  have hk := hl.kind t
  step_cases h
  all_goals (first
    | (right; left; refine ⟨_, _, _, _, by assumption, ?_⟩; simp_all; done)
    | (right; right; exact ⟨_, _, by assumption⟩)
    | left)
  all_goals intro o
  all_goals (try (apply view_congr <;> simp [setT, fin, upd] <;> (intro u hu; by_cases e : u = t <;> simp_all [p4view]) ; done))
  all_goals (try (unfold view; simp [setT, fin, upd]; split <;> simp_all [p4view]; done))
  all_goals simp only [setT, fin]
  all_goals (first
    | exact view_lock s _ t _ _ o rfl rfl (by assumption) (by simp_all) (by simp [p4view])
    | exact view_unlock s _ t _ _ o rfl rfl (by simp_all) (by simp_all [p4view]))

theorem inflight_congr (s s' : St n) (c : Conn) (ch : Chan) (hv : ∀ o, view s' o = view s o)
    (htab : s'.table ch = s.table ch) : inflight s' c ch = inflight s c ch := by
  unfold inflight
  rw [htab]
  cases s.table ch with
  | none => rfl
  | some o => simp only [hv o]

theorem holdsO_pcObj (pc : Pc) (o : Obj) (hk : pcKind pc ≠ 4) (h : holdsO pc = some o) : pcObj pc = some o := by
  cases pc <;> simp_all

theorem ow_next_free (s : St n) (hl : LInv s) (hi : SInv s) : s.ow s.next = none := by
  cases h : s.ow s.next with
  | none => rfl
  | some u =>
    have h1 := (hl.ow u s.next).1 h
    have h2 := hi.pclt u s.next (holdsO_pcObj _ _ (hl.kind u).2 h1)
    exact absurd h2 (Nat.lt_irrefl _)

theorem helped_ops (s : St n) (o' : Obj) (hl : LInv s) (hi : SInv s) :
    ∀ op ∈ absLin (helped s o'), ∃ m, op = PubSub.Op.publish (s.och o') m := by
  intro op hop
  simp only [absLin, helped, List.map_map, List.mem_map, List.mem_filter, Function.comp] at hop
  obtain ⟨u, ⟨_, hst⟩, rfl⟩ := hop
  have hk := hl.kind u
  rw [stale_kind o' _ hst] at hk
  obtain ⟨ch, m, e⟩ := kind3 _ (by simpa using hk.1)
  have := hi.pcch u o' (sendObj_pcObj _ _ ((stale_iff _ _).1 hst).1)
  rw [e] at this
  exact ⟨m, by rw [e, this]; rfl⟩

theorem loginv_quiet (s s' : St n) (t : Fin n) (b : Bool) (h : next0 s t b = some s') (a : AllInv s) (hL : LogInv s)
    (hv : ∀ o, view s' o = view s o) (hnw : ∀ o sent c todo, (s.thr t).pc = .p4 o sent (c :: todo) → b = true)
    (hne : ∀ o sent, (s.thr t).pc ≠ .p4 o sent []) : LogInv s' := by
  intro c ch
  have hL' := hL c ch
  have hk := a.l.kind t
  step_cases h
  all_goals simp only [setT, fin] at hv ⊢
  all_goals (try (rw [inflight_congr s _ c ch hv rfl]; exact hL'))
  all_goals (try simp only [chLog])
  all_goals (try dsimp only)
  all_goals (try rw [← chLog])
  · -- s1: create
    rename_i _ hpc _ htb
    have hfree := ow_next_free s a.l a.si
    show chLog s c ch = _
    rw [hL']
    congr 1
    unfold inflight
    by_cases e : ch = (s.thr t).cur.chan
    · subst e
      simp only [upd, if_true, htb]
      rw [hv s.next]
      simp [view, hfree]
    · simp only [upd, if_neg e]
      cases s.table ch with
      | none => rfl
      | some o => simp only [hv o]
  · -- s3 (already a member)
    rename_i _ o' hpc hmem
    rw [hpc] at hk
    obtain ⟨cc, cch, hc⟩ := kind1 _ (by simpa using hk.1)
    rw [inflight_congr s _ c ch hv rfl, absLin_append, absLin_single, hc]
    simp only [Op.abs]
    rw [chOut_snoc_sub]; exact hL'
  · rename_i _ o' hpc hmem
    rw [hpc] at hk
    obtain ⟨cc, cch, hc⟩ := kind1 _ (by simpa using hk.1)
    rw [inflight_congr s _ c ch hv rfl, absLin_append, absLin_single, hc]
    simp only [Op.abs]
    rw [chOut_snoc_sub]; exact hL'
  · -- u1: absent channel
    rename_i _ hpc _ htb
    rw [hpc] at hk
    obtain ⟨cc, cch, hc⟩ := kind2 _ (by simpa using hk.1)
    rw [inflight_congr s _ c ch hv rfl, absLin_append, absLin_single, hc]
    simp only [Op.abs]
    rw [chOut_snoc_unsub]; exact hL'
  · -- u3: leave
    rename_i _ o' hpc
    rw [hpc] at hk
    obtain ⟨cc, cch, hc⟩ := kind2 _ (by simpa using hk.1)
    rw [inflight_congr s _ c ch hv rfl, absLin_append, absLin_single, hc]
    simp only [Op.abs]
    rw [chOut_snoc_unsub]; exact hL'
  · -- u3d: drop; the helped PUBLISHes go to a channel without subscribers
    rename_i _ o' hpc hemp
    have hh := a.si.held t o' (by rw [hpc]; rfl)
    have hoch := a.si.tab _ _ hh
    have hown : s.ow o' = some t := (a.l.ow t o').2 (by rw [hpc]; rfl)
    rw [absLin_append, chOut_publishes_nosubs]
    · show chLog s c ch = _
      rw [hL']
      congr 1
      unfold inflight
      by_cases e : ch = (s.thr t).cur.chan
      · subst e
        simp only [upd, if_true, hh]
        simp [view, hown, p4view, hpc]
      · simp only [upd, if_neg e]
        cases s.table ch with
        | none => rfl
        | some o => simp only [hv o]
    · intro op hop
      obtain ⟨m, rfl⟩ := helped_ops s o' a.l a.si op hop
      refine ⟨_, m, rfl, ?_⟩
      intro c' hin
      obtain ⟨o, h1, h2⟩ := (a.r _ c').1 hin
      rw [hoch, hh] at h1; cases h1
      rw [hemp] at h2; cases h2
  · -- p1: absent channel, nobody receives
    rename_i _ hpc _ htb
    rw [hpc] at hk
    obtain ⟨cch, m, hc⟩ := kind3 _ (by simpa using hk.1)
    rw [inflight_congr s _ c ch hv rfl, absLin_append, absLin_single, hc]
    simp only [Op.abs]
    rw [chOut_snoc_pub]
    have : (cch, c) ∉ (PubSub.run (absLin s.lin)).subs := by
      intro hin
      obtain ⟨o, h1, _⟩ := (a.r cch c).1 hin
      rw [hc] at htb; simp only [Op.chan] at htb
      rw [htb] at h1; cases h1
    simp only [this, and_false, if_false]
    exact hL'
  · -- p4: prune
    rename_i _ o' sent c0 todo hpc _ _
    rw [inflight_congr s _ c ch hv rfl, absLin_append, absLin_single]
    show chLog s c ch = _
    rw [chOut_snoc_unsub]; exact hL'
  · rename_i _ o' sent c0 todo hpc hb
    exact absurd (hnw _ _ _ _ hpc) hb
  · rename_i _ o' sent hpc _
    exact absurd hpc (hne _ _)
  · rename_i _ o' hpc _
    rw [hpc] at hk; simp at hk

theorem view_other (s s' : St n) (t : Fin n) (o o' : Obj) (hne : o' ≠ o) (hthr : ∀ u, u ≠ t → s'.thr u = s.thr u)
    (how : s'.ow o' = s.ow o') (hown : ∀ o2, s.ow o2 = some t → o2 = o) : view s' o' = view s o' := by
  apply view_congr s s' o' how
  intro u hu
  have : u ≠ t := by
    intro e; subst e
    exact hne (hown o' hu)
  rw [hthr u this]

theorem chLog_upd (s : St n) (c0 : Conn) (ch0 : Chan) (m : Payload) (lg : Conn → List (Chan × Payload))
    (h : lg = upd s.log c0 (s.log c0 ++ [(ch0, m)])) (c : Conn) (ch : Chan) :
    ((lg c).filter (fun p => p.1 = ch)).map (·.2) = chLog s c ch ++ (if c = c0 ∧ ch = ch0 then [m] else []) := by
  subst h
  unfold chLog
  by_cases e : c = c0
  · subst e
    by_cases e2 : ch = ch0
    · subst e2; simp [upd, List.filter_append]
    · have : ¬ ch0 = ch := fun x => e2 x.symm
      simp [upd, List.filter_append, e2, this]
  · simp [upd, e]

/-- the object of a live delivery loop is the table entry of its channel -/
theorem loop_obj_in_table (s : St n) (a : AllInv s) (t : Fin n) (o : Obj) (sent : List Conn) (c0 : Conn) (todo : List Conn)
    (hpc : (s.thr t).pc = .p4 o sent (c0 :: todo)) : s.table (s.thr t).cur.chan = some o := by
  have hloop := a.si.loop t o sent (c0 :: todo) hpc
  have hne : s.subs o ≠ [] := by rw [hloop]; simp
  have h1 : s.table (s.och o) = some o := Classical.byContradiction fun hcon => hne (a.si.dropped o hcon)
  rw [a.si.pcch t o (by rw [hpc]; rfl)] at h1
  exact h1

theorem inflight_at (s : St n) (t : Fin n) (o : Obj) (sent todo : List Conn) (hpc : (s.thr t).pc = .p4 o sent todo)
    (hown : s.ow o = some t) (htab : s.table (s.thr t).cur.chan = some o) (c : Conn) :
    inflight s c (s.thr t).cur.chan = if c ∈ sent then [(s.thr t).cur.payload] else [] := by
  unfold inflight
  rw [htab]
  simp only [view, hown, Option.bind_some, p4view, hpc]
  by_cases e : sent = []
  · simp [e]
  · simp [e]

theorem inflight_other (s s' : St n) (a : AllInv s) (t : Fin n) (o : Obj) (hho : holdsO (s.thr t).pc = some o)
    (htab : s'.table = s.table) (hthr : ∀ u, u ≠ t → s'.thr u = s.thr u)
    (how : ∀ o', o' ≠ o → s'.ow o' = s.ow o') (c : Conn) (ch : Chan) (hne : ∀ o', s.table ch = some o' → o' ≠ o) :
    inflight s' c ch = inflight s c ch := by
  unfold inflight
  rw [htab]
  cases ht : s.table ch with
  | none => rfl
  | some o' =>
    have hne' : o' ≠ o := hne o' ht
    have hown : ∀ o2, s.ow o2 = some t → o2 = o := by
      intro o2 h2
      have := (a.l.ow t o2).1 h2
      rw [hho] at this
      exact (Option.some.inj this).symm
    simp only [view_other s s' t o o' hne' hthr (how o' hne') hown]

theorem only_channel (s : St n) (a : AllInv s) (t : Fin n) (o : Obj) (hp : pcObj (s.thr t).pc = some o) :
    ∀ ch, s.table ch ≠ some o ∨ ch = (s.thr t).cur.chan := by
  intro ch
  by_cases h : s.table ch = some o
  · right; rw [← a.si.tab ch o h, a.si.pcch t o hp]
  · left; exact h

theorem other_obj (s : St n) (a : AllInv s) (t : Fin n) (o : Obj) (hp : pcObj (s.thr t).pc = some o) (ch : Chan)
    (hch : ch ≠ (s.thr t).cur.chan) : ∀ o', s.table ch = some o' → o' ≠ o := by
  intro o' h e; subst e
  rcases only_channel s a t o' hp ch with h2 | h2
  · exact h2 h
  · exact hch h2

/-- a successful write: the message is in the connection's log, the Send is not yet linearized — `inflight` accounts for it -/
theorem loginv_write (s : St n) (a : AllInv s) (hL : LogInv s) (t : Fin n) (o : Obj) (sent : List Conn) (c0 : Conn)
    (todo : List Conn) (hpc : (s.thr t).pc = .p4 o sent (c0 :: todo)) :
    LogInv { setT s t { s.thr t with pc := .p4 o (sent ++ [c0]) todo } with
             log := upd s.log c0 (s.log c0 ++ [((s.thr t).cur.chan, (s.thr t).cur.payload)]) } := by
  generalize hs' : ({ setT s t { s.thr t with pc := .p4 o (sent ++ [c0]) todo } with
             log := upd s.log c0 (s.log c0 ++ [((s.thr t).cur.chan, (s.thr t).cur.payload)]) } : St n) = s'
  have e_tab : s'.table = s.table := by rw [← hs']; rfl
  have e_ow : s'.ow = s.ow := by rw [← hs']; rfl
  have e_lin : s'.lin = s.lin := by rw [← hs']; rfl
  have e_log : s'.log = upd s.log c0 (s.log c0 ++ [((s.thr t).cur.chan, (s.thr t).cur.payload)]) := by rw [← hs']
  have e_thr : ∀ u, u ≠ t → s'.thr u = s.thr u := by intro u hu; rw [← hs']; simp [setT, upd, hu]
  have e_pc : (s'.thr t).pc = .p4 o (sent ++ [c0]) todo := by rw [← hs']; simp [setT, upd]
  have e_cur : (s'.thr t).cur = (s.thr t).cur := by rw [← hs']; simp [setT, upd]
  intro c ch
  have htab := loop_obj_in_table s a t o sent c0 todo hpc
  have hown : s.ow o = some t := (a.l.ow t o).2 (by rw [hpc]; rfl)
  have hloop := a.si.loop t o sent (c0 :: todo) hpc
  have hnd := a.si.nodup o
  rw [hloop] at hnd
  have hnot : c0 ∉ sent := by
    intro hc
    rw [List.nodup_append] at hnd
    exact hnd.2.2 c0 hc c0 (by simp) rfl
  unfold chLog
  rw [chLog_upd s c0 _ _ _ e_log c ch, e_lin]
  by_cases hch : ch = (s.thr t).cur.chan
  · subst hch
    have h1 := inflight_at s t o sent (c0 :: todo) hpc hown htab c
    have h2 := inflight_at s' t o (sent ++ [c0]) todo e_pc (by rw [e_ow]; exact hown) (by rw [e_tab, e_cur]; exact htab) c
    rw [e_cur] at h2
    rw [hL c _, h1, h2]
    by_cases e : c = c0
    · subst e; simp [hnot]
    · simp [e]
  · rw [inflight_other s s' a t o (by rw [hpc]; rfl) e_tab e_thr (fun o' _ => by rw [e_ow]) c ch
      (other_obj s a t o (by rw [hpc]; rfl) ch hch), hL c ch]
    simp [hch]

/-- the end of a delivery loop: Unlock(obj); unless the Send was linearized by a drop, its PUBLISH is linearized now and the
    specification delivers to exactly the connections the loop has written to -/
theorem loginv_end (s s' : St n) (a : AllInv s) (hL : LogInv s) (t : Fin n) (o : Obj) (sent : List Conn)
    (hpc : (s.thr t).pc = .p4 o sent []) (e_tab : s'.table = s.table) (e_log : s'.log = s.log) (e_ow : s'.ow = upd s.ow o none)
    (e_thr : ∀ u, u ≠ t → s'.thr u = s.thr u)
    (hlin : ((s.thr t).lpd = true ∧ s'.lin = s.lin) ∨
            ((s.thr t).lpd = false ∧ ∃ tag, s'.lin = s.lin ++ [⟨tag, (s.thr t).cur.abs⟩])) : LogInv s' := by
  intro c ch
  have hk := a.l.kind t
  rw [hpc] at hk
  obtain ⟨ch0, m, hc⟩ := kind3 _ (by simpa using hk.1)
  have hown : s.ow o = some t := (a.l.ow t o).2 (by rw [hpc]; rfl)
  have hobj : pcObj (s.thr t).pc = some o := by rw [hpc]; rfl
  have hlog : chLog s' c ch = chLog s c ch := by unfold chLog; rw [e_log]
  have how : ∀ o', o' ≠ o → s'.ow o' = s.ow o' := by intro o' h; rw [e_ow]; simp [upd, h]
  rw [hlog, hL c ch]
  by_cases hch : ch = (s.thr t).cur.chan
  · subst hch
    rcases hlin with ⟨hlpd, el⟩ | ⟨hlpd, tag, el⟩
    · have hst := a.p.stale t o (by rw [hpc]; rfl) hlpd
      rw [el, inflight_other s s' a t o (by rw [hpc]; rfl) e_tab e_thr how c _ (fun o' h e => hst (e ▸ h))]
    · have hfr := a.p.fresh t o (by rw [hpc]; rfl) hlpd
      have h1 := inflight_at s t o sent [] hpc hown hfr c
      have h2 : inflight s' c (s.thr t).cur.chan = [] := by
        unfold inflight
        rw [e_tab, hfr]
        simp [view, e_ow, upd]
      have hloop := a.si.loop t o sent [] hpc
      simp only [List.append_nil] at hloop
      have hin : ((s.thr t).cur.chan, c) ∈ (PubSub.run (absLin s.lin)).subs ↔ c ∈ sent := by
        rw [a.r]
        constructor
        · rintro ⟨o2, h3, h4⟩
          rw [hfr] at h3; cases h3
          rw [hloop] at h4; exact h4
        · intro h; exact ⟨o, hfr, by rw [hloop]; exact h⟩
      rw [h1, h2, el, absLin_append, absLin_single]
      simp only [hc, Op.abs, Op.chan, Op.payload] at hin ⊢
      rw [chOut_snoc_pub]
      by_cases e : c ∈ sent
      · simp [e, hin.2 e]
      · have : (ch0, c) ∉ (PubSub.run (absLin s.lin)).subs := fun h => e (hin.1 h)
        simp [e, this]
  · rw [inflight_other s s' a t o (by rw [hpc]; rfl) e_tab e_thr how c ch (other_obj s a t o hobj ch hch)]
    rcases hlin with ⟨_, el⟩ | ⟨_, tag, el⟩
    · rw [el]
    · rw [el, absLin_append, absLin_single, hc]
      simp only [Op.abs]
      rw [chOut_snoc_pub]
      rw [hc] at hch; simp only [Op.chan] at hch
      simp [hch]

theorem loginv_next0 (s s' : St n) (t : Fin n) (b : Bool) (h : next0 s t b = some s') (a : AllInv s) (hL : LogInv s) :
    LogInv s' := by
  rcases view_frame s s' t b h a.l with hv | ⟨o, sent, c0, todo, hpc, hb⟩ | ⟨o, sent, hpc⟩
  · by_cases hw : ∃ o sent c todo, (s.thr t).pc = .p4 o sent (c :: todo) ∧ b = false
    · obtain ⟨o, sent, c0, todo, hpc, hb⟩ := hw
      subst hb
      unfold next0 at h
      simp only [hpc] at h
      simp only [Bool.false_eq_true, if_false, Option.some.injEq] at h
      subst h
      exact loginv_write s a hL t o sent c0 todo hpc
    · by_cases he : ∃ o sent, (s.thr t).pc = .p4 o sent []
      · obtain ⟨o, sent, hpc⟩ := he
        unfold next0 at h
        simp only [hpc] at h
        split at h <;> simp only [Option.some.injEq] at h <;> subst h
        · rename_i hl
          exact loginv_end s _ a hL t o sent hpc rfl rfl rfl (fun u hu => by simp [fin, upd, hu]) (Or.inl ⟨hl, rfl⟩)
        · rename_i hl
          exact loginv_end s _ a hL t o sent hpc rfl rfl rfl (fun u hu => by simp [fin, upd, hu])
            (Or.inr ⟨by simpa using hl, _, rfl⟩)
      · refine loginv_quiet s s' t b h a hL hv ?_ ?_
        · intro o sent c todo hpc
          cases hb : b
          · exact absurd ⟨o, sent, c, todo, hpc, hb⟩ hw
          · rfl
        · intro o sent hpc
          exact he ⟨o, sent, hpc⟩
  · subst hb
    unfold next0 at h
    simp only [hpc] at h
    simp only [Bool.false_eq_true, if_false, Option.some.injEq] at h
    subst h
    exact loginv_write s a hL t o sent c0 todo hpc
  · unfold next0 at h
    simp only [hpc] at h
    split at h <;> simp only [Option.some.injEq] at h <;> subst h
    · rename_i hl
      exact loginv_end s _ a hL t o sent hpc rfl rfl rfl (fun u hu => by simp [fin, upd, hu]) (Or.inl ⟨hl, rfl⟩)
    · rename_i hl
      exact loginv_end s _ a hL t o sent hpc rfl rfl rfl (fun u hu => by simp [fin, upd, hu])
        (Or.inr ⟨by simpa using hl, _, rfl⟩)

theorem loginv_reach (progs : Fin n → List Op) (hr : Real progs) (s : St n) (h : Reach progs s) : LogInv s := by
  induction h with
  | init =>
    intro c ch
    simp [chLog, chOut, inflight, init, absLin, PubSub.run, PubSub.init]
  | step s s' hs hst ih =>
    have a := allinv_reach progs hr s hs
    cases hst with
    | thr _ t b h =>
      obtain ⟨s1, h0, rfl⟩ := next_eq s s' t b h
      have := loginv_next0 s s1 t b h0 a ih
      exact fun c ch => this c ch
    | die c => exact fun c' ch => ih c' ch

/-! ### the theorems -/

/-- no thread is inside a delivery loop (in particular: every thread has finished) -/
def NoLoop (s : St n) : Prop := ∀ t o sent todo, (s.thr t).pc ≠ .p4 o sent todo

theorem inflight_noloop (s : St n) (h : NoLoop s) (c : Conn) (ch : Chan) : inflight s c ch = [] := by
  unfold inflight
  cases s.table ch with
  | none => rfl
  | some o =>
    simp only [view]
    cases hu : s.ow o with
    | none => rfl
    | some u =>
      have : p4view (s.thr u) = none := by
        unfold p4view
        split
        · rename_i o' sent todo hpc; exact absurd hpc (h u o' sent todo)
        · rfl
      simp [this]

/-- what the sequential specification `Ds/PubSub.lean` says connection `c` must have received on channel `ch` after the history `l`:
    the messages published to `ch` while `c` was subscribed to it, in order (`PubSub.expected`, restricted to the channel) -/
def expectedOn (c : Conn) (ch : Chan) (l : List PubSub.Op) : List Payload :=
  ((PubSub.expected c l.reverse).filter (fun p => p.1 = ch)).map (·.2)

theorem chOut_expected (l : List PubSub.Op) (c : Conn) (ch : Chan) : chOut l c ch = expectedOn c ch l := by
  unfold chOut expectedOn
  rw [PubSub.delivery_exact]

/-- **PER-CHANNEL LINEARIZABILITY of the Pub/Sub table** (`_partial`: the delivery logs are compared channel by channel — the
    interleaving of different channels' messages in one connection's log is NOT linearizable, see
    `cross_channel_order_not_linearizable`).

    For every program of Subscribe / UnSubscribe / Send operations on any number of threads, every schedule, every pattern of
    connection deaths and write failures, in every reachable state the ghost sequence `s.lin` is a linearization:

    1. (complete, inside the interval) every completed operation `r` has its abstract operation at a position `i` of `lin` with
       `r.invLen ≤ i < r.retLen`, where `invLen` / `retLen` are the lengths of the append-only `lin` at its invocation / return;
    2. (real time) if `r1` returned before `r2` was invoked (clock values `r1.retAt ≤ r2.invAt`), every such position of `r1` is
       before every such position of `r2`;
    3. (legal, replies) the reply of a completed Send on `ch` is the number of subscribers of `ch` the sequential specification
       `PubSub.run` has after the operations before position `i`;
    4. (legal, state) the subscription table of the specification after `lin` is the concrete table;
    5. (legal, deliveries) when no thread is inside a delivery loop, for every connection and channel the connection's log
       restricted to the channel is exactly `PubSub.expected` restricted to the channel: the messages published to the channel
       while the connection was subscribed, each once, in linearization order. -/
theorem pubsub_linearizable_partial (progs : Fin n → List Op) (hr : Real progs) (s : St n) (h : Reach progs s) :
    (∀ r ∈ s.done, RecOk s.lin r) ∧
    (∀ r1 ∈ s.done, ∀ r2 ∈ s.done, r1.retAt ≤ r2.invAt →
        ∀ i1 i2, i1 < r1.retLen → r2.invLen ≤ i2 → i1 < i2) ∧
    (∀ ch c, (ch, c) ∈ (PubSub.run (absLin s.lin)).subs ↔ ∃ o, s.table ch = some o ∧ c ∈ s.subs o) ∧
    (NoLoop s → ∀ c ch, chLog s c ch = expectedOn c ch (absLin s.lin)) := by
  have a := allinv_reach progs hr s h
  have T := tinv_reach progs s h
  have L := loginv_reach progs hr s h
  refine ⟨a.w.recs, ?_, a.r, ?_⟩
  · intro r1 h1 r2 h2 hle i1 i2 hi1 hi2
    have := T.t4 r1 h1 r2 h2 hle
    omega
  · intro hn c ch
    rw [L c ch, inflight_noloop s hn, List.append_nil, chOut_expected]

/-- per-channel publish order and exactly-once, as a corollary: at quiescence two connections' logs on one channel are both
    sublists... of the same publish sequence — stated directly: both are `expectedOn` of the SAME linearization -/
theorem same_linearization_for_all_connections (progs : Fin n → List Op) (hr : Real progs) (s : St n) (h : Reach progs s)
    (hn : NoLoop s) (ch : Chan) (c1 c2 : Conn) :
    chLog s c1 ch = expectedOn c1 ch (absLin s.lin) ∧ chLog s c2 ch = expectedOn c2 ch (absLin s.lin) :=
  ⟨(pubsub_linearizable_partial progs hr s h).2.2.2 hn c1 ch, (pubsub_linearizable_partial progs hr s h).2.2.2 hn c2 ch⟩

#print axioms pubsub_linearizable_partial

/-! ### NEGATIVE: the interleaving of two channels in one connection's log is not linearizable

Two Sends on DIFFERENT channels hold different object locks and write to their subscribers one by one, concurrently; the two
channels list their two common subscribers in different orders.  Connection 1 receives A then B, connection 2 receives B then A.
In the sequential specification every connection's outbox is a subsequence of ONE publish order. -/

def pubOrder : List PubSub.Op → List (Chan × Payload)
| [] => []
| .publish ch m :: l => (ch, m) :: pubOrder l
| _ :: l => pubOrder l

theorem outbox_sublist (l : List PubSub.Op) : ∀ (st : PubSub.St) (c : Conn),
    ∃ x, (l.foldl PubSub.step st).outbox c = st.outbox c ++ x ∧ x.Sublist (pubOrder l) := by
  induction l with
  | nil => intro st c; exact ⟨[], by simp, List.Sublist.refl _⟩
  | cons op l ih =>
    intro st c
    obtain ⟨x, h1, h2⟩ := ih (PubSub.step st op) c
    simp only [List.foldl_cons]
    cases op with
    | subscribe c' ch =>
      refine ⟨x, ?_, h2⟩
      rw [h1]; simp only [PubSub.step]; split <;> rfl
    | unsubscribe c' ch => exact ⟨x, by rw [h1]; rfl, h2⟩
    | disconnect c' => exact ⟨x, by rw [h1]; rfl, h2⟩
    | publish ch m =>
      simp only [PubSub.step, PubSub.deliver] at h1
      by_cases hs : (ch, c) ∈ st.subs
      · refine ⟨(ch, m) :: x, ?_, List.Sublist.cons_cons _ h2⟩
        show (List.foldl PubSub.step _ l).outbox c = _
        simp only [PubSub.step]
        rw [h1]; simp [hs]
      · refine ⟨x, ?_, List.Sublist.cons _ h2⟩
        show (List.foldl PubSub.step _ l).outbox c = _
        simp only [PubSub.step]
        rw [h1]; simp [hs]

def chA : Chan := [97]
def chB : Chan := [98]

def xProgs : Fin 4 → List Op := fun t =>
  if t = 0 then [.subscribe 1 chA, .subscribe 1 chB]
  else if t = 1 then [.subscribe 2 chB, .subscribe 2 chA]
  else if t = 2 then [.send chA [1]] else [.send chB [2]]

theorem xProgs_real : Real xProgs := by
  intro t op h
  unfold xProgs at h
  split at h
  · simp at h; rcases h with rfl | rfl <;> rfl
  · split at h
    · simp at h; rcases h with rfl | rfl <;> rfl
    · split at h <;> simp at h <;> subst h <;> rfl

/-- conn 1 joins A, conn 2 joins B, conn 1 joins B, conn 2 joins A (so A lists [1,2], B lists [2,1]); then the two Sends run
    concurrently: A→1, B→2, B→1, A→2 -/
def xSched : List (Fin 4 × Bool) :=
  (List.replicate 7 (0, false)) ++ (List.replicate 7 (1, false)) ++ (List.replicate 7 (0, false)) ++ (List.replicate 7 (1, false)) ++
  (List.replicate 5 (2, false)) ++ (List.replicate 5 (3, false)) ++
  [(2, false), (3, false), (3, false), (2, false), (2, false), (3, false)]

theorem x_eval : (runSched (init xProgs) xSched).map (fun s =>
    decide (s.log 1 = [(chA, [1]), (chB, [2])]) && decide (s.log 2 = [(chB, [2]), (chA, [1])]) &&
    (List.finRange 4).all (fun t => decide ((s.thr t).pc = .idle) && decide ((s.thr t).prog = [])) &&
    decide ((s.thr 2).replies = [2]) && decide ((s.thr 3).replies = [2])) = some true := by
  decide

/-- **the full statement is false for the cross-channel order**: a run of a real program in which all threads have finished, both
    PUBLISH replies are 2, connection 1's log is [A, B] and connection 2's log is [B, A]; no sequential history whose PUBLISHes are
    these two (in either order, with any other operations anywhere) gives both outboxes -/
theorem cross_channel_order_not_linearizable :
    ∃ s : St 4, Reach xProgs s ∧ (∀ t, finished (s.thr t)) ∧
      ∀ l : List PubSub.Op, (pubOrder l = [(chA, [1]), (chB, [2])] ∨ pubOrder l = [(chB, [2]), (chA, [1])]) →
        ¬ ((PubSub.run l).outbox 1 = s.log 1 ∧ (PubSub.run l).outbox 2 = s.log 2) := by
  have h := x_eval
  cases hr : runSched (init xProgs) xSched with
  | none => rw [hr] at h; simp at h
  | some s =>
    rw [hr] at h
    simp only [Option.map_some, Option.some.injEq, Bool.and_eq_true, decide_eq_true_eq, List.all_eq_true] at h
    obtain ⟨⟨⟨⟨h1, h2⟩, hfin⟩, _⟩, _⟩ := h
    refine ⟨s, reach_runSched xProgs xSched _ _ Reach.init hr, fun t => hfin t (List.mem_finRange t), ?_⟩
    intro l hl ⟨e1, e2⟩
    obtain ⟨x1, hx1, hs1⟩ := outbox_sublist l PubSub.init 1
    obtain ⟨x2, hx2, hs2⟩ := outbox_sublist l PubSub.init 2
    have f1 : x1 = [(chA, [1]), (chB, [2])] := by
      have : (PubSub.run l).outbox 1 = x1 := by simpa [PubSub.run, PubSub.init] using hx1
      rw [← this, e1, h1]
    have f2 : x2 = [(chB, [2]), (chA, [1])] := by
      have : (PubSub.run l).outbox 2 = x2 := by simpa [PubSub.run, PubSub.init] using hx2
      rw [← this, e2, h2]
    rw [f1] at hs1
    rw [f2] at hs2
    rcases hl with hl | hl <;> rw [hl] at hs1 hs2
    · revert hs2; decide
    · revert hs1; decide

/-- the positive theorem on that very run: per channel, both logs are the specification's -/
example : ∃ s : St 4, Reach xProgs s ∧ NoLoop s ∧ chLog s 1 chA = [[1]] ∧ chLog s 2 chA = [[1]] ∧
    chLog s 1 chA = expectedOn 1 chA (absLin s.lin) ∧ chLog s 2 chB = expectedOn 2 chB (absLin s.lin) := by
  have h := x_eval
  cases hr : runSched (init xProgs) xSched with
  | none => rw [hr] at h; simp at h
  | some s =>
    rw [hr] at h
    simp only [Option.map_some, Option.some.injEq, Bool.and_eq_true, decide_eq_true_eq, List.all_eq_true] at h
    obtain ⟨⟨⟨⟨h1, h2⟩, hfin⟩, _⟩, _⟩ := h
    have hreach := reach_runSched xProgs xSched _ _ Reach.init hr
    have hn : NoLoop s := by
      intro t o sent todo hpc
      have := (hfin t (List.mem_finRange t)).1
      rw [this] at hpc; cases hpc
    have hlin := (pubsub_linearizable_partial xProgs xProgs_real s hreach).2.2.2 hn
    refine ⟨s, hreach, hn, ?_, ?_, hlin 1 chA, hlin 2 chB⟩
    · unfold chLog; rw [h1]; decide
    · unfold chLog; rw [h2]; decide

#print axioms cross_channel_order_not_linearizable

end PSC
