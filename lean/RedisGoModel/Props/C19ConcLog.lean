import RedisGoModel.Props.C19ConcLin
set_option linter.unusedSimpArgs false
set_option linter.unusedVariables false
namespace PSC
open PubSub (Chan Conn Payload)
variable {n : Nat}

/-! ### the delivery logs, per (connection, channel) -/

/-- what the specification has delivered to `c` on channel `ch` after the abstract history `l` -/
def chOut (l : List PubSub.Op) (c : Conn) (ch : Chan) : List Payload :=
  (((PubSub.run l).outbox c).filter (fun p => p.1 = ch)).map (·.2)

/-- (delivered so far, payload) of a thread inside its delivery loop that has already written to somebody -/
def p4view (th : Thread) : Option (List Conn × Payload) :=
  match th.pc with
  | .p4 _ sent _ => if sent = [] then none else some (sent, th.cur.payload)
  | _ => none

/-- the delivery loop (if any) of the holder of object `o` -/
def view (s : St n) (o : Obj) : Option (List Conn × Payload) := (s.ow o).bind (fun u => p4view (s.thr u))

/-- the message of the Send that currently holds the object of channel `ch`, if it has already been written to `c`: delivered, but
    the Send is linearized only at the end of its loop -/
def inflight (s : St n) (c : Conn) (ch : Chan) : List Payload :=
  match s.table ch with
  | none => []
  | some o =>
    match view s o with
    | some (sent, m) => if c ∈ sent then [m] else []
    | none => []

def LogInv (s : St n) : Prop := ∀ c ch, chLog s c ch = chOut (absLin s.lin) c ch ++ inflight s c ch

theorem chOut_snoc_sub (l : List PubSub.Op) (c' : Conn) (ch' : Chan) (c : Conn) (ch : Chan) :
    chOut (l ++ [.subscribe c' ch']) c ch = chOut l c ch := by
  unfold chOut; rw [run_snoc]; simp only [PubSub.step]; split <;> rfl

theorem chOut_snoc_unsub (l : List PubSub.Op) (c' : Conn) (ch' : Chan) (c : Conn) (ch : Chan) :
    chOut (l ++ [.unsubscribe c' ch']) c ch = chOut l c ch := by
  unfold chOut; rw [run_snoc]; rfl

theorem chOut_snoc_pub (l : List PubSub.Op) (ch' : Chan) (m : Payload) (c : Conn) (ch : Chan) :
    chOut (l ++ [.publish ch' m]) c ch =
      if ch = ch' ∧ (ch', c) ∈ (PubSub.run l).subs then chOut l c ch ++ [m] else chOut l c ch := by
  unfold chOut; rw [run_snoc]; simp only [PubSub.step, PubSub.deliver]
  by_cases h1 : (ch', c) ∈ (PubSub.run l).subs
  · by_cases h2 : ch = ch'
    · subst h2; simp [h1]
    · have : ¬ ch' = ch := fun e => h2 e.symm
      simp [h1, h2, List.filter_append, this]
  · simp [h1]

theorem chOut_publishes_nosubs (x : List PubSub.Op) : ∀ (l : List PubSub.Op) (c : Conn) (ch : Chan),
    (∀ op ∈ x, ∃ ch' m, op = .publish ch' m ∧ ∀ c', (ch', c') ∉ (PubSub.run l).subs) → chOut (l ++ x) c ch = chOut l c ch := by
  induction x with
  | nil => intro l c ch _; simp
  | cons op x ih =>
    intro l c ch h
    obtain ⟨ch', m, e0, hno⟩ := h op (by simp)
    subst e0
    have e : l ++ PubSub.Op.publish ch' m :: x = (l ++ [PubSub.Op.publish ch' m]) ++ x := by simp
    have hx : ∀ op ∈ x, ∃ ch2 m2, op = PubSub.Op.publish ch2 m2 ∧ ∀ c', (ch2, c') ∉ (PubSub.run (l ++ [PubSub.Op.publish ch' m])).subs := by
      intro op hop
      obtain ⟨ch2, m2, e2, hno2⟩ := h op (by simp [hop])
      refine ⟨ch2, m2, e2, ?_⟩
      rw [run_snoc]; simpa [PubSub.step] using hno2
    rw [e, ih (l ++ [PubSub.Op.publish ch' m]) c ch hx, chOut_snoc_pub]
    simp [hno c]

theorem view_congr (s s' : St n) (o : Obj) (how : s'.ow o = s.ow o)
    (hthr : ∀ u, s.ow o = some u → p4view (s'.thr u) = p4view (s.thr u)) : view s' o = view s o := by
  unfold view
  rw [how]
  cases h : s.ow o with
  | none => rfl
  | some u => simp [hthr u h]

@[simp] theorem p4view_ite (c : Prop) [Decidable c] (th : Thread) :
    p4view (if c then { th with lpd := true, exp := 0 } else th) = p4view th := by split <;> rfl

theorem view_lock (s s' : St n) (t : Fin n) (th' : Thread) (o' o : Obj) (h1 : s'.ow = upd s.ow o' (some t))
    (h2 : s'.thr = upd s.thr t th') (hfree : s.ow o' = none) (hnone : ∀ o, s.ow o ≠ some t) (hv : p4view th' = none) :
    view s' o = view s o := by
  unfold view
  rw [h1, h2]
  by_cases e : o = o'
  · subst e; simp [upd, hfree, hv]
  · simp only [upd, if_neg e]
    cases ho : s.ow o with
    | none => rfl
    | some u =>
      have : u ≠ t := fun e2 => hnone o (e2 ▸ ho)
      simp [this]

theorem view_unlock (s s' : St n) (t : Fin n) (th' : Thread) (o' o : Obj) (h1 : s'.ow = upd s.ow o' none)
    (h2 : s'.thr = upd s.thr t th') (hheld : ∀ o, s.ow o = some t ↔ o' = o) (hv : p4view (s.thr t) = none) :
    view s' o = view s o := by
  unfold view
  rw [h1, h2]
  by_cases e : o = o'
  · subst e; simp [upd, (hheld o).2 rfl, hv]
  · simp only [upd, if_neg e]
    cases ho : s.ow o with
    | none => rfl
    | some u =>
      have : u ≠ t := fun e2 => e ((hheld o).1 (e2 ▸ ho)).symm
      simp [this]

/-- except for a successful write and the end of a delivery loop, a step changes no object's view -/
theorem view_frame (s s' : St n) (t : Fin n) (b : Bool) (h : next0 s t b = some s') (hl : LInv s) :
    (∀ o, view s' o = view s o) ∨ (∃ o sent c todo, (s.thr t).pc = .p4 o sent (c :: todo)) ∨
    (∃ o sent, (s.thr t).pc = .p4 o sent []) := by
  have hown := hl.ow t
  have hk := hl.kind t
  step_cases h
  all_goals (first
    | (right; left; exact ⟨_, _, _, _, by assumption⟩)
    | (right; right; exact ⟨_, _, by assumption⟩)
    | left)
  all_goals intro o
  all_goals (try (apply view_congr <;> simp [setT, fin, upd] <;> (intro u hu; by_cases e : u = t <;> simp_all [p4view]) ; done))
  all_goals (try (unfold view; simp [setT, fin, upd]; split <;> simp_all [p4view]; done))
  all_goals simp only [setT, fin]
  all_goals (first
    | exact view_lock s _ t _ _ o rfl rfl (by assumption) (by simp_all) (by simp [p4view])
    | exact view_unlock s _ t _ _ o rfl rfl (by simp_all) (by simp_all [p4view]))

theorem inflight_congr (s s' : St n) (c : Conn) (ch : Chan) (hv : ∀ o, view s' o = view s o)
    (htab : s'.table ch = s.table ch) : inflight s' c ch = inflight s c ch := by
  unfold inflight
  rw [htab]
  cases s.table ch with
  | none => rfl
  | some o => simp only [hv o]

theorem holdsO_pcObj (pc : Pc) (o : Obj) (hk : pcKind pc ≠ 4) (h : holdsO pc = some o) : pcObj pc = some o := by
  cases pc <;> simp_all

theorem ow_next_free (s : St n) (hl : LInv s) (hi : SInv s) : s.ow s.next = none := by
  cases h : s.ow s.next with
  | none => rfl
  | some u =>
    have h1 := (hl.ow u s.next).1 h
    have h2 := hi.pclt u s.next (holdsO_pcObj _ _ (hl.kind u).2 h1)
    exact absurd h2 (Nat.lt_irrefl _)

theorem helped_ops (s : St n) (o' : Obj) (hl : LInv s) (hi : SInv s) :
    ∀ op ∈ absLin (helped s o'), ∃ m, op = PubSub.Op.publish (s.och o') m := by
  intro op hop
  simp only [absLin, helped, List.map_map, List.mem_map, List.mem_filter, Function.comp] at hop
  obtain ⟨u, ⟨_, hst⟩, rfl⟩ := hop
  have hk := hl.kind u
  rw [stale_kind o' _ hst] at hk
  obtain ⟨ch, m, e⟩ := kind3 _ (by simpa using hk.1)
  have := hi.pcch u o' (sendObj_pcObj _ _ ((stale_iff _ _).1 hst).1)
  rw [e] at this
  exact ⟨m, by rw [e, this]; rfl⟩

theorem loginv_quiet (s s' : St n) (t : Fin n) (b : Bool) (h : next0 s t b = some s') (a : AllInv s) (hL : LogInv s)
    (hv : ∀ o, view s' o = view s o) (hnw : ∀ o sent c todo, (s.thr t).pc = .p4 o sent (c :: todo) → b = true)
    (hne : ∀ o sent, (s.thr t).pc ≠ .p4 o sent []) : LogInv s' := by
  intro c ch
  have hL' := hL c ch
  have hk := a.l.kind t
  step_cases h
  all_goals simp only [setT, fin] at hv ⊢
  all_goals (try (rw [inflight_congr s _ c ch hv rfl]; exact hL'))
  all_goals (try simp only [chLog])
  all_goals (try dsimp only)
  all_goals (try rw [← chLog])
  · -- s1: create
    rename_i _ hpc _ htb
    have hfree := ow_next_free s a.l a.si
    show chLog s c ch = _
    rw [hL']
    congr 1
    unfold inflight
    by_cases e : ch = (s.thr t).cur.chan
    · subst e
      simp only [upd, if_true, htb]
      rw [hv s.next]
      simp [view, hfree]
    · simp only [upd, if_neg e]
      cases s.table ch with
      | none => rfl
      | some o => simp only [hv o]
  · -- s3 (already a member)
    rename_i _ o' hpc hmem
    rw [hpc] at hk
    obtain ⟨cc, cch, hc⟩ := kind1 _ (by simpa using hk.1)
    rw [inflight_congr s _ c ch hv rfl, absLin_append, absLin_single, hc]
    simp only [Op.abs]
    rw [chOut_snoc_sub]; exact hL'
  · rename_i _ o' hpc hmem
    rw [hpc] at hk
    obtain ⟨cc, cch, hc⟩ := kind1 _ (by simpa using hk.1)
    rw [inflight_congr s _ c ch hv rfl, absLin_append, absLin_single, hc]
    simp only [Op.abs]
    rw [chOut_snoc_sub]; exact hL'
  · -- u1: absent channel
    rename_i _ hpc _ htb
    rw [hpc] at hk
    obtain ⟨cc, cch, hc⟩ := kind2 _ (by simpa using hk.1)
    rw [inflight_congr s _ c ch hv rfl, absLin_append, absLin_single, hc]
    simp only [Op.abs]
    rw [chOut_snoc_unsub]; exact hL'
  · -- u3: leave
    rename_i _ o' hpc
    rw [hpc] at hk
    obtain ⟨cc, cch, hc⟩ := kind2 _ (by simpa using hk.1)
    rw [inflight_congr s _ c ch hv rfl, absLin_append, absLin_single, hc]
    simp only [Op.abs]
    rw [chOut_snoc_unsub]; exact hL'
  · -- u3d: drop; the helped PUBLISHes go to a channel without subscribers
    rename_i _ o' hpc hemp
    have hh := a.si.held t o' (by rw [hpc]; rfl)
    have hoch := a.si.tab _ _ hh
    have hown : s.ow o' = some t := (a.l.ow t o').2 (by rw [hpc]; rfl)
    rw [absLin_append, chOut_publishes_nosubs]
    · show chLog s c ch = _
      rw [hL']
      congr 1
      unfold inflight
      by_cases e : ch = (s.thr t).cur.chan
      · subst e
        simp only [upd, if_true, hh]
        simp [view, hown, p4view, hpc]
      · simp only [upd, if_neg e]
        cases s.table ch with
        | none => rfl
        | some o => simp only [hv o]
    · intro op hop
      obtain ⟨m, rfl⟩ := helped_ops s o' a.l a.si op hop
      refine ⟨_, m, rfl, ?_⟩
      intro c' hin
      obtain ⟨o, h1, h2⟩ := (a.r _ c').1 hin
      rw [hoch, hh] at h1; cases h1
      rw [hemp] at h2; cases h2
  · -- p1: absent channel, nobody receives
    rename_i _ hpc _ htb
    rw [hpc] at hk
    obtain ⟨cch, m, hc⟩ := kind3 _ (by simpa using hk.1)
    rw [inflight_congr s _ c ch hv rfl, absLin_append, absLin_single, hc]
    simp only [Op.abs]
    rw [chOut_snoc_pub]
    have : (cch, c) ∉ (PubSub.run (absLin s.lin)).subs := by
      intro hin
      obtain ⟨o, h1, _⟩ := (a.r cch c).1 hin
      rw [hc] at htb; simp only [Op.chan] at htb
      rw [htb] at h1; cases h1
    simp only [this, and_false, if_false]
    exact hL'
  · -- p4: prune
    rename_i _ o' sent c0 todo hpc _ _
    rw [inflight_congr s _ c ch hv rfl, absLin_append, absLin_single]
    show chLog s c ch = _
    rw [chOut_snoc_unsub]; exact hL'
  · rename_i _ o' sent c0 todo hpc hb
    exact absurd (hnw _ _ _ _ hpc) hb
  · rename_i _ o' sent hpc _
    exact absurd hpc (hne _ _)
  · rename_i _ o' hpc _
    rw [hpc] at hk; simp at hk

end PSC
