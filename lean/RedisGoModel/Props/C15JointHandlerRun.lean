import RedisGoModel.Raft.RHJRun
import RedisGoModel.Raft.RHDriverLemmas

/-! C15 Stage D, step 7: **`RHJ.runJ_safe` is not vacuous** — a concrete run of the executable joint-configuration handler
    `RHJ.handleJ`, every call evaluated by the kernel (`decide`).

    Three nodes; the initial configuration is JOINT with automatic leave: `(1 2 3)&&(1) autoleave` (the configuration a cluster
    started by node 1 is in after `enter autoLeave [add 2, add 3]` was applied; `runJ_safe` holds for any initial configuration).
    1. node 0 campaigns (`promotable`: a voter of both halves); alone it is a quorum of the outgoing half `(1)` but not of the incoming
       half `(1 2 3)`, so it asks 1 and 2;
    2. node 1 grants; 3. with the votes of `{0, 1}` — a strict majority of BOTH halves — node 0 wins (`wonVotesJ`);
    4. `advance 0`: the leader's configuration has `AutoLeave` and `pendingConfIndex = 0 ≤ applied = 0`: it appends the empty
       `ConfChangeV2` (payload `RSJ.leaveData`) itself, `pendingConfIndex` becomes 2;
    5. its own acknowledgement of index 2 commits nothing (`qidxJ`: `{0}` is no quorum of the incoming half);
    6. node 1 accepts the append; 7. its acknowledgement makes `{0, 1}` a quorum of both halves at index 2: committed;
    8. node 0 applies both entries: its configuration is `(1 2 3)`, no longer joint.
    `run8_facts` states what the run reached; `run8_safe` is `runJ_safe` applied to it. -/
namespace RHJ
open RS RSJ
open RSC (nid)

/-- `(1 2 3)&&(1) autoleave` -/
def cJ : RQJ.Config := ⟨{1, 2, 3}, {1}, ∅, ∅, true⟩

/-- one call of the handler on node `i`, emitting `outs` -/
def callJ (s : SysJ 3) (i : Fin 3) (inp : InputJ 3) (outs : List (Msg1 3)) : SysJ 3 :=
  s.put i (handleJ cJ i (s.node i) inp).1 (fun m => s.l1.net m ∨ m ∈ outs)

def mVote : Msg1 3 := .vote 1 0 1 0 0
def mGrant : Msg1 3 := .voteResp 1 1 0 false
def mApp : Msg1 3 := .app 1 0 1 0 0 [⟨1, 0⟩, ⟨1, leaveData⟩] 0
def mAck : Msg1 3 := .appResp 1 1 0 2 false

def run1 : SysJ 3 := callJ (initJ 3) 0 .hup [mVote]
def run2 : SysJ 3 := callJ run1 1 (.recv mVote) [mGrant]
def run3 : SysJ 3 := callJ run2 0 (.recv mGrant) []
def run4 : SysJ 3 := callJ run3 0 (.advance 0) [mApp]
def run5 : SysJ 3 := callJ run4 0 .selfAck []
def run6 : SysJ 3 := callJ run5 1 (.recv mApp) [mAck]
def run7 : SysJ 3 := callJ run6 0 (.recv mAck) []
def run8 : SysJ 3 := callJ run7 0 (.applyTo 2) []

theorem leaderOut_of_B {n : Node1 3} {i : Fin 3} {m : Msg1 3} (h : leaderOutB n i m = true) : leaderOut n i m :=
  leaderOutB_sound n i m h

theorem run8_is_run : RunJ cJ run8 := by
  have r1 : RunJ cJ run1 := RunJ.call 0 .hup [mVote] .init trivial (by
    intro m hm; rw [List.mem_singleton] at hm; subst hm; exact Or.inl (by decide))
  have r2 : RunJ cJ run2 := RunJ.call 1 (.recv mVote) [mGrant] r1
    ⟨Or.inr (List.mem_singleton.2 rfl), rfl, trivial⟩ (by
    intro m hm; rw [List.mem_singleton] at hm; subst hm; exact Or.inl (by decide))
  have r3 : RunJ cJ run3 := RunJ.call 0 (.recv mGrant) [] r2
    ⟨Or.inr (List.mem_singleton.2 rfl), rfl, trivial⟩ (by intro m hm; cases hm)
  have r4 : RunJ cJ run4 := RunJ.call 0 (.advance 0) [mApp] r3 trivial (by
    intro m hm; rw [List.mem_singleton] at hm; subst hm; exact Or.inr (leaderOut_of_B (by decide)))
  have r5 : RunJ cJ run5 := RunJ.call 0 .selfAck [] r4 trivial (by intro m hm; cases hm)
  have r6 : RunJ cJ run6 := RunJ.call 1 (.recv mApp) [mAck] r5
    ⟨Or.inl (Or.inr (List.mem_singleton.2 rfl)), rfl, trivial⟩ (by
    intro m hm; rw [List.mem_singleton] at hm; subst hm; exact Or.inl (by decide))
  have r7 : RunJ cJ run7 := RunJ.call 0 (.recv mAck) [] r6
    ⟨Or.inr (List.mem_singleton.2 rfl), rfl, trivial⟩ (by intro m hm; cases hm)
  exact RunJ.call 0 (.applyTo 2) [] r7 trivial (by intro m hm; cases hm)

/-- what the run did: the joint vote tally (3), the automatic leave (4), the refusal to commit on the outgoing half alone (5), the
    commit by a quorum of both halves (7), the configuration after `LeaveJoint` was applied (8) -/
theorem run8_facts :
    (run1.l1.nodes 0).role = .candidate ∧
    (run3.l1.nodes 0).role = .leader ∧ RQJ.joint (run3.cfg cJ 0) = true ∧ run3.pend 0 = 0 ∧
    (run4.l1.nodes 0).log = [⟨1, 0⟩, ⟨1, leaveData⟩] ∧ run4.pend 0 = 2 ∧
    (run5.l1.nodes 0).commit = 0 ∧ (run5.l1.nodes 0).matchI 0 = 2 ∧
    (run7.l1.nodes 0).commit = 2 ∧ run7.cfg cJ 0 = cJ ∧
    run8.applied 0 = 2 ∧ run8.cfg cJ 0 = ⟨{1, 2, 3}, ∅, ∅, ∅, false⟩ ∧ (run8.l1.nodes 0).role = .leader ∧
    (run8.l1.nodes 1).log = (run8.l1.nodes 0).log := by
  decide

/-- `runJ_safe` on the run above -/
theorem run8_safe :
    (∀ i j : Fin 3, (run8.l1.nodes i).role = .leader → (run8.l1.nodes j).role = .leader → (run8.l1.nodes i).term = (run8.l1.nodes j).term → i = j) ∧
    (∀ (i j : Fin 3) (m : Nat), m ≤ (run8.l1.nodes i).commit → m ≤ (run8.l1.nodes j).commit →
      (run8.l1.nodes i).log.take m = (run8.l1.nodes j).log.take m) :=
  ⟨(runJ_safe run8_is_run).1, (runJ_safe run8_is_run).2.2.2⟩

example : ∃ s : SysJ 3, RunJ cJ s ∧ (s.l1.nodes 0).role = .leader ∧ (s.l1.nodes 0).commit = 2 ∧ RQJ.joint (s.cfg cJ 0) = false :=
  ⟨run8, run8_is_run, by decide, by decide, by decide⟩

#print axioms run8_is_run
#print axioms run8_facts
#print axioms run8_safe
end RHJ
