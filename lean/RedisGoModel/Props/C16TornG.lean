import RedisGoModel.Props.C16G
import RedisGoModel.Props.C16Repair
/-! C16: the torn-tail theorem (C16Torn / C16TornFile) for segment files whose records may carry a nil `Data`
    (`GItem`, C16G.lean — the metadata record of a WAL created with nil metadata heads every segment), and for a
    decoder that arrives at the file with the rolling CRC of the previous segment (a chain) instead of 0.
    Same hypotheses as `torn_tail_file_partial`: `NoCollision` (here `GNoCollision`), sectors revert to zeros. -/
namespace WalTornC
open WalCodec WalFile WalTorn

def gframesOf (crc : Nat) (items : List GItem) : List (Frame Record) := (gRecords crc items).map frameOf

def gfileFrames (c0 : Nat) (items : List GItem) : List (Frame Record) := frameOf (crcRec c0) :: gframesOf c0 items

def GItemsOk (items : List GItem) : Prop := ∀ it ∈ items, GItemOk it

theorem gitem_data_len (it : GItem) (h : GItemOk it) : ∀ x, it.data = some x → x.length < 2 ^ 55 := by
  intro x hx
  have : it.bytes = x := by simp [GItem.bytes, hx]
  rw [← this]; exact h.2.1

theorem gitem_marshal_len (crc : Nat) (hc : crc < 2 ^ 32) (it : GItem) (h : GItemOk it) :
    (marshal ⟨it.type, crcUpdate crc it.bytes, it.data⟩).length < 2 ^ 56 :=
  marshal_length_lt _ _ _ h.1 (crcUpdate_lt hc _) (gitem_data_len it h)

theorem valid_gitem (crc : Nat) (hc : crc < 2 ^ 32) (it : GItem) (hok : GItemOk it) :
    walCodec.valid crc (frameOf ⟨it.type, crcUpdate crc it.bytes, it.data⟩).hd
        (frameOf ⟨it.type, crcUpdate crc it.bytes, it.data⟩).body =
      .ok ⟨it.type, crcUpdate crc it.bytes, it.data⟩ (crcUpdate crc it.bytes) := by
  show cValid _ _ _ = _
  unfold cValid
  have hcl := crcUpdate_lt hc it.bytes
  rw [frameOf_unmarshal _ hok.1 hcl (fun x hx => Nat.lt_trans (gitem_data_len it hok x hx) (by decide))
    (gitem_marshal_len crc hc it hok)]
  have hb : (Option.getD it.data []) = it.bytes := rfl
  simp [hok.2.2, hb]

theorem gframesOf_wf (crc : Nat) (hc : crc < 2 ^ 32) (items : List GItem) (hok : GItemsOk items) :
    WF walCodec (gframesOf crc items) := by
  induction items generalizing crc with
  | nil => intro fr hfr; simp [gframesOf, gRecords] at hfr
  | cons it rest ih =>
    have h1 := hok it (by simp)
    have hcl := crcUpdate_lt hc it.bytes
    intro fr hfr
    simp only [gframesOf, gRecords, List.map_cons, List.mem_cons] at hfr
    rcases hfr with rfl | hfr
    · exact frameOf_wf _ (gitem_marshal_len crc hc it h1)
    · exact ih _ hcl (fun x hx => hok x (by simp [hx])) fr hfr

theorem gfileFrames_wf (c0 : Nat) (hc : c0 < 2 ^ 32) (items : List GItem) (hok : GItemsOk items) :
    WF walCodec (gfileFrames c0 items) := by
  intro fr hfr
  simp only [gfileFrames, List.mem_cons] at hfr
  rcases hfr with rfl | hfr
  · exact frameOf_wf _ (marshal_length_lt _ _ _ (show crcType < 2 ^ 64 by decide) hc (fun x hx => by cases hx))
  · exact gframesOf_wf c0 hc items hok fr hfr

theorem gframesOf_append (crc : Nat) (a b : List GItem) :
    gframesOf crc (a ++ b) = gframesOf crc a ++ gframesOf (gCrcAfter crc a) b := by
  simp only [gframesOf, gRecords_append, List.map_append]

theorem gframesOf_chain (crc : Nat) (hc : crc < 2 ^ 32) (items : List GItem) (hok : GItemsOk items) :
    Chain walCodec (gframesOf crc items) crc := by
  induction items generalizing crc with
  | nil => trivial
  | cons it rest ih =>
    exact ⟨_, valid_gitem crc hc it (hok it (by simp)), ih _ (crcUpdate_lt hc _) (fun x hx => hok x (by simp [hx]))⟩

/-- the decoder arrives fresh (`st0 = 0`) or with the rolling CRC the segment's CRC record stores -/
theorem gfileFrames_chain (c0 st0 : Nat) (hc : c0 < 2 ^ 32) (hst : st0 = 0 ∨ st0 = c0) (items : List GItem)
    (hok : GItemsOk items) : Chain walCodec (gfileFrames c0 items) st0 :=
  ⟨_, valid_crcRec st0 c0 hc hst, gframesOf_chain c0 hc items hok⟩

theorem gframesOf_chainTo (crc : Nat) (hc : crc < 2 ^ 32) (items : List GItem) (hok : GItemsOk items) (st : Nat)
    (h : ChainTo walCodec (gframesOf crc items) crc st) : st = gCrcAfter crc items := by
  induction items generalizing crc with
  | nil => exact h.symm
  | cons it rest ih =>
    obtain ⟨st1, hv, hrest⟩ := h
    have hv := (valid_gitem crc hc it (hok it (by simp))).symm.trans hv
    simp only [VRes.ok.injEq] at hv
    obtain ⟨_, hv⟩ := hv
    subst hv
    exact ih _ (crcUpdate_lt hc _) (fun x hx => hok x (by simp [hx])) hrest

theorem gfileFrames_chainTo (c0 st0 : Nat) (hc : c0 < 2 ^ 32) (hst : st0 = 0 ∨ st0 = c0) (items : List GItem)
    (hok : GItemsOk items) (st : Nat)
    (h : ChainTo walCodec (gfileFrames c0 items) st0 st) : st = gCrcAfter c0 items := by
  obtain ⟨st1, hv, hrest⟩ := h
  have hv := (valid_crcRec st0 c0 hc hst).symm.trans hv
  simp only [VRes.ok.injEq] at hv
  obtain ⟨_, hv⟩ := hv
  subst hv
  exact gframesOf_chainTo c0 hc items hok st hrest

theorem gRecords_length (crc : Nat) (items : List GItem) : (gRecords crc items).length = items.length := by
  induction items generalizing crc with
  | nil => rfl
  | cons it rest ih => simp [gRecords, ih]

theorem gframesOf_vals (crc : Nat) (items : List GItem) : (gframesOf crc items).map (·.val) = gRecords crc items := by
  unfold gframesOf
  rw [List.map_map]
  conv => rhs; rw [← List.map_id (gRecords crc items)]
  apply List.map_congr_left
  intro x _; rfl

theorem gframesOf_length (crc : Nat) (items : List GItem) : (gframesOf crc items).length = items.length := by
  simp [gframesOf, gRecords_length]

theorem gframesOf_prefix (crc : Nat) (u : List GItem) (pf restf : List (Frame Record)) (h : gframesOf crc u = pf ++ restf) :
    ∃ p rest, u = p ++ rest ∧ pf = gframesOf crc p := by
  refine ⟨u.take pf.length, u.drop pf.length, (List.take_append_drop _ _).symm, ?_⟩
  have hle : pf.length ≤ u.length := by
    have := congrArg List.length h
    rw [gframesOf_length, List.length_append] at this; omega
  have h2 : gframesOf crc (u.take pf.length ++ u.drop pf.length) = pf ++ restf := by
    rw [List.take_append_drop]; exact h
  rw [gframesOf_append] at h2
  have hl : (gframesOf crc (u.take pf.length)).length = pf.length := by
    rw [gframesOf_length, List.length_take]; omega
  exact (List.append_inj h2 hl).1.symm

/-- **NoCollision** for unsynced items that may carry nil `Data` -/
def GNoCollision (P c : Nat) (u : List GItem) : Prop := NoColl walCodec (gframesOf c u) P c

/-- the file image: the segment's frames at offset 0 of a zero-filled (preallocated) file -/
def gimage (c0 : Nat) (items : List GItem) : WalTorn.File := layout walCodec (gfileFrames c0 items) 0 (fun _ => 0)

theorem torn_tail_gconcrete_partial (c0 st0 : Nat) (hc0 : c0 < 2 ^ 32) (hst : st0 = 0 ∨ st0 = c0)
    (synced unsynced : List GItem) (hs : GItemsOk synced) (hu : GItemsOk unsynced) (c : WalTorn.File)
    (hcr : Crash (gimage c0 (synced ++ unsynced)) c (endOff (gfileFrames c0 synced) 0))
    (hnc : GNoCollision (endOff (gfileFrames c0 synced) 0) (gCrcAfter c0 synced) unsynced)
    (size : Nat) (hsize : endOff (gfileFrames c0 (synced ++ unsynced)) 0 + 8 ≤ size)
    (fuel : Nat) (hf : synced.length + unsynced.length + 1 < fuel) :
    ∃ p rest, unsynced = p ++ rest ∧
      (decode walCodec c size fuel 0 st0).1 = crcRec c0 :: gRecords c0 (synced ++ p) ∧
      ((decode walCodec c size fuel 0 st0).2.1 = .eof ∨ (decode walCodec c size fuel 0 st0).2.1 = .torn) ∧
      (decode walCodec c size fuel 0 st0).2.2 = endOff (gfileFrames c0 (synced ++ p)) 0 := by
  have hall : GItemsOk (synced ++ unsynced) := by
    intro it hit
    rcases List.mem_append.mp hit with h | h
    · exact hs it h
    · exact hu it h
  have hsplit : gfileFrames c0 (synced ++ unsynced) =
      [] ++ gfileFrames c0 synced ++ gframesOf (gCrcAfter c0 synced) unsynced := by
    simp [gfileFrames, gframesOf_append]
  have hch : Chain walCodec (gfileFrames c0 synced ++ gframesOf (gCrcAfter c0 synced) unsynced) st0 := by
    have := gfileFrames_chain c0 st0 hc0 hst (synced ++ unsynced) hall
    rw [hsplit] at this; simpa using this
  have hlen : (gfileFrames c0 synced ++ gframesOf (gCrcAfter c0 synced) unsynced).length < fuel := by
    simp only [gfileFrames, List.length_append, List.length_cons, gframesOf_length]; omega
  obtain ⟨pf, restf, e1, e2, e3, e4⟩ := torn_tail walCodec (gfileFrames c0 (synced ++ unsynced)) c _ size hcr
    (gfileFrames_wf c0 hc0 _ hall) hsize (gframesOf (gCrcAfter c0 synced) unsynced) (gfileFrames c0 synced) [] st0 fuel
    hsplit (by simp) hch hlen
    (fun stu h => by rw [gfileFrames_chainTo c0 st0 hc0 hst synced hs stu h]; exact hnc)
  obtain ⟨p, rest, hp, hpf⟩ : ∃ p rest, unsynced = p ++ rest ∧ pf = gframesOf (gCrcAfter c0 synced) p :=
    gframesOf_prefix _ unsynced pf restf e1
  refine ⟨p, rest, hp, ?_, e3, ?_⟩
  · simp only [endOff] at e2
    rw [e2, hpf]
    simp only [gfileFrames, List.cons_append, List.map_cons, List.map_append, gframesOf_vals, gRecords_append]
    rfl
  · simp only [endOff] at e4
    rw [e4, hpf]
    simp [gfileFrames, gframesOf_append]

theorem flat_gframesOf (crc : Nat) (items : List GItem) : flat (gframesOf crc items) = toNats (gEncodeAll crc items) := by
  induction items generalizing crc with
  | nil => rfl
  | cons it rest ih =>
    simp only [gframesOf, gRecords, List.map_cons, gEncodeAll, toNats_append] at ih ⊢
    rw [flat_frameOf, ih]

/-- the image is the byte string the writer produces — CRC record, then the frames — followed by zeros -/
theorem gimage_bytes (c0 : Nat) (hc0 : c0 < 2 ^ 32) (items : List GItem) (hok : GItemsOk items) (x : Nat) :
    gimage c0 items x = (toNats (encodeFrame (crcRec c0) ++ gEncodeAll c0 items)).getD x 0 := by
  unfold gimage
  rw [layout_flat _ _ _ (fun fr hfr => (gfileFrames_wf c0 hc0 items hok fr hfr).2.1)]
  simp only [gfileFrames, flat_frameOf, flat_gframesOf, ← toNats_append]
  unfold writeAt
  by_cases h : x < (toNats (encodeFrame (crcRec c0) ++ gEncodeAll c0 items)).length
  · rw [if_pos ⟨Nat.zero_le _, by omega⟩]; simp
  · rw [if_neg (by omega)]
    simp [List.getD_eq_getElem?_getD, List.getElem?_eq_none (Nat.le_of_not_lt h)]

theorem frameOf_hd_len (r : Record) : (frameOf r).hd.length = 8 := by simp [frameOf, toNats, le64]

theorem endOff_flat (fs : List (Frame Record)) (hhd : ∀ fr ∈ fs, fr.hd.length = 8) :
    ∀ o : Nat, endOff fs o = o + (flat fs).length := by
  induction fs with
  | nil => intro o; simp [endOff, flat]
  | cons fr rest ih =>
    intro o
    have h8 := hhd fr (by simp)
    simp only [endOff, flat, List.length_append]
    rw [ih (fun x hx => hhd x (by simp [hx]))]
    omega

/-- the end offset of the frames is the length of the bytes -/
theorem endOff_gfileFrames (c0 : Nat) (items : List GItem) :
    endOff (gfileFrames c0 items) 0 = (encodeFrame (crcRec c0) ++ gEncodeAll c0 items).length := by
  rw [endOff_flat _ (fun fr hfr => by
    simp only [gfileFrames, gframesOf, List.mem_cons, List.mem_map] at hfr
    rcases hfr with rfl | ⟨r, _, rfl⟩ <;> exact frameOf_hd_len _)]
  simp only [gfileFrames, flat_frameOf, flat_gframesOf, ← toNats_append, toNats_length, Nat.zero_add]

/-- **torn tail, executable reader, nil-`Data` records, chained CRC** (partial: under `GNoCollision`, sectors revert
    to zeros). `f` is the last segment file as found after the crash; the decoder stands at its start with rolling CRC
    `st0` (0 = the file is read alone, as `Repair` does; `c0` = it is the last of a chain). -/
theorem torn_tail_gfile_partial (c0 st0 : Nat) (hc0 : c0 < 2 ^ 32) (hst : st0 = 0 ∨ st0 = c0)
    (synced unsynced : List GItem) (hs : GItemsOk synced) (hu : GItemsOk unsynced) (f : Bytes)
    (hcr : Crash (gimage c0 (synced ++ unsynced)) (fileFn f) (endOff (gfileFrames c0 synced) 0))
    (hnc : GNoCollision (endOff (gfileFrames c0 synced) 0) (gCrcAfter c0 synced) unsynced)
    (hsize : endOff (gfileFrames c0 (synced ++ unsynced)) 0 + 8 ≤ f.length)
    (fuel : Nat) (hf : synced.length + unsynced.length + 1 < fuel) :
    ∃ p rest, unsynced = p ++ rest ∧
      (recLoop fuel (decAt f 0 st0)).1 = crcRec c0 :: gRecords c0 (synced ++ p) ∧
      ((recLoop fuel (decAt f 0 st0)).2.1 = .decEof ∨ (recLoop fuel (decAt f 0 st0)).2.1 = .decErr .ueof) ∧
      (recLoop fuel (decAt f 0 st0)).2.2.off = endOff (gfileFrames c0 (synced ++ p)) 0 := by
  obtain ⟨p, rest, h1, h2, h3, h4⟩ :=
    torn_tail_gconcrete_partial c0 st0 hc0 hst synced unsynced hs hu (fileFn f) hcr hnc f.length hsize fuel hf
  obtain ⟨s1, s2, s3⟩ := recLoop_sim f fuel 0 st0
  refine ⟨p, rest, h1, by rw [s1, h2], ?_, ?_⟩
  · rcases h3 with h | h
    · exact Or.inl (s2 h).1
    · exact Or.inr (s3 h).1
  · rcases h3 with h | h
    · rw [(s2 h).2, h4]
    · rw [(s3 h).2, h4]

#print axioms torn_tail_gfile_partial
end WalTornC
