import RedisGoModel.Props.C16Cut
/-! C16: `ReadAll`'s loop (`readLoop`: decode + the `switch rec.Type` dispatch) and `Verify`'s loop (`verifyLoop`) are
    folds of a pure per-record function over the record stream `recLoop` returns (the stream every theorem of
    C16Cut/Chain/Torn/Repair is about). Hence `verify_agrees_recs`: both walks agree except inside the entry arm, which
    `Verify` does not have. -/
namespace WalFile
open WalCodec

/-- the effect of one record on `ReadAll`'s accumulators: one arm of the `switch rec.Type` (the CRC record's check
    against the running CRC is part of the record stream, see `recLoop`) -/
def applyRec (start : Nat × Nat) (ra : RA) (r : Record) : Except (RErr × HardState) RA :=
  let data := r.data.getD []
  if r.type = entryType then
    match unmarshalEntry data with
    | .error _ => .error (.panic, emptyHS)
    | .ok e =>
      if e.index > start.1 then
        if e.index - start.1 - 1 > ra.ents.length then .error (.oor, ra.state)
        else .ok { ra with ents := ra.ents.take (e.index - start.1 - 1) ++ [e] }
      else .ok ra
  else if r.type = stateType then
    match unmarshalHS data with
    | .error _ => .error (.panic, emptyHS)
    | .ok s => .ok { ra with state := s }
  else if r.type = metadataType then
    if ra.metadata.isSome ∧ ra.metadata ≠ some data then .error (.metaConflict, emptyHS)
    else .ok { ra with metadata := r.data }
  else if r.type = crcType then .ok ra
  else if r.type = snapshotType then
    match unmarshalWSnap data with
    | .error _ => .error (.panic, emptyHS)
    | .ok s =>
      if s.index = start.1 then
        if s.term ≠ start.2 then .error (.snapMismatch, emptyHS)
        else .ok { ra with matched := true }
      else .ok ra
  else .error (.badType, emptyHS)

def applyRecs (start : Nat × Nat) : RA → List Record → Except (RErr × HardState) RA
| ra, [] => .ok ra
| ra, r :: rest =>
  match applyRec start ra r with
  | .ok ra' => applyRecs start ra' rest
  | .error e => .error e

theorem applyRecs_append (start : Nat × Nat) (a b : List Record) (ra : RA) :
    applyRecs start ra (a ++ b) =
      (match applyRecs start ra a with
       | .ok ra' => applyRecs start ra' b
       | .error e => .error e) := by
  induction a generalizing ra with
  | nil => rfl
  | cons r rest ih =>
    simp only [List.cons_append, applyRecs]
    cases applyRec start ra r with
    | ok ra' => exact ih ra'
    | error e => rfl

/-- `dispatch` on a record that is not the CRC record: `applyRec`, no CRC re-seed -/
theorem dispatch_data (start : Nat × Nat) (c : Nat) (ra : RA) (r : Record) (h : r.type ≠ crcType) :
    dispatch start c ra r =
      (match applyRec start ra r with
       | .ok ra' => (.cont ra', none)
       | .error (e, st) => (.fail e st, none)) := by
  unfold dispatch applyRec
  simp only
  by_cases h1 : r.type = entryType
  · rw [if_pos h1, if_pos h1]
    cases unmarshalEntry (r.data.getD []) with
    | error e => rfl
    | ok e =>
      simp only
      by_cases h2 : e.index > start.1
      · rw [if_pos h2, if_pos h2]
        by_cases h3 : e.index - start.1 - 1 > ra.ents.length
        · rw [if_pos h3, if_pos h3]
        · rw [if_neg h3, if_neg h3]
      · rw [if_neg h2, if_neg h2]
  · rw [if_neg h1, if_neg h1]
    by_cases h2 : r.type = stateType
    · rw [if_pos h2, if_pos h2]
      cases unmarshalHS (r.data.getD []) <;> rfl
    · rw [if_neg h2, if_neg h2]
      by_cases h3 : r.type = metadataType
      · rw [if_pos h3, if_pos h3]
        by_cases h4 : ra.metadata.isSome ∧ ra.metadata ≠ some (r.data.getD [])
        · rw [if_pos h4, if_pos h4]
        · rw [if_neg h4, if_neg h4]
      · rw [if_neg h3, if_neg h3, if_neg h, if_neg h]
        by_cases h5 : r.type = snapshotType
        · rw [if_pos h5, if_pos h5]
          cases unmarshalWSnap (r.data.getD []) with
          | error e => rfl
          | ok s =>
            simp only
            by_cases h6 : s.index = start.1
            · rw [if_pos h6, if_pos h6]
              by_cases h7 : s.term ≠ start.2
              · rw [if_pos h7, if_pos h7]
              · rw [if_neg h7, if_neg h7]
            · rw [if_neg h6, if_neg h6]
        · rw [if_neg h5, if_neg h5]

theorem dispatch_crc (start : Nat × Nat) (c : Nat) (ra : RA) (r : Record) (h : r.type = crcType) :
    dispatch start c ra r =
      (if c ≠ 0 ∧ r.crc ≠ c then (.fail .crc emptyHS, none) else (.cont ra, some r.crc)) := by
  unfold dispatch
  simp only
  rw [if_neg (by rw [h]; decide), if_neg (by rw [h]; decide), if_neg (by rw [h]; decide), if_pos h]

theorem applyRec_crc (start : Nat × Nat) (ra : RA) (r : Record) (h : r.type = crcType) : applyRec start ra r = .ok ra := by
  unfold applyRec
  simp only
  rw [if_neg (by rw [h]; decide), if_neg (by rw [h]; decide), if_neg (by rw [h]; decide), if_pos h]

/-- **`ReadAll`'s loop is the dispatch folded over the record stream** (success of the fold) -/
theorem readLoop_of_recLoop (start : Nat × Nat) : ∀ (fuel : Nat) (d : Dec) (ra ra' : RA),
    applyRecs start ra (recLoop fuel d).1 = .ok ra' →
    readLoop start fuel d ra = (ra', (recLoop fuel d).2.1, (recLoop fuel d).2.2) := by
  intro fuel
  induction fuel with
  | zero => intro d ra ra' h; simp only [recLoop, applyRecs] at h; cases h; rfl
  | succ k ih =>
    intro d ra ra' h
    rw [readLoop, readStep]
    rw [recLoop] at h ⊢
    cases hdr : decodeRecord (d.rest.length + 1) d with
    | eof d' => rw [hdr] at h; simp only [applyRecs] at h; cases h; rfl
    | err e d' => rw [hdr] at h; simp only [applyRecs] at h; cases h; rfl
    | got r d' =>
      rw [hdr] at h
      simp only at h ⊢
      by_cases hty : r.type = crcType
      · rw [if_pos hty] at h ⊢
        rw [dispatch_crc start _ ra r hty]
        by_cases hc : d'.crc ≠ 0 ∧ r.crc ≠ d'.crc
        · simp only [if_pos hc] at h ⊢
          simp only [applyRecs] at h; cases h; rfl
        · simp only [if_neg hc] at h ⊢
          simp only [applyRecs, applyRec_crc start ra r hty] at h
          rw [ih _ ra ra' h]
      · rw [if_neg hty] at h ⊢
        rw [dispatch_data start _ ra r hty]
        simp only [applyRecs] at h
        cases har : applyRec start ra r with
        | error e => rw [har] at h; cases h
        | ok ra1 =>
          rw [har] at h
          simp only at h ⊢
          rw [ih d' ra1 ra' h]

/-- … and where the fold fails, `ReadAll` returns that error -/
theorem readLoop_of_recLoop_fail (start : Nat × Nat) : ∀ (fuel : Nat) (d : Dec) (ra : RA) (e : RErr) (st : HardState),
    applyRecs start ra (recLoop fuel d).1 = .error (e, st) →
    ∃ ra'' d'', readLoop start fuel d ra = (ra'', .failed e st, d'') := by
  intro fuel
  induction fuel with
  | zero => intro d ra e st h; simp only [recLoop, applyRecs] at h; cases h
  | succ k ih =>
    intro d ra e st h
    rw [readLoop, readStep]
    rw [recLoop] at h
    cases hdr : decodeRecord (d.rest.length + 1) d with
    | eof d' => rw [hdr] at h; simp only [applyRecs] at h; cases h
    | err e' d' => rw [hdr] at h; simp only [applyRecs] at h; cases h
    | got r d' =>
      rw [hdr] at h
      simp only at h ⊢
      by_cases hty : r.type = crcType
      · rw [if_pos hty] at h
        rw [dispatch_crc start _ ra r hty]
        by_cases hc : d'.crc ≠ 0 ∧ r.crc ≠ d'.crc
        · simp only [if_pos hc] at h
          simp only [applyRecs] at h; cases h
        · simp only [if_neg hc] at h ⊢
          simp only [applyRecs, applyRec_crc start ra r hty] at h
          exact ih _ ra e st h
      · rw [if_neg hty] at h
        rw [dispatch_data start _ ra r hty]
        simp only [applyRecs] at h
        cases har : applyRec start ra r with
        | error e1 =>
          rw [har] at h
          simp only at h
          obtain ⟨e1a, e1b⟩ := e1
          cases h
          exact ⟨_, _, rfl⟩
        | ok ra1 =>
          rw [har] at h
          simp only at h ⊢
          exact ih d' ra1 e st h

/-! ### Verify -/

/-- the effect of one record on `Verify`'s accumulators -/
def vApplyRec (start : Nat × Nat) (v : VSt) (r : Record) : Except RErr VSt :=
  let data := r.data.getD []
  if r.type = metadataType then
    if v.mdat.isSome ∧ v.mdat ≠ some data then .error .metaConflict
    else .ok { v with mdat := r.data }
  else if r.type = crcType then .ok v
  else if r.type = snapshotType then
    match unmarshalWSnap data with
    | .error _ => .error .panic
    | .ok s =>
      if s.index = start.1 then
        if s.term ≠ start.2 then .error .snapMismatch
        else .ok { v with matched := true }
      else .ok v
  else if r.type = entryType then .ok v
  else if r.type = stateType then
    match unmarshalHS data with
    | .error _ => .error .panic
    | .ok s => .ok { v with state := s }
  else .error .badType

def vApplyRecs (start : Nat × Nat) : VSt → List Record → Except RErr VSt
| v, [] => .ok v
| v, r :: rest =>
  match vApplyRec start v r with
  | .ok v' => vApplyRecs start v' rest
  | .error e => .error e

theorem vApplyRec_crc (start : Nat × Nat) (v : VSt) (r : Record) (h : r.type = crcType) : vApplyRec start v r = .ok v := by
  unfold vApplyRec
  simp only
  rw [if_neg (by rw [h]; decide), if_pos h]

/-- `verifyStep` on a decoded record -/
theorem verifyStep_got (start : Nat × Nat) (d : Dec) (v : VSt) (r : Record) (d' : Dec)
    (h : decodeRecord (d.rest.length + 1) d = .got r d') :
    verifyStep start d v =
      (if r.type = crcType then
        (if d'.crc ≠ 0 ∧ r.crc ≠ d'.crc then .stop (.error .crc) .decEof else .cont { d' with crc := r.crc } v)
       else match vApplyRec start v r with
        | .ok v' => .cont d' v'
        | .error e => .stop (.error e) .decEof) := by
  unfold verifyStep vApplyRec
  rw [h]
  simp only
  by_cases hty : r.type = crcType
  · rw [if_pos hty, if_neg (by rw [hty]; decide), if_pos hty]
  · simp only [if_neg hty]
    by_cases h1 : r.type = metadataType
    · rw [if_pos h1, if_pos h1]
      by_cases h2 : v.mdat.isSome ∧ v.mdat ≠ some (r.data.getD [])
      · rw [if_pos h2, if_pos h2]
      · rw [if_neg h2, if_neg h2]
    · rw [if_neg h1, if_neg h1]
      by_cases h3 : r.type = snapshotType
      · rw [if_pos h3, if_pos h3]
        cases unmarshalWSnap (r.data.getD []) with
        | error e => rfl
        | ok s =>
          simp only
          by_cases h6 : s.index = start.1
          · rw [if_pos h6, if_pos h6]
            by_cases h7 : s.term ≠ start.2
            · rw [if_pos h7, if_pos h7]
            · rw [if_neg h7, if_neg h7]
          · rw [if_neg h6, if_neg h6]
      · rw [if_neg h3, if_neg h3]
        by_cases h4 : r.type = entryType
        · rw [if_pos h4, if_pos h4]
        · rw [if_neg h4, if_neg h4]
          by_cases h5 : r.type = stateType
          · rw [if_pos h5, if_pos h5]
            cases unmarshalHS (r.data.getD []) <;> rfl
          · rw [if_neg h5, if_neg h5]

/-- what `Verify`'s loop makes of the way the record stream ended -/
def vEnd (v : VSt) : LoopEnd → (Except RErr VSt) × LoopEnd
| .failed e _ => (.error e, .decEof)
| fin => (.ok v, fin)

/-- **`Verify`'s loop is its dispatch folded over the same record stream** -/
theorem verifyLoop_of_recLoop (start : Nat × Nat) : ∀ (fuel : Nat) (d : Dec) (v : VSt),
    verifyLoop start fuel d v =
      (match vApplyRecs start v (recLoop fuel d).1 with
       | .ok v' => vEnd v' (recLoop fuel d).2.1
       | .error e => (.error e, .decEof)) := by
  intro fuel
  induction fuel with
  | zero => intro d v; rfl
  | succ k ih =>
    intro d v
    rw [verifyLoop, recLoop]
    cases hdr : decodeRecord (d.rest.length + 1) d with
    | eof d' => simp only [verifyStep, hdr, vApplyRecs, vEnd]
    | err e d' => simp only [verifyStep, hdr, vApplyRecs, vEnd]
    | got r d' =>
      rw [verifyStep_got start d v r d' hdr]
      simp only
      by_cases hty : r.type = crcType
      · rw [if_pos hty, if_pos hty]
        by_cases hc : d'.crc ≠ 0 ∧ r.crc ≠ d'.crc
        · rw [if_pos hc, if_pos hc]; rfl
        · rw [if_neg hc, if_neg hc]
          simp only [vApplyRecs, vApplyRec_crc start v r hty]
          exact ih _ v
      · rw [if_neg hty, if_neg hty]
        simp only [vApplyRecs]
        cases vApplyRec start v r with
        | error e => rfl
        | ok v1 => exact ih d' v1

/-! ### the two walks agree outside the entry arm -/

def RA.proj (ra : RA) : VSt := ⟨ra.metadata, ra.state, ra.matched⟩

theorem applyRec_sim (start : Nat × Nat) (ra : RA) (r : Record) :
    (match applyRec start ra r with
     | .ok ra' => vApplyRec start ra.proj r = .ok ra'.proj
     | .error (e, _) => e = .oor ∨ e = .panic ∨ vApplyRec start ra.proj r = .error e) := by
  unfold applyRec vApplyRec
  simp only
  by_cases h1 : r.type = entryType
  · rw [if_pos h1, if_neg (by rw [h1]; decide), if_neg (by rw [h1]; decide), if_neg (by rw [h1]; decide), if_pos h1]
    cases unmarshalEntry (r.data.getD []) with
    | error e => exact Or.inr (Or.inl rfl)
    | ok e =>
      simp only
      by_cases h2 : e.index > start.1
      · rw [if_pos h2]
        by_cases h3 : e.index - start.1 - 1 > ra.ents.length
        · rw [if_pos h3]; exact Or.inl rfl
        · rw [if_neg h3]; rfl
      · rw [if_neg h2]
  · rw [if_neg h1]
    by_cases h2 : r.type = stateType
    · rw [if_pos h2, if_neg (by rw [h2]; decide), if_neg (by rw [h2]; decide), if_neg (by rw [h2]; decide),
        if_neg (by rw [h2]; decide), if_pos h2]
      cases unmarshalHS (r.data.getD []) with
      | error e => exact Or.inr (Or.inl rfl)
      | ok s => rfl
    · rw [if_neg h2]
      by_cases h3 : r.type = metadataType
      · rw [if_pos h3, if_pos h3]
        by_cases h4 : ra.metadata.isSome ∧ ra.metadata ≠ some (r.data.getD [])
        · rw [if_pos h4, if_pos (show ra.proj.mdat.isSome ∧ ra.proj.mdat ≠ some (r.data.getD []) from h4)]
          exact Or.inr (Or.inr rfl)
        · rw [if_neg h4, if_neg (show ¬ (ra.proj.mdat.isSome ∧ ra.proj.mdat ≠ some (r.data.getD [])) from h4)]
          rfl
      · rw [if_neg h3, if_neg h3]
        by_cases h4 : r.type = crcType
        · rw [if_pos h4, if_pos h4]
        · rw [if_neg h4, if_neg h4]
          by_cases h5 : r.type = snapshotType
          · rw [if_pos h5, if_pos h5]
            cases unmarshalWSnap (r.data.getD []) with
            | error e => exact Or.inr (Or.inl rfl)
            | ok s =>
              simp only
              by_cases h6 : s.index = start.1
              · rw [if_pos h6, if_pos h6]
                by_cases h7 : s.term ≠ start.2
                · rw [if_pos h7, if_pos h7]; exact Or.inr (Or.inr rfl)
                · rw [if_neg h7, if_neg h7]; rfl
              · rw [if_neg h6, if_neg h6]
          · rw [if_neg h5, if_neg h5, if_neg h1, if_neg h2]
            exact Or.inr (Or.inr rfl)

theorem applyRecs_sim (start : Nat × Nat) (recs : List Record) : ∀ ra : RA,
    (match applyRecs start ra recs with
     | .ok ra' => vApplyRecs start ra.proj recs = .ok ra'.proj
     | .error (e, _) => e = .oor ∨ e = .panic ∨ vApplyRecs start ra.proj recs = .error e) := by
  induction recs with
  | nil => intro ra; rfl
  | cons r rest ih =>
    intro ra
    have h1 := applyRec_sim start ra r
    simp only [applyRecs, vApplyRecs]
    cases har : applyRec start ra r with
    | ok ra1 =>
      rw [har] at h1
      simp only at h1 ⊢
      rw [h1]
      exact ih ra1
    | error e =>
      obtain ⟨e1, e2⟩ := e
      rw [har] at h1
      simp only at h1 ⊢
      rcases h1 with h | h | h
      · exact Or.inl h
      · exact Or.inr (Or.inl h)
      · rw [h]; exact Or.inr (Or.inr rfl)

/-- what `Verify` returns, in terms of what `ReadAll` (read mode) returns -/
def verifyOf (r : RAResult) : Except RErr HardState :=
  match r.err with
  | none => .ok r.state
  | some e => .error e

/-- **`Verify` agrees with read-mode `ReadAll`** on any chain of files, whatever their content — same record walk,
    same error class, same hard state — unless `ReadAll` failed inside its entry arm (`ErrSliceOutOfRange`, or the
    panic of `mustUnmarshalEntry`; a panic of the state / snapshot arms is excluded with it), which `Verify` does not
    have: `verify_differs_gap` below shows the two hypotheses cannot be dropped. -/
theorem verify_agrees (start : Nat × Nat) (files : List Bytes)
    (h1 : (readAll false start files).err ≠ some .oor) (h2 : (readAll false start files).err ≠ some .panic) :
    verify start files = verifyOf (readAll false start files) := by
  unfold verify verifyFrom readAll readAllFrom at *
  rw [verifyLoop_of_recLoop]
  have hsim := applyRecs_sim start (recLoop (readFuel files) (Dec.open files)).1 {}
  cases har : applyRecs start {} (recLoop (readFuel files) (Dec.open files)).1 with
  | ok ra' =>
    rw [har] at hsim
    simp only at hsim
    have hp : ({} : RA).proj = ({} : VSt) := rfl
    rw [hp] at hsim
    rw [hsim]
    rw [readLoop_of_recLoop start _ _ _ ra' har] at h1 h2 ⊢
    simp only
    cases (recLoop (readFuel files) (Dec.open files)).2.1 with
    | decEof =>
      simp only [vEnd, readAllFin, verifyOf, RA.proj, Bool.or_false]
      cases ra'.matched <;> rfl
    | decErr e =>
      simp only [vEnd, readAllFin, verifyOf, RA.proj]
      by_cases he : e = .ueof
      · subst he
        simp only [Bool.not_false, Bool.true_and, decide_true, if_true]
        cases ra'.matched <;> rfl
      · simp [he]
    | failed e st => simp only [vEnd, readAllFin, verifyOf]
  | error e =>
    obtain ⟨e1, e2⟩ := e
    rw [har] at hsim
    simp only at hsim
    obtain ⟨ra'', d'', hrl⟩ := readLoop_of_recLoop_fail start _ _ _ e1 e2 har
    rw [hrl] at h1 h2 ⊢
    simp only [readAllFin] at h1 h2 ⊢
    rcases hsim with h | h | h
    · exact absurd (by rw [h]) h1
    · exact absurd (by rw [h]) h2
    · have hp : ({} : RA).proj = ({} : VSt) := rfl
      rw [hp] at h
      rw [h]
      rfl

/-- a WAL whose entry records jump from index 1 to index 3: `ReadAll` refuses (`ErrSliceOutOfRange`), `Verify`, which
    never looks at entries, succeeds — the hypothesis of `verify_agrees` is needed -/
def gapFile : Bytes :=
  encodeFrame (crcRec 0) ++ (encodeAll crcUpdate 0
    [⟨metadataType, [1]⟩, ⟨snapshotType, marshalWSnap ⟨0, 0, none⟩⟩, ⟨entryType, marshalEntry ⟨0, 1, 1, none⟩⟩,
     ⟨entryType, marshalEntry ⟨0, 1, 3, none⟩⟩] ++ List.replicate 8 0)

theorem verify_differs_gap :
    (readAll false (0, 0) [gapFile]).err = some .oor ∧ verify (0, 0) [gapFile] = .ok emptyHS := by
  decide +kernel

/-- non-vacuity of `verify_agrees`: a file on which both succeed -/
def okFile : Bytes :=
  encodeFrame (crcRec 0) ++ (encodeAll crcUpdate 0
    [⟨metadataType, [1]⟩, ⟨snapshotType, marshalWSnap ⟨0, 0, none⟩⟩, ⟨entryType, marshalEntry ⟨0, 1, 1, none⟩⟩,
     ⟨stateType, marshalHS ⟨1, 2, 1⟩⟩] ++ List.replicate 8 0)

example : (readAll false (0, 0) [okFile]).err = none ∧ verify (0, 0) [okFile] = .ok ⟨1, 2, 1⟩ := by decide +kernel

/-- non-vacuity of `readLoop_of_recLoop`: the fold succeeds on the records of `okFile` -/
example : (match applyRecs (0, 0) {} (recLoop 8 (Dec.open [okFile])).1 with
    | .ok ra' => ra'.ents == [⟨0, 1, 1, none⟩] && ra'.state == ⟨1, 2, 1⟩ && ra'.matched
    | .error _ => false) = true := by decide +kernel

#print axioms readLoop_of_recLoop
#print axioms verifyLoop_of_recLoop
#print axioms verify_agrees
#print axioms verify_differs_gap
end WalFile
