import RedisGoModel.Exec.Hash
/-! # C10 — hash commands maintain an exact field-to-value map

    Theorems about the definitions the driver runs (`Exec/Hash.lean` on `Ds/HashSel.lean`); the tie to the Go executors is the
    differential run of `./check C10`.  The assembled statement is `C10_statement` (proved: `C10_holds`) at the end of the file — it
    comes last because it mentions the lemma-level definitions `lastVal`, `withVals`, `HashInv`, `hashAt`.

    Proved at full strength (all byte strings, all keyspaces, all argument lists):
    * `hget_after_hset_many`, `hget_after_hset` — HGET after HSET answers the last value written, the empty string included; other fields unchanged
    * `hset_reply`, `hsetMany_count`, `hsetMany_get` — the HSET reply is the number of new fields; repeated fields: last wins, counted once
    * `hdel_command`, `hdelMany_get`, `hdelMany_count` — HDEL removes exactly the named fields, answers how many, and the key (value and deadline)
      ceases to exist when no field is left
    * `hash_commands_preserve_inv` — `HashInv` (fields unique, no empty hash in the keyspace) is preserved by all 14 commands for all inputs
    * `read_commands_consistent` — HLEN / HEXISTS / HSTRLEN agree with HGET
    * `hincrby_exact_or_rejected`, `hincrby_command` — exact int64 sum or rejected with the hash unchanged; missing field = 0
    * `hsetnx_spec`, `hsetnx_command` — sets iff absent
    * `hrandfield_sound`, `hrandfield_sound_single`, `hrandReply_accepted` — soundness of the HRANDFIELD checker
    * `wrongtype_changes_nothing`, `other_keys_untouched`

    Stated bounds (not gaps in the proofs): command-level laws relate two commands executed at the same clock reading (the passing of
    time is C06's subject); HINCRBYFLOAT arithmetic is the implementation's (checker mode), only its error/non-error class and the
    adoption of the reported value are modelled, so no arithmetic law is stated for it. -/
namespace Exec
open Resp (Reply Bytes)
open HashSel (hget hset hdel Ok)

/-! ### keyspace lemmas -/

theorem get_del_h (db : Db) (k k' : Bytes) : (db.del k).get k' = if k' = k then none else db.get k' := by
  unfold Db.del Db.get
  rw [List.find?_filter]
  by_cases hk : k' = k
  · subst hk
    have : (fun a : Bytes × Entry => decide ((a.1 != k') = true ∧ (a.1 == k') = true)) = fun _ => false := by
      funext a; by_cases h : a.1 = k' <;> simp [h]
    rw [this]; simp
  · have : (fun a : Bytes × Entry => decide ((a.1 != k) = true ∧ (a.1 == k') = true)) = fun a => a.1 == k' := by
      funext a
      by_cases h : a.1 = k'
      · simp [h, hk]
      · simp [h]
    rw [this]; simp [hk]

theorem get_put_h (db : Db) (k k' : Bytes) (e : Entry) : (db.put k e).get k' = if k' = k then some e else db.get k' := by
  have h := get_del_h db k k'
  unfold Db.put
  by_cases hk : k' = k
  · simp [hk, Db.get]
  · have : (k == k') = false := by simpa using fun e => hk e.symm
    rw [if_neg hk] at h ⊢
    rw [← h]
    simp [Db.get, this]

/-! ### expiry check -/

/-- the entry under `k` (if any) has not reached its deadline at time `now` -/
def Live (db : Db) (now : Int) (k : Bytes) : Prop := ∀ e d, db.get k = some e → e.exp = some d → now < d

theorem checkTTL_fst (db : Db) (now : Int) (k : Bytes) :
    (checkTTL db now k).1 = db ∨ (checkTTL db now k).1 = db.del k := by
  unfold checkTTL
  split
  · split
    · split <;> simp
    · simp
  · simp

theorem live_checkTTL (db : Db) (now : Int) (k : Bytes) : Live (checkTTL db now k).1 now k := by
  intro e d he hd
  unfold checkTTL at he
  split at he
  · rename_i e0 h0
    split at he
    · rename_i d0 hd0
      split at he
      · simp [get_del_h] at he
      · simp only at he
        rw [h0] at he
        cases he
        rw [hd0] at hd
        cases hd
        omega
    · rename_i hn
      simp only at he
      rw [h0] at he; cases he
      rw [hn] at hd; cases hd
  · rename_i h0
    simp only at he
    rw [h0] at he; cases he

theorem checkTTL_of_live (db : Db) (now : Int) (k : Bytes) (h : Live db now k) : checkTTL db now k = (db, true) := by
  unfold checkTTL
  split
  · rename_i e h0
    split
    · rename_i d hd
      have := h e d h0 hd
      rw [if_neg (by omega)]
    · rfl
  · rfl

/-! ### what a hash command sees -/

/-- the hash under `k` as seenH by a command at time `now`: `none` missing (or expired), `some none` another type -/
def hashAt (db : Db) (now : Int) (k : Bytes) : Option (Option HashT) := getHash (checkTTL db now k).1 k

/-- a missing key reads as the empty hash -/
def seenH : Option (Option HashT) → HashT
| some (some h) => h
| _ => []

theorem getHash_putHash (db : Db) (k : Bytes) (h : HashT) :
    getHash (putHash db k h) k = if h = [] then none else some (some h) := by
  unfold putHash getHash
  cases h with
  | nil => simp [get_del_h]
  | cons p r => simp [Db.setVal, get_put_h]

theorem get_putHash_other (db : Db) (k k' : Bytes) (h : HashT) (hk : k' ≠ k) : (putHash db k h).get k' = db.get k' := by
  unfold putHash
  split
  · simp [get_del_h, hk]
  · simp [Db.setVal, get_put_h, hk]

theorem live_putHash (db : Db) (now : Int) (k : Bytes) (h : HashT) (hl : Live db now k) : Live (putHash db k h) now k := by
  intro e d he hd
  unfold putHash at he
  split at he
  · simp [get_del_h] at he
  · simp only [Db.setVal, get_put_h, if_true] at he
    cases he
    simp only at hd
    cases hg : db.get k with
    | none => simp [hg] at hd
    | some e0 =>
      simp [hg] at hd
      exact hl e0 d hg hd

theorem hashAt_putHash (db : Db) (now : Int) (k : Bytes) (h : HashT) (hl : Live db now k) :
    hashAt (putHash db k h) now k = if h = [] then none else some (some h) := by
  unfold hashAt
  rw [checkTTL_of_live _ _ _ (live_putHash db now k h hl)]
  exact getHash_putHash db k h

theorem hashWrite_spec (env : Env) (db : Db) (k : Bytes) (body : HashT → Reply × HashT) :
    (hashAt db env.now k = some none → hashWrite env db k body = (wrongType, (checkTTL db env.now k).1)) ∧
    (hashAt db env.now k ≠ some none →
      (hashWrite env db k body).1 = (body (seenH (hashAt db env.now k))).1 ∧
      (hashWrite env db k body).2 = putHash (checkTTL db env.now k).1 k (body (seenH (hashAt db env.now k))).2) := by
  unfold hashWrite hashAt
  cases hg : getHash (checkTTL db env.now k).1 k with
  | none => simp [hg, seenH]
  | some o =>
    cases o with
    | none => simp [hg]
    | some h => simp [hg, seenH]

theorem hashRead_spec (env : Env) (db : Db) (k : Bytes) (body : HashT → Reply) :
    (hashRead env db k body).2 = (checkTTL db env.now k).1 ∧
    (hashAt db env.now k = some none → (hashRead env db k body).1 = wrongType) ∧
    (hashAt db env.now k ≠ some none → (hashRead env db k body).1 = body (seenH (hashAt db env.now k))) := by
  unfold hashRead hashAt
  cases hg : getHash (checkTTL db env.now k).1 k with
  | none => simp [hg, seenH]
  | some o =>
    cases o with
    | none => simp [hg]
    | some h => simp [hg, seenH]

/-! ### the field table: HSET -/

/-- the value the field/value arguments of one HSET assign to `g`: the last pair naming `g` wins -/
def lastVal : List Bytes → Bytes → Option Bytes
| f :: v :: rest, g => match lastVal rest g with | some w => some w | none => if f = g then some v else none
| _, _ => none

theorem hget_hset (h : HashT) (f v g : Bytes) : hget (hset h f v).1 g = if f = g then some v else hget h g := by
  by_cases e : f = g
  · subst e; simp [HashSel.hget_hset_same]
  · simp [e, HashSel.hget_hset_other h f v g (fun x => e x.symm)]

theorem hsetMany_ok (h : HashT) (l : List Bytes) (n : Nat) (ok : Ok h) : Ok (hsetMany h l n).1 := by
  fun_induction hsetMany h l n with
  | case1 h f v rest n ih => exact ih (HashSel.hset_ok h f v ok)
  | case2 l h n _ => exact ok

/-- after HSET every field named in the arguments holds the last value given for it (whatever its bytes), every other field is unchanged -/
theorem hsetMany_get (h : HashT) (l : List Bytes) (n : Nat) (g : Bytes) :
    hget (hsetMany h l n).1 g = match lastVal l g with | some w => some w | none => hget h g := by
  fun_induction hsetMany h l n with
  | case1 h f v rest n ih =>
    rw [ih, lastVal]
    cases lastVal rest g with
    | some w => rfl
    | none =>
      simp only [hget_hset]
      by_cases e : f = g <;> simp [e]
  | case2 l h n hl =>
    have : lastVal l g = none := by
      unfold lastVal
      split
      · rename_i f v rest; exact (hl f v rest rfl).elim
      · rfl
    rw [this]

/-- the HSET reply is the growth of the hash: with unique fields, exactly the number of fields that were new (a field repeated in one
    call is new at most once) -/
theorem hsetMany_count (h : HashT) (l : List Bytes) (n : Nat) :
    (hsetMany h l n).1.length + n = h.length + (hsetMany h l n).2 := by
  fun_induction hsetMany h l n with
  | case1 h f v rest n ih =>
    have := HashSel.hlen_hset h f v
    omega
  | case2 l h n _ => rfl

/-! ### the field table: HDEL -/

theorem filter_absent (h : HashT) (f : Bytes) (hn : f ∉ h.map Prod.fst) : h.filter (fun p => !(p.1 == f)) = h := by
  rw [List.filter_eq_self]
  intro p hp
  have : p.1 ≠ f := fun e => hn (e ▸ List.mem_map_of_mem hp)
  simpa using this

theorem hdel_len (h : HashT) (f : Bytes) (ok : Ok h) : (hdel h f).1.length + (hdel h f).2 = h.length := by
  unfold hdel
  split
  · rename_i ha
    simp only
    induction h with
    | nil => simp at ha
    | cons p r ih =>
      unfold Ok at ok ih
      simp only [List.map_cons, List.nodup_cons] at ok
      by_cases e : p.1 = f
      · have hn : f ∉ r.map Prod.fst := e ▸ ok.1
        simp [e, filter_absent r f hn]
      · have : r.any (fun p => p.1 == f) = true := by simpa [List.any_cons, e] using ha
        have := ih ok.2 this
        simp [e]
        omega
  · rfl

theorem hget_hdel (h : HashT) (f g : Bytes) (ok : Ok h) : hget (hdel h f).1 g = if g = f then none else hget h g := by
  have := HashSel.hdel_spec h f g ok
  by_cases e : g = f
  · subst e; simp [this.2.1]
  · simp [e, this.2.2 e]

theorem hdelMany_ok (h : HashT) (fs : List Bytes) (n : Nat) (ok : Ok h) : Ok (hdelMany h fs n).1 := by
  fun_induction hdelMany h fs n with
  | case1 h n => exact ok
  | case2 h f fs n ih => exact ih (HashSel.hdel_spec h f f ok).1

/-- HDEL removes exactly the named fields -/
theorem hdelMany_get (h : HashT) (fs : List Bytes) (n : Nat) (g : Bytes) (ok : Ok h) :
    hget (hdelMany h fs n).1 g = if g ∈ fs then none else hget h g := by
  fun_induction hdelMany h fs n with
  | case1 h n => simp
  | case2 h f fs n ih =>
    rw [ih (HashSel.hdel_spec h f f ok).1, hget_hdel h f g ok]
    by_cases e : g = f <;> by_cases m : g ∈ fs <;> simp [e, m]

/-- the HDEL reply is the number of fields removed -/
theorem hdelMany_count (h : HashT) (fs : List Bytes) (n : Nat) (ok : Ok h) :
    (hdelMany h fs n).1.length + (hdelMany h fs n).2 = h.length + n := by
  fun_induction hdelMany h fs n with
  | case1 h n => rfl
  | case2 h f fs n ih =>
    have := ih (HashSel.hdel_spec h f f ok).1
    have := hdel_len h f ok
    omega

/-! ### HSETNX, HINCRBY -/

/-- HSETNX sets the field iff it is absent -/
theorem hsetnx_spec (h : HashT) (f v : Bytes) :
    ((hget h f).isSome = true → hsetnx h f v = (.int 0, h)) ∧
    (hget h f = none → (hsetnx h f v).1 = .int 1 ∧ hget (hsetnx h f v).2 f = some v ∧
      ∀ g, g ≠ f → hget (hsetnx h f v).2 g = hget h g) := by
  unfold hsetnx
  constructor
  · intro hs; simp [hs]
  · intro hn
    simp only [hn, Option.isSome_none, Bool.false_eq_true, if_false, true_and]
    exact ⟨HashSel.hget_hset_same h f v, fun g hg => HashSel.hget_hset_other h f v g hg⟩

theorem hsetnx_ok (h : HashT) (f v : Bytes) (ok : Ok h) : Ok (hsetnx h f v).2 := by
  unfold hsetnx; split
  · exact ok
  · exact HashSel.hset_ok h f v ok

theorem parseI64_range (b : Bytes) (c : Int) (h : parseI64 b = some c) :
    StrOps.minI64 ≤ c ∧ c ≤ StrOps.maxI64 := by
  have e : (2:Nat)^63 = 9223372036854775808 := by decide
  unfold parseI64 Resp.parseInt at h
  unfold StrOps.minI64 StrOps.maxI64
  rw [e] at h
  split at h
  · cases h
  · split at h
    · simp only [Option.bind_eq_some_iff] at h
      obtain ⟨n, _, hn⟩ := h
      split at hn
      · cases hn; omega
      · cases hn
    · split at h <;>
      · simp only [Option.bind_eq_some_iff] at h
        obtain ⟨n, _, hn⟩ := h
        split at hn
        · cases hn; omega
        · cases hn

/-- HINCRBY: the exact integer sum is stored and reported, or the command is rejected and the hash is unchanged — never wrapped -/
theorem hincrby_exact_or_rejected (h : HashT) (f : Bytes) (delta : Int)
    (hd : StrOps.minI64 ≤ delta ∧ delta ≤ StrOps.maxI64) :
    match hcur h f with
    | none => hincrby h f delta = (errHashInt, h)
    | some cur =>
      if StrOps.minI64 ≤ cur + delta ∧ cur + delta ≤ StrOps.maxI64
      then hincrby h f delta = (.int (cur + delta), (hset h f (fmtInt (cur + delta))).1)
      else hincrby h f delta = (errOverflow, h) := by
  unfold hincrby
  cases hcv : hcur h f with
  | none => rfl
  | some cur =>
    have hr : StrOps.minI64 ≤ cur ∧ cur ≤ StrOps.maxI64 := by
      unfold hcur at hcv
      split at hcv
      · cases hcv; unfold StrOps.minI64 StrOps.maxI64; omega
      · exact parseI64_range _ _ hcv
    simp only [StrOps.incr_exact_or_rejected cur delta hr hd]
    split <;> rfl

theorem hincrby_ok (h : HashT) (f : Bytes) (delta : Int) (ok : Ok h) : Ok (hincrby h f delta).2 := by
  unfold hincrby
  split
  · exact ok
  · split
    · exact ok
    · exact HashSel.hset_ok h f _ ok

theorem hincrbyfloat_ok (obs : Option Reply) (bits : UInt64) (h : HashT) (f : Bytes) (ok : Ok h) :
    Ok (hincrbyfloat obs bits h f).2 := by
  unfold hincrbyfloat
  simp only
  repeat' split
  all_goals first | exact ok | exact HashSel.hset_ok h f _ ok

/-! ### HRANDFIELD: soundness of the checker -/

theorem hget_isSome_iff (h : HashT) (f : Bytes) : (hget h f).isSome = true ↔ f ∈ h.map Prod.fst := by
  unfold hget
  rw [Option.isSome_map, HashSel.isSome_find_any, List.any_eq_true]
  constructor
  · rintro ⟨p, hp, e⟩
    exact List.mem_map.mpr ⟨p, hp, by simpa using e⟩
  · intro hm
    obtain ⟨p, hp, e⟩ := List.mem_map.mp hm
    exact ⟨p, hp, by simpa using e⟩

theorem allDistinct_nodup (l : List Bytes) (h : allDistinct l = true) : l.Nodup := by
  induction l with
  | nil => exact List.nodup_nil
  | cons x xs ih =>
    unfold allDistinct at h
    simp only [Bool.and_eq_true, Bool.not_eq_true', List.contains_eq_mem, decide_eq_false_iff_not] at h
    exact List.nodup_cons.mpr ⟨h.1, ih h.2⟩

theorem hrandPlain_sound (h : HashT) (l : List Reply) (fs : List Bytes) (hp : hrandPlain h l = some fs) :
    l = fs.map bulk ∧ ∀ f ∈ fs, f ∈ h.map Prod.fst := by
  induction l generalizing fs with
  | nil => simp [hrandPlain] at hp; subst hp; simp
  | cons a rest ih =>
    cases a with
    | bulk o =>
      cases o with
      | none => simp [hrandPlain] at hp
      | some f =>
        unfold hrandPlain at hp
        split at hp
        · rename_i hs
          simp only [Option.map_eq_some_iff] at hp
          obtain ⟨fs', hfs', e⟩ := hp
          subst e
          obtain ⟨h1, h2⟩ := ih fs' hfs'
          refine ⟨by simp [h1, bulk], ?_⟩
          intro g hg
          rcases List.mem_cons.mp hg with e | e
          · subst e; exact (hget_isSome_iff h g).mp hs
          · exact h2 g e
        · cases hp
    | simple _ => simp [hrandPlain] at hp
    | err _ => simp [hrandPlain] at hp
    | int _ => simp [hrandPlain] at hp
    | arr _ => simp [hrandPlain] at hp

/-- the WITHVALUES reply for the fields `fs`: each field followed by its current value -/
def withVals (h : HashT) (fs : List Bytes) : List Reply := fs.flatMap fun f => [bulk f, .bulk (hget h f)]

theorem hrandPairs_sound (h : HashT) (n : Nat) (l : List Reply) (hl : l.length ≤ n) (fs : List Bytes)
    (hp : hrandPairs h l = some fs) : l = withVals h fs ∧ ∀ f ∈ fs, f ∈ h.map Prod.fst := by
  induction n generalizing l fs with
  | zero =>
    have : l = [] := List.length_eq_zero_iff.mp (by omega)
    subst this
    simp [hrandPairs] at hp; subst hp; simp [withVals]
  | succ n ih =>
    unfold hrandPairs at hp
    split at hp
    · cases hp; simp [withVals]
    · rename_i f v rest
      split at hp
      · rename_i hs
        simp only [Option.map_eq_some_iff] at hp
        obtain ⟨fs', hfs', e⟩ := hp
        subst e
        have hv : hget h f = some v := by simpa using hs
        obtain ⟨h1, h2⟩ := ih rest (by simp at hl; omega) fs' hfs'
        refine ⟨by simp [withVals, hv, bulk] at h1 ⊢; exact h1, ?_⟩
        intro g hg
        rcases List.mem_cons.mp hg with e | e
        · subst e; exact (hget_isSome_iff h g).mp (by simp [hv])
        · exact h2 g e
      · cases hp
    · cases hp

/-- soundness of the HRANDFIELD checker (with a count): an accepted reply is an array naming only existing fields (each followed by its
    current value under WITHVALUES), `min count len` of them and pairwise distinct for `count ≥ 0`, exactly `|count|` of them for
    `count < 0` and a non-empty hash, none for a missing key -/
theorem hrandfield_sound (h : HashT) (c : Int) (wv : Bool) (obs : Reply) (ha : hrandAccept h (some c) wv obs = true) :
    ∃ fs : List Bytes, obs = arrOf (if wv then withVals h fs else fs.map bulk) ∧ (∀ f ∈ fs, f ∈ h.map Prod.fst) ∧
      fs.length = hrandLen h.length c ∧ (0 ≤ c → fs.Nodup) := by
  unfold hrandAccept at ha
  simp only at ha
  split at ha
  · rename_i l
    split at ha
    · cases ha
    · rename_i fs hfs
      simp only [Bool.and_eq_true, beq_iff_eq, Bool.or_eq_true, decide_eq_true_eq] at ha
      refine ⟨fs, ?_, ?_, ha.1, ?_⟩
      · cases wv with
        | true => simp only [if_true] at hfs ⊢; rw [(hrandPairs_sound h l.length l (Nat.le_refl _) fs hfs).1]; rfl
        | false => simp only [Bool.false_eq_true, if_false] at hfs ⊢; rw [(hrandPlain_sound h l fs hfs).1]; rfl
      · cases wv with
        | true => exact (hrandPairs_sound h l.length l (Nat.le_refl _) fs hfs).2
        | false => exact (hrandPlain_sound h l fs hfs).2
      · intro hc
        rcases ha.2 with hneg | hd
        · omega
        · exact allDistinct_nodup fs hd
  · cases ha

/-- soundness of the HRANDFIELD checker (no count): nil exactly for a missing key, otherwise one existing field as a bulk string -/
theorem hrandfield_sound_single (h : HashT) (wv : Bool) (obs : Reply) (ha : hrandAccept h none wv obs = true) :
    (obs = nil ∧ h = []) ∨ ∃ f, obs = bulk f ∧ f ∈ h.map Prod.fst := by
  unfold hrandAccept at ha
  simp only at ha
  split at ha
  · left; exact ⟨rfl, by simpa using ha⟩
  · rename_i f; right; exact ⟨f, rfl, (hget_isSome_iff h f).mp ha⟩
  · cases ha

/-- a command at the same instant sees what the previous command left -/
theorem hashAt_after_write (env : Env) (db : Db) (k : Bytes) (body : HashT → Reply × HashT)
    (hk : hashAt db env.now k ≠ some none) :
    hashAt (hashWrite env db k body).2 env.now k =
      if (body (seenH (hashAt db env.now k))).2 = [] then none else some (some (body (seenH (hashAt db env.now k))).2) := by
  rw [((hashWrite_spec env db k body).2 hk).2]
  exact hashAt_putHash _ _ _ _ (live_checkTTL db env.now k)

theorem hashAt_after_read (env : Env) (db : Db) (k : Bytes) (body : HashT → Reply) :
    hashAt (hashRead env db k body).2 env.now k = hashAt db env.now k := by
  rw [(hashRead_spec env db k body).1]
  unfold hashAt
  rw [checkTTL_of_live _ _ _ (live_checkTTL db env.now k)]

theorem seen_after_write (env : Env) (db : Db) (k : Bytes) (body : HashT → Reply × HashT)
    (hk : hashAt db env.now k ≠ some none) :
    hashAt (hashWrite env db k body).2 env.now k ≠ some none ∧
    seenH (hashAt (hashWrite env db k body).2 env.now k) = (body (seenH (hashAt db env.now k))).2 := by
  rw [hashAt_after_write env db k body hk]
  split
  · rename_i e; exact ⟨by simp, by rw [e]; rfl⟩
  · simp [seenH]

/-! ### command level: what HGET answers after HSET (same instant; the passing of time is C06's subject) -/

theorem cmdHGet_eq (env : Env) (db : Db) (c k g : Bytes) (hk : hashAt db env.now k ≠ some none) :
    (cmdHGet env db [c, k, g]).1 = .bulk (hget (seenH (hashAt db env.now k)) g) := by
  simp only [cmdHGet]
  exact (hashRead_spec env db k _).2.2 hk

/-- (1) after `HSET k f₁ v₁ … fₙ vₙ` on a missing key or a hash, `HGET k g` answers the last value given for `g` — any byte string, the
    empty one included, as a bulk string — and what it answered before for every field not named -/
theorem hget_after_hset_many (env env' : Env) (ht : env'.now = env.now) (db : Db) (c c' k f v : Bytes) (rest : List Bytes)
    (hr : rest.length % 2 = 0) (hk : hashAt db env.now k ≠ some none) (g : Bytes) :
    (cmdHGet env' (cmdHSet env db (c :: k :: f :: v :: rest)).2 [c', k, g]).1 =
      match lastVal (f :: v :: rest) g with
      | some w => bulk w
      | none => (cmdHGet env' db [c', k, g]).1 := by
  have hne : (rest.length % 2 != 0) = false := by simp [hr]
  simp only [cmdHSet, hne, Bool.false_eq_true, if_false]
  have hk' : hashAt db env'.now k ≠ some none := by rw [ht]; exact hk
  have hw := seen_after_write env db k
    (fun h => (Reply.int (hsetMany h (f :: v :: rest) 0).2, (hsetMany h (f :: v :: rest) 0).1)) hk
  rw [← ht] at hw
  rw [cmdHGet_eq env' _ c' k g hw.1, cmdHGet_eq env' db c' k g hk', hw.2]
  simp only
  rw [hsetMany_get, ht]
  cases lastVal (f :: v :: rest) g <;> rfl

theorem hget_after_hset (env env' : Env) (ht : env'.now = env.now) (db : Db) (c c' k f v : Bytes)
    (hk : hashAt db env.now k ≠ some none) :
    (cmdHGet env' (cmdHSet env db [c, k, f, v]).2 [c', k, f]).1 = bulk v ∧
    ∀ g, g ≠ f → (cmdHGet env' (cmdHSet env db [c, k, f, v]).2 [c', k, g]).1 = (cmdHGet env' db [c', k, g]).1 := by
  constructor
  · rw [hget_after_hset_many env env' ht db c c' k f v [] rfl hk f]
    simp [lastVal]
  · intro g hg
    rw [hget_after_hset_many env env' ht db c c' k f v [] rfl hk g]
    have : ¬ f = g := fun e => hg e.symm
    simp [lastVal, this]

/-- (2) the HSET reply is `HLEN` after minus `HLEN` before: the number of fields that were new -/
theorem hset_reply (env : Env) (db : Db) (c k f v : Bytes) (rest : List Bytes) (hr : rest.length % 2 = 0)
    (hk : hashAt db env.now k ≠ some none) :
    ∃ n : Nat, (cmdHSet env db (c :: k :: f :: v :: rest)).1 = .int n ∧
      (seenH (hashAt (cmdHSet env db (c :: k :: f :: v :: rest)).2 env.now k)).length =
        (seenH (hashAt db env.now k)).length + n := by
  have hne : (rest.length % 2 != 0) = false := by simp [hr]
  simp only [cmdHSet, hne, Bool.false_eq_true, if_false]
  have hw := seen_after_write env db k
    (fun h => (Reply.int (hsetMany h (f :: v :: rest) 0).2, (hsetMany h (f :: v :: rest) 0).1)) hk
  refine ⟨(hsetMany (seenH (hashAt db env.now k)) (f :: v :: rest) 0).2, ?_, ?_⟩
  · rw [((hashWrite_spec env db k _).2 hk).1]
  · rw [hw.2]
    have := hsetMany_count (seenH (hashAt db env.now k)) (f :: v :: rest) 0
    simp only at this ⊢
    omega

/-! ### command level: HDEL -/

theorem all_none_nil (h : HashT) (hn : ∀ g, hget h g = none) : h = [] := by
  cases h with
  | nil => rfl
  | cons p r => have := hn p.1; simp [hget] at this

/-- (3) HDEL answers the number of fields removed, leaves exactly the fields not named, and when no field is left the key ceases to
    exist — value and deadline -/
theorem hdel_command (env : Env) (db : Db) (c k f : Bytes) (fs : List Bytes) (hk : hashAt db env.now k ≠ some none)
    (ok : Ok (seenH (hashAt db env.now k))) :
    let h := seenH (hashAt db env.now k)
    let db' := (cmdHDel env db (c :: k :: f :: fs)).2
    ∃ n : Nat, (cmdHDel env db (c :: k :: f :: fs)).1 = .int n ∧
      (seenH (hashAt db' env.now k)).length + n = h.length ∧
      (∀ g, hget (seenH (hashAt db' env.now k)) g = if g ∈ f :: fs then none else hget h g) ∧
      ((∀ g, g ∈ h.map Prod.fst → g ∈ f :: fs) → db'.get k = none) := by
  intro h db'
  have hw := seen_after_write env db k (fun h => (Reply.int (hdelMany h (f :: fs) 0).2, (hdelMany h (f :: fs) 0).1)) hk
  have hs := (hashWrite_spec env db k (fun h => (Reply.int (hdelMany h (f :: fs) 0).2, (hdelMany h (f :: fs) 0).1))).2 hk
  refine ⟨(hdelMany h (f :: fs) 0).2, ?_, ?_, ?_, ?_⟩
  · simp only [cmdHDel]; rw [hs.1]
  · show (seenH (hashAt (cmdHDel env db (c :: k :: f :: fs)).2 env.now k)).length + _ = _
    simp only [cmdHDel]; rw [hw.2]
    have := hdelMany_count h (f :: fs) 0 ok
    simp only at this ⊢
    omega
  · intro g
    show hget (seenH (hashAt (cmdHDel env db (c :: k :: f :: fs)).2 env.now k)) g = _
    simp only [cmdHDel]; rw [hw.2]
    exact hdelMany_get h (f :: fs) 0 g ok
  · intro hall
    have hnil : (hdelMany h (f :: fs) 0).1 = [] := by
      apply all_none_nil
      intro g
      rw [hdelMany_get h (f :: fs) 0 g ok]
      by_cases m : g ∈ f :: fs
      · simp [m]
      · simp only [m, if_false]
        cases hg : hget h g with
        | none => rfl
        | some v => exact absurd (hall g ((hget_isSome_iff h g).mp (by simp [hg]))) m
    show (cmdHDel env db (c :: k :: f :: fs)).2.get k = none
    simp only [cmdHDel]; rw [hs.2]
    simp only
    rw [hnil]
    simp [putHash, get_del_h]

/-! ### invariant: every stored hash has unique fields and is not empty -/

/-- `hash_never_empty` and `Nodup` as one keyspace invariant -/
def HashInv (db : Db) : Prop := ∀ k e h, db.get k = some e → e.val = .hash h → Ok h ∧ h ≠ []

theorem inv_del (db : Db) (k : Bytes) (hi : HashInv db) : HashInv (db.del k) := by
  intro k' e h he hv
  rw [get_del_h] at he
  split at he
  · cases he
  · exact hi k' e h he hv

theorem inv_checkTTL (db : Db) (now : Int) (k : Bytes) (hi : HashInv db) : HashInv (checkTTL db now k).1 := by
  rcases checkTTL_fst db now k with e | e <;> rw [e]
  · exact hi
  · exact inv_del db k hi

theorem inv_putHash (db : Db) (k : Bytes) (h : HashT) (hi : HashInv db) (ok : Ok h) : HashInv (putHash db k h) := by
  unfold putHash
  split
  · exact inv_del db k hi
  · rename_i hne
    intro k' e h' he hv
    simp only [Db.setVal, get_put_h] at he
    split at he
    · cases he
      simp only [Value.hash.injEq] at hv
      subst hv
      exact ⟨ok, by intro e; simp [e] at hne⟩
    · exact hi k' e h' he hv

theorem hashRead_inv (env : Env) (db : Db) (k : Bytes) (body : HashT → Reply) (hi : HashInv db) :
    HashInv (hashRead env db k body).2 := by
  rw [(hashRead_spec env db k body).1]
  exact inv_checkTTL db env.now k hi

theorem seen_ok (db : Db) (k : Bytes) (hi : HashInv db) : Ok (seenH (getHash db k)) := by
  unfold getHash
  cases hg : db.get k with
  | none => exact List.nodup_nil
  | some e =>
    cases hv : e.val with
    | hash h => simp only [hv, seenH]; exact (hi k e h hg hv).1
    | _ => simp only [hv, seenH]; exact List.nodup_nil

theorem hashWrite_inv (env : Env) (db : Db) (k : Bytes) (body : HashT → Reply × HashT)
    (hb : ∀ h, Ok h → Ok (body h).2) (hi : HashInv db) : HashInv (hashWrite env db k body).2 := by
  have hi1 := inv_checkTTL db env.now k hi
  by_cases hk : hashAt db env.now k = some none
  · rw [(hashWrite_spec env db k body).1 hk]; exact hi1
  · rw [((hashWrite_spec env db k body).2 hk).2]
    exact inv_putHash _ k _ hi1 (hb _ (seen_ok _ k hi1))

/-- the invariant is preserved by every hash command, whatever the arguments, the clock and the observed reply -/
theorem hash_commands_preserve_inv (name : String) (c : Cmd) (hc : (name, c) ∈ hashTable)
    (env : Env) (db : Db) (args : List Bytes) (hi : HashInv db) : HashInv (c env db args).2 := by
  simp only [hashTable, List.mem_cons, Prod.mk.injEq, List.mem_nil_iff, or_false] at hc
  rcases hc with ⟨_, rfl⟩ | ⟨_, rfl⟩ | ⟨_, rfl⟩ | ⟨_, rfl⟩ | ⟨_, rfl⟩ | ⟨_, rfl⟩ | ⟨_, rfl⟩ | ⟨_, rfl⟩ | ⟨_, rfl⟩ | ⟨_, rfl⟩ |
    ⟨_, rfl⟩ | ⟨_, rfl⟩ | ⟨_, rfl⟩ | ⟨_, rfl⟩
  · unfold cmdHSet; repeat' split
    all_goals first | exact hi | exact hashWrite_inv _ _ _ _ (fun h ok => hsetMany_ok h _ 0 ok) hi
  · unfold cmdHSetNx; repeat' split
    all_goals first | exact hi | exact hashWrite_inv _ _ _ _ (fun h ok => hsetnx_ok h _ _ ok) hi
  · unfold cmdHGet; repeat' split
    all_goals first | exact hi | exact hashRead_inv _ _ _ _ hi
  · unfold cmdHMGet; repeat' split
    all_goals first | exact hi | exact hashRead_inv _ _ _ _ hi
  · unfold cmdHGetAll; repeat' split
    all_goals first | exact hi | exact hashRead_inv _ _ _ _ hi
  · unfold cmdHKeys; repeat' split
    all_goals first | exact hi | exact hashRead_inv _ _ _ _ hi
  · unfold cmdHVals; repeat' split
    all_goals first | exact hi | exact hashRead_inv _ _ _ _ hi
  · unfold cmdHLen; repeat' split
    all_goals first | exact hi | exact hashRead_inv _ _ _ _ hi
  · unfold cmdHExists; repeat' split
    all_goals first | exact hi | exact hashRead_inv _ _ _ _ hi
  · unfold cmdHStrLen; repeat' split
    all_goals first | exact hi | exact hashRead_inv _ _ _ _ hi
  · unfold cmdHDel; repeat' split
    all_goals first | exact hi | exact hashWrite_inv _ _ _ _ (fun h ok => hdelMany_ok h _ 0 ok) hi
  · unfold cmdHIncrBy; repeat' split
    all_goals first | exact hi | exact hashWrite_inv _ _ _ _ (fun h ok => hincrby_ok h _ _ ok) hi
  · unfold cmdHIncrByFloat; repeat' split
    all_goals first | exact hi | exact hashWrite_inv _ _ _ _ (fun h ok => hincrbyfloat_ok _ _ h _ ok) hi
  · unfold cmdHRandField hrandWithCount; repeat' split
    all_goals first | exact hi | exact hashRead_inv _ _ _ _ hi

/-! ### command level: HLEN, HEXISTS, HSTRLEN agree with HGET; HINCRBY; HSETNX; WRONGTYPE -/

/-- (5) the four point reads are functions of the same field table: HEXISTS is 1 iff HGET is not nil, HSTRLEN is the length of what HGET
    answers (0 for nil), HLEN is the number of entries (fields are unique: `HashInv`) -/
theorem read_commands_consistent (env : Env) (db : Db) (c1 c2 c3 c4 k f : Bytes) (hk : hashAt db env.now k ≠ some none) :
    let h := seenH (hashAt db env.now k)
    (cmdHGet env db [c1, k, f]).1 = .bulk (hget h f) ∧
    (cmdHExists env db [c2, k, f]).1 = .int (if (hget h f).isSome then 1 else 0) ∧
    (cmdHStrLen env db [c3, k, f]).1 = .int (match hget h f with | some v => v.length | none => 0) ∧
    (cmdHLen env db [c4, k]).1 = .int (h.map Prod.fst).length := by
  refine ⟨cmdHGet_eq env db c1 k f hk, ?_, ?_, ?_⟩
  · simp only [cmdHExists]; exact (hashRead_spec env db k _).2.2 hk
  · simp only [cmdHStrLen]; rw [(hashRead_spec env db k _).2.2 hk]; simp only [hstrlen]; split <;> simp_all
  · simp only [cmdHLen]; rw [(hashRead_spec env db k _).2.2 hk]; simp

/-- (6) HINCRBY at command level: the reply is the exact sum and that sum (as a decimal numeral) is what the field then holds, or the
    command is rejected and the hash is what it was; a missing field (or key) counts as 0 -/
theorem hincrby_command (env : Env) (db : Db) (c k f d : Bytes) (delta : Int) (hp : parseI64 d = some delta)
    (hk : hashAt db env.now k ≠ some none) :
    let h := seenH (hashAt db env.now k)
    let r := cmdHIncrBy env db [c, k, f, d]
    match hcur h f with
    | none => r.1 = errHashInt ∧ seenH (hashAt r.2 env.now k) = h
    | some cur =>
      if StrOps.minI64 ≤ cur + delta ∧ cur + delta ≤ StrOps.maxI64
      then r.1 = .int (cur + delta) ∧ hget (seenH (hashAt r.2 env.now k)) f = some (fmtInt (cur + delta)) ∧
           ∀ g, g ≠ f → hget (seenH (hashAt r.2 env.now k)) g = hget h g
      else r.1 = errOverflow ∧ seenH (hashAt r.2 env.now k) = h := by
  intro h r
  have hr1 : r.1 = (hincrby h f delta).1 := by
    show (cmdHIncrBy env db [c, k, f, d]).1 = _
    simp only [cmdHIncrBy, hp]; exact ((hashWrite_spec env db k _).2 hk).1
  have hr2 : seenH (hashAt r.2 env.now k) = (hincrby h f delta).2 := by
    show seenH (hashAt (cmdHIncrBy env db [c, k, f, d]).2 env.now k) = _
    simp only [cmdHIncrBy, hp]; exact (seen_after_write env db k _ hk).2
  have hx := hincrby_exact_or_rejected h f delta (parseI64_range d delta hp)
  rw [hr1, hr2]
  cases hc : hcur h f with
  | none => rw [hc] at hx; simp only at hx ⊢; rw [hx]; exact ⟨rfl, rfl⟩
  | some cur =>
    rw [hc] at hx
    simp only at hx ⊢
    split
    · rename_i hin
      rw [if_pos hin] at hx
      rw [hx]
      exact ⟨rfl, HashSel.hget_hset_same h f _, fun g hg => HashSel.hget_hset_other h f _ g hg⟩
    · rename_i hout
      rw [if_neg hout] at hx
      rw [hx]; exact ⟨rfl, rfl⟩

/-- (7) HSETNX at command level: sets the field (reply 1) iff it is absent, otherwise answers 0 and changes nothing -/
theorem hsetnx_command (env : Env) (db : Db) (c k f v : Bytes) (hk : hashAt db env.now k ≠ some none) :
    let h := seenH (hashAt db env.now k)
    let r := cmdHSetNx env db [c, k, f, v]
    ((hget h f).isSome = true → r.1 = .int 0 ∧ seenH (hashAt r.2 env.now k) = h) ∧
    (hget h f = none → r.1 = .int 1 ∧ hget (seenH (hashAt r.2 env.now k)) f = some v ∧
      ∀ g, g ≠ f → hget (seenH (hashAt r.2 env.now k)) g = hget h g) := by
  intro h r
  have hr1 : r.1 = (hsetnx h f v).1 := by
    show (cmdHSetNx env db [c, k, f, v]).1 = _
    simp only [cmdHSetNx]; exact ((hashWrite_spec env db k _).2 hk).1
  have hr2 : seenH (hashAt r.2 env.now k) = (hsetnx h f v).2 := by
    show seenH (hashAt (cmdHSetNx env db [c, k, f, v]).2 env.now k) = _
    simp only [cmdHSetNx]; exact (seen_after_write env db k _ hk).2
  rw [hr1, hr2]
  have hs := hsetnx_spec h f v
  constructor
  · intro hsome; rw [hs.1 hsome]; exact ⟨rfl, rfl⟩
  · intro hnone; exact hs.2 hnone

theorem checkTTL_of_wrongtype (db : Db) (now : Int) (k : Bytes) (hk : hashAt db now k = some none) :
    (checkTTL db now k).1 = db := by
  rcases checkTTL_fst db now k with e | e
  · exact e
  · unfold hashAt at hk
    rw [e] at hk
    simp [getHash, get_del_h] at hk

/-- a key holding another type: every hash command answers WRONGTYPE and the keyspace is unchanged -/
theorem wrongtype_changes_nothing (env : Env) (db : Db) (k : Bytes) (hk : hashAt db env.now k = some none)
    (bw : HashT → Reply × HashT) (br : HashT → Reply) :
    hashWrite env db k bw = (wrongType, db) ∧ hashRead env db k br = (wrongType, db) := by
  constructor
  · rw [(hashWrite_spec env db k bw).1 hk, checkTTL_of_wrongtype db env.now k hk]
  · have h := hashRead_spec env db k br
    rw [checkTTL_of_wrongtype db env.now k hk] at h
    exact Prod.ext (h.2.1 hk) h.1

/-- other keys are never touched by a hash command on `k` -/
theorem other_keys_untouched (env : Env) (db : Db) (k k' : Bytes) (hne : k' ≠ k)
    (bw : HashT → Reply × HashT) (br : HashT → Reply) :
    (hashWrite env db k bw).2.get k' = db.get k' ∧ (hashRead env db k br).2.get k' = db.get k' := by
  have hc : (checkTTL db env.now k).1.get k' = db.get k' := by
    rcases checkTTL_fst db env.now k with e | e <;> rw [e]
    simp [get_del_h, hne]
  constructor
  · by_cases hk : hashAt db env.now k = some none
    · rw [(hashWrite_spec env db k bw).1 hk]; exact hc
    · rw [((hashWrite_spec env db k bw).2 hk).2, get_putHash_other _ k k' _ hne]; exact hc
  · rw [(hashRead_spec env db k br).1]; exact hc

/-- (8, command level) HRANDFIELD answers what the implementation answered only if the specification accepts it -/
theorem hrandReply_accepted (obs : Reply) (h : HashT) (count : Option Int) (wv : Bool)
    (he : hrandReply (some obs) h count wv = obs) : hrandAccept h count wv obs = true ∨ obs = hrandDefault h count wv := by
  unfold hrandReply at he
  simp only at he
  split at he
  · left; assumption
  · right; exact he.symm

/-! ### the property statement assembled -/

/-- C10 on the model (the tie to the Go code is the differential run): the invariant, the map laws and the checker's soundness -/
def C10_statement : Prop :=
  (∀ name c, (name, c) ∈ hashTable → ∀ env db args, HashInv db → HashInv (c env db args).2) ∧
  (∀ (env env' : Env), env'.now = env.now → ∀ (db : Db) (c c' k f v : Bytes) (rest : List Bytes), rest.length % 2 = 0 →
      hashAt db env.now k ≠ some none → ∀ g,
      (cmdHGet env' (cmdHSet env db (c :: k :: f :: v :: rest)).2 [c', k, g]).1 =
        match lastVal (f :: v :: rest) g with | some w => bulk w | none => (cmdHGet env' db [c', k, g]).1) ∧
  (∀ (h : HashT) (l : List Bytes), (hsetMany h l 0).1.length = h.length + (hsetMany h l 0).2) ∧
  (∀ (h : HashT) (fs : List Bytes) (g : Bytes), Ok h →
      (hget (hdelMany h fs 0).1 g = if g ∈ fs then none else hget h g) ∧
      (hdelMany h fs 0).1.length + (hdelMany h fs 0).2 = h.length) ∧
  (∀ (db : Db) (k : Bytes), getHash (putHash db k []) k = none ∧ (putHash db k []).get k = none) ∧
  (∀ (h : HashT) (f : Bytes) (delta : Int), StrOps.minI64 ≤ delta ∧ delta ≤ StrOps.maxI64 →
      match hcur h f with
      | none => hincrby h f delta = (errHashInt, h)
      | some cur =>
        if StrOps.minI64 ≤ cur + delta ∧ cur + delta ≤ StrOps.maxI64
        then hincrby h f delta = (.int (cur + delta), (hset h f (fmtInt (cur + delta))).1)
        else hincrby h f delta = (errOverflow, h)) ∧
  (∀ (h : HashT) (f v : Bytes), ((hget h f).isSome = true → hsetnx h f v = (.int 0, h)) ∧
      (hget h f = none → (hsetnx h f v).1 = .int 1 ∧ hget (hsetnx h f v).2 f = some v ∧
        ∀ g, g ≠ f → hget (hsetnx h f v).2 g = hget h g)) ∧
  (∀ (h : HashT) (c : Int) (wv : Bool) (obs : Reply), hrandAccept h (some c) wv obs = true →
      ∃ fs : List Bytes, obs = arrOf (if wv then withVals h fs else fs.map bulk) ∧ (∀ f ∈ fs, f ∈ h.map Prod.fst) ∧
        fs.length = hrandLen h.length c ∧ (0 ≤ c → fs.Nodup))

theorem C10_holds : C10_statement := by
  refine ⟨hash_commands_preserve_inv, ?_, ?_, ?_, ?_, hincrby_exact_or_rejected, hsetnx_spec, hrandfield_sound⟩
  · intro env env' ht db c c' k f v rest hr hk g
    exact hget_after_hset_many env env' ht db c c' k f v rest hr hk g
  · intro h l; have := hsetMany_count h l 0; omega
  · intro h fs g ok; exact ⟨hdelMany_get h fs 0 g ok, by have := hdelMany_count h fs 0 ok; omega⟩
  · intro db k; simp [putHash, getHash, get_del_h]

/-! ### the hypotheses are satisfiable -/

/-- the key `k`, the fields `f`, `g`, `x`, the value `1` -/
def exK : Bytes := [107]
def exF : Bytes := [102]
def exG : Bytes := [103]
def exX : Bytes := [120]
def ex1 : Bytes := [49]
/-- a two-field hash, one value empty -/
def exH : HashT := [(exF, []), (exG, ex1)]
def exDbHash : Db := [(exK, { val := .hash exH })]

/-- a keyspace with one two-field hash satisfies the invariant, and `hashAt … ≠ some none` holds both for that key and for a missing key -/
example : HashInv exDbHash ∧ hashAt exDbHash 0 exK ≠ some none ∧ hashAt [] 0 exK ≠ some none := by
  refine ⟨?_, by decide, by decide⟩
  intro k e h he hv
  simp only [exDbHash, Db.get, List.find?_cons] at he
  split at he
  · simp only [Option.map_some, Option.some.injEq] at he
    subst he
    simp only [Value.hash.injEq] at hv
    subst hv
    exact ⟨by unfold Ok; decide, by simp [exH]⟩
  · simp at he

/-- HGET after HSET of the empty string answers the empty bulk string, not nil (instance of `hget_after_hset` on the empty keyspace) -/
example : (cmdHGet { now := 5 } (cmdHSet { now := 5 } [] [[], exK, exF, []]).2 [[], exK, exF]).1 = .bulk (some []) :=
  (hget_after_hset { now := 5 } { now := 5 } rfl [] [] [] exK exF [] (by decide)).1

/-- the checker accepts a correct selection and refuses a field that does not exist, a repeated field under a positive count and a
    wrong number of fields -/
example : hrandAccept exH (some 5) false (bulks [exG, exF]) = true ∧
    hrandAccept exH (some 2) false (bulks [exG, exX]) = false ∧
    hrandAccept exH (some 2) false (bulks [exG, exG]) = false ∧
    hrandAccept exH (some (-3)) true (bulks [exG, ex1, exG, ex1, exF, []]) = true ∧
    hrandAccept exH (some (-3)) false (bulks [exG, exF]) = false ∧
    hrandAccept exH none false (bulk exF) = true ∧ hrandAccept exH none false nil = false ∧ hrandAccept [] none false nil = true := by
  decide

#print axioms C10_holds
#print axioms hget_after_hset
#print axioms hset_reply
#print axioms hdel_command
#print axioms read_commands_consistent
#print axioms hincrby_command
#print axioms hsetnx_command
#print axioms hrandfield_sound_single
#print axioms wrongtype_changes_nothing
#print axioms other_keys_untouched
end Exec
