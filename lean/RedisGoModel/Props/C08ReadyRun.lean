import RedisGoModel.Props.C08ReadyStmtF
/-! `Inv` along a run: `wal.Save`'s write instantiated, every statement, taking a Ready, crash and restart, the initial state.  Core Lean only. -/
namespace ReadyLoop

variable {c : Cfg} {s : State} {rest : List Stmt}

theorem mustSync_false {st prev : HardState} {n : Nat} (h : mustSync st prev n = false) : n = 0 ∧ st.vote = prev.vote ∧ st.term = prev.term := by
  simp [mustSync] at h
  exact ⟨h.1.1, h.1.2, h.2⟩

theorem isEmpty_hs {hh : HardState} (h : hh.isEmpty = true) : hh = {} := by
  cases hh with
  | mk t v cm =>
    simp [HardState.isEmpty] at h
    obtain ⟨⟨a, b⟩, cc⟩ := h
    subst a; subst b; subst cc; rfl

theorem inv_walWrite (h : Inv c s) (ht : s.todo = .walWrite :: rest) : Inv c { exec c s .walWrite with todo := rest } := by
  have hr := tails_eq (ht ▸ h.suf); subst hr
  have hwin : Stmt.walWrite ∈ s.todo := by rw [ht]; decide
  obtain ⟨c1, _, _, _, _, _⟩ := readyOk_parts (h.rdW hwin).1
  rcases bool_cases s.rd.hs.isEmpty with hhe | hhe
  · have hh' : hsAfter s.node s.rd = (none : Option HardState).getD s.node.hs := by simp [hsAfter, hhe]
    rcases bool_cases s.rd.ents.isEmpty with hee | hee
    · -- nothing to save
      have hents : s.rd.ents = [] := by simpa using hee
      let nA : Node := { s.node with mustSync := false }
      have hex : exec c s .walWrite = { s with node := nA } := by simp [exec, hhe, hee, nA]
      rw [hex]
      have := inv_walWrite_core h ht none nA (by intro hh hm; cases hm) rfl hh' rfl rfl rfl rfl rfl
        (fun _ => ⟨hents, by intro hh hm; cases hm⟩) h.node.ws
      have hd : s.disk.write (s.rd.ents.map Rec.entry ++ (none : Option HardState).toList.map Rec.state) = s.disk := by
        rw [hents]; exact Disk.write_nil _
      rw [hd] at this
      exact this
    · let ms := mustSync s.rd.hs s.node.walState s.rd.ents.length
      let nB : Node := { s.node with mustSync := ms }
      have hex : exec c s .walWrite = { s with disk := s.disk.write (s.rd.ents.map Rec.entry ++ (none : Option HardState).toList.map Rec.state), node := nB } := by
        simp [exec, hhe, hee, nB, ms]
      rw [hex]
      refine inv_walWrite_core h ht none nB (by intro hh hm; cases hm) rfl hh' rfl rfl rfl rfl rfl ?_ h.node.ws
      intro hm
      have := (mustSync_false (show mustSync s.rd.hs s.node.walState s.rd.ents.length = false from hm)).1
      exact ⟨List.eq_nil_of_length_eq_zero this, by intro hh hx; cases hx⟩
  · have hh' : hsAfter s.node s.rd = (some s.rd.hs : Option HardState).getD s.node.hs := by simp [hsAfter, hhe]
    let ms := mustSync s.rd.hs s.node.walState s.rd.ents.length
    let nC : Node := { s.node with mustSync := ms, walState := s.rd.hs, hs := s.rd.hs }
    have hex : exec c s .walWrite = { s with disk := s.disk.write (s.rd.ents.map Rec.entry ++ (some s.rd.hs : Option HardState).toList.map Rec.state), node := nC } := by
      simp [exec, hhe, nC, ms]
    rw [hex]
    refine inv_walWrite_core h ht (some s.rd.hs) nC (by intro hh hm; cases hm; exact ⟨rfl, hhe⟩) rfl hh' rfl rfl rfl rfl rfl ?_ (Or.inr ⟨rfl, rfl⟩)
    intro hm
    obtain ⟨h0, hv, htm⟩ := mustSync_false (show mustSync s.rd.hs s.node.walState s.rd.ents.length = false from hm)
    refine ⟨List.eq_nil_of_length_eq_zero h0, ?_⟩
    intro hh hx
    cases hx
    obtain ⟨a, _, b⟩ := c1 hhe
    rcases h.node.ws with hw | hw
    · rw [hw] at hv htm
      have ht0 : s.rd.hs.term = 0 := htm
      have hv0 : s.rd.hs.vote = 0 := hv
      have : s.node.hs.term = 0 := by omega
      refine ⟨by omega, ?_⟩
      rcases b (by omega) with b | b
      · omega
      · exact b
    · exact ⟨by rw [htm]; exact hw.1, by rw [hv]; exact hw.2⟩

/-- **every statement of the arm keeps the invariant** -/
theorem inv_stmt (h : Inv c s) {st : Stmt} (ht : s.todo = st :: rest) : Inv c { exec c s st with todo := rest } := by
  cases st with
  | snapFile => exact inv_snapFile h ht
  | snapWalWrite => exact inv_snapWalWrite h ht
  | snapWalSync => exact inv_snapWalSync h ht
  | walWrite => exact inv_walWrite h ht
  | walFlush => exact inv_walFlush h ht
  | applySnap => exact inv_applySnap h ht
  | walSync => exact inv_walSync h ht
  | publishSnap => exact inv_publishSnap h ht
  | append => exact inv_append h ht
  | send => exact inv_send h ht
  | publish => exact inv_publish h ht
  | trigFile => exact inv_trigFile h ht
  | trigWalWrite => exact inv_trigWalWrite h ht
  | trigWalSync => exact inv_trigWalSync h ht
  | trigCompact => exact inv_trigCompact h ht
  | advance => exact inv_advance h ht

/-- taking a conforming Ready -/
theorem inv_take (hc : c.arm = theArm) (h : Inv c s) (ht : s.todo = []) (rd : Ready) (hok : ReadyOk c s.node rd) : Inv c (take c s rd) := by
  have hrd := h.idle ht
  have htn : s.node.trig = none := by
    cases htr : s.node.trig with
    | none => rfl
    | some sn => exact absurd (h.trigF sn htr).1 (by rw [ht]; simp)
  have eL : L s = s.node := by unfold L; rw [if_neg (fun hx => absurd hx.2 (by rw [ht]; simp))]
  have hset : Settled s := ⟨fun hf => absurd hf (by rw [ht]; simp), fun hsn => by rw [hrd] at hsn; cases hsn⟩
  unfold take
  rw [hc]
  have eL' : L { s with rd := rd, todo := theArm, owed := s.owed.filter (fun p => !released rd p) } = s.node := by
    unfold L; rw [if_neg (fun hx => absurd (show Stmt.walWrite ∈ theArm by decide) hx.1)]
  have hV : ∀ b v, VOk s b v → VOk { s with rd := rd, todo := theArm, owed := s.owed.filter (fun p => !released rd p) } b v := by
    intro b v hv
    have h1 := hv.1
    rw [eL] at h1
    exact ⟨by rw [eL']; exact h1, fun hx => absurd (show Stmt.walWrite ∈ theArm by decide) hx, fun sn hs2 => by rw [htn] at hs2; cases hs2⟩
  have hwin : Stmt.walWrite ∈ theArm := by decide
  exact
    { down := h.down
      suf := by simp [tailsOf, theArm]
      safe := take_safe' h.safe
      full := by
        obtain ⟨v, hv, hF⟩ := h.full
        exact ⟨v, hv, hF.1, hV _ _ hF.2⟩
      imgs := fun _ k => by
        obtain ⟨v, hv, hI⟩ := h.imgs hset k
        exact ⟨v, hv, hI.1, hI.2.1, hV _ _ hI.2.2⟩
      node := h.node
      idle := fun hx => absurd hx (by simp [theArm])
      novote0 := fun t hx => h.novote0 t (List.mem_filter.mp hx).1
      rdW := fun _ => ⟨hok, fun p hp => take_not_taken_back c s rd p (by simpa [take] using hp)
          (fun t x hpx hx0 => by subst hpx; subst hx0; exact h.novote0 t (List.mem_filter.mp hp).1),
        fun _ => ⟨fun hx => absurd (show Stmt.snapFile ∈ theArm by decide) hx, fun hx => absurd (show Stmt.snapWalWrite ∈ theArm by decide) hx⟩⟩
      post := fun hx => absurd hwin hx
      trigF := fun sn hs2 => by rw [htn] at hs2; cases hs2 }

/-- kill -9 at any moment, any prefix of the unsynced tail surviving, and a new start -/
theorem inv_crash (h : Inv c s) (k : Nat) : Inv c (crashRestart s k) := by
  obtain ⟨v, hv, hp⟩ := h.safe k
  have hvr : replayRecs (s.disk.image k).synced s.disk.files = some v := hv
  have hex : crashRestart s k = { s with disk := s.disk.image k, node := Node.ofView v, rd := {}, todo := [] } := by
    unfold crashRestart; rw [hv]
  rw [hex]
  have eL' : L { s with disk := s.disk.image k, node := Node.ofView v, rd := {}, todo := [] } = Node.ofView v := by
    unfold L; rw [if_neg (fun hx => absurd hx.2 (by tdec))]
  have hcov : Cover v (Node.ofView v) :=
    cover_intro (fun e he => Or.inr he) (Nat.le_refl _) (Nat.le_refl _)
  have hV : ∀ b, VOk { s with disk := s.disk.image k, node := Node.ofView v, rd := {}, todo := [] } b v :=
    fun b => ⟨by rw [eL']; exact hcov, fun _ hsn => absurd hsn (by tdec), fun sn hs2 => by cases hs2⟩
  exact
    { down := h.down
      suf := by simp [tailsOf, theArm]
      safe := fun j => ⟨v, by show replay (s.disk.image k) j = some v; rw [replay_image]; exact hv, hp⟩
      full := ⟨v, by show replay (s.disk.image k) _ = some v; rw [replay_image]; exact hv, rfl, hV false⟩
      imgs := fun _ j => ⟨v, by show replay (s.disk.image k) j = some v; rw [replay_image]; exact hv, rfl, rfl, hV true⟩
      node :=
        { contig := replay_contig hvr
          offc := replay_base_le_commit hvr
          appc := replay_base_le_commit hvr
          ws := Or.inl rfl }
      idle := fun _ => rfl
      novote0 := h.novote0
      rdW := fun hx => absurd hx (by tdec)
      post := fun _ hne => absurd rfl hne
      trigF := fun sn hs2 => by cases hs2 }

/-- the node before its first start: `wal.Create` has written and synced the snapshot record (0, 0) -/
theorem inv_init (c : Cfg) : Inv c {} := by
  have hv : ∀ k, replay ({} : State).disk k = some ⟨{}, {}, []⟩ := by
    intro k
    have : ({} : State).disk.image k = ({} : State).disk := by simp [Disk.image]
    simp only [replay, this]
    rfl
  have eL' : L ({} : State) = {} := by unfold L; rw [if_neg (fun hx => absurd hx.2 (by tdec))]
  have hcov : Cover ⟨{}, {}, []⟩ ({} : Node) := cover_intro (fun e he => by cases he) (Nat.le_refl _) (Nat.le_refl _)
  have hV : ∀ b, VOk ({} : State) b ⟨{}, {}, []⟩ :=
    fun b => ⟨by rw [eL']; exact hcov, fun _ hsn => absurd hsn (by tdec), fun sn hs2 => by cases hs2⟩
  exact
    { down := rfl
      suf := by simp [tailsOf, theArm]
      safe := fun k => ⟨_, hv k, fun p hp => by cases hp⟩
      full := ⟨_, hv _, rfl, hV false⟩
      imgs := fun _ k => ⟨_, hv k, rfl, rfl, hV true⟩
      node := { contig := contig_nil _, offc := Nat.le_refl _, appc := Nat.le_refl _, ws := Or.inl rfl }
      idle := fun _ => rfl
      novote0 := fun t hx => by cases hx
      rdW := fun hx => absurd hx (by tdec)
      post := fun _ hne => absurd rfl hne
      trigF := fun sn hs2 => by cases hs2 }

/-- **the invariant holds along every conforming run** -/
theorem inv_run (hc : c.arm = theArm) : ∀ (evs : List Ev) (s : State), Inv c s → Conforms c s evs → Inv c (run c s evs) := by
  intro evs
  induction evs with
  | nil => intro s h _; exact h
  | cons ev evs ih =>
    intro s h hconf
    show Inv c (run c (step c s ev) evs)
    cases ev with
    | ready rd =>
      obtain ⟨hok, hrest⟩ := hconf
      refine ih _ ?_ hrest
      simp only [step]
      split
      · rename_i hcond; exact inv_take hc h hcond.2 rd (hok hcond)
      · exact h
    | stmt =>
      refine ih _ ?_ hconf
      simp only [step, h.down, Bool.false_eq_true, ↓reduceIte]
      split
      · exact h
      · rename_i st rest ht; exact inv_stmt h ht
    | crash k =>
      refine ih _ ?_ hconf
      simp only [step, h.down, Bool.false_eq_true, ↓reduceIte]
      exact inv_crash h k

end ReadyLoop
