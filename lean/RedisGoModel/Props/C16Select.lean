import RedisGoModel.Props.C16SelectInv
import RedisGoModel.Props.C16ReadAll
import RedisGoModel.Driver.Wal
/-! # C16 — `ReadAll` after `selectWALFiles`

    `wal.Open` / `OpenForRead` do not read every segment file: `selectWALFiles` starts at the last file whose name index
    is at or below the snapshot index (`Driver.selectFiles`, the definition the wal engine runs). The theorems of
    C16ReadAll.lean read all files; `C16.readAll_selected` closes the difference: for a history that honours the
    contract, leaves no stale suffix above the snapshot index (`NoStale`), keeps its `Save`s at or above a snapshot once
    it is taken (`SnapKept`) and has no conflicting snapshot record, `ReadAll` on the selected files returns the same
    metadata, hard state, entries and error as on all files — hence everything `readAll_entries` / `readAll_hardstate`
    / `readAll_snapshot_match` say. -/
namespace WalFile
open WalCodec

theorem gchainFiles_drop (segs : List (List GItem × Bytes)) : ∀ (c i : Nat),
    (gchainFiles c segs).drop i = gchainFiles (gchainCrc c (segs.take i)) (segs.drop i) := by
  induction segs with
  | nil => intro c i; simp [gchainFiles, gchainCrc]
  | cons s rest ih =>
    intro c i
    obtain ⟨items, t⟩ := s
    cases i with
    | zero => simp [gchainCrc]
    | succ k => simp only [gchainFiles, List.drop_succ_cons, List.take_succ_cons, gchainCrc]; exact ih _ k

theorem gchainCrc_lt (cl : List (List GItem × Bytes)) : ∀ c : Nat, c < 2 ^ 32 → gchainCrc c cl < 2 ^ 32 := by
  induction cl with
  | nil => intro c hc; exact hc
  | cons a b ih => intro c hc; obtain ⟨i, t⟩ := a; exact ih _ (gCrcAfter_lt i hc)

theorem isEmptyHS_eq (s : HardState) (h : isEmptyHS s = true) : s = emptyHS := by
  obtain ⟨a, b, c⟩ := s
  simp only [isEmptyHS, Bool.and_eq_true, beq_iff_eq] at h
  obtain ⟨⟨h1, h2⟩, h3⟩ := h
  subst h1; subst h2; subst h3; rfl

/-- a reader that starts at a segment head holds exactly what the head says -/
theorem applyItems_head_fresh (start : Nat × Nat) (md : Option Bytes) (st : HardState) (hst : HSOk st) :
    applyItems start {} (cutItems md st) = .ok ⟨md, st, [], false⟩ := by
  unfold cutItems
  rw [applyItems_append]
  have h1 : applyItems start {} [⟨metadataType, md⟩] = .ok { metadata := md } := by
    simp only [applyItems, List.map_cons, List.map_nil, applyRecs, gRec]
    rw [applyRec_meta start {} md (Or.inl rfl)]
  rw [h1]
  simp only
  rw [applyItems_state start _ st hst]
  unfold stateAfter
  by_cases he : isEmptyHS st = true
  · rw [if_pos he, isEmptyHS_eq st he]
  · rw [if_neg he]

/-- `selectWALFiles` finds a file whose name index is at or below the snapshot index (the first file's is 0) -/
theorem selectFiles_spec (files : List ((Nat × Nat) × Bytes)) (s : Nat)
    (h0 : (files.map (·.1.2))[0]? = some 0) :
    ∃ i n, (files.map (·.1.2))[i]? = some n ∧ n ≤ s ∧ Driver.selectFiles files s = some ((files.drop i).map (·.2)) := by
  unfold Driver.selectFiles
  simp only
  cases hf : (List.range files.length).reverse.find? (fun i =>
      match files[i]? with
      | some ((_, ix), _) => decide (ix ≤ s)
      | none => false) with
  | none =>
    exfalso
    rw [List.find?_eq_none] at hf
    have hlen : 0 < files.length := by
      cases files with
      | nil => simp at h0
      | cons a b => simp
    have hmem : 0 ∈ (List.range files.length).reverse := by simp [hlen]
    have := hf 0 hmem
    rw [List.getElem?_map] at h0
    cases hg : files[0]? with
    | none => rw [hg] at h0; cases h0
    | some x =>
      rw [hg] at h0 this
      obtain ⟨⟨a, ix⟩, b⟩ := x
      simp only [Option.map_some, Option.some.injEq] at h0
      subst h0
      simp at this
  | some i =>
    have hp := List.find?_some hf
    cases hg : files[i]? with
    | none => rw [hg] at hp; cases hp
    | some x =>
      rw [hg] at hp
      obtain ⟨⟨a, ix⟩, b⟩ := x
      simp only [decide_eq_true_eq] at hp
      refine ⟨i, ix, ?_, hp, rfl⟩
      rw [List.getElem?_map, hg]; rfl

/-! ### the invariant along a whole history -/

theorem SelInv.calls (start : Nat × Nat) (md : Option Bytes) (h : List Call) :
    ∀ {w : Writer} {g : GGhost} {L : List Entry} {seen : Bool} {ra : RA}, SelInv start md w g L seen ra →
    (∀ c ∈ h, c.Fits) → histOkFrom L h = true → noStaleFrom start.1 L h = true → snapKeptFrom start.1 seen h = true →
    (snapsOf h).any (mism start) = false →
    ∃ g' L' seen' ra', SelInv start md (w.calls h) g' L' seen' ra' := by
  induction h with
  | nil => intro w g L seen ra hI _ _ _ _ _; exact ⟨g, L, seen, ra, hI⟩
  | cons c rest ih =>
    intro w g L seen ra hI hfit hok hns hsk hmm
    have hcall : callOk start L seen c ∧ histOkFrom (logAfter L c) rest = true ∧
        noStaleFrom start.1 (logAfter L c) rest = true ∧ snapKeptFrom start.1 (seenAfter start.1 seen c) rest = true ∧
        (snapsOf rest).any (mism start) = false := by
      cases c with
      | save st ents =>
        simp only [histOkFrom, Bool.and_eq_true] at hok
        simp only [noStaleFrom, Bool.and_eq_true, Bool.or_eq_true, decide_eq_true_eq, List.isEmpty_iff] at hns
        simp only [snapKeptFrom, Bool.and_eq_true, Bool.or_eq_true, decide_eq_true_eq, List.isEmpty_iff,
          Bool.not_eq_true'] at hsk
        refine ⟨⟨hok.1, ?_, ?_⟩, hok.2, hns.2, hsk.2, hmm⟩
        · rcases hns.1 with (h1 | h1) | h1
          · exact Or.inl h1
          · exact Or.inr (Or.inl h1)
          · exact Or.inr (Or.inr h1)
        · intro hs hne
          rcases hsk.1 with (h1 | h1) | h1
          · rw [hs] at h1; cases h1
          · exact absurd h1 hne
          · exact h1
      | snap sn =>
        simp only [snapsOf, List.any_append, Bool.or_eq_false_iff] at hmm
        refine ⟨?_, hok, hns, hsk, hmm.2⟩
        intro hv hi
        rw [hv] at hmm
        simp only [Bool.false_eq_true, if_false, List.any_cons, List.any_nil, Bool.or_false] at hmm
        have := hmm.1
        simp only [mism, hi, beq_self_eq_true, Bool.true_and, bne_eq_false_iff_eq] at this
        exact this
      | cut => exact ⟨trivial, hok, hns, hsk, hmm⟩
    obtain ⟨hco, h1, h2, h3, h4⟩ := hcall
    obtain ⟨g1, ra1, _, hI1⟩ := hI.call c (hfit c (by simp)) hco
    exact ih hI1 (fun x hx => hfit x (by simp [hx])) h1 h2 h3 h4

theorem create_idxs (segSize : Nat) (md : Option Bytes) : (Writer.create segSize md).idxs = [0] := by
  unfold Writer.idxs Writer.create
  simp only
  rw [Writer.flush_closed, Writer.flush_name, Writer.encode_closed, Writer.encode_closed, Writer.encode_closed,
    Writer.encode_name, Writer.encode_name, Writer.encode_name]
  rfl

theorem create_enti (segSize : Nat) (md : Option Bytes) : (Writer.create segSize md).enti = 0 := by
  unfold Writer.create
  simp only
  rw [Writer.flush_enti, Writer.encode_enti, Writer.encode_enti, Writer.encode_enti]

/-- the invariant holds after `Create` -/
theorem SelInv.create (start : Nat × Nat) (segSize : Nat) (md : Option Bytes) (hmd : (md.getD []).length < 2 ^ 55)
    (h0 : start.1 = 0 → start.2 = 0) :
    ∃ ra, SelInv start md (Writer.create segSize md) (gcreateGhost md) [] false ra := by
  obtain ⟨hI0, _, _, hmd0, hst0⟩ := GInv.create segSize md hmd
  have hso0 : HSOk (Writer.create segSize md).state := by rw [hst0]; exact ⟨by decide, by decide, by decide⟩
  have hsem : applyItems start {} (gcreateGhost md).all = snapArm start { metadata := md } ⟨0, 0, none⟩ := by
    simp only [gcreateGhost, GGhost.all, List.nil_append, List.flatten_cons, List.flatten_nil, List.append_nil,
      applyItems, List.map_cons, List.map_nil, applyRecs, gRec]
    rw [applyRec_meta start {} md (Or.inl rfl)]
    simp only
    rw [applyRec_snap start _ ⟨0, 0, none⟩ ⟨by decide, by decide, fun d hd => by cases hd⟩]
    cases snapArm start { metadata := md } ⟨0, 0, none⟩ <;> rfl
  have hidx := create_idxs segSize md
  have henti := create_enti segSize md
  have hgood : GoodCuts start md (Writer.create segSize md).idxs ((gcreateGhost md).closed ++ [(gcreateGhost md).cur]) := by
    rw [hidx]
    intro j n hj1 hjn _
    rw [List.getElem?_eq_none (by simp; omega)] at hjn
    cases hjn
  unfold snapArm at hsem
  have hsy : ∀ ra : RA, ra.metadata = md → ra.state = emptyHS → Sync (Writer.create segSize md) ra :=
    fun ra h1 h2 => ⟨by rw [h1, hmd0], by rw [h2, hst0], hso0⟩
  have hlen1 : (Writer.create segSize md).idxs.length = (gcreateGhost md).closed.length + 1 := by rw [hidx]; rfl
  have hidx0 : (Writer.create segSize md).idxs[0]? = some 0 := by rw [hidx]; rfl
  have hag : Agree start.1 [] [] := by simp [Agree]
  have hl0 : ([] : List Entry).length = ([] : List Entry).length - start.1 := by simp
  have hen : ([] : List Entry).length ≤ (Writer.create segSize md).enti := by simp
  have hsk : false = true → start.1 ≤ (Writer.create segSize md).enti := fun h => by cases h
  by_cases hi : (0 : Nat) = start.1
  · have ht : ¬ ((0 : Nat) ≠ start.2) := by rw [h0 hi.symm]; simp
    rw [if_pos hi, if_neg ht] at hsem
    have hk : (true = true) → start.1 ≤ (Writer.create segSize md).enti := fun _ => by rw [← hi]; omega
    have hso : (true = true) → false = true ∨ start.1 = 0 := fun _ => Or.inr hi.symm
    exact ⟨_, SelInv.mk hI0 hsem (hsy _ rfl rfl) hmd0 hlen1 hidx0 hgood rfl hag hl0 hen hk hso hsk⟩
  · rw [if_neg hi] at hsem
    have hk : (false = true) → start.1 ≤ (Writer.create segSize md).enti := fun h => by cases h
    have hso : (false = true) → false = true ∨ start.1 = 0 := fun h => by cases h
    exact ⟨_, SelInv.mk hI0 hsem (hsy _ rfl rfl) hmd0 hlen1 hidx0 hgood rfl hag hl0 hen hk hso hsk⟩

end WalFile

namespace C16
open WalCodec WalFile

/-- the four fields of `ReadAll`'s result that its caller sees -/
def sameResult (a b : RAResult) : Prop := a.metadata = b.metadata ∧ a.state = b.state ∧ a.ents = b.ents ∧ a.err = b.err

/-- **`C16.readAll_selected`**: `ReadAll` on the files `selectWALFiles` selects for the snapshot returns what it
    returns on all files -/
theorem readAll_selected (segSize : Nat) (hseg : segSize % 8 = 0) (md : Option Bytes) (hmd : (md.getD []).length < 2 ^ 55)
    (h : List Call) (hfit : ∀ c ∈ h, c.Fits) (hok : SaveOk h) (start : Nat × Nat) (hns : NoStale start.1 h)
    (hsk : SnapKept start.1 h) (hnm : ¬ Mismatch start h) (write : Bool) :
    ∃ fs, Driver.selectFiles ((Writer.create segSize md).calls h).flush.files start.1 = some fs ∧
      sameResult (readAll write start fs) (readAll write start (filesAfter segSize md h)) := by
  -- the invariant after the history
  have hnm' : (snapsOf h).any (mism start) = false ∧ (start.1 = 0 → start.2 = 0) := by
    unfold Mismatch savedSnaps at hnm
    simp only [List.any_cons, Bool.or_eq_true, not_or, Bool.not_eq_true] at hnm
    refine ⟨hnm.2, fun h1 => ?_⟩
    have := hnm.1
    simp only [mism, h1, beq_self_eq_true, Bool.true_and, bne_eq_false_iff_eq] at this
    exact this.symm
  obtain ⟨ra0, hI0⟩ := SelInv.create start segSize md hmd hnm'.2
  obtain ⟨g, L, seen, ra, hI⟩ := SelInv.calls start md h hI0 hfit hok hns hsk hnm'.1
  generalize hw : (Writer.create segSize md).calls h = w at hI
  have hsz : w.segSize = segSize := by
    rw [← hw, Writer.calls_segSize]
    exact (GInv.create segSize md hmd).2.2.1
  have hIf := hI.inv.flush
  have hbuf := Writer.flush_buf w
  have hsegsz : w.flush.segSize % 8 = 0 := by rw [Writer.flush_segSize, hsz]; exact hseg
  obtain ⟨segs, hfiles, hmap, hsegok, hrl⟩ := hIf.readback hbuf hsegsz
  have hfa : filesAfter segSize md h = gchainFiles 0 segs := by unfold filesAfter; rw [hw]; exact hfiles
  -- the file selected
  have hidxs : w.flush.files.map (·.1.2) = w.idxs := by
    simp [Writer.files, Writer.idxs, Writer.flush_closed, Writer.flush_name]
  obtain ⟨i, n, hin, hn, hsel⟩ := selectFiles_spec w.flush.files start.1 (by rw [hidxs]; exact hI.idx0)
  refine ⟨_, hsel, ?_⟩
  have hfs : (w.flush.files.drop i).map (·.2) = gchainFiles (gchainCrc 0 (segs.take i)) (segs.drop i) := by
    rw [List.map_drop, hfiles, gchainFiles_drop]
  rw [hfs, hfa]
  by_cases hi0 : i = 0
  · subst hi0
    simp only [List.take_zero, List.drop_zero, gchainCrc]
    exact ⟨rfl, rfl, rfl, rfl⟩
  -- a later file: it starts at a good cut
  rw [hidxs] at hin
  obtain ⟨st, B, hst, hseg_i, htake⟩ := hI.good i n (by omega) hin hn
  have hilt : i < segs.length := by
    have h1 : i < (g.closed ++ [g.cur]).length := by
      by_cases h2 : i < (g.closed ++ [g.cur]).length
      · exact h2
      · rw [List.getElem?_eq_none (by omega)] at hseg_i; cases hseg_i
    rw [← hmap, List.length_map] at h1; exact h1
  obtain ⟨s0, rest0, hdrop⟩ : ∃ s0 rest0, segs.drop i = s0 :: rest0 := by
    cases hd : segs.drop i with
    | nil => have := congrArg List.length hd; simp at this; omega
    | cons a b => exact ⟨a, b, rfl⟩
  -- the items on both sides
  have hsplit : (g.closed ++ [g.cur]) = (g.closed ++ [g.cur]).take i ++ (g.closed ++ [g.cur]).drop i :=
    (List.take_append_drop i _).symm
  have hdropI : ∃ X, ((g.closed ++ [g.cur]).drop i).flatten = cutItems md st ++ X := by
    have hlt : i < (g.closed ++ [g.cur]).length := by rw [← hmap, List.length_map]; exact hilt
    have hget : (g.closed ++ [g.cur])[i] = cutItems md st ++ B := by
      have := hseg_i
      rw [List.getElem?_eq_getElem hlt] at this
      exact Option.some.inj this
    have : (g.closed ++ [g.cur]).drop i = (cutItems md st ++ B) :: (g.closed ++ [g.cur]).drop (i + 1) := by
      rw [List.drop_eq_getElem_cons hlt, hget]
    rw [this]
    exact ⟨B ++ ((g.closed ++ [g.cur]).drop (i + 1)).flatten, by simp [List.flatten_cons, List.append_assoc]⟩
  obtain ⟨X, hX⟩ := hdropI
  have hfull : applyItems start {} (segs.map (·.1)).flatten = applyItems start ⟨md, st, [], false⟩ X := by
    rw [hmap, hsplit, List.flatten_append, hX, applyItems_append, htake]
    simp only
    rw [applyItems_append]
    have hcutno := applyItems_cut start ⟨md, st, [], false⟩ hst
    simp only at hcutno
    rw [hcutno]
  have hsuf : applyItems start {} ((segs.drop i).map (·.1)).flatten = applyItems start ⟨md, st, [], false⟩ X := by
    rw [List.map_drop, hmap, hX, applyItems_append, applyItems_head_fresh start md st hst]
  -- both record streams
  obtain ⟨ex, hex⟩ := readFuel_enough 0 segs
  obtain ⟨d1, hd1, _, _⟩ := hrl ex
  have hci : gchainCrc 0 (segs.take i) < 2 ^ 32 := gchainCrc_lt _ 0 (by decide)
  obtain ⟨ex2, hex2⟩ := readFuel_enough (gchainCrc 0 (segs.take i)) (segs.drop i)
  have hokdrop : ∀ x ∈ s0 :: rest0, (∀ it ∈ x.1, GItemOk it) ∧ EndOfWritten x.2 := by
    intro x hx
    rw [← hdrop] at hx
    exact hsegok x (List.mem_of_mem_drop hx)
  obtain ⟨d2, hd2, _, _, _⟩ := readAll_roundtrip_gchain (gchainCrc 0 (segs.take i)) hci s0 rest0 hokdrop ex2
  rw [← hdrop] at hd2
  have hr1 : (recLoop (gchainFuel segs + ex) (Dec.open (gchainFiles 0 segs))).1 = gchainRecords 0 segs := by rw [hd1]
  have hr2 : (recLoop (gchainFuel (segs.drop i) + ex2) (Dec.open (gchainFiles (gchainCrc 0 (segs.take i)) (segs.drop i)))).1 =
      gchainRecords (gchainCrc 0 (segs.take i)) (segs.drop i) := by rw [hd2]
  have ha1 : applyRecs start {} (recLoop (gchainFuel segs + ex) (Dec.open (gchainFiles 0 segs))).1 =
      applyItems start ⟨md, st, [], false⟩ X := by rw [hr1, applyRecs_gchainRecords, hfull]
  have ha2 : applyRecs start {} (recLoop (gchainFuel (segs.drop i) + ex2)
      (Dec.open (gchainFiles (gchainCrc 0 (segs.take i)) (segs.drop i)))).1 = applyItems start ⟨md, st, [], false⟩ X := by
    rw [hr2, applyRecs_gchainRecords, hsuf]
  unfold sameResult readAll readAllFrom
  rw [hex, hex2]
  cases hres : applyItems start ⟨md, st, [], false⟩ X with
  | ok raF =>
    rw [hres] at ha1 ha2
    rw [readLoop_of_recLoop start _ _ _ raF ha1, readLoop_of_recLoop start _ _ _ raF ha2, hd1, hd2]
    exact ⟨rfl, rfl, rfl, rfl⟩
  | error e =>
    obtain ⟨e1, e2⟩ := e
    rw [hres] at ha1 ha2
    obtain ⟨_, _, hl1⟩ := readLoop_of_recLoop_fail start _ _ _ e1 e2 ha1
    obtain ⟨_, _, hl2⟩ := readLoop_of_recLoop_fail start _ _ _ e1 e2 ha2
    rw [hl1, hl2]
    exact ⟨rfl, rfl, rfl, rfl⟩

/-- … hence, through `Open`'s file selection, the entries are the reference log above the snapshot, the hard state the
    last one saved, and there is no error at a saved snapshot -/
theorem readAll_selected_entries (segSize : Nat) (hseg : segSize % 8 = 0) (md : Option Bytes)
    (hmd : (md.getD []).length < 2 ^ 55) (h : List Call) (hfit : ∀ c ∈ h, c.Fits) (hok : SaveOk h) (start : Nat × Nat)
    (hns : NoStale start.1 h) (hsk : SnapKept start.1 h) (hnm : ¬ Mismatch start h) (hin : start ∈ savedSnaps h)
    (write : Bool) :
    ∃ fs, Driver.selectFiles ((Writer.create segSize md).calls h).flush.files start.1 = some fs ∧
      (readAll write start fs).ents = (refLog h).filter (fun e => e.index > start.1) ∧
      (readAll write start fs).state = refState h ∧ (readAll write start fs).metadata = md ∧
      (readAll write start fs).err = none := by
  obtain ⟨fs, h1, h2, h3, h4, h5⟩ := readAll_selected segSize hseg md hmd h hfit hok start hns hsk hnm write
  obtain ⟨_, _, e3, e4⟩ := readAll_entries segSize hseg md hmd h hfit hok write start hnm
  obtain ⟨s1, s2⟩ := readAll_hardstate segSize hseg md hmd h hfit hok write start hnm
  exact ⟨fs, h1, by rw [h4]; exact e3 hns, by rw [h3]; exact s1, by rw [h2]; exact s2, by rw [h5]; exact e4 hin⟩

/-- non-vacuity: the overwrite history in 128-byte segments, opened at the snapshot (2, 1) — the selected files are all
    files here (the second file's name index is 5); and a history whose second file is selected -/
example : SaveOk exOverwrite ∧ NoStale 2 exOverwrite ∧ SnapKept 2 exOverwrite ∧ ¬ Mismatch (2, 1) exOverwrite := by decide

def exSel : List Call :=
  [.save ⟨1, 1, 0⟩ [en 1 1, en 1 2], .save ⟨1, 1, 2⟩ [en 1 3, en 1 4], .snap ⟨4, 1, some []⟩, .save ⟨1, 1, 4⟩ [en 1 5],
   .snap ⟨5, 1, some []⟩, .save ⟨1, 1, 5⟩ [en 1 6]]

example : SaveOk exSel ∧ NoStale 5 exSel ∧ SnapKept 5 exSel ∧ ¬ Mismatch (5, 1) exSel ∧ (5, 1) ∈ savedSnaps exSel := by decide

theorem exSel_fits : ∀ c ∈ exSel, c.Fits := by
  intro c hc
  simp only [exSel, List.mem_cons, List.not_mem_nil, or_false] at hc
  have hsave : ∀ (st : HardState) (ents : List Entry), HSOk st → (∀ e ∈ ents, ∃ t i, e = en t i ∧ t < 2 ^ 64 ∧ i < 2 ^ 64) →
      (Call.save st ents).Fits := by
    intro st ents h1 h2
    refine ⟨h1, fun e he => ?_⟩
    obtain ⟨t, i, rfl, ht, hi⟩ := h2 e he
    exact en_fits t i ht hi
  have hsnap : ∀ (ix tm : Nat), ix < 2 ^ 64 → tm < 2 ^ 64 → (marshalWSnap ⟨ix, tm, some []⟩).length < 2 ^ 55 →
      (Call.snap ⟨ix, tm, some []⟩).Fits :=
    fun ix tm h1 h2 h3 => ⟨⟨h1, h2, fun d hd => by cases hd; decide⟩, h3⟩
  rcases hc with rfl | rfl | rfl | rfl | rfl | rfl
  · exact hsave _ _ ⟨by decide, by decide, by decide⟩ (fun e he => by
      simp only [List.mem_cons, List.not_mem_nil, or_false] at he
      rcases he with rfl | rfl <;> exact ⟨_, _, rfl, by decide, by decide⟩)
  · exact hsave _ _ ⟨by decide, by decide, by decide⟩ (fun e he => by
      simp only [List.mem_cons, List.not_mem_nil, or_false] at he
      rcases he with rfl | rfl <;> exact ⟨_, _, rfl, by decide, by decide⟩)
  · exact hsnap 4 1 (by decide) (by decide) (by decide +kernel)
  · exact hsave _ _ ⟨by decide, by decide, by decide⟩ (fun e he => by
      simp only [List.mem_cons, List.not_mem_nil, or_false] at he
      subst he; exact ⟨_, _, rfl, by decide, by decide⟩)
  · exact hsnap 5 1 (by decide) (by decide) (by decide +kernel)
  · exact hsave _ _ ⟨by decide, by decide, by decide⟩ (fun e he => by
      simp only [List.mem_cons, List.not_mem_nil, or_false] at he
      subst he; exact ⟨_, _, rfl, by decide, by decide⟩)

/-- all hypotheses of `readAll_selected_entries` hold for `exSel` at its last snapshot -/
example : ∃ fs, Driver.selectFiles ((Writer.create 128 none).calls exSel).flush.files 5 = some fs ∧
    (readAll false (5, 1) fs).ents = (refLog exSel).filter (fun e => e.index > 5) ∧
    (readAll false (5, 1) fs).state = refState exSel ∧ (readAll false (5, 1) fs).metadata = none ∧
    (readAll false (5, 1) fs).err = none :=
  readAll_selected_entries 128 (show 128 % 8 = 0 by decide) none (show ((none : Option Bytes).getD []).length < 2 ^ 55 by decide)
    exSel exSel_fits (show SaveOk exSel by decide) (5, 1) (show NoStale 5 exSel by decide) (show SnapKept 5 exSel by decide)
    (show ¬ Mismatch (5, 1) exSel by decide) (show (5, 1) ∈ savedSnaps exSel by decide) false

/-- here `selectWALFiles` drops the first of the three files (they are named index 0, 5, 7), and `ReadAll` still returns entry 6 -/
example : (Driver.selectFiles ((Writer.create 128 none).calls exSel).flush.files 5).map List.length = some 2 ∧
    ((Writer.create 128 none).calls exSel).flush.files.length = 3 ∧
    ((Driver.selectFiles ((Writer.create 128 none).calls exSel).flush.files 5).map (fun fs => (readAll false (5, 1) fs).ents)) =
      some [en 1 6] := by decide +kernel

#print axioms readAll_selected
#print axioms readAll_selected_entries
end C16
