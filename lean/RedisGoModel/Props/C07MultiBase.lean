import RedisGoModel.Cluster.Multi
import RedisGoModel.Props.C07Own
/-! # C07, several nodes: the invariants of `Cluster/Multi.lean` under the guard `Multi.RaftFacts`

    Core Lean only.  Everything here is about `Multi.next` (every node runs `Rendezvous.next`) for an arbitrary deterministic state
    machine `step : S → Cmd → S × Reply` shared by all nodes, in every state reachable when each event satisfies `Multi.RaftFacts`
    (cluster-wide unique proposal ids + the three facts about Raft).  `Props/C07Multi.lean` discharges `RaftFacts` for the model run
    on top of an L0 run and states the property theorems; this file has the helper lemmas:

    * `reach_node` — every node's rendezvous state is reachable in the ONE-node model under `Rendezvous.UniqueIds`, so every theorem of
      `Props/C07Own.lean` holds per node;
    * `GInv` — applied logs pairwise prefix-comparable, ids unique cluster-wide, every applied entry is a submitted proposal, an id
      occurs at most once per applied log;
    * `GInvT` — the cluster-clock history variables are consistent, and an operation answered (at any node) before another was
      submitted (at any node) is earlier in the log;
    * `own_reply_shared`, `real_time_shared`, `linearizable_shared`, `applied_agree_len`, `applied_prefix` — the statements over the one
      shared log; `x11_reach` a two-node example run; `linearizable_needs_sms` — without `RaftFacts` (a) (state-machine safety) the
      combined history is NOT linearizable although `own_reply` holds at each node. -/
set_option linter.unusedSectionVars false
namespace Multi
open Rendezvous
variable {Node Id Conn S Cmd Reply : Type} [DecidableEq Node] [DecidableEq Id] [DecidableEq Conn]
variable (step : S → Cmd → S × Reply) (s0 : S)

/-! ## what one event does to the fields the invariants speak about -/

theorem next_receive_en {st : State Node Id Conn S Cmd Reply} {i : Node} {c : Conn}
    (hen : Rendezvous.enabled (st.node i) (.receive c : Rendezvous.Event Id Conn Cmd) = true) :
    next step st (.receive i c) =
      { st with
        node := upd st.node i (Rendezvous.next step (st.node i) (.receive c))
        now := st.now + 1
        resT := upd st.resT (i, c) (st.resT (i, c) ++ [st.now]) } := by
  simp [next, hen]

section submit
variable (st : State Node Id Conn S Cmd Reply) (i : Node) (c : Conn) (cmd : Cmd) (id : Id)

theorem submit_log (n : Node) : ((next step st (.submit i c cmd id)).node n).log = (st.node n).log := by
  simp only [next, upd]; split
  · rename_i h; subst h; rfl
  · rfl

theorem submit_delivered (n : Node) : ((next step st (.submit i c cmd id)).node n).delivered = (st.node n).delivered := by
  simp only [next, upd]; split
  · rename_i h; subst h; rfl
  · rfl

theorem submit_subs_self : ((next step st (.submit i c cmd id)).node i).subs = upd (st.node i).subs c ((st.node i).subs c ++ [(id, cmd)]) := by
  simp [next, Rendezvous.next]

theorem submit_subs_other {n : Node} (h : n ≠ i) : ((next step st (.submit i c cmd id)).node n).subs = (st.node n).subs := by
  simp [next, upd, h]

theorem submit_subs_cases {n : Node} {c' : Conn} {k : Nat} {p : Id × Cmd}
    (h : (((next step st (.submit i c cmd id)).node n).subs c')[k]? = some p) :
    ((st.node n).subs c')[k]? = some p ∨ (n = i ∧ c' = c ∧ k = ((st.node i).subs c).length ∧ p = (id, cmd)) := by
  by_cases hn : n = i
  · subst hn
    rw [submit_subs_self] at h
    rcases upd_concat_cases h with h | ⟨a, b, d⟩
    · exact Or.inl h
    · exact Or.inr ⟨rfl, a, b, d⟩
  · rw [submit_subs_other step st i c cmd id hn] at h; exact Or.inl h

theorem submit_subs_old {n : Node} {c' : Conn} {k : Nat} {p : Id × Cmd} (h : ((st.node n).subs c')[k]? = some p) :
    (((next step st (.submit i c cmd id)).node n).subs c')[k]? = some p := by
  by_cases hn : n = i
  · subst hn
    rw [submit_subs_self]
    by_cases hc : c' = c
    · subst hc; rw [upd_same]; exact concat_old h
    · rw [upd_other _ _ hc]; exact h
  · rw [submit_subs_other step st i c cmd id hn]; exact h

theorem submit_subs_mem {n : Node} {c' : Conn} {p : Id × Cmd} (h : p ∈ (st.node n).subs c') :
    p ∈ ((next step st (.submit i c cmd id)).node n).subs c' := by
  obtain ⟨k, hk⟩ := List.mem_iff_getElem?.1 h
  exact mem_of_get (submit_subs_old step st i c cmd id hk)
end submit

section apply
variable (st : State Node Id Conn S Cmd Reply) (i : Node) (e : Entry Id Cmd)

theorem apply_log_self : ((next step st (.apply i e)).node i).log = (st.node i).log ++ [e] := by
  simp [next, Rendezvous.next]

theorem apply_node_other {n : Node} (h : n ≠ i) : (next step st (.apply i e)).node n = st.node n := by
  simp [next, upd, h]

theorem apply_subs (n : Node) : ((next step st (.apply i e)).node n).subs = (st.node n).subs := by
  simp only [next, upd]; split
  · rename_i h; subst h; rfl
  · rfl

theorem apply_delivered (n : Node) : ((next step st (.apply i e)).node n).delivered = (st.node n).delivered := by
  simp only [next, upd]; split
  · rename_i h; subst h; rfl
  · rfl

/-- an entry of a node's log after `apply i e` is an old entry of that node, or the new one at the end of node `i`'s log -/
theorem apply_log_cases {n : Node} {j : Nat} {x : Entry Id Cmd} (h : ((next step st (.apply i e)).node n).log[j]? = some x) :
    (st.node n).log[j]? = some x ∨ (n = i ∧ j = (st.node i).log.length ∧ x = e) := by
  by_cases hn : n = i
  · subst hn
    rw [apply_log_self] at h
    rcases concat_cases h with h | ⟨a, b⟩
    · exact Or.inl h
    · exact Or.inr ⟨rfl, a, b⟩
  · rw [apply_node_other step st i e hn] at h; exact Or.inl h

theorem apply_log_old {n : Node} {j : Nat} {x : Entry Id Cmd} (h : (st.node n).log[j]? = some x) :
    ((next step st (.apply i e)).node n).log[j]? = some x := by
  by_cases hn : n = i
  · subst hn; rw [apply_log_self]; exact concat_old h
  · rw [apply_node_other step st i e hn]; exact h
end apply

section receive
variable (st : State Node Id Conn S Cmd Reply) (i : Node) (c : Conn)

theorem receive_log (n : Node) : ((next step st (.receive i c)).node n).log = (st.node n).log := by
  simp only [next]
  split
  · simp only [upd]; split
    · rename_i h; subst h
      simp only [Rendezvous.next]
      split <;> rfl
    · rfl
  · rfl

theorem receive_subs (n : Node) : ((next step st (.receive i c)).node n).subs = (st.node n).subs := by
  simp only [next]
  split
  · simp only [upd]; split
    · rename_i h; subst h
      simp only [Rendezvous.next]
      split <;> rfl
    · rfl
  · rfl

theorem receive_invT : (next step st (.receive i c)).invT = st.invT := by
  simp only [next]; split <;> rfl
end receive

/-! ## the invariant (no clocks) -/

/-- what holds in every state reachable under `RaftFacts` -/
structure GInv (st : State Node Id Conn S Cmd Reply) : Prop where
  /-- each node's rendezvous state is a reachable state of the one-node model under its own `UniqueIds` -/
  nodeR : ∀ i, ReachU step s0 (st.node i)
  /-- all nodes apply prefixes of one log -/
  cmp : ∀ i j, (st.node i).log <+: (st.node j).log ∨ (st.node j).log <+: (st.node i).log
  /-- proposal ids are unique across all connections of all nodes -/
  gsub : ∀ (i : Node) (c : Conn) (k : Nat) (i' : Node) (c' : Conn) (k' : Nat) (id : Id) (cmd cmd' : Cmd),
    ((st.node i).subs c)[k]? = some (id, cmd) → ((st.node i').subs c')[k']? = some (id, cmd') → i = i' ∧ c = c' ∧ k = k'
  /-- every applied entry is the proposal of some connection of some node -/
  logsub : ∀ (i : Node) (e : Entry Id Cmd), e ∈ (st.node i).log → ∃ n c, (e.id, e.cmd) ∈ (st.node n).subs c
  /-- an id occurs at most once in a node's applied log -/
  loguniq : ∀ (i : Node) (j j' : Nat) (e e' : Entry Id Cmd), (st.node i).log[j]? = some e → (st.node i).log[j']? = some e' →
    e.id = e'.id → j = j'

theorem ginv_init : GInv step s0 (init s0 : State Node Id Conn S Cmd Reply) := by
  refine ⟨fun _ => .init, fun _ _ => Or.inl (List.prefix_refl _), ?_, ?_, ?_⟩ <;> simp [init, Rendezvous.init]

/-- an id determines the command, cluster-wide -/
theorem GInv.cmd_of_id {st : State Node Id Conn S Cmd Reply} (h : GInv step s0 st) {i i' : Node} {c c' : Conn} {id : Id} {cmd cmd' : Cmd}
    (h1 : (id, cmd) ∈ (st.node i).subs c) (h2 : (id, cmd') ∈ (st.node i').subs c') : cmd = cmd' := by
  obtain ⟨k, hk⟩ := List.mem_iff_getElem?.1 h1
  obtain ⟨k', hk'⟩ := List.mem_iff_getElem?.1 h2
  obtain ⟨a, b, d⟩ := h.gsub _ _ _ _ _ _ _ _ _ hk hk'
  subst a; subst b; subst d
  rw [hk] at hk'; cases hk'; rfl

/-- the guard of the cluster implies the guard of the node -/
theorem uniqueIds_of_raftFacts {st : State Node Id Conn S Cmd Reply} (h : GInv step s0 st) {ev : Event Node Id Conn Cmd}
    (hg : RaftFacts st ev) : UniqueIds (st.node ev.local.1) ev.local.2 := by
  cases ev with
  | submit i c cmd id => exact hg i
  | apply i e =>
    obtain ⟨_, honce, n, c, hsub⟩ := hg
    intro c' p hp hid
    refine ⟨?_, honce⟩
    have hp' : (e.id, p.2) ∈ (st.node i).subs c' := by rw [← hid]; exact hp
    exact h.cmd_of_id step s0 hp' hsub
  | receive i c => trivial

theorem ginv_submit {st : State Node Id Conn S Cmd Reply} (h : GInv step s0 st) (i : Node) (c : Conn) (cmd : Cmd) (id : Id)
    (hen : enabled st (.submit i c cmd id) = true) (hg : RaftFacts st (.submit i c cmd id)) :
    GInv step s0 (next step st (.submit i c cmd id)) := by
  refine ⟨?_, ?_, ?_, ?_, ?_⟩
  · intro n
    by_cases hn : n = i
    · subst hn
      have : (next step st (.submit n c cmd id)).node n = Rendezvous.next step (st.node n) (.submit c cmd id) := by simp [next]
      rw [this]
      exact .step (h.nodeR n) hen (hg n)
    · have : (next step st (.submit i c cmd id)).node n = st.node n := by simp [next, upd, hn]
      rw [this]; exact h.nodeR n
  · intro a b; rw [submit_log, submit_log]; exact h.cmp a b
  · intro n1 c1 k1 n2 c2 k2 id' cmd1 cmd2 h1 h2
    rcases submit_subs_cases step st i c cmd id h1 with h1 | ⟨a1, b1, d1, e1⟩ <;>
      rcases submit_subs_cases step st i c cmd id h2 with h2 | ⟨a2, b2, d2, e2⟩
    · exact h.gsub _ _ _ _ _ _ _ _ _ h1 h2
    · cases e2; exact absurd rfl ((hg n1).1 c1 _ (mem_of_get h1))
    · cases e1; exact absurd rfl ((hg n2).1 c2 _ (mem_of_get h2))
    · exact ⟨by rw [a1, a2], by rw [b1, b2], by rw [d1, d2]⟩
  · intro n x hx
    rw [submit_log] at hx
    obtain ⟨m, c', hm⟩ := h.logsub n x hx
    exact ⟨m, c', submit_subs_mem step st i c cmd id hm⟩
  · intro n j j' x x' hx hx'
    rw [submit_log] at hx hx'
    exact h.loguniq n j j' x x' hx hx'

theorem ginv_apply {st : State Node Id Conn S Cmd Reply} (h : GInv step s0 st) (i : Node) (e : Entry Id Cmd)
    (hg : RaftFacts st (.apply i e)) : GInv step s0 (next step st (.apply i e)) := by
  have hu := uniqueIds_of_raftFacts step s0 h hg
  obtain ⟨hsms, honce, hsubm⟩ := hg
  refine ⟨?_, ?_, ?_, ?_, ?_⟩
  · intro n
    by_cases hn : n = i
    · subst hn
      have : (next step st (.apply n e)).node n = Rendezvous.next step (st.node n) (.apply e) := by simp [next]
      rw [this]
      exact .step (h.nodeR n) rfl hu
    · rw [apply_node_other step st i e hn]; exact h.nodeR n
  · intro a b
    by_cases ha : a = i <;> by_cases hb : b = i
    · subst ha; subst hb; exact Or.inl (List.prefix_refl _)
    · subst ha; rw [apply_log_self, apply_node_other step st a e hb]; exact hsms b
    · subst hb; rw [apply_log_self, apply_node_other step st b e ha]; exact (hsms a).symm
    · rw [apply_node_other step st i e ha, apply_node_other step st i e hb]; exact h.cmp a b
  · intro n1 c1 k1 n2 c2 k2 id' cmd1 cmd2 h1 h2
    rw [apply_subs] at h1 h2
    exact h.gsub _ _ _ _ _ _ _ _ _ h1 h2
  · intro n x hx
    have hx' : x ∈ (st.node n).log ∨ x = e := by
      obtain ⟨j, hj⟩ := List.mem_iff_getElem?.1 hx
      rcases apply_log_cases step st i e hj with hj | ⟨_, _, hj⟩
      · exact Or.inl (mem_of_get hj)
      · exact Or.inr hj
    rcases hx' with hx' | hx'
    · obtain ⟨m, c', hm⟩ := h.logsub n x hx'
      exact ⟨m, c', by rw [apply_subs]; exact hm⟩
    · subst hx'
      obtain ⟨m, c', hm⟩ := hsubm
      exact ⟨m, c', by rw [apply_subs]; exact hm⟩
  · intro n j j' x x' hx hx' hid
    rcases apply_log_cases step st i e hx with ox | ⟨a1, b1, d1⟩ <;>
      rcases apply_log_cases step st i e hx' with ox' | ⟨a2, b2, d2⟩
    · exact h.loguniq n j j' x x' ox ox' hid
    · rw [d2] at hid; exact absurd hid (honce x (by rw [← a2]; exact mem_of_get ox))
    · rw [d1] at hid; exact absurd hid.symm (honce x' (by rw [← a1]; exact mem_of_get ox'))
    · omega

theorem ginv_receive {st : State Node Id Conn S Cmd Reply} (h : GInv step s0 st) (i : Node) (c : Conn)
    (hen : enabled st (.receive i c) = true) : GInv step s0 (next step st (.receive i c)) := by
  have hen' : Rendezvous.enabled (st.node i) (.receive c : Rendezvous.Event Id Conn Cmd) = true := hen
  refine ⟨?_, ?_, ?_, ?_, ?_⟩
  · intro n
    rw [next_receive_en step hen']
    by_cases hn : n = i
    · subst hn
      simp only [upd_same]
      exact .step (h.nodeR n) hen' trivial
    · simp only [upd_other _ _ hn]; exact h.nodeR n
  · intro a b; rw [receive_log, receive_log]; exact h.cmp a b
  · intro n1 c1 k1 n2 c2 k2 id' cmd1 cmd2 h1 h2
    rw [receive_subs] at h1 h2
    exact h.gsub _ _ _ _ _ _ _ _ _ h1 h2
  · intro n x hx
    rw [receive_log] at hx
    obtain ⟨m, c', hm⟩ := h.logsub n x hx
    exact ⟨m, c', by rw [receive_subs]; exact hm⟩
  · intro n j j' x x' hx hx'
    rw [receive_log] at hx hx'
    exact h.loguniq n j j' x x' hx hx'

/-- states reachable under the guard `RaftFacts` -/
abbrev ReachF (st : State Node Id Conn S Cmd Reply) : Prop := Reach step s0 RaftFacts st

theorem reach_ginv {st : State Node Id Conn S Cmd Reply} (r : ReachF step s0 st) : GInv step s0 st := by
  induction r with
  | init => exact ginv_init step s0
  | @step st ev _ hen hg ih =>
    cases ev with
    | submit i c cmd id => exact ginv_submit step s0 ih i c cmd id hen hg
    | apply i e => exact ginv_apply step s0 ih i e hg
    | receive i c => exact ginv_receive step s0 ih i c hen

/-- **every node of the cluster is a reachable state of the one-node rendezvous model under `UniqueIds`** — all theorems of
    `Props/C07Own.lean` apply to it -/
theorem reach_node {st : State Node Id Conn S Cmd Reply} (r : ReachF step s0 st) (i : Node) : ReachU step s0 (st.node i) :=
  (reach_ginv step s0 r).nodeR i


/-! ## positions in the one log -/

theorem prefix_get {α : Type} {l l' : List α} (hp : l <+: l') {j : Nat} {x : α} (h : l[j]? = some x) : l'[j]? = some x := by
  obtain ⟨t, rfl⟩ := hp
  rw [List.getElem?_append_left (lt_of_get h)]; exact h

/-- an id has ONE position in the replicated log, whichever node's copy one looks at -/
theorem GInv.pos_unique {st : State Node Id Conn S Cmd Reply} (h : GInv step s0 st) {n n' : Node} {j j' : Nat} {x x' : Entry Id Cmd}
    (hx : (st.node n).log[j]? = some x) (hx' : (st.node n').log[j']? = some x') (hid : x.id = x'.id) : j = j' := by
  rcases h.cmp n n' with hp | hp
  · exact h.loguniq n' j j' x x' (prefix_get hp hx) hx' hid
  · exact h.loguniq n j j' x x' hx (prefix_get hp hx') hid

theorem GInv.del_le_subs {st : State Node Id Conn S Cmd Reply} (h : GInv step s0 st) (i : Node) (c : Conn) :
    ((st.node i).delivered c).length ≤ ((st.node i).subs c).length :=
  (own_reply step s0 (h.nodeR i) c).2.1

/-! ## the cluster clock: real-time order across nodes -/

/-- the history variables of the cluster clock are consistent, and **an operation answered at ANY node before another was submitted
    at ANY node is earlier in the log** (whichever nodes' copies of the log one reads the two positions from) -/
structure GInvT (st : State Node Id Conn S Cmd Reply) : Prop where
  lenI : ∀ i c, (st.invT (i, c)).length = ((st.node i).subs c).length
  lenR : ∀ i c, (st.resT (i, c)).length = ((st.node i).delivered c).length
  ltI : ∀ (p : Node × Conn) (t : Nat), t ∈ st.invT p → t < st.now
  ltR : ∀ (p : Node × Conn) (t : Nat), t ∈ st.resT p → t < st.now
  /-- an operation is answered after it was submitted -/
  ir : ∀ (p : Node × Conn) (k tr ti : Nat), (st.resT p)[k]? = some tr → (st.invT p)[k]? = some ti → ti < tr
  rt : ∀ (i : Node) (c : Conn) (k : Nat) (i' : Node) (c' : Conn) (k' : Nat) (tr ti : Nat) (id id' : Id) (cmd cmd' : Cmd)
    (n : Node) (j : Nat) (n' : Node) (j' : Nat),
    (st.resT (i, c))[k]? = some tr → (st.invT (i', c'))[k']? = some ti → tr < ti →
    ((st.node i).subs c)[k]? = some (id, cmd) → ((st.node i').subs c')[k']? = some (id', cmd') →
    (st.node n).log[j]? = some ⟨id, cmd⟩ → (st.node n').log[j']? = some ⟨id', cmd'⟩ → j < j'

theorem ginvT_init : GInvT (init s0 : State Node Id Conn S Cmd Reply) := by
  refine ⟨?_, ?_, ?_, ?_, ?_, ?_⟩ <;> simp [init, Rendezvous.init]

theorem ginvT_submit {st : State Node Id Conn S Cmd Reply} (g : GInv step s0 st) (t : GInvT st) (a : Node) (c0 : Conn) (cmd0 : Cmd) (id0 : Id)
    (hg : RaftFacts st (.submit a c0 cmd0 id0)) : GInvT (next step st (.submit a c0 cmd0 id0)) := by
  have hinv : (next step st (.submit a c0 cmd0 id0)).invT = upd st.invT (a, c0) (st.invT (a, c0) ++ [st.now]) := rfl
  have hres : (next step st (.submit a c0 cmd0 id0)).resT = st.resT := rfl
  have hnow : (next step st (.submit a c0 cmd0 id0)).now = st.now + 1 := rfl
  -- a submission whose index is below the old length is an old one
  have hold : ∀ {n : Node} {c' : Conn} {k : Nat} {p : Id × Cmd},
      (((next step st (.submit a c0 cmd0 id0)).node n).subs c')[k]? = some p → k < ((st.node n).subs c').length →
      ((st.node n).subs c')[k]? = some p := by
    intro n c' k p h hk
    rcases submit_subs_cases step st a c0 cmd0 id0 h with h | ⟨a1, b1, d1, _⟩
    · exact h
    · subst a1; subst b1; omega
  refine ⟨?_, ?_, ?_, ?_, ?_, ?_⟩
  · intro i c
    rw [hinv]
    by_cases hp : (i, c) = (a, c0)
    · cases hp
      rw [upd_same, submit_subs_self, upd_same]; simp [t.lenI]
    · rw [upd_other _ _ hp]
      by_cases hi : i = a
      · subst hi
        have hc : c ≠ c0 := fun hh => hp (by rw [hh])
        rw [submit_subs_self, upd_other _ _ hc]; exact t.lenI i c
      · rw [submit_subs_other step st a c0 cmd0 id0 hi]; exact t.lenI i c
  · intro i c; rw [hres, submit_delivered]; exact t.lenR i c
  · intro p x hx
    rw [hnow]; rw [hinv] at hx
    by_cases hp : p = (a, c0)
    · subst hp; rw [upd_same] at hx
      rcases List.mem_append.1 hx with hx | hx
      · have := t.ltI _ _ hx; omega
      · have : x = st.now := by simpa using hx
        omega
    · rw [upd_other _ _ hp] at hx; have := t.ltI _ _ hx; omega
  · intro p x hx; rw [hnow]; have := t.ltR p x hx; omega
  · intro p k tr ti hr hi
    rw [hres] at hr; rw [hinv] at hi
    rcases upd_concat_cases hi with hi | ⟨hp, hk, _⟩
    · exact t.ir p k tr ti hr hi
    · subst hp
      have h1 := lt_of_get hr
      rw [t.lenR] at h1; rw [t.lenI] at hk
      have := g.del_le_subs step s0 a c0
      omega
  · intro i c k i' c' k' tr ti id id' cmd cmd' n j n' j' hr hi hlt hs hs' hl hl'
    rw [hres] at hr; rw [hinv] at hi
    rw [submit_log] at hl hl'
    have hk : k < ((st.node i).subs c).length := by
      have h1 := lt_of_get hr
      rw [t.lenR] at h1
      exact Nat.lt_of_lt_of_le h1 (g.del_le_subs step s0 i c)
    have hs := hold hs hk
    rcases upd_concat_cases hi with hi | ⟨hp, hk', _⟩
    · have hk2 : k' < ((st.node i').subs c').length := by have := lt_of_get hi; rwa [t.lenI] at this
      exact t.rt i c k i' c' k' tr ti id id' cmd cmd' n j n' j' hr hi hlt hs (hold hs' hk2) hl hl'
    · cases hp
      rw [t.lenI] at hk'
      rcases submit_subs_cases step st a c0 cmd0 id0 hs' with hs' | ⟨_, _, _, hx⟩
      · have := lt_of_get hs'; omega
      · cases hx; exact absurd rfl ((hg n').2 _ (mem_of_get hl'))

theorem ginvT_apply {st : State Node Id Conn S Cmd Reply} {a : Node} {e : Entry Id Cmd} (g : GInv step s0 st)
    (g' : GInv step s0 (next step st (.apply a e))) (t : GInvT st) (hg : RaftFacts st (.apply a e)) :
    GInvT (next step st (.apply a e)) := by
  have hinv : (next step st (.apply a e)).invT = st.invT := rfl
  have hres : (next step st (.apply a e)).resT = st.resT := rfl
  have hnow : (next step st (.apply a e)).now = st.now + 1 := rfl
  refine ⟨?_, ?_, ?_, ?_, ?_, ?_⟩
  · intro i c; rw [hinv, apply_subs]; exact t.lenI i c
  · intro i c; rw [hres, apply_delivered]; exact t.lenR i c
  · intro p x hx; rw [hnow]; have := t.ltI p x hx; omega
  · intro p x hx; rw [hnow]; have := t.ltR p x hx; omega
  · exact t.ir
  · intro i c k i' c' k' tr ti id id' cmd cmd' n j n' j' hr hi hlt hs hs' hl hl'
    rw [hres] at hr; rw [hinv] at hi
    rw [apply_subs] at hs hs'
    -- the completed operation's entry is in the log of its own node, before this step
    have hkd : k < ((st.node i).delivered c).length := by have := lt_of_get hr; rwa [t.lenR] at this
    obtain ⟨r, hd⟩ : ∃ r, ((st.node i).delivered c)[k]? = some r := ⟨_, List.getElem?_eq_getElem hkd⟩
    obtain ⟨id0, cmd0, j0, hs0, hl0, _⟩ := (reach_inv step s0 (g.nodeR i)).del c k r hd
    rw [hs] at hs0; cases hs0
    have hj : j = j0 := g'.pos_unique step s0 hl (apply_log_old step st a e hl0) rfl
    subst hj
    rcases apply_log_cases step st a e hl' with hl' | ⟨hn', hj', hx'⟩
    · exact t.rt i c k i' c' k' tr ti id id' cmd cmd' i j n' j' hr hi hlt hs hs' hl0 hl'
    · -- the later operation's entry is the one applied now, at the end of node `a`'s log
      subst hj'
      rcases hg.1 i with hp | hp
      · have hB : (st.node i).log[(st.node a).log.length]? = some ⟨id', cmd'⟩ := by
          rw [hx']; exact prefix_get hp (concat_last _ _)
        exact t.rt i c k i' c' k' tr ti id id' cmd cmd' i j i _ hr hi hlt hs hs' hl0 hB
      · rcases concat_cases (prefix_get hp hl0) with h1 | ⟨h1, h2⟩
        · exact lt_of_get h1
        · rw [← hx'] at h2
          cases h2
          obtain ⟨a1, a2, a3⟩ := g.gsub _ _ _ _ _ _ _ _ _ hs hs'
          subst a1; subst a2; subst a3
          have := t.ir _ _ _ _ hr hi
          omega

theorem ginvT_receive {st : State Node Id Conn S Cmd Reply} (t : GInvT st) (a : Node) (c0 : Conn)
    (hen : Rendezvous.enabled (st.node a) (.receive c0 : Rendezvous.Event Id Conn Cmd) = true) :
    GInvT (next step st (.receive a c0)) := by
  have hen' := hen
  simp only [Rendezvous.enabled, Bool.and_eq_true, Option.isSome_iff_exists] at hen'
  obtain ⟨⟨id, hw⟩, ⟨r, hm⟩⟩ := hen'
  have hinv : (next step st (.receive a c0)).invT = st.invT := receive_invT step st a c0
  have hres : (next step st (.receive a c0)).resT = upd st.resT (a, c0) (st.resT (a, c0) ++ [st.now]) := by
    rw [next_receive_en step hen]
  have hnow : (next step st (.receive a c0)).now = st.now + 1 := by rw [next_receive_en step hen]
  have hdel : ((next step st (.receive a c0)).node a).delivered = upd (st.node a).delivered c0 ((st.node a).delivered c0 ++ [r]) := by
    rw [next_receive_en step hen]; simp only [upd_same]; rw [next_receive step hw hm]
  have hdel' : ∀ n, n ≠ a → (next step st (.receive a c0)).node n = st.node n := by
    intro n hn; rw [next_receive_en step hen]; simp only [upd_other _ _ hn]
  refine ⟨?_, ?_, ?_, ?_, ?_, ?_⟩
  · intro i c; rw [hinv, receive_subs]; exact t.lenI i c
  · intro i c
    rw [hres]
    by_cases hp : (i, c) = (a, c0)
    · cases hp
      rw [upd_same, hdel, upd_same]; simp [t.lenR]
    · rw [upd_other _ _ hp]
      by_cases hi : i = a
      · subst hi
        have hc : c ≠ c0 := fun hh => hp (by rw [hh])
        rw [hdel, upd_other _ _ hc]; exact t.lenR i c
      · rw [hdel' i hi]; exact t.lenR i c
  · intro p x hx; rw [hnow]; rw [hinv] at hx; have := t.ltI p x hx; omega
  · intro p x hx
    rw [hnow]; rw [hres] at hx
    by_cases hp : p = (a, c0)
    · subst hp; rw [upd_same] at hx
      rcases List.mem_append.1 hx with hx | hx
      · have := t.ltR _ _ hx; omega
      · have : x = st.now := by simpa using hx
        omega
    · rw [upd_other _ _ hp] at hx; have := t.ltR _ _ hx; omega
  · intro p k tr ti hr hi
    rw [hres] at hr; rw [hinv] at hi
    rcases upd_concat_cases hr with hr | ⟨_, _, htr⟩
    · exact t.ir p k tr ti hr hi
    · have := t.ltI p ti (mem_of_get hi); omega
  · intro i c k i' c' k' tr ti id id' cmd cmd' n j n' j' hr hi hlt hs hs' hl hl'
    rw [hres] at hr; rw [hinv] at hi
    rw [receive_subs] at hs hs'
    rw [receive_log] at hl hl'
    rcases upd_concat_cases hr with hr | ⟨_, _, htr⟩
    · exact t.rt i c k i' c' k' tr ti id id' cmd cmd' n j n' j' hr hi hlt hs hs' hl hl'
    · have := t.ltI _ ti (mem_of_get hi); omega

theorem reach_ginvT {st : State Node Id Conn S Cmd Reply} (r : ReachF step s0 st) : GInvT st := by
  induction r with
  | init => exact ginvT_init s0
  | @step st ev r0 hen hg ih =>
    have g := reach_ginv step s0 r0
    cases ev with
    | submit i c cmd id => exact ginvT_submit step s0 g ih i c cmd id hg
    | apply i e => exact ginvT_apply step s0 g (reach_ginv step s0 (Reach.step r0 hen hg)) ih hg
    | receive i c => exact ginvT_receive step ih i c hen


/-! ## the one log -/

/-- `L` is the replicated log as far as any node has applied it: every node's applied log is a prefix of `L`, and `L` is the applied
    log of some node (or empty) -/
def Shared (st : State Node Id Conn S Cmd Reply) (L : List (Entry Id Cmd)) : Prop :=
  (∀ i, (st.node i).log <+: L) ∧ (L = [] ∨ ∃ j, L = (st.node j).log)

/-- finitely many nodes with pairwise prefix-comparable applied logs: one of the logs contains all the others -/
theorem shared_exists {st : State Node Id Conn S Cmd Reply} (h : GInv step s0 st) (nodes : List Node) (hall : ∀ i, i ∈ nodes) :
    ∃ L, Shared st L := by
  have key : ∀ l : List Node, ∃ L, (∀ i, i ∈ l → (st.node i).log <+: L) ∧ (L = [] ∨ ∃ j, L = (st.node j).log) := by
    intro l
    induction l with
    | nil => exact ⟨[], fun i hi => (by cases hi), Or.inl rfl⟩
    | cons a l ih =>
      obtain ⟨L, hL, hc⟩ := ih
      rcases hc with hc | ⟨j, hj⟩
      · subst hc
        refine ⟨(st.node a).log, ?_, Or.inr ⟨a, rfl⟩⟩
        intro i hi
        rcases List.mem_cons.1 hi with hi | hi
        · subst hi; exact List.prefix_refl _
        · have := List.prefix_nil.1 (hL i hi)
          rw [this]; exact List.nil_prefix
      · subst hj
        rcases h.cmp a j with hp | hp
        · refine ⟨(st.node j).log, ?_, Or.inr ⟨j, rfl⟩⟩
          intro i hi
          rcases List.mem_cons.1 hi with hi | hi
          · subst hi; exact hp
          · exact hL i hi
        · refine ⟨(st.node a).log, ?_, Or.inr ⟨a, rfl⟩⟩
          intro i hi
          rcases List.mem_cons.1 hi with hi | hi
          · subst hi; exact List.prefix_refl _
          · exact List.IsPrefix.trans (hL i hi) hp
  obtain ⟨L, hL, hc⟩ := key nodes
  exact ⟨L, fun i => hL i (hall i), hc⟩

theorem Shared.node_of {st : State Node Id Conn S Cmd Reply} {L : List (Entry Id Cmd)} (hL : Shared st L) {j : Nat} {x : Entry Id Cmd}
    (h : L[j]? = some x) : ∃ n, (st.node n).log[j]? = some x := by
  rcases hL.2 with h0 | ⟨n, hn⟩
  · subst h0; simp at h
  · exact ⟨n, by rw [← hn]; exact h⟩

theorem Shared.uniq {st : State Node Id Conn S Cmd Reply} {L : List (Entry Id Cmd)} (g : GInv step s0 st) (hL : Shared st L)
    {j j' : Nat} {x x' : Entry Id Cmd} (h : L[j]? = some x) (h' : L[j']? = some x') (hid : x.id = x'.id) : j = j' := by
  obtain ⟨n, hn⟩ := hL.node_of h
  obtain ⟨n', hn'⟩ := hL.node_of h'
  exact g.pos_unique step s0 hn hn' hid

theorem take_of_prefix {α : Type} {l l' : List α} (hp : l <+: l') {j : Nat} (hj : j ≤ l.length) : l'.take j = l.take j := by
  obtain ⟨t, rfl⟩ := hp
  exact List.take_append_of_le_length hj

/-! ## the theorems, for the cluster -/

/-- **own_reply, cluster-wide**: the `k`-th reply connection `c` of node `i` has received is the reply of its own `k`-th command, run
    at the position `j` of that command's entry in the ONE replicated log `L` — the entry is there, it is the only entry of `L` with
    that id, and the reply is `(step (state after L[0..j)) cmd).2`; one reply per command, in the order of its own submissions -/
def OwnReplyAt (st : State Node Id Conn S Cmd Reply) (L : List (Entry Id Cmd)) (i : Node) (c : Conn) : Prop :=
    (∀ (k : Nat) (r : Reply), ((st.node i).delivered c)[k]? = some r →
      ∃ (id : Id) (cmd : Cmd) (j : Nat), ((st.node i).subs c)[k]? = some (id, cmd) ∧ L[j]? = some ⟨id, cmd⟩ ∧
        (∀ (j' : Nat) (e' : Entry Id Cmd), L[j']? = some e' → e'.id = id → j' = j) ∧
        r = (step (runLog step s0 (L.take j)) cmd).2) ∧
    ((st.node i).delivered c).length ≤ ((st.node i).subs c).length ∧
    ((st.node i).subs c).length ≤ ((st.node i).delivered c).length + 1

theorem own_reply_shared {st : State Node Id Conn S Cmd Reply} (r : ReachF step s0 st) {L : List (Entry Id Cmd)} (hL : Shared st L)
    (i : Node) (c : Conn) : OwnReplyAt step s0 st L i c := by
  have g := reach_ginv step s0 r
  obtain ⟨h1, h2⟩ := own_reply step s0 (g.nodeR i) c
  refine ⟨?_, h2⟩
  intro k rep hd
  obtain ⟨id, cmd, j, hs, hl, _, hr⟩ := h1 k rep hd
  have hLj := prefix_get (hL.1 i) hl
  refine ⟨id, cmd, j, hs, hLj, ?_, ?_⟩
  · intro j' e' he' hid
    exact hL.uniq step s0 g he' hLj hid
  · rw [take_of_prefix (hL.1 i) (Nat.le_of_lt (lt_of_get hl))]; exact hr

/-- **real-time order across nodes**: if the reply to the `k`-th command of connection `c` of node `i` was received before the
    `k'`-th command of connection `c'` of node `i'` was submitted (cluster clock), the entry of the former is earlier in the log -/
theorem real_time_shared {st : State Node Id Conn S Cmd Reply} (r : ReachF step s0 st) {L : List (Entry Id Cmd)} (hL : Shared st L)
    {i i' : Node} {c c' : Conn} {k k' tr ti j j' : Nat} {id id' : Id} {cmd cmd' : Cmd}
    (hres : (st.resT (i, c))[k]? = some tr) (hinv : (st.invT (i', c'))[k']? = some ti) (hlt : tr < ti)
    (hs : ((st.node i).subs c)[k]? = some (id, cmd)) (hs' : ((st.node i').subs c')[k']? = some (id', cmd'))
    (hl : L[j]? = some ⟨id, cmd⟩) (hl' : L[j']? = some ⟨id', cmd'⟩) : j < j' := by
  obtain ⟨n, hn⟩ := hL.node_of hl
  obtain ⟨n', hn'⟩ := hL.node_of hl'
  exact (reach_ginvT step s0 r).rt i c k i' c' k' tr ti id id' cmd cmd' n j n' j' hres hinv hlt hs hs' hn hn'

/-- the combined client history of the cluster: the `k`-th operation of connection `p.2` of node `p.1` (invocation = `submit`,
    response = `receive`, both on the cluster clock) -/
def history (st : State Node Id Conn S Cmd Reply) (p : Node × Conn) (k : Nat) : Option (Op Cmd Reply) :=
  match ((st.node p.1).subs p.2)[k]?, (st.invT p)[k]? with
  | some q, some ti =>
    some { cmd := q.2, inv := ti
           res := match ((st.node p.1).delivered p.2)[k]?, (st.resT p)[k]? with
             | some r, some tr => some (tr, r)
             | _, _ => none }
  | _, _ => none

theorem history_some {st : State Node Id Conn S Cmd Reply} {p : Node × Conn} {k : Nat} {o : Op Cmd Reply} (h : history st p k = some o) :
    ∃ id, ((st.node p.1).subs p.2)[k]? = some (id, o.cmd) ∧ (st.invT p)[k]? = some o.inv ∧
      ∀ t r, o.res = some (t, r) → ((st.node p.1).delivered p.2)[k]? = some r ∧ (st.resT p)[k]? = some t := by
  unfold history at h
  split at h
  · rename_i q ti hq hti
    cases h
    refine ⟨q.1, hq, hti, ?_⟩
    intro t r hres
    simp only at hres
    split at hres
    · rename_i r' tr' hd hr; cases hres; exact ⟨hd, hr⟩
    · cases hres
  · cases h

open Classical in
/-- the position in `L` of the entry of the `k`-th command of connection `p.2` of node `p.1`, if it is there -/
noncomputable def logPos (st : State Node Id Conn S Cmd Reply) (L : List (Entry Id Cmd)) (p : Node × Conn) (k : Nat) : Option Nat :=
  if h : ∃ j : Nat, ∃ id cmd, ((st.node p.1).subs p.2)[k]? = some (id, cmd) ∧ L[j]? = some (⟨id, cmd⟩ : Entry Id Cmd) then some (choose h) else none

theorem logPos_spec {st : State Node Id Conn S Cmd Reply} {L : List (Entry Id Cmd)} {p : Node × Conn} {k j : Nat} (h : logPos st L p k = some j) :
    ∃ id cmd, ((st.node p.1).subs p.2)[k]? = some (id, cmd) ∧ L[j]? = some (⟨id, cmd⟩ : Entry Id Cmd) := by
  unfold logPos at h
  split at h
  · rename_i hex; cases h; exact Classical.choose_spec hex
  · cases h

theorem logPos_of {st : State Node Id Conn S Cmd Reply} {L : List (Entry Id Cmd)} (g : GInv step s0 st) (hL : Shared st L)
    {p : Node × Conn} {k j : Nat} {id : Id} {cmd : Cmd}
    (hs : ((st.node p.1).subs p.2)[k]? = some (id, cmd)) (hl : L[j]? = some ⟨id, cmd⟩) : logPos st L p k = some j := by
  have hex : ∃ j : Nat, ∃ id cmd, ((st.node p.1).subs p.2)[k]? = some (id, cmd) ∧ L[j]? = some (⟨id, cmd⟩ : Entry Id Cmd) := ⟨j, id, cmd, hs, hl⟩
  unfold logPos
  rw [dif_pos hex]
  obtain ⟨id', cmd', hs', hl'⟩ := Classical.choose_spec hex
  rw [hs] at hs'; cases hs'
  exact congrArg some (hL.uniq step s0 g hl' hl rfl)

/-- **linearizability of the combined history of all clients of all nodes**, witness = the order of the one log `L`: the sequential
    history is the list of the commands of `L`, every operation sits at the position of its own entry, the reply of every completed
    operation is the reply of the sequential run at that position (`own_reply_shared`), and an operation answered before another was
    submitted — at whichever nodes — precedes it (`real_time_shared`) -/
theorem linearizable_shared {st : State Node Id Conn S Cmd Reply} (r : ReachF step s0 st) {L : List (Entry Id Cmd)} (hL : Shared st L) :
    Linearizable step s0 (history st) := by
  have g := reach_ginv step s0 r
  have t := reach_ginvT step s0 r
  refine ⟨L.map (·.cmd), logPos st L, ?_, ?_, ?_, ?_⟩
  · intro p k j hp
    obtain ⟨id, cmd, hs, hl⟩ := logPos_spec hp
    have hk : k < (st.invT p).length := by
      have := t.lenI p.1 p.2
      rw [this]; exact lt_of_get hs
    have hh : ∃ o, history st p k = some o ∧ o.cmd = cmd := by
      simp only [history, hs, List.getElem?_eq_getElem hk]
      exact ⟨_, rfl, rfl⟩
    obtain ⟨o, ho, hc⟩ := hh
    exact ⟨o, ho, by simp [List.getElem?_map, hl, hc]⟩
  · intro p k p' k' j hp hp'
    obtain ⟨id, cmd, hs, hl⟩ := logPos_spec hp
    obtain ⟨id', cmd', hs', hl'⟩ := logPos_spec hp'
    rw [hl] at hl'; cases hl'
    obtain ⟨a1, a2, a3⟩ := g.gsub _ _ _ _ _ _ _ _ _ hs hs'
    exact ⟨Prod.ext a1 a2, a3⟩
  · intro p k o tm rep hh hres
    obtain ⟨id, hs, _, hc⟩ := history_some hh
    obtain ⟨hd, _⟩ := hc tm rep hres
    obtain ⟨id0, cmd0, j, hs0, hl0, _, hrr⟩ := (own_reply_shared step s0 r hL p.1 p.2).1 k rep hd
    rw [hs] at hs0; cases hs0
    refine ⟨j, logPos_of step s0 g hL hs hl0, ?_⟩
    rw [hrr, runLog_eq_seqRun, List.map_take]
  · intro p k p' k' o o' tm rep j j' hh hh' hres hlt hp hp'
    obtain ⟨id, hs, _, hc⟩ := history_some hh
    obtain ⟨id', hs', hinv', _⟩ := history_some hh'
    obtain ⟨_, hrt⟩ := hc tm rep hres
    obtain ⟨id1, cmd1, hs1, hl1⟩ := logPos_spec hp
    obtain ⟨id2, cmd2, hs2, hl2⟩ := logPos_spec hp'
    exact real_time_shared step s0 r hL hrt hinv' hlt hs1 hs2 hl1 hl2

/-- two nodes that have applied the same number of entries have applied the same entries and hold the same state machine state -/
theorem applied_agree_len {st : State Node Id Conn S Cmd Reply} (r : ReachF step s0 st) (i j : Node)
    (hlen : (st.node i).log.length = (st.node j).log.length) :
    (st.node i).log = (st.node j).log ∧ (st.node i).sm = (st.node j).sm := by
  have g := reach_ginv step s0 r
  have hlog : (st.node i).log = (st.node j).log := by
    rcases g.cmp i j with hp | hp
    · exact List.IsPrefix.eq_of_length hp hlen
    · exact (List.IsPrefix.eq_of_length hp hlen.symm).symm
  refine ⟨hlog, ?_⟩
  rw [(reach_inv step s0 (g.nodeR i)).sm_log, (reach_inv step s0 (g.nodeR j)).sm_log, hlog]

/-- any two nodes: the node that has applied fewer entries has applied a prefix of the other's, and its state machine is the other's
    as it was after that prefix -/
theorem applied_prefix {st : State Node Id Conn S Cmd Reply} (r : ReachF step s0 st) (i j : Node)
    (hle : (st.node i).log.length ≤ (st.node j).log.length) :
    (st.node i).log = (st.node j).log.take (st.node i).log.length ∧
    (st.node i).sm = runLog step s0 ((st.node j).log.take (st.node i).log.length) := by
  have g := reach_ginv step s0 r
  have hp : (st.node i).log <+: (st.node j).log := by
    rcases g.cmp i j with hp | hp
    · exact hp
    · have := List.IsPrefix.eq_of_length_le hp hle
      rw [this]; exact List.prefix_refl _
  have h1 : (st.node i).log = (st.node j).log.take (st.node i).log.length := by
    rw [take_of_prefix hp (Nat.le_refl _)]; simp
  refine ⟨h1, ?_⟩
  rw [← h1]; exact (reach_inv step s0 (g.nodeR i)).sm_log


/-! ## non-vacuity: a two-node run with two clients that satisfies `RaftFacts` at every event

    Nodes `false`, `true` (one connection each, `false`), state machine `exStep` (an accumulator; the reply is the new total).
    Client A at node `false` submits `5` (id 1) · client B at node `true` submits `7` (id 2) · raft orders id 2 first: node `false`
    applies `{2,7}` (a foreign entry there), node `true` applies `{2,7}` and B receives `7` · node `false` applies `{1,5}` and A
    receives `12` · AFTER that B submits `1` (id 3) · node `true` catches up with `{1,5}` (foreign there), applies `{3,1}`, B receives
    `13`.  Node `false` has applied two entries, node `true` three. -/

deriving instance DecidableEq for Rendezvous.Entry

abbrev ExSt := State Bool Nat Bool Nat Nat Nat
def x1 : ExSt := next exStep (init 0) (.submit false false 5 1)
def x2 : ExSt := next exStep x1 (.submit true false 7 2)
def x3 : ExSt := next exStep x2 (.apply false ⟨2, 7⟩)
def x4 : ExSt := next exStep x3 (.apply true ⟨2, 7⟩)
def x5 : ExSt := next exStep x4 (.receive true false)
def x6 : ExSt := next exStep x5 (.apply false ⟨1, 5⟩)
def x7 : ExSt := next exStep x6 (.receive false false)
def x8 : ExSt := next exStep x7 (.submit true false 1 3)
def x9 : ExSt := next exStep x8 (.apply true ⟨1, 5⟩)
def x10 : ExSt := next exStep x9 (.apply true ⟨3, 1⟩)
def x11 : ExSt := next exStep x10 (.receive true false)

local macro "rf" : tactic => `(tactic| (simp only [RaftFacts]; decide))

theorem x11_reach : ReachF exStep 0 x11 :=
  .step (.step (.step (.step (.step (.step (.step (.step (.step (.step (.step .init
    rfl (by rf)) rfl (by rf)) rfl (by rf)) rfl (by rf)) rfl trivial) rfl (by rf)) rfl trivial) rfl (by rf)) rfl (by rf)) rfl (by rf)) rfl trivial

/-- the one log of the example: what node `true` has applied -/
def xL : List (Entry Nat Nat) := [⟨2, 7⟩, ⟨1, 5⟩, ⟨3, 1⟩]

theorem x11_shared : Shared x11 xL := by
  refine ⟨?_, Or.inr ⟨true, rfl⟩⟩
  intro i; cases i
  · exact ⟨[⟨3, 1⟩], rfl⟩
  · exact ⟨[], rfl⟩

/-- both clients received the replies of their own commands at their own positions of the one log: A `12` (= 7 + 5, position 1),
    B `7` (position 0) and `13` (position 2) -/
example : ReachF exStep 0 x11 ∧ (x11.node false).delivered false = [12] ∧ (x11.node true).delivered false = [7, 13] ∧
    (x11.node false).log.map (·.id) = [2, 1] ∧ (x11.node true).log.map (·.id) = [2, 1, 3] ∧
    OwnReplyAt exStep 0 x11 xL false false ∧ OwnReplyAt exStep 0 x11 xL true false :=
  ⟨x11_reach, rfl, rfl, rfl, rfl, own_reply_shared exStep 0 x11_reach x11_shared false false,
    own_reply_shared exStep 0 x11_reach x11_shared true false⟩

/-- `real_time_shared` on the example: A's reply was received at cluster time 6 (node `false`), B's second command was submitted at
    time 7 (node `true`); their entries are at positions 1 and 2 -/
example : (1 : Nat) < 2 :=
  real_time_shared exStep 0 x11_reach x11_shared (i := false) (i' := true) (c := false) (c' := false) (k := 0) (k' := 1) (tr := 6) (ti := 7)
    (id := 1) (id' := 3) (cmd := 5) (cmd' := 1) rfl rfl (by decide) rfl rfl rfl rfl

/-- `linearizable_shared` on the example, whose history has three completed operations at two nodes -/
example : Linearizable exStep 0 (history x11) ∧ (history x11 (false, false) 0).map (·.res) = some (some (6, 12)) ∧
    (history x11 (true, false) 1).map (·.res) = some (some (10, 13)) :=
  ⟨linearizable_shared exStep 0 x11_reach x11_shared, rfl, rfl⟩

/-- `applied_prefix` on the example: node `false` has applied the first two entries of node `true`'s log -/
example : (x11.node false).log = (x11.node true).log.take 2 ∧ (x11.node false).sm = 12 ∧ (x11.node true).sm = 13 :=
  ⟨(applied_prefix exStep 0 x11_reach false true (by decide)).1, rfl, rfl⟩

/-! ## `RaftFacts` (a) is needed: without state-machine safety the combined history is not linearizable

    Client A at node `false` submits `5`, client B at node `true` submits `7`; node `false` applies A's entry first, node `true` applies
    B's entry first (two nodes that disagree on log position 0 — what `RS.C15_state_machine_safety` excludes); A receives `5`, B
    receives `7`.  Each node ALONE is a perfectly good run of the one-node model (`own_reply` holds at both: each client has the reply of
    its own command at its own node's log position), but no single order of the two increments explains both replies. -/

/-- no hypothesis on raft -/
def NoFacts {Node Id Conn S Cmd Reply : Type} (_ : State Node Id Conn S Cmd Reply) (_ : Event Node Id Conn Cmd) : Prop := True

def y1 : ExSt := next exStep (init 0) (.submit false false 5 1)
def y2 : ExSt := next exStep y1 (.submit true false 7 2)
def y3 : ExSt := next exStep y2 (.apply false ⟨1, 5⟩)
def y4 : ExSt := next exStep y3 (.apply true ⟨2, 7⟩)
def y5 : ExSt := next exStep y4 (.receive false false)
def y6 : ExSt := next exStep y5 (.receive true false)

theorem y6_reach : Reach exStep 0 NoFacts y6 :=
  .step (.step (.step (.step (.step (.step .init rfl trivial) rfl trivial) rfl trivial) rfl trivial) rfl trivial) rfl trivial

theorem seqRun_exStep (l : List Nat) (a : Nat) : l.foldl (fun s c => (exStep s c).1) a = l.foldl (· + ·) a := rfl

theorem le_foldl_add (l : List Nat) : ∀ a : Nat, a ≤ l.foldl (· + ·) a ∧ ∀ x, x ∈ l → x ≤ l.foldl (· + ·) a := by
  induction l with
  | nil => intro a; exact ⟨Nat.le_refl _, fun x hx => by cases hx⟩
  | cons y l ih =>
    intro a
    simp only [List.foldl_cons]
    obtain ⟨h1, h2⟩ := ih (a + y)
    refine ⟨by omega, ?_⟩
    intro x hx
    rcases List.mem_cons.1 hx with hx | hx
    · subst hx; omega
    · exact h2 x hx

/-- in the accumulator, an operation placed before position `k` has contributed to the state at `k` -/
theorem le_seqRun_take {seq : List Nat} {j k x : Nat} (hj : seq[j]? = some x) (hjk : j < k) : x ≤ seqRun exStep 0 (seq.take k) := by
  have hm : x ∈ seq.take k := by
    apply mem_of_get (k := j)
    rw [List.getElem?_take, if_pos hjk]; exact hj
  exact (le_foldl_add _ 0).2 x hm

/-- **without `RaftFacts` (a) the cluster is not linearizable**, although `own_reply` holds at every node -/
theorem linearizable_needs_sms :
    ∃ st : ExSt, Reach exStep 0 NoFacts st ∧ (st.node false).log = [⟨1, 5⟩] ∧ (st.node true).log = [⟨2, 7⟩] ∧
      OwnReply exStep 0 (st.node false) false ∧ OwnReply exStep 0 (st.node true) false ∧
      ¬ Linearizable exStep 0 (history st) := by
  refine ⟨y6, y6_reach, rfl, rfl, ?_, ?_, ?_⟩
  · have r : ReachU exStep 0 (y6.node false) :=
      Rendezvous.Reach.step (ev := .receive false) (.step (ev := .apply ⟨1, 5⟩) (.step (ev := .submit false 5 1) .init rfl
        (by simp only [UniqueIds]; decide)) rfl (by simp only [UniqueIds]; decide)) rfl trivial
    exact own_reply exStep 0 r false
  · have r : ReachU exStep 0 (y6.node true) :=
      Rendezvous.Reach.step (ev := .receive false) (.step (ev := .apply ⟨2, 7⟩) (.step (ev := .submit false 7 2) .init rfl
        (by simp only [UniqueIds]; decide)) rfl (by simp only [UniqueIds]; decide)) rfl trivial
    exact own_reply exStep 0 r false
  · rintro ⟨seq, pos, h1, h2, h3, _⟩
    obtain ⟨jA, pA, rA⟩ := h3 (false, false) 0 ⟨5, 0, some (4, 5)⟩ 4 5 rfl rfl
    obtain ⟨jB, pB, rB⟩ := h3 (true, false) 0 ⟨7, 1, some (5, 7)⟩ 5 7 rfl rfl
    obtain ⟨oA, hoA, sA⟩ := h1 _ _ _ pA
    obtain ⟨oB, hoB, sB⟩ := h1 _ _ _ pB
    have eA : oA = ⟨5, 0, some (4, 5)⟩ := by
      have : history y6 (false, false) 0 = some ⟨5, 0, some (4, 5)⟩ := rfl
      rw [this] at hoA; cases hoA; rfl
    have eB : oB = ⟨7, 1, some (5, 7)⟩ := by
      have : history y6 (true, false) 0 = some ⟨7, 1, some (5, 7)⟩ := rfl
      rw [this] at hoB; cases hoB; rfl
    subst eA; subst eB
    have rA : 5 = seqRun exStep 0 (seq.take jA) + 5 := rA
    have rB : 7 = seqRun exStep 0 (seq.take jB) + 7 := rB
    rcases Nat.lt_trichotomy jA jB with hlt | heq | hgt
    · have : (5 : Nat) ≤ seqRun exStep 0 (seq.take jB) := le_seqRun_take sA hlt
      omega
    · subst heq
      have := (h2 _ _ _ _ _ pA pB).1
      cases this
    · have : (7 : Nat) ≤ seqRun exStep 0 (seq.take jA) := le_seqRun_take sB hgt
      omega

end Multi

#print axioms Multi.reach_node
#print axioms Multi.reach_ginv
#print axioms Multi.reach_ginvT
#print axioms Multi.shared_exists
#print axioms Multi.own_reply_shared
#print axioms Multi.real_time_shared
#print axioms Multi.linearizable_shared
#print axioms Multi.applied_agree_len
#print axioms Multi.applied_prefix
#print axioms Multi.x11_reach
#print axioms Multi.linearizable_needs_sms
