import RedisGoModel.Cluster.Multi
import RedisGoModel.Props.C07Own
/-! # C07, several nodes: the invariants of `Cluster/Multi.lean` under the guard `Multi.RaftFacts`

    Core Lean only.  Everything here is about `Multi.next` (every node runs `Rendezvous.next`) for an arbitrary deterministic state
    machine `step : S → Cmd → S × Reply` shared by all nodes, in every state reachable when each event satisfies `Multi.RaftFacts`
    (cluster-wide unique proposal ids + the three facts about Raft).  `Props/C07Multi.lean` discharges `RaftFacts` for the model run
    on top of an L0 run and states the property theorems; this file has the helper lemmas:

    * `reach_node` — every node's rendezvous state is reachable in the ONE-node model under `Rendezvous.UniqueIds`, so every theorem of
      `Props/C07Own.lean` holds per node;
    * `GInv` — applied logs pairwise prefix-comparable, ids unique cluster-wide, every applied entry is a submitted proposal, an id
      occurs at most once per applied log;
    * `GInvT` — the cluster-clock history variables are consistent, and an operation answered (at any node) before another was
      submitted (at any node) is earlier in the log. -/
set_option linter.unusedSectionVars false
namespace Multi
open Rendezvous
variable {Node Id Conn S Cmd Reply : Type} [DecidableEq Node] [DecidableEq Id] [DecidableEq Conn]
variable (step : S → Cmd → S × Reply) (s0 : S)

/-! ## what one event does to the fields the invariants speak about -/

theorem next_receive_en {st : State Node Id Conn S Cmd Reply} {i : Node} {c : Conn}
    (hen : Rendezvous.enabled (st.node i) (.receive c : Rendezvous.Event Id Conn Cmd) = true) :
    next step st (.receive i c) =
      { st with
        node := upd st.node i (Rendezvous.next step (st.node i) (.receive c))
        now := st.now + 1
        resT := upd st.resT (i, c) (st.resT (i, c) ++ [st.now]) } := by
  simp [next, hen]

section submit
variable (st : State Node Id Conn S Cmd Reply) (i : Node) (c : Conn) (cmd : Cmd) (id : Id)

theorem submit_log (n : Node) : ((next step st (.submit i c cmd id)).node n).log = (st.node n).log := by
  simp only [next, upd]; split
  · rename_i h; subst h; rfl
  · rfl

theorem submit_delivered (n : Node) : ((next step st (.submit i c cmd id)).node n).delivered = (st.node n).delivered := by
  simp only [next, upd]; split
  · rename_i h; subst h; rfl
  · rfl

theorem submit_subs_self : ((next step st (.submit i c cmd id)).node i).subs = upd (st.node i).subs c ((st.node i).subs c ++ [(id, cmd)]) := by
  simp [next, Rendezvous.next]

theorem submit_subs_other {n : Node} (h : n ≠ i) : ((next step st (.submit i c cmd id)).node n).subs = (st.node n).subs := by
  simp [next, upd, h]

theorem submit_subs_cases {n : Node} {c' : Conn} {k : Nat} {p : Id × Cmd}
    (h : (((next step st (.submit i c cmd id)).node n).subs c')[k]? = some p) :
    ((st.node n).subs c')[k]? = some p ∨ (n = i ∧ c' = c ∧ k = ((st.node i).subs c).length ∧ p = (id, cmd)) := by
  by_cases hn : n = i
  · subst hn
    rw [submit_subs_self] at h
    rcases upd_concat_cases h with h | ⟨a, b, d⟩
    · exact Or.inl h
    · exact Or.inr ⟨rfl, a, b, d⟩
  · rw [submit_subs_other step st i c cmd id hn] at h; exact Or.inl h

theorem submit_subs_old {n : Node} {c' : Conn} {k : Nat} {p : Id × Cmd} (h : ((st.node n).subs c')[k]? = some p) :
    (((next step st (.submit i c cmd id)).node n).subs c')[k]? = some p := by
  by_cases hn : n = i
  · subst hn
    rw [submit_subs_self]
    by_cases hc : c' = c
    · subst hc; rw [upd_same]; exact concat_old h
    · rw [upd_other _ _ hc]; exact h
  · rw [submit_subs_other step st i c cmd id hn]; exact h

theorem submit_subs_mem {n : Node} {c' : Conn} {p : Id × Cmd} (h : p ∈ (st.node n).subs c') :
    p ∈ ((next step st (.submit i c cmd id)).node n).subs c' := by
  obtain ⟨k, hk⟩ := List.mem_iff_getElem?.1 h
  exact mem_of_get (submit_subs_old step st i c cmd id hk)
end submit

section apply
variable (st : State Node Id Conn S Cmd Reply) (i : Node) (e : Entry Id Cmd)

theorem apply_log_self : ((next step st (.apply i e)).node i).log = (st.node i).log ++ [e] := by
  simp [next, Rendezvous.next]

theorem apply_node_other {n : Node} (h : n ≠ i) : (next step st (.apply i e)).node n = st.node n := by
  simp [next, upd, h]

theorem apply_subs (n : Node) : ((next step st (.apply i e)).node n).subs = (st.node n).subs := by
  simp only [next, upd]; split
  · rename_i h; subst h; rfl
  · rfl

theorem apply_delivered (n : Node) : ((next step st (.apply i e)).node n).delivered = (st.node n).delivered := by
  simp only [next, upd]; split
  · rename_i h; subst h; rfl
  · rfl

/-- an entry of a node's log after `apply i e` is an old entry of that node, or the new one at the end of node `i`'s log -/
theorem apply_log_cases {n : Node} {j : Nat} {x : Entry Id Cmd} (h : ((next step st (.apply i e)).node n).log[j]? = some x) :
    (st.node n).log[j]? = some x ∨ (n = i ∧ j = (st.node i).log.length ∧ x = e) := by
  by_cases hn : n = i
  · subst hn
    rw [apply_log_self] at h
    rcases concat_cases h with h | ⟨a, b⟩
    · exact Or.inl h
    · exact Or.inr ⟨rfl, a, b⟩
  · rw [apply_node_other step st i e hn] at h; exact Or.inl h

theorem apply_log_old {n : Node} {j : Nat} {x : Entry Id Cmd} (h : (st.node n).log[j]? = some x) :
    ((next step st (.apply i e)).node n).log[j]? = some x := by
  by_cases hn : n = i
  · subst hn; rw [apply_log_self]; exact concat_old h
  · rw [apply_node_other step st i e hn]; exact h
end apply

section receive
variable (st : State Node Id Conn S Cmd Reply) (i : Node) (c : Conn)

theorem receive_log (n : Node) : ((next step st (.receive i c)).node n).log = (st.node n).log := by
  simp only [next]
  split
  · simp only [upd]; split
    · rename_i h; subst h
      simp only [Rendezvous.next]
      split <;> rfl
    · rfl
  · rfl

theorem receive_subs (n : Node) : ((next step st (.receive i c)).node n).subs = (st.node n).subs := by
  simp only [next]
  split
  · simp only [upd]; split
    · rename_i h; subst h
      simp only [Rendezvous.next]
      split <;> rfl
    · rfl
  · rfl

theorem receive_invT : (next step st (.receive i c)).invT = st.invT := by
  simp only [next]; split <;> rfl
end receive

/-! ## the invariant (no clocks) -/

/-- what holds in every state reachable under `RaftFacts` -/
structure GInv (st : State Node Id Conn S Cmd Reply) : Prop where
  /-- each node's rendezvous state is a reachable state of the one-node model under its own `UniqueIds` -/
  nodeR : ∀ i, ReachU step s0 (st.node i)
  /-- all nodes apply prefixes of one log -/
  cmp : ∀ i j, (st.node i).log <+: (st.node j).log ∨ (st.node j).log <+: (st.node i).log
  /-- proposal ids are unique across all connections of all nodes -/
  gsub : ∀ (i : Node) (c : Conn) (k : Nat) (i' : Node) (c' : Conn) (k' : Nat) (id : Id) (cmd cmd' : Cmd),
    ((st.node i).subs c)[k]? = some (id, cmd) → ((st.node i').subs c')[k']? = some (id, cmd') → i = i' ∧ c = c' ∧ k = k'
  /-- every applied entry is the proposal of some connection of some node -/
  logsub : ∀ (i : Node) (e : Entry Id Cmd), e ∈ (st.node i).log → ∃ n c, (e.id, e.cmd) ∈ (st.node n).subs c
  /-- an id occurs at most once in a node's applied log -/
  loguniq : ∀ (i : Node) (j j' : Nat) (e e' : Entry Id Cmd), (st.node i).log[j]? = some e → (st.node i).log[j']? = some e' →
    e.id = e'.id → j = j'

theorem ginv_init : GInv step s0 (init s0 : State Node Id Conn S Cmd Reply) := by
  refine ⟨fun _ => .init, fun _ _ => Or.inl (List.prefix_refl _), ?_, ?_, ?_⟩ <;> simp [init, Rendezvous.init]

/-- an id determines the command, cluster-wide -/
theorem GInv.cmd_of_id {st : State Node Id Conn S Cmd Reply} (h : GInv step s0 st) {i i' : Node} {c c' : Conn} {id : Id} {cmd cmd' : Cmd}
    (h1 : (id, cmd) ∈ (st.node i).subs c) (h2 : (id, cmd') ∈ (st.node i').subs c') : cmd = cmd' := by
  obtain ⟨k, hk⟩ := List.mem_iff_getElem?.1 h1
  obtain ⟨k', hk'⟩ := List.mem_iff_getElem?.1 h2
  obtain ⟨a, b, d⟩ := h.gsub _ _ _ _ _ _ _ _ _ hk hk'
  subst a; subst b; subst d
  rw [hk] at hk'; cases hk'; rfl

/-- the guard of the cluster implies the guard of the node -/
theorem uniqueIds_of_raftFacts {st : State Node Id Conn S Cmd Reply} (h : GInv step s0 st) {ev : Event Node Id Conn Cmd}
    (hg : RaftFacts st ev) : UniqueIds (st.node ev.local.1) ev.local.2 := by
  cases ev with
  | submit i c cmd id => exact hg i
  | apply i e =>
    obtain ⟨_, honce, n, c, hsub⟩ := hg
    intro c' p hp hid
    refine ⟨?_, honce⟩
    have hp' : (e.id, p.2) ∈ (st.node i).subs c' := by rw [← hid]; exact hp
    exact h.cmd_of_id step s0 hp' hsub
  | receive i c => trivial

theorem ginv_submit {st : State Node Id Conn S Cmd Reply} (h : GInv step s0 st) (i : Node) (c : Conn) (cmd : Cmd) (id : Id)
    (hen : enabled st (.submit i c cmd id) = true) (hg : RaftFacts st (.submit i c cmd id)) :
    GInv step s0 (next step st (.submit i c cmd id)) := by
  refine ⟨?_, ?_, ?_, ?_, ?_⟩
  · intro n
    by_cases hn : n = i
    · subst hn
      have : (next step st (.submit n c cmd id)).node n = Rendezvous.next step (st.node n) (.submit c cmd id) := by simp [next]
      rw [this]
      exact .step (h.nodeR n) hen (hg n)
    · have : (next step st (.submit i c cmd id)).node n = st.node n := by simp [next, upd, hn]
      rw [this]; exact h.nodeR n
  · intro a b; rw [submit_log, submit_log]; exact h.cmp a b
  · intro n1 c1 k1 n2 c2 k2 id' cmd1 cmd2 h1 h2
    rcases submit_subs_cases step st i c cmd id h1 with h1 | ⟨a1, b1, d1, e1⟩ <;>
      rcases submit_subs_cases step st i c cmd id h2 with h2 | ⟨a2, b2, d2, e2⟩
    · exact h.gsub _ _ _ _ _ _ _ _ _ h1 h2
    · cases e2; exact absurd rfl ((hg n1).1 c1 _ (mem_of_get h1))
    · cases e1; exact absurd rfl ((hg n2).1 c2 _ (mem_of_get h2))
    · exact ⟨by rw [a1, a2], by rw [b1, b2], by rw [d1, d2]⟩
  · intro n x hx
    rw [submit_log] at hx
    obtain ⟨m, c', hm⟩ := h.logsub n x hx
    exact ⟨m, c', submit_subs_mem step st i c cmd id hm⟩
  · intro n j j' x x' hx hx'
    rw [submit_log] at hx hx'
    exact h.loguniq n j j' x x' hx hx'

theorem ginv_apply {st : State Node Id Conn S Cmd Reply} (h : GInv step s0 st) (i : Node) (e : Entry Id Cmd)
    (hg : RaftFacts st (.apply i e)) : GInv step s0 (next step st (.apply i e)) := by
  have hu := uniqueIds_of_raftFacts step s0 h hg
  obtain ⟨hsms, honce, hsubm⟩ := hg
  refine ⟨?_, ?_, ?_, ?_, ?_⟩
  · intro n
    by_cases hn : n = i
    · subst hn
      have : (next step st (.apply n e)).node n = Rendezvous.next step (st.node n) (.apply e) := by simp [next]
      rw [this]
      exact .step (h.nodeR n) rfl hu
    · rw [apply_node_other step st i e hn]; exact h.nodeR n
  · intro a b
    by_cases ha : a = i <;> by_cases hb : b = i
    · subst ha; subst hb; exact Or.inl (List.prefix_refl _)
    · subst ha; rw [apply_log_self, apply_node_other step st a e hb]; exact hsms b
    · subst hb; rw [apply_log_self, apply_node_other step st b e ha]; exact (hsms a).symm
    · rw [apply_node_other step st i e ha, apply_node_other step st i e hb]; exact h.cmp a b
  · intro n1 c1 k1 n2 c2 k2 id' cmd1 cmd2 h1 h2
    rw [apply_subs] at h1 h2
    exact h.gsub _ _ _ _ _ _ _ _ _ h1 h2
  · intro n x hx
    have hx' : x ∈ (st.node n).log ∨ x = e := by
      obtain ⟨j, hj⟩ := List.mem_iff_getElem?.1 hx
      rcases apply_log_cases step st i e hj with hj | ⟨_, _, hj⟩
      · exact Or.inl (mem_of_get hj)
      · exact Or.inr hj
    rcases hx' with hx' | hx'
    · obtain ⟨m, c', hm⟩ := h.logsub n x hx'
      exact ⟨m, c', by rw [apply_subs]; exact hm⟩
    · subst hx'
      obtain ⟨m, c', hm⟩ := hsubm
      exact ⟨m, c', by rw [apply_subs]; exact hm⟩
  · intro n j j' x x' hx hx' hid
    rcases apply_log_cases step st i e hx with ox | ⟨a1, b1, d1⟩ <;>
      rcases apply_log_cases step st i e hx' with ox' | ⟨a2, b2, d2⟩
    · exact h.loguniq n j j' x x' ox ox' hid
    · rw [d2] at hid; exact absurd hid (honce x (by rw [← a2]; exact mem_of_get ox))
    · rw [d1] at hid; exact absurd hid.symm (honce x' (by rw [← a1]; exact mem_of_get ox'))
    · omega

theorem ginv_receive {st : State Node Id Conn S Cmd Reply} (h : GInv step s0 st) (i : Node) (c : Conn)
    (hen : enabled st (.receive i c) = true) : GInv step s0 (next step st (.receive i c)) := by
  have hen' : Rendezvous.enabled (st.node i) (.receive c : Rendezvous.Event Id Conn Cmd) = true := hen
  refine ⟨?_, ?_, ?_, ?_, ?_⟩
  · intro n
    rw [next_receive_en step hen']
    by_cases hn : n = i
    · subst hn
      simp only [upd_same]
      exact .step (h.nodeR n) hen' trivial
    · simp only [upd_other _ _ hn]; exact h.nodeR n
  · intro a b; rw [receive_log, receive_log]; exact h.cmp a b
  · intro n1 c1 k1 n2 c2 k2 id' cmd1 cmd2 h1 h2
    rw [receive_subs] at h1 h2
    exact h.gsub _ _ _ _ _ _ _ _ _ h1 h2
  · intro n x hx
    rw [receive_log] at hx
    obtain ⟨m, c', hm⟩ := h.logsub n x hx
    exact ⟨m, c', by rw [receive_subs]; exact hm⟩
  · intro n j j' x x' hx hx'
    rw [receive_log] at hx hx'
    exact h.loguniq n j j' x x' hx hx'

/-- states reachable under the guard `RaftFacts` -/
abbrev ReachF (st : State Node Id Conn S Cmd Reply) : Prop := Reach step s0 RaftFacts st

theorem reach_ginv {st : State Node Id Conn S Cmd Reply} (r : ReachF step s0 st) : GInv step s0 st := by
  induction r with
  | init => exact ginv_init step s0
  | @step st ev _ hen hg ih =>
    cases ev with
    | submit i c cmd id => exact ginv_submit step s0 ih i c cmd id hen hg
    | apply i e => exact ginv_apply step s0 ih i e hg
    | receive i c => exact ginv_receive step s0 ih i c hen

/-- **every node of the cluster is a reachable state of the one-node rendezvous model under `UniqueIds`** — all theorems of
    `Props/C07Own.lean` apply to it -/
theorem reach_node {st : State Node Id Conn S Cmd Reply} (r : ReachF step s0 st) (i : Node) : ReachU step s0 (st.node i) :=
  (reach_ginv step s0 r).nodeR i

end Multi
