import RedisGoModel.Config.Parse
import RedisGoModel.Props.C20
/-! # C20 — where the database count comes from: the configuration layer

C20 speaks of "the configured indexes … for all database counts"; `Props/C20.lean` proves SELECT and isolation with the count a
parameter.  This file is about `Config.parse` / `Config.clusterPost` / `Config.startup` (`Config/Parse.lean`, the functions the
`config` engine of the driver runs against the real `config.Parse` / `ParseConfigJson`):

* `parse_append`, `last_wins` — parsing is compositional over lines: `parse (a ++ '\n' :: b)` = parse `b` from the state `a` left;
* `parse_databases_spec` — after a successful `Parse` from `Setup`'s defaults `Databases` is the value of the LAST `databases`
  directive if there is one, else 16, and it is ≥ 1 (`parse_databases_from`: from any state);
  `parse_never_nonpositive` — no file ends `ok` with `Databases ≤ 0`;
* `cluster_single_database` — every `ok` outcome of `ParseConfigJson` has `Databases = 1`, whatever `json.Unmarshal` decoded
  (`RaftAddr` given or not, a `Databases` member or not); `startup_cluster_single_database` the same for `Setup`'s flow;
  `cluster_select_iff` — composed with `Exec.select_accepts_exactly`: in cluster mode `SELECT a` is accepted iff `a` parses to 0;
* `parse_total` — a parse that does not end `ok` fails at a FIRST line, exactly for one of the named reasons (`LineFails`), and
  conversely; `applyLine_fatal_iff` / `_panic_iff` / `_error_iff` and `clusterPost_*_iff` characterise every non-ok outcome;
* comment / field facts: `comment_column0`, `indented_hash_is_directive`, `needs_two_fields`, `extra_fields_ignored`,
  `name_case_insensitive`, `fields_clean` (no field is empty or contains ASCII white space).

Everything is for every oracle (`unicode.ToLower` above ASCII, the IPv6 grammar): no hypothesis on it is needed. -/
namespace Config

/-! ## (d) compositionality -/

theorem splitAux_append (cur a b : Bytes) : splitAux cur (a ++ 10 :: b) = splitAux cur a ++ splitAux [] b := by
  induction a generalizing cur with
  | nil => simp [splitAux]
  | cons c a ih =>
    by_cases hc : c = 10
    · simp [splitAux, hc, ih]
    · simp [splitAux, hc, ih]

theorem splitLines_append (a b : Bytes) : splitLines (a ++ 10 :: b) = splitLines a ++ splitLines b :=
  splitAux_append [] a b

theorem parseLines_append (o : Oracle) (c : Cfg) (xs ys : List Bytes) :
    parseLines o c (xs ++ ys) = (parseLines o c xs).bind fun c' => parseLines o c' ys := by
  induction xs generalizing c with
  | nil => rfl
  | cons l ls ih =>
    simp only [List.cons_append, parseLines]
    cases applyLine o c l with
    | ok c1 => simp only [Outcome.bind]; exact ih c1
    | error e => rfl
    | panic w => rfl
    | fatal w => rfl

/-- **line compositionality**: parsing `a`, a newline, `b` = parsing `b` from the state `a` left (and stopping where `a` stopped) -/
theorem parse_append (o : Oracle) (c : Cfg) (a b : Bytes) :
    parse o c (a ++ 10 :: b) = (parse o c a).bind fun c' => parse o c' b := by
  unfold parse
  rw [splitLines_append, parseLines_append]

/-- **last wins**: whatever a first part set, a later complete part is parsed against it; two `databases` lines keep the second -/
theorem last_wins (o : Oracle) (c c1 : Cfg) (a b : Bytes) (h : parse o c a = .ok c1) :
    parse o c (a ++ 10 :: b) = parse o c1 b := by
  rw [parse_append, h]; rfl

example : (match parse {} defaults (b!"databases 2\ndatabases 3") with | .ok c => c.databases | _ => 0) = 3 := by decide

/-! ## (a) the database count -/

/-- the value field of a line that is a `databases` directive -/
def dbField (o : Oracle) (line : Bytes) : Option Bytes :=
  match directive o line with
  | some (.databases, v) => some v
  | _ => none

/-- the value field of the LAST `databases` directive among the lines -/
def lastDb (o : Oracle) : List Bytes → Option Bytes
| [] => none
| l :: ls =>
  match lastDb o ls with
  | some v => some v
  | none => dbField o l

theorem applyDir_databases (o : Oracle) (c c1 : Cfg) (k : Key) (v : Bytes) (h : applyDir o c k v = .ok c1) :
    (k = .databases → atoi v = .ok c1.databases ∧ 0 < c1.databases) ∧ (k ≠ .databases → c1.databases = c.databases) := by
  cases k with
  | host => simp only [applyDir] at h; split at h <;> simp_all; cases h; rfl
  | port =>
    simp only [applyDir] at h
    split at h
    · split at h
      · cases h
      · simp at h; cases h; simp
    · cases h
    · cases h
  | logdir => simp only [applyDir] at h; simp at h; cases h; simp
  | loglevel => simp only [applyDir] at h; simp at h; cases h; simp
  | shardnum =>
    simp only [applyDir] at h
    split at h
    · simp at h; cases h; simp
    · cases h
    · cases h
  | databases =>
    simp only [applyDir] at h
    split at h
    · rename_i n hn
      split at h
      · cases h
      · rename_i hpos
        simp at h; cases h
        simp only [forall_const, ne_eq, not_true_eq_false, false_implies, and_true]
        exact ⟨hn, by omega⟩
    · cases h
    · cases h
  | other n => simp only [applyDir] at h; simp at h; cases h; simp

theorem applyLine_databases (o : Oracle) (c c1 : Cfg) (l : Bytes) (h : applyLine o c l = .ok c1) :
    match dbField o l with
    | none => c1.databases = c.databases
    | some v => atoi v = .ok c1.databases ∧ 0 < c1.databases := by
  unfold applyLine at h
  unfold dbField
  cases hd : directive o l with
  | none => rw [hd] at h; simp at h; cases h; rfl
  | some kv =>
    obtain ⟨k, v⟩ := kv
    rw [hd] at h
    simp only at h
    have := applyDir_databases o c c1 k v h
    by_cases hk : k = .databases
    · subst hk; exact this.1 rfl
    · have e := this.2 hk
      cases k <;> first | exact e | exact absurd rfl hk

/-- from any state: the result holds the value of the last `databases` directive, else what it held before; positivity is kept -/
theorem parse_databases_from (o : Oracle) (c c' : Cfg) (ls : List Bytes) (h : parseLines o c ls = .ok c') :
    (match lastDb o ls with
     | none => c'.databases = c.databases
     | some v => atoi v = .ok c'.databases ∧ 0 < c'.databases) := by
  induction ls generalizing c with
  | nil => simp [parseLines] at h; cases h; rfl
  | cons l ls ih =>
    simp only [parseLines] at h
    cases h1 : applyLine o c l with
    | ok c1 =>
      rw [h1] at h
      simp only [Outcome.bind] at h
      have i := ih c1 h
      have a := applyLine_databases o c c1 l h1
      simp only [lastDb]
      cases hl : lastDb o ls with
      | some v => rw [hl] at i; exact i
      | none =>
        rw [hl] at i
        simp only at i ⊢
        cases hf : dbField o l with
        | none => rw [hf] at a; simp only at a ⊢; rw [i, a]
        | some v => rw [hf] at a; simp only at a ⊢; rw [i]; exact a
    | error e => rw [h1] at h; cases h
    | panic w => rw [h1] at h; cases h
    | fatal w => rw [h1] at h; cases h

/-- **(a)** after a successful `Parse` from `Setup`'s defaults, `Databases` is the value of the LAST `databases` directive of the
    file if there is one, else 16; and it is at least 1 -/
theorem parse_databases_spec (o : Oracle) (file : Bytes) (c' : Cfg) (h : parse o defaults file = .ok c') :
    (match lastDb o (splitLines file) with
     | none => c'.databases = 16
     | some v => atoi v = .ok c'.databases) ∧ 1 ≤ c'.databases := by
  have := parse_databases_from o defaults c' (splitLines file) h
  cases hl : lastDb o (splitLines file) with
  | none => rw [hl] at this; simp only at this ⊢; rw [this]; exact ⟨rfl, by decide⟩
  | some v => rw [hl] at this; simp only at this ⊢; exact ⟨this.1, by omega⟩

/-- no file ends `ok` with `Databases ≤ 0` (so `NewManager` never sees an empty or negative database array) -/
theorem parse_never_nonpositive (o : Oracle) (file : Bytes) (c' : Cfg) (h : parse o defaults file = .ok c') : ¬ c'.databases ≤ 0 := by
  have := (parse_databases_spec o file c' h).2; omega

theorem parse_newManager_ok (o : Oracle) (file : Bytes) (c' : Cfg) (h : parse o defaults file = .ok c') :
    newManager c'.databases = some (dbCount c') ∧ 0 < dbCount c' := by
  have := (parse_databases_spec o file c' h).2
  unfold newManager dbCount
  rw [if_neg (by omega)]
  exact ⟨rfl, by omega⟩

-- the hypothesis is satisfiable, with and without a directive; `#databases` and `databases` with one field do not count
example : ∃ c', parse {} defaults (b!"port 7000\nDataBases 4 # four\n#databases 9\ndatabases\n") = .ok c' ∧ c'.databases = 4 := ⟨_, rfl, by decide⟩
example : ∃ c', parse {} defaults (b!"port 7000\n") = .ok c' ∧ c'.databases = 16 := ⟨_, rfl, by decide⟩
example : lastDb {} (splitLines (b!"databases 2\ndatabases 3\nport 7000")) = some (b!"3") := by decide
example : parse {} defaults (b!"databases 0") = .fatal .dbNonPositive := by decide
example : parse {} defaults (b!"databases -3") = .fatal .dbNonPositive := by decide
example : parse {} defaults (b!"databases 16x") = .fatal .dbSyntax := by decide
example : parse {} defaults (b!"databases 9223372036854775808") = .fatal .dbRange := by decide

/-! ## (b) cluster mode: one database -/

/-- **(b)** every `ok` outcome of `ParseConfigJson` has `Databases = 1`, whatever `json.Unmarshal` decoded and whether or not the
    document names `RaftAddr` -/
theorem cluster_single_database (j c : Cfg) (err : Bool) (h : clusterPost j err = .ok c) : c.databases = 1 := by
  unfold clusterPost at h
  split at h
  · cases h
  · split at h
    · cases h
    · split at h
      · split at h
        · simp at h; cases h; rfl
        · cases h
      · simp at h; cases h; rfl

/-- … and nothing else of the decoded Config is touched except a derived `RaftAddr` -/
theorem cluster_ok_fields (j c : Cfg) (err : Bool) (h : clusterPost j err = .ok c) :
    c = { j with raftAddr := c.raftAddr, databases := 1 } ∧ (j.raftAddr ≠ [] → c.raftAddr = j.raftAddr) ∧
    (j.raftAddr = [] → (splitComma j.peerAddrs)[(j.nodeID - 1).toNat]? = some c.raftAddr) := by
  unfold clusterPost at h
  split at h
  · cases h
  · split at h
    · cases h
    · split at h
      · rename_i he
        split at h
        · rename_i a ha
          simp at h; cases h
          simp only [List.isEmpty_iff] at he
          exact ⟨rfl, fun hne => absurd he hne, fun _ => ha⟩
        · cases h
      · rename_i he
        simp at h; cases h
        simp only [List.isEmpty_iff] at he
        exact ⟨rfl, fun _ => rfl, fun e => absurd e he⟩

theorem applyDir_keeps_cluster (o : Oracle) (c c1 : Cfg) (k : Key) (v : Bytes) (h : applyDir o c k v = .ok c1) :
    c1.isCluster = c.isCluster ∧ c1.clusterConfigPath = c.clusterConfigPath := by
  cases k <;> simp only [applyDir] at h <;> (try split at h) <;> (try split at h) <;> cases h <;> exact ⟨rfl, rfl⟩

theorem parseLines_keeps_cluster (o : Oracle) (c c' : Cfg) (ls : List Bytes) (h : parseLines o c ls = .ok c') :
    c'.isCluster = c.isCluster ∧ c'.clusterConfigPath = c.clusterConfigPath := by
  induction ls generalizing c with
  | nil => simp [parseLines] at h; cases h; exact ⟨rfl, rfl⟩
  | cons l ls ih =>
    simp only [parseLines] at h
    cases h1 : applyLine o c l with
    | ok c1 =>
      rw [h1] at h
      have i := ih c1 h
      have : c1.isCluster = c.isCluster ∧ c1.clusterConfigPath = c.clusterConfigPath := by
        unfold applyLine at h1
        cases hd : directive o l with
        | none => rw [hd] at h1; simp at h1; cases h1; exact ⟨rfl, rfl⟩
        | some kv => rw [hd] at h1; exact applyDir_keeps_cluster o c c1 kv.1 kv.2 h1
      exact ⟨i.1.trans this.1, i.2.trans this.2⟩
    | error e => rw [h1] at h; cases h
    | panic w => rw [h1] at h; cases h
    | fatal w => rw [h1] at h; cases h

/-- `Setup`'s flow in cluster mode: whatever the configuration file says about `databases` (and whatever the cluster JSON says),
    a start that succeeds has exactly one database -/
theorem startup_cluster_single_database (o : Oracle) (c0 c : Cfg) (file : Bytes) (unm : Cfg → Cfg × Bool)
    (hcl : c0.isCluster = true) (h : startup o c0 file unm = .ok c) : c.databases = 1 := by
  unfold startup at h
  cases hp : parse o c0 file with
  | ok c1 =>
    rw [hp] at h
    simp only [Outcome.bind] at h
    have := (parseLines_keeps_cluster o c0 c1 _ hp).1
    rw [this, hcl] at h
    simp only [if_true] at h
    split at h
    · cases h
    · exact cluster_single_database _ _ _ h
  | error e => rw [hp] at h; cases h
  | panic w => rw [hp] at h; cases h
  | fatal w => rw [hp] at h; cases h

/-- **in cluster mode `SELECT a` is accepted iff `a` is (a spelling of) 0** — `Exec.select_accepts_exactly` instantiated with the
    database count a successful `ParseConfigJson` leaves -/
theorem cluster_select_iff (j c : Cfg) (err : Bool) (h : clusterPost j err = .ok c) (name a : Resp.Bytes) :
    (∃ n, Exec.selectReply (dbCount c) [name, a] = (Exec.ok, some n)) ↔ Exec.parseI64 a = some 0 := by
  have h1 : dbCount c = 1 := by unfold dbCount; rw [cluster_single_database j c err h]; rfl
  rw [h1, Exec.select_accepts_exactly]
  constructor
  · rintro ⟨n, hn, hlt⟩
    have : n = 0 := by omega
    subst this; exact hn
  · intro h0; exact ⟨0, h0, by decide⟩

/-- and the index it then names is 0 -/
theorem cluster_select_index (j c : Cfg) (err : Bool) (h : clusterPost j err = .ok c) (name a : Resp.Bytes) (n : Nat)
    (hs : Exec.selectReply (dbCount c) [name, a] = (Exec.ok, some n)) : n = 0 := by
  have h1 : dbCount c = 1 := by unfold dbCount; rw [cluster_single_database j c err h]; rfl
  rw [h1] at hs
  unfold Exec.selectReply at hs
  simp only at hs
  split at hs
  · split at hs
    · rename_i hlt; simp at hs; omega
    · simp at hs
  · simp at hs
  · simp at hs

/-- the server a cluster node builds has exactly one database -/
theorem cluster_server_one_db (j c : Cfg) (err : Bool) (h : clusterPost j err = .ok c) : (Exec.Server.init (dbCount c)).dbs.length = 1 := by
  unfold dbCount; rw [cluster_single_database j c err h]; rfl

-- satisfiable: a decoded document with an explicit RaftAddr and a Databases member, one without RaftAddr
example : clusterPost { defaults with nodeID := 1, raftAddr := b!"http://127.0.0.1:16380", databases := 16 } false
    = .ok { defaults with nodeID := 1, raftAddr := b!"http://127.0.0.1:16380", databases := 1 } := by decide
example : clusterPost { defaults with nodeID := 2, peerAddrs := b!"a,b,c", databases := 7 } false
    = .ok { defaults with nodeID := 2, peerAddrs := b!"a,b,c", raftAddr := b!"b", databases := 1 } := by decide

/-! ## (c) outcomes and their reasons -/

theorem clusterPost_nodeid_iff (j : Cfg) (err : Bool) : clusterPost j err = .panic .nodeIdNotSet ↔ j.nodeID ≤ 0 := by
  unfold clusterPost
  constructor
  · intro h
    split at h
    · assumption
    · split at h
      · cases h
      · split at h
        · split at h <;> cases h
        · cases h
  · intro h; rw [if_pos h]

theorem clusterPost_error_iff (j : Cfg) (err : Bool) (e : Err) : clusterPost j err = .error e ↔ 0 < j.nodeID ∧ err = true ∧ e = .jsonFields := by
  unfold clusterPost
  constructor
  · intro h
    split at h
    · cases h
    · rename_i hn
      split at h
      · rename_i he; cases h; exact ⟨by omega, he, rfl⟩
      · split at h
        · split at h <;> cases h
        · cases h
  · rintro ⟨hn, he, rfl⟩
    rw [if_neg (by omega), if_pos he]

/-- the index panic: `RaftAddr` not given and `NodeID` beyond the number of comma-separated pieces of `PeerAddrs` -/
theorem clusterPost_index_iff (j : Cfg) (err : Bool) :
    clusterPost j err = .panic .raftIndex ↔ 0 < j.nodeID ∧ err = false ∧ j.raftAddr = [] ∧ (splitComma j.peerAddrs).length < j.nodeID := by
  unfold clusterPost
  constructor
  · intro h
    split at h
    · cases h
    · rename_i hn
      split at h
      · cases h
      · rename_i he
        split at h
        · rename_i hr
          split at h
          · cases h
          · rename_i hnone
            simp only [List.isEmpty_iff] at hr
            have := List.getElem?_eq_none_iff.mp hnone
            refine ⟨by omega, by simpa using he, hr, by omega⟩
        · cases h
  · rintro ⟨hn, he, hr, hlen⟩
    rw [if_neg (by omega), he, hr]
    simp only [Bool.false_eq_true, if_false, List.isEmpty_nil, if_true]
    have : (splitComma j.peerAddrs)[(j.nodeID - 1).toNat]? = none := List.getElem?_eq_none_iff.mpr (by omega)
    rw [this]

/-- `ParseConfigJson` is total over these four outcomes -/
theorem clusterPost_total (j : Cfg) (err : Bool) :
    (∃ c, clusterPost j err = .ok c) ∨ clusterPost j err = .panic .nodeIdNotSet ∨ clusterPost j err = .error .jsonFields ∨
    clusterPost j err = .panic .raftIndex := by
  unfold clusterPost
  split
  · exact .inr (.inl rfl)
  · split
    · exact .inr (.inr (.inl rfl))
    · split
      · split
        · exact .inl ⟨_, rfl⟩
        · exact .inr (.inr (.inr rfl))
      · exact .inl ⟨_, rfl⟩

-- a plausible mistake crashes the node at start-up: three peers, NodeID 4, no RaftAddr (a typo, or a node added to the list later)
example : clusterPost { defaults with nodeID := 4, peerAddrs := b!"http://127.0.0.1:16380,http://127.0.0.1:16381,http://127.0.0.1:16382" } false
    = .panic .raftIndex := by decide
-- and `NodeID <= 0` panics even when the document did not parse at all (the test comes before the error test)
example : clusterPost defaults true = .panic .nodeIdNotSet := by decide

/-- the named reasons for which one line ends a parse -/
def LineFails (o : Oracle) (c : Cfg) (l : Bytes) (out : Outcome) : Prop :=
  ∃ v,
    (directive o l = some (.host, v) ∧ parseIP o v = false ∧ out = .error (.hostInvalid c.host)) ∨
    (directive o l = some (.port, v) ∧ atoi v = .syntaxErr ∧ out = .error .portSyntax) ∨
    (directive o l = some (.port, v) ∧ atoi v = .rangeErr ∧ out = .error .portRange) ∨
    (directive o l = some (.port, v) ∧ ∃ p, atoi v = .ok p ∧ (p ≤ 1024 ∨ p ≥ 65535) ∧ out = .error (.portBounds p)) ∨
    (directive o l = some (.shardnum, v) ∧ atoi v = .syntaxErr ∧ out = .panic .shardSyntax) ∨
    (directive o l = some (.shardnum, v) ∧ atoi v = .rangeErr ∧ out = .panic .shardRange) ∨
    (directive o l = some (.databases, v) ∧ atoi v = .syntaxErr ∧ out = .fatal .dbSyntax) ∨
    (directive o l = some (.databases, v) ∧ atoi v = .rangeErr ∧ out = .fatal .dbRange) ∨
    (directive o l = some (.databases, v) ∧ ∃ n, atoi v = .ok n ∧ n ≤ 0 ∧ out = .fatal .dbNonPositive)

theorem applyLine_fails_iff (o : Oracle) (c : Cfg) (l : Bytes) (out : Outcome) :
    (applyLine o c l = out ∧ out.isOk = false) ↔ LineFails o c l out := by
  unfold applyLine LineFails
  constructor
  · rintro ⟨h, hno⟩
    cases hd : directive o l with
    | none => rw [hd] at h; simp only at h; subst h; simp [Outcome.isOk] at hno
    | some kv =>
      obtain ⟨k, v⟩ := kv
      rw [hd] at h
      simp only at h
      refine ⟨v, ?_⟩
      cases k with
      | host =>
        simp only [applyDir] at h
        by_cases hp : parseIP o v = true
        · rw [if_pos hp] at h; subst h; simp [Outcome.isOk] at hno
        · rw [if_neg hp] at h; exact .inl ⟨rfl, by simpa using hp, h.symm⟩
      | port =>
        simp only [applyDir] at h
        cases ha : atoi v with
        | ok p =>
          rw [ha] at h; simp only at h
          by_cases hb : p ≤ 1024 ∨ p ≥ 65535
          · rw [if_pos hb] at h; exact .inr (.inr (.inr (.inl ⟨rfl, p, rfl, hb, h.symm⟩)))
          · rw [if_neg hb] at h; subst h; simp [Outcome.isOk] at hno
        | syntaxErr => rw [ha] at h; exact .inr (.inl ⟨rfl, rfl, h.symm⟩)
        | rangeErr => rw [ha] at h; exact .inr (.inr (.inl ⟨rfl, rfl, h.symm⟩))
      | logdir => simp only [applyDir] at h; subst h; simp [Outcome.isOk] at hno
      | loglevel => simp only [applyDir] at h; subst h; simp [Outcome.isOk] at hno
      | shardnum =>
        simp only [applyDir] at h
        cases ha : atoi v with
        | ok p => rw [ha] at h; simp only at h; subst h; simp [Outcome.isOk] at hno
        | syntaxErr => rw [ha] at h; exact .inr (.inr (.inr (.inr (.inl ⟨rfl, rfl, h.symm⟩))))
        | rangeErr => rw [ha] at h; exact .inr (.inr (.inr (.inr (.inr (.inl ⟨rfl, rfl, h.symm⟩)))))
      | databases =>
        simp only [applyDir] at h
        cases ha : atoi v with
        | ok n =>
          rw [ha] at h; simp only at h
          by_cases hb : n ≤ 0
          · rw [if_pos hb] at h; exact .inr (.inr (.inr (.inr (.inr (.inr (.inr (.inr ⟨rfl, n, rfl, hb, h.symm⟩)))))))
          · rw [if_neg hb] at h; subst h; simp [Outcome.isOk] at hno
        | syntaxErr => rw [ha] at h; exact .inr (.inr (.inr (.inr (.inr (.inr (.inl ⟨rfl, rfl, h.symm⟩))))))
        | rangeErr => rw [ha] at h; exact .inr (.inr (.inr (.inr (.inr (.inr (.inr (.inl ⟨rfl, rfl, h.symm⟩)))))))
      | other n => simp only [applyDir] at h; subst h; simp [Outcome.isOk] at hno
  · rintro ⟨v, h⟩
    rcases h with ⟨hd, hp, rfl⟩ | ⟨hd, ha, rfl⟩ | ⟨hd, ha, rfl⟩ | ⟨hd, p, ha, hb, rfl⟩ | ⟨hd, ha, rfl⟩ | ⟨hd, ha, rfl⟩ | ⟨hd, ha, rfl⟩ |
      ⟨hd, ha, rfl⟩ | ⟨hd, n, ha, hb, rfl⟩ <;> rw [hd]
    · simp [applyDir, hp, Outcome.isOk]
    · simp [applyDir, ha, Outcome.isOk]
    · simp [applyDir, ha, Outcome.isOk]
    · simp [applyDir, ha, hb, Outcome.isOk]
    · simp [applyDir, ha, Outcome.isOk]
    · simp [applyDir, ha, Outcome.isOk]
    · simp [applyDir, ha, Outcome.isOk]
    · simp [applyDir, ha, Outcome.isOk]
    · simp [applyDir, ha, hb, Outcome.isOk]

/-- a `fatal` exit (`log.Fatal`) comes from a `databases` directive only, for exactly these three reasons -/
theorem applyLine_fatal_iff (o : Oracle) (c : Cfg) (l : Bytes) (w : FatalWhy) :
    applyLine o c l = .fatal w ↔ ∃ v, directive o l = some (.databases, v) ∧
      ((w = .dbSyntax ∧ atoi v = .syntaxErr) ∨ (w = .dbRange ∧ atoi v = .rangeErr) ∨ (w = .dbNonPositive ∧ ∃ n, atoi v = .ok n ∧ n ≤ 0)) := by
  have := applyLine_fails_iff o c l (.fatal w)
  simp only [Outcome.isOk, and_true] at this
  rw [this]
  unfold LineFails
  constructor
  · rintro ⟨v, h⟩
    rcases h with ⟨_, _, h⟩ | ⟨_, _, h⟩ | ⟨_, _, h⟩ | ⟨_, _, _, _, h⟩ | ⟨_, _, h⟩ | ⟨_, _, h⟩ | ⟨hd, ha, h⟩ | ⟨hd, ha, h⟩ | ⟨hd, n, ha, hb, h⟩ <;>
      first | cases h | skip
    · exact ⟨v, hd, .inl ⟨rfl, ha⟩⟩
    · exact ⟨v, hd, .inr (.inl ⟨rfl, ha⟩)⟩
    · exact ⟨v, hd, .inr (.inr ⟨rfl, n, ha, hb⟩)⟩
  · rintro ⟨v, hd, h⟩
    refine ⟨v, ?_⟩
    rcases h with ⟨rfl, ha⟩ | ⟨rfl, ha⟩ | ⟨rfl, n, ha, hb⟩
    · exact .inr (.inr (.inr (.inr (.inr (.inr (.inl ⟨hd, ha, rfl⟩))))))
    · exact .inr (.inr (.inr (.inr (.inr (.inr (.inr (.inl ⟨hd, ha, rfl⟩)))))))
    · exact .inr (.inr (.inr (.inr (.inr (.inr (.inr (.inr ⟨hd, n, ha, hb, rfl⟩)))))))

/-- a panic of `Parse` comes from a `shardnum` directive whose value is not an int64 -/
theorem applyLine_panic_iff (o : Oracle) (c : Cfg) (l : Bytes) (w : PanicWhy) :
    applyLine o c l = .panic w ↔ ∃ v, directive o l = some (.shardnum, v) ∧
      ((w = .shardSyntax ∧ atoi v = .syntaxErr) ∨ (w = .shardRange ∧ atoi v = .rangeErr)) := by
  have := applyLine_fails_iff o c l (.panic w)
  simp only [Outcome.isOk, and_true] at this
  rw [this]
  unfold LineFails
  constructor
  · rintro ⟨v, h⟩
    rcases h with ⟨_, _, h⟩ | ⟨_, _, h⟩ | ⟨_, _, h⟩ | ⟨_, _, _, _, h⟩ | ⟨hd, ha, h⟩ | ⟨hd, ha, h⟩ | ⟨_, _, h⟩ | ⟨_, _, h⟩ | ⟨_, _, _, _, h⟩ <;>
      first | cases h | skip
    · exact ⟨v, hd, .inl ⟨rfl, ha⟩⟩
    · exact ⟨v, hd, .inr ⟨rfl, ha⟩⟩
  · rintro ⟨v, hd, h⟩
    refine ⟨v, ?_⟩
    rcases h with ⟨rfl, ha⟩ | ⟨rfl, ha⟩
    · exact .inr (.inr (.inr (.inr (.inl ⟨hd, ha, rfl⟩))))
    · exact .inr (.inr (.inr (.inr (.inr (.inl ⟨hd, ha, rfl⟩)))))

/-- an error return of `Parse` comes from `host` or `port` only -/
theorem applyLine_error_iff (o : Oracle) (c : Cfg) (l : Bytes) (e : Err) :
    applyLine o c l = .error e ↔ ∃ v,
      (directive o l = some (.host, v) ∧ parseIP o v = false ∧ e = .hostInvalid c.host) ∨
      (directive o l = some (.port, v) ∧ ((atoi v = .syntaxErr ∧ e = .portSyntax) ∨ (atoi v = .rangeErr ∧ e = .portRange) ∨
        ∃ p, atoi v = .ok p ∧ (p ≤ 1024 ∨ p ≥ 65535) ∧ e = .portBounds p)) := by
  have := applyLine_fails_iff o c l (.error e)
  simp only [Outcome.isOk, and_true] at this
  rw [this]
  unfold LineFails
  constructor
  · rintro ⟨v, h⟩
    rcases h with ⟨hd, hp, h⟩ | ⟨hd, ha, h⟩ | ⟨hd, ha, h⟩ | ⟨hd, p, ha, hb, h⟩ | ⟨_, _, h⟩ | ⟨_, _, h⟩ | ⟨_, _, h⟩ | ⟨_, _, h⟩ | ⟨_, _, _, _, h⟩ <;>
      first | cases h | skip
    · exact ⟨v, .inl ⟨hd, hp, rfl⟩⟩
    · exact ⟨v, .inr ⟨hd, .inl ⟨ha, rfl⟩⟩⟩
    · exact ⟨v, .inr ⟨hd, .inr (.inl ⟨ha, rfl⟩)⟩⟩
    · exact ⟨v, .inr ⟨hd, .inr (.inr ⟨p, ha, hb, rfl⟩)⟩⟩
  · rintro ⟨v, h⟩
    refine ⟨v, ?_⟩
    rcases h with ⟨hd, hp, rfl⟩ | ⟨hd, ⟨ha, rfl⟩ | ⟨ha, rfl⟩ | ⟨p, ha, hb, rfl⟩⟩
    · exact .inl ⟨hd, hp, rfl⟩
    · exact .inr (.inl ⟨hd, ha, rfl⟩)
    · exact .inr (.inr (.inl ⟨hd, ha, rfl⟩))
    · exact .inr (.inr (.inr (.inl ⟨hd, p, ha, hb, rfl⟩)))

/-- a run of lines that does not end `ok` stops at a first line, with that line's outcome -/
theorem parseLines_first_failure (o : Oracle) (c : Cfg) (ls : List Bytes) (out : Outcome) :
    (parseLines o c ls = out ∧ out.isOk = false) ↔
    ∃ pre l post c1, ls = pre ++ l :: post ∧ parseLines o c pre = .ok c1 ∧ applyLine o c1 l = out ∧ out.isOk = false := by
  induction ls generalizing c with
  | nil =>
    constructor
    · rintro ⟨h, hno⟩; simp only [parseLines] at h; subst h; simp [Outcome.isOk] at hno
    · rintro ⟨pre, l, post, c1, h, _⟩; simp at h
  | cons l ls ih =>
    constructor
    · rintro ⟨h, hno⟩
      simp only [parseLines] at h
      cases h1 : applyLine o c l with
      | ok c1 =>
        rw [h1] at h
        simp only [Outcome.bind] at h
        obtain ⟨pre, l', post, c2, e, hp, ha, _⟩ := (ih c1).mp ⟨h, hno⟩
        refine ⟨l :: pre, l', post, c2, by rw [e]; rfl, ?_, ha, hno⟩
        simp only [parseLines, h1, Outcome.bind]; exact hp
      | error e => rw [h1] at h; exact ⟨[], l, ls, c, rfl, rfl, by rw [h1]; exact h, hno⟩
      | panic w => rw [h1] at h; exact ⟨[], l, ls, c, rfl, rfl, by rw [h1]; exact h, hno⟩
      | fatal w => rw [h1] at h; exact ⟨[], l, ls, c, rfl, rfl, by rw [h1]; exact h, hno⟩
    · rintro ⟨pre, l', post, c1, e, hp, ha, hno⟩
      refine ⟨?_, hno⟩
      rw [e, parseLines_append, hp]
      simp only [Outcome.bind, parseLines, ha]
      cases out with
      | ok _ => simp [Outcome.isOk] at hno
      | error _ => rfl
      | panic _ => rfl
      | fatal _ => rfl

/-- **(c)** the outcome classification of `Parse` is exhaustive and exact: either the file parses (`ok`), or there is a FIRST line —
    everything before it parsed to `c1` — that fails for one of the named reasons (`LineFails`), and the outcome of the file is that
    line's; conversely such a line makes the parse end with exactly that outcome (lines after it are never looked at) -/
theorem parse_total (o : Oracle) (c : Cfg) (file : Bytes) (out : Outcome) :
    parse o c file = out ↔
      ((∃ c', out = .ok c' ∧ parseLines o c (splitLines file) = .ok c') ∨
       (∃ pre l post c1, splitLines file = pre ++ l :: post ∧ parseLines o c pre = .ok c1 ∧ LineFails o c1 l out)) := by
  unfold parse
  constructor
  · intro h
    cases ho : out.isOk with
    | true =>
      left
      cases out with
      | ok c' => exact ⟨c', rfl, h⟩
      | error _ => simp [Outcome.isOk] at ho
      | panic _ => simp [Outcome.isOk] at ho
      | fatal _ => simp [Outcome.isOk] at ho
    | false =>
      right
      obtain ⟨pre, l, post, c1, e, hp, ha, hno⟩ := (parseLines_first_failure o c _ out).mp ⟨h, ho⟩
      exact ⟨pre, l, post, c1, e, hp, (applyLine_fails_iff o c1 l out).mp ⟨ha, hno⟩⟩
  · rintro (⟨c', rfl, h⟩ | ⟨pre, l, post, c1, e, hp, hf⟩)
    · exact h
    · obtain ⟨ha, hno⟩ := (applyLine_fails_iff o c1 l out).mpr hf
      exact ((parseLines_first_failure o c _ out).mpr ⟨pre, l, post, c1, e, hp, ha, hno⟩).1

-- each named reason occurs
example : parse {} defaults (b!"port 7000\nhost 1.2.3\nport x") = .error (.hostInvalid (b!"127.0.0.1")) := by decide
example : parse {} defaults (b!"host 10.0.0.1\nhost 10.0.0.256") = .error (.hostInvalid (b!"10.0.0.1")) := by decide   -- the message names the PREVIOUS host
example : parse {} defaults (b!"port 1024") = .error (.portBounds 1024) := by decide
example : parse {} defaults (b!"port 65535") = .error (.portBounds 65535) := by decide
example : parse {} defaults (b!"port +7000x") = .error .portSyntax := by decide
example : parse {} defaults (b!"port 99999999999999999999x") = .error .portRange := by decide     -- the overflow is met before the junk
example : parse {} defaults (b!"shardnum many") = .panic .shardSyntax := by decide
example : parse {} defaults (b!"shardnum -9223372036854775809") = .panic .shardRange := by decide

/-! ## (e) comments and fields -/

/-- a line is a comment when its FIRST byte is `#` — whatever follows -/
theorem comment_column0 (o : Oracle) (c : Cfg) (rest : Bytes) : applyLine o c (35 :: rest) = .ok c := by
  simp [applyLine, directive]

/-- … and only then: `#` after white space starts an ordinary directive whose name begins with `#` -/
theorem indented_hash_is_directive : applyLine {} defaults (b!" #databases 3") = .ok { defaults with others := [(b!"#databases", b!"3")] } := by
  decide

example : parse {} defaults (b!" # databases 0") = .ok { defaults with others := [(b!"#", b!"databases")] } := by decide

/-- a directive needs two fields: a line with fewer changes nothing -/
theorem directive_none_of_short (o : Oracle) (l : Bytes) (h : (fields l).length < 2) : directive o l = none := by
  unfold directive
  split
  · rfl
  · split
    · rename_i n v r hf; exfalso; rw [hf] at h; simp only [List.length_cons] at h; omega
    · rfl

theorem needs_two_fields (o : Oracle) (c : Cfg) (l : Bytes) (h : (fields l).length < 2) : applyLine o c l = .ok c := by
  unfold applyLine
  rw [directive_none_of_short o l h]

example : applyLine {} defaults (b!"databases") = .ok defaults := needs_two_fields _ _ _ (by decide)
example : applyLine {} defaults (b!"   \t\r") = .ok defaults := needs_two_fields _ _ _ (by decide)

/-- fields after the second are ignored -/
theorem extra_fields_ignored (o : Oracle) (c : Cfg) (l1 l2 n v : Bytes) (r1 r2 : List Bytes)
    (h1 : fields l1 = n :: v :: r1) (h2 : fields l2 = n :: v :: r2) (c1 : l1.head? ≠ some 35) (c2 : l2.head? ≠ some 35) :
    applyLine o c l1 = applyLine o c l2 := by
  unfold applyLine directive
  rw [if_neg c1, if_neg c2, h1, h2]

example : applyLine {} defaults (b!"databases 4 # four") = applyLine {} defaults (b!"databases\t4") :=
  extra_fields_ignored _ _ _ _ (b!"databases") (b!"4") [b!"#", b!"four"] [] (by decide) (by decide) (by decide) (by decide)

theorem mapLower_ascii (lr : Nat → Nat) (s : Bytes) (h : ∀ b ∈ s, b.toNat < 128) : mapLower lr 0 s = s.map lowerAscii := by
  induction s with
  | nil => rfl
  | cons b s ih =>
    have hb := h b (by simp)
    simp only [mapLower, if_pos hb, List.map_cons]
    rw [ih (fun x hx => h x (by simp [hx]))]

/-- directive names are case-insensitive: two ASCII names that agree after lower-casing select the same `case` -/
theorem name_case_insensitive (o : Oracle) (n1 n2 : Bytes) (h1 : ∀ b ∈ n1, b.toNat < 128) (h2 : ∀ b ∈ n2, b.toNat < 128)
    (h : n1.map lowerAscii = n2.map lowerAscii) : keyOf (goToLower o n1) = keyOf (goToLower o n2) := by
  unfold goToLower
  rw [mapLower_ascii _ _ h1, mapLower_ascii _ _ h2, h]

example : keyOf (goToLower {} (b!"DataBases")) = .databases := by decide
example : keyOf (goToLower {} (b!"DATABASES")) = keyOf (goToLower {} (b!"databases")) :=
  name_case_insensitive _ _ _ (by decide) (by decide) (by decide)
-- not only ASCII: U+0130 lower-cases to `i` in Go, so `LOGDİR` is the `logdir` directive (the oracle is `unicode.ToLower`)
example : keyOf (goToLower { lowerRune := fun cp => if cp = 304 then 105 else cp } [76, 79, 71, 68, 0xC4, 0xB0, 82]) = .logdir := by decide

/-- the six ASCII white-space bytes -/
def asciiSpace (b : UInt8) : Bool := b == 9 || b == 10 || b == 11 || b == 12 || b == 13 || b == 32

theorem spaceLen_ascii (b : UInt8) (r : Bytes) (h : asciiSpace b = true) : spaceLen (b :: r) = 1 := by
  unfold asciiSpace at h
  unfold spaceLen
  simp only [Bool.or_eq_true] at h
  simp only [h, Bool.or_eq_true]
  rcases h with ((((h | h) | h) | h) | h) | h <;> simp [h]

theorem mem_flush (cur : Bytes) (rest : List Bytes) (f : Bytes) (h : f ∈ flush cur rest) : (cur ≠ [] ∧ f = cur.reverse) ∨ f ∈ rest := by
  unfold flush at h
  split at h
  · exact .inr h
  · rename_i hne
    rcases List.mem_cons.mp h with h | h
    · exact .inl ⟨by simpa using hne, h⟩
    · exact .inr h

theorem fieldsGo_clean (s : Bytes) : ∀ (k : Nat) (cur : Bytes), (∀ b ∈ cur, asciiSpace b = false) →
    ∀ f ∈ fieldsGo k cur s, f ≠ [] ∧ ∀ b ∈ f, asciiSpace b = false := by
  induction s with
  | nil =>
    intro k cur hc f hf
    simp only [fieldsGo] at hf
    rcases mem_flush _ _ _ hf with ⟨hne, rfl⟩ | h
    · exact ⟨by simpa using hne, fun b hb => hc b (by simpa using hb)⟩
    · cases h
  | cons c r ih =>
    intro k cur hc f hf
    cases k with
    | succ k => simp only [fieldsGo] at hf; exact ih k cur hc f hf
    | zero =>
      simp only [fieldsGo] at hf
      split at hf
      · rename_i h0
        refine ih 0 (c :: cur) ?_ f hf
        intro b hb
        rcases List.mem_cons.mp hb with rfl | hb
        · cases hs : asciiSpace b with
          | false => rfl
          | true => rw [spaceLen_ascii b r hs] at h0; cases h0
        · exact hc b hb
      · rename_i n hn
        rcases mem_flush _ _ _ hf with ⟨hne, rfl⟩ | h
        · exact ⟨by simpa using hne, fun b hb => hc b (by simpa using hb)⟩
        · exact ih n [] (by simp) f h

/-- what `strings.Fields` returns: no field is empty, none contains an ASCII white-space byte (so a value never carries the line end,
    a CR of a CRLF file, or a tab) -/
theorem fields_clean (s : Bytes) : ∀ f ∈ fields s, f ≠ [] ∧ ∀ b ∈ f, asciiSpace b = false :=
  fieldsGo_clean s 0 [] (by simp)

example : fields b!"  databases\t 4\r" = [b!"databases", b!"4"] := by decide
-- Unicode white space separates too (U+00A0, U+3000); U+200B (zero width space) does not
example : fields [100, 0xC2, 0xA0, 52, 0xE3, 0x80, 0x80, 53] = [[100], [52], [53]] := by decide
example : fields [100, 0xE2, 0x80, 0x8B, 52] = [[100, 0xE2, 0x80, 0x8B, 52]] := by decide

/-! ## strconv.Atoi -/

theorem parseUint_bound (s : Bytes) : ∀ acc n, parseUint acc s = .ok n → n < 2 ^ 64 ∨ (s = [] ∧ n = acc) := by
  induction s with
  | nil => intro acc n h; simp only [parseUint] at h; cases h; exact .inr ⟨rfl, rfl⟩
  | cons c r ih =>
    intro acc n h
    simp only [parseUint] at h
    split at h
    · split at h
      · cases h
      · rename_i hlt
        rcases ih _ n h with h' | ⟨_, rfl⟩
        · exact .inl h'
        · exact .inl (by omega)
    · cases h

/-- an accepted number is an int64 -/
theorem atoi_int64 (s : Bytes) (v : Int) (h : atoi s = .ok v) : -(2 ^ 63 : Int) ≤ v ∧ v < 2 ^ 63 := by
  unfold atoi at h
  cases s with
  | nil => cases h
  | cons c r =>
    simp only at h
    generalize (if (c == 43 || c == 45) = true then r else c :: r) = body at h
    by_cases hb : body.isEmpty = true
    · rw [if_pos hb] at h; cases h
    · rw [if_neg hb] at h
      cases hp : parseUint 0 body with
      | ok n =>
        rw [hp] at h; simp only at h
        by_cases hneg : (c == 45) = true
        · rw [if_pos hneg] at h
          by_cases h1 : n > 2 ^ 63
          · rw [if_pos h1] at h; cases h
          · rw [if_neg h1] at h; cases h; omega
        · rw [if_neg hneg] at h
          by_cases h1 : n ≥ 2 ^ 63
          · rw [if_pos h1] at h; cases h
          · rw [if_neg h1] at h; cases h; omega
      | syntaxErr => rw [hp] at h; cases h
      | rangeErr => rw [hp] at h; cases h

example : atoi b!"+007" = .ok 7 := by decide
example : atoi b!"-9223372036854775808" = .ok (-9223372036854775808) := by decide
example : atoi b!"9223372036854775808" = .rangeErr := by decide
example : atoi b!"18446744073709551616x" = .rangeErr := by decide      -- the 20th digit overflows before the junk is seen
example : atoi b!"18446744073709551615x" = .syntaxErr := by decide
example : atoi b!"+" = .syntaxErr := by decide
example : atoi b!"1_000" = .syntaxErr := by decide

end Config
