import RedisGoModel.Props.C06TString
import RedisGoModel.Props.C06TKeys
import RedisGoModel.Props.C06THash
import RedisGoModel.Props.C06TSet
import RedisGoModel.Props.C06TList
import RedisGoModel.Props.C06TZSet
/-! # C06 — "from the deadline on no command can observe an expired key", for the whole command table

Clause: *from the deadline on (to the clock's one-second granularity) no command can observe [an expired key] — reads see a missing
key and writes start from an empty one.*

Proved here for the model the correspondence driver runs (`Exec.exec`, i.e. lookup in `Exec.cmdTable` — all 77 commands: 24
string/key, 3 misc, 14 set, 14 hash, 16 list, 4 sorted-set, 2 stream — plus the empty and the unknown command):

* `c06_congruence` (= `C06Table_statement`): if two well-formed keyspaces have the same live view at `env.now` (`LiveEq`: they may
  differ arbitrarily in which *expired* entries are still physically present, and in physical order), then every command gives the
  same reply on both, and the resulting keyspaces are again well-formed with the same live view.
* `c06_expired_unobservable`: the instance `b := live a now` — running a command on the keyspace with the expired entries still
  present is indistinguishable from running it on the keyspace from which they have been removed.
* `LiveEq.mono` (expiry only removes more as the clock advances) and `c06_program_congruence`: the lift to programs whose clock
  readings do not decrease.

Structure: `C06TBase` (how `checkTTL`/`put`/`del`/`setVal` act on `Sim` and on physical agreement at a key, tactics), one module per
family with `CmdOk cmdX` for each command (`c_get`, …; key loops by induction; KEYS through "sorting forgets the input order"),
and the per-table theorems below; `exec` is connected to them through `List.find?` membership, so no command-name string is ever
evaluated.  No hypothesis beyond unique keys (`Db.WF`, preserved by every command — third conjunct). -/
namespace Exec.C06T
open Resp (Reply Bytes)
open Exec

/-- the full statement of the table-wide congruence -/
def C06Table_statement : Prop :=
  ∀ (env : Env) (a b : Db) (args : List Bytes), a.WF → b.WF → LiveEq env.now a b →
    (exec env a args).1 = (exec env b args).1 ∧ LiveEq env.now (exec env a args).2 (exec env b args).2 ∧ (exec env a args).2.WF

/-! ### every entry of every table -/

theorem string_ok : ∀ p ∈ stringKeyTable, CmdOk p.2 :=
  List.forall_mem_cons.mpr ⟨c_set, List.forall_mem_cons.mpr ⟨c_get, List.forall_mem_cons.mpr ⟨c_getrange, List.forall_mem_cons.mpr ⟨c_setrange, List.forall_mem_cons.mpr ⟨c_mget, List.forall_mem_cons.mpr ⟨c_mset, List.forall_mem_cons.mpr ⟨c_setex, List.forall_mem_cons.mpr ⟨c_setnx, List.forall_mem_cons.mpr ⟨c_strlen, List.forall_mem_cons.mpr ⟨c_incr, List.forall_mem_cons.mpr ⟨c_incrby, List.forall_mem_cons.mpr ⟨c_decr, List.forall_mem_cons.mpr ⟨c_decrby, List.forall_mem_cons.mpr ⟨c_incrbyfloat, List.forall_mem_cons.mpr ⟨c_append, List.forall_mem_cons.mpr ⟨c_ping, List.forall_mem_cons.mpr ⟨c_del, List.forall_mem_cons.mpr ⟨c_exists, List.forall_mem_cons.mpr ⟨c_keys, List.forall_mem_cons.mpr ⟨c_expire, List.forall_mem_cons.mpr ⟨c_persist, List.forall_mem_cons.mpr ⟨c_ttl, List.forall_mem_cons.mpr ⟨c_type, List.forall_mem_cons.mpr ⟨c_rename, fun _ h => nomatch h⟩⟩⟩⟩⟩⟩⟩⟩⟩⟩⟩⟩⟩⟩⟩⟩⟩⟩⟩⟩⟩⟩⟩⟩

theorem misc_ok : ∀ p ∈ miscTable, CmdOk p.2 :=
  List.forall_mem_cons.mpr ⟨c_publish, List.forall_mem_cons.mpr ⟨c_member, List.forall_mem_cons.mpr ⟨c_rconf, fun _ h => nomatch h⟩⟩⟩

theorem set_ok : ∀ p ∈ setTable, CmdOk p.2 :=
  List.forall_mem_cons.mpr ⟨c_sadd, List.forall_mem_cons.mpr ⟨c_srem, List.forall_mem_cons.mpr ⟨c_sismember, List.forall_mem_cons.mpr ⟨c_scard, List.forall_mem_cons.mpr ⟨c_smembers, List.forall_mem_cons.mpr ⟨c_smove, List.forall_mem_cons.mpr ⟨c_spop, List.forall_mem_cons.mpr ⟨c_srandmember, List.forall_mem_cons.mpr ⟨c_sunion, List.forall_mem_cons.mpr ⟨c_sinter, List.forall_mem_cons.mpr ⟨c_sdiff, List.forall_mem_cons.mpr ⟨c_sunionstore, List.forall_mem_cons.mpr ⟨c_sinterstore, List.forall_mem_cons.mpr ⟨c_sdiffstore, fun _ h => nomatch h⟩⟩⟩⟩⟩⟩⟩⟩⟩⟩⟩⟩⟩⟩

theorem hash_ok : ∀ p ∈ hashTable, CmdOk p.2 :=
  List.forall_mem_cons.mpr ⟨c_hset, List.forall_mem_cons.mpr ⟨c_hsetnx, List.forall_mem_cons.mpr ⟨c_hget, List.forall_mem_cons.mpr ⟨c_hmget, List.forall_mem_cons.mpr ⟨c_hgetall, List.forall_mem_cons.mpr ⟨c_hkeys, List.forall_mem_cons.mpr ⟨c_hvals, List.forall_mem_cons.mpr ⟨c_hlen, List.forall_mem_cons.mpr ⟨c_hexists, List.forall_mem_cons.mpr ⟨c_hstrlen, List.forall_mem_cons.mpr ⟨c_hdel, List.forall_mem_cons.mpr ⟨c_hincrby, List.forall_mem_cons.mpr ⟨c_hincrbyfloat, List.forall_mem_cons.mpr ⟨c_hrandfield, fun _ h => nomatch h⟩⟩⟩⟩⟩⟩⟩⟩⟩⟩⟩⟩⟩⟩

theorem list_ok : ∀ p ∈ listTable, CmdOk p.2 :=
  List.forall_mem_cons.mpr ⟨c_llen, List.forall_mem_cons.mpr ⟨c_lindex, List.forall_mem_cons.mpr ⟨c_lpos, List.forall_mem_cons.mpr ⟨c_lpop, List.forall_mem_cons.mpr ⟨c_rpop, List.forall_mem_cons.mpr ⟨c_lpush, List.forall_mem_cons.mpr ⟨c_lpushx, List.forall_mem_cons.mpr ⟨c_rpush, List.forall_mem_cons.mpr ⟨c_rpushx, List.forall_mem_cons.mpr ⟨c_lset, List.forall_mem_cons.mpr ⟨c_lrem, List.forall_mem_cons.mpr ⟨c_ltrim, List.forall_mem_cons.mpr ⟨c_lrange, List.forall_mem_cons.mpr ⟨c_lmove, List.forall_mem_cons.mpr ⟨c_blpop, List.forall_mem_cons.mpr ⟨c_brpop, fun _ h => nomatch h⟩⟩⟩⟩⟩⟩⟩⟩⟩⟩⟩⟩⟩⟩⟩⟩

theorem zset_ok : ∀ p ∈ zsetTable, CmdOk p.2 :=
  List.forall_mem_cons.mpr ⟨c_zadd, List.forall_mem_cons.mpr ⟨c_zrem, List.forall_mem_cons.mpr ⟨c_zrange, List.forall_mem_cons.mpr ⟨c_zrank, fun _ h => nomatch h⟩⟩⟩⟩

theorem stream_ok : ∀ p ∈ streamTable, CmdOk p.2 :=
  List.forall_mem_cons.mpr ⟨c_xadd, List.forall_mem_cons.mpr ⟨c_xrange, fun _ h => nomatch h⟩⟩

theorem table_ok : ∀ p ∈ cmdTable, CmdOk p.2 := by
  intro p hp
  unfold cmdTable at hp
  simp only [List.mem_append, or_assoc] at hp
  rcases hp with h | h | h | h | h | h | h
  · exact string_ok p h
  · exact misc_ok p h
  · exact set_ok p h
  · exact hash_ok p h
  · exact list_ok p h
  · exact zset_ok p h
  · exact stream_ok p h

/-- dispatch: whatever `exec` selects is a table entry (or one of the two fixed error replies) -/
theorem exec_ok : CmdOk fun env db args => exec env db args := by
  intro env a b args hs
  show Res env.now (exec env a args) (exec env b args)
  unfold exec
  split
  · c06_pair
  · split
    · rename_i c hc
      unfold lookupCmd at hc
      obtain ⟨p, hp, rfl⟩ := Option.map_eq_some_iff.mp hc
      exact table_ok p (List.mem_of_find?_eq_some hp) env a b _ hs
    · c06_pair

/-- **C06, table-wide**: no command of the table, reading or writing, can distinguish two keyspaces with the same live view -/
theorem c06_congruence : C06Table_statement := by
  intro env a b args ha hb hl
  have h := exec_ok env a b args ⟨ha, hb, hl⟩
  exact ⟨h.1, h.2.live, h.2.wfa⟩

theorem LiveEq.refl (now : Int) (a : Db) : LiveEq now a a := fun _ => rfl
theorem LiveEq.symm {now : Int} {a b : Db} (h : LiveEq now a b) : LiveEq now b a := fun k => (h k).symm
theorem LiveEq.trans {now : Int} {a b c : Db} (h : LiveEq now a b) (h' : LiveEq now b c) : LiveEq now a c :=
  fun k => (h k).trans (h' k)

/-- removing the expired entries gives a keyspace with the same live view -/
theorem liveEq_live (now : Int) (a : Db) : LiveEq now a (live a now) := by
  intro k; rw [live_idem]

/-- **expired entries are unobservable**: a command run on `a` answers as it does on `a` with every expired entry removed first,
    and leaves the same live view -/
theorem c06_expired_unobservable (env : Env) (a : Db) (args : List Bytes) (ha : a.WF) :
    (exec env a args).1 = (exec env (live a env.now) args).1 ∧
    LiveEq env.now (exec env a args).2 (exec env (live a env.now) args).2 :=
  let h := c06_congruence env a (live a env.now) args ha (live_wf ha _) (liveEq_live _ _)
  ⟨h.1, h.2.1⟩

/-! ### programs with a non-decreasing clock -/

theorem liveAt_mono {e : Entry} {now now' : Int} (h : now ≤ now') (hl : e.liveAt now' = true) : e.liveAt now = true := by
  unfold Entry.liveAt at *
  revert hl
  cases e.exp with
  | none => intro _; rfl
  | some d => simp only [decide_eq_true_eq]; omega

theorem vis_mono {now now' : Int} (h : now ≤ now') (o : Option Entry) :
    vis now' o = (vis now o).bind fun e => if e.liveAt now' then some e else none := by
  cases o with
  | none => rfl
  | some e =>
    simp only [vis, Option.bind_some]
    by_cases h1 : e.liveAt now' = true
    · simp [h1, liveAt_mono h h1]
    · by_cases h2 : e.liveAt now = true
      · simp [h2]
      · simp [h1, h2]

/-- expiry only removes more: live-equal keyspaces stay live-equal when the clock advances -/
theorem LiveEq.mono {now now' : Int} {a b : Db} (ha : a.WF) (hb : b.WF) (h : now ≤ now') (hl : LiveEq now a b) : LiveEq now' a b := by
  have hs : Sim now a b := ⟨ha, hb, hl⟩
  refine (Sim.of_vis (now := now') ha hb fun k => ?_).live
  rw [vis_mono h, vis_mono h, hs.visEq k]

/-- a program: each command with the environment (clock reading, observation, float bits) it is executed under -/
abbrev Prog := List (Env × List Bytes)

def runProg : Db → Prog → List Reply × Db
| db, [] => ([], db)
| db, (env, args) :: rest => ((exec env db args).1 :: (runProg (exec env db args).2 rest).1, (runProg (exec env db args).2 rest).2)

/-- the clock readings never go back (starting from `t`) -/
def ClockFrom : Int → Prog → Prop
| _, [] => True
| t, (env, _) :: rest => t ≤ env.now ∧ ClockFrom env.now rest

def endClock : Int → Prog → Int
| t, [] => t
| _, (env, _) :: rest => endClock env.now rest

/-- **C06 for programs**: two keyspaces live-equal at `t` give the same replies to every program whose clock starts at or after `t`
    and never goes back; the final keyspaces are well-formed and live-equal at the last clock reading -/
theorem c06_program_congruence : ∀ (prog : Prog) (t : Int) (a b : Db), a.WF → b.WF → LiveEq t a b → ClockFrom t prog →
    (runProg a prog).1 = (runProg b prog).1 ∧ LiveEq (endClock t prog) (runProg a prog).2 (runProg b prog).2 ∧
    (runProg a prog).2.WF ∧ (runProg b prog).2.WF
| [], _, _, _, ha, hb, hl, _ => ⟨rfl, hl, ha, hb⟩
| (env, args) :: rest, t, a, b, ha, hb, hl, hc => by
  have h := exec_ok env a b args ⟨ha, hb, LiveEq.mono ha hb hc.1 hl⟩
  have ih := c06_program_congruence rest env.now _ _ h.2.wfa h.2.wfb h.2.live hc.2
  unfold runProg endClock
  exact ⟨by rw [h.1, ih.1], ih.2⟩

/-- program form of `c06_expired_unobservable` -/
theorem c06_program_expired_unobservable (prog : Prog) (t : Int) (a : Db) (ha : a.WF) (hc : ClockFrom t prog) :
    (runProg a prog).1 = (runProg (live a t) prog).1 :=
  (c06_program_congruence prog t a (live a t) ha (live_wf ha _) (liveEq_live _ _) hc).1

/-! ### the hypotheses are satisfiable and the relation is not equality -/

def exA : Db := [([107], { val := .str [118], exp := some 5 }), ([108], { val := .list [[1]], exp := none })]
def exB : Db := [([108], { val := .list [[1]], exp := none })]

example : exA.WF ∧ exB.WF ∧ LiveEq 10 exA exB ∧ exA ≠ exB := by
  refine ⟨by unfold Db.WF; decide, by unfold Db.WF; decide, ?_, by decide⟩
  have : live exA 10 = exB := by decide
  intro k; rw [this]; rfl

example : ClockFrom 10 [({ now := 10 }, [[1]]), ({ now := 12 }, [[2]])] := by
  simp [ClockFrom]

end Exec.C06T
