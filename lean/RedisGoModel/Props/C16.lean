import RedisGoModel.Props.C16Seq
import RedisGoModel.Props.C16Snap
import RedisGoModel.Props.C16Cut
import RedisGoModel.Props.C16Torn
import RedisGoModel.Props.C16TornFile
import RedisGoModel.Props.C16Writer
import RedisGoModel.Props.C16Repair
import RedisGoModel.Props.C16Chain
import RedisGoModel.Props.C16WriterChain
/-! # C16 — WAL / snapshot crash- and corruption-recovery

    Model: Wal/Codec.lean (bytes of a frame), Wal/File.lean (segment files, `decodeRecord`, `recLoop`, `ReadAll`,
    `Verify`, `Repair`, snapshot files), Wal/Seq.lean (prefix-returning record loop), Wal/WalTorn.lean (sector-atomic
    crash model over an abstract codec).

    Proved (all kernel-checked, axioms propext / Classical.choice / Quot.sound only):

    * `WalCodec.single_byte_payload`, `WalCodec.single_byte_payload_decodeAll`, `WalCodec.corruptImage_eq_set`,
      and for the executable file-level reader `WalFile.single_byte_payload_file`,
      `WalFile.single_byte_payload_whole_file` — one changed payload byte ⇒ error at that record, exactly the earlier
      records returned;
    * `WalCodec.single_byte_padding`, `WalCodec.decodeFrame_padding`, `WalCodec.padding_decodeAll`
      — padding bytes are never looked at;
    * `WalFile.snap_roundtrip`, `WalFile.snap_single_byte_payload`, `WalFile.snap_fallback`,
      `WalFile.loadMatching_sound` — snapshot files;
    * `WalFile.readAll_roundtrip_cut` — the record stream of the file-level decoder across a segment cut;
      `WalFile.readAll_roundtrip_chain` — the same over any number of segment files;
      `WalFile.Writer.encode_bytes`, `WalFile.create_readback`, `WalFile.WInv.cut`, `WalFile.WInv.save`,
      `WalFile.writer_readback` — the writer model (`Create`, then any sequence of `Save` / `SaveSnapshot` with the
      `cut`s they trigger, PageWriter included) leaves exactly such a chain, which reads back as the records written,
      the entries handed to `Save` among them in order;
    * `WalTorn.torn_tail` (abstract codec whose `valid` sees the header; decoder loop with the end-of-file,
      max-entry-size and short-read tests), `WalTornC.torn_tail_concrete_partial` (the real frame layout),
      `WalTornC.recLoop_sim` (File.lean's `recLoop` simulates it), `WalTornC.torn_tail_file_partial` (torn tail for the
      executable reader), `WalTornC.repair_torn_tail_partial` (`Repair` succeeds, truncates at the last whole record, and
      the repaired file reads back cleanly), `WalTornC.isTornB_iff`, `WalTornC.image_bytes`, and non-vacuity instances.

    At the level of entries, hard state and snapshots (`ReadAll`'s dispatch, `Verify`, any metadata incl. nil, any
    `SaveOk` history; after a crash under `GNoCollision`): Props/C16ReadAll.lean and Props/C16Crash.lean, which import
    this file — `C16.readAll_written`, `readAll_entries` (+ the witness `readAll_entries_stale`), `readAll_hardstate`,
    `readAll_snapshot_match`, `verify_agrees_written`, `crash_readAll_prefix_partial`.

    The unconditional statement is kept below as `C16_statement`; it is *not* claimed — `C16_statement_false` refutes
    it — and `C16_partial` collects what is proved towards it. -/
namespace C16
open WalCodec WalFile WalTorn WalTornC

/-- `c` is `img` with the byte at one offset replaced -/
def SingleByte (img c : WalTorn.File) : Prop := ∃ k v, v < 256 ∧ c = fun o => if o = k then v else img o

/-- **The full, unconditional C16 statement**, on the executable reader. For every segment file `f` whose written image
    is the CRC record followed by the frames of `synced ++ unsynced` chained through the rolling CRC-32C, in a
    zero-filled preallocated file:
    (crash) after *any* subset of the 512-byte sectors above the synced end has been reverted, `recLoop` returns the
    CRC record, all synced records and a whole-record prefix of the unsynced ones and ends with EOF or the torn verdict
    (io.ErrUnexpectedEOF);
    (corruption) after *any* single byte of the image has been replaced, `recLoop` returns a prefix of the records
    written (and then stops or fails) — never anything that was not written.

    **This is FALSE as stated and is therefore NOT claimed** (`C16_statement_false`).
    * crash part: the CRC is 32 bits, so for records spanning several sectors there are payloads for which the record
      with some (not all) of its sectors zeroed still unmarshals and has the stored CRC (`NoCollision` fails);
    * corruption part: the CRC covers `Record.Data` only. A changed byte in the framing — the `Type` varint, the tag
      bytes, a length field whose new value still frames a valid record — is not detected by the decoder:
      `type_byte_undetected` exhibits a one-byte change after which a record with a different `Type` is returned, and
      `C16_statement_false` derives `¬ C16_statement` from it.
    What is proved instead: `C16_partial`. -/
def C16_statement : Prop :=
  ∀ (c0 : Nat) (synced unsynced : List Item) (f : Bytes) (fuel : Nat),
    c0 < 2 ^ 32 → ItemsOk synced → ItemsOk unsynced → synced.length + unsynced.length + 1 < fuel →
    endOff (fileFrames c0 (synced ++ unsynced)) 0 + 8 ≤ f.length →
    (Crash (image c0 (synced ++ unsynced)) (fileFn f) (endOff (fileFrames c0 synced) 0) →
      ∃ p rest, unsynced = p ++ rest ∧
        (recLoop fuel (Dec.open [f])).1 = crcRec c0 :: records crcUpdate c0 (synced ++ p) ∧
        ((recLoop fuel (Dec.open [f])).2.1 = .decEof ∨ (recLoop fuel (Dec.open [f])).2.1 = .decErr .ueof)) ∧
    (SingleByte (image c0 (synced ++ unsynced)) (fileFn f) →
      (recLoop fuel (Dec.open [f])).1 <+: crcRec c0 :: records crcUpdate c0 (synced ++ unsynced))

/-- a one-byte change outside `Data` that no CRC detects: the `Type` byte of an entry record (2 → 3). The decoder
    returns a record that was never written. (Evaluated by the kernel on the concrete CRC-32C.) -/
theorem type_byte_undetected :
    let img := encodeAll crcUpdate 0 [⟨2, [1]⟩] ++ List.replicate 8 0
    img[9]? = some 2 ∧ decodeAll crcUpdate 2 0 (img.set 9 3) = some [⟨3, [1]⟩] := by
  decide +kernel

/-! ### the refutation of `C16_statement` -/

theorem fileFn_set (l : Bytes) (k : Nat) (v : UInt8) (x : Nat) :
    fileFn (l.set k v) x = if x = k ∧ k < l.length then v.toNat else fileFn l x := by
  unfold fileFn toNats
  rw [List.map_set, List.getD_eq_getElem?_getD, List.getD_eq_getElem?_getD, List.getElem?_set]
  by_cases hx : k = x
  · subst hx
    by_cases hk : k < l.length
    · simp [hk]
    · simp [hk, List.getElem?_eq_none (Nat.le_of_not_lt hk)]
  · have : ¬ (x = k ∧ k < l.length) := fun h => hx h.1.symm
    simp [hx, this]

theorem fileFn_append_zeros (b : Bytes) (m : Nat) (x : Nat) : fileFn (b ++ List.replicate m 0) x = fileFn b x := by
  unfold fileFn toNats
  rw [List.getD_eq_getElem?_getD, List.getD_eq_getElem?_getD, List.map_append]
  by_cases hx : x < b.length
  · rw [List.getElem?_append_left (by simpa using hx)]
  · rw [List.getElem?_append_right (by simpa using Nat.le_of_not_lt hx),
      List.getElem?_eq_none (l := List.map UInt8.toNat b) (by simpa using Nat.le_of_not_lt hx)]
    simp only [List.map_replicate, List.length_map, Option.getD_none]
    by_cases h2 : x - b.length < m
    · simp [List.getElem?_replicate, h2]
    · simp [List.getElem?_replicate, h2]

def exItems : List Item := [⟨2, [1]⟩]
/-- the written file: CRC record, one entry frame, 16 bytes of preallocation -/
def exFile : Bytes := (encodeFrame (crcRec 0) ++ encodeAll crcUpdate 0 ([] ++ exItems)) ++ List.replicate 16 0
/-- … with offset 25, the `Type` byte of the entry frame, changed from 2 to 3 -/
def exFlip : Bytes := exFile.set 25 3

theorem exItems_ok : ItemsOk exItems := by
  intro it hit; simp only [exItems, List.mem_singleton] at hit; subst hit; exact ⟨⟨by decide, by decide⟩, by decide⟩

theorem exFlip_single : SingleByte (image 0 ([] ++ exItems)) (fileFn exFlip) := by
  refine ⟨25, 3, by decide, ?_⟩
  funext x
  have hlen : 25 < exFile.length := by decide +kernel
  rw [exFlip, fileFn_set, exFile, fileFn_append_zeros, image_bytes 0 (by decide) _ (by simpa using exItems_ok)]
  by_cases hx : x = 25
  · simp only [hx]
    rw [if_pos ⟨trivial, hlen⟩]; rfl
  · rw [if_neg (fun h => hx h.1), if_neg hx]; rfl

theorem exFlip_recLoop :
    ¬ ((recLoop 3 (Dec.open [exFlip])).1 <+: crcRec 0 :: records crcUpdate 0 ([] ++ exItems)) := by
  decide +kernel

/-- **`C16_statement` is false**: its corruption part fails for a changed `Type` byte (the CRC covers `Data` only), on
    the concrete CRC-32C, frame layout and executable reader. Hence it is not claimed; `C16_partial` is. -/
theorem C16_statement_false : ¬ C16_statement := by
  intro h
  have := (h 0 [] exItems exFlip 3 (by decide) (fun _ hx => by cases hx) exItems_ok (by decide)
    (by decide +kernel)).2 exFlip_single
  exact exFlip_recLoop this

/-! ### non-vacuity of the crash part on the executable reader -/

/-- the example of C16Torn.lean as a file: the synced frames survived, everything above (the unsynced entry) reverted -/
def exCrashFile : Bytes := (encodeFrame (crcRec 0) ++ encodeAll crcUpdate 0 exS) ++ List.replicate 88 0

theorem exCrashFile_crash : Crash (image 0 (exS ++ exU)) (fileFn exCrashFile) exP := by
  have hall : ItemsOk (exS ++ exU) := by
    intro it hit
    rcases List.mem_append.mp hit with h | h
    · exact ex_itemsOk_S it h
    · exact ex_itemsOk_U it h
  have hlen : (toNats (encodeFrame (crcRec 0) ++ encodeAll crcUpdate 0 exS)).length = exP := by decide +kernel
  refine ⟨?_, fun q => Or.inr ?_⟩
  · intro o ho
    rw [exCrashFile, fileFn_append_zeros, image_bytes 0 (by decide) _ hall, encodeAll_append, ← List.append_assoc,
      toNats_append]
    unfold fileFn
    rw [getD_append_left _ _ _ (by rw [hlen]; exact ho)]
  · intro o _ hP
    rw [exCrashFile, fileFn_append_zeros]
    unfold fileFn
    rw [List.getD_eq_getElem?_getD, List.getElem?_eq_none (by rw [hlen]; exact hP)]
    rfl

/-- **non-vacuity** of `torn_tail_file_partial` / `C16_partial` (1): all hypotheses (`NoCollision` included) hold for
    this file, and `recLoop` returns the CRC record and the synced entry -/
example : ∃ p rest, exU = p ++ rest ∧
    (recLoop 4 (Dec.open [exCrashFile])).1 = crcRec 0 :: records crcUpdate 0 (exS ++ p) ∧
    ((recLoop 4 (Dec.open [exCrashFile])).2.1 = .decEof ∨ (recLoop 4 (Dec.open [exCrashFile])).2.1 = .decErr .ueof) ∧
    (recLoop 4 (Dec.open [exCrashFile])).2.2.off = endOff (fileFrames 0 (exS ++ p)) 0 :=
  torn_tail_file_partial 0 (by decide) exS exU ex_itemsOk_S ex_itemsOk_U exCrashFile
    (by rw [exP_eq]; exact exCrashFile_crash) (by rw [exP_eq]; exact ex_noCollision) (by decide +kernel) 4 (by decide)

/-- **What is proved of C16** (partial), both parts on the executable reader `recLoop` of File.lean.
    (1) crash part *under `NoCollision`* (missing: the hypothesis itself — false in general for a 32-bit CRC —, reverting
        to older non-zero content instead of zeros, a torn tail spanning a chain of files);
    (2) corruption part *for a byte inside some record's `Data`* (missing: bytes of the framing — refuted for the `Type`
        byte by `C16_statement_false`; padding bytes are covered by `single_byte_padding`: nothing changes): the CRC
        record and the records before the damaged one are returned and the loop ends with a decoder error
        (`ErrCRCMismatch`, or `io.ErrUnexpectedEOF` when the torn-entry rule applies to the damaged frame). -/
theorem C16_partial :
    (∀ (c0 : Nat) (synced unsynced : List Item) (f : Bytes) (fuel : Nat),
      c0 < 2 ^ 32 → ItemsOk synced → ItemsOk unsynced → synced.length + unsynced.length + 1 < fuel →
      endOff (fileFrames c0 (synced ++ unsynced)) 0 + 8 ≤ f.length →
      NoCollision (endOff (fileFrames c0 synced) 0) (crcAfter crcUpdate c0 synced) unsynced →
      Crash (image c0 (synced ++ unsynced)) (fileFn f) (endOff (fileFrames c0 synced) 0) →
      ∃ p rest, unsynced = p ++ rest ∧
        (recLoop fuel (Dec.open [f])).1 = crcRec c0 :: records crcUpdate c0 (synced ++ p) ∧
        ((recLoop fuel (Dec.open [f])).2.1 = .decEof ∨ (recLoop fuel (Dec.open [f])).2.1 = .decErr .ueof) ∧
        (recLoop fuel (Dec.open [f])).2.2.off = endOff (fileFrames c0 (synced ++ p)) 0) ∧
    (∀ (c0 : Nat) (pre : List Item) (ty : Nat) (dpre : Bytes) (x y : UInt8) (dsuf : Bytes) (post : List Item)
      (tail : Bytes) (fuel : Nat), c0 < 2 ^ 32 → x ≠ y → ItemsOk pre → ItemOk ⟨ty, dpre ++ x :: dsuf⟩ → ty ≠ crcType →
      ∃ e d', recLoop (pre.length + (fuel + 1) + 1)
          (Dec.open [encodeFrame (crcRec c0) ++ corruptImage c0 pre ty dpre x y dsuf post tail]) =
            (crcRec c0 :: records crcUpdate c0 pre, .decErr e, d') ∧ (e = .crc ∨ e = .ueof)) := by
  refine ⟨?_, ?_⟩
  · intro c0 synced unsynced f fuel hc0 hs hu hf hsize hnc hcr
    exact torn_tail_file_partial c0 hc0 synced unsynced hs hu f hcr hnc hsize fuel hf
  · intro c0 pre ty dpre x y dsuf post tail fuel hc hxy hpre hit hty
    obtain ⟨e, d', h1, h2, _⟩ := single_byte_payload_whole_file c0 hc pre ty dpre x y dsuf post tail hxy hpre hit hty fuel
    exact ⟨e, d', h1, h2⟩

#print axioms C16_statement_false
#print axioms type_byte_undetected
#print axioms C16_partial
end C16
