import RedisGoModel.Raft.RHC
import RedisGoModel.Props.C15ConfSafe

/-! C15 Stage D, step 4: what is PROVED about the config-aware executable handler `RHC.handleC` (the function the lock-step driver
    replays the `member` / `member-partition` schedules on), relative to the protocol model `RSC` whose safety is `C15_conf_holds`.

    Proved here — the two decisions that read the configuration, and the configuration-specific inputs:
    * `wonVotesC_quorum`: a won tally exhibits a set `Q` with `RSC.IsQuorumC (cfg) Q` all of whose members are recorded as granted —
      the quorum hypothesis of `CStep.becomeLeader`;
    * `qidxC_quorum`, `maybeCommitC_spec`: `maybeCommitC` either changes nothing or moves the commit index to a `k` above it, inside
      the log, whose entry has the current term, and exhibits `Q` with `IsQuorumC (cfg) Q` and `k ≤ match[j]` on `Q` — the quorum
      hypothesis of `CStep.advanceCommit`;
    * `hup_step`: when the handler campaigns, `CStep.timeout` is enabled (its three guards hold) and leads to the handler's node;
      `hup_refused`: when it does not, the node is unchanged;
    * `prop_step`: one proposed payload on a leader with a `Progress` is `CStep.propose` (gate, replaced entry, `pendingConfIndex`);
      `gateSeq_cons`: a proposal message with several payloads is the single-payload gate, one after the other;
    * `apply_step` / `applyOneC_spec`: applying one entry is `CStep.apply`, after which — only for a conf-change entry on a leader that
      keeps a voter/learner `Progress` — one `maybeCommitC` under the NEW configuration; term, vote, role, log are untouched;
    * `restart_step`: `restart a` with `a ≤ applied` is `CStep.restart`.

    NOT proved (what remains for `RHC.run_safe`): the handler-level simulation relation of `Raft/RL1.lean` (`R`, `sim`, 22 cases) and
    `RH.handle_in_Step1` re-done over `RSC.CStep` instead of `RS.Step`.  20 of the 22 `Step1` cases do not look at a quorum and carry
    over with `applied`/`pend` agreement added (`Agree` below); the two that do (`win`, `commitQ`) need exactly `wonVotesC_quorum` and
    `maybeCommitC_spec` plus RL1's backing of `votes[]`/`match[]` by `rvResp` messages / recorded acks; the dropped responses
    (`RHC.dropped`), the forgotten `match[]` of removed ids (`applyOneC`) and the "not in the ConfState" snapshot test only remove behaviours.
    Until then membership schedules are covered by: `C15_conf_holds` for the model, the theorems here for the handler's decisions, and
    the lock-step equality `RawNode = handleC` measured on every event of the member schedules. -/
namespace RHC
open RS RSC

variable {N : Nat}

theorem quorumB_spec {c : RQJ.Config} {p : Fin N → Bool} (h : quorumB c p = true) :
    ∃ Q : Finset (Fin N), IsQuorumC c Q ∧ ∀ j ∈ Q, p j = true :=
  ⟨Finset.univ.filter fun j => p j = true, of_decide_eq_true h, fun _ hj => (Finset.mem_filter.1 hj).2⟩

/-- a won vote tally is a quorum of granted votes under the configuration it was counted in -/
theorem wonVotesC_quorum {c : RQJ.Config} {n : Node1 N} (h : wonVotesC c n = true) :
    ∃ Q : Finset (Fin N), IsQuorumC c Q ∧ ∀ j ∈ Q, n.votes j = some true := by
  obtain ⟨Q, hq, hQ⟩ := quorumB_spec h
  exact ⟨Q, hq, fun j hj => by simpa using hQ j hj⟩

theorem qidxC_quorum (c : RQJ.Config) (f : Fin N → Nat) :
    qidxC c f = 0 ∨ quorumB c (fun j => decide (qidxC c f ≤ f j)) = true := by
  unfold qidxC
  generalize (List.finRange N).map f = l
  have : ∀ acc, (acc = 0 ∨ quorumB c (fun j => decide (acc ≤ f j)) = true) →
      (l.foldl (fun acc k => if quorumB c (fun j => decide (k ≤ f j)) then max acc k else acc) acc = 0 ∨
       quorumB c (fun j => decide
         (l.foldl (fun acc k => if quorumB c (fun j => decide (k ≤ f j)) then max acc k else acc) acc ≤ f j)) = true) := by
    induction l with
    | nil => intro acc h; exact h
    | cons k l ih =>
      intro acc h
      simp only [List.foldl_cons]
      apply ih
      split
      · rename_i hk
        rcases Nat.le_total acc k with hle | hle
        · rw [Nat.max_eq_right hle]; exact Or.inr hk
        · rw [Nat.max_eq_left hle]; exact h
      · exact h
  exact this 0 (Or.inl rfl)

/-- `maybeCommitC` changes at most the commit index, and only on the strength of a quorum of the configuration -/
theorem maybeCommitC_spec (c : RQJ.Config) (n : Node1 N) :
    maybeCommitC c n = n ∨
    ∃ k, maybeCommitC c n = { n with commit := k } ∧ n.commit < k ∧ k ≤ n.log.length ∧ termAt n.log k = n.term ∧
      ∃ Q : Finset (Fin N), IsQuorumC c Q ∧ ∀ j ∈ Q, k ≤ n.matchI j := by
  unfold maybeCommitC
  split
  · rename_i h
    right
    obtain ⟨h1, h2, h3⟩ := h
    rcases qidxC_quorum c n.matchI with h0 | hq
    · omega
    · obtain ⟨Q, hQ, hall⟩ := quorumB_spec hq
      exact ⟨_, rfl, h1, h2, h3, Q, hQ, fun j hj => by simpa using hall j hj⟩
  · exact Or.inl rfl

/-- node `i` of the protocol state `cs` is the handler's node `x` -/
structure Agree (cs : CSys N) (i : Fin N) (x : NodeC N) : Prop where
  node : cs.base.nodes i = projNode x.n
  applied : cs.applied i = x.applied
  pend : cs.pend i = x.pend

theorem Agree.cfg {c0 : RQJ.Config} {cs : CSys N} {i : Fin N} {x : NodeC N} (ag : Agree cs i x) : cfg c0 cs i = cfgOf c0 x := by
  unfold RSC.cfg cfgOf; rw [ag.node, ag.applied]; rfl

theorem Agree.flags {cs : CSys N} {i : Fin N} {x : NodeC N} (ag : Agree cs i x) : pendingFlags cs i = pendingFlagsC x := by
  unfold pendingFlags pendingFlagsC; rw [ag.node, ag.applied]; rfl

/-- a campaign of the handler is the `timeout` step of the protocol model: its guards hold -/
theorem hup_step {c0 : RQJ.Config} {cs : CSys N} {i : Fin N} {x : NodeC N} (ag : Agree cs i x)
    (hg : campaignGate (decide (x.n.role = .leader)) (nid i) (cfgOf c0 x) (pendingFlagsC x) = true) :
    ∃ cs', CStep c0 .other cs cs' ∧ Agree cs' i { x with n := campaign x.n i, pend := 0 } := by
  have hrole : (cs.base.nodes i).role = x.n.role := by rw [ag.node]; rfl
  have hg' : campaignGate (decide ((cs.base.nodes i).role = .leader)) (nid i) (cfg c0 cs i) (pendingFlags cs i) = true := by
    rw [hrole, ag.cfg, ag.flags]; exact hg
  obtain ⟨h1, h2, h3⟩ := (campaignGate_iff c0 cs i).1 hg'
  refine ⟨_, CStep.timeout cs i h1 h2 h3, ⟨?_, ag.applied, by simp⟩⟩
  simp [doTimeout, ag.node, projNode, campaign]

theorem hup_refused {c0 : RQJ.Config} {i : Fin N} {x : NodeC N}
    (hg : campaignGate (decide (x.n.role = .leader)) (nid i) (cfgOf c0 x) (pendingFlagsC x) = false) :
    handleC c0 i x .hup = (x, []) := by
  simp [handleC, hg]

theorem gateSeq_cons (applied pend last v : Nat) (vs : List Nat) :
    gateSeq applied pend last (v :: vs) =
      ((gateB applied pend v) :: (gateSeq applied (if isConfData (gateB applied pend v) then last + 1 else pend) (last + 1) vs).1,
       (gateSeq applied (if isConfData (gateB applied pend v) then last + 1 else pend) (last + 1) vs).2) := rfl

/-- one proposed payload on a leader that has a `Progress` is the `propose` step of the protocol model -/
theorem prop_step {c0 : RQJ.Config} {cs : CSys N} {i : Fin N} {x : NodeC N} (ag : Agree cs i x) (v : Nat)
    (hl : x.n.role = .leader) (hp : hasProg (cfgOf c0 x) i = true) :
    CStep c0 .other cs (cPropose cs i v) ∧ Agree (cPropose cs i v) i (handleC c0 i x (.prop [v])).1 := by
  have hrole : (cs.base.nodes i).role = .leader := by rw [ag.node]; exact hl
  refine ⟨CStep.propose cs i v hrole, ?_⟩
  have hgate : gate cs i v = gateB x.applied x.pend v := by unfold gate; rw [ag.applied, ag.pend]
  have hlen : (cs.base.nodes i).log.length = x.n.log.length := by rw [ag.node]; rfl
  simp only [handleC]
  rw [if_pos ⟨hl, hp⟩, gateSeq_single]
  refine ⟨?_, ag.applied, ?_⟩
  · simp [cPropose, doClientReq, ag.node, projNode, hgate]
  · simp [cPropose, hgate, hlen, ag.pend]

/-- `restart a` is the `restart` step of the protocol model -/
theorem restart_step {c0 : RQJ.Config} {cs : CSys N} {i : Fin N} {x : NodeC N} (ag : Agree cs i x) (a : Nat) (ha : a ≤ x.applied) :
    ∃ cs', CStep c0 .other cs cs' ∧ Agree cs' i (handleC c0 i x (.restart a)).1 := by
  refine ⟨_, CStep.restart cs i a (by rw [ag.applied]; exact ha), ⟨?_, by simp [handleC], by simp [handleC]⟩⟩
  simp [handleC, doRestart, ag.node, projNode, stepDownN]

/-- applying one entry is the `apply` step of the protocol model -/
theorem apply_step {c0 : RQJ.Config} {cs : CSys N} {i : Fin N} {x : NodeC N} (ag : Agree cs i x) (h : x.applied < x.n.commit) :
    ∃ cs', CStep c0 .other cs cs' ∧ Agree cs' i { x with applied := x.applied + 1 } := by
  have hc : (cs.base.nodes i).commit = x.n.commit := by rw [ag.node]; rfl
  refine ⟨_, CStep.apply cs i (by rw [ag.applied, hc]; exact h), ⟨ag.node, by simp [ag.applied], ag.pend⟩⟩

/-- … after which the handler does nothing else, except for a conf-change entry on a leader: one `maybeCommitC` under the NEW
    configuration (and `match[]` of ids that lost their `Progress` is forgotten). Term, vote, role, lead, log never change. -/
theorem applyOneC_spec (c0 : RQJ.Config) (i : Fin N) (x : NodeC N) :
    (applyOneC c0 i x).applied = x.applied + 1 ∧ (applyOneC c0 i x).pend = x.pend ∧
    (applyOneC c0 i x).n.term = x.n.term ∧ (applyOneC c0 i x).n.vote = x.n.vote ∧ (applyOneC c0 i x).n.role = x.n.role ∧
    (applyOneC c0 i x).n.log = x.n.log ∧
    ((applyOneC c0 i x).n.commit = x.n.commit ∨
      ∃ k, (applyOneC c0 i x).n.commit = k ∧ x.n.commit < k ∧ k ≤ x.n.log.length ∧ termAt x.n.log k = x.n.term ∧
        x.n.role = .leader ∧ confAt x.n.log (x.applied + 1) = true ∧
        ∃ Q : Finset (Fin N), IsQuorumC (cfgAt c0 x.n.log (x.applied + 1)) Q ∧ ∀ j ∈ Q, k ≤ x.n.matchI j) := by
  unfold applyOneC
  by_cases hconf : confAt x.n.log (x.applied + 1) = true
  · simp only [hconf, if_true]
    split
    · rename_i hl
      rcases maybeCommitC_spec (cfgOf c0 ⟨x.n, x.applied + 1, x.pend⟩)
          ⟨x.n.term, x.n.vote, x.n.role, x.n.lead, x.n.log, x.n.commit, x.n.votes,
            fun j => if hasProg (cfgOf c0 ⟨x.n, x.applied + 1, x.pend⟩) j then x.n.matchI j else 0⟩ with e | ⟨k, e, h1, h2, h3, Q, hQ, hall⟩
      · simp only [e]; exact ⟨trivial, trivial, trivial, trivial, trivial, trivial, Or.inl trivial⟩
      · simp only [e]
        refine ⟨trivial, trivial, trivial, trivial, trivial, trivial, Or.inr ⟨k, rfl, h1, h2, h3, hl.1, trivial, Q, hQ, fun j hj => ?_⟩⟩
        have := hall j hj
        simp only at this
        split at this
        · exact this
        · omega
    · exact ⟨rfl, rfl, rfl, rfl, rfl, rfl, Or.inl rfl⟩
  · simp only [hconf]
    simp

#print axioms wonVotesC_quorum
#print axioms maybeCommitC_spec
#print axioms hup_step
#print axioms prop_step
#print axioms apply_step
#print axioms applyOneC_spec
#print axioms restart_step
end RHC
