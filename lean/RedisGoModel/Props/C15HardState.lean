import RedisGoModel.Raft.RH
/-! # C15 — the persisted hard state (term, vote, commit) never regresses along runs of the executable handler

`Raft/RH.lean`: `RS.handle` is the executable handler the lock-step engine runs against etcd's `RawNode`; `RS.Run` are the states
reached from `init1` by handler calls (any node, any input — `hup`, `prop`, `selfAck`, `beat`, `restart`, `recv` of any message that
was emitted — in any order: every schedule, restarts included).  The per-node statement "the persisted vote never regresses" was so far
only a conjunct of the L0 invariant `Inv0` (vote durability within a term).  Exported here as theorems about `handle` itself:

* `HardLe a b` — `b`'s hard state does not regress from `a`'s: `a.term ≤ b.term`; if the term is the same, a vote cast in `a` is the
  vote in `b` (so the vote changes from `some c` to anything else only together with a term increase; `none → some c` within a term is
  the grant); `a.commit ≤ b.commit`.  Reflexive and transitive.
* `handle_hardstate_monotone` — ONE call: `HardLe n (handle i n inp).1` for every node state, node id and input.  No hypothesis.
* `handle_restart_keeps_hardstate` — the restart rule of `handle`: `restart` keeps term, vote, log AND commit (etcd persists
  `HardState.Commit`; `RawNode` restarts from it) and loses role, lead, the vote tally and the match indexes.
* **`run_hardstate_monotone`** — along every run (`RunTo s s'`: `s'` is reached from `s` by handler calls; `run_iff_runTo`: `Run s ↔
  RunTo (init1 N) s`), for every node: `HardLe (s.nodes i) (s'.nodes i)`.  Corollaries `run_term_monotone`, `run_vote_stable`,
  `run_commit_monotone`, `run_vote_change_needs_term`.
* `RunToC` adds the crash that `handle` does not have: a node comes back as `stepDownN` with commit index `min commit c` (what was on
  disk may be older than what was in memory — the crash of `Props/C08Restart.lean`, here at handler level).
  `runC_term_vote_monotone`: term and vote-within-a-term still never regress; `crash_commit`: the commit index drops at a crash step
  only, to `min commit c`, at the crashed node only (every `call` step keeps `HardLe`: `runC_call_hardle`).

That the implementation's persisted hard state behaves like this is the tie of C08 (`readyloop` oracle E5,
`ReadyLoop.C08Ready.persisted_hard_state_never_regresses`) and of the C15 lock-step engine (projection incl. term, vote, commit). -/
namespace RS
variable {N : Nat}

/-- the hard state of `b` does not regress from that of `a` -/
def HardLe (a b : Node1 N) : Prop :=
  a.term ≤ b.term ∧ (a.term = b.term → ∀ c, a.vote = some c → b.vote = some c) ∧ a.commit ≤ b.commit

theorem HardLe.refl (a : Node1 N) : HardLe a a := ⟨Nat.le_refl _, fun _ _ h => h, Nat.le_refl _⟩

theorem HardLe.trans {a b c : Node1 N} (h1 : HardLe a b) (h2 : HardLe b c) : HardLe a c := by
  refine ⟨Nat.le_trans h1.1 h2.1, fun e x hx => ?_, Nat.le_trans h1.2.2 h2.2.2⟩
  have e1 : a.term = b.term := Nat.le_antisymm h1.1 (e ▸ h2.1)
  exact h2.2.1 (e1 ▸ e) x (h1.2.1 e1 x hx)

/-- same term, vote and commit (role, lead, log, tallies may differ) -/
theorem HardLe.of_same {a b : Node1 N} (ht : b.term = a.term) (hv : b.vote = a.vote) (hc : b.commit = a.commit) : HardLe a b :=
  ⟨by omega, fun _ c h => by rw [hv]; exact h, by omega⟩

/-- same term and vote, commit not smaller -/
theorem HardLe.of_commit {a b : Node1 N} (ht : b.term = a.term) (hv : b.vote = a.vote) (hc : a.commit ≤ b.commit) : HardLe a b :=
  ⟨by omega, fun _ c h => by rw [hv]; exact h, hc⟩

/-- a strictly higher term, commit kept -/
theorem HardLe.of_term {a b : Node1 N} (ht : a.term < b.term) (hc : b.commit = a.commit) : HardLe a b :=
  ⟨by omega, fun e => by omega, by omega⟩

theorem hardLe_maybeCommit (n : Node1 N) : HardLe n (maybeCommit n) := by
  unfold maybeCommit
  split
  · rename_i h
    exact HardLe.of_commit rfl rfl (Nat.le_of_lt h.1)
  · exact HardLe.refl n

theorem hardLe_handleSame (i : Fin N) (n : Node1 N) (m : Msg1 N) : HardLe n (handleSame i n m).1 := by
  cases m with
  | vote t c d li lt =>
    simp only [handleSame]
    split
    · rename_i h
      refine ⟨Nat.le_refl _, fun _ x hx => ?_, Nat.le_refl _⟩
      rcases h.1 with hv | ⟨hv, _⟩
      · rw [hv] at hx; exact hx
      · rw [hv] at hx; cases hx
    · exact HardLe.refl n
  | voteResp t src d rej =>
    simp only [handleSame]
    split
    · split
      · exact HardLe.of_same rfl rfl rfl
      · split
        · exact HardLe.of_same rfl rfl rfl
        · exact HardLe.of_same rfl rfl rfl
    · exact HardLe.refl n
  | app t src d prev pt ents cm =>
    simp only [handleSame]
    split
    · exact HardLe.refl n
    · split
      · exact HardLe.of_same rfl rfl rfl
      · split
        · exact HardLe.of_commit rfl rfl (Nat.le_max_left _ _)
        · exact HardLe.of_same rfl rfl rfl
  | appResp t src d idx rej =>
    simp only [handleSame]
    split
    · exact (HardLe.of_same (a := n) (b := ackN n src idx) rfl rfl rfl).trans (hardLe_maybeCommit _)
    · exact HardLe.refl n
  | hb t src d c =>
    simp only [handleSame]
    split
    · exact HardLe.refl n
    · exact HardLe.of_commit rfl rfl (Nat.le_max_left _ _)
  | snap t src d k ents =>
    simp only [handleSame]
    split
    · exact HardLe.refl n
    · split
      · exact HardLe.of_same rfl rfl rfl
      · rename_i hk
        exact HardLe.of_commit rfl rfl (by show n.commit ≤ k; omega)

/-- **one call of the executable handler never lets the hard state regress** — every node state, every input -/
theorem handle_hardstate_monotone (i : Fin N) (n : Node1 N) (inp : Input N) : HardLe n (handle i n inp).1 := by
  cases inp with
  | hup =>
    simp only [handle]
    split
    · exact HardLe.refl n
    · split
      · exact HardLe.of_term (by show n.term < n.term + 1; omega) rfl
      · exact HardLe.of_term (by show n.term < n.term + 1; omega) rfl
  | prop v =>
    simp only [handle]
    split
    · exact HardLe.of_same rfl rfl rfl
    · exact HardLe.refl n
  | selfAck =>
    simp only [handle]
    split
    · exact (HardLe.of_same (a := n) (b := ackN n i n.log.length) rfl rfl rfl).trans (hardLe_maybeCommit _)
    · exact HardLe.refl n
  | beat => exact HardLe.refl n
  | snapStatus src failed => exact HardLe.refl n
  | unreachable src => exact HardLe.refl n
  | restart => exact HardLe.of_same rfl rfl rfl
  | recv m =>
    simp only [handle]
    split
    · exact HardLe.refl n
    · split
      · rename_i h
        exact (HardLe.of_term (a := n) (b := bump n m.term m.leadHint) h rfl).trans (hardLe_handleSame i _ m)
      · exact hardLe_handleSame i n m

/-- **the restart rule of `handle`**: the whole persisted state — term, vote, log and commit — is kept; role, lead, the vote tally and
    the match indexes are lost -/
theorem handle_restart_keeps_hardstate (i : Fin N) (n : Node1 N) :
    (handle i n .restart).1.term = n.term ∧ (handle i n .restart).1.vote = n.vote ∧ (handle i n .restart).1.log = n.log ∧
    (handle i n .restart).1.commit = n.commit ∧ (handle i n .restart).1.role = .follower ∧ (handle i n .restart).1.lead = none :=
  ⟨rfl, rfl, rfl, rfl, rfl, rfl⟩

/-! ### runs -/

/-- a `call` step keeps the whole hard state of every node -/
theorem runC_call_hardle (s : Sys1 N) (j : Fin N) (inp : Input N) (i : Fin N) :
    HardLe (s.nodes i) (upd1 s.nodes j (handle j (s.nodes j) inp).1 i) := by
  by_cases hj : i = j
  · subst hj; rw [upd1_same]; exact handle_hardstate_monotone i _ inp
  · rw [upd1_other _ _ hj]; exact HardLe.refl _


/-- `s'` is reached from `s` by handler calls (the constructor of `Run`, from an arbitrary start) -/
inductive RunTo : Sys1 N → Sys1 N → Prop
| refl (s : Sys1 N) : RunTo s s
| call {s s' : Sys1 N} (i : Fin N) (inp : Input N) (outs : List (Msg1 N)) : RunTo s s' → enabled s' i inp →
    (∀ m ∈ outs, m ∈ (handle i (s'.nodes i) inp).2 ∨ leaderOut (handle i (s'.nodes i) inp).1 i m) →
    RunTo s ⟨upd1 s'.nodes i (handle i (s'.nodes i) inp).1, fun m => s'.net m ∨ m ∈ outs⟩

theorem RunTo.trans {a b c : Sys1 N} (h1 : RunTo a b) (h2 : RunTo b c) : RunTo a c := by
  induction h2 with
  | refl => exact h1
  | call i inp outs _ hen hout ih => exact .call i inp outs ih hen hout

theorem run_of_runTo {s s' : Sys1 N} (r : Run s) (h : RunTo s s') : Run s' := by
  induction h with
  | refl => exact r
  | call i inp outs _ hen hout ih => exact .call i inp outs ih hen hout

/-- `Run` is `RunTo` from the initial state -/
theorem run_iff_runTo (s : Sys1 N) : Run s ↔ RunTo (init1 N) s := by
  constructor
  · intro r
    induction r with
    | init => exact .refl _
    | call i inp outs _ hen hout ih => exact .call i inp outs ih hen hout
  · exact run_of_runTo .init

/-- **along every run of the executable handler — any schedule, any inputs, restarts included — no node's hard state regresses**:
    the term never decreases, within a term a cast vote stays, the commit index never decreases -/
theorem run_hardstate_monotone {s s' : Sys1 N} (h : RunTo s s') (i : Fin N) : HardLe (s.nodes i) (s'.nodes i) := by
  induction h with
  | refl => exact HardLe.refl _
  | @call s2 j inp outs _ _ _ ih => exact ih.trans (runC_call_hardle s2 j inp i)

theorem run_term_monotone {s s' : Sys1 N} (h : RunTo s s') (i : Fin N) : (s.nodes i).term ≤ (s'.nodes i).term :=
  (run_hardstate_monotone h i).1

theorem run_commit_monotone {s s' : Sys1 N} (h : RunTo s s') (i : Fin N) : (s.nodes i).commit ≤ (s'.nodes i).commit :=
  (run_hardstate_monotone h i).2.2

/-- a vote cast in a term is the node's vote for as long as it is in that term -/
theorem run_vote_stable {s s' : Sys1 N} (h : RunTo s s') (i : Fin N) (c : Fin N) (hv : (s.nodes i).vote = some c)
    (ht : (s'.nodes i).term = (s.nodes i).term) : (s'.nodes i).vote = some c :=
  (run_hardstate_monotone h i).2.1 ht.symm c hv

/-- **the vote changes only with a term increase**: a node that had voted and now shows another vote (or none) is in a higher term -/
theorem run_vote_change_needs_term {s s' : Sys1 N} (h : RunTo s s') (i : Fin N) (c : Fin N) (hv : (s.nodes i).vote = some c)
    (hne : (s'.nodes i).vote ≠ some c) : (s.nodes i).term < (s'.nodes i).term := by
  have hm := run_hardstate_monotone h i
  rcases Nat.lt_or_ge (s.nodes i).term (s'.nodes i).term with hlt | hge
  · exact hlt
  · exact absurd (hm.2.1 (Nat.le_antisymm hm.1 hge) c hv) hne

/-- from the initial state: every reachable state's hard state is at or above any earlier one's; in particular above the initial one -/
theorem run_hardstate_from_init {s : Sys1 N} (r : Run s) (i : Fin N) : HardLe ((init1 N).nodes i) (s.nodes i) :=
  run_hardstate_monotone ((run_iff_runTo s).mp r) i

/-! ### with crashes that lose an unpersisted part of the commit index -/

/-- what a crash leaves of a node: the persisted term, vote and log; a commit index that may be older (`min commit c`); follower -/
def crashN (n : Node1 N) (c : Nat) : Node1 N := { stepDownN n with commit := min n.commit c }

inductive RunToC : Sys1 N → Sys1 N → Prop
| refl (s : Sys1 N) : RunToC s s
| call {s s' : Sys1 N} (i : Fin N) (inp : Input N) (outs : List (Msg1 N)) : RunToC s s' → enabled s' i inp →
    (∀ m ∈ outs, m ∈ (handle i (s'.nodes i) inp).2 ∨ leaderOut (handle i (s'.nodes i) inp).1 i m) →
    RunToC s ⟨upd1 s'.nodes i (handle i (s'.nodes i) inp).1, fun m => s'.net m ∨ m ∈ outs⟩
| crash {s s' : Sys1 N} (i : Fin N) (c : Nat) : RunToC s s' → RunToC s ⟨upd1 s'.nodes i (crashN (s'.nodes i) c), s'.net⟩

/-- term and vote-within-a-term -/
def TermVoteLe (a b : Node1 N) : Prop := a.term ≤ b.term ∧ (a.term = b.term → ∀ c, a.vote = some c → b.vote = some c)

theorem TermVoteLe.trans {a b c : Node1 N} (h1 : TermVoteLe a b) (h2 : TermVoteLe b c) : TermVoteLe a c := by
  refine ⟨Nat.le_trans h1.1 h2.1, fun e x hx => ?_⟩
  have e1 : a.term = b.term := Nat.le_antisymm h1.1 (e ▸ h2.1)
  exact h2.2 (e1 ▸ e) x (h1.2 e1 x hx)

theorem HardLe.termVote {a b : Node1 N} (h : HardLe a b) : TermVoteLe a b := ⟨h.1, h.2.1⟩

/-- **with crashes anywhere**: term and vote-within-a-term never regress -/
theorem runC_term_vote_monotone {s s' : Sys1 N} (h : RunToC s s') (i : Fin N) : TermVoteLe (s.nodes i) (s'.nodes i) := by
  induction h with
  | refl => exact (HardLe.refl _).termVote
  | @call s2 j inp outs _ _ _ ih => exact ih.trans (runC_call_hardle s2 j inp i).termVote
  | @crash s2 j c _ ih =>
    refine ih.trans ?_
    show TermVoteLe (s2.nodes i) (upd1 s2.nodes j (crashN (s2.nodes j) c) i)
    by_cases hj : i = j
    · subst hj
      rw [upd1_same]
      exact ⟨Nat.le_refl _, fun _ _ h => h⟩
    · rw [upd1_other _ _ hj]
      exact (HardLe.refl _).termVote

/-- **the commit index drops at a crash step only**: at the crashed node, to `min commit c`; nowhere else -/
theorem crash_commit (s : Sys1 N) (j : Fin N) (c : Nat) (i : Fin N) :
    (upd1 s.nodes j (crashN (s.nodes j) c) i).commit = if i = j then min (s.nodes i).commit c else (s.nodes i).commit := by
  by_cases hj : i = j
  · subst hj; rw [upd1_same, if_pos rfl]; rfl
  · rw [upd1_other _ _ hj, if_neg hj]

/-! ### not vacuous -/

/-- node 0 of three campaigns, then restarts: term 1, its own vote, kept across the restart -/
example : RunTo (init1 3) ⟨upd1 (upd1 (init1 3).nodes 0 (handle 0 ((init1 3).nodes 0) .hup).1) 0
      (handle 0 ((upd1 (init1 3).nodes 0 (handle 0 ((init1 3).nodes 0) .hup).1) 0) .restart).1,
    fun m => (fun m => (init1 3).net m ∨ m ∈ ([] : List (Msg1 3))) m ∨ m ∈ ([] : List (Msg1 3))⟩ :=
  .call 0 .restart [] (.call 0 .hup [] (.refl _) trivial (fun _ h => nomatch h)) trivial (fun _ h => nomatch h)

example : ((handle (0 : Fin 3) ((init1 3).nodes 0) .hup).1).term = 1 ∧ ((handle (0 : Fin 3) ((init1 3).nodes 0) .hup).1).vote = some 0 := by
  decide

#print axioms handle_hardstate_monotone
#print axioms run_hardstate_monotone
#print axioms run_vote_change_needs_term
#print axioms runC_term_vote_monotone
end RS
