import RedisGoModel.Props.GlobalWF
import RedisGoModel.Props.GlobalInv
/-! # Two table-wide theorems about the executable keyspace model (`Exec.exec`, all 77 commands of `Exec.cmdTable`)

**(A) `C03_exec_wf`** — every reply the model can produce is well-framed (`Resp.WF`: no CR/LF inside a simple string or an error
text; bulk payloads unrestricted), for every command name (known, unknown, empty), every argument vector, every keyspace, every
clock reading.  Hypothesis: the observed reply handed to checker-mode commands is itself well-framed (only its error texts matter:
`ObsErrWF`, used by HINCRBYFLOAT and SRANDMEMBER, which may adopt an observed error).  Corollary `C03_client_decodes`: a conforming
RESP client (`Resp.decode`, the verified decoder) reading the encoded reply — followed by whatever comes next on the connection —
obtains exactly the model's reply and exactly the remaining bytes, whatever bytes are stored in the keyspace.

**(B) `global_invariant`** — `Inv` (unique keys; no stored list/set/hash/sorted set is empty; sets duplicate-free; hash fields
unique; sorted sets valid AVL trees with a consistent member index; stream IDs strictly increasing and bounded by the recorded last
ID) is preserved by every command of every family, hence holds in every state of every program started from a keyspace satisfying
it (e.g. the empty one).  This is the clause "a list/hash/set/sorted set that becomes empty ceases to exist" across families: DEL,
RENAME, SET, EXPIRE, S*STORE, LMOVE … cannot leave an empty or malformed container of *any* type behind.

Both are proved per table entry (`table_wf`, `table_inv`) and lifted to `exec` through `List.find?` membership, so no command-name
string is ever evaluated. -/
namespace Exec.Global
open Resp (Reply Bytes)
open Exec

/-! ## (A) replies are well-framed -/

/-- an observed reply that is not an error needs no hypothesis at all -/
theorem ObsErrWF.of_not_err {env : Env} (h : ∀ e, env.obs ≠ some (.err e)) : ObsErrWF env := fun e he => absurd he (h e)

/-- every table entry, under the hypothesis in its plain form -/
theorem table_wf : ∀ p ∈ cmdTable, ∀ (env : Env) (db : Db) (args : List Bytes), (∀ r, env.obs = some r → Resp.WF r) →
    Resp.WF (p.2 env db args).1 :=
  fun p hp env db args ho => table_wf_obs p hp env db args (ObsErrWF.of_wf ho)

/-- dispatch: a table entry, or one of the two fixed error replies -/
theorem exec_wf_obs (env : Env) (db : Db) (args : List Bytes) (ho : ObsErrWF env) : Resp.WF (exec env db args).1 := by
  unfold exec
  split
  · exact wf_err (by decide +kernel)
  · split
    · rename_i c hc
      unfold lookupCmd at hc
      obtain ⟨p, hp, rfl⟩ := Option.map_eq_some_iff.mp hc
      exact table_wf_obs p (List.mem_of_find?_eq_some hp) env db _ ho
    · exact wf_err (by decide +kernel)

/-- **C03, model side**: every reply of `exec` is well-framed when the observed reply (checker mode) is -/
theorem C03_exec_wf (env : Env) (db : Db) (args : List Bytes) (ho : ∀ r, env.obs = some r → Resp.WF r) :
    Resp.WF (exec env db args).1 :=
  exec_wf_obs env db args (ObsErrWF.of_wf ho)

/-- prediction mode (no observed reply): no hypothesis -/
theorem C03_exec_wf_pred (env : Env) (db : Db) (args : List Bytes) (ho : env.obs = none) : Resp.WF (exec env db args).1 :=
  exec_wf_obs env db args (ObsErrWF.of_none ho)

/-- **a conforming client decodes exactly the model's reply** and is left with exactly the bytes that follow it -/
theorem C03_client_decodes (env : Env) (db : Db) (args : List Bytes) (ho : ∀ r, env.obs = some r → Resp.WF r)
    (n : Nat) (rest : Bytes) (hn : Resp.size (exec env db args).1 ≤ n) :
    Resp.decode n (Resp.encode (exec env db args).1 ++ rest) = some ((exec env db args).1, rest) :=
  Resp.decode_encode _ (C03_exec_wf env db args ho) n rest hn

/-- … in particular with the reply's own size as fuel -/
theorem C03_client_decodes_size (env : Env) (db : Db) (args : List Bytes) (ho : ∀ r, env.obs = some r → Resp.WF r) (rest : Bytes) :
    Resp.decode (Resp.size (exec env db args).1) (Resp.encode (exec env db args).1 ++ rest) = some ((exec env db args).1, rest) :=
  C03_client_decodes env db args ho _ rest (Nat.le_refl _)

/-- programs: every reply of a run is well-framed -/
theorem C03_program_wf : ∀ (prog : C06T.Prog) (db : Db), (∀ st ∈ prog, ObsErrWF st.1) → Resp.WFL (C06T.runProg db prog).1
| [], _, _ => wfl_nil
| (env, args) :: rest, db, h => by
  unfold C06T.runProg
  exact wfl_cons (exec_wf_obs env db args (h _ List.mem_cons_self))
    (C03_program_wf rest _ fun st hst => h st (List.mem_cons_of_mem _ hst))

/-! ### the hypothesis of (A) is satisfiable, and it cannot be dropped -/

/-- prediction mode and every non-error observation satisfy it -/
example : ObsErrWF { now := 0 } := ObsErrWF.of_none rfl
example : ObsErrWF { now := 0, obs := some (.bulk (some [10, 13])) } := ObsErrWF.of_not_err fun _ h => nomatch h

/-- an error text with a line feed inside -/
def errWithLF : Reply → Bool | .err b => b.contains Resp.LF | _ => false

theorem errWithLF_not_wf : ∀ {r : Reply}, errWithLF r = true → ¬ Resp.WF r
| .err b, h, hw => by
  unfold Resp.WF at hw
  exact hw.1 (by simpa [errWithLF] using h)

/-- the observed reply is an error whose text holds a line feed -/
def exEnvBad : Env := { now := 0, obs := some (.err [69, 10, 43, 79, 75]) }
def exSetDb : Db := [([107], { val := .set [[97]] })]
def exArgs : List Bytes := [ofStr "SRANDMEMBER", [107], ofStr "-2000000"]

/-- **the hypothesis is needed**: SRANDMEMBER with a count below `-srandLimit` adopts the observed error text; if that text holds a
    line feed the model's reply is not well-framed.  (The driver's observations come out of the verified decoder, which cuts an
    error line at its first LF, so this `Env` does not arise there; a stray CR inside an implementation's error text is not
    excluded by the decoder — which is why well-framedness of the observation is a hypothesis and not a lemma.) -/
theorem obs_hypothesis_needed : ¬ Resp.WF (exec exEnvBad exSetDb exArgs).1 :=
  errWithLF_not_wf (by decide +kernel)

/-! ## (B) the global invariant -/

/-- unique keys are preserved by every table entry (from the table-wide C06 congruence) -/
theorem table_keys_unique : ∀ p ∈ cmdTable, ∀ (env : Env) (db : Db) (args : List Bytes), db.WF → (p.2 env db args).2.WF :=
  fun p hp env db args h => (C06T.table_ok p hp env db db args (C06T.Sim.refl h)).2.wfa

/-- frame + the family's own values are good ⇒ the invariant is preserved -/
theorem Inv.of_frame {P : Value → Prop} {a b : Db} (hi : Inv a) (hw : b.WF) (hf : Fr P a b)
    (hp : ∀ k e, b.get k = some e → P e.val → GoodValue e.val) : Inv b := by
  refine ⟨hw, fun k e he => ?_⟩
  rcases hf (k, e) (mem_of_get he) with h | ⟨q, hq, hv⟩
  · exact hp k e he h
  · have := hi.2 q.1 q.2 (get_of_mem hi.1 hq)
    rw [hv] at this; exact this

/-! ### the family invariants are the components of `Inv` -/

theorem Inv.listInv {db : Db} (hi : Inv db) : ListInv db := by
  intro k e he hv
  have := hi.2 k e he
  rw [hv] at this; exact this rfl

theorem Inv.hashInv {db : Db} (hi : Inv db) : HashInv db := by
  intro k e h he hv
  have := hi.2 k e he
  rw [hv] at this; exact this

theorem Inv.setsOk {db : Db} (hi : Inv db) : C11.SetsOk db := by
  intro k e he s hv
  have := hi.2 k e he
  rw [hv] at this; exact this

theorem Inv.zsetInv {db : Db} (hi : Inv db) : DbInv db := by
  intro p hp t hv
  have := ((inv_iff_mem db).mp hi).2 p hp
  rw [hv] at this; exact this

theorem Inv.streamOk {db : Db} (hi : Inv db) : DbOk db := by
  intro k e s last he hv
  have := hi.2 k e he
  rw [hv] at this; exact this

/-- conversely: unique keys and the five family invariants together are `Inv` -/
theorem Inv.of_families {db : Db} (hw : db.WF) (hl : ListInv db) (hh : HashInv db) (hs : C11.SetsOk db) (hz : DbInv db)
    (hx : DbOk db) : Inv db := by
  refine ⟨hw, fun k e he => ?_⟩
  cases hv : e.val with
  | str b => trivial
  | list l => exact fun hn => hl k e he (by rw [hv, hn])
  | set s => exact hs k e he s hv
  | hash h => exact hh k e h he hv
  | zset t => exact hz (k, e) (mem_of_get he) t hv
  | stream s last => exact hx k e s last he hv

theorem inv_iff_families (db : Db) : Inv db ↔ db.WF ∧ ListInv db ∧ HashInv db ∧ C11.SetsOk db ∧ DbInv db ∧ DbOk db :=
  ⟨fun hi => ⟨hi.1, hi.listInv, hi.hashInv, hi.setsOk, hi.zsetInv, hi.streamOk⟩,
   fun ⟨hw, hl, hh, hs, hz, hx⟩ => Inv.of_families hw hl hh hs hz hx⟩

/-! ### per table -/

theorem mem_tbl_string {p : String × Cmd} (h : p ∈ stringKeyTable) : p ∈ cmdTable := by
  unfold cmdTable; simp only [List.mem_append]; simp [h]
theorem mem_tbl_misc {p : String × Cmd} (h : p ∈ miscTable) : p ∈ cmdTable := by
  unfold cmdTable; simp only [List.mem_append]; simp [h]
theorem mem_tbl_set {p : String × Cmd} (h : p ∈ setTable) : p ∈ cmdTable := by
  unfold cmdTable; simp only [List.mem_append]; simp [h]
theorem mem_tbl_hash {p : String × Cmd} (h : p ∈ hashTable) : p ∈ cmdTable := by
  unfold cmdTable; simp only [List.mem_append]; simp [h]
theorem mem_tbl_list {p : String × Cmd} (h : p ∈ listTable) : p ∈ cmdTable := by
  unfold cmdTable; simp only [List.mem_append]; simp [h]
theorem mem_tbl_zset {p : String × Cmd} (h : p ∈ zsetTable) : p ∈ cmdTable := by
  unfold cmdTable; simp only [List.mem_append]; simp [h]
theorem mem_tbl_stream {p : String × Cmd} (h : p ∈ streamTable) : p ∈ cmdTable := by
  unfold cmdTable; simp only [List.mem_append]; simp [h]

abbrev CmdInv (c : Cmd) : Prop := ∀ (env : Env) (db : Db) (args : List Bytes), Inv db → Inv (c env db args).2

theorem good_str : ∀ (v : Value), IsStr v → GoodValue v
| .str _, _ => trivial

theorem string_inv : ∀ p ∈ stringKeyTable, CmdInv p.2 := fun p hp env db args hi =>
  hi.of_frame (table_keys_unique p (mem_tbl_string hp) env db args hi.1) (string_fr p hp env db args) fun _ e _ h => good_str e.val h

theorem misc_inv : ∀ p ∈ miscTable, CmdInv p.2 := fun p hp env db args hi =>
  hi.of_frame (table_keys_unique p (mem_tbl_misc hp) env db args hi.1) (misc_fr p hp env db args) fun _ e _ h => good_str e.val h

theorem set_inv : ∀ p ∈ setTable, CmdInv p.2 := fun p hp env db args hi =>
  hi.of_frame (table_keys_unique p (mem_tbl_set hp) env db args hi.1) (set_fr p hp env db args) fun k e he h => by
    have hs := C11.set_never_empty p hp env db args hi.setsOk k e he
    cases hv : e.val <;> rw [hv] at h <;> first | exact h.elim | skip
    exact hs _ hv

theorem hash_inv : ∀ p ∈ hashTable, CmdInv p.2 := fun p hp env db args hi =>
  hi.of_frame (table_keys_unique p (mem_tbl_hash hp) env db args hi.1) (hash_fr p hp env db args) fun k e he h => by
    have hs := hash_commands_preserve_inv p.1 p.2 hp env db args hi.hashInv k e
    cases hv : e.val <;> rw [hv] at h <;> first | exact h.elim | skip
    exact hs _ he hv

theorem list_inv : ∀ p ∈ listTable, CmdInv p.2 := fun p hp env db args hi =>
  hi.of_frame (table_keys_unique p (mem_tbl_list hp) env db args hi.1) (list_fr p hp env db args) fun k e he h => by
    have hs := list_never_empty p hp env db args hi.listInv k e he
    cases hv : e.val <;> rw [hv] at h <;> first | exact h.elim | skip
    exact fun hn => hs (by rw [hv, hn])

theorem zset_family_inv : ∀ p ∈ zsetTable, ∀ (env : Env) (db : Db) (args : List Bytes), DbInv db → DbInv (p.2 env db args).2 :=
  List.forall_mem_cons.mpr ⟨fun env _ args h => cmdZAdd_inv env h args, List.forall_mem_cons.mpr ⟨fun env _ args h => cmdZRem_inv env h args,
    List.forall_mem_cons.mpr ⟨fun env _ args h => cmdZRange_inv env h args, List.forall_mem_cons.mpr ⟨fun env _ args h => cmdZRank_inv env h args,
      fun _ h => nomatch h⟩⟩⟩⟩

theorem zset_inv : ∀ p ∈ zsetTable, CmdInv p.2 := fun p hp env db args hi =>
  hi.of_frame (table_keys_unique p (mem_tbl_zset hp) env db args hi.1) (zset_fr p hp env db args) fun k e he h => by
    have hs := zset_family_inv p hp env db args hi.zsetInv (k, e) (mem_of_get he)
    cases hv : e.val <;> rw [hv] at h <;> first | exact h.elim | skip
    exact hs _ hv

theorem stream_family_inv : ∀ p ∈ streamTable, ∀ (env : Env) (db : Db) (args : List Bytes), DbOk db → DbOk (p.2 env db args).2 :=
  List.forall_mem_cons.mpr ⟨fun _ _ _ h => cmdXAdd_ok h, List.forall_mem_cons.mpr ⟨fun _ _ _ h => cmdXRange_ok h, fun _ h => nomatch h⟩⟩

theorem stream_inv : ∀ p ∈ streamTable, CmdInv p.2 := fun p hp env db args hi =>
  hi.of_frame (table_keys_unique p (mem_tbl_stream hp) env db args hi.1) (stream_fr p hp env db args) fun k e he h => by
    have hs := stream_family_inv p hp env db args hi.streamOk k e
    cases hv : e.val <;> rw [hv] at h <;> first | exact h.elim | skip
    exact hs _ _ he hv

/-- **every one of the 77 table entries preserves the global invariant** -/
theorem table_inv : ∀ p ∈ cmdTable, ∀ (env : Env) (db : Db) (args : List Bytes), Inv db → Inv (p.2 env db args).2 := by
  intro p hp
  unfold cmdTable at hp
  simp only [List.mem_append, or_assoc] at hp
  rcases hp with h | h | h | h | h | h | h
  · exact string_inv p h
  · exact misc_inv p h
  · exact set_inv p h
  · exact hash_inv p h
  · exact list_inv p h
  · exact zset_inv p h
  · exact stream_inv p h

/-- dispatch (lower-cased name, table lookup; the empty and the unknown command leave the keyspace alone) -/
theorem exec_inv (env : Env) (db : Db) (args : List Bytes) (hi : Inv db) : Inv (exec env db args).2 := by
  unfold exec
  split
  · exact hi
  · split
    · rename_i c hc
      unfold lookupCmd at hc
      obtain ⟨p, hp, rfl⟩ := Option.map_eq_some_iff.mp hc
      exact table_inv p (List.mem_of_find?_eq_some hp) env db _ hi
    · exact hi

/-- run a program (each command with its own clock reading, observed reply and float bits); the keyspace afterwards -/
def run (prog : C06T.Prog) (db : Db) : Db := (C06T.runProg db prog).2

/-- **the global invariant holds after every program** of commands of every family, from any keyspace satisfying it -/
theorem global_invariant : ∀ (prog : C06T.Prog) (db : Db), Inv db → Inv (run prog db)
| [], _, hi => hi
| (env, args) :: rest, db, hi => by
  unfold run C06T.runProg
  exact global_invariant rest _ (exec_inv env db args hi)

/-- … in particular from the empty keyspace, and in every intermediate state (every prefix of the program) -/
theorem global_invariant_every_state (prog : C06T.Prog) (n : Nat) : Inv (run (prog.take n) []) :=
  global_invariant _ _ inv_nil

/-- **"a list/hash/set/sorted set that becomes empty ceases to exist", for every command of every family**: no key of a reachable
    keyspace holds an empty container -/
theorem no_empty_container (prog : C06T.Prog) (db : Db) (hi : Inv db) (k : Bytes) (e : Entry) (he : (run prog db).get k = some e) :
    NonEmptyValue e.val :=
  ((global_invariant prog db hi).2 k e he).nonEmpty

/-! ### the hypotheses are satisfiable; the statement is not vacuous -/

/-- a keyspace with one value of each kind -/
def exDb : Db := [
  ([115], { val := .str [] }), ([108], { val := .list [[1]] }), ([116], { val := .set [[1], [2]], exp := some 9 }),
  ([104], { val := .hash [([102], [])] }), ([120], { val := .stream [] ⟨3, 4⟩ })]

example : Inv exDb := by
  refine (inv_iff_mem exDb).mpr ⟨by unfold Db.WF; decide, ?_⟩
  intro p hp
  simp only [exDb, List.mem_cons, List.mem_nil_iff, or_false] at hp
  rcases hp with rfl | rfl | rfl | rfl | rfl
  · trivial
  · show [[1]] ≠ []; decide
  · show [[1], [2]].Nodup ∧ [[1], [2]] ≠ []; decide
  · exact ⟨by unfold HashSel.Ok; decide, by decide⟩
  · exact ⟨List.Pairwise.nil, fun e he => nomatch he⟩

/-- the invariant is not trivially true: a keyspace holding an empty list violates it -/
example : ¬ Inv [([108], { val := .list [] })] := fun h => h.2 [108] _ rfl rfl

end Exec.Global

#print axioms Exec.Global.C03_exec_wf
#print axioms Exec.Global.C03_client_decodes
#print axioms Exec.Global.C03_program_wf
#print axioms Exec.Global.table_wf
#print axioms Exec.Global.obs_hypothesis_needed
#print axioms Exec.Global.table_inv
#print axioms Exec.Global.exec_inv
#print axioms Exec.Global.global_invariant
#print axioms Exec.Global.no_empty_container
