import RedisGoModel.Props.C15JointSafe

/-! C15 Stage D, last step — non-vacuity of `C15_joint_statement` at full length: **a run that enters a joint configuration replacing
    TWO voters at once and leaves it.**

    Five nodes (raft ids 1..5), initial configuration `(1 2 3)`.  Node 0 campaigns (term 1), node 1 grants, node 0 wins with `{0,1}`
    — a quorum of `(1 2 3)` —, proposes `enter autoLeave [remove 2, remove 3, add 4, add 5]` (accepted by the gate), replicates to
    node 1, commits index 2 with `{0,1}` under `(1 2 3)`, applies: its configuration is `(1 4 5)&&(1 2 3) autoleave`.  The
    `autoLeave` step appends the empty `ConfChangeV2` (index 3); node 1 and node 3 (raft id 4, a NEW voter) acknowledge it; node 0
    commits index 3 with `{0,1,3}` — a majority of `(1 4 5)` AND of `(1 2 3)`; `{0,1}` would not do — and applies it: its
    configuration is `(1 4 5)`.  Every step is a `CStep`; the guards are discharged on the concrete states. -/
namespace RSJ
open RS hiding Inv0 Inv1 Inv2 Inv3 Inv4 Step Reach reach_inv leader_completeness committed_agree fresh_term QA QAc
  state_machine_safety committed_in_later_leader ldr_unique C15_election_safety C15_log_matching C15_leader_completeness
  C15_state_machine_safety C15_committed_never_rewritten commit_in_leader handleAE_keeps_committed
open RSC (nid nidsOf CSys updN updN_same updN_other cBecomeLeader cAdvanceCommit Label cinit LinkedStep)

def noop1 : Entry := ⟨1, 0⟩
def eSwap : Entry := ⟨1, pSwap⟩
def eLeave : Entry := ⟨1, leaveData⟩

def y1 : CSys 5 := { cinit 5 with base := doTimeout (cinit 5).base 0, pend := updN (cinit 5).pend 0 0 }
def y2 : CSys 5 := { y1 with base := doUpdateTerm y1.base 1 1, pend := updN y1.pend 1 0 }
def y3 : CSys 5 := { y2 with base := doGrant y2.base 1 0 1 }
def y4 : CSys 5 := cBecomeLeader y3 0 {0, 1}
def y5 : CSys 5 := cPropose cOld y4 0 pSwap
def y6 : CSys 5 := { y5 with base := doSendAE y5.base 0 0 2 }
def y7 : CSys 5 := { y6 with base := doHandleAE y6.base 1 0 1 0 [noop1, eSwap] 0 }
def y8 : CSys 5 := cAdvanceCommit y7 0 2
def y9 : CSys 5 := { y8 with applied := updN y8.applied 0 (y8.applied 0 + 1) }
def y10 : CSys 5 := { y9 with applied := updN y9.applied 0 (y9.applied 0 + 1) }
def y11 : CSys 5 := cAutoLeave y10 0
def y12 : CSys 5 := { y11 with base := doSendAE y11.base 0 0 3 }
def y13 : CSys 5 := { y12 with base := doHandleAE y12.base 1 0 1 0 [noop1, eSwap, eLeave] 2 }
def y14 : CSys 5 := { y13 with base := doUpdateTerm y13.base 3 1, pend := updN y13.pend 3 0 }
def y15 : CSys 5 := { y14 with base := doHandleAE y14.base 3 0 1 0 [noop1, eSwap, eLeave] 2 }
def y16 : CSys 5 := cAdvanceCommit y15 0 3
def y17 : CSys 5 := { y16 with applied := updN y16.applied 0 (y16.applied 0 + 1) }

theorem isConfData_pSwap : isConfData pSwap = true := by simp [isConfData, ccOf_pSwap]

theorem cfgAt_zero (c0 : RQJ.Config) (l : Log) : cfgAt c0 l 0 = c0 := by simp [cfgAt]

theorem qOld01 : IsQuorumJ (N := 5) cOld {0, 1} := by
  simp [IsQuorumJ, QJ, nidsOf, nid, RQJ.IsQuorum, RQJ.Maj, cOld]; decide

theorem qJoint013 : IsQuorumJ (N := 5) cJoint {0, 1, 3} := by
  simp [IsQuorumJ, QJ, nidsOf, nid, RQJ.IsQuorum, RQJ.Maj, cJoint]; decide

theorem qJoint01_not : ¬ IsQuorumJ (N := 5) cJoint {0, 1} := by
  simp [IsQuorumJ, QJ, nidsOf, nid, RQJ.IsQuorum, RQJ.Maj, cJoint]; decide

local macro "ysimp" : tactic =>
  `(tactic| simp [y4, y3, y2, y1, cinit, init, cBecomeLeader, doTimeout, doUpdateTerm, doGrant, doBecomeLeader, upd, updN, termAt, lastTerm])

theorem gate_y4 : gate cOld y4 0 pSwap = pSwap := by
  unfold gate
  rw [gateJ_accepts_iff _ _ _ ccOf_pSwap, refusal_none_iff]
  have ha : y4.applied 0 = 0 := by ysimp
  have hp : y4.pend 0 = 0 := by ysimp
  refine ⟨by omega, ?_⟩
  have : cfg cOld y4 0 = cOld := by unfold cfg; rw [ha, cfgAt_zero]
  rw [this]; decide

theorem y5_eq : y5 = { y4 with base := doClientReq y4.base 0 pSwap, pend := updN y4.pend 0 ((y4.base.nodes 0).log.length + 1) } := by
  unfold y5 cPropose
  rw [gate_y4, if_pos isConfData_pSwap]

local macro "zsimp" : tactic =>
  `(tactic| simp [y17, y16, y15, y14, y13, y12, y11, y10, y9, y8, y7, y6, y5_eq, y4, y3, y2, y1, cinit, init, cBecomeLeader, cAdvanceCommit, cAutoLeave,
      doTimeout, doUpdateTerm, doGrant, doBecomeLeader, doClientReq, doSendAE, doHandleAE, doAdvanceCommit, follAppend, appendFrom,
      upd, updN, termAt, lastTerm, noop1, eSwap, eLeave])

theorem y10_node0 : y10.base.nodes 0 = ⟨1, some 0, .leader, [⟨1, 0⟩, ⟨1, pSwap⟩], 2⟩ := by zsimp
theorem y10_applied : y10.applied 0 = 2 := by zsimp
theorem y10_pend : y10.pend 0 = 2 := by zsimp

theorem cfgAt_swap2 (rest : Log) : cfgAt cOld (⟨1, 0⟩ :: ⟨1, pSwap⟩ :: rest) 2 = cJoint := by
  have h0 : applyEntry cOld ⟨1, 0⟩ = cOld := by simp [applyEntry, ccOf_zero]
  have h1 : applyEntry cOld ⟨1, pSwap⟩ = cJoint := by simp [applyEntry, ccOf_pSwap, apply_swap2]
  simp [cfgAt, List.take, List.foldl, h0, h1]

theorem reach_y10 : CReach cOld y10 := by
  have r1 : CReach cOld y1 := .step .init (CStep.timeout _ 0 (by simp [cinit, init])
    (by simp [cfg, cfgAt, cinit, init, nid, cOld]; decide) (by intro k h1 h2; simp [cinit, init] at h2; omega))
  have r2 : CReach cOld y2 := .step r1 (CStep.updateTerm _ 1 1 (by zsimp))
  have r3 : CReach cOld y3 := .step r2 (CStep.grant _ 1 0 1 0 0 (by zsimp) (by zsimp) (by zsimp) (by right; zsimp))
  have r4 : CReach cOld y4 := .step r3 (CStep.becomeLeader _ 0 {0, 1}
    (by have ha : y3.applied 0 = 0 := by zsimp
        unfold cfg; rw [ha, cfgAt_zero]; exact qOld01)
    (by zsimp) (by intro j hj; simp at hj; rcases hj with rfl | rfl
                   · exact Or.inl rfl
                   · right; zsimp))
  have r5 : CReach cOld y5 := .step r4 (CStep.propose _ 0 pSwap (by zsimp))
  have r6 : CReach cOld y6 := .step r5 (CStep.sendAE _ 0 0 2 (by zsimp) (by omega))
  have r7 : CReach cOld y7 := .step r6 (CStep.handleAE _ 1 0 1 0 0 [noop1, eSwap] 0 (by zsimp) (by zsimp) (by zsimp) (by zsimp))
  have r8 : CReach cOld y8 := .step r7 (CStep.advanceCommit _ 0 2 {0, 1} (by zsimp) (by zsimp) (by zsimp)
    (by have ha : y7.applied 0 = 0 := by zsimp
        unfold cfg; rw [ha, cfgAt_zero]; exact qOld01)
    (by intro j hj; simp at hj; rcases hj with rfl | rfl
        · exact ⟨2, Nat.le_refl _, by zsimp⟩
        · exact ⟨2, Nat.le_refl _, by zsimp⟩))
  have r9 : CReach cOld y9 := .step r8 (CStep.apply _ 0 (by zsimp))
  exact .step r9 (CStep.apply _ 0 (by zsimp))

theorem y10_cfg : cfg cOld y10 0 = cJoint := by
  unfold cfg; rw [y10_node0, y10_applied]; exact cfgAt_swap2 []

theorem y16_node0 : y16.base.nodes 0 = ⟨1, some 0, .leader, [⟨1, 0⟩, ⟨1, pSwap⟩, ⟨1, leaveData⟩], 3⟩ := by zsimp
theorem y15_applied : y15.applied 0 = 2 := by zsimp
theorem y15_log : (y15.base.nodes 0).log = [⟨1, 0⟩, ⟨1, pSwap⟩, ⟨1, leaveData⟩] := by zsimp

theorem y15_cfg : cfg cOld y15 0 = cJoint := by
  unfold cfg; rw [y15_log, y15_applied]; exact cfgAt_swap2 _

theorem reach_y15 : CReach cOld y15 := by
  have r11 : CReach cOld y11 := .step reach_y10 (CStep.autoLeave _ 0 (by zsimp) (by rw [y10_cfg]; rfl) (by rw [y10_pend, y10_applied]))
  have r12 : CReach cOld y12 := .step r11 (CStep.sendAE _ 0 0 3 (by zsimp) (by omega))
  have r13 : CReach cOld y13 := .step r12 (CStep.handleAE _ 1 0 1 0 0 [noop1, eSwap, eLeave] 2 (by zsimp) (by zsimp) (by zsimp) (by zsimp))
  have r14 : CReach cOld y14 := .step r13 (CStep.updateTerm _ 3 1 (by zsimp))
  exact .step r14 (CStep.handleAE _ 3 0 1 0 0 [noop1, eSwap, eLeave] 2 (by zsimp) (by zsimp) (by zsimp) (by zsimp))

theorem reach_y17 : CReach cOld y17 := by
  have r16 : CReach cOld y16 := .step reach_y15 (CStep.advanceCommit _ 0 3 {0, 1, 3} (by zsimp) (by zsimp) (by zsimp)
    (by rw [y15_cfg]; exact qJoint013)
    (by intro j hj; simp at hj; rcases hj with rfl | rfl | rfl
        · exact ⟨3, Nat.le_refl _, by zsimp⟩
        · exact ⟨3, Nat.le_refl _, by zsimp⟩
        · exact ⟨3, Nat.le_refl _, by zsimp⟩))
  exact .step r16 (CStep.apply _ 0 (by zsimp))

/-- **the run**: reachable, node 0 is leader with the three entries committed and applied, it went through the joint configuration
    (where `{0,1}`, the quorum that elected it, is not a quorum) and its configuration is now `(1 4 5)`: two voters replaced at once -/
theorem joint_run_example : CReach cOld y17 ∧ CReach cOld y15 ∧ cfg cOld y15 0 = cJoint ∧ ¬ IsQuorumJ (cfg cOld y15 0) ({0, 1} : Finset (Fin 5)) ∧
    (y17.base.nodes 0).role = .leader ∧ (y17.base.nodes 0).commit = 3 ∧ y17.applied 0 = 3 ∧
    (y17.base.nodes 0).log = [⟨1, 0⟩, ⟨1, pSwap⟩, ⟨1, leaveData⟩] ∧ cfg cOld y17 0 = cNew ∧
    (y17.base.nodes 3).log = (y17.base.nodes 0).log := by
  have hl : (y17.base.nodes 0).log = [⟨1, 0⟩, ⟨1, pSwap⟩, ⟨1, leaveData⟩] := by zsimp
  have ha : y17.applied 0 = 3 := by zsimp
  refine ⟨reach_y17, reach_y15, y15_cfg, by rw [y15_cfg]; exact qJoint01_not, by zsimp, by zsimp, ha, hl, ?_, by zsimp⟩
  unfold cfg
  rw [hl, ha]
  exact swap_fold.2.2

/-- the five safety properties hold in that state (an instance of `C15_joint_holds`, for the record) -/
example : ∀ i j : Fin 5, (y17.base.nodes i).role = .leader → (y17.base.nodes j).role = .leader →
    (y17.base.nodes i).term = (y17.base.nodes j).term → i = j :=
  (C15_joint_holds 5 cOld y17 reach_y17).1

#print axioms joint_run_example
end RSJ
