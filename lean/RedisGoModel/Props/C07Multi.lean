import RedisGoModel.Raft.RT
import RedisGoModel.Props.C07MultiBase
import RedisGoModel.Props.C07
/-! # C07 — cross-node linearizability of cluster mode, assembled into one theorem

    The pieces that existed separately — abstract Raft L0 (`Raft/RS.lean`, `RS2.lean`, `RT.lean`: state-machine safety, log matching,
    leader completeness, committed prefixes are never rewritten, for every cluster size `N` and every schedule), the one-node reply
    rendezvous (`Cluster/Rendezvous.lean`, `Props/C07Own.lean`: `own_reply`, one-node linearizability) and replica agreement for
    deterministic commands (`Props/C07.lean`) — are composed here:

    **The composed model `Cl`** runs the multi-node rendezvous model `Multi` (`Cluster/Multi.lean`: one `Rendezvous.State` per node,
    driven by `Rendezvous.next`) ON TOP OF a run of L0 (`RS.Sys N`):
    * `submit i c cmd id`  — connection `c` of node `i` registers `id` and hands the proposal `(id, cmd)` to raft (`prop`); the id is
                              fresh cluster-wide (hypothesis **UniqueIds**) and non-zero (`data = 0` is the leader's no-op).
    * `propose l id`       — the proposal reaches a leader `l` and is appended to its log: L0's `clientReq l id` (the entry's `data`
                              is the id).  Guard: it was submitted (`prop id = some cmd`) and has not been appended before
                              (hypothesis **AppendOnce**: raft / the transport never duplicates a proposal).
    * `raft`               — any L0 step that appends no client data (elections, replication, commit, heartbeats, restarts, message
                              loss/duplication/reordering as in L0).
    * `applyNoop i`, `applyEntry i` — node `i` takes the next entry of ITS committed prefix `(raft.nodes i).log.take (raft.nodes i).commit`
                              (`raftexample`'s `publishEntries`): an empty entry is skipped, a proposal entry `{id, cmd}` goes through
                              node `i`'s `Rendezvous.next … (.apply {id, cmd})`.  One index at a time, each index once, in order: that
                              `entriesToApply`/`publishEntries` do exactly this for every overlap of Ready batches is
                              `Apply.apply_exactly_once` (`Cluster/Apply.lean`, tied by the `apply` engine).
    * `receive i c`        — the waiter takes its value.

    **The interface to Raft is discharged, not assumed.**  `Multi.RaftFacts` (the guard of `Multi`) is PROVED at every event of a
    `Cl` run (`cinv_step`), from these L0 theorems:
    (a) applied prefixes of any two nodes are prefix-comparable: `sms_prefix` ⇐ `RS.C15_state_machine_safety`; they stay what they
        were while raft runs: `take_ap_step` ⇐ `RS.C15_committed_never_rewritten`;
    (b) a proposal is in a log only after it was submitted, at ONE index in every copy: `data_pos`, `data_pos_unique` ⇐
        `RS.Inv0.p_nodes` / `p_llog` (log matching against the leader logs), `ldr_log`, `llog_none`, `fresh_term` (via `RS.reach_inv`);
    (c) the real-time order: NOT needed as a separate hypothesis — with (a), (b) and "a reply exists only for an applied entry" it is an
        invariant of the composition (`Multi.GInvT.rt`); `real_time_raft_index` is the instance of `RS.commit_order_respects_real_time`
        on a `Cl` run (the raft index of a proposal appended after an index was committed is beyond it), for the record.

    **Theorems** (namespace `C07Multi`; every one for all reachable states of `Cl`, any `N`, any schedule, any deterministic state
    machine `step : S → Cmd → S × Reply` shared by the nodes):
    * `applied_agree` — two nodes that have applied the same number of entries have applied the same entries (ids and commands) and
      hold the same state-machine state; `applied_agree_index` — the same, by raft index;
      `same_prefix_same_keyspace_partial` — for the executable keyspace model with a DIFFERENT environment sequence (clock, random
      choices, float parsing) per node: identical reply lists and keyspaces, if the applied commands are `Exec.C07.Deterministic`.
    * `own_reply_cluster` — each reply a connection of ANY node has received is the reply of running its own command at its own
      position of the one shared log.
    * `real_time_cross_node` — a response at node `i` before an invocation at node `j` ⇒ smaller log position.
    * `C07_linearizable_partial` — the combined history of all clients of all nodes is linearizable (Herlihy–Wing,
      `Rendezvous.Linearizable`, the definition of `Props/C07Own.lean`), witness = log order.
    * `apply_enabled` — the composition does not block: a node with a committed, unapplied entry can apply it.
    * `Multi.linearizable_needs_sms` (`Props/C07MultiBase.lean`) — the Raft interface is needed: two nodes that disagree on log position 0
      give a combined history that is NOT linearizable, although `own_reply` holds at each node.

    **What is assumed / missing (hence `_partial`)**: (1) UniqueIds and AppendOnce are guards of `submit` / `propose` (hypotheses on the
    environment; `Rendezvous.own_reply_needs_unique_ids`, `…_needs_append_once` show they are needed). (2) The state machine is ONE
    deterministic function for all nodes; for the real keyspace, whose executors read the node's clock and random source, that is the
    `Deterministic` fragment (`same_prefix_same_keyspace_partial`; outside it replicas diverge — the three recorded findings: relative
    TTL, SPOP/SRANDMEMBER, `XADD *`). (3) Fixed membership: configuration changes are outside L0 (C15 Stage D). (4) No crash/restart
    of the applying node (the applied index and the callback map are never lost here; L0's `restart` of the raft role is included; see
    `Props/C08Restart.lean`). (5) Closed cluster: every log entry is a no-op or a proposal of a client of the model. (6) It is a
    theorem about the models `Rendezvous.next` (tied to `HandleCluster`/`handleClusterCommits` by the `rendezvous` suite) and L0 (tied
    to etcd/raft through L1/`handle`, C15), not about Go code. -/
set_option linter.unusedSectionVars false
namespace C07Multi
open Rendezvous (Entry)
variable {N : Nat} {Conn S Cmd Reply : Type} [DecidableEq Conn]

/-! ## facts about L0 in the form the composition needs -/

/-- (a) **state-machine safety as prefix-comparability** (from `RS.C15_state_machine_safety`): whatever two nodes take from their
    committed prefixes, one is a prefix of the other -/
theorem sms_prefix {s : RS.Sys N} (r : RS.Reach s) (i j : Fin N) {a b : Nat} (ha : a ≤ (s.nodes i).commit) (hb : b ≤ (s.nodes j).commit) :
    (s.nodes i).log.take a <+: (s.nodes j).log.take b ∨ (s.nodes j).log.take b <+: (s.nodes i).log.take a := by
  rcases Nat.le_total a b with hab | hab
  · left
    rw [RS.C15_state_machine_safety r i j a ha (Nat.le_trans hab hb)]
    exact List.take_prefix_take_left hab
  · right
    rw [RS.C15_state_machine_safety r j i b hb (Nat.le_trans hab ha)]
    exact List.take_prefix_take_left hab

/-- what a node has taken from its committed prefix stays what it was, whatever L0 does (from `RS.C15_committed_never_rewritten`) -/
theorem take_ap_step {s s' : RS.Sys N} (r : RS.Reach s) (st : RS.Step s s') (y : Fin N) {a : Nat} (ha : a ≤ (s.nodes y).commit) :
    (s'.nodes y).log.take a = (s.nodes y).log.take a ∧ a ≤ (s'.nodes y).commit := by
  obtain ⟨h1, h2, _⟩ := RS.C15_committed_never_rewritten r st y
  refine ⟨?_, Nat.le_trans ha h2⟩
  have := congrArg (List.take a) h1
  rwa [List.take_take, List.take_take, Nat.min_eq_left ha] at this

/-- **where a proposal sits**: `W v = some (t, idx)` — the entry with data `v` was created by the leader of term `t` at (0-based)
    index `idx`.  `J0`: every own-term entry of a leader log with non-zero data is recorded in `W`. -/
def J0 (llog : Nat → RS.Log) (W : Nat → Option (Nat × Nat)) : Prop :=
  ∀ t idx v, (llog t)[idx]? = some ⟨t, v⟩ → v ≠ 0 → W v = some (t, idx)

/-- an L0 step that appends no client data: afterwards every leader log is what it was or ends in a no-op -/
def NoClientData (s r' : RS.Sys N) : Prop := ∀ t, r'.llog t = s.llog t ∨ ∃ l, r'.llog t = l ++ [⟨t, 0⟩]

/-- in a log that matches the leader logs, an entry of term `t` is an entry of the leader log of term `t` (log matching) -/
theorem entry_in_llog {llog : Nat → RS.Log} {l : RS.Log} (hp : RS.PrefixOK llog l) {idx t v : Nat} (h : l[idx]? = some ⟨t, v⟩) :
    (llog t)[idx]? = some ⟨t, v⟩ := by
  have hlen := Rendezvous.lt_of_get h
  have hk := hp (idx + 1) (by omega) (by omega)
  rw [RS.termAt_of_getElem? h] at hk
  rw [← RS.getElem?_of_take_eq hk (Nat.lt_succ_self idx)]; exact h

theorem concat_inj_last {α : Type} {l l' : List α} {a b : α} (h : l ++ [a] = l' ++ [b]) : a = b := by
  have := (List.append_inj' h rfl).2
  simpa using this

/-- `J0` is kept by every L0 step that appends no client data -/
theorem j0_raft {s r' : RS.Sys N} (h0 : RS.Inv0 s) (st : RS.Step s r') (hnc : NoClientData s r') {W : Nat → Option (Nat × Nat)}
    (hj : J0 s.llog W) : J0 r'.llog W := by
  cases st with
  | becomeLeader i Q hq hc hQ =>
    intro t idx v hl hv
    simp only [RS.doBecomeLeader] at hl
    split at hl
    · rename_i ht
      subst ht
      rcases Rendezvous.concat_cases hl with hl | ⟨_, he⟩
      · -- a candidate has no entry of its own term: that term has no leader log yet
        exfalso
        have hnone := h0.llog_none _ (RS.fresh_term h0 i Q hq hc hQ).2
        have := entry_in_llog (h0.p_nodes i) hl
        rw [hnone] at this
        simp at this
      · cases he; exact absurd rfl hv
    · exact hj t idx v hl hv
  | clientReq i v0 hl0 =>
    intro t idx v hl hv
    have hlog := h0.ldr_log i hl0
    -- the appended entry carries no client data
    have hv0 : v0 = 0 := by
      rcases hnc (s.nodes i).term with h | ⟨l, h⟩
      · simp only [RS.doClientReq, if_true] at h
        have := congrArg List.length h
        rw [← hlog] at this
        simp at this
      · simp only [RS.doClientReq, if_true] at h
        have := concat_inj_last h
        cases this; rfl
    simp only [RS.doClientReq] at hl
    split at hl
    · rename_i ht
      subst ht
      rcases Rendezvous.concat_cases hl with hl | ⟨_, he⟩
      · rw [hlog] at hl; exact hj _ idx v hl hv
      · cases he; exact absurd hv0 hv
    · exact hj t idx v hl hv
  | _ => exact hj


/-! ## the composed model -/

/-- what a raft entry is for the state machine: `data = 0` is the leader's no-op (an empty entry: `publishEntries` skips it), any other
    `data` is the id of a proposal, whose command is looked up in the table of submitted proposals -/
def dec (prop : Nat → Option Cmd) (e : RS.Entry) : Option (Entry Nat Cmd) :=
  if e.data = 0 then none else (prop e.data).map (fun cmd => ⟨e.data, cmd⟩)

def decLog (prop : Nat → Option Cmd) (l : RS.Log) : List (Entry Nat Cmd) := l.filterMap (dec prop)

/-- the cluster: an L0 system, the rendezvous state of every node, each node's applied index, the proposals handed to raft -/
structure Cl (N : Nat) (Conn S Cmd Reply : Type) where
  raft : RS.Sys N
  m : Multi.State (Fin N) Nat Conn S Cmd Reply
  /-- `appliedIndex` of each node: how many entries of its raft log it has taken -/
  ap : Fin N → Nat
  /-- the proposals submitted so far (id ↦ command): what `proposeC` / a forwarded `MsgProp` carries -/
  prop : Nat → Option Cmd
  /-- ghost: term and index at which a proposal was appended to a leader's log -/
  whereAt : Nat → Option (Nat × Nat)

def Cl.init (N : Nat) (s0 : S) : Cl N Conn S Cmd Reply :=
  { raft := RS.init N, m := Multi.init s0, ap := fun _ => 0, prop := fun _ => none, whereAt := fun _ => none }

inductive CStep (step : S → Cmd → S × Reply) : Cl N Conn S Cmd Reply → Cl N Conn S Cmd Reply → Prop
  /-- a client command arrives at node `i`; **UniqueIds**: the id is fresh cluster-wide -/
  | submit (s : Cl N Conn S Cmd Reply) (i : Fin N) (c : Conn) (cmd : Cmd) (id : Nat)
      (hen : Multi.enabled s.m (.submit i c cmd id) = true) (hid : id ≠ 0) (hfresh : s.prop id = none) :
      CStep step s { s with m := Multi.next step s.m (.submit i c cmd id), prop := fun v => if v = id then some cmd else s.prop v }
  /-- the proposal reaches a leader and is appended (L0 `clientReq`); **AppendOnce**: it has not been appended before -/
  | propose (s : Cl N Conn S Cmd Reply) (l : Fin N) (id : Nat) (cmd : Cmd)
      (hl : (s.raft.nodes l).role = .leader) (hp : s.prop id = some cmd) (honce : s.whereAt id = none) :
      CStep step s { s with
        raft := RS.doClientReq s.raft l id
        whereAt := fun v => if v = id then some ((s.raft.nodes l).term, (s.raft.nodes l).log.length) else s.whereAt v }
  /-- any other L0 step -/
  | raft (s : Cl N Conn S Cmd Reply) (r' : RS.Sys N) (st : RS.Step s.raft r') (hnc : NoClientData s.raft r') :
      CStep step s { s with raft := r' }
  /-- node `i`'s next committed entry is a no-op: skipped -/
  | applyNoop (s : Cl N Conn S Cmd Reply) (i : Fin N) (t : Nat) (hlt : s.ap i < (s.raft.nodes i).commit)
      (he : (s.raft.nodes i).log[s.ap i]? = some ⟨t, 0⟩) :
      CStep step s { s with ap := fun j => if j = i then s.ap i + 1 else s.ap j }
  /-- node `i`'s next committed entry is the proposal `v`: it goes to node `i`'s state machine and rendezvous -/
  | applyEntry (s : Cl N Conn S Cmd Reply) (i : Fin N) (t v : Nat) (cmd : Cmd) (hlt : s.ap i < (s.raft.nodes i).commit)
      (he : (s.raft.nodes i).log[s.ap i]? = some ⟨t, v⟩) (hv : v ≠ 0) (hp : s.prop v = some cmd) :
      CStep step s { s with
        m := Multi.next step s.m (.apply i ⟨v, cmd⟩)
        ap := fun j => if j = i then s.ap i + 1 else s.ap j }
  | receive (s : Cl N Conn S Cmd Reply) (i : Fin N) (c : Conn) (hen : Multi.enabled s.m (.receive i c) = true) :
      CStep step s { s with m := Multi.next step s.m (.receive i c) }

inductive CReach (step : S → Cmd → S × Reply) (s0 : S) : Cl N Conn S Cmd Reply → Prop
  | init : CReach step s0 (Cl.init N s0)
  | step {s s'} : CReach step s0 s → CStep step s s' → CReach step s0 s'

/-! ## decoding -/

theorem dec_some {prop : Nat → Option Cmd} {x : RS.Entry} {e : Entry Nat Cmd} (h : dec prop x = some e) :
    x.data = e.id ∧ e.id ≠ 0 ∧ prop e.id = some e.cmd := by
  unfold dec at h
  split at h
  · cases h
  · rename_i h0
    cases hp : prop x.data with
    | none => rw [hp] at h; cases h
    | some cmd => rw [hp] at h; cases h; exact ⟨rfl, h0, hp⟩

theorem dec_noop (prop : Nat → Option Cmd) (t : Nat) : dec prop ⟨t, 0⟩ = none := by simp [dec]

theorem dec_entry {prop : Nat → Option Cmd} {t v : Nat} {cmd : Cmd} (hv : v ≠ 0) (hp : prop v = some cmd) :
    dec prop ⟨t, v⟩ = some ⟨v, cmd⟩ := by simp [dec, hv, hp]

theorem decLog_take_succ (prop : Nat → Option Cmd) {l : RS.Log} {a : Nat} {x : RS.Entry} (h : l[a]? = some x) :
    decLog prop (l.take (a + 1)) = decLog prop (l.take a) ++ (dec prop x).toList := by
  unfold decLog
  rw [List.take_add_one, h, List.filterMap_append]
  cases hd : dec prop x <;> simp [hd]

/-- every decoded entry comes from a raft entry below the bound -/
theorem mem_decLog_take {prop : Nat → Option Cmd} {l : RS.Log} {a : Nat} {e : Entry Nat Cmd} (h : e ∈ decLog prop (l.take a)) :
    ∃ idx t, idx < a ∧ l[idx]? = some ⟨t, e.id⟩ ∧ e.id ≠ 0 ∧ prop e.id = some e.cmd := by
  obtain ⟨x, hx, hd⟩ := List.mem_filterMap.1 h
  obtain ⟨h1, h2, h3⟩ := dec_some hd
  obtain ⟨idx, hlt, hget⟩ := List.mem_take_iff_getElem.1 hx
  refine ⟨idx, x.term, by omega, ?_, h2, h3⟩
  rw [List.getElem?_eq_getElem (by omega), hget, ← h1]

/-- the table of proposals may grow at an id that is in no log -/
theorem decLog_congr {prop prop' : Nat → Option Cmd} {l : RS.Log} (h : ∀ x, x ∈ l → prop' x.data = prop x.data) :
    decLog prop' l = decLog prop l := by
  unfold decLog
  apply List.filterMap_congr
  intro x hx
  simp only [dec, h x hx]

/-! ## the invariant of the composition -/

variable (step : S → Cmd → S × Reply) (s0 : S)

structure CInv (s : Cl N Conn S Cmd Reply) : Prop where
  /-- the raft component is a reachable state of L0 -/
  raftR : RS.Reach s.raft
  /-- the rendezvous component is a reachable state of `Multi` UNDER THE GUARD `RaftFacts` -/
  mR : Multi.ReachF step s0 s.m
  ap_le : ∀ i, s.ap i ≤ (s.raft.nodes i).commit
  /-- what a node has applied is the decoded prefix of its raft log up to its applied index -/
  logs : ∀ i, (s.m.node i).log = decLog s.prop ((s.raft.nodes i).log.take (s.ap i))
  j0 : J0 s.raft.llog s.whereAt
  where_prop : ∀ v p, s.whereAt v = some p → ∃ cmd, s.prop v = some cmd
  prop_sub : ∀ v cmd, s.prop v = some cmd ↔ ∃ n c, (v, cmd) ∈ (s.m.node n).subs c

/-- (b) **a proposal has one position**: in ANY node's raft log, an entry with non-zero data `v` sits at the index (and carries the
    term) at which the proposal `v` was appended to a leader's log -/
theorem data_pos {s : Cl N Conn S Cmd Reply} (h : CInv step s0 s) {i : Fin N} {idx t v : Nat}
    (hl : (s.raft.nodes i).log[idx]? = some ⟨t, v⟩) (hv : v ≠ 0) : s.whereAt v = some (t, idx) :=
  h.j0 t idx v (entry_in_llog ((RS.reach_inv h.raftR).1.p_nodes i) hl) hv

theorem data_pos_unique {s : Cl N Conn S Cmd Reply} (h : CInv step s0 s) {i j : Fin N} {idx idx' t t' v : Nat}
    (hl : (s.raft.nodes i).log[idx]? = some ⟨t, v⟩) (hl' : (s.raft.nodes j).log[idx']? = some ⟨t', v⟩) (hv : v ≠ 0) :
    idx = idx' ∧ t = t' := by
  have a := data_pos step s0 h hl hv
  have b := data_pos step s0 h hl' hv
  rw [a] at b; cases b; exact ⟨rfl, rfl⟩

theorem cinv_init : CInv step s0 (Cl.init N s0 : Cl N Conn S Cmd Reply) := by
  refine ⟨.init, .init, fun _ => Nat.le_refl _, fun _ => rfl, ?_, ?_, ?_⟩
  · intro t idx v hl; simp [Cl.init, RS.init] at hl
  · intro v p hp; simp [Cl.init] at hp
  · intro v cmd; simp [Cl.init, Multi.init, Rendezvous.init]

/-- raft moves, the rendezvous side stands still: applied prefixes are untouched -/
theorem cinv_raft_frame {s : Cl N Conn S Cmd Reply} (h : CInv step s0 s) {r' : RS.Sys N} (st : RS.Step s.raft r')
    {W : Nat → Option (Nat × Nat)} (hj : J0 r'.llog W) (hw : ∀ v p, W v = some p → ∃ cmd, s.prop v = some cmd) :
    CInv step s0 { s with raft := r', whereAt := W } := by
  refine ⟨.step h.raftR st, h.mR, ?_, ?_, hj, hw, h.prop_sub⟩
  · intro i; exact (take_ap_step h.raftR st i (h.ap_le i)).2
  · intro i
    show (s.m.node i).log = decLog s.prop ((r'.nodes i).log.take (s.ap i))
    rw [(take_ap_step h.raftR st i (h.ap_le i)).1]; exact h.logs i

theorem cinv_submit {s : Cl N Conn S Cmd Reply} (h : CInv step s0 s) (i : Fin N) (c : Conn) (cmd : Cmd) (id : Nat)
    (hen : Multi.enabled s.m (.submit i c cmd id) = true) (hid : id ≠ 0) (hfresh : s.prop id = none) :
    Multi.RaftFacts s.m (.submit i c cmd id) ∧
    CInv step s0 { s with m := Multi.next step s.m (.submit i c cmd id), prop := fun v => if v = id then some cmd else s.prop v } := by
  have hne : ∀ v cmd', s.prop v = some cmd' → v ≠ id := by
    intro v cmd' hp hv; rw [hv, hfresh] at hp; cases hp
  have hfacts : Multi.RaftFacts s.m (.submit i c cmd id) := by
    intro n
    refine ⟨?_, ?_⟩
    · intro c' p hp
      exact hne p.1 p.2 ((h.prop_sub p.1 p.2).2 ⟨n, c', hp⟩)
    · intro e he
      rw [h.logs n] at he
      obtain ⟨_, _, _, _, _, hp⟩ := mem_decLog_take he
      exact hne _ _ hp
  refine ⟨hfacts, h.raftR, .step h.mR hen hfacts, h.ap_le, ?_, h.j0, ?_, ?_⟩
  · intro n
    show ((Multi.next step s.m (.submit i c cmd id)).node n).log = decLog (fun v => if v = id then some cmd else s.prop v) _
    rw [Multi.submit_log, h.logs n]
    symm
    apply decLog_congr
    intro x hx
    have hx : x ∈ (s.raft.nodes n).log.take (s.ap n) := hx
    have hxd : x.data ≠ id := by
      intro hxd
      obtain ⟨idx, _, hget⟩ := List.mem_take_iff_getElem.1 hx
      have hl : (s.raft.nodes n).log[idx]? = some ⟨x.term, id⟩ := by
        rw [List.getElem?_eq_getElem (by omega), hget, ← hxd]
      obtain ⟨cmd', hp⟩ := h.where_prop _ _ (data_pos step s0 h hl hid)
      rw [hfresh] at hp; cases hp
    simp [hxd]
  · intro v p hp
    obtain ⟨cmd', hc⟩ := h.where_prop v p hp
    exact ⟨cmd', by simp [hne v cmd' hc, hc]⟩
  · intro v cmd'
    show (if v = id then some cmd else s.prop v) = some cmd' ↔ ∃ n c', (v, cmd') ∈ ((Multi.next step s.m (.submit i c cmd id)).node n).subs c'
    constructor
    · intro hp
      by_cases hv : v = id
      · subst hv
        simp only [if_true] at hp; cases hp
        refine ⟨i, c, ?_⟩
        rw [Multi.submit_subs_self, Rendezvous.upd_same]; simp
      · rw [if_neg hv] at hp
        obtain ⟨n, c', hm⟩ := (h.prop_sub v cmd').1 hp
        exact ⟨n, c', Multi.submit_subs_mem step s.m i c cmd id hm⟩
    · rintro ⟨n, c', hm⟩
      obtain ⟨k, hk⟩ := List.mem_iff_getElem?.1 hm
      rcases Multi.submit_subs_cases step s.m i c cmd id hk with hk | ⟨_, _, _, hx⟩
      · have hp := (h.prop_sub v cmd').2 ⟨n, c', Rendezvous.mem_of_get hk⟩
        rw [if_neg (hne v cmd' hp)]; exact hp
      · cases hx; simp

theorem cinv_propose {s : Cl N Conn S Cmd Reply} (h : CInv step s0 s) (l : Fin N) (id : Nat) (cmd : Cmd)
    (hl : (s.raft.nodes l).role = .leader) (hp : s.prop id = some cmd) (honce : s.whereAt id = none) :
    CInv step s0 { s with
      raft := RS.doClientReq s.raft l id
      whereAt := fun v => if v = id then some ((s.raft.nodes l).term, (s.raft.nodes l).log.length) else s.whereAt v } := by
  apply cinv_raft_frame step s0 h (RS.Step.clientReq _ l id hl)
  · intro t idx v hg hv
    have hlog := (RS.reach_inv h.raftR).1.ldr_log l hl
    have hne : ∀ t' idx', (s.raft.llog t')[idx']? = some ⟨t', v⟩ → (if v = id then some ((s.raft.nodes l).term, (s.raft.nodes l).log.length) else s.whereAt v) = some (t', idx') := by
      intro t' idx' hold
      have hw := h.j0 t' idx' v hold hv
      have : v ≠ id := by intro hh; rw [hh, honce] at hw; cases hw
      rw [if_neg this]; exact hw
    simp only [RS.doClientReq] at hg
    split at hg
    · rename_i ht
      subst ht
      rcases Rendezvous.concat_cases hg with hg | ⟨hidx, he⟩
      · rw [hlog] at hg; exact hne _ _ hg
      · cases he; simp [hidx]
    · exact hne _ _ hg
  · intro v p hw
    by_cases hv : v = id
    · subst hv; exact ⟨cmd, hp⟩
    · simp only [if_neg hv] at hw; exact h.where_prop v p hw

theorem cinv_applyNoop {s : Cl N Conn S Cmd Reply} (h : CInv step s0 s) (i : Fin N) (t : Nat) (hlt : s.ap i < (s.raft.nodes i).commit)
    (he : (s.raft.nodes i).log[s.ap i]? = some ⟨t, 0⟩) :
    CInv step s0 { s with ap := fun j => if j = i then s.ap i + 1 else s.ap j } := by
  refine ⟨h.raftR, h.mR, ?_, ?_, h.j0, h.where_prop, h.prop_sub⟩
  · intro n
    show (if n = i then s.ap i + 1 else s.ap n) ≤ (s.raft.nodes n).commit
    split
    · rename_i hn; subst hn; omega
    · exact h.ap_le n
  · intro n
    show (s.m.node n).log = decLog s.prop ((s.raft.nodes n).log.take (if n = i then s.ap i + 1 else s.ap n))
    split
    · rename_i hn; subst hn
      rw [decLog_take_succ s.prop he, dec_noop]; simp [h.logs n]
    · exact h.logs n

theorem cinv_applyEntry {s : Cl N Conn S Cmd Reply} (h : CInv step s0 s) (i : Fin N) (t v : Nat) (cmd : Cmd)
    (hlt : s.ap i < (s.raft.nodes i).commit) (he : (s.raft.nodes i).log[s.ap i]? = some ⟨t, v⟩) (hv : v ≠ 0) (hp : s.prop v = some cmd) :
    Multi.RaftFacts s.m (.apply i ⟨v, cmd⟩) ∧
    CInv step s0 { s with
      m := Multi.next step s.m (.apply i ⟨v, cmd⟩)
      ap := fun j => if j = i then s.ap i + 1 else s.ap j } := by
  have hnew : (s.m.node i).log ++ [⟨v, cmd⟩] = decLog s.prop ((s.raft.nodes i).log.take (s.ap i + 1)) := by
    rw [decLog_take_succ s.prop he, dec_entry hv hp, h.logs i]; rfl
  have hfacts : Multi.RaftFacts s.m (.apply i ⟨v, cmd⟩) := by
    refine ⟨?_, ?_, ?_⟩
    · -- (a) state-machine safety
      intro n
      rw [hnew, h.logs n]
      rcases sms_prefix h.raftR i n (a := s.ap i + 1) (b := s.ap n) (by omega) (h.ap_le n) with hpre | hpre
      · exact Or.inl (hpre.filterMap _)
      · exact Or.inr (hpre.filterMap _)
    · -- (b) committed at most once
      intro e' he' hid
      rw [h.logs i] at he'
      obtain ⟨idx, t', hidx, hget, _, _⟩ := mem_decLog_take he'
      rw [hid] at hget
      have := (data_pos_unique step s0 h hget he hv).1
      omega
    · -- (c) only submitted proposals
      exact (h.prop_sub v cmd).1 hp
  refine ⟨hfacts, h.raftR, .step h.mR rfl hfacts, ?_, ?_, h.j0, h.where_prop, ?_⟩
  · intro n
    show (if n = i then s.ap i + 1 else s.ap n) ≤ (s.raft.nodes n).commit
    split
    · rename_i hn; subst hn; omega
    · exact h.ap_le n
  · intro n
    show ((Multi.next step s.m (.apply i ⟨v, cmd⟩)).node n).log = decLog s.prop ((s.raft.nodes n).log.take (if n = i then s.ap i + 1 else s.ap n))
    split
    · rename_i hn; subst hn
      rw [Multi.apply_log_self]; exact hnew
    · rename_i hn
      rw [Multi.apply_node_other step s.m i _ hn]; exact h.logs n
  · intro v' cmd'
    show s.prop v' = some cmd' ↔ ∃ n c', (v', cmd') ∈ ((Multi.next step s.m (.apply i ⟨v, cmd⟩)).node n).subs c'
    simp only [Multi.apply_subs]
    exact h.prop_sub v' cmd'

theorem cinv_receive {s : Cl N Conn S Cmd Reply} (h : CInv step s0 s) (i : Fin N) (c : Conn)
    (hen : Multi.enabled s.m (.receive i c) = true) : CInv step s0 { s with m := Multi.next step s.m (.receive i c) } := by
  refine ⟨h.raftR, .step h.mR hen trivial, h.ap_le, ?_, h.j0, h.where_prop, ?_⟩
  · intro n
    show ((Multi.next step s.m (.receive i c)).node n).log = _
    rw [Multi.receive_log]; exact h.logs n
  · intro v' cmd'
    show s.prop v' = some cmd' ↔ ∃ n c', (v', cmd') ∈ ((Multi.next step s.m (.receive i c)).node n).subs c'
    simp only [Multi.receive_subs]
    exact h.prop_sub v' cmd'

/-- **the composition keeps its invariant** — in particular (`mR`) every event of the rendezvous side satisfied `Multi.RaftFacts` -/
theorem cinv_step {s s' : Cl N Conn S Cmd Reply} (h : CInv step s0 s) (st : CStep step s s') : CInv step s0 s' := by
  cases st with
  | submit i c cmd id hen hid hfresh => exact (cinv_submit step s0 h i c cmd id hen hid hfresh).2
  | propose l id cmd hl hp honce => exact cinv_propose step s0 h l id cmd hl hp honce
  | raft r' st hnc =>
    exact cinv_raft_frame step s0 h st (j0_raft (RS.reach_inv h.raftR).1 st hnc h.j0) h.where_prop
  | applyNoop i t hlt he => exact cinv_applyNoop step s0 h i t hlt he
  | applyEntry i t v cmd hlt he hv hp => exact (cinv_applyEntry step s0 h i t v cmd hlt he hv hp).2
  | receive i c hen => exact cinv_receive step s0 h i c hen

theorem reach_cinv {s : Cl N Conn S Cmd Reply} (r : CReach step s0 s) : CInv step s0 s := by
  induction r with
  | init => exact cinv_init step s0
  | step _ st ih => exact cinv_step step s0 ih st


/-! ## the property theorems -/

/-- `L` is THE replicated log of cluster state `s` as far as any node has applied it: every node's applied log is a prefix of it, and
    it is the decoded committed prefix of the raft log of the node that is furthest ahead -/
def SharedLog (s : Cl N Conn S Cmd Reply) (L : List (Entry Nat Cmd)) : Prop :=
  Multi.Shared s.m L ∧
  (L = [] ∨ ∃ j, s.ap j ≤ (s.raft.nodes j).commit ∧ L = decLog s.prop ((s.raft.nodes j).log.take (s.ap j)))

theorem shared_log_exists {s : Cl N Conn S Cmd Reply} (r : CReach step s0 s) : ∃ L, SharedLog s L := by
  have h := reach_cinv step s0 r
  obtain ⟨L, hL⟩ := Multi.shared_exists step s0 (Multi.reach_ginv step s0 h.mR) (List.finRange N) List.mem_finRange
  refine ⟨L, hL, ?_⟩
  rcases hL.2 with h0 | ⟨j, hj⟩
  · exact Or.inl h0
  · exact Or.inr ⟨j, h.ap_le j, by rw [hj, h.logs j]⟩

/-- **applied_agree.**  Any two nodes that have applied `n` entries have applied the same `n` entries — same ids, same commands, in
    the same order — and hold the same state-machine state. -/
theorem applied_agree {s : Cl N Conn S Cmd Reply} (r : CReach step s0 s) (i j : Fin N)
    (hlen : (s.m.node i).log.length = (s.m.node j).log.length) :
    (s.m.node i).log = (s.m.node j).log ∧ (s.m.node i).sm = (s.m.node j).sm :=
  Multi.applied_agree_len step s0 (reach_cinv step s0 r).mR i j hlen

/-- the node that is behind has applied a prefix of what the other has applied, and holds the state the other held after that prefix -/
theorem applied_prefix {s : Cl N Conn S Cmd Reply} (r : CReach step s0 s) (i j : Fin N)
    (hle : (s.m.node i).log.length ≤ (s.m.node j).log.length) :
    (s.m.node i).log = (s.m.node j).log.take (s.m.node i).log.length ∧
    (s.m.node i).sm = Rendezvous.runLog step s0 ((s.m.node j).log.take (s.m.node i).log.length) :=
  Multi.applied_prefix step s0 (reach_cinv step s0 r).mR i j hle

/-- the same by raft index: two nodes with the same applied index have taken the same raft entries (`RS.C15_state_machine_safety`),
    have applied the same proposals and hold the same state -/
theorem applied_agree_index {s : Cl N Conn S Cmd Reply} (r : CReach step s0 s) (i j : Fin N) (hap : s.ap i = s.ap j) :
    (s.raft.nodes i).log.take (s.ap i) = (s.raft.nodes j).log.take (s.ap j) ∧
    (s.m.node i).log = (s.m.node j).log ∧ (s.m.node i).sm = (s.m.node j).sm := by
  have h := reach_cinv step s0 r
  have h1 : (s.raft.nodes i).log.take (s.ap i) = (s.raft.nodes j).log.take (s.ap j) := by
    rw [← hap]
    exact RS.C15_state_machine_safety h.raftR i j (s.ap i) (h.ap_le i) (by rw [hap]; exact h.ap_le j)
  have h2 : (s.m.node i).log = (s.m.node j).log := by rw [h.logs i, h.logs j, h1]
  exact ⟨h1, h2, (applied_agree step s0 r i j (by rw [h2])).2⟩

/-- **own_reply_cluster.**  Under cluster-wide unique proposal ids (the guards of `submit` / `propose`): in every reachable state of
    the cluster, for the shared log `L`, the `k`-th reply that connection `c` of ANY node `i` has received is the reply of its own
    `k`-th command run at the position `j` of that command's entry in `L`: `(step (state after L[0..j)) cmd).2`; the entry is in `L`,
    it is the only entry of `L` with that id; replies never outnumber submissions, at most one submission is unanswered. -/
theorem own_reply_cluster {s : Cl N Conn S Cmd Reply} (r : CReach step s0 s) {L : List (Entry Nat Cmd)} (hL : SharedLog s L)
    (i : Fin N) (c : Conn) : Multi.OwnReplyAt step s0 s.m L i c :=
  Multi.own_reply_shared step s0 (reach_cinv step s0 r).mR hL.1 i c

/-- **real_time_cross_node.**  If the reply to the `k`-th command of connection `c` of node `i` was received (cluster time `tr`)
    before the `k'`-th command of connection `c'` of node `i'` was submitted (cluster time `ti`), then the log position of the former
    is smaller than the log position of the latter (if that one is in the log at all). -/
theorem real_time_cross_node {s : Cl N Conn S Cmd Reply} (r : CReach step s0 s) {L : List (Entry Nat Cmd)} (hL : SharedLog s L)
    {i i' : Fin N} {c c' : Conn} {k k' tr ti j j' : Nat} {id id' : Nat} {cmd cmd' : Cmd}
    (hres : (s.m.resT (i, c))[k]? = some tr) (hinv : (s.m.invT (i', c'))[k']? = some ti) (hlt : tr < ti)
    (hs : ((s.m.node i).subs c)[k]? = some (id, cmd)) (hs' : ((s.m.node i').subs c')[k']? = some (id', cmd'))
    (hl : L[j]? = some ⟨id, cmd⟩) (hl' : L[j']? = some ⟨id', cmd'⟩) : j < j' :=
  Multi.real_time_shared step s0 (reach_cinv step s0 r).mR hL.1 hres hinv hlt hs hs' hl hl'

/-- **C07_linearizable_partial.**  In every reachable state of the cluster — `N` nodes running the reply rendezvous on top of a run of
    the abstract Raft protocol L0, any `N`, any schedule of elections, replication, message loss and reordering, proposals, applies and
    client events — the combined history of ALL clients of ALL nodes (invocation = a connection submits a command at its node, response
    = it receives the reply; both on one cluster clock) is linearizable (Herlihy–Wing: `Rendezvous.Linearizable`, the definition used
    for one node in `Props/C07Own.lean`) with respect to the state machine `step` from `s0`, and the witness is the log order: the
    sequential history is the command list of the shared log, each operation sits at its own entry.

    *Partial* — what is assumed, see the file header: unique ids and append-at-most-once (guards of `submit` / `propose`), ONE
    deterministic `step` for all nodes (for the keyspace: the `Deterministic` fragment, `same_prefix_same_keyspace_partial`), fixed
    membership, no loss of a node's applied state, closed cluster; a theorem about the models, tied to the code by the suites. -/
theorem C07_linearizable_partial {s : Cl N Conn S Cmd Reply} (r : CReach step s0 s) :
    Rendezvous.Linearizable step s0 (Multi.history s.m) := by
  obtain ⟨L, hL⟩ := shared_log_exists step s0 r
  exact Multi.linearizable_shared step s0 (reach_cinv step s0 r).mR hL.1

/-- every node of the cluster is a reachable state of the ONE-node rendezvous model under `Rendezvous.UniqueIds`: the theorems of
    `Props/C07Own.lean` (`no_reply_without_commit`, `waiter_never_stuck_after_apply`, …) hold at each node of the cluster -/
theorem node_reach {s : Cl N Conn S Cmd Reply} (r : CReach step s0 s) (i : Fin N) : Rendezvous.ReachU step s0 (s.m.node i) :=
  Multi.reach_node step s0 (reach_cinv step s0 r).mR i

/-- **the composition does not block**: a node with a committed entry it has not applied can apply it (the entry is a no-op or a
    submitted proposal — never an unknown id) -/
theorem apply_enabled {s : Cl N Conn S Cmd Reply} (r : CReach step s0 s) (i : Fin N) (hlt : s.ap i < (s.raft.nodes i).commit) :
    ∃ s', CStep step s s' ∧ s'.ap i = s.ap i + 1 := by
  have h := reach_cinv step s0 r
  have hlen := ((RS.reach_inv h.raftR).2.2.2.1.n1 i).1
  obtain ⟨x, hx⟩ : ∃ x, (s.raft.nodes i).log[s.ap i]? = some x := ⟨_, List.getElem?_eq_getElem (by omega)⟩
  obtain ⟨t, v⟩ := x
  by_cases hv : v = 0
  · subst hv
    exact ⟨_, .applyNoop s i t hlt hx, by simp⟩
  · obtain ⟨cmd, hp⟩ := h.where_prop _ _ (data_pos step s0 h hx hv)
    exact ⟨_, .applyEntry s i t v cmd hlt hx hv hp, by simp⟩

/-! ## replicas: the keyspace model with one environment sequence PER NODE -/

/-- **same_prefix_same_keyspace_partial.**  `Cmd` = argument vectors.  Node `i` has applied no more entries than node `j`.  Then what
    `i` has applied is a prefix of what `j` has applied (`applied_prefix`), and — with `Exec.C07.replicas_agree` — if the applied
    commands are `Exec.C07.Deterministic`, running them on the executable keyspace model from the empty keyspace under node `i`'s
    environments `e1` (its own clock readings, random choices, float parsing at every step) and under node `j`'s environments `e2`
    gives identical reply lists and identical keyspaces after the common prefix.

    *Partial*: only for `Deterministic` commands.  Outside the fragment the statement is false (`Exec.C07.C07_replicas_statement_false`)
    — the three recorded findings: relative TTLs (EXPIRE, SETEX, SET EX/PX: each replica's own clock), SPOP / SRANDMEMBER / HRANDFIELD
    (each replica's own random source), `XADD *` (own clock) — and `classification_tight` shows the fragment cannot be enlarged by
    command name/options. -/
theorem same_prefix_same_keyspace_partial {Reply : Type} {step : S → List Resp.Bytes → S × Reply}
    {s : Cl N Conn S (List Resp.Bytes) Reply} (r : CReach step s0 s) (i j : Fin N)
    (hle : (s.m.node i).log.length ≤ (s.m.node j).log.length)
    (hdet : ∀ e, e ∈ (s.m.node j).log → Exec.C07.Deterministic e.cmd = true) (e1 e2 : Nat → Exec.Env) :
    (s.m.node i).log = (s.m.node j).log.take (s.m.node i).log.length ∧
    Exec.C07.runLog e1 [] ((s.m.node i).log.map (·.cmd)) =
      Exec.C07.runLog e2 [] (((s.m.node j).log.map (·.cmd)).take (s.m.node i).log.length) := by
  have h1 := (applied_prefix step s0 r i j hle).1
  refine ⟨h1, ?_⟩
  have hall : ∀ args, args ∈ (s.m.node j).log.map (·.cmd) → Exec.C07.Deterministic args = true := by
    intro args ha
    obtain ⟨e, he, rfl⟩ := List.mem_map.1 ha
    exact hdet e he
  have := (Exec.C07.replicas_agree _ hall e1 e2 [] Exec.C07.NoDLp.nil.noDeadlines Exec.Db.wf_nil (s.m.node i).log.length).1
  rw [← List.map_take, ← h1] at this ⊢
  exact this

/-- the instance with the state machine the `rendezvous` engine runs: `Driver.rzStep` = `applyClusterProposal` on the executable keyspace
    model (`Exec.exec` with the clock reading fixed — ONE function for all nodes; for per-node clocks and random sources see
    `same_prefix_same_keyspace_partial`), from the empty keyspace -/
theorem C07_linearizable_keyspace_partial {s : Cl N Conn Exec.Db (List Resp.Bytes) Resp.Reply} (r : CReach Driver.rzStep [] s) :
    Rendezvous.Linearizable Driver.rzStep [] (Multi.history s.m) :=
  C07_linearizable_partial Driver.rzStep [] r

/-! ## (c) the instance of `RS.commit_order_respects_real_time` on a run of the composition -/

inductive CSteps (step : S → Cmd → S × Reply) : Cl N Conn S Cmd Reply → Cl N Conn S Cmd Reply → Prop
  | refl (s) : CSteps step s s
  | tail {a b c} : CSteps step a b → CStep step b c → CSteps step a c

theorem steps_trans {a b c : RS.Sys N} (h1 : RS.Steps a b) (h2 : RS.Steps b c) : RS.Steps a c := by
  induction h2 with
  | refl => exact h1
  | tail _ st ih => exact .tail ih st

/-- every step of the composition is one L0 step or none -/
theorem cstep_raft {s s' : Cl N Conn S Cmd Reply} (st : CStep step s s') : RS.Steps s.raft s'.raft := by
  cases st with
  | propose l id cmd hl hp honce => exact .tail (.refl _) (RS.Step.clientReq _ l id hl)
  | raft r' st hnc => exact .tail (.refl _) st
  | _ => exact .refl _

theorem csteps_raft {s s' : Cl N Conn S Cmd Reply} (st : CSteps step s s') : RS.Steps s.raft s'.raft := by
  induction st with
  | refl => exact .refl _
  | tail _ st ih => exact steps_trans ih (cstep_raft step st)

/-- the state after `propose l id` -/
def proposeAt (s : Cl N Conn S Cmd Reply) (l : Fin N) (id : Nat) : Cl N Conn S Cmd Reply :=
  { s with
    raft := RS.doClientReq s.raft l id
    whereAt := fun v => if v = id then some ((s.raft.nodes l).term, (s.raft.nodes l).log.length) else s.whereAt v }

/-- **`RS.commit_order_respects_real_time` on the composition**: index `k` is committed in cluster state `s` (e.g. because some node
    has applied up to `k` and a client has its reply); later (`s1`) a proposal is appended by leader `l` — it lands at raft index
    `|log l| + 1`; if later still (`s2`) the committed log holds that proposal at that index, then the index is beyond `k`. -/
theorem real_time_raft_index {s s1 s2 : Cl N Conn S Cmd Reply} (r : CReach step s0 s) {k t : Nat} (c : s.raft.cmt k t)
    (st1 : CSteps step s s1) (l : Fin N) (id : Nat) (hl : (s1.raft.nodes l).role = .leader)
    (st2 : CSteps step (proposeAt s1 l id) s2) {m t2 : Nat} (c2 : s2.raft.cmt m t2)
    (hm : (s1.raft.nodes l).log.length + 1 ≤ m)
    (hsame : RS.termAt (s2.raft.llog t2) ((s1.raft.nodes l).log.length + 1) = (s1.raft.nodes l).term) :
    k < (s1.raft.nodes l).log.length + 1 :=
  RS.commit_order_respects_real_time (reach_cinv step s0 r).raftR c (csteps_raft step st1) l id hl (csteps_raft step st2) c2 hm hsame


/-! ## non-vacuity: a concrete run of a 2-node cluster with two clients, every guard checked

    L0: node 0 campaigns in term 1, node 1 votes for it, node 0 becomes leader (quorum `{0,1}`) and appends its no-op (raft index 1).
    Client A (connection 0 of node 0) submits `5` with id 1; client B (connection 0 of node 1) submits `7` with id 2.  B's proposal
    reaches the leader FIRST (raft index 2), A's second (index 3).  The leader replicates to node 1, commits index 3, a heartbeat
    tells node 1.  Node 0 skips the no-op and applies `{2,7}` (foreign there); node 1 skips the no-op, applies `{2,7}`, B receives `7`;
    node 0 applies `{1,5}`, A receives `12` (`c20`).  AFTER that B submits `1` with id 3; it is appended (index 4), replicated,
    committed; node 1 catches up with `{1,5}` (foreign there), applies `{3,1}`, B receives `13` (`c30`).  Node 0 has applied raft
    index 3, node 1 index 4.  State machine: `Rendezvous.exStep` (an accumulator; the reply is the new total). -/
section example_run
open RS Rendezvous

abbrev ExCl := Cl 2 Nat Nat Nat Nat

def c0 : ExCl := Cl.init 2 0
def c1 : ExCl := { c0 with raft := doTimeout c0.raft 0 }
def c2 : ExCl := { c1 with raft := doUpdateTerm c1.raft 1 1 }
def c3 : ExCl := { c2 with raft := doGrant c2.raft 1 0 1 }
def c4 : ExCl := { c3 with raft := doBecomeLeader c3.raft 0 {0, 1} }
def c5 : ExCl := { c4 with m := Multi.next exStep c4.m (.submit 0 0 5 1), prop := fun v => if v = 1 then some 5 else c4.prop v }
def c6 : ExCl := { c5 with m := Multi.next exStep c5.m (.submit 1 0 7 2), prop := fun v => if v = 2 then some 7 else c5.prop v }
def c7 : ExCl := proposeAt c6 0 2
def c8 : ExCl := proposeAt c7 0 1
def c9 : ExCl := { c8 with raft := doSendAE c8.raft 0 0 3 }
def c10 : ExCl := { c9 with raft := doHandleAE c9.raft 1 0 1 0 [⟨1, 0⟩, ⟨1, 2⟩, ⟨1, 1⟩] 0 }
def c11 : ExCl := { c10 with raft := doAdvanceCommit c10.raft 0 3 }
def c12 : ExCl := { c11 with raft := doSendHB c11.raft 0 1 3 }
def c13 : ExCl := { c12 with raft := doHandleHB c12.raft 1 3 }

local macro "csimp" : tactic =>
  `(tactic| simp [c13, c12, c11, c10, c9, c8, c7, c6, c5, c4, c3, c2, c1, c0, proposeAt, Cl.init, RS.init, doTimeout, doUpdateTerm, doGrant,
      doBecomeLeader, doClientReq, doSendAE, doHandleAE, doAdvanceCommit, doSendHB, doHandleHB, RS.upd, lastTerm, termAt, upToDate, follAppend,
      appendFrom])

theorem s1 : CStep exStep c0 c1 := .raft c0 _ (Step.timeout _ 0 (by csimp)) (fun _ => Or.inl rfl)
theorem s2 : CStep exStep c1 c2 := .raft c1 _ (Step.updateTerm _ 1 1 (by csimp)) (fun _ => Or.inl rfl)
theorem s3 : CStep exStep c2 c3 := .raft c2 _ (Step.grant _ 1 0 1 0 0 (by csimp) (by csimp) (by csimp) (by csimp)) (fun _ => Or.inl rfl)
theorem s4 : CStep exStep c3 c4 := .raft c3 _ (Step.becomeLeader _ 0 {0, 1} (by decide) (by csimp) (by
    intro j hj
    simp only [Finset.mem_insert, Finset.mem_singleton] at hj
    rcases hj with rfl | rfl
    · exact Or.inl rfl
    · right; csimp)) (by
    intro t
    by_cases ht : t = 1
    · subst ht; right; exact ⟨[], by csimp⟩
    · left; csimp; intro h; exact absurd h ht)
theorem s5 : CStep exStep c4 c5 := .submit c4 0 0 5 1 rfl (by decide) rfl
theorem s6 : CStep exStep c5 c6 := .submit c5 1 0 7 2 rfl (by decide) rfl
theorem s7 : CStep exStep c6 c7 := .propose c6 0 2 7 (by csimp) rfl rfl
theorem s8 : CStep exStep c7 c8 := .propose c7 0 1 5 (by csimp) rfl rfl

theorem s9 : CStep exStep c8 c9 := .raft c8 _ (Step.sendAE _ 0 0 3 (by csimp) (by csimp)) (fun _ => Or.inl rfl)
theorem s10 : CStep exStep c9 c10 :=
  .raft c9 _ (Step.handleAE _ 1 0 1 0 0 [⟨1, 0⟩, ⟨1, 2⟩, ⟨1, 1⟩] 0 (by csimp) (by csimp) (by csimp) (by csimp)) (fun _ => Or.inl rfl)
theorem s11 : CStep exStep c10 c11 :=
  .raft c10 _ (Step.advanceCommit _ 0 3 {0, 1} (by csimp) (by csimp) (by csimp) (by decide) (by
    intro j hj
    simp only [Finset.mem_insert, Finset.mem_singleton] at hj
    rcases hj with rfl | rfl
    · exact ⟨3, Nat.le_refl _, by csimp⟩
    · exact ⟨3, Nat.le_refl _, by csimp⟩)) (fun _ => Or.inl rfl)
theorem s12 : CStep exStep c11 c12 :=
  .raft c11 _ (Step.sendHB _ 0 1 3 (by csimp) (by csimp) (Or.inr ⟨3, Nat.le_refl _, by csimp⟩)) (fun _ => Or.inl rfl)
theorem s13 : CStep exStep c12 c13 :=
  .raft c12 _ (Step.handleHB _ 1 0 1 3 (by csimp) (by csimp) (by csimp)) (fun _ => Or.inl rfl)

def c14 : ExCl := { c13 with ap := fun j => if j = 0 then c13.ap 0 + 1 else c13.ap j }
def c15 : ExCl := { c14 with m := Multi.next exStep c14.m (.apply 0 ⟨2, 7⟩), ap := fun j => if j = 0 then c14.ap 0 + 1 else c14.ap j }
def c16 : ExCl := { c15 with ap := fun j => if j = 1 then c15.ap 1 + 1 else c15.ap j }
def c17 : ExCl := { c16 with m := Multi.next exStep c16.m (.apply 1 ⟨2, 7⟩), ap := fun j => if j = 1 then c16.ap 1 + 1 else c16.ap j }
def c18 : ExCl := { c17 with m := Multi.next exStep c17.m (.receive 1 0) }
def c19 : ExCl := { c18 with m := Multi.next exStep c18.m (.apply 0 ⟨1, 5⟩), ap := fun j => if j = 0 then c18.ap 0 + 1 else c18.ap j }
def c20 : ExCl := { c19 with m := Multi.next exStep c19.m (.receive 0 0) }

local macro "dsimp'" : tactic =>
  `(tactic| (simp only [c20, c19, c18, c17, c16, c15, c14]; csimp))

theorem s14 : CStep exStep c13 c14 := .applyNoop c13 0 1 (by csimp) (by csimp)
theorem s15 : CStep exStep c14 c15 := .applyEntry c14 0 1 2 7 (by dsimp') (by dsimp') (by decide) rfl
theorem s16 : CStep exStep c15 c16 := .applyNoop c15 1 1 (by dsimp') (by dsimp')
theorem s17 : CStep exStep c16 c17 := .applyEntry c16 1 1 2 7 (by dsimp') (by dsimp') (by decide) rfl
theorem s18 : CStep exStep c17 c18 := .receive c17 1 0 rfl
theorem s19 : CStep exStep c18 c19 := .applyEntry c18 0 1 1 5 (by dsimp') (by dsimp') (by decide) rfl
theorem s20 : CStep exStep c19 c20 := .receive c19 0 0 rfl


def c21 : ExCl := { c20 with m := Multi.next exStep c20.m (.submit 1 0 1 3), prop := fun v => if v = 3 then some 1 else c20.prop v }
def c22 : ExCl := proposeAt c21 0 3
def c23 : ExCl := { c22 with raft := doSendAE c22.raft 0 3 1 }
def c24 : ExCl := { c23 with raft := doHandleAE c23.raft 1 0 1 3 [⟨1, 3⟩] 3 }
def c25 : ExCl := { c24 with raft := doAdvanceCommit c24.raft 0 4 }
def c26 : ExCl := { c25 with raft := doSendHB c25.raft 0 1 4 }
def c27 : ExCl := { c26 with raft := doHandleHB c26.raft 1 4 }
def c28 : ExCl := { c27 with m := Multi.next exStep c27.m (.apply 1 ⟨1, 5⟩), ap := fun j => if j = 1 then c27.ap 1 + 1 else c27.ap j }
def c29 : ExCl := { c28 with m := Multi.next exStep c28.m (.apply 1 ⟨3, 1⟩), ap := fun j => if j = 1 then c28.ap 1 + 1 else c28.ap j }
def c30 : ExCl := { c29 with m := Multi.next exStep c29.m (.receive 1 0) }

local macro "esimp" : tactic =>
  `(tactic| (simp only [c30, c29, c28, c27, c26, c25, c24, c23, c22, c21]; dsimp'))

theorem s21 : CStep exStep c20 c21 := .submit c20 1 0 1 3 rfl (by decide) rfl
theorem s22 : CStep exStep c21 c22 := .propose c21 0 3 1 (by esimp) rfl rfl
theorem s23 : CStep exStep c22 c23 := .raft c22 _ (Step.sendAE _ 0 3 1 (by esimp) (by esimp)) (fun _ => Or.inl rfl)
theorem s24 : CStep exStep c23 c24 :=
  .raft c23 _ (Step.handleAE _ 1 0 1 3 1 [⟨1, 3⟩] 3 (by esimp) (by esimp) (by esimp) (by esimp)) (fun _ => Or.inl rfl)
theorem s25 : CStep exStep c24 c25 :=
  .raft c24 _ (Step.advanceCommit _ 0 4 {0, 1} (by esimp) (by esimp) (by esimp) (by decide) (by
    intro j hj
    simp only [Finset.mem_insert, Finset.mem_singleton] at hj
    rcases hj with rfl | rfl
    · exact ⟨4, Nat.le_refl _, by esimp⟩
    · exact ⟨4, Nat.le_refl _, by esimp⟩)) (fun _ => Or.inl rfl)
theorem s26 : CStep exStep c25 c26 :=
  .raft c25 _ (Step.sendHB _ 0 1 4 (by esimp) (by esimp) (Or.inr ⟨4, Nat.le_refl _, by esimp⟩)) (fun _ => Or.inl rfl)
theorem s27 : CStep exStep c26 c27 :=
  .raft c26 _ (Step.handleHB _ 1 0 1 4 (by esimp) (by esimp) (by esimp)) (fun _ => Or.inl rfl)
theorem s28 : CStep exStep c27 c28 := .applyEntry c27 1 1 1 5 (by esimp) (by esimp) (by decide) rfl
theorem s29 : CStep exStep c28 c29 := .applyEntry c28 1 1 3 1 (by esimp) (by esimp) (by decide) rfl
theorem s30 : CStep exStep c29 c30 := .receive c29 1 0 rfl

theorem c20_reach : CReach exStep 0 c20 :=
  .step (.step (.step (.step (.step (.step (.step (.step (.step (.step (.step (.step (.step (.step (.step (.step (.step (.step (.step (.step
    .init s1) s2) s3) s4) s5) s6) s7) s8) s9) s10) s11) s12) s13) s14) s15) s16) s17) s18) s19) s20

theorem c30_reach : CReach exStep 0 c30 :=
  .step (.step (.step (.step (.step (.step (.step (.step (.step (.step c20_reach s21) s22) s23) s24) s25) s26) s27) s28) s29) s30

def cL : List (Entry Nat Nat) := [⟨2, 7⟩, ⟨1, 5⟩, ⟨3, 1⟩]

theorem c30_shared : SharedLog c30 cL := by
  refine ⟨⟨?_, Or.inr ⟨1, rfl⟩⟩, Or.inr ⟨1, ?_, ?_⟩⟩
  · intro i
    match i with
    | 0 => exact ⟨[⟨3, 1⟩], rfl⟩
    | 1 => exact ⟨[], rfl⟩
  · esimp
  · esimp; simp [decLog, dec, cL]


/-- both clients have received the replies of their own commands, at their own positions of the shared log `cL` (= the decoded
    committed prefix of node 1's raft log): A `12` = 7 + 5 (position 1), B `7` (position 0) and `13` (position 2) -/
example : CReach exStep 0 c30 ∧ SharedLog c30 cL ∧ (c30.m.node 0).delivered 0 = [12] ∧ (c30.m.node 1).delivered 0 = [7, 13] ∧
    (c30.raft.nodes 1).log.map (·.data) = [0, 2, 1, 3] ∧ c30.ap 0 = 3 ∧ c30.ap 1 = 4 ∧
    Multi.OwnReplyAt exStep 0 c30.m cL 0 0 ∧ Multi.OwnReplyAt exStep 0 c30.m cL 1 0 :=
  ⟨c30_reach, c30_shared, rfl, rfl, by esimp, rfl, rfl, own_reply_cluster exStep 0 c30_reach c30_shared 0 0,
    own_reply_cluster exStep 0 c30_reach c30_shared 1 0⟩

/-- `real_time_cross_node`: A's reply was received at node 0 at cluster time 6, B's second command was submitted at node 1 at time 7;
    their entries are at positions 1 and 2 of the shared log -/
example : (1 : Nat) < 2 :=
  real_time_cross_node exStep 0 c30_reach c30_shared (i := 0) (i' := 1) (c := 0) (c' := 0) (k := 0) (k' := 1) (tr := 6) (ti := 7)
    (id := 1) (id' := 3) (cmd := 5) (cmd' := 1) rfl rfl (by decide) rfl rfl rfl rfl

/-- `C07_linearizable_partial` on the run, whose combined history has three completed operations at two nodes -/
example : Linearizable exStep 0 (Multi.history c30.m) ∧ (Multi.history c30.m (0, 0) 0).map (·.res) = some (some (6, 12)) ∧
    (Multi.history c30.m (1, 0) 0).map (·.res) = some (some (4, 7)) ∧ (Multi.history c30.m (1, 0) 1).map (·.res) = some (some (10, 13)) :=
  ⟨C07_linearizable_partial exStep 0 c30_reach, rfl, rfl, rfl⟩

/-- `applied_prefix` / `applied_agree_index`: in `c30` node 0 holds what node 1 held after two proposals; in `c17` both have applied
    raft index 2 and hold the same state -/
example : (c30.m.node 0).log = (c30.m.node 1).log.take 2 ∧ (c30.m.node 0).sm = 12 ∧ (c30.m.node 1).sm = 13 :=
  ⟨(applied_prefix exStep 0 c30_reach 0 1 (by decide)).1, rfl, rfl⟩

theorem c17_reach : CReach exStep 0 c17 :=
  .step (.step (.step (.step (.step (.step (.step (.step (.step (.step (.step (.step (.step (.step (.step (.step (.step
    .init s1) s2) s3) s4) s5) s6) s7) s8) s9) s10) s11) s12) s13) s14) s15) s16) s17

example : (c17.m.node 0).log = (c17.m.node 1).log ∧ (c17.m.node 0).sm = (c17.m.node 1).sm ∧ (c17.m.node 0).log = [⟨2, 7⟩] :=
  ⟨(applied_agree_index exStep 0 c17_reach 0 1 rfl).2.1, (applied_agree exStep 0 c17_reach 0 1 rfl).2, rfl⟩

/-- `apply_enabled`: in `c30` node 0 is one committed entry behind and can apply it -/
example : ∃ s', CStep exStep c30 s' ∧ s'.ap 0 = 4 :=
  apply_enabled exStep 0 c30_reach 0 (by esimp)

/-- `real_time_raft_index`: raft index 3 is committed in `c20`; B's second proposal is appended in `c21 → c22` and committed at index 4
    in `c25` -/
example : (3 : Nat) < 3 + 1 :=
  real_time_raft_index exStep 0 c20_reach (k := 3) (t := 1) (by dsimp') (.tail (.refl _) s21) 0 3 (by esimp)
    (s2 := c25) (.tail (.tail (.tail (.refl _) s23) s24) s25) (m := 4) (t2 := 1) (by esimp) (by esimp) (by esimp)

end example_run

/-- the hypotheses of `same_prefix_same_keyspace_partial` are satisfiable beyond the trivial log: `Exec.C07.exLog` (a log over five
    value types) consists of `Deterministic` commands; for any two environment sequences the two replicas agree on it -/
example (e1 e2 : Nat → Exec.Env) : (∀ args, args ∈ Exec.C07.exLog → Exec.C07.Deterministic args = true) ∧
    Exec.C07.runLog e1 [] Exec.C07.exLog = Exec.C07.runLog e2 [] Exec.C07.exLog := by
  have hall : ∀ args, args ∈ Exec.C07.exLog → Exec.C07.Deterministic args = true := by decide +kernel
  refine ⟨hall, ?_⟩
  have := (Exec.C07.replicas_agree _ hall e1 e2 [] Exec.C07.NoDLp.nil.noDeadlines Exec.Db.wf_nil Exec.C07.exLog.length).1
  rwa [List.take_length] at this

end C07Multi

#print axioms C07Multi.sms_prefix
#print axioms C07Multi.take_ap_step
#print axioms C07Multi.j0_raft
#print axioms C07Multi.data_pos
#print axioms C07Multi.data_pos_unique
#print axioms C07Multi.cinv_step
#print axioms C07Multi.reach_cinv
#print axioms C07Multi.shared_log_exists
#print axioms C07Multi.applied_agree
#print axioms C07Multi.applied_prefix
#print axioms C07Multi.applied_agree_index
#print axioms C07Multi.own_reply_cluster
#print axioms C07Multi.real_time_cross_node
#print axioms C07Multi.C07_linearizable_partial
#print axioms C07Multi.node_reach
#print axioms C07Multi.apply_enabled
#print axioms C07Multi.same_prefix_same_keyspace_partial
#print axioms C07Multi.real_time_raft_index
#print axioms C07Multi.C07_linearizable_keyspace_partial
#print axioms C07Multi.c30_reach
#print axioms C07Multi.c30_shared
