import RedisGoModel.Props.C08ReadyStmtA
/-! Preservation of `Inv` by the statements that change the node or externalise.  Core Lean only. -/
namespace ReadyLoop

variable {c : Cfg} {s : State} {rest : List Stmt}

/-- only the node changes (after `wal.Save`), `todo` stays -/
theorem inv_node (n' : Node) (h : Inv c s) (hw : Stmt.walWrite ∉ s.todo)
    (hhs : n'.hs = s.node.hs) (hms : n'.mustSync = s.node.mustSync)
    (hV : ∀ b v, VOk s b v → VOk { s with node := n' } b v)
    (hnode : NodeOk n')
    (hpost : s.todo ≠ [] → Post c s → Post c { s with node := n' })
    (htrig : ∀ sn, n'.trig = some sn → Stmt.trigCompact ∈ s.todo ∧ Stmt.trigFile ∉ s.todo ∧ sn.index = n'.applied ∧ 0 < sn.index ∧
      sn ∈ s.disk.files ∧ (Stmt.trigWalWrite ∉ s.todo → (sn.index, sn.term) ∈ snapRecs s.disk.all)) :
    Inv c { s with node := n' } := by
  refine
    { down := h.down, suf := h.suf, safe := h.safe, full := ?_, imgs := ?_, node := hnode, idle := h.idle,
      novote0 := h.novote0, rdW := fun hc => absurd hc hw, post := fun _ hne => hpost hne (h.post hw hne), trigF := htrig }
  · obtain ⟨v, hv, hF⟩ := h.full
    exact ⟨v, hv, by rw [hF.1]; exact hhs.symm, hV _ _ hF.2⟩
  · intro hs
    have hs' : Settled s := ⟨fun hf => by
      rcases hs.1 hf with h1 | h1
      · left; exact h1
      · right; rw [← hms]; exact h1, hs.2⟩
    intro k
    obtain ⟨v, hv, hI⟩ := h.imgs hs' k
    exact ⟨v, hv, by rw [hI.1]; exact congrArg HardState.term hhs.symm, by rw [hI.2.1]; exact congrArg HardState.vote hhs.symm, hV _ _ hI.2.2⟩

/-- promises are added that every crash image keeps -/
theorem inv_owe (o' : List Promise) (sn' : List Msg) (pb' : List Entry) (ps' : List (Nat × Nat)) (h : Inv c s) (hw : Stmt.walWrite ∉ s.todo)
    (hnew : ∀ p ∈ o', p ∈ s.owed ∨ ∀ k v, replay s.disk k = some v → p.holds v) (hnov : ∀ t, Promise.vote t 0 ∉ o') :
    Inv c { s with owed := o', sent := sn', published := pb', pubSnaps := ps' } := by
  refine
    { down := h.down, suf := h.suf, safe := ?_, full := h.full, imgs := h.imgs, node := h.node, idle := h.idle,
      novote0 := hnov, rdW := fun hc => absurd hc hw, post := fun _ hne => ?_, trigF := h.trigF }
  · intro k
    obtain ⟨v, hv, hp⟩ := h.safe k
    refine ⟨v, hv, fun p hpm => ?_⟩
    rcases hnew p hpm with h1 | h1
    · exact hp p h1
    · exact h1 k v hv
  · have hp := h.post hw hne
    exact { snapc := hp.snapc, appendF := hp.appendF, sendF := hp.sendF, pubF := hp.pubF }

/-- the node changes and `st` leaves `todo` (after `wal.Save`; disk, Ready and promises stay) -/
theorem inv_nodeT {st : Stmt} (n' : Node) (h : Inv c s) (ht : s.todo = st :: rest) (hw : Stmt.walWrite ∉ s.todo) (hne : st ≠ .advance)
    (hhs : n'.hs = s.node.hs)
    (hSet : Settled { s with node := n', todo := rest } → Settled s)
    (hV : ∀ b v, VOk s b v → VOk { s with node := n', todo := rest } b v)
    (hnode : NodeOk n')
    (hpost : Post c s → Post c { s with node := n', todo := rest })
    (htrig : ∀ sn, n'.trig = some sn → Stmt.trigCompact ∈ rest ∧ Stmt.trigFile ∉ rest ∧ sn.index = n'.applied ∧ 0 < sn.index ∧
      sn ∈ s.disk.files ∧ (Stmt.trigWalWrite ∉ rest → (sn.index, sn.term) ∈ snapRecs s.disk.all)) :
    Inv c { s with node := n', todo := rest } := by
  have hsuf : (st :: rest) ∈ tailsOf theArm := ht ▸ h.suf
  refine
    { down := h.down, suf := tails_tail hsuf, safe := h.safe, full := ?_, imgs := ?_, node := hnode, idle := ?_,
      novote0 := h.novote0, rdW := fun hc => absurd (mem_rest ht _ hc) hw, post := fun _ _ => hpost (h.post hw (by rw [ht]; simp)),
      trigF := htrig }
  · obtain ⟨v, hv, hF⟩ := h.full
    exact ⟨v, hv, by rw [hF.1]; exact hhs.symm, hV _ _ hF.2⟩
  · intro hs k
    obtain ⟨v, hv, hI⟩ := h.imgs (hSet hs) k
    exact ⟨v, hv, by rw [hI.1]; exact congrArg HardState.term hhs.symm, by rw [hI.2.1]; exact congrArg HardState.vote hhs.symm, hV _ _ hI.2.2⟩
  · intro hr
    have hr' : rest = [] := hr
    subst hr'
    exact absurd (tails_last hsuf) hne

/-! ### raftStorage.Append -/

theorem storageAppend_hs (n : Node) (es : List Entry) : (storageAppend n es).hs = n.hs := by cases es <;> rfl
theorem storageAppend_off (n : Node) (es : List Entry) : (storageAppend n es).off = n.off := by cases es <;> rfl
theorem storageAppend_trig (n : Node) (es : List Entry) : (storageAppend n es).trig = n.trig := by cases es <;> rfl
theorem storageAppend_applied (n : Node) (es : List Entry) : (storageAppend n es).applied = n.applied := by cases es <;> rfl
theorem storageAppend_snapIndex (n : Node) (es : List Entry) : (storageAppend n es).snapIndex = n.snapIndex := by cases es <;> rfl
theorem storageAppend_walState (n : Node) (es : List Entry) : (storageAppend n es).walState = n.walState := by cases es <;> rfl
theorem storageAppend_mustSync (n : Node) (es : List Entry) : (storageAppend n es).mustSync = n.mustSync := by cases es <;> rfl

theorem contig_append_chain {b : Nat} : ∀ (es l : List Entry), Contig b l → Chain es → (∀ e ∈ es.head?, e.index = b + 1 + l.length) →
    Contig b (l ++ es) := by
  intro es
  induction es with
  | nil => intro l hl _ _; simpa using hl
  | cons e es ih =>
    intro l hl hch hh
    have he : e.index = b + 1 + l.length := hh e (by simp)
    have h1 : Contig b (l ++ [e]) := by
      have := contig_snoc (u := l.length) hl (Nat.le_refl _) he
      simpa using this
    have := ih (l ++ [e]) h1 (by cases es with | nil => trivial | cons e2 r => exact hch.2)
      (by
        intro e2 he2
        cases es with
        | nil => simp at he2
        | cons e3 r => simp at he2; subst he2; have := hch.1; simp; omega)
    simpa [List.append_assoc] using this

theorem contig_take {b u : Nat} {l : List Entry} (h : Contig b l) : Contig b (l.take u) := by
  intro j e hj
  rw [List.getElem?_take] at hj
  split at hj
  · exact h j e hj
  · simp at hj

theorem contig_storageAppend {n : Node} {es : List Entry} (hc : Contig n.off n.ents) (hch : Chain es)
    (hb : ∀ e ∈ es.head?, n.off < e.index ∧ e.index ≤ n.last + 1) : Contig n.off (storageAppend n es).ents := by
  cases es with
  | nil => exact hc
  | cons e r =>
    obtain ⟨h1, h2⟩ := hb e (by simp)
    simp only [storageAppend]
    refine contig_append_chain (e :: r) _ (contig_take hc) hch ?_
    intro e' he'
    simp at he'; subst he'
    simp only [List.length_take, Node.last] at h2 ⊢
    rw [Nat.min_eq_left (by omega)]; omega

theorem inv_append (h : Inv c s) (ht : s.todo = .append :: rest) : Inv c { exec c s .append with todo := rest } := by
  have hr := tails_eq (ht ▸ h.suf); subst hr
  have hw : Stmt.walWrite ∉ s.todo := by rw [ht]; decide
  have hp := h.post hw (by rw [ht]; simp)
  have htn := trig_none h (by rw [ht]; decide)
  have eL : L s = storageAppend s.node s.rd.ents := by
    unfold L; rw [if_pos ⟨hw, by rw [ht]; decide⟩]
  have eL' : L { s with node := storageAppend s.node s.rd.ents, todo := after .append } = storageAppend s.node s.rd.ents := by
    unfold L; rw [if_neg (fun hc => absurd hc.2 (by tdec))]
  simp only [exec]
  refine inv_nodeT (s := s) _ h ht hw (by decide) (storageAppend_hs _ _) ?_ ?_ ?_ ?_ ?_
  · intro _
    exact ⟨fun hf => absurd hf (by rw [ht]; decide), fun _ => Or.inr (by rw [ht]; decide)⟩
  · intro b v hv
    have h1 := hv.1
    rw [eL] at h1
    refine ⟨by rw [eL']; exact h1, fun _ hsn => hv.2.1 hw hsn, ?_⟩
    intro sn hsn
    have : s.node.trig = some sn := by rw [← storageAppend_trig s.node s.rd.ents]; exact hsn
    rw [htn] at this; cases this
  · obtain ⟨hch, hb⟩ := hp.appendF (by rw [ht]; decide)
    exact
      { contig := by rw [storageAppend_off]; exact contig_storageAppend h.node.contig hch hb
        offc := by rw [storageAppend_off, storageAppend_hs]; exact h.node.offc
        appc := by rw [storageAppend_applied, storageAppend_hs]; exact h.node.appc
        ws := by rw [storageAppend_walState, storageAppend_hs]; exact h.node.ws }
  · intro _
    have eP : lastP { s with node := storageAppend s.node s.rd.ents, todo := after .append } = lastP s := by
      unfold lastP
      rw [eL', eL, if_neg (fun hc => absurd hc.2 (by tdec)), if_neg (fun hc => absurd hc.2 (by rw [ht]; decide))]
    exact
      { snapc := fun hsn => by
          have := hp.snapc hsn
          exact ⟨by rw [storageAppend_hs]; exact this.1, this.2⟩
        appendF := fun hc => absurd hc (by tdec)
        sendF := fun _ => by rw [eP, storageAppend_hs]; exact hp.sendF (by rw [ht]; decide)
        pubF := fun _ => by
          have h2 := hp.pubF (by rw [ht]; decide)
          rw [eL] at h2
          rw [eL', storageAppend_hs]; exact h2 }
  · intro sn hsn
    have : s.node.trig = some sn := by rw [← storageAppend_trig s.node s.rd.ents]; exact hsn
    rw [htn] at this; cases this

end ReadyLoop
