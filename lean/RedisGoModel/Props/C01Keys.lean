import RedisGoModel.Props.C01
import RedisGoModel.Props.EquivBase
/-! # C01 — the KEYS answer is THE sorted duplicate-free list of the live matching keys (`keys_reply_unique`)

`Props/C01.lean` (`c01_keys_spec`, `SpecKeys`) fixes membership and multiplicity of the KEYS reply.  Missing there: that the reply is
determined — that `sortBytes` yields an ordered list and that an ordered duplicate-free list is determined by its members.

* `sorted_nodup_unique` — two lists that are sorted in bytewise order (`BSorted`: no later element is `bytesLt` an earlier one),
  duplicate-free and have the same members are equal.
* `sortBytes_bsorted`, `sortBytes_strict` — `sortBytes l` is sorted; for a duplicate-free `l` strictly (`bytesLt` between any earlier and
  any later element).
* **`keys_reply_unique`** — on a keyspace with unique keys, the reply of `cmdKeys env db [n, pat]` is `bulks l` for EVERY list `l` that
  is sorted, duplicate-free and holds exactly the keys that are live at `env.now` and match `pat` — and such a list exists
  (`keys_reply_is_sorted`), so it is the unique one (`keys_reply_exists_unique`).
* `specKeys_deterministic` — the reference semantics `C01.SpecKeys` allows exactly one reply.
* `keys_canon_unique` — what the driver compares: for every duplicate-free listing `obs` of exactly those keys IN ANY ORDER (Go's map
  iteration), `canonReply "keys" (bulks obs) = canonReply "keys"` of the model's reply; with `keys_reply_unique` the canonical KEYS reply
  is a function of the SET of live matching keys alone (`keys_canon_of_members`). -/
namespace Exec
open Resp (Reply Bytes)

/-- sorted in bytewise order -/
def BSorted (l : List Bytes) : Prop := l.Pairwise C06T.bLe

/-- **a sorted duplicate-free list is determined by its members** -/
theorem sorted_nodup_unique {l₁ l₂ : List Bytes} (s₁ : BSorted l₁) (s₂ : BSorted l₂) (n₁ : l₁.Nodup) (n₂ : l₂.Nodup)
    (hm : ∀ k, k ∈ l₁ ↔ k ∈ l₂) : l₁ = l₂ := by
  refine List.Perm.eq_of_pairwise (le := C06T.bLe) ?_ s₁ s₂ ((List.perm_ext_iff_of_nodup n₁ n₂).mpr hm)
  intro x y _ _ hxy hyx
  exact C06T.bytesLt_tricho x y hyx hxy

theorem sortBytes_bsorted (l : List Bytes) : BSorted (sortBytes l) := C06T.sortBytes_sorted l

/-- of a duplicate-free list the sort is STRICTLY increasing -/
theorem sortBytes_strict {l : List Bytes} (hn : l.Nodup) : (sortBytes l).Pairwise (fun a b => bytesLt a b = true) := by
  have hs := sortBytes_bsorted l
  have hnd : (sortBytes l).Nodup := (C06T.sortBytes_perm l).nodup_iff.mpr hn
  unfold BSorted at hs
  have := hs.and hnd
  refine this.imp ?_
  intro a b ⟨hle, hne⟩
  cases hab : bytesLt a b with
  | true => rfl
  | false => exact absurd (C06T.bytesLt_tricho a b hab hle) hne

/-- `sortBytes l` is THE sorted duplicate-free list with the members of the duplicate-free `l` -/
theorem sortBytes_unique {l l' : List Bytes} (hn : l.Nodup) (s : BSorted l') (n' : l'.Nodup) (hm : ∀ k, k ∈ l' ↔ k ∈ l) :
    l' = sortBytes l :=
  sorted_nodup_unique s (sortBytes_bsorted l) n' ((C06T.sortBytes_perm l).nodup_iff.mpr hn)
    fun k => (hm k).trans (C06T.sortBytes_perm l).mem_iff.symm

/-- the keys KEYS must list: live at `now`, matching the pattern -/
def KeysMember (env : Env) (db : Db) (pat k : Bytes) : Prop := c01_isLive env.now db k = true ∧ GlobEq.m pat k = true

/-- the reply of KEYS is a sorted duplicate-free listing of exactly the live matching keys -/
theorem keys_reply_is_sorted (env : Env) (db : Db) (h : db.WF) (n pat : Bytes) :
    ∃ l : List Bytes, (cmdKeys env db [n, pat]).1 = bulks l ∧ BSorted l ∧ l.Nodup ∧ ∀ k, k ∈ l ↔ KeysMember env db pat k := by
  obtain ⟨l, hc, hn, hl, hm, _⟩ := c01_keys_spec env db h n pat
  refine ⟨l, by rw [hc], ?_, hn, hm⟩
  rw [hl]; exact sortBytes_bsorted _

/-- **uniqueness of the KEYS answer**: EVERY sorted duplicate-free list of exactly the live matching keys is the reply -/
theorem keys_reply_unique (env : Env) (db : Db) (h : db.WF) (n pat : Bytes) (l : List Bytes) (hs : BSorted l) (hn : l.Nodup)
    (hm : ∀ k, k ∈ l ↔ KeysMember env db pat k) : (cmdKeys env db [n, pat]).1 = bulks l := by
  obtain ⟨l₀, hc, hs₀, hn₀, hm₀⟩ := keys_reply_is_sorted env db h n pat
  rw [hc, sorted_nodup_unique hs₀ hs hn₀ hn fun k => (hm₀ k).trans (hm k).symm]

/-- existence and uniqueness together -/
theorem keys_reply_exists_unique (env : Env) (db : Db) (h : db.WF) (n pat : Bytes) :
    ∃ l : List Bytes, ((cmdKeys env db [n, pat]).1 = bulks l ∧ BSorted l ∧ l.Nodup ∧ ∀ k, k ∈ l ↔ KeysMember env db pat k) ∧
      ∀ l' : List Bytes, BSorted l' → l'.Nodup → (∀ k, k ∈ l' ↔ KeysMember env db pat k) → l' = l := by
  obtain ⟨l, hc, hs, hn, hm⟩ := keys_reply_is_sorted env db h n pat
  exact ⟨l, ⟨hc, hs, hn, hm⟩, fun l' hs' hn' hm' => sorted_nodup_unique hs' hs hn' hn fun k => (hm' k).trans (hm k).symm⟩

/-! ### through `canonReply`: any order of the same keys -/

theorem canonReply_keys (l : List Bytes) : canonReply (ofStr "keys") (bulks l) = .arr (some (sortReplies (l.map bulk))) := by
  unfold canonReply bulks arrOf
  have h1 : pairedCmds.any (fun m => ofStr m == ofStr "keys") = false := by decide +kernel
  have h2 : unorderedCmds.any (fun m => ofStr m == ofStr "keys") = true := by decide +kernel
  rw [if_neg (by rw [h1]; decide), if_pos h2]

/-- **what the driver compares**: a duplicate-free listing of exactly the live matching keys in ANY order (Go's map iteration) has the
    canonical form of the model's reply -/
theorem keys_canon_unique (env : Env) (db : Db) (h : db.WF) (n pat : Bytes) (obs : List Bytes) (hn : obs.Nodup)
    (hm : ∀ k, k ∈ obs ↔ KeysMember env db pat k) :
    canonReply (ofStr "keys") (bulks obs) = canonReply (ofStr "keys") (cmdKeys env db [n, pat]).1 := by
  obtain ⟨l, hc, _, hn₀, hm₀⟩ := keys_reply_is_sorted env db h n pat
  rw [hc, canonReply_keys, canonReply_keys]
  congr 2
  exact Equiv.sortReplies_bulks ((List.perm_ext_iff_of_nodup hn hn₀).mpr fun k => (hm k).trans (hm₀ k).symm)

/-- the canonical KEYS reply is a function of the SET of live matching keys: two keyspaces (two clock readings, two patterns) with the
    same such set give the same canonical reply — and, by `keys_reply_unique`, the same reply -/
theorem keys_reply_of_members (env env' : Env) (db db' : Db) (h : db.WF) (h' : db'.WF) (n n' pat pat' : Bytes)
    (hm : ∀ k, KeysMember env db pat k ↔ KeysMember env' db' pat' k) :
    (cmdKeys env db [n, pat]).1 = (cmdKeys env' db' [n', pat']).1 := by
  obtain ⟨l, hc, hs, hn, hml⟩ := keys_reply_is_sorted env' db' h' n' pat'
  rw [hc]
  exact keys_reply_unique env db h n pat l hs hn fun k => (hml k).trans (hm k).symm

/-! ### the reference semantics of C01 determines the KEYS reply -/

/-- `C01.SpecKeys` (what the answer must contain, in canonical order) allows exactly one reply: the whole-program refinement
    `C01_holds` therefore pins the KEYS replies down, not only their members -/
theorem specKeys_deterministic (env : Env) (ks : C01.KS) (args : List Bytes) (r r' : Reply) (ks' ks'' : C01.KS)
    (h : C01.SpecKeys env ks args r ks') (h' : C01.SpecKeys env ks args r' ks'') : r = r' ∧ ks' = ks'' := by
  unfold C01.SpecKeys at h h'
  refine ⟨?_, h.1.trans h'.1.symm⟩
  obtain ⟨_, h⟩ := h
  obtain ⟨_, h'⟩ := h'
  split at h
  · obtain ⟨l, rfl, hn, hm⟩ := h
    obtain ⟨l', rfl, hn', hm'⟩ := h'
    rw [C06T.sortBytes_of_perm ((List.perm_ext_iff_of_nodup hn hn').mpr fun k => (hm k).trans (hm' k).symm)]
  · rename_i hne
    split at h'
    · exact absurd rfl (hne _ _)
    · rw [h, h']

/-! ### the hypotheses are satisfiable -/

/-- three keys, one of them expired at time 10, one not matching `a*` -/
def exKeysDb : Db := [([97, 50], { val := .str [] }), ([98], { val := .str [] }), ([97, 49], { val := .list [[1]] }),
  ([97, 48], { val := .str [], exp := some 5 })]

example : exKeysDb.WF := by unfold Db.WF; decide
example : BSorted [[97, 49], [97, 50]] := by unfold BSorted C06T.bLe; decide
/-- the hypotheses of `keys_reply_unique` hold for some list, on this and on every keyspace with unique keys (`keys_reply_is_sorted`) -/
example : ∃ l : List Bytes, BSorted l ∧ l.Nodup ∧ ∀ k, k ∈ l ↔ KeysMember { now := 10 } exKeysDb [97, 42] k := by
  obtain ⟨l, _, hs, hn, hm⟩ := keys_reply_is_sorted { now := 10 } exKeysDb (by unfold Db.WF; decide) (ofStr "KEYS") [97, 42]
  exact ⟨l, hs, hn, hm⟩
/-- two different orders of the same two keys: only one of them is sorted -/
example : ¬ BSorted [[97, 50], [97, 49]] := by unfold BSorted C06T.bLe; decide

end Exec

#print axioms Exec.sorted_nodup_unique
#print axioms Exec.sortBytes_strict
#print axioms Exec.keys_reply_is_sorted
#print axioms Exec.keys_reply_unique
#print axioms Exec.keys_reply_exists_unique
#print axioms Exec.keys_canon_unique
#print axioms Exec.keys_reply_of_members
#print axioms Exec.specKeys_deterministic
