import RedisGoModel.Exec.Dispatch
import RedisGoModel.Generated.Commands
import RedisGoModel.Conc.TraceCheck
/-! # C04 — no client input can crash, wedge or hang the server

Full statement: for every command name and argument vector a client can send — any arity, any bytes, numeric extremes, against
missing keys and keys of every type — the server answers and keeps serving: the process does not exit, later commands on the same
key, other keys and other connections still complete; only the documented blocking commands may delay their reply, by at most
their timeout.

What is proved, and how it reaches the code:
* Every command of the executable model is a *total* Lean function `Env → Db → List Bytes → Reply × Db` (no `partial`, no `!`-access,
  no `panic`; accepted by Lean's termination checker), so the model has no crash/hang outcome for any input: `exec_total`.
* `all_registered_modelled` (closed by `decide` against the list REGENERATED from /repo's source on every run): every command the
  server registers is a command of the model — a newly registered command breaks this proof obligation.
* `TraceCheck.ok` ⇒ nothing is held when a command returns (`trace_ok_balanced`): the lock-balance clause, checked on the event
  trace (hook H2) of every enumerated vector.
* The tie is the property's own quantifier: bounded-exhaustive enumeration of (command, arity, adversarial alphabet, key of each
  type) through the real executors, each outcome compared with the total model (PANIC / HANG / nil reply are mismatches).
Partial: process liveness, sockets and the scheduler are runtime; BLPOP's wall-clock bound is measured, not proved. -/
namespace Exec
open Resp (Reply Bytes)

/-- totality: for every input there is a reply and a next keyspace (the statement is trivial *because* `exec` is a total function:
    that it is accepted as one — structural/well-founded recursion, no partial definitions — is the content) -/
theorem exec_total (env : Env) (db : Db) (args : List Bytes) : ∃ r db', exec env db args = (r, db') :=
  ⟨(exec env db args).1, (exec env db args).2, rfl⟩

/-- F1: every command registered in the Go source is known to the model -/
theorem all_registered_modelled : ∀ c ∈ Generated.commands, c ∈ modelledCommands := by decide

/-- an unknown command name answers an error and changes nothing -/
theorem unknown_command_nochange (env : Env) (db : Db) (name : Bytes) (rest : List Bytes) (h : lookupCmd (lower name) = none) :
    exec env db (name :: rest) = (.err (ofStr "ERR unknown command"), db) := by
  simp [exec, h]

/-- the empty argument vector answers an error and changes nothing -/
theorem empty_command_nochange (env : Env) (db : Db) : (exec env db []).2 = db := rfl

end Exec

namespace TraceCheck

/-- an accepted trace ends with no stripe held: every path of the command released what it acquired -/
theorem trace_ok_balanced (evs : List Ev) (h : ok evs = true) : ∃ s, run {} evs = some s ∧ s.held = [] := by
  unfold ok at h
  split at h
  · rename_i s hs
    exact ⟨s, hs, by simpa using h⟩
  · cases h

end TraceCheck
