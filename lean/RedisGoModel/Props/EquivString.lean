import RedisGoModel.Props.EquivBase
/-! Representation independence: string and generic key commands, misc commands.  Their reads of string values are equalities; the
    generic key commands (EXPIRE, PERSIST, TTL, TYPE, RENAME) look at the entry only through its deadline and its type name, or move
    it as it is; KEYS answers the *sorted* list of the live keys. -/
namespace Exec.Equiv
open Resp (Reply Bytes)
open Exec
open Snap (ValEquiv EntryEquiv OptEquiv)

theorem e_get : CmdOk cmdGet := by
  intro env a b args hs; unfold cmdGet; eq_cmd1 hs
theorem e_append : CmdOk cmdAppend := by
  intro env a b args hs; unfold cmdAppend; eq_cmd1 hs
theorem e_set : CmdOk cmdSet := by
  intro env a b args hs; unfold cmdSet; eq_cmd1 hs
theorem e_getrange : CmdOk cmdGetRange := by
  intro env a b args hs; unfold cmdGetRange; eq_cmd1 hs
theorem e_setrange : CmdOk cmdSetRange := by
  intro env a b args hs; unfold cmdSetRange; eq_cmd1 hs
theorem e_strlen : CmdOk cmdStrLen := by
  intro env a b args hs; unfold cmdStrLen; eq_cmd1 hs
theorem e_setex : CmdOk cmdSetEx := by
  intro env a b args hs; have he := hs.eqv; unfold cmdSetEx; eq_cmd1 hs
theorem e_setnx : CmdOk cmdSetNx := by
  intro env a b args hs; unfold cmdSetNx; eq_cmd1 hs

theorem e_incrBy_aux (env : Env) (a b : Db) (k : Bytes) (d : Int) (hs : Sim a b) :
    Res (incrBy env a k d) (incrBy env b k d) := by
  unfold incrBy; eq_cmd1 hs

theorem e_incr : CmdOk cmdIncr := by
  intro env a b args hs; have he := hs.eqv; unfold cmdIncr; split
  · exact e_incrBy_aux _ _ _ _ _ hs
  · eq_pair
theorem e_decr : CmdOk cmdDecr := by
  intro env a b args hs; have he := hs.eqv; unfold cmdDecr; split
  · exact e_incrBy_aux _ _ _ _ _ hs
  · eq_pair
theorem e_incrby : CmdOk cmdIncrBy := by
  intro env a b args hs; have he := hs.eqv; unfold cmdIncrBy
  repeat' (first | eq_pair | exact e_incrBy_aux _ _ _ _ _ hs | split)
theorem e_decrby : CmdOk cmdDecrBy := by
  intro env a b args hs; have he := hs.eqv; unfold cmdDecrBy
  repeat' (first | eq_pair | exact e_incrBy_aux _ _ _ _ _ hs | split)
theorem e_incrbyfloat : CmdOk cmdIncrByFloat := by
  intro env a b args hs; have he := hs.eqv; unfold cmdIncrByFloat; eq_cmd1 hs
theorem e_ping : CmdOk cmdPing := by
  intro env a b args hs; have he := hs.eqv; unfold cmdPing; eq_cmd1 hs

/-! ### commands that look at the entry itself -/

theorem e_expire : CmdOk cmdExpire := by
  intro env a b args hs; unfold cmdExpire
  repeat' (first | eq_pair_entry | eq_auto_ttl_get hs | dsimp only | split)

theorem e_persist : CmdOk cmdPersist := by
  intro env a b args hs; unfold cmdPersist
  repeat' (first | eq_pair_entry | eq_auto_ttl_get hs | dsimp only | split)

theorem e_ttl : CmdOk cmdTTL := by
  intro env a b args hs; unfold cmdTTL
  repeat' (first | eq_pair_entry | eq_auto_ttl_get hs | dsimp only | split)

theorem e_type : CmdOk cmdType := by
  intro env a b args hs; unfold cmdType
  repeat' (first | eq_pair_entry | eq_auto_ttl_get hs | dsimp only | split)

theorem e_rename : CmdOk cmdRename := by
  intro env a b args hs; unfold cmdRename
  repeat' (first | eq_pair_entry | eq_auto_ttl_get hs | dsimp only | split)

/-! ### key loops -/

theorem e_mgetLoop (now : Int) (ks : List Bytes) : ∀ (a b : Db) (acc : List Reply), Sim a b →
    (mgetLoop now a ks acc).1 = (mgetLoop now b ks acc).1 ∧ Sim (mgetLoop now a ks acc).2 (mgetLoop now b ks acc).2 := by
  induction ks with
  | nil => intro a b acc hs; exact ⟨rfl, hs⟩
  | cons k ks ih =>
    intro a b acc hs
    unfold mgetLoop
    eq_ttl hs now k
    exact ih _ _ _ ‹_›

theorem e_mget : CmdOk cmdMGet := by
  intro env a b args hs; have he := hs.eqv; unfold cmdMGet; split
  · rename_i k ks
    have h := e_mgetLoop env.now (k :: ks) a b [] hs
    revert h
    generalize mgetLoop env.now a (k :: ks) [] = pa
    generalize mgetLoop env.now b (k :: ks) [] = pb
    intro h
    exact ⟨by simp only [h.1], h.2.eqv⟩
  · eq_pair

theorem e_msetLoop : ∀ (n : Nat) (l : List Bytes), l.length ≤ n → ∀ (a b : Db), DbEquiv a b →
    DbEquiv (msetLoop a l) (msetLoop b l) := by
  intro n
  induction n with
  | zero =>
    intro l hl a b hs
    match l, hl with
    | [], _ => unfold msetLoop; exact hs
  | succ n ih =>
    intro l hl a b hs
    match l, hl with
    | [], _ => unfold msetLoop; exact hs
    | [_], _ => unfold msetLoop; exact hs
    | k :: v :: rest, hl =>
      unfold msetLoop
      exact ih rest (by simp at hl; omega) _ _ (hs.setFresh_same k _)

theorem e_mset : CmdOk cmdMSet := by
  intro env a b args hs; have he := hs.eqv; unfold cmdMSet; split
  · split
    · eq_pair
    · exact ⟨rfl, e_msetLoop _ _ (Nat.le_refl _) _ _ he⟩
  · eq_pair

theorem e_delLoop (now : Int) (ks : List Bytes) : ∀ (a b : Db) (n : Nat), Sim a b →
    (delLoop now a ks n).1 = (delLoop now b ks n).1 ∧ Sim (delLoop now a ks n).2 (delLoop now b ks n).2 := by
  induction ks with
  | nil => intro a b n hs; exact ⟨rfl, hs⟩
  | cons k ks ih =>
    intro a b n hs
    unfold delLoop
    eq_ttl hs now k
    split
    · exact ih _ _ _ (Sim.del ‹_› k)
    · exact ih _ _ _ ‹_›

theorem e_del : CmdOk cmdDel := by
  intro env a b args hs; have he := hs.eqv; unfold cmdDel; split
  · rename_i k ks
    have h := e_delLoop env.now (k :: ks) a b 0 hs
    revert h
    generalize delLoop env.now a (k :: ks) 0 = pa
    generalize delLoop env.now b (k :: ks) 0 = pb
    intro h
    exact ⟨by simp only [h.1], h.2.eqv⟩
  · eq_pair

theorem e_existsLoop (now : Int) (ks : List Bytes) : ∀ (a b : Db) (n : Nat), Sim a b →
    (existsLoop now a ks n).1 = (existsLoop now b ks n).1 ∧ Sim (existsLoop now a ks n).2 (existsLoop now b ks n).2 := by
  induction ks with
  | nil => intro a b n hs; exact ⟨rfl, hs⟩
  | cons k ks ih =>
    intro a b n hs
    unfold existsLoop
    eq_ttl hs now k
    exact ih _ _ _ ‹_›

theorem e_exists : CmdOk cmdExists := by
  intro env a b args hs; have he := hs.eqv; unfold cmdExists; split
  · rename_i k ks
    have h := e_existsLoop env.now (k :: ks) a b 0 hs
    revert h
    generalize existsLoop env.now a (k :: ks) 0 = pa
    generalize existsLoop env.now b (k :: ks) 0 = pb
    intro h
    exact ⟨by simp only [h.1], h.2.eqv⟩
  · eq_pair

/-! ### KEYS: the reply is sorted by the model itself -/

theorem liveAt_eq {e e' : Entry} (h : EntryEquiv e e') (now : Int) : e.liveAt now = e'.liveAt now := by
  unfold Entry.liveAt; rw [h.2]

theorem live_equiv {a b : Db} (hs : Sim a b) (now : Int) : DbEquiv (live a now) (live b now) := by
  intro k
  rw [get_live a hs.inva.1, get_live b hs.invb.1]
  rcases OptEquiv.cases (hs.eqv k) with ⟨ha, hb⟩ | ⟨e, e', ha, hb, hee⟩
  · rw [ha, hb]; trivial
  · rw [ha, hb]
    simp only [Option.bind_some, liveAt_eq hee now]
    split
    · exact hee
    · trivial

theorem isSome_eq {x y : Option Entry} (h : OptEquiv x y) : x.isSome = y.isSome := by
  rcases OptEquiv.cases h with ⟨rfl, rfl⟩ | ⟨e, e', rfl, rfl, _⟩ <;> rfl

theorem e_keys : CmdOk cmdKeys := by
  intro env a b args hs; have he := hs.eqv; unfold cmdKeys; split
  · rename_i pat
    have hl := live_equiv hs env.now
    have hperm : (live a env.now).keys.Perm (live b env.now).keys := by
      refine (List.perm_ext_iff_of_nodup (l₁ := (live a env.now).keys) (l₂ := (live b env.now).keys)
        (C06T.live_wf hs.inva.1 _) (C06T.live_wf hs.invb.1 _)).mpr ?_
      intro k
      rw [C06T.mem_keys_iff, C06T.mem_keys_iff, isSome_eq (hl k)]
    refine ⟨?_, hl⟩
    show bulks _ = bulks _
    rw [C06T.sortBytes_of_perm (hperm.filter _)]
  · eq_pair

/-! ### misc -/

theorem e_publish : CmdOk cmdPublishNoSubs := by
  intro env a b args hs; have he := hs.eqv; unfold cmdPublishNoSubs; eq_cmd1 hs
theorem e_member : CmdOk cmdMemberStandalone := by
  intro env a b args hs; have he := hs.eqv; unfold cmdMemberStandalone; eq_cmd1 hs
theorem e_rconf : CmdOk cmdRconfStandalone := by
  intro env a b args hs; have he := hs.eqv; unfold cmdRconfStandalone; eq_cmd1 hs

theorem string_ok : ∀ p ∈ stringKeyTable, CmdOk p.2 :=
  List.forall_mem_cons.mpr ⟨e_set, List.forall_mem_cons.mpr ⟨e_get, List.forall_mem_cons.mpr ⟨e_getrange, List.forall_mem_cons.mpr ⟨e_setrange, List.forall_mem_cons.mpr ⟨e_mget, List.forall_mem_cons.mpr ⟨e_mset, List.forall_mem_cons.mpr ⟨e_setex, List.forall_mem_cons.mpr ⟨e_setnx, List.forall_mem_cons.mpr ⟨e_strlen, List.forall_mem_cons.mpr ⟨e_incr, List.forall_mem_cons.mpr ⟨e_incrby, List.forall_mem_cons.mpr ⟨e_decr, List.forall_mem_cons.mpr ⟨e_decrby, List.forall_mem_cons.mpr ⟨e_incrbyfloat, List.forall_mem_cons.mpr ⟨e_append, List.forall_mem_cons.mpr ⟨e_ping, List.forall_mem_cons.mpr ⟨e_del, List.forall_mem_cons.mpr ⟨e_exists, List.forall_mem_cons.mpr ⟨e_keys, List.forall_mem_cons.mpr ⟨e_expire, List.forall_mem_cons.mpr ⟨e_persist, List.forall_mem_cons.mpr ⟨e_ttl, List.forall_mem_cons.mpr ⟨e_type, List.forall_mem_cons.mpr ⟨e_rename, fun _ h => nomatch h⟩⟩⟩⟩⟩⟩⟩⟩⟩⟩⟩⟩⟩⟩⟩⟩⟩⟩⟩⟩⟩⟩⟩⟩

theorem misc_ok : ∀ p ∈ miscTable, CmdOk p.2 :=
  List.forall_mem_cons.mpr ⟨e_publish, List.forall_mem_cons.mpr ⟨e_member, List.forall_mem_cons.mpr ⟨e_rconf, fun _ h => nomatch h⟩⟩⟩

end Exec.Equiv
