import RedisGoModel.Props.C16Cut
/-! C16: the record stream over a chain of any number of segment files (generalises `readAll_roundtrip_cut`). -/
namespace WalFile
open WalCodec

/-- one segment file: CRC record, data frames chained onto it, then `tail` (nothing, or preallocated zeros) -/
def fileOf (c : Nat) (items : List Item) (tail : Bytes) : Bytes :=
  encodeFrame (crcRec c) ++ (encodeAll crcUpdate c items ++ tail)

/-- the files of a chain of segments, each seeded with the rolling CRC at the cut -/
def chainFiles : Nat → List (List Item × Bytes) → List Bytes
| _, [] => []
| c, (items, tail) :: rest => fileOf c items tail :: chainFiles (crcAfter crcUpdate c items) rest

/-- the records the chain holds -/
def chainRecords : Nat → List (List Item × Bytes) → List Record
| _, [] => []
| c, (items, _) :: rest => crcRec c :: records crcUpdate c items ++ chainRecords (crcAfter crcUpdate c items) rest

def chainFuel : List (List Item × Bytes) → Nat
| [] => 1
| (items, _) :: rest => items.length + chainFuel rest + 1

def chainCrc : Nat → List (List Item × Bytes) → Nat
| c, [] => c
| c, (items, _) :: rest => chainCrc (crcAfter crcUpdate c items) rest

theorem chainFuel_pos (segs : List (List Item × Bytes)) : ∃ n, chainFuel segs = n + 1 := by
  cases segs with
  | nil => exact ⟨0, rfl⟩
  | cons s rest => exact ⟨s.1.length + chainFuel rest, rfl⟩

/-- from the end of the written part of one file through all following segment files -/
theorem recLoop_chain (segs : List (List Item × Bytes)) : ∀ (c : Nat) (d : Dec), c < 2 ^ 32 → d.done = false →
    EndOfWritten d.cur → d.rest = chainFiles c segs → (d.crc = 0 ∨ d.crc = c) →
    (∀ s ∈ segs, (∀ it ∈ s.1, ItemOk it ∧ it.type ≠ crcType) ∧ EndOfWritten s.2) → ∀ extra : Nat,
    ∃ d', recLoop (chainFuel segs + extra) d = (chainRecords c segs, .decEof, d') ∧ d'.done = true ∧
      (segs ≠ [] → d'.crc = chainCrc c segs) := by
  induction segs with
  | nil =>
    intro c d _ hdone hend hrest _ _ extra
    rw [show chainFuel [] + extra = extra + 1 by simp [chainFuel]; omega, recLoop_end _ d hdone hend hrest]
    exact ⟨_, rfl, rfl, fun h => absurd rfl h⟩
  | cons s rest ih =>
    intro c d hc hdone hend hrest hdc hok extra
    obtain ⟨items, tail⟩ := s
    obtain ⟨hitems, htail⟩ := hok (items, tail) (by simp)
    simp only [chainFiles] at hrest
    have hc' := crcAfter_lt upd32_crcUpdate items hc
    rw [show chainFuel ((items, tail) :: rest) + extra = (items.length + (chainFuel rest + extra)) + 1 by
      simp [chainFuel]; omega]
    rw [recLoop_switch _ d hdone hend _ _ hrest]
    have hd1 : ({ d with cur := fileOf c items tail, size := (fileOf c items tail).length, off := 0,
                         rest := chainFiles (crcAfter crcUpdate c items) rest } : Dec).done = false := hdone
    rw [recLoop_segment c items _ hd1 tail rfl hc hdc hitems (by simp [fileOf]) _]
    obtain ⟨D2, hD2⟩ : ∃ D2 : Dec, D2 =
        { d with cur := tail, size := (fileOf c items tail).length,
                 off := 0 + (encodeFrame (crcRec c) ++ encodeAll crcUpdate c items).length,
                 rest := chainFiles (crcAfter crcUpdate c items) rest, crc := crcAfter crcUpdate c items } := ⟨_, rfl⟩
    have e1 : D2.done = false := by rw [hD2]; exact hdone
    have e2 : D2.cur = tail := by rw [hD2]
    have e3 : D2.rest = chainFiles (crcAfter crcUpdate c items) rest := by rw [hD2]
    have e4 : D2.crc = crcAfter crcUpdate c items := by rw [hD2]
    obtain ⟨d', h1, h2, h3⟩ := ih (crcAfter crcUpdate c items) D2 hc' e1 (by rw [e2]; exact htail) e3 (Or.inr e4)
      (fun x hx => hok x (by simp [hx])) extra
    rw [← hD2, h1]
    refine ⟨d', by simp [chainRecords], h2, fun _ => ?_⟩
    cases rest with
    | nil =>
      obtain ⟨n, hn⟩ : ∃ n, chainFuel [] + extra = n + 1 := ⟨extra, by simp [chainFuel]; omega⟩
      rw [hn, recLoop_end n D2 e1 (by rw [e2]; exact htail) e3] at h1
      have := congrArg (fun x => x.2.2.crc) h1
      simp only at this
      rw [← this]; exact e4
    | cons s2 rest2 => exact h3 (by simp)

/-- **the record stream over any chain of segment files**: files as `Create` and repeated `cut`s lay them out read back,
    through the file-level decoder, as exactly the records written, ending in a clean EOF, with the decoder's CRC at the
    final rolling CRC. -/
theorem readAll_roundtrip_chain (c0 : Nat) (hc0 : c0 < 2 ^ 32) (segs : List (List Item × Bytes))
    (hok : ∀ s ∈ segs, (∀ it ∈ s.1, ItemOk it ∧ it.type ≠ crcType) ∧ EndOfWritten s.2) (extra : Nat) :
    ∃ d', recLoop (chainFuel segs + extra) (Dec.open (chainFiles c0 segs)) = (chainRecords c0 segs, .decEof, d') ∧
      d'.done = true ∧ (segs ≠ [] → d'.crc = chainCrc c0 segs) := by
  cases segs with
  | nil =>
    refine ⟨Dec.open [], ?_, rfl, fun h => absurd rfl h⟩
    obtain ⟨n, hn⟩ : ∃ n, chainFuel [] + extra = n + 1 := ⟨extra, by simp [chainFuel]; omega⟩
    rw [hn]
    simp [chainFiles, chainRecords, Dec.open, recLoop, decodeRecord]
  | cons s rest =>
    -- start from a decoder standing at the end of an empty file in front of the chain
    let d0 : Dec := { cur := [], size := 0, off := 0, rest := chainFiles c0 (s :: rest), crc := 0 }
    obtain ⟨d', h1, h2, h3⟩ := recLoop_chain (s :: rest) c0 d0 hc0 rfl (Or.inl rfl) rfl (Or.inl rfl) hok extra
    refine ⟨d', ?_, h2, h3⟩
    rw [← h1]
    obtain ⟨n, hn⟩ := chainFuel_pos (s :: rest)
    rw [hn, show n + 1 + extra = (n + extra) + 1 by omega]
    obtain ⟨items, tail⟩ := s
    rw [recLoop_switch _ d0 rfl (Or.inl rfl) _ _ rfl]
    rfl

#print axioms readAll_roundtrip_chain
end WalFile
