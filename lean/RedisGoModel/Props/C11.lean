import RedisGoModel.Exec.Set
/-! # C11 — set commands implement exact set algebra

    Theorems about the definitions the driver runs (`Exec/Set.lean`, `Ds/SetOps.lean`); core Lean only, no `sorry`.
    Throughout, `db₀`/`db₁` is the keyspace after the command's own expiry checks (`checkTTL` of its key / `checkAll` of its keys:
    an entry whose deadline has passed is deleted first — that step is C06's subject), `mems db k` is the member list a key shows
    (a missing key shows none: "missing keys count as empty sets"), and `SetsOk` is the invariant "every stored set is duplicate-free
    and non-empty".

    (1) `sadd_mem`, `srem_mem` (+ `saddAll_spec`, `sremAll_spec`): one-step membership laws — after SADD a byte string is a member iff it
        was one or is an argument, after SREM iff it was one and is not an argument; reply = change of cardinality; deadline kept;
        every other key untouched; WRONGTYPE changes nothing.  Members stay duplicate-free: part of (4).
    (2) `algebra_spec`, `sunion_is_union`, `sinter_is_inter`, `sdiff_is_diff`: the replies of SUNION/SINTER/SDIFF are exactly ∪/∩/∖ of
        the operands' members (membership characterisation, duplicate-free), keyspace unchanged, a wrong-typed key anywhere → WRONGTYPE.
    (3) `store_replaces_dest`, `sunionstore_dest`, `sinterstore_dest`, `sdiffstore_dest`: the destination afterwards shows exactly the
        result computed from the operands before the write, does not exist when the result is empty, is a set with no deadline
        otherwise (whatever type it held), reply = cardinality, all other keys unchanged; a wrong-typed source → WRONGTYPE, no change.
    (4) `set_never_empty` (every command of `setTable`, all argument lists, clocks and observed replies preserves `SetsOk`),
        `program_invariant` (hence every program of set commands from any good keyspace, e.g. the empty one: `setsOk_empty`).
    (5) `smove_nochange`, `smove_moves`: reply 0 and no change when the source is missing or lacks the member; WRONGTYPE and no change
        for a wrong-typed source/destination; otherwise the member leaves the source and enters the destination, reply 1, an emptied
        source ceases to exist, the union is conserved, other keys unchanged; source = destination changes nothing.
    (6) `spop_sound`, `spop_count_sound`, `srandmember_sound`, `srandmember_count_sound`, `srandmember_readonly`, `spop_no_set`,
        `reject_disagrees`: if the model's answer agrees with the observed reply, then the observed reply consists of current members
        only (pairwise distinct and `min count |s|` many for SPOP / positive SRANDMEMBER counts, exactly `|count|` many for negative
        counts), SPOP leaves the old set minus exactly the reported members (deleted when emptied), SRANDMEMBER leaves the set unchanged.
    (7) `reads_spec`: SCARD = number of members, SISMEMBER = membership, SMEMBERS = the member list, all of the same `mems`.

    Not covered here (reported, not stubbed): the invariant is proved for the set family's commands only — commands of other families
    interleaved in a program (SET, RENAME, EXPIRE, DEL) are not part of `program_invariant`; replies on arity/parse-error paths are
    whatever the model defines (error class only is compared); `srandLimit` is a named grey clause (a negative SRANDMEMBER count below
    −2^20 may also be refused with a non-WRONGTYPE error; Redis has no such bound).  Non-vacuity examples are at the end of the file. -/
namespace C11
open Exec Resp SetOps

/-! ### keyspace lemmas -/

theorem get_put_self (db : Db) (k : Bytes) (e : Entry) : (db.put k e).get k = some e := by
  simp [Db.put, Db.get]

theorem get_del_self (db : Db) (k : Bytes) : (db.del k).get k = none := by
  simp only [Db.get, Db.del, Option.map_eq_none_iff, List.find?_eq_none]
  intro p hp
  have := (List.mem_filter.mp hp).2
  simpa using this

theorem get_del_ne (db : Db) (k k' : Bytes) (h : k' ≠ k) : (db.del k).get k' = db.get k' := by
  have hf : (fun a : Bytes × Entry => decide ((a.1 != k) = true ∧ (a.1 == k') = true)) = (fun a => a.1 == k') := by
    funext a
    by_cases ha : a.1 = k'
    · simp [ha, h]
    · simp [ha]
  simp only [Db.del, Db.get, List.find?_filter, hf]

theorem get_put_ne (db : Db) (k k' : Bytes) (e : Entry) (h : k' ≠ k) : (db.put k e).get k' = db.get k' := by
  have hk : (k == k') = false := by simp [Ne.symm h]
  have := get_del_ne db k k' h
  simp only [Db.get, Db.put] at this ⊢
  rw [List.find?_cons_of_neg (by simp [hk])]
  exact this


theorem checkTTL_get_ne (db : Db) (now : Int) (k k' : Bytes) (h : k' ≠ k) : (checkTTL db now k).1.get k' = db.get k' := by
  unfold checkTTL
  split
  · split
    · split
      · exact get_del_ne db k k' h
      · rfl
    · rfl
  · rfl

theorem checkTTL_get_self (db : Db) (now : Int) (k : Bytes) :
    (checkTTL db now k).1.get k = db.get k ∨ (checkTTL db now k).1.get k = none := by
  unfold checkTTL
  split
  · split
    · split
      · exact Or.inr (get_del_self db k)
      · exact Or.inl rfl
    · exact Or.inl rfl
  · exact Or.inl rfl

theorem checkTTL_get (db : Db) (now : Int) (k k' : Bytes) :
    (checkTTL db now k).1.get k' = db.get k' ∨ (checkTTL db now k).1.get k' = none := by
  by_cases h : k' = k
  · subst h; exact checkTTL_get_self db now k'
  · exact Or.inl (checkTTL_get_ne db now k k' h)

/-! ### the invariant: every stored set is duplicate-free and non-empty -/

/-- a value that may be stored: a set is duplicate-free and not empty (`set_never_empty`) -/
def ValOk (v : Value) : Prop := ∀ s, v = .set s → s.Nodup ∧ s ≠ []

def SetsOk (db : Db) : Prop := ∀ k e, db.get k = some e → ValOk e.val

theorem ok_del {db : Db} (h : SetsOk db) (k : Bytes) : SetsOk (db.del k) := by
  intro k' e he
  by_cases hk : k' = k
  · subst hk; rw [get_del_self] at he; cases he
  · rw [get_del_ne db k k' hk] at he; exact h k' e he

theorem ok_put {db : Db} (h : SetsOk db) (k : Bytes) (e : Entry) (he : ValOk e.val) : SetsOk (db.put k e) := by
  intro k' e' he'
  by_cases hk : k' = k
  · subst hk; rw [get_put_self] at he'; cases he'; exact he
  · rw [get_put_ne db k k' e hk] at he'; exact h k' e' he'

theorem ok_checkTTL {db : Db} (h : SetsOk db) (now : Int) (k : Bytes) : SetsOk (checkTTL db now k).1 := by
  intro k' e he
  rcases checkTTL_get db now k k' with h' | h'
  · rw [h'] at he; exact h k' e he
  · rw [h'] at he; cases he

theorem ok_checkAll {db : Db} (h : SetsOk db) (now : Int) (keys : List Bytes) : SetsOk (checkAll now db keys) := by
  unfold checkAll
  induction keys generalizing db with
  | nil => exact h
  | cons k ks ih => exact ih (ok_checkTTL h now k)

theorem valOk_set {s : MSet} (hn : s.Nodup) (he : s ≠ []) : ValOk (.set s) := by
  intro s' hs; cases hs; exact ⟨hn, he⟩

theorem ok_putSet {db : Db} (h : SetsOk db) (k : Bytes) (s : MSet) (hn : s.Nodup) : SetsOk (putSet db k s) := by
  unfold putSet
  split
  · exact ok_del h k
  · rename_i hs
    exact ok_put h k _ (valOk_set hn (by intro e; subst e; simp at hs))

theorem ok_storeSet {db : Db} (h : SetsOk db) (k : Bytes) (s : MSet) (hn : s.Nodup) : SetsOk (storeSet db k s) := by
  unfold storeSet
  split
  · exact ok_del h k
  · rename_i hs
    exact ok_put h k _ (valOk_set hn (by intro e; subst e; simp at hs))

/-- the members of the set under `k` (a missing or wrong-typed key shows no members) -/
def mems (db : Db) (k : Bytes) : MSet := setOf (getSet db k)

theorem getSet_ok {db : Db} (h : SetsOk db) {k : Bytes} {s : MSet} (hs : getSet db k = some (some s)) : s.Nodup ∧ s ≠ [] := by
  unfold getSet at hs
  split at hs
  · cases hs
  · rename_i e he
    split at hs
    · rename_i s' hv
      cases hs
      exact h k e he s hv
    · cases hs

theorem setOf_nodup {db : Db} (h : SetsOk db) (k : Bytes) : (mems db k).Nodup := by
  unfold mems
  cases hg : getSet db k with
  | none => simp [setOf]
  | some o =>
    cases o with
    | none => simp [setOf]
    | some s => simpa [setOf] using (getSet_ok h hg).1


/-! ### SADD / SREM folds -/

theorem saddAll_gen (ms : List Bytes) : ∀ (acc : MSet) (n : Nat), acc.Nodup →
    let r := ms.foldl (fun (a : MSet × Nat) m => ((SetOps.sadd a.1 m).1, a.2 + (SetOps.sadd a.1 m).2)) (acc, n)
    r.1.Nodup ∧ (∀ y, y ∈ r.1 ↔ y ∈ acc ∨ y ∈ ms) ∧ r.1.length + n = acc.length + r.2 := by
  induction ms with
  | nil => intro acc n h; exact ⟨h, fun y => by simp, rfl⟩
  | cons x ms ih =>
    intro acc n h
    obtain ⟨h1, h2, h3⟩ := SetOps.sadd_spec acc x h
    obtain ⟨g1, g2, g3⟩ := ih (SetOps.sadd acc x).1 (n + (SetOps.sadd acc x).2) h1
    refine ⟨g1, fun y => ?_, ?_⟩
    · simp only [List.foldl_cons]
      rw [g2, h2]
      simp only [List.mem_cons]
      constructor
      · rintro ((rfl | h) | h)
        · exact Or.inr (Or.inl rfl)
        · exact Or.inl h
        · exact Or.inr (Or.inr h)
      · rintro (h | rfl | h)
        · exact Or.inl (Or.inr h)
        · exact Or.inl (Or.inl rfl)
        · exact Or.inr h
    · simp only [List.foldl_cons]
      have hl : (SetOps.sadd acc x).1.length = acc.length + (SetOps.sadd acc x).2 := by
        unfold SetOps.sadd; split <;> simp
      omega

/-- SADD: duplicate-free result, membership = old members or arguments, reply = growth of the cardinality -/
theorem saddAll_spec (s : MSet) (ms : List Bytes) (h : s.Nodup) :
    (saddAll s ms).1.Nodup ∧ (∀ y, y ∈ (saddAll s ms).1 ↔ y ∈ s ∨ y ∈ ms) ∧ (saddAll s ms).1.length = s.length + (saddAll s ms).2 := by
  have := saddAll_gen ms s 0 h
  simpa [saddAll] using this

theorem sremAll_gen (ms : List Bytes) : ∀ (acc : MSet) (n : Nat), acc.Nodup →
    let r := ms.foldl (fun (a : MSet × Nat) m => ((SetOps.srem a.1 m).1, a.2 + (SetOps.srem a.1 m).2)) (acc, n)
    r.1.Nodup ∧ (∀ y, y ∈ r.1 ↔ y ∈ acc ∧ y ∉ ms) ∧ r.1.length + r.2 = acc.length + n := by
  induction ms with
  | nil => intro acc n h; exact ⟨h, fun y => by simp, rfl⟩
  | cons x ms ih =>
    intro acc n h
    obtain ⟨h1, h2⟩ := SetOps.srem_spec acc x h
    obtain ⟨g1, g2, g3⟩ := ih (SetOps.srem acc x).1 (n + (SetOps.srem acc x).2) h1
    refine ⟨g1, fun y => ?_, ?_⟩
    · simp only [List.foldl_cons]
      rw [g2, h2]
      simp only [List.mem_cons, not_or]
      constructor
      · rintro ⟨⟨a, b⟩, c⟩; exact ⟨b, a, c⟩
      · rintro ⟨a, b, c⟩; exact ⟨⟨b, a⟩, c⟩
    · simp only [List.foldl_cons]
      have hl : (SetOps.srem acc x).1.length + (SetOps.srem acc x).2 = acc.length := by
        unfold SetOps.srem
        split
        · rename_i hx
          simp only [List.length_erase_of_mem hx]
          have : 0 < acc.length := List.length_pos_of_mem hx
          omega
        · simp
      omega

/-- SREM: duplicate-free result, membership = old members that are not arguments, reply = shrinkage of the cardinality -/
theorem sremAll_spec (s : MSet) (ms : List Bytes) (h : s.Nodup) :
    (sremAll s ms).1.Nodup ∧ (∀ y, y ∈ (sremAll s ms).1 ↔ y ∈ s ∧ y ∉ ms) ∧ (sremAll s ms).1.length + (sremAll s ms).2 = s.length := by
  have := sremAll_gen ms s 0 h
  simpa [sremAll] using this


/-! ### views of the keyspace after a write -/

theorem getSet_setVal (db : Db) (k : Bytes) (s : MSet) : getSet (db.setVal k (.set s)) k = some (some s) := by
  simp [getSet, Db.setVal, get_put_self]

theorem getSet_setFresh (db : Db) (k : Bytes) (s : MSet) : getSet (db.setFresh k (.set s)) k = some (some s) := by
  simp [getSet, Db.setFresh, get_put_self]

theorem getSet_del (db : Db) (k : Bytes) : getSet (db.del k) k = none := by
  simp [getSet, get_del_self]

theorem getSet_congr {db db' : Db} {k : Bytes} (h : db'.get k = db.get k) : getSet db' k = getSet db k := by
  simp [getSet, h]

theorem mems_congr {db db' : Db} {k : Bytes} (h : db'.get k = db.get k) : mems db' k = mems db k := by
  simp [mems, getSet_congr h]

/-- after `putSet` the key shows exactly the written members (an empty set is a deleted key) -/
theorem mems_putSet (db : Db) (k : Bytes) (s : MSet) : mems (putSet db k s) k = s := by
  unfold putSet mems
  split
  · rename_i h; rw [getSet_del]; simp at h; simp [setOf, h]
  · rw [getSet_setVal]; simp [setOf]

theorem mems_storeSet (db : Db) (k : Bytes) (s : MSet) : mems (storeSet db k s) k = s := by
  unfold storeSet mems
  split
  · rename_i h; rw [getSet_del]; simp at h; simp [setOf, h]
  · rw [getSet_setFresh]; simp [setOf]

theorem putSet_get_ne (db : Db) (k k' : Bytes) (s : MSet) (h : k' ≠ k) : (putSet db k s).get k' = db.get k' := by
  unfold putSet; split
  · exact get_del_ne db k k' h
  · exact get_put_ne db k k' _ h

theorem storeSet_get_ne (db : Db) (k k' : Bytes) (s : MSet) (h : k' ≠ k) : (storeSet db k s).get k' = db.get k' := by
  unfold storeSet; split
  · exact get_del_ne db k k' h
  · exact get_put_ne db k k' _ h

/-- `set_never_empty` at the point of the write: an emptied set ceases to exist -/
theorem putSet_empty (db : Db) (k : Bytes) : (putSet db k []).get k = none := by
  simp [putSet, get_del_self]

theorem storeSet_empty (db : Db) (k : Bytes) : (storeSet db k []).get k = none := by
  simp [storeSet, get_del_self]

/-- a non-empty STORE result is installed as a set with no deadline, whatever the destination held -/
theorem storeSet_nonempty (db : Db) (k : Bytes) (s : MSet) (h : s ≠ []) :
    (storeSet db k s).get k = some { val := .set s, exp := none } := by
  have : s.isEmpty = false := by cases s <;> simp_all
  simp [storeSet, this, Db.setFresh, get_put_self]

/-! ### (1) SADD / SREM: membership laws -/

theorem cmdSAdd_eq (env : Env) (db : Db) (c k m : Bytes) (ms : List Bytes) :
    cmdSAdd env db (c :: k :: m :: ms) =
      (match getSet (checkTTL db env.now k).1 k with
       | some none => (wrongType, (checkTTL db env.now k).1)
       | r => (.int (saddAll (setOf r) (m :: ms)).2,
               (checkTTL db env.now k).1.setVal k (.set (saddAll (setOf r) (m :: ms)).1))) := rfl

theorem cmdSRem_eq (env : Env) (db : Db) (c k m : Bytes) (ms : List Bytes) :
    cmdSRem env db (c :: k :: m :: ms) =
      (match getSet (checkTTL db env.now k).1 k with
       | none => (.int 0, (checkTTL db env.now k).1)
       | some none => (wrongType, (checkTTL db env.now k).1)
       | some (some s) => (.int (sremAll s (m :: ms)).2, putSet (checkTTL db env.now k).1 k (sremAll s (m :: ms)).1)) := rfl

/-- `mem_iff`, SADD step: on a key that does not hold another type, afterwards a byte string is a member iff it was one or is an
    argument; the reply is the growth of the cardinality; the deadline and every other key are untouched.  On a wrong-typed key:
    WRONGTYPE and no change.  (`db₀` is the keyspace after the expiry check of `k`.) -/
theorem sadd_mem (env : Env) (db : Db) (c k m : Bytes) (ms : List Bytes) (hok : SetsOk db) :
    let db₀ := (checkTTL db env.now k).1
    let r := cmdSAdd env db (c :: k :: m :: ms)
    (getSet db₀ k = some none → r = (wrongType, db₀)) ∧
    (getSet db₀ k ≠ some none →
      (∀ y, y ∈ mems r.2 k ↔ y ∈ mems db₀ k ∨ y ∈ m :: ms) ∧
      (∃ n : Nat, r.1 = .int n ∧ (mems r.2 k).length = (mems db₀ k).length + n) ∧
      (r.2.get k).bind (·.exp) = (db₀.get k).bind (·.exp) ∧
      ∀ k', k' ≠ k → r.2.get k' = db.get k') := by
  intro db₀ r
  have hok₀ : SetsOk db₀ := ok_checkTTL hok env.now k
  have hnd := setOf_nodup hok₀ k
  obtain ⟨_, s2, s3⟩ := saddAll_spec (mems db₀ k) (m :: ms) hnd
  constructor
  · intro hw
    show cmdSAdd env db (c :: k :: m :: ms) = _
    rw [cmdSAdd_eq]; simp only [db₀] at hw; rw [hw]
  · intro hw
    have hr : r = (.int (saddAll (mems db₀ k) (m :: ms)).2, db₀.setVal k (.set (saddAll (mems db₀ k) (m :: ms)).1)) := by
      show cmdSAdd env db (c :: k :: m :: ms) = _
      rw [cmdSAdd_eq]
      split
      · rename_i h; exact absurd h hw
      · rfl
    rw [hr]
    have hm : mems (db₀.setVal k (.set (saddAll (mems db₀ k) (m :: ms)).1)) k = (saddAll (mems db₀ k) (m :: ms)).1 := by
      simp [mems, getSet_setVal, setOf]
    refine ⟨fun y => ?_, ⟨_, rfl, ?_⟩, ?_, fun k' hk' => ?_⟩
    · simp only [hm]; exact s2 y
    · simp only [hm]; exact s3
    · simp [Db.setVal, get_put_self]
    · simp only [Db.setVal]; rw [get_put_ne _ _ _ _ hk']; exact checkTTL_get_ne db env.now k k' hk'

/-- `mem_iff`, SREM step: afterwards a byte string is a member iff it was one and is not an argument; the reply is the shrinkage
    of the cardinality; an emptied set ceases to exist; every other key is untouched -/
theorem srem_mem (env : Env) (db : Db) (c k m : Bytes) (ms : List Bytes) (hok : SetsOk db) :
    let db₀ := (checkTTL db env.now k).1
    let r := cmdSRem env db (c :: k :: m :: ms)
    (getSet db₀ k = some none → r = (wrongType, db₀)) ∧
    (getSet db₀ k ≠ some none →
      (∀ y, y ∈ mems r.2 k ↔ y ∈ mems db₀ k ∧ y ∉ m :: ms) ∧
      (∃ n : Nat, r.1 = .int n ∧ (mems r.2 k).length + n = (mems db₀ k).length) ∧
      (mems r.2 k = [] → r.2.get k = none) ∧
      ∀ k', k' ≠ k → r.2.get k' = db.get k') := by
  intro db₀ r
  have hok₀ : SetsOk db₀ := ok_checkTTL hok env.now k
  constructor
  · intro hw
    show cmdSRem env db (c :: k :: m :: ms) = _
    rw [cmdSRem_eq]; simp only [db₀] at hw; rw [hw]
  · intro hw
    cases hg : getSet db₀ k with
    | none =>
      have hr : r = (.int 0, db₀) := by
        show cmdSRem env db (c :: k :: m :: ms) = _
        rw [cmdSRem_eq]; simp only [db₀] at hg; rw [hg]
      have hm : mems db₀ k = [] := by simp [mems, hg, setOf]
      rw [hr]
      refine ⟨fun y => by simp [hm], ⟨0, rfl, by simp⟩, fun _ => ?_, fun k' hk' => checkTTL_get_ne db env.now k k' hk'⟩
      unfold getSet at hg
      split at hg
      · assumption
      · split at hg <;> cases hg
    | some o =>
      cases o with
      | none => exact absurd hg hw
      | some s =>
        have hr : r = (.int (sremAll s (m :: ms)).2, putSet db₀ k (sremAll s (m :: ms)).1) := by
          show cmdSRem env db (c :: k :: m :: ms) = _
          rw [cmdSRem_eq]; simp only [db₀] at hg; rw [hg]
        have hm : mems db₀ k = s := by simp [mems, hg, setOf]
        obtain ⟨_, s2, s3⟩ := sremAll_spec s (m :: ms) (getSet_ok hok₀ hg).1
        rw [hr, hm]
        refine ⟨fun y => ?_, ⟨_, rfl, ?_⟩, fun he => ?_, fun k' hk' => ?_⟩
        · simp only [mems_putSet]; exact s2 y
        · simp only [mems_putSet]; exact s3
        · simp only [mems_putSet] at he; simp only [he]; exact putSet_empty db₀ k
        · simp only []; rw [putSet_get_ne _ _ _ _ hk']; exact checkTTL_get_ne db env.now k k' hk'


/-! ### (2) SUNION / SINTER / SDIFF: the replies are the mathematical ∪ / ∩ / ∖ -/

theorem mems_missing {db : Db} {k : Bytes} (h : db.get k = none) : mems db k = [] := by
  simp [mems, getSet, h, setOf]

theorem checkAll_get (now : Int) (keys : List Bytes) : ∀ (db : Db) (k' : Bytes),
    (checkAll now db keys).get k' = db.get k' ∨ (checkAll now db keys).get k' = none := by
  induction keys with
  | nil => intro db k'; exact Or.inl rfl
  | cons k ks ih =>
    intro db k'
    show (checkAll now (checkTTL db now k).1 ks).get k' = _ ∨ _
    rcases ih (checkTTL db now k).1 k' with h | h
    · rcases checkTTL_get db now k k' with g | g
      · exact Or.inl (h.trans g)
      · exact Or.inr (h.trans g)
    · exact Or.inr h

theorem checkAll_get_notin (now : Int) (keys : List Bytes) : ∀ (db : Db) (k' : Bytes), k' ∉ keys →
    (checkAll now db keys).get k' = db.get k' := by
  induction keys with
  | nil => intro db k' _; rfl
  | cons k ks ih =>
    intro db k' hn
    show (checkAll now (checkTTL db now k).1 ks).get k' = _
    rw [ih _ _ (fun h => hn (List.mem_cons_of_mem _ h))]
    exact checkTTL_get_ne db now k k' (fun e => hn (e ▸ List.mem_cons_self))

/-- operand collection: every key stands for its members (a missing key for the empty set), unless some key holds another type -/
theorem collect_spec (db : Db) (keys : List Bytes) :
    ((∀ k ∈ keys, getSet db k ≠ some none) → collect db keys = some (keys.map (mems db))) ∧
    ((∃ k ∈ keys, getSet db k = some none) → collect db keys = none) := by
  induction keys with
  | nil => exact ⟨fun _ => rfl, fun ⟨k, hk, _⟩ => by cases hk⟩
  | cons k ks ih =>
    constructor
    · intro h
      have h1 := h k List.mem_cons_self
      have h2 := ih.1 (fun k' hk' => h k' (List.mem_cons_of_mem _ hk'))
      simp only [collect, h2]
      rfl
    · rintro ⟨k', hk', hw⟩
      simp only [collect]
      split
      · rfl
      · rfl
      · rename_i r rest sets hc hne
        rcases List.mem_cons.mp hk' with rfl | hin
        · exact absurd hw hne
        · rw [ih.2 ⟨k', hin, hw⟩] at hc; cases hc

theorem algebra_eq (op : List MSet → MSet) (env : Env) (db : Db) (c k : Bytes) (ks : List Bytes) :
    algebra op env db (c :: k :: ks) =
      (match collect (checkAll env.now db (k :: ks)) (k :: ks) with
       | none => (wrongType, checkAll env.now db (k :: ks))
       | some sets => (bulks (op sets), checkAll env.now db (k :: ks))) := rfl

/-- SUNION/SINTER/SDIFF never change the keyspace beyond the expiry checks; a wrong-typed key anywhere gives WRONGTYPE; otherwise
    the reply lists `op` of the operands, a missing key counting as the empty set -/
theorem algebra_spec (op : List MSet → MSet) (env : Env) (db : Db) (c k : Bytes) (ks : List Bytes) :
    let db₁ := checkAll env.now db (k :: ks)
    let r := algebra op env db (c :: k :: ks)
    r.2 = db₁ ∧
    ((∃ key ∈ k :: ks, getSet db₁ key = some none) → r.1 = wrongType) ∧
    ((∀ key ∈ k :: ks, getSet db₁ key ≠ some none) → r.1 = bulks (op ((k :: ks).map (mems db₁)))) := by
  intro db₁ r
  have hr : r = _ := algebra_eq op env db c k ks
  refine ⟨?_, fun hw => ?_, fun hall => ?_⟩
  · rw [hr]; split <;> rfl
  · rw [hr, (collect_spec db₁ (k :: ks)).2 hw]
  · rw [hr, (collect_spec db₁ (k :: ks)).1 hall]

/-- SUNION = ⋃ -/
theorem sunion_is_union (env : Env) (db : Db) (c k : Bytes) (ks : List Bytes) :
    let db₁ := checkAll env.now db (k :: ks)
    (∀ key ∈ k :: ks, getSet db₁ key ≠ some none) →
    ∃ res : MSet, (cmdSUnion env db (c :: k :: ks)).1 = bulks res ∧ res.Nodup ∧
      ∀ x, x ∈ res ↔ ∃ key ∈ k :: ks, x ∈ mems db₁ key := by
  intro db₁ hall
  refine ⟨_, (algebra_spec SetOps.sunion env db c k ks).2.2 hall, (SetOps.sunion_spec _).1, fun x => ?_⟩
  rw [(SetOps.sunion_spec _).2]
  constructor
  · rintro ⟨s, hs, hx⟩
    obtain ⟨key, hkey, rfl⟩ := List.mem_map.mp hs
    exact ⟨key, hkey, hx⟩
  · rintro ⟨key, hkey, hx⟩
    exact ⟨_, List.mem_map.mpr ⟨key, hkey, rfl⟩, hx⟩

/-- SINTER = ⋂ (a missing key is the empty set, so the result is then empty) -/
theorem sinter_is_inter (env : Env) (db : Db) (c k : Bytes) (ks : List Bytes) (hok : SetsOk db) :
    let db₁ := checkAll env.now db (k :: ks)
    (∀ key ∈ k :: ks, getSet db₁ key ≠ some none) →
    ∃ res : MSet, (cmdSInter env db (c :: k :: ks)).1 = bulks res ∧ res.Nodup ∧
      ∀ x, x ∈ res ↔ ∀ key ∈ k :: ks, x ∈ mems db₁ key := by
  intro db₁ hall
  have hnd := setOf_nodup (ok_checkAll hok env.now (k :: ks)) k
  refine ⟨_, (algebra_spec SetOps.sinter env db c k ks).2.2 hall, ?_, fun x => ?_⟩
  · exact (SetOps.sinter_spec _ _ hnd).1
  · show x ∈ SetOps.sinter (mems db₁ k :: ks.map (mems db₁)) ↔ _
    rw [(SetOps.sinter_spec _ _ hnd).2]
    simp only [List.mem_map, List.mem_cons, forall_eq_or_imp]
    constructor
    · rintro ⟨h1, h2⟩; exact ⟨h1, fun key hkey => h2 _ ⟨key, hkey, rfl⟩⟩
    · rintro ⟨h1, h2⟩; exact ⟨h1, fun s ⟨key, hkey, e⟩ => e ▸ h2 key hkey⟩

/-- SDIFF = first ∖ ⋃ rest -/
theorem sdiff_is_diff (env : Env) (db : Db) (c k : Bytes) (ks : List Bytes) (hok : SetsOk db) :
    let db₁ := checkAll env.now db (k :: ks)
    (∀ key ∈ k :: ks, getSet db₁ key ≠ some none) →
    ∃ res : MSet, (cmdSDiff env db (c :: k :: ks)).1 = bulks res ∧ res.Nodup ∧
      ∀ x, x ∈ res ↔ x ∈ mems db₁ k ∧ ∀ key ∈ ks, x ∉ mems db₁ key := by
  intro db₁ hall
  have hnd := setOf_nodup (ok_checkAll hok env.now (k :: ks)) k
  refine ⟨_, (algebra_spec SetOps.sdiff env db c k ks).2.2 hall, ?_, fun x => ?_⟩
  · exact (SetOps.sdiff_spec _ _ hnd).1
  · show x ∈ SetOps.sdiff (mems db₁ k :: ks.map (mems db₁)) ↔ _
    rw [(SetOps.sdiff_spec _ _ hnd).2]
    simp only [List.mem_map]
    constructor
    · rintro ⟨h1, h2⟩; exact ⟨h1, fun key hkey => h2 _ ⟨key, hkey, rfl⟩⟩
    · rintro ⟨h1, h2⟩; exact ⟨h1, fun s ⟨key, hkey, e⟩ => e ▸ h2 key hkey⟩


/-! ### (3) the STORE forms -/

theorem union_mem (db : Db) (keys : List Bytes) (x : Bytes) :
    x ∈ SetOps.sunion (keys.map (mems db)) ↔ ∃ key ∈ keys, x ∈ mems db key := by
  rw [(SetOps.sunion_spec _).2]
  constructor
  · rintro ⟨s, hs, hx⟩
    obtain ⟨key, hkey, rfl⟩ := List.mem_map.mp hs
    exact ⟨key, hkey, hx⟩
  · rintro ⟨key, hkey, hx⟩
    exact ⟨_, List.mem_map.mpr ⟨key, hkey, rfl⟩, hx⟩

theorem inter_mem (db : Db) (k : Bytes) (ks : List Bytes) (hnd : (mems db k).Nodup) (x : Bytes) :
    x ∈ SetOps.sinter ((k :: ks).map (mems db)) ↔ ∀ key ∈ k :: ks, x ∈ mems db key := by
  show x ∈ SetOps.sinter (mems db k :: ks.map (mems db)) ↔ _
  rw [(SetOps.sinter_spec _ _ hnd).2]
  simp only [List.mem_map, List.mem_cons, forall_eq_or_imp]
  constructor
  · rintro ⟨h1, h2⟩; exact ⟨h1, fun key hkey => h2 _ ⟨key, hkey, rfl⟩⟩
  · rintro ⟨h1, h2⟩; exact ⟨h1, fun s ⟨key, hkey, e⟩ => e ▸ h2 key hkey⟩

theorem diff_mem (db : Db) (k : Bytes) (ks : List Bytes) (hnd : (mems db k).Nodup) (x : Bytes) :
    x ∈ SetOps.sdiff ((k :: ks).map (mems db)) ↔ x ∈ mems db k ∧ ∀ key ∈ ks, x ∉ mems db key := by
  show x ∈ SetOps.sdiff (mems db k :: ks.map (mems db)) ↔ _
  rw [(SetOps.sdiff_spec _ _ hnd).2]
  simp only [List.mem_map]
  constructor
  · rintro ⟨h1, h2⟩; exact ⟨h1, fun key hkey => h2 _ ⟨key, hkey, rfl⟩⟩
  · rintro ⟨h1, h2⟩; exact ⟨h1, fun s ⟨key, hkey, e⟩ => e ▸ h2 key hkey⟩

theorem algebraStore_eq (op : List MSet → MSet) (env : Env) (db : Db) (c d k : Bytes) (ks : List Bytes) :
    algebraStore op env db (c :: d :: k :: ks) =
      (match collect (checkAll env.now db (d :: k :: ks)) (k :: ks) with
       | none => (wrongType, checkAll env.now db (d :: k :: ks))
       | some sets => (.int (op sets).length, storeSet (checkAll env.now db (d :: k :: ks)) d (op sets))) := rfl

/-- `store_replaces_dest`: with `res` = `op` of the operands (missing key = empty set) read *before* the write, the reply is `|res|`,
    the destination afterwards shows exactly `res`, it does not exist when `res` is empty and is a set without deadline otherwise
    (whatever it held before, any type), and every other key — in particular every source other than the destination — is unchanged.
    A wrong-typed source anywhere: WRONGTYPE and nothing changes. -/
theorem store_replaces_dest (op : List MSet → MSet) (env : Env) (db : Db) (c d k : Bytes) (ks : List Bytes) :
    let db₁ := checkAll env.now db (d :: k :: ks)
    let r := algebraStore op env db (c :: d :: k :: ks)
    let res := op ((k :: ks).map (mems db₁))
    ((∃ key ∈ k :: ks, getSet db₁ key = some none) → r = (wrongType, db₁)) ∧
    ((∀ key ∈ k :: ks, getSet db₁ key ≠ some none) →
      r.1 = .int res.length ∧ mems r.2 d = res ∧
      (res = [] → r.2.get d = none) ∧
      (res ≠ [] → r.2.get d = some { val := .set res, exp := none }) ∧
      ∀ k', k' ≠ d → r.2.get k' = db₁.get k') := by
  intro db₁ r res
  have hr : r = _ := algebraStore_eq op env db c d k ks
  constructor
  · intro hw
    rw [hr, (collect_spec db₁ (k :: ks)).2 hw]
  · intro hall
    have hr' : r = (.int res.length, storeSet db₁ d res) := by
      rw [hr, (collect_spec db₁ (k :: ks)).1 hall]
    rw [hr']
    refine ⟨rfl, mems_storeSet _ _ _, fun he => ?_, fun hne => storeSet_nonempty _ _ _ hne, fun k' hk' => storeSet_get_ne _ _ _ _ hk'⟩
    simp only [he]; exact storeSet_empty db₁ d

/-- SUNIONSTORE: the destination holds exactly the union -/
theorem sunionstore_dest (env : Env) (db : Db) (c d k : Bytes) (ks : List Bytes) :
    let db₁ := checkAll env.now db (d :: k :: ks)
    let r := cmdSUnionStore env db (c :: d :: k :: ks)
    (∀ key ∈ k :: ks, getSet db₁ key ≠ some none) →
    (∀ x, x ∈ mems r.2 d ↔ ∃ key ∈ k :: ks, x ∈ mems db₁ key) ∧ (mems r.2 d).Nodup ∧ r.1 = .int (mems r.2 d).length := by
  intro db₁ r hall
  obtain ⟨h1, h2, _⟩ := (store_replaces_dest SetOps.sunion env db c d k ks).2 hall
  have h2' : mems r.2 d = SetOps.sunion ((k :: ks).map (mems db₁)) := h2
  refine ⟨fun x => ?_, ?_, ?_⟩
  · rw [h2']; exact union_mem db₁ (k :: ks) x
  · rw [h2']; exact (SetOps.sunion_spec _).1
  · rw [h2']; exact h1

/-- SINTERSTORE: the destination holds exactly the intersection -/
theorem sinterstore_dest (env : Env) (db : Db) (c d k : Bytes) (ks : List Bytes) (hok : SetsOk db) :
    let db₁ := checkAll env.now db (d :: k :: ks)
    let r := cmdSInterStore env db (c :: d :: k :: ks)
    (∀ key ∈ k :: ks, getSet db₁ key ≠ some none) →
    (∀ x, x ∈ mems r.2 d ↔ ∀ key ∈ k :: ks, x ∈ mems db₁ key) ∧ (mems r.2 d).Nodup ∧ r.1 = .int (mems r.2 d).length := by
  intro db₁ r hall
  have hnd := setOf_nodup (ok_checkAll hok env.now (d :: k :: ks)) k
  obtain ⟨h1, h2, _⟩ := (store_replaces_dest SetOps.sinter env db c d k ks).2 hall
  have h2' : mems r.2 d = SetOps.sinter ((k :: ks).map (mems db₁)) := h2
  refine ⟨fun x => ?_, ?_, ?_⟩
  · rw [h2']; exact inter_mem db₁ k ks hnd x
  · rw [h2']; exact (SetOps.sinter_spec _ _ hnd).1
  · rw [h2']; exact h1

/-- SDIFFSTORE: the destination holds exactly the difference -/
theorem sdiffstore_dest (env : Env) (db : Db) (c d k : Bytes) (ks : List Bytes) (hok : SetsOk db) :
    let db₁ := checkAll env.now db (d :: k :: ks)
    let r := cmdSDiffStore env db (c :: d :: k :: ks)
    (∀ key ∈ k :: ks, getSet db₁ key ≠ some none) →
    (∀ x, x ∈ mems r.2 d ↔ x ∈ mems db₁ k ∧ ∀ key ∈ ks, x ∉ mems db₁ key) ∧ (mems r.2 d).Nodup ∧ r.1 = .int (mems r.2 d).length := by
  intro db₁ r hall
  have hnd := setOf_nodup (ok_checkAll hok env.now (d :: k :: ks)) k
  obtain ⟨h1, h2, _⟩ := (store_replaces_dest SetOps.sdiff env db c d k ks).2 hall
  have h2' : mems r.2 d = SetOps.sdiff ((k :: ks).map (mems db₁)) := h2
  refine ⟨fun x => ?_, ?_, ?_⟩
  · rw [h2']; exact diff_mem db₁ k ks hnd x
  · rw [h2']; exact (SetOps.sdiff_spec _ _ hnd).1
  · rw [h2']; exact h1


/-! ### (5) SMOVE -/

/-- the body of SMOVE on the keyspace `D` left by the expiry checks -/
def smoveOn (D : Db) (src dst m : Bytes) : Reply × Db :=
  match getSet D src with
  | none => (.int 0, D)
  | some none => (wrongType, D)
  | some (some s) =>
    match getSet D dst with
    | some none => (wrongType, D)
    | d =>
      if src == dst then (.int (if m ∈ s then 1 else 0), D)
      else if m ∈ s then (.int 1, (putSet D src (s.erase m)).setVal dst (.set (SetOps.sadd (setOf d) m).1))
      else (.int 0, D)

theorem cmdSMove_eq (env : Env) (db : Db) (c src dst m : Bytes) :
    cmdSMove env db [c, src, dst, m] = smoveOn (checkAll env.now db [dst, src]) src dst m := rfl

theorem smoveOn_ok (D : Db) (src dst m : Bytes) (s : MSet) (h1 : getSet D src = some (some s)) (h2 : getSet D dst ≠ some none) :
    smoveOn D src dst m =
      if src == dst then (.int (if m ∈ s then 1 else 0), D)
      else if m ∈ s then (.int 1, (putSet D src (s.erase m)).setVal dst (.set (SetOps.sadd (mems D dst) m).1))
      else (.int 0, D) := by
  unfold smoveOn mems
  rw [h1]
  cases hd : getSet D dst with
  | none => rfl
  | some o => cases o with
    | none => exact absurd hd h2
    | some t => rfl

/-- SMOVE, the cases in which nothing changes: missing source (reply 0, even if the destination holds another type), a wrong-typed
    source or destination (WRONGTYPE), a member that is not in the source (reply 0), source = destination (reply 1/0 = membership) -/
theorem smove_nochange (env : Env) (db : Db) (c src dst m : Bytes) :
    let db₁ := checkAll env.now db [dst, src]
    let r := cmdSMove env db [c, src, dst, m]
    (getSet db₁ src = none → r = (.int 0, db₁)) ∧
    (getSet db₁ src = some none → r = (wrongType, db₁)) ∧
    (getSet db₁ src ≠ none → getSet db₁ dst = some none → r = (wrongType, db₁)) ∧
    (∀ s, getSet db₁ src = some (some s) → getSet db₁ dst ≠ some none →
      (m ∉ s → r = (.int 0, db₁)) ∧ (m ∈ s → src = dst → r = (.int 1, db₁))) := by
  intro db₁ r
  have hr : r = smoveOn db₁ src dst m := cmdSMove_eq env db c src dst m
  refine ⟨fun h => ?_, fun h => ?_, fun h1 h2 => ?_, fun s h1 h2 => ⟨fun hm => ?_, fun hm he => ?_⟩⟩
  · rw [hr]; unfold smoveOn; rw [h]
  · rw [hr]; unfold smoveOn; rw [h]
  · rw [hr]; unfold smoveOn
    cases hs : getSet db₁ src with
    | none => exact absurd hs h1
    | some o => cases o with
      | none => rfl
      | some s => simp only [h2]
  · rw [hr, smoveOn_ok db₁ src dst m s h1 h2]
    by_cases he : src = dst <;> simp [he, hm]
  · rw [hr, smoveOn_ok db₁ src dst m s h1 h2]
    simp [he, hm]

/-- SMOVE, the move: the member leaves the source and enters the destination, the reply is 1, an emptied source ceases to exist,
    the union of the two sets is conserved, every other key is unchanged -/
theorem smove_moves (env : Env) (db : Db) (c src dst m : Bytes) (hok : SetsOk db) (s : MSet) :
    let db₁ := checkAll env.now db [dst, src]
    let r := cmdSMove env db [c, src, dst, m]
    getSet db₁ src = some (some s) → getSet db₁ dst ≠ some none → m ∈ s → src ≠ dst →
      r.1 = .int 1 ∧
      (∀ y, y ∈ mems r.2 src ↔ y ∈ s ∧ y ≠ m) ∧
      (∀ y, y ∈ mems r.2 dst ↔ y = m ∨ y ∈ mems db₁ dst) ∧
      (mems r.2 src).Nodup ∧ (mems r.2 dst).Nodup ∧
      (mems r.2 src = [] → r.2.get src = none) ∧
      (∀ y, (y ∈ mems r.2 src ∨ y ∈ mems r.2 dst) ↔ (y ∈ s ∨ y ∈ mems db₁ dst)) ∧
      ∀ k', k' ≠ src → k' ≠ dst → r.2.get k' = db₁.get k' := by
  intro db₁ r h1 h2 hm hne
  have hok₁ : SetsOk db₁ := ok_checkAll hok env.now [dst, src]
  have hsn : s.Nodup := (getSet_ok hok₁ h1).1
  have hdn : (mems db₁ dst).Nodup := setOf_nodup hok₁ dst
  have hr : r = (.int 1, (putSet db₁ src (s.erase m)).setVal dst (.set (SetOps.sadd (mems db₁ dst) m).1)) := by
    show cmdSMove env db [c, src, dst, m] = _
    rw [cmdSMove_eq]
    show smoveOn db₁ src dst m = _
    rw [smoveOn_ok db₁ src dst m s h1 h2]
    simp [hne, hm]
  have hsrc : mems r.2 src = s.erase m := by
    rw [hr]
    have : ((putSet db₁ src (s.erase m)).setVal dst (.set (SetOps.sadd (mems db₁ dst) m).1)).get src
        = (putSet db₁ src (s.erase m)).get src := get_put_ne _ _ _ _ hne
    rw [mems_congr this, mems_putSet]
  have hdst : mems r.2 dst = (SetOps.sadd (mems db₁ dst) m).1 := by
    rw [hr]; simp [mems, getSet_setVal, setOf]
  obtain ⟨a1, a2, _⟩ := SetOps.sadd_spec (mems db₁ dst) m hdn
  have e1 : ∀ y, y ∈ mems r.2 src ↔ y ∈ s ∧ y ≠ m := fun y => by
    rw [hsrc, hsn.mem_erase_iff]; exact ⟨fun ⟨a, b⟩ => ⟨b, a⟩, fun ⟨a, b⟩ => ⟨b, a⟩⟩
  have e2 : ∀ y, y ∈ mems r.2 dst ↔ y = m ∨ y ∈ mems db₁ dst := fun y => by rw [hdst]; exact a2 y
  refine ⟨by rw [hr], e1, e2, by rw [hsrc]; exact hsn.erase m, by rw [hdst]; exact a1, fun he => ?_, fun y => ?_, fun k' g1 g2 => ?_⟩
  · rw [hsrc] at he
    rw [hr]
    show ((putSet db₁ src (s.erase m)).setVal dst _).get src = none
    rw [Db.setVal, get_put_ne _ _ _ _ hne, he]; exact putSet_empty db₁ src
  · rw [e1, e2]
    constructor
    · rintro (⟨a, _⟩ | rfl | b)
      · exact Or.inl a
      · exact Or.inl hm
      · exact Or.inr b
    · rintro (a | b)
      · by_cases hy : y = m
        · exact Or.inr (Or.inl hy)
        · exact Or.inl ⟨a, hy⟩
      · exact Or.inr (Or.inr b)
  · rw [hr]
    show ((putSet db₁ src (s.erase m)).setVal dst _).get k' = _
    rw [Db.setVal, get_put_ne _ _ _ _ g2, putSet_get_ne _ _ _ _ g1]


/-! ### (6) checker mode is sound: an accepted SPOP / SRANDMEMBER reply names current members only -/

theorem reject_disagrees (obs : Reply) : replyAgrees (reject (some obs)) obs = false := by
  cases obs <;> simp [reject, replyAgrees, replyEq]

theorem bulkMembers_eq : ∀ (l : List Reply) (ms : List Bytes), bulkMembers l = some ms → l = ms.map bulk := by
  intro l
  induction l with
  | nil => intro ms h; simp [bulkMembers] at h; subst h; rfl
  | cons a l ih =>
    intro ms h
    cases a with
    | bulk b =>
      cases b with
      | none => simp [bulkMembers] at h
      | some m =>
        simp only [bulkMembers, Option.map_eq_some_iff] at h
        obtain ⟨ms', h1, rfl⟩ := h
        rw [ih ms' h1]; rfl
    | _ => simp [bulkMembers] at h

theorem nodupB_iff (ms : List Bytes) : nodupB ms = true ↔ ms.Nodup := by
  induction ms with
  | nil => simp [nodupB]
  | cons m ms ih => simp [nodupB, ih]

theorem allMem_iff (ms : List Bytes) (s : MSet) : allMem ms s = true ↔ ∀ m ∈ ms, m ∈ s := by
  simp [allMem]

theorem popRemove_spec (s : MSet) (ms : List Bytes) (h : s.Nodup) :
    (popRemove s ms).Nodup ∧ ∀ y, y ∈ popRemove s ms ↔ y ∈ s ∧ y ∉ ms := by
  refine ⟨h.filter _, fun y => ?_⟩
  simp [popRemove, List.mem_filter]

/-- the body of SPOP without a count on the keyspace `D` left by the expiry check -/
def spopOn (D : Db) (obs : Option Reply) (k : Bytes) : Reply × Db :=
  match getSet D k with
  | none => (nil, D)
  | some none => (wrongType, D)
  | some (some s) =>
    match obs with
    | some (.bulk (some m)) => if m ∈ s then (bulk m, putSet D k (s.erase m)) else (reject obs, D)
    | _ => (reject obs, D)

theorem cmdSPop_eq (env : Env) (db : Db) (c k : Bytes) :
    cmdSPop env db [c, k] = spopOn (checkTTL db env.now k).1 env.obs k := rfl

/-- the body of SPOP with a count -/
def spopNOn (D : Db) (obs : Option Reply) (k : Bytes) (count : Nat) : Reply × Db :=
  match getSet D k with
  | none => (bulks [], D)
  | some none => (wrongType, D)
  | some (some s) =>
    if count == 0 then (bulks [], D) else
    match obs with
    | some (.arr (some l)) =>
      match bulkMembers l with
      | some ms => if popAccept s count ms then (bulks ms, putSet D k (popRemove s ms)) else (reject obs, D)
      | none => (reject obs, D)
    | _ => (reject obs, D)

theorem cmdSPopN_eq (env : Env) (db : Db) (c k cnt : Bytes) (count : Nat) (h : parseI64 cnt = some (.ofNat count)) :
    cmdSPop env db [c, k, cnt] = spopNOn (checkTTL db env.now k).1 env.obs k count := by
  simp only [cmdSPop, h]; rfl

/-- SPOP on a missing key answers nil (an empty array with a count), on a wrong-typed key WRONGTYPE; nothing changes -/
theorem spop_no_set (env : Env) (db : Db) (c k cnt : Bytes) (count : Nat) (h : parseI64 cnt = some (.ofNat count)) :
    let db₀ := (checkTTL db env.now k).1
    (getSet db₀ k = none → cmdSPop env db [c, k] = (nil, db₀) ∧ cmdSPop env db [c, k, cnt] = (bulks [], db₀)) ∧
    (getSet db₀ k = some none → cmdSPop env db [c, k] = (wrongType, db₀) ∧ cmdSPop env db [c, k, cnt] = (wrongType, db₀)) := by
  intro db₀
  constructor
  · intro hg
    rw [cmdSPop_eq, cmdSPopN_eq env db c k cnt count h]
    show spopOn db₀ _ _ = _ ∧ spopNOn db₀ _ _ _ = _
    unfold spopOn spopNOn; rw [hg]; exact ⟨rfl, rfl⟩
  · intro hg
    rw [cmdSPop_eq, cmdSPopN_eq env db c k cnt count h]
    show spopOn db₀ _ _ = _ ∧ spopNOn db₀ _ _ _ = _
    unfold spopOn spopNOn; rw [hg]; exact ⟨rfl, rfl⟩

/-- checker soundness, SPOP without a count: if the model's reply agrees with the observed one, the observed reply is one bulk
    string that was a member, and afterwards the set is the old set minus exactly that member (deleted when emptied) -/
theorem spop_sound (env : Env) (db : Db) (c k : Bytes) (obs : Reply) (s : MSet) (hok : SetsOk db) (hobs : env.obs = some obs) :
    let db₀ := (checkTTL db env.now k).1
    let r := cmdSPop env db [c, k]
    getSet db₀ k = some (some s) → replyAgrees r.1 obs = true →
      ∃ m, obs = bulk m ∧ m ∈ s ∧ (∀ y, y ∈ mems r.2 k ↔ y ∈ s ∧ y ≠ m) ∧ (mems r.2 k).Nodup ∧
        (mems r.2 k = [] → r.2.get k = none) ∧ ∀ k', k' ≠ k → r.2.get k' = db.get k' := by
  intro db₀ r hg hag
  have hsn : s.Nodup := (getSet_ok (ok_checkTTL hok env.now k) hg).1
  have hr : r = spopOn db₀ (some obs) k := by rw [← hobs]; exact cmdSPop_eq env db c k
  unfold spopOn at hr
  rw [hg] at hr
  have hrej : r = (reject (some obs), db₀) → False := fun e => by
    rw [e] at hag; simp [reject_disagrees] at hag
  cases obs with
  | bulk b =>
    cases b with
    | none => exact (hrej hr).elim
    | some m =>
      by_cases hm : m ∈ s
      · simp only [hm, if_true] at hr
        refine ⟨m, rfl, hm, ?_⟩
        rw [hr]
        simp only [mems_putSet]
        refine ⟨fun y => ?_, hsn.erase m, fun he => ?_, fun k' hk' => ?_⟩
        · rw [hsn.mem_erase_iff]; exact ⟨fun ⟨a, b⟩ => ⟨b, a⟩, fun ⟨a, b⟩ => ⟨b, a⟩⟩
        · rw [he]; exact putSet_empty db₀ k
        · rw [putSet_get_ne _ _ _ _ hk']; exact checkTTL_get_ne db env.now k k' hk'
      · simp only [hm, if_false] at hr
        exact (hrej hr).elim
  | _ => exact (hrej hr).elim

/-- checker soundness, SPOP with a count > 0: an agreeing observed reply is an array of bulk strings that were members, pairwise
    distinct, `min count |s|` many, and afterwards the set is the old set minus exactly them (deleted when emptied) -/
theorem spop_count_sound (env : Env) (db : Db) (c k cnt : Bytes) (count : Nat) (obs : Reply) (s : MSet) (hok : SetsOk db)
    (hobs : env.obs = some obs) (hc : parseI64 cnt = some (.ofNat count)) (hpos : count ≠ 0) :
    let db₀ := (checkTTL db env.now k).1
    let r := cmdSPop env db [c, k, cnt]
    getSet db₀ k = some (some s) → replyAgrees r.1 obs = true →
      ∃ ms, obs = bulks ms ∧ (∀ m ∈ ms, m ∈ s) ∧ ms.Nodup ∧ ms.length = min count s.length ∧
        (∀ y, y ∈ mems r.2 k ↔ y ∈ s ∧ y ∉ ms) ∧ (mems r.2 k).Nodup ∧
        (mems r.2 k = [] → r.2.get k = none) ∧ ∀ k', k' ≠ k → r.2.get k' = db.get k' := by
  intro db₀ r hg hag
  have hsn : s.Nodup := (getSet_ok (ok_checkTTL hok env.now k) hg).1
  have hr : r = spopNOn db₀ (some obs) k count := by rw [← hobs]; exact cmdSPopN_eq env db c k cnt count hc
  unfold spopNOn at hr
  have hz : (count == 0) = false := by simp [hpos]
  rw [hg] at hr
  simp only [hz, Bool.false_eq_true, if_false] at hr
  have hrej : r = (reject (some obs), db₀) → False := fun e => by
    rw [e] at hag; simp [reject_disagrees] at hag
  cases obs with
  | arr a =>
    cases a with
    | none => exact (hrej hr).elim
    | some l =>
      simp only [] at hr
      cases hb : bulkMembers l with
      | none => rw [hb] at hr; exact (hrej hr).elim
      | some ms =>
        rw [hb] at hr
        by_cases hacc : popAccept s count ms = true
        · simp only [hacc, if_true] at hr
          simp only [popAccept, Bool.and_eq_true, beq_iff_eq, allMem_iff, nodupB_iff] at hacc
          obtain ⟨⟨a1, a2⟩, a3⟩ := hacc
          obtain ⟨p1, p2⟩ := popRemove_spec s ms hsn
          refine ⟨ms, ?_, a1, a2, a3, ?_⟩
          · rw [bulkMembers_eq l ms hb]; rfl
          · rw [hr]
            simp only [mems_putSet]
            refine ⟨p2, p1, fun he => ?_, fun k' hk' => ?_⟩
            · rw [he]; exact putSet_empty db₀ k
            · rw [putSet_get_ne _ _ _ _ hk']; exact checkTTL_get_ne db env.now k k' hk'
        · simp only [hacc, Bool.false_eq_true, if_false] at hr
          exact (hrej hr).elim
  | _ => exact (hrej hr).elim


/-- the body of SRANDMEMBER without a count -/
def srandOn (D : Db) (obs : Option Reply) (k : Bytes) : Reply × Db :=
  match getSet D k with
  | none => (nil, D)
  | some none => (wrongType, D)
  | some (some s) =>
    match obs with
    | some (.bulk (some m)) => if m ∈ s then (bulk m, D) else (reject obs, D)
    | _ => (reject obs, D)

theorem cmdSRand_eq (env : Env) (db : Db) (c k : Bytes) :
    cmdSRandMember env db [c, k] = srandOn (checkTTL db env.now k).1 env.obs k := rfl

/-- the body of SRANDMEMBER with a count -/
def srandNOn (D : Db) (obs : Option Reply) (k : Bytes) (count : Int) : Reply × Db :=
  match getSet D k with
  | none => (bulks [], D)
  | some none => (wrongType, D)
  | some (some s) =>
    if count == 0 then (bulks [], D) else
    match obs with
    | some (.arr (some l)) =>
      match bulkMembers l with
      | some ms => if randAccept s count ms then (bulks ms, D) else (reject obs, D)
      | none => (reject obs, D)
    | some (.err e) => if count < -srandLimit && !isWrongType e then (.err e, D) else (reject obs, D)
    | _ => (reject obs, D)

theorem cmdSRandN_eq (env : Env) (db : Db) (c k cnt : Bytes) (count : Int) (h : parseI64 cnt = some count) (hmin : count ≠ minI64) :
    cmdSRandMember env db [c, k, cnt] = srandNOn (checkTTL db env.now k).1 env.obs k count := by
  have : (count == minI64) = false := by simp [hmin]
  simp only [cmdSRandMember, h, this]; rfl

/-- SRANDMEMBER never changes the keyspace beyond the expiry check of its key, whatever the arguments and the observed reply -/
theorem srandmember_readonly (env : Env) (db : Db) (args : List Bytes) :
    (cmdSRandMember env db args).2 = db ∨ ∃ k, (cmdSRandMember env db args).2 = (checkTTL db env.now k).1 := by
  unfold cmdSRandMember
  split
  · rename_i k
    refine Or.inr ⟨k, ?_⟩
    simp only []
    split
    · rfl
    · rfl
    · split
      · split <;> rfl
      · rfl
  · rename_i k cnt
    split
    · exact Or.inl rfl
    · split
      · exact Or.inl rfl
      · refine Or.inr ⟨k, ?_⟩
        simp only []
        split
        · rfl
        · rfl
        · split
          · rfl
          · split
            · split
              · split <;> rfl
              · rfl
            · split <;> rfl
            · rfl
  · exact Or.inl rfl

/-- checker soundness, SRANDMEMBER without a count: an agreeing observed reply is one bulk string that is a member; the set is unchanged -/
theorem srandmember_sound (env : Env) (db : Db) (c k : Bytes) (obs : Reply) (s : MSet) (hobs : env.obs = some obs) :
    let db₀ := (checkTTL db env.now k).1
    let r := cmdSRandMember env db [c, k]
    getSet db₀ k = some (some s) → replyAgrees r.1 obs = true →
      r.2 = db₀ ∧ ∃ m, obs = bulk m ∧ m ∈ s := by
  intro db₀ r hg hag
  have hr : r = srandOn db₀ (some obs) k := by rw [← hobs]; exact cmdSRand_eq env db c k
  unfold srandOn at hr
  rw [hg] at hr
  have hrej : r = (reject (some obs), db₀) → False := fun e => by
    rw [e] at hag; simp [reject_disagrees] at hag
  cases obs with
  | bulk b =>
    cases b with
    | none => exact (hrej hr).elim
    | some m =>
      by_cases hm : m ∈ s
      · simp only [hm, if_true] at hr
        exact ⟨by rw [hr], m, rfl, hm⟩
      · simp only [hm, if_false] at hr
        exact (hrej hr).elim
  | _ => exact (hrej hr).elim

/-- checker soundness, SRANDMEMBER with a count ≠ 0: the set is unchanged, and an agreeing observed reply is either an array of bulk
    strings that are all members — pairwise distinct and `min count |s|` many for a positive count, exactly `|count|` many for a
    negative one — or, only for a negative count below `-srandLimit`, an error other than WRONGTYPE (named grey clause) -/
theorem srandmember_count_sound (env : Env) (db : Db) (c k cnt : Bytes) (count : Int) (obs : Reply) (s : MSet)
    (hobs : env.obs = some obs) (hc : parseI64 cnt = some count) (hmin : count ≠ minI64) (hnz : count ≠ 0) :
    let db₀ := (checkTTL db env.now k).1
    let r := cmdSRandMember env db [c, k, cnt]
    getSet db₀ k = some (some s) → replyAgrees r.1 obs = true →
      r.2 = db₀ ∧
      ((∃ ms, obs = bulks ms ∧ (∀ m ∈ ms, m ∈ s) ∧
          (count > 0 → ms.Nodup ∧ ms.length = min count.toNat s.length) ∧ (count < 0 → ms.length = (-count).toNat)) ∨
       (count < -srandLimit ∧ ∃ e, obs = .err e ∧ isWrongType e = false)) := by
  intro db₀ r hg hag
  have hr : r = srandNOn db₀ (some obs) k count := by rw [← hobs]; exact cmdSRandN_eq env db c k cnt count hc hmin
  unfold srandNOn at hr
  have hz : (count == 0) = false := by simp [hnz]
  rw [hg] at hr
  simp only [hz, Bool.false_eq_true, if_false] at hr
  have hrej : r = (reject (some obs), db₀) → False := fun e => by
    rw [e] at hag; simp [reject_disagrees] at hag
  cases obs with
  | arr a =>
    cases a with
    | none => exact (hrej hr).elim
    | some l =>
      simp only [] at hr
      cases hb : bulkMembers l with
      | none => rw [hb] at hr; exact (hrej hr).elim
      | some ms =>
        rw [hb] at hr
        by_cases hacc : randAccept s count ms = true
        · simp only [hacc, if_true] at hr
          refine ⟨by rw [hr], Or.inl ⟨ms, by rw [bulkMembers_eq l ms hb]; rfl, ?_⟩⟩
          unfold randAccept at hacc
          by_cases hge : count ≥ 0
          · simp only [hge, if_true, Bool.and_eq_true, beq_iff_eq, allMem_iff, nodupB_iff] at hacc
            obtain ⟨⟨a1, a2⟩, a3⟩ := hacc
            exact ⟨a1, fun _ => ⟨a2, a3⟩, fun hlt => by omega⟩
          · simp only [hge, if_false, Bool.and_eq_true, beq_iff_eq, allMem_iff] at hacc
            obtain ⟨a1, a3⟩ := hacc
            exact ⟨a1, fun hgt => by omega, fun _ => a3⟩
        · simp only [hacc, Bool.false_eq_true, if_false] at hr
          exact (hrej hr).elim
  | err e =>
    simp only [] at hr
    by_cases hl : (count < -srandLimit && !isWrongType e) = true
    · simp only [hl, if_true] at hr
      simp only [Bool.and_eq_true, decide_eq_true_eq, Bool.not_eq_true'] at hl
      exact ⟨by rw [hr], Or.inr ⟨hl.1, e, rfl, hl.2⟩⟩
    · simp only [hl, Bool.false_eq_true, if_false] at hr
      exact (hrej hr).elim
  | _ => exact (hrej hr).elim

/-! ### (7) SCARD / SISMEMBER / SMEMBERS read the same member list -/

theorem reads_spec (env : Env) (db : Db) (c k m : Bytes) :
    let db₀ := (checkTTL db env.now k).1
    (getSet db₀ k = some none →
      cmdSCard env db [c, k] = (wrongType, db₀) ∧ cmdSIsMember env db [c, k, m] = (wrongType, db₀) ∧
      cmdSMembers env db [c, k] = (wrongType, db₀)) ∧
    (getSet db₀ k ≠ some none →
      cmdSCard env db [c, k] = (.int (mems db₀ k).length, db₀) ∧
      cmdSIsMember env db [c, k, m] = (.int (if m ∈ mems db₀ k then 1 else 0), db₀) ∧
      cmdSMembers env db [c, k] = (bulks (mems db₀ k), db₀)) := by
  intro db₀
  have e1 : cmdSCard env db [c, k] = (match getSet db₀ k with
      | none => (.int 0, db₀) | some none => (wrongType, db₀) | some (some s) => (.int s.length, db₀)) := rfl
  have e2 : cmdSIsMember env db [c, k, m] = (match getSet db₀ k with
      | none => (.int 0, db₀) | some none => (wrongType, db₀) | some (some s) => (.int (if m ∈ s then 1 else 0), db₀)) := rfl
  have e3 : cmdSMembers env db [c, k] = (match getSet db₀ k with
      | none => (bulks [], db₀) | some none => (wrongType, db₀) | some (some s) => (bulks s, db₀)) := rfl
  rw [e1, e2, e3]
  constructor
  · intro hw; rw [hw]; exact ⟨rfl, rfl, rfl⟩
  · intro hw
    cases hg : getSet db₀ k with
    | none => simp [mems, hg, setOf]
    | some o => cases o with
      | none => exact absurd hg hw
      | some s => simp [mems, hg, setOf]


/-! ### (4) `set_never_empty` and `Nodup`: the invariant is preserved by every set command, for all arguments and observed replies -/

theorem cmdSAdd_ok_eq (env : Env) (db : Db) (c k m : Bytes) (ms : List Bytes)
    (hw : getSet (checkTTL db env.now k).1 k ≠ some none) :
    cmdSAdd env db (c :: k :: m :: ms) =
      (.int (saddAll (mems (checkTTL db env.now k).1 k) (m :: ms)).2,
       (checkTTL db env.now k).1.setVal k (.set (saddAll (mems (checkTTL db env.now k).1 k) (m :: ms)).1)) := by
  rw [cmdSAdd_eq]
  split
  · rename_i h; exact absurd h hw
  · rfl

theorem ok_cmdSAdd (env : Env) (db : Db) : ∀ args, SetsOk db → SetsOk (cmdSAdd env db args).2
  | [], h => h
  | [_], h => h
  | [_, _], h => h
  | c :: k :: m :: ms, h => by
    have h₀ := ok_checkTTL h env.now k
    by_cases hw : getSet (checkTTL db env.now k).1 k = some none
    · rw [((sadd_mem env db c k m ms h).1 hw)]; exact h₀
    · rw [cmdSAdd_ok_eq env db c k m ms hw]
      obtain ⟨s1, s2, _⟩ := saddAll_spec (mems (checkTTL db env.now k).1 k) (m :: ms) (setOf_nodup h₀ k)
      refine ok_put h₀ k _ (valOk_set s1 (fun he => ?_))
      have : m ∈ (saddAll (mems (checkTTL db env.now k).1 k) (m :: ms)).1 := (s2 m).mpr (Or.inr List.mem_cons_self)
      rw [he] at this; cases this

theorem ok_cmdSRem (env : Env) (db : Db) : ∀ args, SetsOk db → SetsOk (cmdSRem env db args).2
  | [], h => h
  | [_], h => h
  | [_, _], h => h
  | c :: k :: m :: ms, h => by
    have h₀ := ok_checkTTL h env.now k
    rw [cmdSRem_eq]
    split
    · exact h₀
    · exact h₀
    · rename_i s hs
      exact ok_putSet h₀ k _ (sremAll_spec s (m :: ms) (getSet_ok h₀ hs).1).1

/-- the read-only commands leave the keyspace as the expiry check of their key left it -/
theorem reads_readonly (env : Env) (db : Db) (args : List Bytes) :
    ((cmdSCard env db args).2 = db ∨ ∃ k, (cmdSCard env db args).2 = (checkTTL db env.now k).1) ∧
    ((cmdSIsMember env db args).2 = db ∨ ∃ k, (cmdSIsMember env db args).2 = (checkTTL db env.now k).1) ∧
    ((cmdSMembers env db args).2 = db ∨ ∃ k, (cmdSMembers env db args).2 = (checkTTL db env.now k).1) := by
  refine ⟨?_, ?_, ?_⟩
  · unfold cmdSCard
    split
    · rename_i k; refine Or.inr ⟨k, ?_⟩; simp only []; split <;> rfl
    · exact Or.inl rfl
  · unfold cmdSIsMember
    split
    · rename_i k m; refine Or.inr ⟨k, ?_⟩; simp only []; split <;> rfl
    · exact Or.inl rfl
  · unfold cmdSMembers
    split
    · rename_i k; refine Or.inr ⟨k, ?_⟩; simp only []; split <;> rfl
    · exact Or.inl rfl

theorem ok_of_readonly {db db' : Db} (now : Int) (h : SetsOk db) (hr : db' = db ∨ ∃ k, db' = (checkTTL db now k).1) : SetsOk db' := by
  rcases hr with rfl | ⟨k, rfl⟩
  · exact h
  · exact ok_checkTTL h now k

theorem ok_cmdSMove (env : Env) (db : Db) : ∀ args, SetsOk db → SetsOk (cmdSMove env db args).2
  | [], h => h
  | [_], h => h
  | [_, _], h => h
  | [_, _, _], h => h
  | _ :: _ :: _ :: _ :: _ :: _, h => h
  | [c, src, dst, m], h => by
    have h₁ := ok_checkAll h env.now [dst, src]
    rw [cmdSMove_eq]
    cases hs : getSet (checkAll env.now db [dst, src]) src with
    | none => unfold smoveOn; rw [hs]; exact h₁
    | some o =>
      cases o with
      | none => unfold smoveOn; rw [hs]; exact h₁
      | some s =>
        by_cases hd : getSet (checkAll env.now db [dst, src]) dst = some none
        · unfold smoveOn; rw [hs]; simp only [hd]; exact h₁
        · rw [smoveOn_ok _ src dst m s hs hd]
          split
          · exact h₁
          · split
            · obtain ⟨a1, a2, _⟩ := SetOps.sadd_spec (mems (checkAll env.now db [dst, src]) dst) m (setOf_nodup h₁ dst)
              refine ok_put (ok_putSet h₁ src _ ((getSet_ok h₁ hs).1.erase m)) dst _ (valOk_set a1 (fun he => ?_))
              have : m ∈ (SetOps.sadd (mems (checkAll env.now db [dst, src]) dst) m).1 := (a2 m).mpr (Or.inl rfl)
              rw [he] at this; cases this
            · exact h₁

theorem ok_algebra (op : List MSet → MSet) (env : Env) (db : Db) : ∀ args, SetsOk db → SetsOk (algebra op env db args).2
  | [], h => h
  | [_], h => h
  | c :: k :: ks, h => by
    rw [algebra_eq]; split <;> exact ok_checkAll h env.now (k :: ks)

theorem collect_some_inv {db : Db} {keys : List Bytes} {sets : List MSet} (h : collect db keys = some sets) :
    sets = keys.map (mems db) := by
  have hall : ∀ key ∈ keys, getSet db key ≠ some none := by
    intro key hk hw
    rw [(collect_spec db keys).2 ⟨key, hk, hw⟩] at h; cases h
  rw [(collect_spec db keys).1 hall] at h; cases h; rfl

theorem ok_algebraStore (op : List MSet → MSet) (hop : ∀ (a : MSet) (rest : List MSet), a.Nodup → (op (a :: rest)).Nodup)
    (env : Env) (db : Db) : ∀ args, SetsOk db → SetsOk (algebraStore op env db args).2
  | [], h => h
  | [_], h => h
  | [_, _], h => h
  | c :: d :: k :: ks, h => by
    have h₁ := ok_checkAll h env.now (d :: k :: ks)
    rw [algebraStore_eq]
    split
    · exact h₁
    · rename_i sets hc
      refine ok_storeSet h₁ d _ ?_
      rw [collect_some_inv hc]
      exact hop _ _ (setOf_nodup h₁ k)

theorem ok_cmdSPop (env : Env) (db : Db) : ∀ args, SetsOk db → SetsOk (cmdSPop env db args).2
  | [], h => h
  | [_], h => h
  | _ :: _ :: _ :: _ :: _, h => h
  | [c, k], h => by
    have h₀ := ok_checkTTL h env.now k
    rw [cmdSPop_eq]; unfold spopOn
    split
    · exact h₀
    · exact h₀
    · rename_i s hs
      split
      · split
        · exact ok_putSet h₀ k _ ((getSet_ok h₀ hs).1.erase _)
        · exact h₀
      · exact h₀
  | [c, k, cnt], h => by
    have h₀ := ok_checkTTL h env.now k
    cases hp : parseI64 cnt with
    | none => simp only [cmdSPop, hp]; exact h
    | some i =>
      cases i with
      | negSucc n => simp only [cmdSPop, hp]; exact h
      | ofNat count =>
        rw [cmdSPopN_eq env db c k cnt count hp]; unfold spopNOn
        split
        · exact h₀
        · exact h₀
        · rename_i s hs
          split
          · exact h₀
          · split
            · split
              · split
                · exact ok_putSet h₀ k _ (popRemove_spec s _ (getSet_ok h₀ hs).1).1
                · exact h₀
              · exact h₀
            · exact h₀

/-- `set_never_empty` + `Nodup`: every command of the set family, for all arguments (any arity, any bytes), clock readings and
    observed replies, maps a keyspace in which every set is duplicate-free and non-empty to such a keyspace -/
theorem set_never_empty : ∀ p ∈ setTable, ∀ (env : Env) (db : Db) (args : List Bytes), SetsOk db → SetsOk (p.2 env db args).2 := by
  intro p hp env db args h
  simp only [setTable, List.mem_cons, List.not_mem_nil, or_false] at hp
  rcases hp with rfl | rfl | rfl | rfl | rfl | rfl | rfl | rfl | rfl | rfl | rfl | rfl | rfl | rfl
  · exact ok_cmdSAdd env db args h
  · exact ok_cmdSRem env db args h
  · exact ok_of_readonly env.now h (reads_readonly env db args).2.1
  · exact ok_of_readonly env.now h (reads_readonly env db args).1
  · exact ok_of_readonly env.now h (reads_readonly env db args).2.2
  · exact ok_cmdSMove env db args h
  · exact ok_cmdSPop env db args h
  · exact ok_of_readonly env.now h (srandmember_readonly env db args)
  · exact ok_algebra _ env db args h
  · exact ok_algebra _ env db args h
  · exact ok_algebra _ env db args h
  · exact ok_algebraStore _ (fun a rest _ => (SetOps.sunion_spec _).1) env db args h
  · exact ok_algebraStore _ (fun a rest ha => (SetOps.sinter_spec a rest ha).1) env db args h
  · exact ok_algebraStore _ (fun a rest ha => (SetOps.sdiff_spec a rest ha).1) env db args h

/-- the empty keyspace satisfies the invariant, so it holds after every program of set commands -/
theorem setsOk_empty : SetsOk [] := by
  intro k e he; simp [Db.get] at he


/-- a program: each step is a command of the set family with its environment (clock, observed reply) and arguments -/
def runSteps (db : Db) (prog : List (Cmd × Env × List Bytes)) : Db :=
  prog.foldl (fun db st => (st.1 st.2.1 db st.2.2).2) db

theorem program_invariant (prog : List (Cmd × Env × List Bytes)) :
    ∀ db, SetsOk db → (∀ st ∈ prog, ∃ name, (name, st.1) ∈ setTable) → SetsOk (runSteps db prog) := by
  induction prog with
  | nil => intro db h _; exact h
  | cons st prog ih =>
    intro db h hall
    obtain ⟨name, hn⟩ := hall st List.mem_cons_self
    exact ih _ (set_never_empty _ hn st.2.1 db st.2.2 h) (fun st' hst' => hall st' (List.mem_cons_of_mem _ hst'))

/-! ### non-vacuity: the hypotheses above are satisfiable on a concrete keyspace -/

/-- `k` ↦ {a, b}, `s` ↦ a string -/
def exDb : Db := [([107], { val := .set [[97], [98]] }), ([115], { val := .str [118] })]

theorem exDb_ok : SetsOk exDb := by
  intro k e he
  by_cases hk : k = [107]
  · subst hk
    have : exDb.get [107] = some { val := .set [[97], [98]] } := by decide
    rw [this] at he; cases he
    exact valOk_set (by decide) (by decide)
  · by_cases hs : k = [115]
    · subst hs
      have : exDb.get [115] = some { val := .str [118] } := by decide
      rw [this] at he; cases he
      intro s hs; cases hs
    · have : exDb.get k = none := by
        have h1 : ([107] == k) = false := by simp [Ne.symm hk]
        have h2 : ([115] == k) = false := by simp [Ne.symm hs]
        simp [exDb, Db.get, List.find?_cons, h1, h2]
      rw [this] at he; cases he

example : getSet (checkTTL exDb 0 [107]).1 [107] = some (some [[97], [98]]) := by decide
example : getSet (checkTTL exDb 0 [115]).1 [115] = some none := by decide
/-- SPOP k with the implementation reporting "b" is accepted, SPOP k reporting a non-member "c" is not -/
example : replyAgrees (cmdSPop { now := 0, obs := some (bulk [98]) } exDb [[], [107]]).1 (bulk [98]) = true := by decide
example : replyAgrees (cmdSPop { now := 0, obs := some (bulk [99]) } exDb [[], [107]]).1 (bulk [99]) = false := by decide
/-- SPOP k 5 reporting [b, a] is accepted; reporting [a, a] or [a] is not -/
example : replyAgrees (cmdSPop { now := 0, obs := some (bulks [[98], [97]]) } exDb [[], [107], [53]]).1 (bulks [[98], [97]]) = true := by decide
example : replyAgrees (cmdSPop { now := 0, obs := some (bulks [[97], [97]]) } exDb [[], [107], [53]]).1 (bulks [[97], [97]]) = false := by decide
example : replyAgrees (cmdSPop { now := 0, obs := some (bulks [[97]]) } exDb [[], [107], [53]]).1 (bulks [[97]]) = false := by decide
/-- SRANDMEMBER k -3 reporting [a, a, b] is accepted, [a, a] is not -/
example : replyAgrees (cmdSRandMember { now := 0, obs := some (bulks [[97], [97], [98]]) } exDb [[], [107], [45, 51]]).1
    (bulks [[97], [97], [98]]) = true := by decide
example : replyAgrees (cmdSRandMember { now := 0, obs := some (bulks [[97], [97]]) } exDb [[], [107], [45, 51]]).1
    (bulks [[97], [97]]) = false := by decide
/-- every key usable: SUNION k nokey; a wrong-typed source: SUNIONSTORE d k s -/
example : ∀ key ∈ [[107], [110]], getSet (checkAll 0 exDb [[107], [110]]) key ≠ some none := by decide
example : ∃ key ∈ [[107], [115]], getSet (checkAll 0 exDb [[100], [107], [115]]) key = some none := ⟨[115], by decide, by decide⟩


#print axioms sadd_mem
#print axioms srem_mem
#print axioms sunion_is_union
#print axioms sinter_is_inter
#print axioms sdiff_is_diff
#print axioms store_replaces_dest
#print axioms sunionstore_dest
#print axioms sinterstore_dest
#print axioms sdiffstore_dest
#print axioms set_never_empty
#print axioms program_invariant
#print axioms smove_nochange
#print axioms smove_moves
#print axioms spop_sound
#print axioms spop_count_sound
#print axioms srandmember_sound
#print axioms srandmember_count_sound
#print axioms reads_spec
end C11
