import RedisGoModel.Props.C15JointInv

/-! C15 Stage D, last step: **the safety theorems of the protocol with joint configuration changes** (`Raft/RSJ.lean`:
    `ConfChangeV2` entries — `Simple`, `EnterJoint` with any list of changes and explicit or automatic leave, `LeaveJoint` — take
    effect at apply time; vote tallies and commit decisions use `JointConfig` semantics under the deciding node's current
    configuration; etcd's three-reason proposal gate, the leader's automatic leave, the `hup` gate, learners, restarts).

    `C15_joint_statement` is the full statement — node state only, no ghosts — for every cluster size, every initial configuration,
    every schedule (loss, duplication, reordering, delay, partitions, restarts) and every sequence of single and joint membership
    changes; `C15_joint_holds` proves it.  Separately: `joint_election_safety`, `joint_log_matching`, `joint_leader_completeness`
    (ghost form), `joint_leader_holds_committed`, `joint_state_machine_safety`, `joint_committed_never_rewritten`,
    `joint_one_pending`.

    Ties of the model's definitions to etcd's functions (all proved here):
    * `ccOf_encCC` — every conf change (with defined change types) is the decoding of some payload;
    * `cfg_voters_nonempty`, `cfg_checkInvariants` — from a start with a voter (resp. satisfying `checkInvariants`) every
      configuration of the fold has one (resp. satisfies it);
    * `isQuorumJ_iff_etcd`, `voteWon_iff_QJ`, `committed_ge_iff_QJ` — on configurations with a voter the model's quorum rule is
      `JointConfig.VoteResult = VoteWon` / `k ≤ JointConfig.CommittedIndex`;
    * `refusal_none_iff`, `gateJ_accepts_iff` — the gate accepts iff none of etcd's three reasons applies;
    * `autoLeave_is_accepted_proposal` — the leader's automatic leave is the proposal of an empty `ConfChangeV2` that the gate accepts;
    * `campaignGate_iff` — `campaignGate` is the guard of `timeout`.
    One observation about etcd (library level, not reachable through this project's `rconf`, which proposes one change with
    `Transition = Auto`): `enter_empty_passes_gate_and_is_refused_by_changer` — a `ConfChangeV2{Transition: JointExplicit or
    JointImplicit, Changes: nil}` proposed while the configuration is joint passes `stepLeader`'s gate (it "wants to leave":
    `len(Changes) == 0`) but is an `EnterJoint` for `applyConfChange`, which the Changer refuses ("config is already joint");
    etcd panics there (`raft.go:1653`) on every node that applies the entry.  In the model the configuration stays as it is. -/
namespace RSJ
open RS hiding Inv0 Inv1 Inv2 Inv3 Inv4 Step Reach reach_inv leader_completeness committed_agree fresh_term QA QAc
  state_machine_safety committed_in_later_leader ldr_unique C15_election_safety C15_log_matching C15_leader_completeness
  C15_state_machine_safety C15_committed_never_rewritten commit_in_leader handleAE_keeps_committed
open RSQ
open RSC (nid nidsOf mem_nidsOf CSys updN updN_same updN_other cBecomeLeader cAdvanceCommit Label cinit LinkedStep)

variable {N : Nat}

theorem joint_election_safety {c0 : RQJ.Config} {s : CSys N} (r : CReach c0 s) (i j : Fin N)
    (hi : (s.base.nodes i).role = .leader) (hj : (s.base.nodes j).role = .leader)
    (ht : (s.base.nodes i).term = (s.base.nodes j).term) : i = j :=
  C15_election_safety (creach_base r) i j hi hj ht

theorem joint_log_matching {c0 : RQJ.Config} {s : CSys N} (r : CReach c0 s) (i j : Fin N) (k : Nat) (h1 : 1 ≤ k)
    (hi : k ≤ (s.base.nodes i).log.length) (hj : k ≤ (s.base.nodes j).log.length)
    (ht : termAt (s.base.nodes i).log k = termAt (s.base.nodes j).log k) :
    (s.base.nodes i).log.take k = (s.base.nodes j).log.take k :=
  C15_log_matching (creach_base r) i j k h1 hi hj ht

/-- ghost form: whatever the leader of `t` marked committed is in the log of the leader of every later term -/
theorem joint_leader_completeness {c0 : RQJ.Config} {s : CSys N} (r : CReach c0 s) {k t t' : Nat} (c : s.base.cmt k t)
    (hlt : t < t') {l : Fin N} (hl : s.base.isLdr t' l) :
    k ≤ (s.base.llog t').length ∧ (s.base.llog t').take k = (s.base.llog t).take k :=
  C15_leader_completeness (creach_base r) c hlt hl

/-- node-state form: a node whose role is leader holds, at the same indexes, everything any node of no higher term has committed -/
theorem joint_leader_holds_committed {c0 : RQJ.Config} {s : CSys N} (r : CReach c0 s) (i j : Fin N)
    (hl : (s.base.nodes i).role = .leader) (ht : (s.base.nodes j).term ≤ (s.base.nodes i).term) :
    (s.base.nodes j).commit ≤ (s.base.nodes i).log.length ∧
    (s.base.nodes i).log.take (s.base.nodes j).commit = (s.base.nodes j).log.take (s.base.nodes j).commit := by
  obtain ⟨h0, h1, h2, h3, _⟩ := reach_inv (creach_base r)
  rcases (h3.n1 j).2 with hz | ⟨k, t, c, hck, htj, heq⟩
  · rw [hz]; simp
  · have hlog := h0.ldr_log i hl
    have hld := h0.ldr_role i hl
    rw [heq, hlog]
    by_cases hlt : t < (s.base.nodes i).term
    · obtain ⟨g1, g2⟩ := committed_in_later_leader h0 h1 h2 h3 c hlt hld
      refine ⟨by omega, ?_⟩
      have := congrArg (List.take (s.base.nodes j).commit) g2
      rwa [List.take_take, List.take_take, Nat.min_eq_left hck] at this
    · have : t = (s.base.nodes i).term := by omega
      subst this
      exact ⟨Nat.le_trans hck (h3.cm k _ c).2, rfl⟩

theorem joint_state_machine_safety {c0 : RQJ.Config} {s : CSys N} (r : CReach c0 s) (i j : Fin N) (m : Nat)
    (hi : m ≤ (s.base.nodes i).commit) (hj : m ≤ (s.base.nodes j).commit) :
    (s.base.nodes i).log.take m = (s.base.nodes j).log.take m :=
  C15_state_machine_safety (creach_base r) i j m hi hj

theorem joint_committed_never_rewritten {c0 : RQJ.Config} {lab : Label N} {s s' : CSys N} (r : CReach c0 s)
    (st : CStep c0 lab s s') (y : Fin N) :
    (s'.base.nodes y).log.take (s.base.nodes y).commit = (s.base.nodes y).log.take (s.base.nodes y).commit ∧
    (s.base.nodes y).commit ≤ (s'.base.nodes y).commit ∧ (s.base.nodes y).term ≤ (s'.base.nodes y).term := by
  rcases cstep_base st (linked_of_reach r st) with h | h
  · exact C15_committed_never_rewritten (creach_base r) h y
  · rw [h]; exact ⟨rfl, Nat.le_refl _, Nat.le_refl _⟩

/-- "one configuration change at a time", as the model has it: at most one conf-change entry above the commit index in any
    node's log, at most one above the applied index in a leader's log, and `applied ≤ commit` -/
theorem joint_one_pending {c0 : RQJ.Config} {s : CSys N} (r : CReach c0 s) (i : Fin N) :
    s.applied i ≤ (s.base.nodes i).commit ∧
    cnt (s.base.nodes i).log (s.base.nodes i).commit (s.base.nodes i).log.length ≤ 1 ∧
    ((s.base.nodes i).role = .leader → cnt (s.base.nodes i).log (s.applied i) (s.base.nodes i).log.length ≤ 1) :=
  ⟨(cinv_reach r).app_le i, (cinv_reach r).one i, (cinv_reach r).ldr i⟩

/-- the full statement of C15 with membership changes — single AND joint —, on node state only -/
def C15_joint_statement : Prop :=
  ∀ (N : Nat) (c0 : RQJ.Config) (s : CSys N), CReach c0 s →
    -- election safety
    (∀ i j : Fin N, (s.base.nodes i).role = .leader → (s.base.nodes j).role = .leader →
      (s.base.nodes i).term = (s.base.nodes j).term → i = j) ∧
    -- log matching
    (∀ (i j : Fin N) (k : Nat), 1 ≤ k → k ≤ (s.base.nodes i).log.length → k ≤ (s.base.nodes j).log.length →
      termAt (s.base.nodes i).log k = termAt (s.base.nodes j).log k →
      (s.base.nodes i).log.take k = (s.base.nodes j).log.take k) ∧
    -- leader completeness
    (∀ i j : Fin N, (s.base.nodes i).role = .leader → (s.base.nodes j).term ≤ (s.base.nodes i).term →
      (s.base.nodes j).commit ≤ (s.base.nodes i).log.length ∧
      (s.base.nodes i).log.take (s.base.nodes j).commit = (s.base.nodes j).log.take (s.base.nodes j).commit) ∧
    -- state-machine safety
    (∀ (i j : Fin N) (m : Nat), m ≤ (s.base.nodes i).commit → m ≤ (s.base.nodes j).commit →
      (s.base.nodes i).log.take m = (s.base.nodes j).log.take m) ∧
    -- a committed prefix is never removed or rewritten; commit and term never regress
    (∀ (lab : Label N) (s' : CSys N), CStep c0 lab s s' → ∀ y : Fin N,
      (s'.base.nodes y).log.take (s.base.nodes y).commit = (s.base.nodes y).log.take (s.base.nodes y).commit ∧
      (s.base.nodes y).commit ≤ (s'.base.nodes y).commit ∧ (s.base.nodes y).term ≤ (s'.base.nodes y).term)

theorem C15_joint_holds : C15_joint_statement := by
  intro N c0 s r
  exact ⟨joint_election_safety r, joint_log_matching r, joint_leader_holds_committed r, joint_state_machine_safety r,
    fun _ _ st => joint_committed_never_rewritten r st⟩

/-! ### the payload encoding reaches every conf change -/

theorem decChange_enc (c : RQJ.Change) (h : c.typ ≠ .other) : decChange (encChange c) = c := by
  obtain ⟨t, id⟩ := c
  have h0 : (id * 4 + 0) % 4 = 0 ∧ (id * 4 + 0) / 4 = id := by omega
  have h1 : (id * 4 + 1) % 4 = 1 ∧ (id * 4 + 1) / 4 = id := by omega
  have h2 : (id * 4 + 2) % 4 = 2 ∧ (id * 4 + 2) / 4 = id := by omega
  have h3 : (id * 4 + 3) % 4 = 3 ∧ (id * 4 + 3) / 4 = id := by omega
  cases t with
  | addNode => show decChange (id * 4 + 0) = _; unfold decChange decType; rw [h0.1, h0.2]; rfl
  | removeNode => show decChange (id * 4 + 1) = _; unfold decChange decType; rw [h1.1, h1.2]; rfl
  | addLearnerNode => show decChange (id * 4 + 2) = _; unfold decChange decType; rw [h2.1, h2.2]; rfl
  | updateNode => show decChange (id * 4 + 3) = _; unfold decChange decType; rw [h3.1, h3.2]; rfl
  | other => exact absurd rfl h

theorem decList_enc (l : List RQJ.Change) (hl : ∀ c ∈ l, c.typ ≠ .other) :
    ∀ f, encList l ≤ f → decList f (encList l) = l := by
  induction l with
  | nil => intro f _; cases f <;> simp [decList, encList]
  | cons c cs ih =>
    intro f hf
    cases f with
    | zero => simp [encList] at hf
    | succ f =>
      have hle : encList cs ≤ f := by
        have := Nat.right_le_pair (encChange c) (encList cs)
        simp only [encList] at hf; omega
      show decList (f + 1) (Nat.pair (encChange c) (encList cs) + 1) = c :: cs
      unfold decList
      rw [if_neg (by omega), Nat.add_sub_cancel, Nat.unpair_pair]
      show decChange (encChange c) :: decList f (encList cs) = c :: cs
      rw [decChange_enc c (hl c (by simp)), ih (fun c' h => hl c' (by simp [h])) f hle]

/-- the conf changes that have a payload: changes of one of the four defined types (a `single` is add / remove / add-learner;
    an update or a promotion-by-add is `addNode`/`updateNode` inside an `enter`, or `single addNode`) -/
def CC.valid : CC → Prop
  | .single ch => ch.typ = .addNode ∨ ch.typ = .removeNode ∨ ch.typ = .addLearnerNode
  | .enter _ ccs => ∀ c ∈ ccs, c.typ ≠ .other
  | .leave => True

theorem ccOf_mod1 (d : Nat) (h : d % 8 = 1) : ccOf d = some (.single ⟨.addNode, d / 8⟩) := by unfold ccOf; simp [h]
theorem ccOf_mod2 (d : Nat) (h : d % 8 = 2) : ccOf d = some (.single ⟨.removeNode, d / 8⟩) := by unfold ccOf; simp [h]
theorem ccOf_mod3 (d : Nat) (h : d % 8 = 3) : ccOf d = some (.single ⟨.addLearnerNode, d / 8⟩) := by unfold ccOf; simp [h]
theorem ccOf_mod5 (d : Nat) (h : d % 8 = 5) : ccOf d = some (.enter false (decList (d / 8) (d / 8))) := by unfold ccOf; simp [h]
theorem ccOf_mod6 (d : Nat) (h : d % 8 = 6) : ccOf d = some (.enter true (decList (d / 8) (d / 8))) := by unfold ccOf; simp [h]

/-- **every conf change is the decoding of its payload**: quantifying over payloads quantifies over all conf changes -/
theorem ccOf_encCC (cc : CC) (h : cc.valid) : ccOf (encCC cc) = some cc := by
  cases cc with
  | leave => decide
  | single ch =>
    obtain ⟨t, id⟩ := ch
    cases t with
    | addNode => show ccOf (id * 8 + 1) = _; rw [ccOf_mod1 _ (by omega)]; congr 3; omega
    | removeNode => show ccOf (id * 8 + 2) = _; rw [ccOf_mod2 _ (by omega)]; congr 3; omega
    | addLearnerNode => show ccOf (id * 8 + 3) = _; rw [ccOf_mod3 _ (by omega)]; congr 3; omega
    | updateNode => simp [CC.valid] at h
    | other => simp [CC.valid] at h
  | enter al ccs =>
    cases al with
    | false =>
      show ccOf (encList ccs * 8 + 5) = _
      rw [ccOf_mod5 _ (by omega), show (encList ccs * 8 + 5) / 8 = encList ccs by omega, decList_enc ccs h _ (Nat.le_refl _)]
    | true =>
      show ccOf (encList ccs * 8 + 6) = _
      rw [ccOf_mod6 _ (by omega), show (encList ccs * 8 + 6) / 8 = encList ccs by omega, decList_enc ccs h _ (Nat.le_refl _)]

/-! ### the configurations of the fold -/

theorem applyCC_voters_ne (c : RQJ.Config) (cc : CC) (h : c.voters ≠ ∅) : (applyCC c cc).voters ≠ ∅ := by
  cases cc with
  | single ch =>
    simp only [applyCC]
    split
    · next c' hs => exact (RQJ.simple_is_single_change hs).2.2.2.1
    · exact h
  | enter al ccs =>
    simp only [applyCC]
    split
    · next c' hs => exact (RQJ.enterJoint_shape hs).2.2.2.2.1
    · exact h
  | leave =>
    simp only [applyCC]
    split
    · next c' hs => obtain ⟨_, rfl⟩ := RQJ.leaveJoint_shape hs; exact h
    · exact h

theorem applyCC_check (c : RQJ.Config) (cc : CC) (h : RQJ.checkInvariants c) : RQJ.checkInvariants (applyCC c cc) := by
  cases cc with
  | single ch =>
    simp only [applyCC]
    split
    · next c' hs => exact RQJ.simple_preserves_invariants hs
    · exact h
  | enter al ccs =>
    simp only [applyCC]
    split
    · next c' hs => exact RQJ.enterJoint_preserves_invariants hs
    · exact h
  | leave =>
    simp only [applyCC]
    split
    · next c' hs => exact RQJ.leaveJoint_preserves_invariants hs
    · exact h

theorem foldl_applyEntry_inv (P : RQJ.Config → Prop) (hP : ∀ c cc, P c → P (applyCC c cc)) (l : Log) :
    ∀ c, P c → P (l.foldl applyEntry c) := by
  induction l with
  | nil => intro c h; exact h
  | cons e es ih =>
    intro c h
    apply ih
    unfold applyEntry
    split
    · exact h
    · exact hP c _ h

/-- from a start with at least one voter, the incoming half of every configuration of the fold is non-empty -/
theorem cfg_voters_nonempty (c0 : RQJ.Config) (l : Log) (a : Nat) (h : c0.voters ≠ ∅) : (cfgAt c0 l a).voters ≠ ∅ :=
  foldl_applyEntry_inv (fun c => c.voters ≠ ∅) applyCC_voters_ne _ c0 h

/-- from a start that satisfies etcd's `checkInvariants`, every configuration of the fold does -/
theorem cfg_checkInvariants (c0 : RQJ.Config) (l : Log) (a : Nat) (h : RQJ.checkInvariants c0) :
    RQJ.checkInvariants (cfgAt c0 l a) :=
  foldl_applyEntry_inv RQJ.checkInvariants applyCC_check _ c0 h

/-! ### the quorum rule is etcd's `JointConfig` rule -/

/-- on a configuration with a voter, the model's quorum rule is `quorum.JointConfig`'s (an empty half imposes nothing) -/
theorem isQuorumJ_iff_etcd (c : RQJ.Config) (Q : Finset (Fin N)) (h : c.voters ≠ ∅) :
    IsQuorumJ c Q ↔ RQJ.IsJointQuorum c.jointConfig (nidsOf Q) := by
  unfold IsQuorumJ QJ RQJ.IsJointQuorum RQJ.JointMaj RQJ.MajOrEmpty RQJ.IsQuorum RQJ.Config.jointConfig
  constructor
  · rintro ⟨h1, h2⟩; exact ⟨Or.inr h1, h2⟩
  · rintro ⟨h1 | h1, h2⟩
    · exact absurd h1 h
    · exact ⟨h1, h2⟩

theorem isQuorum_filter_iff (c ids : Finset Nat) (p : Nat → Prop) [DecidablePred p] (hs : c ⊆ ids) :
    RQJ.IsQuorum c (ids.filter p) ↔ RQJ.Maj c p := by
  unfold RQJ.IsQuorum RQJ.Maj
  have : c.filter (fun x => x ∈ ids.filter p) = c.filter p := by
    ext x
    simp only [Finset.mem_filter]
    constructor
    · rintro ⟨a, _, b⟩; exact ⟨a, b⟩
    · rintro ⟨a, b⟩; exact ⟨a, hs a, b⟩
  rw [this]

theorem QJ_filter_iff (c : RQJ.Config) (p : Nat → Prop) [DecidablePred p] (h : c.voters ≠ ∅) :
    QJ c (c.jointConfig.ids.filter p) ↔ RQJ.JointMaj c.jointConfig p := by
  unfold QJ RQJ.JointMaj RQJ.MajOrEmpty
  have s1 : c.voters ⊆ c.jointConfig.ids := by
    intro x hx; simp [RQJ.JointConfig.ids, RQJ.Config.jointConfig, hx]
  have s2 : c.outgoing ⊆ c.jointConfig.ids := by
    intro x hx; simp [RQJ.JointConfig.ids, RQJ.Config.jointConfig, hx]
  rw [isQuorum_filter_iff _ _ p s1, isQuorum_filter_iff _ _ p s2]
  show _ ↔ (c.voters = ∅ ∨ _) ∧ (c.outgoing = ∅ ∨ _)
  constructor
  · rintro ⟨h1, h2⟩; exact ⟨Or.inr h1, h2⟩
  · rintro ⟨h1 | h1, h2⟩
    · exact absurd h1 h
    · exact ⟨h1, h2⟩

/-- `tracker.TallyVotes` = `JointConfig.VoteResult`: the election is won iff the ids that voted yes are a quorum of the model -/
theorem voteWon_iff_QJ (c : RQJ.Config) (v : RQJ.Votes) (h : c.voters ≠ ∅) :
    c.jointConfig.voteResult v = .won ↔ QJ c (c.jointConfig.ids.filter fun id => v id = some true) := by
  rw [RQJ.joint_voteResult_won_iff, QJ_filter_iff c _ h]

/-- `tracker.Committed` = `JointConfig.CommittedIndex`: `k` is at or below it iff the ids that acknowledged `k` are a quorum of the model -/
theorem committed_ge_iff_QJ (c : RQJ.Config) (l : RQJ.Acks) (k : Nat) (h : c.voters ≠ ∅) :
    (c.jointConfig.committedIndex l).ge k ↔ QJ c (c.jointConfig.ids.filter fun id => k ≤ RQJ.ackVal l id) := by
  rw [RQJ.joint_committed_ge_iff, QJ_filter_iff c _ h]

/-! ### the gate -/

/-- the gate accepts iff none of etcd's three reasons applies: nothing pending, and "joint" iff "wants to leave" -/
theorem refusal_none_iff (applied pend : Nat) (joint : Bool) (cc : CC) :
    refusal applied pend joint cc = none ↔ pend ≤ applied ∧ joint = wantsLeave cc := by
  unfold refusal
  by_cases h1 : applied < pend
  · simp [h1]
  · cases joint <;> cases wantsLeave cc <;> simp [h1] <;> omega

theorem ccOf_zero : ccOf 0 = none := by decide

theorem gateJ_accepts_iff (applied pend : Nat) (joint : Bool) {v : Nat} {cc : CC} (h : ccOf v = some cc) :
    gateJ applied pend joint v = v ↔ refusal applied pend joint cc = none := by
  unfold gateJ
  simp only [h]
  cases hr : refusal applied pend joint cc with
  | none => simp
  | some r =>
    simp only [Option.isSome_some, if_true]
    constructor
    · intro h0; rw [← h0, ccOf_zero] at h; cases h
    · intro h0; cases h0

/-- a refused conf change becomes the empty normal entry; a normal payload passes unchanged -/
theorem gateJ_cases (applied pend : Nat) (joint : Bool) (v : Nat) :
    gateJ applied pend joint v = v ∨ (gateJ applied pend joint v = 0 ∧ ∃ cc, ccOf v = some cc ∧ (refusal applied pend joint cc).isSome) := by
  unfold gateJ
  cases h : ccOf v with
  | none => exact Or.inl rfl
  | some cc =>
    simp only
    by_cases hr : (refusal applied pend joint cc).isSome = true
    · rw [if_pos hr]; exact Or.inr ⟨rfl, cc, rfl, hr⟩
    · rw [if_neg hr]; exact Or.inl rfl

theorem autoLeave_flag_joint {c : RQJ.Config} (h : RQJ.checkInvariants c) (ha : c.autoLeave = true) : c.outgoing ≠ ∅ := by
  intro ho
  have := (h.2.2 ho).2
  rw [this] at ha; cases ha

/-- the leader's automatic leave (`advance`, which appends the entry without going through `stepLeader`) is the proposal of an
    empty `ConfChangeV2` that the gate accepts -/
theorem autoLeave_is_accepted_proposal (c0 : RQJ.Config) (s : CSys N) (i : Fin N) (hj : (cfg c0 s i).outgoing ≠ ∅)
    (hp : s.pend i ≤ s.applied i) : cAutoLeave s i = cPropose c0 s i leaveData := by
  have hcc : ccOf leaveData = some .leave := by decide
  have hg : gate c0 s i leaveData = leaveData := by
    unfold gate
    rw [gateJ_accepts_iff _ _ _ hcc, refusal_none_iff]
    refine ⟨hp, ?_⟩
    show RQJ.joint (cfg c0 s i) = true
    rw [RQJ.joint_eq_true_iff]; exact hj
  unfold cAutoLeave cPropose
  rw [hg]
  have : isConfData leaveData = true := by decide
  rw [if_pos this]

/-- … and from a start satisfying `checkInvariants` the `AutoLeave` flag implies "joint" -/
theorem autoLeave_step_is_propose (c0 : RQJ.Config) (h0 : RQJ.checkInvariants c0) (s : CSys N) (i : Fin N)
    (hal : (cfg c0 s i).autoLeave = true) (hp : s.pend i ≤ s.applied i) : cAutoLeave s i = cPropose c0 s i leaveData :=
  autoLeave_is_accepted_proposal c0 s i (autoLeave_flag_joint (cfg_checkInvariants c0 _ _ h0) hal) hp

/-- **observation about etcd's gate** (see the file header): an `EnterJoint` request with no changes, proposed while joint and
    with nothing pending, passes the gate — and the Changer refuses it at apply time -/
theorem enter_empty_passes_gate_and_is_refused_by_changer (al : Bool) (c : RQJ.Config) (hj : c.outgoing ≠ ∅)
    (applied pend : Nat) (hp : pend ≤ applied) :
    refusal applied pend (RQJ.joint c) (.enter al []) = none ∧ (∃ e, RQJ.enterJoint al c [] = .error e) ∧
    applyCC c (.enter al []) = c := by
  have herr : ∃ e, RQJ.enterJoint al c [] = .error e := by
    cases hs : RQJ.enterJoint al c [] with
    | error e => exact ⟨e, rfl⟩
    | ok c' => exact absurd (RQJ.enterJoint_shape hs).2.2.1 hj
  refine ⟨?_, herr, ?_⟩
  · rw [refusal_none_iff]
    refine ⟨hp, ?_⟩
    show RQJ.joint c = true
    rw [RQJ.joint_eq_true_iff]; exact hj
  · obtain ⟨e, he⟩ := herr
    simp only [applyCC, he]

/-- the conf-change bits of the entries in `(applied, commit]` of node `i` -/
def pendingFlags (s : CSys N) (i : Fin N) : List Bool :=
  (List.range ((s.base.nodes i).commit - s.applied i)).map fun d => confAt (s.base.nodes i).log (s.applied i + d + 1)

/-- `campaignGate` is exactly the guard of the model's `timeout` step -/
theorem campaignGate_iff (c0 : RQJ.Config) (s : CSys N) (i : Fin N) :
    campaignGate (decide ((s.base.nodes i).role = .leader)) (nid i) (cfg c0 s i) (pendingFlags s i) = true ↔
    ((s.base.nodes i).role ≠ .leader ∧ promotable (cfg c0 s i) (nid i) = true ∧
      ∀ k, s.applied i < k → k ≤ (s.base.nodes i).commit → confAt (s.base.nodes i).log k = false) := by
  unfold campaignGate pendingFlags
  simp only [Bool.and_eq_true, Bool.not_eq_true', decide_eq_false_iff_not, List.any_eq_false, List.mem_map,
    List.mem_range]
  constructor
  · rintro ⟨⟨h1, h2⟩, h3⟩
    refine ⟨h1, h2, fun k hk1 hk2 => ?_⟩
    cases hc : confAt (s.base.nodes i).log k with
    | false => rfl
    | true =>
      exact absurd rfl (h3 true ⟨k - s.applied i - 1, by omega, by rw [show s.applied i + (k - s.applied i - 1) + 1 = k by omega]; exact hc⟩)
  · rintro ⟨h1, h2, h3⟩
    refine ⟨⟨h1, h2⟩, ?_⟩
    rintro b ⟨d, hd, rfl⟩
    rw [h3 _ (by omega) (by omega)]; simp

/-! ### the statement is not vacuous

    (a) The configuration fold on a log that **replaces two voters at once**: start `(1 2 3)`, entry 2 is
    `enter autoLeave [remove 2, remove 3, add 4, add 5]`, entry 3 is the empty `ConfChangeV2`.  After entry 2 the configuration is
    `(1 4 5)&&(1 2 3) autoleave`, after entry 3 it is `(1 4 5)`.  `{2,3}` is a quorum of the old configuration and `{4,5}` of the
    new one and they are DISJOINT — the joint phase in between is what makes consecutive configurations overlap: neither is a
    quorum of the joint configuration, `{1,2,4}` is. -/

def cOld : RQJ.Config := ⟨{1, 2, 3}, ∅, ∅, ∅, false⟩
def cJoint : RQJ.Config := ⟨{1, 4, 5}, {1, 2, 3}, ∅, ∅, true⟩
def cNew : RQJ.Config := ⟨{1, 4, 5}, ∅, ∅, ∅, false⟩
def swap2 : CC := .enter true [⟨.removeNode, 2⟩, ⟨.removeNode, 3⟩, ⟨.addNode, 4⟩, ⟨.addNode, 5⟩]
def pSwap : Nat := encCC swap2

theorem ccOf_pSwap : ccOf pSwap = some swap2 := ccOf_encCC swap2 (by simp [swap2, CC.valid])

theorem apply_swap2 : applyCC cOld swap2 = cJoint := by decide
theorem apply_leave : applyCC cJoint .leave = cNew := by decide

def swapLog : Log := [⟨1, 0⟩, ⟨1, pSwap⟩, ⟨1, leaveData⟩]

theorem swap_fold : cfgAt cOld swapLog 1 = cOld ∧ cfgAt cOld swapLog 2 = cJoint ∧ cfgAt cOld swapLog 3 = cNew := by
  have h0 : applyEntry cOld ⟨1, 0⟩ = cOld := by simp [applyEntry, ccOf_zero]
  have h1 : applyEntry cOld ⟨1, pSwap⟩ = cJoint := by simp [applyEntry, ccOf_pSwap, apply_swap2]
  have h2 : applyEntry cJoint ⟨1, leaveData⟩ = cNew := by
    have : ccOf leaveData = some .leave := by decide
    simp [applyEntry, this, apply_leave]
  refine ⟨?_, ?_, ?_⟩ <;> simp [cfgAt, swapLog, List.take, List.foldl, h0, h1, h2]

example : QJ cOld {2, 3} ∧ QJ cNew {4, 5} ∧ Disjoint ({2, 3} : Finset Nat) {4, 5} ∧
    ¬ QJ cJoint {2, 3} ∧ ¬ QJ cJoint {4, 5} ∧ QJ cJoint {1, 2, 4} ∧ Ovl cOld cJoint ∧ Ovl cJoint cNew := by
  refine ⟨by decide, by decide, by decide, by decide, by decide, by decide, ?_, ?_⟩
  · rw [← apply_swap2]; exact applyCC_ovl _ _
  · rw [← apply_leave]; exact applyCC_ovl _ _

/-- the three refusals on these configurations: while joint a further change is refused and the leave accepted; before, the leave is
    refused and the change accepted; with a conf change unapplied everything is refused -/
example : refusal 2 2 (RQJ.joint cJoint) swap2 = some "must transition out of joint config first" ∧
    refusal 2 2 (RQJ.joint cJoint) .leave = none ∧
    refusal 1 1 (RQJ.joint cOld) .leave = some "not in joint state; refusing empty conf change" ∧
    refusal 1 1 (RQJ.joint cOld) swap2 = none ∧
    refusal 1 2 (RQJ.joint cOld) swap2 = some "possible unapplied conf change" ∧
    refusal 1 2 (RQJ.joint cJoint) .leave = some "possible unapplied conf change" := by decide

/-! (b) A run.  Three nodes, node 0 (raft id 1) is the only voter.  It campaigns, wins alone, proposes
    `enter autoLeave [add 2, add 3]` (two voters at once: `Simple` would refuse), commits it alone — `{0}` is a quorum of `(1)` —,
    applies it: its configuration is `(1 2 3)&&(1) autoleave`, `{0}` is no longer a quorum, `{0,1}` is; the `autoLeave` step is
    enabled and appends the empty `ConfChangeV2` at index 3. -/

def c1 : RQJ.Config := ⟨{1}, ∅, ∅, ∅, false⟩
def add23 : CC := .enter true [⟨.addNode, 2⟩, ⟨.addNode, 3⟩]
def pAdd : Nat := encCC add23
def cJ1 : RQJ.Config := ⟨{1, 2, 3}, {1}, ∅, ∅, true⟩

theorem ccOf_pAdd : ccOf pAdd = some add23 := ccOf_encCC add23 (by simp [add23, CC.valid])
theorem isConfData_pAdd : isConfData pAdd = true := by simp [isConfData, ccOf_pAdd]
theorem apply_add23 : applyCC c1 add23 = cJ1 := by decide

def x1 : CSys 3 := { cinit 3 with base := doTimeout (cinit 3).base 0, pend := updN (cinit 3).pend 0 0 }
def x2 : CSys 3 := cBecomeLeader x1 0 {0}
def x3 : CSys 3 := cPropose c1 x2 0 pAdd
def x4 : CSys 3 := cAdvanceCommit x3 0 2
def x5 : CSys 3 := { x4 with applied := updN x4.applied 0 (x4.applied 0 + 1) }
def x6 : CSys 3 := { x5 with applied := updN x5.applied 0 (x5.applied 0 + 1) }
def x7 : CSys 3 := cAutoLeave x6 0

theorem gate_x2 : gate c1 x2 0 pAdd = pAdd := by
  unfold gate
  rw [gateJ_accepts_iff _ _ _ ccOf_pAdd, refusal_none_iff]
  refine ⟨by simp [x2, x1, cinit, init, cBecomeLeader, doTimeout, upd, updN], ?_⟩
  have : cfg c1 x2 0 = c1 := by
    simp [cfg, cfgAt, x2, x1, cinit, cBecomeLeader]
  rw [this]; decide

theorem x3_eq : x3 = { x2 with base := doClientReq x2.base 0 pAdd, pend := updN x2.pend 0 ((x2.base.nodes 0).log.length + 1) } := by
  unfold x3 cPropose
  rw [gate_x2, if_pos isConfData_pAdd]

local macro "xsimp" : tactic =>
  `(tactic| simp [x7, x6, x5, x4, x3_eq, x2, x1, cinit, init, cBecomeLeader, cAdvanceCommit, cAutoLeave,
      doTimeout, doBecomeLeader, doClientReq, doAdvanceCommit, upd, updN, termAt])

theorem q0 : IsQuorumJ (N := 3) c1 {0} := by
  simp [IsQuorumJ, QJ, nidsOf, nid, RQJ.IsQuorum, RQJ.Maj, c1]; decide

theorem x6_cfg : cfg c1 x6 0 = cJ1 := by
  have h1 : x6.applied 0 = 2 := by xsimp
  have h2 : (x6.base.nodes 0).log = [⟨1, 0⟩, ⟨1, pAdd⟩] := by xsimp
  unfold cfg
  rw [h1, h2]
  simp [cfgAt, List.take, List.foldl, applyEntry, ccOf_zero, ccOf_pAdd, apply_add23]

theorem reach_x7 : CReach c1 x7 := by
  have r1 : CReach c1 x1 := .step .init (CStep.timeout _ 0 (by simp [cinit, init])
    (by simp [cfg, cfgAt, cinit, init, nid, c1]; decide) (by intro k h1 h2; simp [cinit, init] at h2; omega))
  have r2 : CReach c1 x2 := .step r1 (CStep.becomeLeader _ 0 {0}
    (by simpa [cfg, cfgAt, x1, cinit, init, doTimeout, upd] using q0) (by xsimp) (by intro j hj; simp at hj; exact Or.inl hj))
  have r3 : CReach c1 x3 := .step r2 (CStep.propose _ 0 pAdd (by xsimp))
  have r4 : CReach c1 x4 := .step r3 (CStep.advanceCommit _ 0 2 {0} (by xsimp) (by xsimp) (by xsimp)
    (by simpa [cfg, cfgAt, x3_eq, x2, x1, cinit, init, cBecomeLeader, doTimeout, doBecomeLeader, doClientReq, upd, updN] using q0)
    (by intro j hj; simp at hj; subst hj; exact ⟨2, Nat.le_refl _, by xsimp⟩))
  have r5 : CReach c1 x5 := .step r4 (CStep.apply _ 0 (by xsimp))
  have r6 : CReach c1 x6 := .step r5 (CStep.apply _ 0 (by xsimp))
  exact .step r6 (CStep.autoLeave _ 0 (by xsimp) (by rw [x6_cfg]; rfl) (by xsimp))

example : ∃ s : CSys 3, CReach c1 s ∧ (s.base.nodes 0).role = .leader ∧
    (s.base.nodes 0).log = [⟨1, 0⟩, ⟨1, pAdd⟩, ⟨1, leaveData⟩] ∧ s.pend 0 = 3 ∧
    cfg c1 s 0 = cJ1 ∧ ¬ IsQuorumJ (cfg c1 s 0) ({0} : Finset (Fin 3)) ∧ ¬ IsQuorumJ (cfg c1 s 0) ({1, 2} : Finset (Fin 3)) ∧
    IsQuorumJ (cfg c1 s 0) ({0, 1} : Finset (Fin 3)) := by
  have hc : cfg c1 x7 0 = cJ1 := by
    have h1 : x7.applied 0 = 2 := by xsimp
    have h2 : (x7.base.nodes 0).log = [⟨1, 0⟩, ⟨1, pAdd⟩, ⟨1, leaveData⟩] := by xsimp
    unfold cfg
    rw [h1, h2]
    simp [cfgAt, List.take, List.foldl, applyEntry, ccOf_zero, ccOf_pAdd, apply_add23]
  refine ⟨x7, reach_x7, by xsimp, by xsimp, by xsimp, hc, ?_, ?_, ?_⟩
  · rw [hc]; simp [IsQuorumJ, QJ, nidsOf, nid, RQJ.IsQuorum, RQJ.Maj, cJ1]; decide
  · rw [hc]; simp [IsQuorumJ, QJ, nidsOf, nid, RQJ.IsQuorum, RQJ.Maj, cJ1]; decide
  · rw [hc]; simp [IsQuorumJ, QJ, nidsOf, nid, RQJ.IsQuorum, RQJ.Maj, cJ1]; decide

#print axioms C15_joint_holds
#print axioms joint_election_safety
#print axioms joint_log_matching
#print axioms joint_leader_completeness
#print axioms joint_leader_holds_committed
#print axioms joint_state_machine_safety
#print axioms joint_committed_never_rewritten
#print axioms joint_one_pending
#print axioms cinv_reach
#print axioms electOK_of_cinv
#print axioms commitOK_of_cinv
#print axioms applyCC_ovl
#print axioms cfgAt_ovl
#print axioms ccOf_encCC
#print axioms cfg_voters_nonempty
#print axioms cfg_checkInvariants
#print axioms isQuorumJ_iff_etcd
#print axioms voteWon_iff_QJ
#print axioms committed_ge_iff_QJ
#print axioms refusal_none_iff
#print axioms gateJ_accepts_iff
#print axioms autoLeave_is_accepted_proposal
#print axioms autoLeave_step_is_propose
#print axioms enter_empty_passes_gate_and_is_refused_by_changer
#print axioms campaignGate_iff
#print axioms swap_fold
#print axioms reach_x7
end RSJ
