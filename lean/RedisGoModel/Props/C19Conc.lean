import RedisGoModel.Conc.PubSubConc
/-! # C19, concurrent: the Pub/Sub subscription table under arbitrary goroutine interleavings

Theorems about the micro-step model `Conc/PubSubConc.lean` (every reachable state of every program of Subscribe / UnSubscribe / Send
operations on any number of threads, any schedule, any write failures on dead connections):

* `lock_order` — every thread acquires the table lock holding nothing, acquires an object lock holding no object lock (and the table
  lock only in write mode: Subscribe / UnSubscribe), so: table before object, never two object locks.
* `pubsub_deadlock_free` — in every reachable state with an unfinished thread some thread step is enabled.
* `send_sees_consistent_set` — while a Send is in its delivery loop no other thread changes the object's subscriber set, and the set is
  exactly `delivered ++ still to visit` (`send_loop_invariant`).
* `dropped_object_is_empty` — an object no table entry points to has no subscribers.
* `release_deadlocks` — NEGATIVE: with the seeded `release` operation (object lock, then table lock) a concrete run reaches a state in
  which two threads are unfinished and no thread step is enabled.

(The linearizability theorems are in `Props/C19ConcLin.lean`.) -/
set_option linter.unusedSimpArgs false
set_option linter.unusedVariables false
namespace PSC
open PubSub (Chan Conn Payload)
variable {n : Nat}

def holdsTW : Pc → Bool
| .idle => false
| .s0 => false | .s1 => true | .s2 _ => true | .s3 _ => true | .s4 _ => true | .s5 => true
| .u0 => false | .u1 => true | .u2 _ => true | .u3 _ => true | .u3d _ => true | .u4 _ => true | .u5 => true
| .p0 => false | .p1 => false | .p2 _ => false | .p3 _ => false | .p4 _ _ _ => false
| .r0 => false | .r1 => false | .r2 _ => false | .r3 _ => false | .r4 _ => false | .r5 _ => true | .r6 _ => true | .r7 _ => false

def holdsTR : Pc → Bool
| .idle => false
| .s0 => false | .s1 => false | .s2 _ => false | .s3 _ => false | .s4 _ => false | .s5 => false
| .u0 => false | .u1 => false | .u2 _ => false | .u3 _ => false | .u3d _ => false | .u4 _ => false | .u5 => false
| .p0 => false | .p1 => true | .p2 _ => true | .p3 _ => false | .p4 _ _ _ => false
| .r0 => false | .r1 => true | .r2 _ => true | .r3 _ => false | .r4 _ => false | .r5 _ => false | .r6 _ => false | .r7 _ => false

def holdsO : Pc → Option Obj
| .idle => none
| .s0 => none | .s1 => none | .s2 _ => none | .s3 o => some o | .s4 o => some o | .s5 => none
| .u0 => none | .u1 => none | .u2 _ => none | .u3 o => some o | .u3d o => some o | .u4 o => some o | .u5 => none
| .p0 => none | .p1 => none | .p2 _ => none | .p3 _ => none | .p4 o _ _ => some o
| .r0 => none | .r1 => none | .r2 _ => none | .r3 _ => none | .r4 o => some o | .r5 o => some o | .r6 o => some o | .r7 o => some o

/-- 0 idle, 1 Subscribe, 2 UnSubscribe, 3 Send, 4 release -/
def pcKind : Pc → Nat
| .idle => 0
| .s0 => 1 | .s1 => 1 | .s2 _ => 1 | .s3 _ => 1 | .s4 _ => 1 | .s5 => 1
| .u0 => 2 | .u1 => 2 | .u2 _ => 2 | .u3 _ => 2 | .u3d _ => 2 | .u4 _ => 2 | .u5 => 2
| .p0 => 3 | .p1 => 3 | .p2 _ => 3 | .p3 _ => 3 | .p4 _ _ _ => 3
| .r0 => 4 | .r1 => 4 | .r2 _ => 4 | .r3 _ => 4 | .r4 _ => 4 | .r5 _ => 4 | .r6 _ => 4 | .r7 _ => 4

def opKind : Op → Nat
| .subscribe _ _ => 1
| .unsubscribe _ _ => 2
| .send _ _ => 3
| .release _ => 4

@[simp] theorem holdsTW_idle : holdsTW .idle = false := rfl
@[simp] theorem holdsTR_idle : holdsTR .idle = false := rfl
@[simp] theorem holdsO_idle : holdsO .idle = none := rfl
@[simp] theorem pcKind_idle : pcKind .idle = 0 := rfl
@[simp] theorem waitsTW_idle : waitsTW .idle = false := rfl
@[simp] theorem holdsTW_s0 : holdsTW .s0 = false := rfl
@[simp] theorem holdsTR_s0 : holdsTR .s0 = false := rfl
@[simp] theorem holdsO_s0 : holdsO .s0 = none := rfl
@[simp] theorem pcKind_s0 : pcKind .s0 = 1 := rfl
@[simp] theorem waitsTW_s0 : waitsTW .s0 = true := rfl
@[simp] theorem holdsTW_s1 : holdsTW .s1 = true := rfl
@[simp] theorem holdsTR_s1 : holdsTR .s1 = false := rfl
@[simp] theorem holdsO_s1 : holdsO .s1 = none := rfl
@[simp] theorem pcKind_s1 : pcKind .s1 = 1 := rfl
@[simp] theorem waitsTW_s1 : waitsTW .s1 = false := rfl
@[simp] theorem holdsTW_s2 (o : _): holdsTW (.s2 o) = true := rfl
@[simp] theorem holdsTR_s2 (o : _): holdsTR (.s2 o) = false := rfl
@[simp] theorem holdsO_s2 (o : _): holdsO (.s2 o) = none := rfl
@[simp] theorem pcKind_s2 (o : _): pcKind (.s2 o) = 1 := rfl
@[simp] theorem waitsTW_s2 (o : _): waitsTW (.s2 o) = false := rfl
@[simp] theorem holdsTW_s3 (o : _): holdsTW (.s3 o) = true := rfl
@[simp] theorem holdsTR_s3 (o : _): holdsTR (.s3 o) = false := rfl
@[simp] theorem holdsO_s3 (o : _): holdsO (.s3 o) = some o := rfl
@[simp] theorem pcKind_s3 (o : _): pcKind (.s3 o) = 1 := rfl
@[simp] theorem waitsTW_s3 (o : _): waitsTW (.s3 o) = false := rfl
@[simp] theorem holdsTW_s4 (o : _): holdsTW (.s4 o) = true := rfl
@[simp] theorem holdsTR_s4 (o : _): holdsTR (.s4 o) = false := rfl
@[simp] theorem holdsO_s4 (o : _): holdsO (.s4 o) = some o := rfl
@[simp] theorem pcKind_s4 (o : _): pcKind (.s4 o) = 1 := rfl
@[simp] theorem waitsTW_s4 (o : _): waitsTW (.s4 o) = false := rfl
@[simp] theorem holdsTW_s5 : holdsTW .s5 = true := rfl
@[simp] theorem holdsTR_s5 : holdsTR .s5 = false := rfl
@[simp] theorem holdsO_s5 : holdsO .s5 = none := rfl
@[simp] theorem pcKind_s5 : pcKind .s5 = 1 := rfl
@[simp] theorem waitsTW_s5 : waitsTW .s5 = false := rfl
@[simp] theorem holdsTW_u0 : holdsTW .u0 = false := rfl
@[simp] theorem holdsTR_u0 : holdsTR .u0 = false := rfl
@[simp] theorem holdsO_u0 : holdsO .u0 = none := rfl
@[simp] theorem pcKind_u0 : pcKind .u0 = 2 := rfl
@[simp] theorem waitsTW_u0 : waitsTW .u0 = true := rfl
@[simp] theorem holdsTW_u1 : holdsTW .u1 = true := rfl
@[simp] theorem holdsTR_u1 : holdsTR .u1 = false := rfl
@[simp] theorem holdsO_u1 : holdsO .u1 = none := rfl
@[simp] theorem pcKind_u1 : pcKind .u1 = 2 := rfl
@[simp] theorem waitsTW_u1 : waitsTW .u1 = false := rfl
@[simp] theorem holdsTW_u2 (o : _): holdsTW (.u2 o) = true := rfl
@[simp] theorem holdsTR_u2 (o : _): holdsTR (.u2 o) = false := rfl
@[simp] theorem holdsO_u2 (o : _): holdsO (.u2 o) = none := rfl
@[simp] theorem pcKind_u2 (o : _): pcKind (.u2 o) = 2 := rfl
@[simp] theorem waitsTW_u2 (o : _): waitsTW (.u2 o) = false := rfl
@[simp] theorem holdsTW_u3 (o : _): holdsTW (.u3 o) = true := rfl
@[simp] theorem holdsTR_u3 (o : _): holdsTR (.u3 o) = false := rfl
@[simp] theorem holdsO_u3 (o : _): holdsO (.u3 o) = some o := rfl
@[simp] theorem pcKind_u3 (o : _): pcKind (.u3 o) = 2 := rfl
@[simp] theorem waitsTW_u3 (o : _): waitsTW (.u3 o) = false := rfl
@[simp] theorem holdsTW_u3d (o : _): holdsTW (.u3d o) = true := rfl
@[simp] theorem holdsTR_u3d (o : _): holdsTR (.u3d o) = false := rfl
@[simp] theorem holdsO_u3d (o : _): holdsO (.u3d o) = some o := rfl
@[simp] theorem pcKind_u3d (o : _): pcKind (.u3d o) = 2 := rfl
@[simp] theorem waitsTW_u3d (o : _): waitsTW (.u3d o) = false := rfl
@[simp] theorem holdsTW_u4 (o : _): holdsTW (.u4 o) = true := rfl
@[simp] theorem holdsTR_u4 (o : _): holdsTR (.u4 o) = false := rfl
@[simp] theorem holdsO_u4 (o : _): holdsO (.u4 o) = some o := rfl
@[simp] theorem pcKind_u4 (o : _): pcKind (.u4 o) = 2 := rfl
@[simp] theorem waitsTW_u4 (o : _): waitsTW (.u4 o) = false := rfl
@[simp] theorem holdsTW_u5 : holdsTW .u5 = true := rfl
@[simp] theorem holdsTR_u5 : holdsTR .u5 = false := rfl
@[simp] theorem holdsO_u5 : holdsO .u5 = none := rfl
@[simp] theorem pcKind_u5 : pcKind .u5 = 2 := rfl
@[simp] theorem waitsTW_u5 : waitsTW .u5 = false := rfl
@[simp] theorem holdsTW_p0 : holdsTW .p0 = false := rfl
@[simp] theorem holdsTR_p0 : holdsTR .p0 = false := rfl
@[simp] theorem holdsO_p0 : holdsO .p0 = none := rfl
@[simp] theorem pcKind_p0 : pcKind .p0 = 3 := rfl
@[simp] theorem waitsTW_p0 : waitsTW .p0 = false := rfl
@[simp] theorem holdsTW_p1 : holdsTW .p1 = false := rfl
@[simp] theorem holdsTR_p1 : holdsTR .p1 = true := rfl
@[simp] theorem holdsO_p1 : holdsO .p1 = none := rfl
@[simp] theorem pcKind_p1 : pcKind .p1 = 3 := rfl
@[simp] theorem waitsTW_p1 : waitsTW .p1 = false := rfl
@[simp] theorem holdsTW_p2 (r : _): holdsTW (.p2 r) = false := rfl
@[simp] theorem holdsTR_p2 (r : _): holdsTR (.p2 r) = true := rfl
@[simp] theorem holdsO_p2 (r : _): holdsO (.p2 r) = none := rfl
@[simp] theorem pcKind_p2 (r : _): pcKind (.p2 r) = 3 := rfl
@[simp] theorem waitsTW_p2 (r : _): waitsTW (.p2 r) = false := rfl
@[simp] theorem holdsTW_p3 (o : _): holdsTW (.p3 o) = false := rfl
@[simp] theorem holdsTR_p3 (o : _): holdsTR (.p3 o) = false := rfl
@[simp] theorem holdsO_p3 (o : _): holdsO (.p3 o) = none := rfl
@[simp] theorem pcKind_p3 (o : _): pcKind (.p3 o) = 3 := rfl
@[simp] theorem waitsTW_p3 (o : _): waitsTW (.p3 o) = false := rfl
@[simp] theorem holdsTW_p4 (o : _) (a : _) (b : _): holdsTW (.p4 o a b) = false := rfl
@[simp] theorem holdsTR_p4 (o : _) (a : _) (b : _): holdsTR (.p4 o a b) = false := rfl
@[simp] theorem holdsO_p4 (o : _) (a : _) (b : _): holdsO (.p4 o a b) = some o := rfl
@[simp] theorem pcKind_p4 (o : _) (a : _) (b : _): pcKind (.p4 o a b) = 3 := rfl
@[simp] theorem waitsTW_p4 (o : _) (a : _) (b : _): waitsTW (.p4 o a b) = false := rfl
@[simp] theorem holdsTW_r0 : holdsTW .r0 = false := rfl
@[simp] theorem holdsTR_r0 : holdsTR .r0 = false := rfl
@[simp] theorem holdsO_r0 : holdsO .r0 = none := rfl
@[simp] theorem pcKind_r0 : pcKind .r0 = 4 := rfl
@[simp] theorem waitsTW_r0 : waitsTW .r0 = false := rfl
@[simp] theorem holdsTW_r1 : holdsTW .r1 = false := rfl
@[simp] theorem holdsTR_r1 : holdsTR .r1 = true := rfl
@[simp] theorem holdsO_r1 : holdsO .r1 = none := rfl
@[simp] theorem pcKind_r1 : pcKind .r1 = 4 := rfl
@[simp] theorem waitsTW_r1 : waitsTW .r1 = false := rfl
@[simp] theorem holdsTW_r2 (r : _): holdsTW (.r2 r) = false := rfl
@[simp] theorem holdsTR_r2 (r : _): holdsTR (.r2 r) = true := rfl
@[simp] theorem holdsO_r2 (r : _): holdsO (.r2 r) = none := rfl
@[simp] theorem pcKind_r2 (r : _): pcKind (.r2 r) = 4 := rfl
@[simp] theorem waitsTW_r2 (r : _): waitsTW (.r2 r) = false := rfl
@[simp] theorem holdsTW_r3 (o : _): holdsTW (.r3 o) = false := rfl
@[simp] theorem holdsTR_r3 (o : _): holdsTR (.r3 o) = false := rfl
@[simp] theorem holdsO_r3 (o : _): holdsO (.r3 o) = none := rfl
@[simp] theorem pcKind_r3 (o : _): pcKind (.r3 o) = 4 := rfl
@[simp] theorem waitsTW_r3 (o : _): waitsTW (.r3 o) = false := rfl
@[simp] theorem holdsTW_r4 (o : _): holdsTW (.r4 o) = false := rfl
@[simp] theorem holdsTR_r4 (o : _): holdsTR (.r4 o) = false := rfl
@[simp] theorem holdsO_r4 (o : _): holdsO (.r4 o) = some o := rfl
@[simp] theorem pcKind_r4 (o : _): pcKind (.r4 o) = 4 := rfl
@[simp] theorem waitsTW_r4 (o : _): waitsTW (.r4 o) = true := rfl
@[simp] theorem holdsTW_r5 (o : _): holdsTW (.r5 o) = true := rfl
@[simp] theorem holdsTR_r5 (o : _): holdsTR (.r5 o) = false := rfl
@[simp] theorem holdsO_r5 (o : _): holdsO (.r5 o) = some o := rfl
@[simp] theorem pcKind_r5 (o : _): pcKind (.r5 o) = 4 := rfl
@[simp] theorem waitsTW_r5 (o : _): waitsTW (.r5 o) = false := rfl
@[simp] theorem holdsTW_r6 (o : _): holdsTW (.r6 o) = true := rfl
@[simp] theorem holdsTR_r6 (o : _): holdsTR (.r6 o) = false := rfl
@[simp] theorem holdsO_r6 (o : _): holdsO (.r6 o) = some o := rfl
@[simp] theorem pcKind_r6 (o : _): pcKind (.r6 o) = 4 := rfl
@[simp] theorem waitsTW_r6 (o : _): waitsTW (.r6 o) = false := rfl
@[simp] theorem holdsTW_r7 (o : _): holdsTW (.r7 o) = false := rfl
@[simp] theorem holdsTR_r7 (o : _): holdsTR (.r7 o) = false := rfl
@[simp] theorem holdsO_r7 (o : _): holdsO (.r7 o) = some o := rfl
@[simp] theorem pcKind_r7 (o : _): pcKind (.r7 o) = 4 := rfl
@[simp] theorem waitsTW_r7 (o : _): waitsTW (.r7 o) = false := rfl

theorem real_kind (op : Op) : op.real = true ↔ opKind op ≠ 4 := by cases op <;> simp [Op.real, opKind]
theorem entry_kind (op : Op) : pcKind (entry op) = opKind op := by cases op <;> rfl
theorem entry_holds (op : Op) : holdsTW (entry op) = false ∧ holdsTR (entry op) = false ∧ holdsO (entry op) = none := by
  cases op <;> simp [entry]

/-- lock state and program counters agree; only real operations are run -/
structure LInv (s : St n) : Prop where
  tw : ∀ u, s.tw = some u ↔ holdsTW (s.thr u).pc = true
  tr : ∀ u, u ∈ s.tr ↔ holdsTR (s.thr u).pc = true
  trn : s.tr.Nodup
  ow : ∀ u o, s.ow o = some u ↔ holdsO (s.thr u).pc = some o
  kind : ∀ u, (pcKind (s.thr u).pc = 0 ∨ pcKind (s.thr u).pc = opKind (s.thr u).cur) ∧ pcKind (s.thr u).pc ≠ 4
  real : ∀ u op, op ∈ (s.thr u).prog → opKind op ≠ 4

macro "step_cases" h:ident : tactic =>
  `(tactic| (unfold next0 at $h:ident; simp only [] at $h:ident; split at $h:ident <;> (try split at $h:ident) <;> (try split at $h:ident)
             <;> (try (simp only [Option.some.injEq, reduceCtorEq] at $h:ident)) <;> (try subst $h:ident)))

section
variable (c : Prop) [Decidable c] (th : Thread)
@[simp] theorem ite_pc : (if c then { th with lpd := true, exp := 0 } else th).pc = th.pc := by split <;> rfl
@[simp] theorem ite_cur : (if c then { th with lpd := true, exp := 0 } else th).cur = th.cur := by split <;> rfl
@[simp] theorem ite_prog : (if c then { th with lpd := true, exp := 0 } else th).prog = th.prog := by split <;> rfl
@[simp] theorem ite_k : (if c then { th with lpd := true, exp := 0 } else th).k = th.k := by split <;> rfl
@[simp] theorem ite_replies : (if c then { th with lpd := true, exp := 0 } else th).replies = th.replies := by split <;> rfl
@[simp] theorem ite_invAt : (if c then { th with lpd := true, exp := 0 } else th).invAt = th.invAt := by split <;> rfl
@[simp] theorem ite_invLen : (if c then { th with lpd := true, exp := 0 } else th).invLen = th.invLen := by split <;> rfl
end

theorem linv_tw (s s' : St n) (t : Fin n) (b : Bool) (h : next0 s t b = some s') (hi : LInv s) :
    ∀ u, s'.tw = some u ↔ holdsTW (s'.thr u).pc = true := by
  have hk := hi.kind t
  have ht := hi.tw t
  intro u
  have hu2 := hi.tw u
  clear hi
  step_cases h
  all_goals by_cases hu : u = t
  all_goals (try subst hu)
  all_goals (try have hu' : ¬ t = u := fun e => hu e.symm)
  all_goals (try simp [*, setT, fin, upd, tWFree, entry_holds] at *)
  all_goals (try simp [*, setT, fin, upd, tWFree, entry_holds])
  all_goals (cases hh : holdsTW (s.thr u).pc <;> simp_all)

theorem linv_tr (s s' : St n) (t : Fin n) (b : Bool) (h : next0 s t b = some s') (hi : LInv s) :
    (∀ u, u ∈ s'.tr ↔ holdsTR (s'.thr u).pc = true) ∧ s'.tr.Nodup := by
  have hk := hi.kind t
  have ht := hi.tr t
  have hn := hi.trn
  have hall := hi.tr
  clear hi
  step_cases h
  all_goals refine ⟨fun u => ?_, ?_⟩
  all_goals (try (first | exact hn | exact hn.erase _))
  all_goals (try have hu2 := hall u)
  all_goals (try by_cases hu : u = t)
  all_goals (try subst hu)
  all_goals (try have hu' : ¬ t = u := fun e => hu e.symm)
  all_goals (try clear hall)
  all_goals (try simp [*, setT, fin, upd, tRFree, entry_holds, hn.mem_erase_iff] at *)
  all_goals (try simp [*, setT, fin, upd, tRFree, entry_holds, hn.mem_erase_iff])

theorem linv_ow (s s' : St n) (t : Fin n) (b : Bool) (h : next0 s t b = some s') (hi : LInv s) :
    ∀ u o, s'.ow o = some u ↔ holdsO (s'.thr u).pc = some o := by
  have hk := hi.kind t
  have ht := hi.ow t
  intro u o
  have hu2 := hi.ow u o
  have ht2 := hi.ow t o
  clear hi
  step_cases h
  all_goals by_cases hu : u = t
  all_goals (try subst hu)
  all_goals (try have hu' : ¬ t = u := fun e => hu e.symm)
  all_goals (try simp [*, setT, fin, upd, entry_holds] at *)
  all_goals (try simp [*, setT, fin, upd, entry_holds])
  all_goals (first | done | exact eq_comm | (intro h1 e; exact h1 e.symm) | (split <;> simp_all; done) | (intro h1 e; have h3 := hu2.2 h1; have h4 := (ht _).2 e.symm; rw [h3] at h4; exact hu (Option.some.inj h4)))

theorem linv_kind (s s' : St n) (t : Fin n) (b : Bool) (h : next0 s t b = some s') (hi : LInv s) :
    (∀ u, (pcKind (s'.thr u).pc = 0 ∨ pcKind (s'.thr u).pc = opKind (s'.thr u).cur) ∧ pcKind (s'.thr u).pc ≠ 4) ∧
    (∀ u op, op ∈ (s'.thr u).prog → opKind op ≠ 4) := by
  have hk := hi.kind t
  have hr := hi.real t
  have hall := hi.kind
  have hrall := hi.real
  clear hi
  step_cases h
  all_goals refine ⟨fun u => ?_, fun u => ?_⟩
  all_goals have hu2 := hall u
  all_goals have hu3 := hrall u
  all_goals clear hall hrall
  all_goals by_cases hu : u = t
  all_goals (try subst hu)
  all_goals (try have hu' : ¬ t = u := fun e => hu e.symm)
  all_goals (try simp [*, setT, fin, upd, entry_kind] at *)
  all_goals (first | assumption | skip)

theorem next_eq (s s' : St n) (t : Fin n) (b : Bool) (h : next s t b = some s') :
    ∃ s1, next0 s t b = some s1 ∧ s' = { s1 with clock := s.clock + 1 } := by
  unfold next at h
  cases h0 : next0 s t b with
  | none => simp [h0] at h
  | some s1 => simp [h0] at h; exact ⟨s1, rfl, h.symm⟩

theorem linv_next0 (s s' : St n) (t : Fin n) (b : Bool) (h : next0 s t b = some s') (hi : LInv s) : LInv s' :=
  ⟨linv_tw s s' t b h hi, (linv_tr s s' t b h hi).1, (linv_tr s s' t b h hi).2, linv_ow s s' t b h hi,
   (linv_kind s s' t b h hi).1, (linv_kind s s' t b h hi).2⟩

theorem linv_step (s s' : St n) (h : Step s s') (hi : LInv s) : LInv s' := by
  cases h with
  | thr _ t b h =>
    obtain ⟨s1, h0, rfl⟩ := next_eq s s' t b h
    have i := linv_next0 s s1 t b h0 hi
    exact ⟨i.tw, i.tr, i.trn, i.ow, i.kind, i.real⟩
  | die c => exact ⟨hi.tw, hi.tr, hi.trn, hi.ow, hi.kind, hi.real⟩

theorem linv_init (progs : Fin n → List Op) (hr : Real progs) : LInv (init progs) := by
  refine ⟨?_, ?_, ?_, ?_, ?_, ?_⟩ <;> simp [init]
  intro u op hop
  exact (real_kind op).1 (hr u op hop)

theorem linv_reach (progs : Fin n → List Op) (hr : Real progs) (s : St n) (h : Reach progs s) : LInv s := by
  induction h with
  | init => exact linv_init progs hr
  | step s s' _ hs ih => exact linv_step s s' hs ih

theorem LInv.tw_unique {s : St n} (hi : LInv s) (u t : Fin n) (h1 : holdsTW (s.thr u).pc = true) (h2 : holdsTW (s.thr t).pc = true) :
    u = t := by
  have a := (hi.tw u).2 h1
  have b := (hi.tw t).2 h2
  rw [a] at b
  exact Option.some.inj b

theorem LInv.ow_unique {s : St n} (hi : LInv s) (u t : Fin n) (o : Obj) (h1 : holdsO (s.thr u).pc = some o)
    (h2 : holdsO (s.thr t).pc = some o) : u = t := by
  have a := (hi.ow u o).2 h1
  have b := (hi.ow t o).2 h2
  rw [a] at b
  exact Option.some.inj b

/-! ### lock order -/

/-- **lock order.** Every thread step of every reachable state of a real program: (A) a step that acquires the table lock (in write
    or in read mode) is taken by a thread holding no object lock — table before object; (B) a step that acquires an object lock is
    taken by a thread holding no object lock — never two object locks; (C) no thread ever holds two object locks. -/
theorem lock_order (progs : Fin n → List Op) (hr : Real progs) (s s' : St n) (hs : Reach progs s) (t : Fin n) (b : Bool)
    (h : next s t b = some s') :
    (((s'.tw = some t ∧ s.tw ≠ some t) ∨ (t ∈ s'.tr ∧ t ∉ s.tr)) → ∀ o, s.ow o ≠ some t) ∧
    (∀ o, s'.ow o = some t → s.ow o ≠ some t → ∀ o', s.ow o' ≠ some t) ∧
    (∀ o o', s.ow o = some t → s.ow o' = some t → o = o') := by
  have hi := linv_reach progs hr s hs
  have hi' := linv_reach progs hr s' (Reach.step s s' hs (Step.thr s s' t b h))
  have e1 := hi.tw t
  have e2 := hi.tr t
  have e3 := hi.ow t
  have f1 := hi'.tw t
  have f2 := hi'.tr t
  have f3 := hi'.ow t
  have hk := hi.kind t
  have key : (((holdsTW (s'.thr t).pc = true ∧ ¬ holdsTW (s.thr t).pc = true) ∨ (holdsTR (s'.thr t).pc = true ∧ ¬ holdsTR (s.thr t).pc = true)) →
        holdsO (s.thr t).pc = none) ∧
      (∀ o, holdsO (s'.thr t).pc = some o → ¬ holdsO (s.thr t).pc = some o → holdsO (s.thr t).pc = none) := by
    obtain ⟨s1, h0, rfl⟩ := next_eq s s' t b h
    clear e1 e2 e3 f1 f2 f3 hi hi' h hs
    constructor
    · step_cases h0 <;> simp_all [setT, fin, upd, entry_holds]
    · step_cases h0 <;> simp_all [setT, fin, upd, entry_holds]
  refine ⟨?_, ?_, ?_⟩
  · simp only [ne_eq, e1, e2, f1, f2]
    intro hh o
    simp only [e3, key.1 hh]
    simp
  · intro o h1 h2 o'
    simp only [ne_eq, f3, e3] at h1 h2 ⊢
    rw [key.2 o h1 h2]
    simp
  · intro o o' h1 h2
    rw [e3] at h1 h2
    rw [h1] at h2
    exact Option.some.inj h2

/-! ### deadlock freedom -/

def canStep (s : St n) (t : Fin n) : Prop := ∃ b s', next s t b = some s'

def wantsO : Pc → Option Obj
| .s2 o => some o
| .u2 o => some o
| .p3 o => some o
| _ => none

theorem next_some_iff (s : St n) (t : Fin n) (b : Bool) : (∃ s', next s t b = some s') ↔ ∃ s1, next0 s t b = some s1 := by
  unfold next
  cases next0 s t b <;> simp

/-- a thread of a real program can step unless it is finished or blocked on a lock -/
theorem can_step_cases (s : St n) (t : Fin n) (hk : pcKind (s.thr t).pc ≠ 4) :
    canStep s t ∨ finished (s.thr t) ∨ (waitsTW (s.thr t).pc = true ∧ ¬ tWFree s) ∨ ((s.thr t).pc = .p0 ∧ ¬ tRFree s) ∨
    (∃ o, wantsO (s.thr t).pc = some o ∧ s.ow o ≠ none) := by
  unfold canStep
  cases hpc : (s.thr t).pc
  case idle =>
    cases hp : (s.thr t).prog with
    | nil => right; left; exact ⟨hpc, hp⟩
    | cons op rest => left; refine ⟨false, ?_⟩; rw [next_some_iff]; simp [next0, hpc, hp]
  case s0 => by_cases g : tWFree s
             · left; refine ⟨false, ?_⟩; rw [next_some_iff]; simp [next0, hpc, g]
             · right; right; left; simp [g]
  case u0 => by_cases g : tWFree s
             · left; refine ⟨false, ?_⟩; rw [next_some_iff]; simp [next0, hpc, g]
             · right; right; left; simp [g]
  case p0 => by_cases g : tRFree s
             · left; refine ⟨false, ?_⟩; rw [next_some_iff]; simp [next0, hpc, g]
             · right; right; right; left; simp [g]
  case s2 o => by_cases g : s.ow o = none
               · left; refine ⟨false, ?_⟩; rw [next_some_iff]; simp [next0, hpc, g]
               · right; right; right; right; exact ⟨o, rfl, g⟩
  case u2 o => by_cases g : s.ow o = none
               · left; refine ⟨false, ?_⟩; rw [next_some_iff]; simp [next0, hpc, g]
               · right; right; right; right; exact ⟨o, rfl, g⟩
  case p3 o => by_cases g : s.ow o = none
               · left; refine ⟨false, ?_⟩; rw [next_some_iff]; simp [next0, hpc, g]
               · right; right; right; right; exact ⟨o, rfl, g⟩
  case s1 => left; refine ⟨false, ?_⟩; rw [next_some_iff]; simp only [next0, hpc]; split <;> simp
  case u1 => left; refine ⟨false, ?_⟩; rw [next_some_iff]; simp only [next0, hpc]; split <;> simp
  case p1 => left; refine ⟨false, ?_⟩; rw [next_some_iff]; simp only [next0, hpc]; split <;> simp
  case u3d o => left; refine ⟨false, ?_⟩; rw [next_some_iff]; simp only [next0, hpc]; split <;> simp
  case p2 r => left; refine ⟨false, ?_⟩; rw [next_some_iff]; cases r <;> simp [next0, hpc]
  case p4 o sent todo =>
    left; refine ⟨false, ?_⟩; rw [next_some_iff]
    cases todo with
    | nil => simp only [next0, hpc]; split <;> simp
    | cons c r => simp [next0, hpc]
  all_goals (first | (exfalso; simp [hpc] at hk; done) | (left; refine ⟨false, ?_⟩; rw [next_some_iff]; simp [next0, hpc]))

theorem holder_steps (s : St n) (u : Fin n) (hk : pcKind (s.thr u).pc ≠ 4)
    (hh : holdsO (s.thr u).pc ≠ none ∨ (holdsTW (s.thr u).pc = true ∧ ∀ o, s.ow o = none) ∨ holdsTR (s.thr u).pc = true) :
    canStep s u := by
  rcases can_step_cases s u hk with c | f | w | p | ⟨o, hw, hne⟩
  · exact c
  · rw [f.1] at hh; simp at hh
  · exfalso; cases hpc : (s.thr u).pc <;> simp_all
  · rw [p.1] at hh; simp at hh
  · exfalso
    cases hpc : (s.thr u).pc <;> simp_all [wantsO]

theorem waiter_not_wants (pc : Pc) (o : Obj) (h : waitsTW pc = true) : wantsO pc ≠ some o := by
  cases pc <;> simp_all [wantsO]

/-- **deadlock freedom.** In every reachable state of every real program (any number of threads, any schedule) in which some thread
    has not finished, some thread step is enabled. -/
theorem pubsub_deadlock_free (progs : Fin n → List Op) (hr : Real progs) (s : St n) (hs : Reach progs s)
    (hnf : ∃ t, ¬ finished (s.thr t)) : ∃ t, canStep s t := by
  have hi := linv_reach progs hr s hs
  by_cases hO : ∃ o u, s.ow o = some u
  · obtain ⟨o, u, h⟩ := hO
    have := (hi.ow u o).1 h
    exact ⟨u, holder_steps s u (hi.kind u).2 (Or.inl (by rw [this]; simp))⟩
  have hO' : ∀ o, s.ow o = none := by
    intro o
    cases h : s.ow o with
    | none => rfl
    | some u => exact absurd ⟨o, u, h⟩ hO
  cases htw : s.tw with
  | some u => exact ⟨u, holder_steps s u (hi.kind u).2 (Or.inr (Or.inl ⟨(hi.tw u).1 htw, hO'⟩))⟩
  | none =>
    cases htr : s.tr with
    | cons u r =>
      have : u ∈ s.tr := by rw [htr]; simp
      exact ⟨u, holder_steps s u (hi.kind u).2 (Or.inr (Or.inr ((hi.tr u).1 this)))⟩
    | nil =>
      have hfree : tWFree s := ⟨htw, htr⟩
      obtain ⟨t, ht⟩ := hnf
      rcases can_step_cases s t (hi.kind t).2 with c | f | w | p | ⟨o, hw, hne⟩
      · exact ⟨t, c⟩
      · exact absurd f ht
      · exact absurd hfree w.2
      · have : ∃ u, waitsTW (s.thr u).pc = true := by
          apply Classical.byContradiction
          intro hno
          apply p.2
          refine ⟨htw, fun u => ?_⟩
          cases hw : waitsTW (s.thr u).pc with
          | false => rfl
          | true => exact absurd ⟨u, hw⟩ hno
        obtain ⟨u, hu⟩ := this
        rcases can_step_cases s u (hi.kind u).2 with c | f | w | p' | ⟨o, hw, hne⟩
        · exact ⟨u, c⟩
        · rw [f.1] at hu; simp at hu
        · exact absurd hfree w.2
        · rw [p'.1] at hu; simp at hu
        · exact absurd hw (waiter_not_wants _ o hu)
      · exact absurd (hO' o) hne

/-! ### the negative theorem: the seeded `release` -/

def negProgs : Fin 3 → List Op := fun t =>
  if t = 0 then [.subscribe 1 [97]] else if t = 1 then [.subscribe 2 [97]] else [.release [97]]

/-- thread 0 subscribes (the channel object 0 now exists); thread 2 runs `release` up to its Lock(table), holding the object lock;
    thread 1 starts a Subscribe: Lock(table), lookup, and now needs the object lock -/
def negSched : List (Fin 3 × Bool) :=
  [(0, false), (0, false), (0, false), (0, false), (0, false), (0, false), (0, false),
   (2, false), (2, false), (2, false), (2, false), (2, false),
   (1, false), (1, false), (1, false)]

def stuckB (s : St 3) : Bool :=
  (List.finRange 3).all (fun t => (next s t false).isNone && (next s t true).isNone) &&
  decide ((s.thr 1).pc = .s2 0) && decide ((s.thr 2).pc = .r4 0) && decide (s.tw = some 1) && decide (s.ow 0 = some 2)

theorem neg_eval : (runSched (init negProgs) negSched).map stuckB = some true := by decide

/-- **NEGATIVE (the seeded change `C19-release-empty-channel-lock-order`).** With an operation that takes the object lock and then
    the table lock the model reaches a deadlock: thread 1 (Subscribe) holds the table lock and waits for object 0, thread 2 (`release`)
    holds object 0 and waits for the table lock; no thread step is enabled.  `lock_order` and `pubsub_deadlock_free` need `Real`. -/
theorem release_deadlocks : ∃ s : St 3, Reach negProgs s ∧ (s.thr 1).pc = .s2 0 ∧ s.tw = some 1 ∧ (s.thr 2).pc = .r4 0 ∧ s.ow 0 = some 2 ∧
    ¬ finished (s.thr 1) ∧ ¬ finished (s.thr 2) ∧ ∀ t, ¬ canStep s t := by
  have h := neg_eval
  cases hr : runSched (init negProgs) negSched with
  | none => rw [hr] at h; simp at h
  | some s =>
    rw [hr] at h
    simp only [Option.map_some, Option.some.injEq, stuckB, Bool.and_eq_true, decide_eq_true_eq, List.all_eq_true] at h
    obtain ⟨⟨⟨⟨hall, h1⟩, h2⟩, h3⟩, h4⟩ := h
    refine ⟨s, reach_runSched negProgs negSched _ _ Reach.init hr, h1, h3, h2, h4, ?_, ?_, ?_⟩
    · intro hf; rw [hf.1] at h1; cases h1
    · intro hf; rw [hf.1] at h2; cases h2
    · intro t ⟨b, s', hn⟩
      have := hall t (List.mem_finRange t)
      simp only [Bool.and_eq_true, Option.isNone_iff_eq_none] at this
      cases b
      · rw [this.1] at hn; cases hn
      · rw [this.2] at hn; cases hn

theorem release_not_real : ¬ Real negProgs := by
  intro h
  have := h 2 (.release [97]) (by decide)
  simp [Op.real] at this

/-! ### structure of the table: objects, owners, the delivery loop -/

/-- the object a program counter carries -/
def pcObj : Pc → Option Obj
| .s2 o | .s3 o | .s4 o | .u2 o | .u3 o | .u3d o | .u4 o | .p3 o | .p4 o _ _ => some o
| .p2 r => r
| _ => none

/-- the thread holds the table write lock and has looked the object up: the table entry of its channel is this object -/
def knowsTab : Pc → Option Obj
| .s2 o | .s3 o | .u2 o | .u3 o | .u3d o => some o
| _ => none

@[simp] theorem pcObj_idle : pcObj .idle = none := rfl
@[simp] theorem knowsTab_idle : knowsTab .idle = none := rfl
@[simp] theorem pcObj_s0 : pcObj .s0 = none := rfl
@[simp] theorem knowsTab_s0 : knowsTab .s0 = none := rfl
@[simp] theorem pcObj_s1 : pcObj .s1 = none := rfl
@[simp] theorem knowsTab_s1 : knowsTab .s1 = none := rfl
@[simp] theorem pcObj_s2 (o : _): pcObj (.s2 o) = some o := rfl
@[simp] theorem knowsTab_s2 (o : _): knowsTab (.s2 o) = some o := rfl
@[simp] theorem pcObj_s3 (o : _): pcObj (.s3 o) = some o := rfl
@[simp] theorem knowsTab_s3 (o : _): knowsTab (.s3 o) = some o := rfl
@[simp] theorem pcObj_s4 (o : _): pcObj (.s4 o) = some o := rfl
@[simp] theorem knowsTab_s4 (o : _): knowsTab (.s4 o) = none := rfl
@[simp] theorem pcObj_s5 : pcObj .s5 = none := rfl
@[simp] theorem knowsTab_s5 : knowsTab .s5 = none := rfl
@[simp] theorem pcObj_u0 : pcObj .u0 = none := rfl
@[simp] theorem knowsTab_u0 : knowsTab .u0 = none := rfl
@[simp] theorem pcObj_u1 : pcObj .u1 = none := rfl
@[simp] theorem knowsTab_u1 : knowsTab .u1 = none := rfl
@[simp] theorem pcObj_u2 (o : _): pcObj (.u2 o) = some o := rfl
@[simp] theorem knowsTab_u2 (o : _): knowsTab (.u2 o) = some o := rfl
@[simp] theorem pcObj_u3 (o : _): pcObj (.u3 o) = some o := rfl
@[simp] theorem knowsTab_u3 (o : _): knowsTab (.u3 o) = some o := rfl
@[simp] theorem pcObj_u3d (o : _): pcObj (.u3d o) = some o := rfl
@[simp] theorem knowsTab_u3d (o : _): knowsTab (.u3d o) = some o := rfl
@[simp] theorem pcObj_u4 (o : _): pcObj (.u4 o) = some o := rfl
@[simp] theorem knowsTab_u4 (o : _): knowsTab (.u4 o) = none := rfl
@[simp] theorem pcObj_u5 : pcObj .u5 = none := rfl
@[simp] theorem knowsTab_u5 : knowsTab .u5 = none := rfl
@[simp] theorem pcObj_p0 : pcObj .p0 = none := rfl
@[simp] theorem knowsTab_p0 : knowsTab .p0 = none := rfl
@[simp] theorem pcObj_p1 : pcObj .p1 = none := rfl
@[simp] theorem knowsTab_p1 : knowsTab .p1 = none := rfl
@[simp] theorem pcObj_p2 (r : _): pcObj (.p2 r) = r := rfl
@[simp] theorem knowsTab_p2 (r : _): knowsTab (.p2 r) = none := rfl
@[simp] theorem pcObj_p3 (o : _): pcObj (.p3 o) = some o := rfl
@[simp] theorem knowsTab_p3 (o : _): knowsTab (.p3 o) = none := rfl
@[simp] theorem pcObj_p4 (o : _) (a : _) (b : _): pcObj (.p4 o a b) = some o := rfl
@[simp] theorem knowsTab_p4 (o : _) (a : _) (b : _): knowsTab (.p4 o a b) = none := rfl
@[simp] theorem pcObj_r0 : pcObj .r0 = none := rfl
@[simp] theorem knowsTab_r0 : knowsTab .r0 = none := rfl
@[simp] theorem pcObj_r1 : pcObj .r1 = none := rfl
@[simp] theorem knowsTab_r1 : knowsTab .r1 = none := rfl
@[simp] theorem pcObj_r2 (r : _): pcObj (.r2 r) = none := rfl
@[simp] theorem knowsTab_r2 (r : _): knowsTab (.r2 r) = none := rfl
@[simp] theorem pcObj_r3 (o : _): pcObj (.r3 o) = none := rfl
@[simp] theorem knowsTab_r3 (o : _): knowsTab (.r3 o) = none := rfl
@[simp] theorem pcObj_r4 (o : _): pcObj (.r4 o) = none := rfl
@[simp] theorem knowsTab_r4 (o : _): knowsTab (.r4 o) = none := rfl
@[simp] theorem pcObj_r5 (o : _): pcObj (.r5 o) = none := rfl
@[simp] theorem knowsTab_r5 (o : _): knowsTab (.r5 o) = none := rfl
@[simp] theorem pcObj_r6 (o : _): pcObj (.r6 o) = none := rfl
@[simp] theorem knowsTab_r6 (o : _): knowsTab (.r6 o) = none := rfl
@[simp] theorem pcObj_r7 (o : _): pcObj (.r7 o) = none := rfl
@[simp] theorem knowsTab_r7 (o : _): knowsTab (.r7 o) = none := rfl

theorem knowsTab_holds (pc : Pc) (o : Obj) (h : knowsTab pc = some o) : holdsTW pc = true := by cases pc <;> simp_all

structure SInv (s : St n) : Prop where
  lt : ∀ ch o, s.table ch = some o → o < s.next
  tab : ∀ ch o, s.table ch = some o → s.och o = ch
  pclt : ∀ u o, pcObj (s.thr u).pc = some o → o < s.next
  pcch : ∀ u o, pcObj (s.thr u).pc = some o → s.och o = (s.thr u).cur.chan
  held : ∀ u o, knowsTab (s.thr u).pc = some o → s.table (s.thr u).cur.chan = some o
  nodup : ∀ o, (s.subs o).Nodup
  dropped : ∀ o, s.table (s.och o) ≠ some o → s.subs o = []
  loop : ∀ u o sent todo, (s.thr u).pc = .p4 o sent todo → s.subs o = sent ++ todo

@[simp] theorem entry_pcObj (op : Op) : pcObj (entry op) = none := by cases op <;> rfl
@[simp] theorem entry_knowsTab (op : Op) : knowsTab (entry op) = none := by cases op <;> rfl

theorem sinv_lt (s s' : St n) (t : Fin n) (b : Bool) (h : next0 s t b = some s') (hl : LInv s) (hi : SInv s) :
    (∀ ch o, s'.table ch = some o → o < s'.next) ∧ (∀ u o, pcObj (s'.thr u).pc = some o → o < s'.next) := by
  have hk := hl.kind t
  have h1 := hi.lt
  have h2 := hi.pclt
  have h2t := hi.pclt t
  clear hi hl
  step_cases h
  all_goals refine ⟨fun ch o => ?_, fun u o => ?_⟩
  all_goals (try have h1' := h1 ch o)
  all_goals (try have h2' := h2 u o)
  all_goals (try by_cases hu : u = t)
  all_goals (try subst hu)
  all_goals (try have hu' : ¬ t = u := fun e => hu e.symm)
  all_goals (try simp [*, setT, fin, upd, entry_holds] at *)
  all_goals (first | assumption | (intro e; subst e; exact h1 _ _ (by assumption)) | (intro hh; exact Nat.lt_succ_of_lt (h2' hh)) | (intro e; rw [← e]; exact Nat.lt_succ_self _) | (intro _ hh; exact h1' hh) | (intro hh; split at hh <;> first | exact Nat.lt_succ_of_lt (h1' hh) | (simp at hh; rw [← hh]; exact Nat.lt_succ_self _)))

theorem sinv_och (s s' : St n) (t : Fin n) (b : Bool) (h : next0 s t b = some s') (hl : LInv s) (hi : SInv s) :
    (∀ ch o, s'.table ch = some o → s'.och o = ch) ∧ (∀ u o, pcObj (s'.thr u).pc = some o → s'.och o = (s'.thr u).cur.chan) := by
  have hk := hl.kind t
  have h1 := hi.tab
  have h2 := hi.pcch
  have h2t := hi.pcch t
  have h3 := hi.lt
  have h4 := hi.pclt
  clear hi hl
  step_cases h
  all_goals refine ⟨fun ch o => ?_, fun u o => ?_⟩
  all_goals (try have h1' := h1 ch o)
  all_goals (try have h3' := h3 ch o)
  all_goals (try have h2' := h2 u o)
  all_goals (try have h4' := h4 u o)
  all_goals (try by_cases hu : u = t)
  all_goals (try subst hu)
  all_goals (try have hu' : ¬ t = u := fun e => hu e.symm)
  all_goals (try simp [*, setT, fin, upd, entry_holds] at *)
  all_goals (first | assumption | (intro e; subst e; exact h1 _ _ (by assumption)) | (intro _ hh; exact h1' hh) | (intro e1 e2; exact absurd e1.symm e2) | (intro hh; rw [if_neg (Nat.ne_of_lt (h4' hh))]; exact h2' hh) | skip)
  all_goals (intro hh; split at hh)
  · simp at hh; subst hh; simp [*]
  · rw [if_neg (Nat.ne_of_lt (h3' hh))]; exact h1' hh

theorem LInv.others_know_nothing {s : St n} (hl : LInv s) (t u : Fin n) (hu : u ≠ t) (ht : holdsTW (s.thr t).pc = true) :
    knowsTab (s.thr u).pc = none := by
  cases h : knowsTab (s.thr u).pc with
  | none => rfl
  | some o => exact absurd (hl.tw_unique u t (knowsTab_holds _ o h) ht) hu

theorem sinv_held (s s' : St n) (t : Fin n) (b : Bool) (h : next0 s t b = some s') (hl : LInv s) (hi : SInv s) :
    ∀ u o, knowsTab (s'.thr u).pc = some o → s'.table (s'.thr u).cur.chan = some o := by
  have hk := hl.kind t
  intro u o
  have h1 := hi.held u o
  have h1t := hi.held t
  have hx := hl.others_know_nothing t u
  clear hi hl
  step_cases h
  all_goals (try by_cases hu : u = t)
  all_goals (try subst hu)
  all_goals (try have hu' : ¬ t = u := fun e => hu e.symm)
  all_goals (try simp [*, setT, fin, upd, entry_holds] at *)
  all_goals (first | assumption | skip)

theorem sinv_nodup (s s' : St n) (t : Fin n) (b : Bool) (h : next0 s t b = some s') (hi : SInv s) :
    ∀ o, (s'.subs o).Nodup := by
  intro o
  have h1 := hi.nodup o
  have h2 := hi.nodup
  clear hi
  step_cases h
  all_goals (try simp [*, setT, fin, upd] at *)
  all_goals (first | assumption | skip)
  all_goals split
  all_goals (first | exact h2 _ | exact List.nodup_nil | exact (h2 _).erase _ | skip)
  rw [List.nodup_append]
  refine ⟨h2 _, by simp, fun a ha b hb => ?_⟩
  simp at hb; subst hb
  intro e; subst e; contradiction

@[simp] theorem entry_ne_p4 (op : Op) (o : Obj) (a b : List Conn) : (entry op = Pc.p4 o a b) = False := by cases op <;> simp [entry]

theorem erase_mid (a b : List Conn) (c : Conn) (h : (a ++ c :: b).Nodup) : (a ++ c :: b).erase c = a ++ b := by
  have : c ∉ a := by
    intro hc
    rw [List.nodup_append] at h
    exact h.2.2 c hc c (by simp) rfl
  rw [List.erase_append_right _ this, List.erase_cons_head]

theorem sinv_loop (s s' : St n) (t : Fin n) (b : Bool) (h : next0 s t b = some s') (hl : LInv s) (hi : SInv s) :
    ∀ u o sent todo, (s'.thr u).pc = .p4 o sent todo → s'.subs o = sent ++ todo := by
  have hk := hl.kind t
  intro u o sent todo
  have h1 := hi.loop u o sent todo
  have h1t := hi.loop t
  have hnd := hi.nodup
  have hlt := hi.pclt u o
  have hx : u ≠ t → ∀ o', holdsO (s.thr t).pc = some o' → holdsO (s.thr u).pc = some o' → False :=
    fun hne o' a b => hne (hl.ow_unique u t o' b a)
  clear hi hl
  step_cases h
  all_goals (try by_cases hu : u = t)
  all_goals (try subst hu)
  all_goals (try have hu' : ¬ t = u := fun e => hu e.symm)
  all_goals (try simp [*, setT, fin, upd, entry_holds] at *)
  all_goals (first | assumption
                   | (intro hp; have := hlt (by rw [hp]; rfl); rw [if_neg (Nat.ne_of_lt this)]; exact h1 hp)
                   | (intro hp; rw [hp] at hx; simp at hx; rw [if_neg hx]; exact h1 hp)
                   | (intro e1 e2 e3; subst e1 e2; simp [e3]; done)
                   | (intro e1 e2 e3; subst e1 e2 e3; rw [h1t]; simp; done)
                   | (intro e1 e2 e3; subst e1 e2 e3; simp only [if_true]; rw [h1t]; refine erase_mid _ _ _ ?_; rw [← h1t]; exact hnd _))

theorem sinv_dropped (s s' : St n) (t : Fin n) (b : Bool) (h : next0 s t b = some s') (hl : LInv s) (hi : SInv s) :
    ∀ o, s'.table (s'.och o) ≠ some o → s'.subs o = [] := by
  have hk := hl.kind t
  intro o
  have h1 := hi.dropped o
  have h1a := hi.dropped
  have hheld := hi.held t
  have htab := hi.tab
  have hlt := hi.lt
  clear hi hl
  step_cases h
  all_goals (try simp [*, setT, fin, upd, entry_holds] at *)
  all_goals (first | assumption | skip)
  case h_2 =>
    rename_i _ hpc _ htb
    intro hne hon
    apply h1
    intro hs
    simp only [hon, if_false] at hne
    by_cases hc : s.och o = (s.thr t).cur.chan
    · rw [hc, htb] at hs; cases hs
    · simp [hc] at hne; exact hne hs
  case h_5.isFalse =>
    rename_i _ o' hpc hnin
    intro hs
    by_cases e : o = o'
    · subst e; exact absurd (by rw [htab _ _ hheld]; exact hheld) hs
    · rw [if_neg e]; exact h1 hs
  case h_11 => intro hs; have h0 := h1 hs; split <;> simp_all
  case h_20.isTrue.isTrue => intro hs; have h0 := h1 hs; split <;> simp_all
  case h_12.isTrue =>
    rename_i _ o' hpc hemp
    intro hh
    by_cases hc : s.och o = (s.thr t).cur.chan
    · by_cases e : o = o'
      · subst e; exact hemp
      · apply h1; rw [hc, hheld]; intro e2; exact e (Option.some.inj e2).symm
    · exact h1 (hh hc)

theorem sinv_next0 (s s' : St n) (t : Fin n) (b : Bool) (h : next0 s t b = some s') (hl : LInv s) (hi : SInv s) : SInv s' :=
  ⟨(sinv_lt s s' t b h hl hi).1, (sinv_och s s' t b h hl hi).1, (sinv_lt s s' t b h hl hi).2, (sinv_och s s' t b h hl hi).2,
   sinv_held s s' t b h hl hi, sinv_nodup s s' t b h hi, sinv_dropped s s' t b h hl hi, sinv_loop s s' t b h hl hi⟩

theorem sinv_step (s s' : St n) (h : Step s s') (hl : LInv s) (hi : SInv s) : SInv s' := by
  cases h with
  | thr _ t b h =>
    obtain ⟨s1, h0, rfl⟩ := next_eq s s' t b h
    have i := sinv_next0 s s1 t b h0 hl hi
    exact ⟨i.lt, i.tab, i.pclt, i.pcch, i.held, i.nodup, i.dropped, i.loop⟩
  | die c => exact ⟨hi.lt, hi.tab, hi.pclt, hi.pcch, hi.held, hi.nodup, hi.dropped, hi.loop⟩

theorem sinv_init (progs : Fin n → List Op) : SInv (init progs) := by
  refine ⟨?_, ?_, ?_, ?_, ?_, ?_, ?_, ?_⟩ <;> simp [init]

theorem inv_reach (progs : Fin n → List Op) (hr : Real progs) (s : St n) (h : Reach progs s) : LInv s ∧ SInv s := by
  induction h with
  | init => exact ⟨linv_init progs hr, sinv_init progs⟩
  | step s s' _ hs ih => exact ⟨linv_step s s' hs ih.1, sinv_step s s' hs ih.1 ih.2⟩

/-- **an object no table entry points to has no subscribers** — so a Send that looked an object up just before it was dropped
    delivers to nobody (and is linearized at the drop: `Props/C19ConcLin.lean`) -/
theorem dropped_object_is_empty (progs : Fin n → List Op) (hr : Real progs) (s : St n) (hs : Reach progs s) (o : Obj)
    (h : ∀ ch, s.table ch ≠ some o) : s.subs o = [] :=
  (inv_reach progs hr s hs).2.dropped o (h _)

/-- the delivery loop's invariant: the object's subscriber list is exactly `delivered ++ still to visit`, duplicate-free -/
theorem send_loop_invariant (progs : Fin n → List Op) (hr : Real progs) (s : St n) (hs : Reach progs s) (t : Fin n) (o : Obj)
    (sent todo : List Conn) (h : (s.thr t).pc = .p4 o sent todo) :
    s.subs o = sent ++ todo ∧ (sent ++ todo).Nodup ∧ s.ow o = some t := by
  obtain ⟨hl, hi⟩ := inv_reach progs hr s hs
  refine ⟨hi.loop t o sent todo h, ?_, (hl.ow t o).2 (by rw [h]; rfl)⟩
  rw [← hi.loop t o sent todo h]; exact hi.nodup o

/-- **during a Send's delivery loop no other thread changes the object's subscriber set** (it holds the object's write lock) -/
theorem send_sees_consistent_set (progs : Fin n → List Op) (hr : Real progs) (s s' : St n) (hs : Reach progs s) (t u : Fin n)
    (o : Obj) (sent todo : List Conn) (h : (s.thr t).pc = .p4 o sent todo) (hu : u ≠ t) (b : Bool) (hn : next s u b = some s') :
    s'.subs o = s.subs o ∧ (s'.thr t).pc = .p4 o sent todo := by
  obtain ⟨hl, hi⟩ := inv_reach progs hr s hs
  obtain ⟨hl', hi'⟩ := inv_reach progs hr s' (Reach.step s s' hs (Step.thr s s' u b hn))
  obtain ⟨s1, h0, rfl⟩ := next_eq s s' u b hn
  have hpc : (s1.thr t).pc = .p4 o sent todo := by
    have hne : t ≠ u := fun e => hu e.symm
    clear hl' hi' hl hi hn hs
    step_cases h0 <;> simp_all [setT, fin, upd] <;> (split <;> first | rfl | assumption)
  exact ⟨by rw [hi'.loop t o sent todo hpc, hi.loop t o sent todo h], hpc⟩

/-! ### the hypotheses are satisfiable: a real program, a reachable state inside a delivery loop with another thread unfinished -/

def exProgs : Fin 2 → List Op := fun t =>
  if t = 0 then [.subscribe 1 [97], .send [97] [1]] else [.subscribe 2 [97], .unsubscribe 2 [97]]

theorem exProgs_real : Real exProgs := by
  intro t op h
  unfold exProgs at h
  split at h <;> simp at h <;> rcases h with rfl | rfl <;> rfl

def exSched : List (Fin 2 × Bool) :=
  [(0, false), (0, false), (0, false), (0, false), (0, false), (0, false), (0, false),
   (1, false), (1, false), (1, false), (1, false), (1, false), (1, false), (1, false),
   (0, false), (0, false), (0, false), (0, false), (0, false), (0, false), (1, false)]

theorem ex_eval : (runSched (init exProgs) exSched).map
    (fun s => decide ((s.thr 0).pc = .p4 0 [1] [2]) && decide ((s.thr 1).pc = .u0) && decide (s.log 1 = [([97], [1])])) = some true := by
  decide

example : ∃ s : St 2, Reach exProgs s ∧ (s.thr 0).pc = .p4 0 [1] [2] ∧ ¬ finished (s.thr 1) ∧ (∃ t, canStep s t) := by
  have h := ex_eval
  cases hr : runSched (init exProgs) exSched with
  | none => rw [hr] at h; simp at h
  | some s =>
    rw [hr] at h
    simp only [Option.map_some, Option.some.injEq, Bool.and_eq_true, decide_eq_true_eq] at h
    have hreach := reach_runSched exProgs exSched _ _ Reach.init hr
    have hnf : ¬ finished (s.thr 1) := by intro hf; rw [hf.1] at h; cases h.1.2
    exact ⟨s, hreach, h.1.1, hnf, pubsub_deadlock_free exProgs exProgs_real s hreach ⟨1, hnf⟩⟩

#print axioms lock_order
#print axioms pubsub_deadlock_free
#print axioms send_sees_consistent_set
#print axioms send_loop_invariant
#print axioms dropped_object_is_empty
#print axioms release_deadlocks

end PSC
