import RedisGoModel.Props.C08ReadyBase
/-! Promises against WAL growth, and the statements of the arm that keep `Safe` whatever the Ready (no contract needed).  Core Lean only. -/
namespace ReadyLoop

/-- the hard state `b` keeps the hard-state promises that `a` keeps (term not smaller, a vote cast in a term stays) -/
def HsKeeps (a b : HardState) : Prop := a.term ≤ b.term ∧ (b.term = a.term → a.vote = 0 ∨ b.vote = a.vote)

/-- a promise about term or vote that holds for hard state `a` holds for every `b` that keeps `a` (a vote promise is never for candidate 0) -/
theorem holds_hs_mono {v v' : View} {p : Promise} (hk : HsKeeps v.hs v'.hs) (hp : p.holds v) :
    match p with
    | .term _ => p.holds v'
    | .vote _ x => x ≠ 0 → p.holds v'
    | _ => True := by
  cases p with
  | term t => simp only [Promise.holds] at hp ⊢; have := hk.1; omega
  | vote t x =>
    simp only [Promise.holds] at hp ⊢
    intro hx
    rcases hp with hp | ⟨h1, h2⟩
    · left; have := hk.1; omega
    · rcases Nat.lt_or_ge t v'.hs.term with h | h
      · left; exact h
      · right
        have ht : v'.hs.term = v.hs.term := by have := hk.1; omega
        rcases hk.2 ht with h0 | h0
        · omega
        · exact ⟨by omega, by omega⟩
  | ent _ => trivial
  | reach _ => trivial
  | snap _ => trivial

/-- **log and snapshot promises survive every growth of the disk that appends no entry record**: snapshot files, WAL snapshot records,
    hard states whose commit index does not go back — the restart still works and keeps them -/
theorem promise_survives_growth {recs extra : List Rec} {files files' : List Snap} {v : View} (hv : replayRecs recs files = some v)
    (hne : NoEntry extra) (hc : v.hs.commit ≤ (lastState extra v.hs).commit) (hf : ∀ f ∈ files, f ∈ files') :
    ∃ v', replayRecs (recs ++ extra) files' = some v' ∧ v'.hs = lastState extra v.hs ∧ v.snap.index ≤ v'.snap.index ∧ v.last ≤ v'.last ∧
      (∀ e, (Promise.ent e).holds v → (Promise.ent e).holds v') ∧ (∀ i, (Promise.reach i).holds v → (Promise.reach i).holds v') ∧
      (∀ i, (Promise.snap i).holds v → (Promise.snap i).holds v') := by
  obtain ⟨v', h1, h2, h3, h4, h5⟩ := replay_extend hv hne hc hf
  refine ⟨v', h1, h2, h3, h5, ?_, ?_, ?_⟩
  · intro e he
    simp only [Promise.holds] at he ⊢
    rcases he with he | he
    · left; omega
    · rcases Nat.lt_or_ge v'.snap.index e.index with h | h
      · right; exact h4 e he h
      · left; exact h
  · intro i hi; simp only [Promise.holds] at hi ⊢; omega
  · intro i hi; simp only [Promise.holds] at hi ⊢; omega

/-- **an entry record appended above the snapshot and at most one past the end of the log** (what `wal.Save` writes for a conforming Ready):
    the restart still works and keeps every log promise below the entry's index — the ones at or above it are the ones raft took back by
    handing the entry out -/
theorem promise_survives_entry {recs : List Rec} {files : List Snap} {v : View} {e : Entry} (hv : replayRecs recs files = some v)
    (hb : v.snap.index < e.index) (hle : e.index ≤ v.last + 1) :
    ∃ v', replayRecs (recs ++ [.entry e]) files = some v' ∧ v'.hs = v.hs ∧ v'.snap = v.snap ∧ v'.last = e.index ∧ (Promise.ent e).holds v' ∧
      (∀ x, x.index < e.index → (Promise.ent x).holds v → (Promise.ent x).holds v') ∧
      (∀ i, i ≤ e.index → (Promise.reach i).holds v') := by
  have hlen : e.index - v.snap.index - 1 ≤ v.ents.length := by unfold View.last at hle; omega
  refine ⟨_, replay_entry hv hb hle, rfl, rfl, ?_, ?_, ?_, ?_⟩
  · simp only [View.last, List.length_append, List.length_take, Nat.min_eq_left hlen, List.length_cons, List.length_nil]; omega
  · simp [Promise.holds]
  · intro x hx hh
    simp only [Promise.holds] at hh ⊢
    rcases hh with hh | hh
    · left; exact hh
    · right
      rw [List.mem_append]; left
      rw [mem_take_contig (replay_contig hv)]
      exact ⟨hh, by omega⟩
  · intro i hi
    simp only [Promise.holds, View.last, List.length_append, List.length_take, Nat.min_eq_left hlen, List.length_cons, List.length_nil]
    omega

/-! ### images of a disk -/

theorem all_eq_image (d : Disk) : (d.image d.buffered.length).synced = d.all := by simp [Disk.image, Disk.all]

theorem replay_flush (d : Disk) (k : Nat) : replay d.flush k = replay d d.buffered.length := by
  simp [replay, Disk.image, Disk.flush]

theorem replay_image (d : Disk) (k j : Nat) : replay (d.image k) j = replay d k := by
  simp [replay, Disk.image]

/-- the crash images of a disk after a write: the old ones, and the old records followed by a prefix of what was written -/
theorem replay_write (d : Disk) (rs : List Rec) (k : Nat) :
    replay (d.write rs) k = if k ≤ d.buffered.length then replay d k else replayRecs (d.all ++ rs.take (k - d.buffered.length)) d.files := by
  simp only [replay, Disk.image, Disk.write, Disk.all]
  split
  · rename_i h; rw [List.take_append_of_le_length h]
  · rename_i h
    rw [List.take_append, List.take_of_length_le (by omega), List.append_assoc]

/-! ### statements that keep `Safe` for every Ready -/

theorem safe_of_eq {s s' : State} (hd : s'.disk = s.disk) (ho : ∀ p ∈ s'.owed, p ∈ s.owed) (h : Safe s) : Safe s' := by
  intro k
  obtain ⟨v, hv, hp⟩ := h k
  exact ⟨v, by rw [hd]; exact hv, fun p hpm => hp p (ho p hpm)⟩

theorem safe_flush {s s' : State} (hd : s'.disk = s.disk.flush) (ho : ∀ p ∈ s'.owed, p ∈ s.owed) (h : Safe s) : Safe s' := by
  intro k
  obtain ⟨v, hv, hp⟩ := h s.disk.buffered.length
  exact ⟨v, by rw [hd, replay_flush]; exact hv, fun p hpm => hp p (ho p hpm)⟩

/-- promises kept by `v` are kept by `v'` when `v'` has the same hard state, a snapshot and a log end at least as far, and every entry of `v`
    above its snapshot -/
theorem holds_of_extend {v v' : View} (hhs : v'.hs = v.hs) (hs : v.snap.index ≤ v'.snap.index) (hl : v.last ≤ v'.last)
    (he : ∀ x ∈ v.ents, v'.snap.index < x.index → x ∈ v'.ents) (p : Promise) (hp : p.holds v) : p.holds v' := by
  cases p with
  | term t => simpa [Promise.holds, hhs] using hp
  | vote t x => simpa [Promise.holds, hhs] using hp
  | ent e =>
    simp only [Promise.holds] at hp ⊢
    rcases hp with hp | hp
    · left; omega
    · rcases Nat.lt_or_ge v'.snap.index e.index with h | h
      · right; exact he e hp h
      · left; exact h
  | reach i => simp only [Promise.holds] at hp ⊢; omega
  | snap i => simp only [Promise.holds] at hp ⊢; omega

theorem safe_addFile {s s' : State} (f : Snap) (hd : s'.disk = { s.disk with files := s.disk.files ++ [f] }) (ho : ∀ p ∈ s'.owed, p ∈ s.owed)
    (h : Safe s) : Safe s' := by
  intro k
  obtain ⟨v, hv, hp⟩ := h k
  have hv' : replayRecs (s.disk.image k).synced s.disk.files = some v := hv
  obtain ⟨v', h1, h2, h3, h4, h5⟩ := replay_extend (extra := []) (files' := s.disk.files ++ [f]) hv'
    (by intro r hr; simp at hr) (by simp [lastState]) (fun g hg => List.mem_append_left _ hg)
  refine ⟨v', ?_, fun p hpm => holds_of_extend (by simpa [lastState] using h2) h3 h5 h4 p (hp p (ho p hpm))⟩
  rw [hd]
  simpa [replay, Disk.image] using h1

/-- a WAL snapshot record is written (not yet synced) -/
theorem safe_writeSnapRec {s s' : State} (i t : Nat) (hd : s'.disk = s.disk.write [.snap i t]) (ho : ∀ p ∈ s'.owed, p ∈ s.owed)
    (h : Safe s) : Safe s' := by
  intro k
  rw [hd, replay_write]
  split
  · obtain ⟨v, hv, hp⟩ := h k
    exact ⟨v, hv, fun p hpm => hp p (ho p hpm)⟩
  · rename_i hk
    obtain ⟨v, hv, hp⟩ := h s.disk.buffered.length
    have hv' : replayRecs s.disk.all s.disk.files = some v := by rw [← all_eq_image]; exact hv
    have hk1 : List.take (k - s.disk.buffered.length) [Rec.snap i t] = [Rec.snap i t] := by
      have : k - s.disk.buffered.length = (k - s.disk.buffered.length - 1) + 1 := by omega
      rw [this]; simp
    rw [hk1]
    obtain ⟨v', h1, h2, h3, h4, h5⟩ := replay_extend (extra := [.snap i t]) (files' := s.disk.files) hv'
      (by intro r hr e; simp at hr; subst hr; simp) (by simp [lastState]) (fun g hg => hg)
    exact ⟨v', h1, fun p hpm => holds_of_extend (by simpa [lastState] using h2) h3 h5 h4 p (hp p (ho p hpm))⟩

end ReadyLoop
