import RedisGoModel.Props.C05FootString
import RedisGoModel.Props.C05FootHash
import RedisGoModel.Props.C05FootSet
import RedisGoModel.Props.C05FootList
import RedisGoModel.Props.C05FootZSet
import RedisGoModel.Props.C05FootRefuse
import RedisGoModel.Props.C06Table
/-! # C05 / C13 — the footprint theorems for the whole command table

For the model the correspondence driver runs (`Exec.exec`: lookup in `Exec.cmdTable`, all 77 commands, plus the empty and the unknown
command) and the footprint `Exec.footprint args` (`Exec/Footprint.lean`; the Go lock trace of every command of the exec
correspondence runs is compared with it by the driver — `Driver/Exec.lean` `checkFootprint`):

* `exec_frame`    — a key outside the footprint is untouched: `k ∉ ks → (exec env db args).2.get k = db.get k`
  (`exec_frame_none`: with footprint `none` the keyspace is returned as it came, physically);
* `exec_local`    — two keyspaces that hold the same physical entries (`Db.get`: value AND deadline — what the stripes protect) under
  the footprint keys give the same reply and again agree on the footprint keys (`exec_local_none`: with footprint `none` the reply
  does not depend on the keyspace at all);
* `exec_readonly` — a read footprint (`write = false`): the result is the input except that entries whose deadline had passed at
  `env.now` may have been deleted (`RO` — Go's `CheckTTL` takes its own short write lock for that); `exec_readonly_live`: on the live
  view `Exec.live · env.now` nothing changes;
* KEYS (`whole`): `exec_whole` — nothing but lazy deletion happens, and the reply is a function of the keyspace as a lookup function.
* `exec_lockPlan` — the packaged statements also hold for `Exec.lockPlan env args`, the refinement the driver compares the Go lock
  trace with: a call refused between the arity test and the first lock (`Exec.refused`) does not consult the keyspace (`table_refuse`).

None of the `keys`/`none` statements needs `Db.WF` (they are about `Db.get`, the first binding of a key); the KEYS statements and the
live-view form do.  `exec_footprint` is the packaged form (`Foot.FootOk`), from which `Exec.cmdBlock_wf` (Stage 3) is derived.
Per-command lemmas `Foot.t_<cmd> : CmdFoot cmd<Cmd> fp<Shape>` live in `Props/C05Foot{String,Hash,Set,List,ZSet}.lean`; they are
lifted through `List.find?` membership in `footTable` (no command name is ever evaluated). -/
namespace Exec.Foot
open Resp (Reply Bytes)
open Exec

/-- every row of the footprint table: the executor satisfies the statements for its footprint -/
theorem table_foot : ∀ p ∈ footTable, CmdFoot p.2.1 p.2.2.1 :=
  List.forall_mem_cons.mpr ⟨t_set, List.forall_mem_cons.mpr ⟨t_get, List.forall_mem_cons.mpr ⟨t_getrange, List.forall_mem_cons.mpr ⟨t_setrange, List.forall_mem_cons.mpr ⟨t_mget, List.forall_mem_cons.mpr ⟨t_mset, List.forall_mem_cons.mpr ⟨t_setex, List.forall_mem_cons.mpr ⟨t_setnx, List.forall_mem_cons.mpr ⟨t_strlen, List.forall_mem_cons.mpr ⟨t_incr, List.forall_mem_cons.mpr ⟨t_incrby, List.forall_mem_cons.mpr ⟨t_decr, List.forall_mem_cons.mpr ⟨t_decrby, List.forall_mem_cons.mpr ⟨t_incrbyfloat, List.forall_mem_cons.mpr ⟨t_append, List.forall_mem_cons.mpr ⟨t_ping, List.forall_mem_cons.mpr ⟨t_del, List.forall_mem_cons.mpr ⟨t_exists, List.forall_mem_cons.mpr ⟨t_keys, List.forall_mem_cons.mpr ⟨t_expire, List.forall_mem_cons.mpr ⟨t_persist, List.forall_mem_cons.mpr ⟨t_ttl, List.forall_mem_cons.mpr ⟨t_type, List.forall_mem_cons.mpr ⟨t_rename, List.forall_mem_cons.mpr ⟨t_publish, List.forall_mem_cons.mpr ⟨t_member, List.forall_mem_cons.mpr ⟨t_rconf, List.forall_mem_cons.mpr ⟨t_sadd, List.forall_mem_cons.mpr ⟨t_srem, List.forall_mem_cons.mpr ⟨t_sismember, List.forall_mem_cons.mpr ⟨t_scard, List.forall_mem_cons.mpr ⟨t_smembers, List.forall_mem_cons.mpr ⟨t_smove, List.forall_mem_cons.mpr ⟨t_spop, List.forall_mem_cons.mpr ⟨t_srandmember, List.forall_mem_cons.mpr ⟨t_sunion, List.forall_mem_cons.mpr ⟨t_sinter, List.forall_mem_cons.mpr ⟨t_sdiff, List.forall_mem_cons.mpr ⟨t_sunionstore, List.forall_mem_cons.mpr ⟨t_sinterstore, List.forall_mem_cons.mpr ⟨t_sdiffstore, List.forall_mem_cons.mpr ⟨t_hset, List.forall_mem_cons.mpr ⟨t_hsetnx, List.forall_mem_cons.mpr ⟨t_hget, List.forall_mem_cons.mpr ⟨t_hmget, List.forall_mem_cons.mpr ⟨t_hgetall, List.forall_mem_cons.mpr ⟨t_hkeys, List.forall_mem_cons.mpr ⟨t_hvals, List.forall_mem_cons.mpr ⟨t_hlen, List.forall_mem_cons.mpr ⟨t_hexists, List.forall_mem_cons.mpr ⟨t_hstrlen, List.forall_mem_cons.mpr ⟨t_hdel, List.forall_mem_cons.mpr ⟨t_hincrby, List.forall_mem_cons.mpr ⟨t_hincrbyfloat, List.forall_mem_cons.mpr ⟨t_hrandfield, List.forall_mem_cons.mpr ⟨t_llen, List.forall_mem_cons.mpr ⟨t_lindex, List.forall_mem_cons.mpr ⟨t_lpos, List.forall_mem_cons.mpr ⟨t_lpop, List.forall_mem_cons.mpr ⟨t_rpop, List.forall_mem_cons.mpr ⟨t_lpush, List.forall_mem_cons.mpr ⟨t_lpushx, List.forall_mem_cons.mpr ⟨t_rpush, List.forall_mem_cons.mpr ⟨t_rpushx, List.forall_mem_cons.mpr ⟨t_lset, List.forall_mem_cons.mpr ⟨t_lrem, List.forall_mem_cons.mpr ⟨t_ltrim, List.forall_mem_cons.mpr ⟨t_lrange, List.forall_mem_cons.mpr ⟨t_lmove, List.forall_mem_cons.mpr ⟨t_blpop, List.forall_mem_cons.mpr ⟨t_brpop, List.forall_mem_cons.mpr ⟨t_zadd, List.forall_mem_cons.mpr ⟨t_zrem, List.forall_mem_cons.mpr ⟨t_zrange, List.forall_mem_cons.mpr ⟨t_zrank, List.forall_mem_cons.mpr ⟨t_xadd, List.forall_mem_cons.mpr ⟨t_xrange, fun _ h => nomatch h⟩⟩⟩⟩⟩⟩⟩⟩⟩⟩⟩⟩⟩⟩⟩⟩⟩⟩⟩⟩⟩⟩⟩⟩⟩⟩⟩⟩⟩⟩⟩⟩⟩⟩⟩⟩⟩⟩⟩⟩⟩⟩⟩⟩⟩⟩⟩⟩⟩⟩⟩⟩⟩⟩⟩⟩⟩⟩⟩⟩⟩⟩⟩⟩⟩⟩⟩⟩⟩⟩⟩⟩⟩⟩⟩⟩⟩

/-- `exec`'s lookup and `footprint`'s lookup select the same row -/
theorem lookup_link (name : Bytes) : lookupCmd name = (lookupFoot name).map (·.1) := by
  unfold lookupCmd lookupFoot
  rw [← footTable_cmds, List.find?_map, Option.map_map, Option.map_map]
  rfl

theorem FootOk.congr {c c' : Cmd} {env : Env} {args : List Bytes} (h : ∀ a, c env a args = c' env a args) :
    ∀ {fp : Footprint}, FootOk c env args fp → FootOk c' env args fp
| .keys ks w, hk => by
  refine KeysOk.mk (fun a b hs => ?_) (fun a => ?_) (fun hw a => ?_)
  · rw [← h a, ← h b]; exact hk.loc a b hs
  · rw [← h a]; exact hk.frm a
  · rw [← h a]; exact hk.ro hw a
| .none, hn => by
  intro a
  refine ⟨?_, fun b => ?_⟩
  · rw [← h a]; exact (hn a).1
  · rw [← h a, ← h b]; exact (hn a).2 b
| .whole, hw => by
  refine ⟨fun a ha => ?_, fun a b ha hb hab => ?_⟩
  · rw [← h a]; exact hw.1 a ha
  · rw [← h a, ← h b]; exact hw.2 a b ha hb hab

/-- **the footprint theorem, packaged**: `exec` satisfies the statements of the footprint of its argument vector -/
theorem exec_footprint (env : Env) (args : List Bytes) : FootOk (fun env db args => exec env db args) env args (footprint args) := by
  unfold footprint
  cases args with
  | nil => intro a; exact ⟨rfl, fun _ => rfl⟩
  | cons name rest =>
    dsimp only
    cases hl : lookupFoot (lower name) with
    | none =>
      intro a
      have hc : lookupCmd (lower name) = none := by rw [lookup_link, hl]; rfl
      refine ⟨?_, fun b => ?_⟩ <;> simp only [exec, hc]
    | some p =>
      have hc : lookupCmd (lower name) = some p.1 := by rw [lookup_link, hl]; rfl
      have hmem : (p : Cmd × FP × Refusal) ∈ footTable.map (·.2) := by
        unfold lookupFoot at hl
        obtain ⟨q, hq, rfl⟩ := Option.map_eq_some_iff.mp hl
        exact List.mem_map.mpr ⟨q, List.mem_of_find?_eq_some hq, rfl⟩
      obtain ⟨q, hq, rfl⟩ := List.mem_map.mp hmem
      refine FootOk.congr (c := q.2.1) (fun a => ?_) (table_foot q hq env (name :: rest))
      simp only [exec, hc]

/-- **the same for what the driver compares the Go lock trace with**: `exec` satisfies the statements of `lockPlan env args` — the
    footprint, or `none` when the call is refused between the arity test and the first lock (then the keyspace is not consulted) -/
theorem exec_lockPlan (env : Env) (args : List Bytes) : FootOk (fun env db args => exec env db args) env args (lockPlan env args) := by
  unfold lockPlan
  split
  · rename_i hr
    unfold refused at hr
    cases args with
    | nil => cases hr
    | cons name rest =>
      dsimp only at hr
      cases hl : lookupFoot (lower name) with
      | none => rw [hl] at hr; cases hr
      | some p =>
        rw [hl] at hr
        have hc : lookupCmd (lower name) = some p.1 := by rw [lookup_link, hl]; rfl
        have hmem : (p : Cmd × FP × Refusal) ∈ footTable.map (·.2) := by
          unfold lookupFoot at hl
          obtain ⟨q, hq, rfl⟩ := Option.map_eq_some_iff.mp hl
          exact List.mem_map.mpr ⟨q, List.mem_of_find?_eq_some hq, rfl⟩
        obtain ⟨q, hq, rfl⟩ := List.mem_map.mp hmem
        refine FootOk.congr (c := q.2.1) (fp := .none) (fun a => ?_) (table_refuse q hq env (name :: rest) hr)
        simp only [exec, hc]
  · exact exec_footprint env args

/-! ### the statements in the words of the property -/

/-- **frame**: a key outside the footprint is untouched -/
theorem exec_frame (env : Env) (db : Db) (args : List Bytes) {ks : List Bytes} {w : Bool} (hf : footprint args = .keys ks w)
    {k : Bytes} (hk : k ∉ ks) : (exec env db args).2.get k = db.get k := by
  have h := exec_footprint env args
  rw [hf] at h
  exact h.frm db k hk

/-- footprint `none`: the keyspace is returned as it came -/
theorem exec_frame_none (env : Env) (db : Db) (args : List Bytes) (hf : footprint args = .none) : (exec env db args).2 = db := by
  have h := exec_footprint env args
  rw [hf] at h
  exact (h db).1

/-- **locality**: the reply and the new entries under the footprint keys depend only on the entries under the footprint keys -/
theorem exec_local (env : Env) (db₁ db₂ : Db) (args : List Bytes) {ks : List Bytes} {w : Bool} (hf : footprint args = .keys ks w)
    (hag : ∀ k ∈ ks, db₁.get k = db₂.get k) :
    (exec env db₁ args).1 = (exec env db₂ args).1 ∧ ∀ k ∈ ks, (exec env db₁ args).2.get k = (exec env db₂ args).2.get k := by
  have h := exec_footprint env args
  rw [hf] at h
  exact h.loc db₁ db₂ hag

/-- footprint `none`: the reply does not depend on the keyspace -/
theorem exec_local_none (env : Env) (db₁ db₂ : Db) (args : List Bytes) (hf : footprint args = .none) :
    (exec env db₁ args).1 = (exec env db₂ args).1 := by
  have h := exec_footprint env args
  rw [hf] at h
  exact (h db₁).2 db₂

/-- **read-only**: with a read footprint the result is the input, except for deletions of entries whose deadline had passed -/
theorem exec_readonly (env : Env) (db : Db) (args : List Bytes) {ks : List Bytes} (hf : footprint args = .keys ks false) :
    ∀ k, (exec env db args).2.get k = db.get k ∨ ((exec env db args).2.get k = none ∧ Expired env.now (db.get k)) := by
  have h := exec_footprint env args
  rw [hf] at h
  exact h.ro rfl db

/-- lazy deletion is invisible on the live view -/
theorem RO.live {now : Int} {a₀ a : Db} (h : RO now a₀ a) (h₀ : a₀.WF) (ha : a.WF) (k : Bytes) : (live a now).get k = (live a₀ now).get k := by
  rw [get_live a ha, get_live a₀ h₀]
  rcases h k with e | ⟨e, e0, d, he, hd, hle⟩
  · rw [e]
  · rw [e, he]
    have : e0.liveAt now = false := by unfold Entry.liveAt; rw [hd]; simp; omega
    simp [this]

/-- **read-only, on the live view**: a command with a read footprint changes nothing that any command can observe -/
theorem exec_readonly_live (env : Env) (db : Db) (args : List Bytes) {ks : List Bytes} (hf : footprint args = .keys ks false) (hw : db.WF)
    (k : Bytes) : (live (exec env db args).2 env.now).get k = (live db env.now).get k :=
  RO.live (exec_readonly env db args hf) hw (C06T.c06_congruence env db db args hw hw (C06T.LiveEq.refl _ _)).2.2 k

/-- **KEYS** (`whole`): nothing but lazy deletion happens (so nothing changes on the live view), and the reply and the resulting
    keyspace are functions of the keyspace as a lookup function -/
theorem exec_whole (env : Env) (args : List Bytes) (hf : footprint args = .whole) :
    (∀ db, db.WF → RO env.now db (exec env db args).2) ∧
    (∀ db k, db.WF → (live (exec env db args).2 env.now).get k = (live db env.now).get k) ∧
    ∀ db₁ db₂, db₁.WF → db₂.WF → (∀ k, db₁.get k = db₂.get k) →
      (exec env db₁ args).1 = (exec env db₂ args).1 ∧ ∀ k, (exec env db₁ args).2.get k = (exec env db₂ args).2.get k := by
  have h := exec_footprint env args
  rw [hf] at h
  refine ⟨h.1, fun db k hw => ?_, h.2⟩
  exact RO.live (h.1 db hw) hw (C06T.c06_congruence env db db args hw hw (C06T.LiveEq.refl _ _)).2.2 k

/-! ### the hypotheses are satisfiable, the footprints are what one expects -/

def exDb₁ : Db := [([107], { val := .str [118], exp := some 5 }), ([108], { val := .list [[1]], exp := none })]
def exDb₂ : Db := [([109], { val := .str [7], exp := none }), ([107], { val := .str [118], exp := some 5 })]

example : footprint [ofStr "GET", [107]] = .keys [[107]] false := by decide +kernel
example : footprint [ofStr "Rename", [107], [108]] = .keys [[107], [108]] true := by decide +kernel
example : footprint [ofStr "MSET", [1], [2], [3], [4]] = .keys [[1], [3]] true := by decide +kernel
example : footprint [ofStr "BLPOP", [1], [2], [48]] = .keys [[1], [2]] true := by decide +kernel
example : footprint [ofStr "GET", [107], [108]] = .none := by decide +kernel
example : footprint [ofStr "PING"] = .none := by decide +kernel
example : footprint [ofStr "KEYS", [42]] = .whole := by decide +kernel
/-- two keyspaces that agree on the footprint key of `GET k` and differ elsewhere -/
example : (∀ k ∈ [[107]], exDb₁.get k = exDb₂.get k) ∧ exDb₁.get [108] ≠ exDb₂.get [108] ∧ exDb₁.WF := by
  refine ⟨by decide, by decide, by unfold Db.WF; decide⟩
/-- `[108] ∉ [[107]]` -/
example : ([108] : Bytes) ∉ [([107] : Bytes)] := by decide
/-- an entry that a read command deletes: the deadline 5 has passed at 10 -/
example : Expired 10 (exDb₁.get [107]) := ⟨_, 5, rfl, rfl, by decide⟩

end Exec.Foot
