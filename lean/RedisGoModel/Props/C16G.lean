import RedisGoModel.Props.C16Chain
/-! C16: the record stream over a chain of segment files whose records may carry a nil `Data` (`GItem`): the metadata
    record of a WAL created with `wal.Create(dir, nil)` — what raftexample does — is such a record, and lies outside
    `WalCodec.Item`. Generalises `recLoop_items` / `recLoop_segment` / `readAll_roundtrip_chain`; `Item`s embed by
    `GItem.ofItem`. -/
namespace WalFile
open WalCodec

/-- what the caller hands to `encoder.encode`: a type and a payload, `none` = nil `Data` -/
structure GItem where
  type : Nat
  data : Option Bytes
deriving DecidableEq, Repr

def GItem.bytes (it : GItem) : Bytes := it.data.getD []

def GItem.ofItem (it : Item) : GItem := ⟨it.type, some it.data⟩

/-- the records `encoder.encode` writes for a list of items, from rolling CRC `c` -/
def gRecords : Nat → List GItem → List Record
| _, [] => []
| c, it :: rest => ⟨it.type, crcUpdate c it.bytes, it.data⟩ :: gRecords (crcUpdate c it.bytes) rest

def gCrcAfter : Nat → List GItem → Nat
| c, [] => c
| c, it :: rest => gCrcAfter (crcUpdate c it.bytes) rest

def gEncodeAll : Nat → List GItem → Bytes
| _, [] => []
| c, it :: rest => encodeFrame ⟨it.type, crcUpdate c it.bytes, it.data⟩ ++ gEncodeAll (crcUpdate c it.bytes) rest

def GItemOk (it : GItem) : Prop := it.type < 2 ^ 64 ∧ it.bytes.length < 2 ^ 55 ∧ it.type ≠ crcType

theorem gRecords_ofItem (c : Nat) (items : List Item) : gRecords c (items.map GItem.ofItem) = records crcUpdate c items := by
  induction items generalizing c with
  | nil => rfl
  | cons it rest ih => simp only [List.map_cons, gRecords, records, GItem.ofItem, GItem.bytes, Option.getD_some, ih]

theorem gCrcAfter_ofItem (c : Nat) (items : List Item) : gCrcAfter c (items.map GItem.ofItem) = crcAfter crcUpdate c items := by
  induction items generalizing c with
  | nil => rfl
  | cons it rest ih => simp only [List.map_cons, gCrcAfter, crcAfter, GItem.ofItem, GItem.bytes, Option.getD_some, ih]

theorem gEncodeAll_ofItem (c : Nat) (items : List Item) : gEncodeAll c (items.map GItem.ofItem) = encodeAll crcUpdate c items := by
  induction items generalizing c with
  | nil => rfl
  | cons it rest ih => simp only [List.map_cons, gEncodeAll, encodeAll, GItem.ofItem, GItem.bytes, Option.getD_some, ih]

theorem gItemOk_ofItem (it : Item) (h : ItemOk it ∧ it.type ≠ crcType) : GItemOk (GItem.ofItem it) :=
  ⟨h.1.1, h.1.2, h.2⟩

theorem gCrcAfter_append (a b : List GItem) (c : Nat) : gCrcAfter c (a ++ b) = gCrcAfter (gCrcAfter c a) b := by
  induction a generalizing c with
  | nil => rfl
  | cons it rest ih => simp only [List.cons_append, gCrcAfter, ih]

theorem gEncodeAll_append (a b : List GItem) (c : Nat) :
    gEncodeAll c (a ++ b) = gEncodeAll c a ++ gEncodeAll (gCrcAfter c a) b := by
  induction a generalizing c with
  | nil => rfl
  | cons it rest ih => simp only [List.cons_append, gEncodeAll, gCrcAfter, ih, List.append_assoc]

theorem gRecords_append (a b : List GItem) (c : Nat) :
    gRecords c (a ++ b) = gRecords c a ++ gRecords (gCrcAfter c a) b := by
  induction a generalizing c with
  | nil => rfl
  | cons it rest ih => simp only [List.cons_append, gRecords, gCrcAfter, ih]

theorem gCrcAfter_lt (items : List GItem) {c : Nat} (hc : c < 2 ^ 32) : gCrcAfter c items < 2 ^ 32 := by
  induction items generalizing c with
  | nil => exact hc
  | cons it rest ih => exact ih (crcUpdate_lt hc _)

theorem gEncodeAll_len_mod (c : Nat) (items : List GItem) : (gEncodeAll c items).length % 8 = 0 := by
  induction items generalizing c with
  | nil => rfl
  | cons it rest ih =>
    simp only [gEncodeAll, List.length_append]
    have h1 : (encodeFrame ⟨it.type, crcUpdate c it.bytes, it.data⟩).length % 8 = 0 := by
      rw [encodeFrame_length]
      have : (encodeFrameSize (marshal ⟨it.type, crcUpdate c it.bytes, it.data⟩).length).2 =
        (8 - (marshal ⟨it.type, crcUpdate c it.bytes, it.data⟩).length % 8) % 8 := rfl
      omega
    have := ih (crcUpdate c it.bytes)
    omega

/-- the data records of one segment -/
theorem recLoop_gitems (items : List GItem) (d : Dec) (hdone : d.done = false) (rest : Bytes)
    (hcur : d.cur = gEncodeAll d.crc items ++ rest) (hc : d.crc < 2 ^ 32)
    (hok : ∀ it ∈ items, GItemOk it) (hfit : d.off + d.cur.length ≤ d.size) (fuel : Nat) :
    recLoop (items.length + fuel) d =
      (gRecords d.crc items ++
          (recLoop fuel { d with cur := rest, off := d.off + (gEncodeAll d.crc items).length,
                                 crc := gCrcAfter d.crc items }).1,
        (recLoop fuel { d with cur := rest, off := d.off + (gEncodeAll d.crc items).length,
                               crc := gCrcAfter d.crc items }).2) := by
  induction items generalizing d with
  | nil =>
    simp only [gEncodeAll, List.nil_append] at hcur
    simp only [List.length_nil, Nat.zero_add, gRecords, List.nil_append, gEncodeAll, Nat.add_zero, gCrcAfter]
    have : ({ d with cur := rest, off := d.off, crc := d.crc } : Dec) = d := by rw [← hcur]
    rw [this]
  | cons it r ih =>
    obtain ⟨h1, h2, h3⟩ := hok it (by simp)
    simp only [gEncodeAll, List.append_assoc] at hcur
    have hcl := crcUpdate_lt hc it.bytes
    have hdl : ∀ x, it.data = some x → x.length < 2 ^ 55 := by
      intro x hx
      have : it.bytes = x := by simp [GItem.bytes, hx]
      rw [← this]; exact h2
    rw [show (it :: r).length + fuel = (r.length + fuel) + 1 by simp; omega, recLoop,
      decodeRecord_frame _ d hdone ⟨it.type, crcUpdate d.crc it.bytes, it.data⟩ _ hcur h1 hcl
        (fun x hx => Nat.lt_trans (hdl x hx) (by decide))
        (marshal_length_lt _ _ _ h1 hcl hdl) hfit (Or.inr rfl)]
    simp only [h3, if_false]
    have hfit' : d.off + (encodeFrame ⟨it.type, crcUpdate d.crc it.bytes, it.data⟩).length +
        (gEncodeAll (crcUpdate d.crc it.bytes) r ++ rest).length ≤ d.size := by
      rw [hcur] at hfit; simp only [List.length_append] at hfit ⊢; omega
    have hb : (Option.getD it.data []) = it.bytes := rfl
    rw [hb]
    rw [ih { d with cur := gEncodeAll (crcUpdate d.crc it.bytes) r ++ rest,
                    off := d.off + (encodeFrame ⟨it.type, crcUpdate d.crc it.bytes, it.data⟩).length,
                    crc := crcUpdate d.crc it.bytes } hdone rfl hcl (fun x hx => hok x (by simp [hx])) hfit']
    simp only [gRecords, gEncodeAll, gCrcAfter, List.cons_append, List.length_append, Nat.add_assoc]

/-- one segment file: CRC record, the frames chained onto it, then `tail` (nothing, or preallocated zeros) -/
def gfileOf (c : Nat) (items : List GItem) (tail : Bytes) : Bytes :=
  encodeFrame (crcRec c) ++ (gEncodeAll c items ++ tail)

theorem recLoop_gsegment (c : Nat) (items : List GItem) (d : Dec) (hdone : d.done = false) (rest : Bytes)
    (hcur : d.cur = encodeFrame (crcRec c) ++ (gEncodeAll c items ++ rest)) (hc : c < 2 ^ 32)
    (hdc : d.crc = 0 ∨ d.crc = c)
    (hok : ∀ it ∈ items, GItemOk it) (hfit : d.off + d.cur.length ≤ d.size) (fuel : Nat) :
    recLoop (items.length + fuel + 1) d =
      (crcRec c :: gRecords c items ++
          (recLoop fuel { d with cur := rest,
                                 off := d.off + (encodeFrame (crcRec c) ++ gEncodeAll c items).length,
                                 crc := gCrcAfter c items }).1,
        (recLoop fuel { d with cur := rest,
                               off := d.off + (encodeFrame (crcRec c) ++ gEncodeAll c items).length,
                               crc := gCrcAfter c items }).2) := by
  rw [recLoop_crcRec c d hdone _ hcur hc hdc hfit]
  have hfit' : d.off + (encodeFrame (crcRec c)).length + (gEncodeAll c items ++ rest).length ≤ d.size := by
    rw [hcur] at hfit; simp only [List.length_append] at hfit ⊢; omega
  rw [recLoop_gitems items
    { d with cur := gEncodeAll c items ++ rest, off := d.off + (encodeFrame (crcRec c)).length, crc := c }
    hdone rest rfl hc hok hfit' fuel]
  simp only [List.cons_append, List.length_append, Nat.add_assoc]

def gchainFiles : Nat → List (List GItem × Bytes) → List Bytes
| _, [] => []
| c, (items, tail) :: rest => gfileOf c items tail :: gchainFiles (gCrcAfter c items) rest

def gchainRecords : Nat → List (List GItem × Bytes) → List Record
| _, [] => []
| c, (items, _) :: rest => crcRec c :: gRecords c items ++ gchainRecords (gCrcAfter c items) rest

def gchainFuel : List (List GItem × Bytes) → Nat
| [] => 1
| (items, _) :: rest => items.length + gchainFuel rest + 1

def gchainCrc : Nat → List (List GItem × Bytes) → Nat
| c, [] => c
| c, (items, _) :: rest => gchainCrc (gCrcAfter c items) rest

theorem gchainFuel_pos (segs : List (List GItem × Bytes)) : ∃ n, gchainFuel segs = n + 1 := by
  cases segs with
  | nil => exact ⟨0, rfl⟩
  | cons s rest => exact ⟨s.1.length + gchainFuel rest, rfl⟩

theorem gchainFiles_append (c : Nat) (a : List (List GItem × Bytes)) (s : List GItem × Bytes) :
    gchainFiles c (a ++ [s]) = gchainFiles c a ++ [gfileOf (gchainCrc c a) s.1 s.2] := by
  induction a generalizing c with
  | nil => obtain ⟨i, t⟩ := s; rfl
  | cons x rest ih => obtain ⟨i, t⟩ := x; simp only [List.cons_append, gchainFiles, gchainCrc, ih]

theorem gchainCrc_append (c : Nat) (a : List (List GItem × Bytes)) (s : List GItem × Bytes) :
    gchainCrc c (a ++ [s]) = gCrcAfter (gchainCrc c a) s.1 := by
  induction a generalizing c with
  | nil => obtain ⟨i, t⟩ := s; rfl
  | cons x rest ih => obtain ⟨i, t⟩ := x; simp only [List.cons_append, gchainCrc, ih]

/-- the offset at which the decoder stands after the last segment's frames -/
def gchainOff : Nat → List (List GItem × Bytes) → Nat
| _, [] => 0
| c, [(items, _)] => (encodeFrame (crcRec c) ++ gEncodeAll c items).length
| c, (items, _) :: rest => gchainOff (gCrcAfter c items) rest

theorem recLoop_gchain (segs : List (List GItem × Bytes)) : ∀ (c : Nat) (d : Dec), c < 2 ^ 32 → d.done = false →
    EndOfWritten d.cur → d.rest = gchainFiles c segs → (d.crc = 0 ∨ d.crc = c) →
    (∀ s ∈ segs, (∀ it ∈ s.1, GItemOk it) ∧ EndOfWritten s.2) → ∀ extra : Nat,
    ∃ d', recLoop (gchainFuel segs + extra) d = (gchainRecords c segs, .decEof, d') ∧ d'.done = true ∧
      (segs ≠ [] → d'.crc = gchainCrc c segs ∧ d'.off = gchainOff c segs) := by
  induction segs with
  | nil =>
    intro c d _ hdone hend hrest _ _ extra
    rw [show gchainFuel [] + extra = extra + 1 by simp [gchainFuel]; omega, recLoop_end _ d hdone hend hrest]
    exact ⟨_, rfl, rfl, fun h => absurd rfl h⟩
  | cons s rest ih =>
    intro c d hc hdone hend hrest hdc hok extra
    obtain ⟨items, tail⟩ := s
    obtain ⟨hitems, htail⟩ := hok (items, tail) (by simp)
    simp only [gchainFiles] at hrest
    have hc' := gCrcAfter_lt items hc
    rw [show gchainFuel ((items, tail) :: rest) + extra = (items.length + (gchainFuel rest + extra)) + 1 by
      simp [gchainFuel]; omega]
    rw [recLoop_switch _ d hdone hend _ _ hrest]
    have hd1 : ({ d with cur := gfileOf c items tail, size := (gfileOf c items tail).length, off := 0,
                         rest := gchainFiles (gCrcAfter c items) rest } : Dec).done = false := hdone
    rw [recLoop_gsegment c items _ hd1 tail rfl hc hdc hitems (by simp [gfileOf]) _]
    obtain ⟨D2, hD2⟩ : ∃ D2 : Dec, D2 =
        { d with cur := tail, size := (gfileOf c items tail).length,
                 off := 0 + (encodeFrame (crcRec c) ++ gEncodeAll c items).length,
                 rest := gchainFiles (gCrcAfter c items) rest, crc := gCrcAfter c items } := ⟨_, rfl⟩
    have e1 : D2.done = false := by rw [hD2]; exact hdone
    have e2 : D2.cur = tail := by rw [hD2]
    have e3 : D2.rest = gchainFiles (gCrcAfter c items) rest := by rw [hD2]
    have e4 : D2.crc = gCrcAfter c items := by rw [hD2]
    have e5 : D2.off = (encodeFrame (crcRec c) ++ gEncodeAll c items).length := by rw [hD2]; simp
    obtain ⟨d', h1, h2, h3⟩ := ih (gCrcAfter c items) D2 hc' e1 (by rw [e2]; exact htail) e3 (Or.inr e4)
      (fun x hx => hok x (by simp [hx])) extra
    rw [← hD2, h1]
    refine ⟨d', by simp [gchainRecords], h2, fun _ => ?_⟩
    cases rest with
    | nil =>
      obtain ⟨n, hn⟩ : ∃ n, gchainFuel [] + extra = n + 1 := ⟨extra, by simp [gchainFuel]; omega⟩
      rw [hn, recLoop_end n D2 e1 (by rw [e2]; exact htail) e3] at h1
      have hcrc := congrArg (fun x => x.2.2.crc) h1
      have hoff := congrArg (fun x => x.2.2.off) h1
      simp only at hcrc hoff
      exact ⟨by rw [← hcrc]; exact e4, by rw [← hoff]; exact e5⟩
    | cons s2 rest2 =>
      obtain ⟨a, b⟩ := h3 (by simp)
      obtain ⟨i2, t2⟩ := s2
      exact ⟨a, b⟩

/-- **the record stream over any chain of segment files, nil-`Data` records included**: the files read back, through
    the file-level decoder, as exactly the records written, ending in a clean EOF, with the decoder's CRC at the final
    rolling CRC and its offset at the end of the last frame. -/
theorem readAll_roundtrip_gchain (c0 : Nat) (hc0 : c0 < 2 ^ 32) (s : List GItem × Bytes) (rest : List (List GItem × Bytes))
    (hok : ∀ x ∈ s :: rest, (∀ it ∈ x.1, GItemOk it) ∧ EndOfWritten x.2) (extra : Nat) :
    ∃ d', recLoop (gchainFuel (s :: rest) + extra) (Dec.open (gchainFiles c0 (s :: rest))) =
        (gchainRecords c0 (s :: rest), .decEof, d') ∧
      d'.done = true ∧ d'.crc = gchainCrc c0 (s :: rest) ∧ d'.off = gchainOff c0 (s :: rest) := by
  let d0 : Dec := { cur := [], size := 0, off := 0, rest := gchainFiles c0 (s :: rest), crc := 0 }
  obtain ⟨d', h1, h2, h3⟩ := recLoop_gchain (s :: rest) c0 d0 hc0 rfl (Or.inl rfl) rfl (Or.inl rfl) hok extra
  obtain ⟨h3a, h3b⟩ := h3 (by simp)
  refine ⟨d', ?_, h2, h3a, h3b⟩
  rw [← h1]
  obtain ⟨n, hn⟩ := gchainFuel_pos (s :: rest)
  rw [hn, show n + 1 + extra = (n + extra) + 1 by omega]
  obtain ⟨items, tail⟩ := s
  rw [recLoop_switch _ d0 rfl (Or.inl rfl) _ _ rfl]
  rfl

#print axioms readAll_roundtrip_gchain
end WalFile
