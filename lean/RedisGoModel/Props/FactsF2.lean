import RedisGoModel.Generated.Skeletons
/-!
# Fact F2 closed in Lean: the CheckTTL / lock-call skeleton of every registered executor (C05, C06, C13)

`Generated/Skeletons.lean` is rewritten by every `./check` run from the Go source (harness `facts` engine: for every
`RegisterCommand("name", fn)` the syntactic order of the `CheckTTL` and `locks.*` calls in `fn`'s body).  Until now the list was compared
with `expectations/facts.json` in Python only; here the recorded expectation is a Lean definition and the comparison a theorem, re-proved
on every run, together with two facts about the regenerated list that the concurrency properties lean on:

* `skeletons_match` — the source's skeletons are exactly the recorded ones (an executor that gains, loses or reorders a CheckTTL / lock
  call breaks the build: the per-command trace discipline of C05/C13 and the CheckTTL placement of C06 were reviewed against this list);
* `every_acquire_released` — in every executor each kind of acquire (`L`, `RL`, `LM`, `RLM`) occurs as often as its release (plain or
  deferred), and no release precedes its acquire;
* `ttl_never_under_lock` — no `CheckTTL` call sits between an acquire and its release (a deferred release holds to the end of the
  function): `CheckTTL` takes the key's stripe itself and `sync.RWMutex` is not re-entrant, so such a call could self-deadlock (C13).

Partial: these are facts about the SYNTACTIC order of calls in the executor's own body (helpers called from it are not expanded, branches
are flattened in source order); the behavioural counterpart is the trace check of hook H2 (`TraceCheck.ok`) on every executed command.
The Python comparison with `expectations/facts.json` is kept as well.
-/
namespace Expect

/-- (command, executor function, tokens) as recorded at review time -/
def skeletons : List (String × String × List String) := [
  ("append", "appendString", ["TTL", "L", "defer:U"]),
  ("blpop", "blPopList", []),
  ("brpop", "brPopList", []),
  ("decr", "decrString", ["TTL", "L", "defer:U"]),
  ("decrby", "decrByString", ["TTL", "L", "defer:U"]),
  ("del", "delKey", ["loop{", "L", "U"]),
  ("exists", "existsKey", ["loop{", "TTL", "RL", "RU"]),
  ("expire", "expireKey", ["TTL", "L", "defer:U"]),
  ("get", "getString", ["TTL", "RL", "defer:RU"]),
  ("getrange", "getRangeString", ["TTL", "RL", "defer:RU"]),
  ("hdel", "hDelHash", ["TTL", "L", "defer:U", "loop{"]),
  ("hexists", "hExistsHash", ["TTL", "RL", "defer:RU"]),
  ("hget", "hGetHash", ["TTL", "RL", "defer:RU"]),
  ("hgetall", "hGetAllHash", ["TTL", "RL", "defer:RU", "loop{"]),
  ("hincrby", "hIncrByHash", ["TTL", "L", "defer:U"]),
  ("hincrbyfloat", "hIncrByFloatHash", ["TTL", "L", "defer:U"]),
  ("hkeys", "hKeysHash", ["TTL", "RL", "defer:RU", "loop{"]),
  ("hlen", "hLenHash", ["TTL", "RL", "defer:RU"]),
  ("hmget", "hMGetHash", ["loop{", "TTL", "RL", "defer:RU", "loop{"]),
  ("hrandfield", "hRandFieldHash", ["TTL", "RL", "defer:RU", "loop{", "loop{"]),
  ("hset", "hSetHash", ["TTL", "L", "defer:U", "loop{"]),
  ("hsetnx", "hSetNxHash", ["TTL", "L", "defer:U"]),
  ("hstrlen", "hStrLenHash", ["TTL", "RL", "defer:RU"]),
  ("hvals", "hValsHash", ["TTL", "RL", "defer:RU", "loop{"]),
  ("incr", "incrString", ["TTL", "L", "defer:U"]),
  ("incrby", "incrByString", ["TTL", "L", "defer:U"]),
  ("incrbyfloat", "incrByFloatString", ["TTL", "L", "defer:U"]),
  ("keys", "keysKey", ["loop{", "TTL", "RL", "RU"]),
  ("lindex", "lIndexList", ["TTL", "RL", "defer:RU"]),
  ("llen", "lLenList", ["TTL", "RL", "defer:RU"]),
  ("lmove", "lMoveList", ["TTL", "TTL", "LM", "defer:UM"]),
  ("lpop", "lPopList", ["TTL", "L", "defer:U", "loop{"]),
  ("lpos", "lPosList", ["loop{", "TTL", "RL", "defer:RU", "loop{", "loop{", "loop{", "loop{", "loop{"]),
  ("lpush", "lPushList", ["TTL", "L", "defer:U", "loop{"]),
  ("lpushx", "lPushXList", ["TTL", "L", "defer:U", "loop{"]),
  ("lrange", "lRangeList", ["TTL", "RL", "defer:RU", "loop{"]),
  ("lrem", "lRemList", ["TTL", "L", "defer:U"]),
  ("lset", "lSetList", ["TTL", "L", "defer:U"]),
  ("ltrim", "lTrimList", ["TTL", "L", "defer:U"]),
  ("member", "Member", []),
  ("mget", "mGetString", ["loop{", "TTL", "RL", "RU"]),
  ("mset", "mSetString", ["loop{", "LM", "defer:UM", "loop{"]),
  ("persist", "persistKey", ["TTL", "L", "defer:U"]),
  ("ping", "pingKeys", []),
  ("publish", "publish", []),
  ("rconf", "rconf", []),
  ("rename", "renameKey", ["TTL", "LM", "defer:UM"]),
  ("rpop", "rPopList", ["TTL", "L", "defer:U", "loop{"]),
  ("rpush", "rPushList", ["TTL", "L", "defer:U", "loop{"]),
  ("rpushx", "rPushXList", ["TTL", "L", "defer:U", "loop{"]),
  ("sadd", "sAddSet", ["TTL", "L", "defer:U", "loop{"]),
  ("scard", "sCardSet", ["TTL", "RL", "defer:RU"]),
  ("sdiff", "sDiffSet", ["loop{", "loop{", "TTL", "RLM", "defer:RUM", "loop{", "loop{"]),
  ("sdiffstore", "sDiffStoreSet", ["TTL", "loop{", "TTL", "LM", "defer:UM", "loop{"]),
  ("set", "setString", ["loop{", "TTL", "L", "defer:U"]),
  ("setex", "setExString", ["L", "defer:U"]),
  ("setnx", "setNxString", ["TTL", "L", "defer:U"]),
  ("setrange", "setRangeString", ["TTL", "L", "defer:U"]),
  ("sinter", "sInterSet", ["loop{", "loop{", "TTL", "RLM", "defer:RUM", "loop{", "loop{"]),
  ("sinterstore", "sInterStoreSet", ["TTL", "loop{", "TTL", "LM", "defer:UM", "loop{"]),
  ("sismember", "sIsMemberSet", ["TTL", "RL", "defer:RU"]),
  ("smembers", "sMembersSet", ["TTL", "RL", "defer:RU", "loop{"]),
  ("smove", "sMoveSet", ["TTL", "TTL", "LM", "defer:UM"]),
  ("spop", "sPopSet", ["TTL", "L", "defer:U", "loop{"]),
  ("srandmember", "sRandMemberSet", ["TTL", "RL", "defer:RU", "loop{"]),
  ("srem", "sRemSet", ["TTL", "L", "defer:U", "loop{"]),
  ("strlen", "strLenString", ["TTL", "RL", "defer:RU"]),
  ("subscribe", "subscribe", ["loop{", "loop{", "loop{", "loop{"]),
  ("sunion", "sUnionSet", ["loop{", "TTL", "RLM", "defer:RUM", "loop{", "loop{"]),
  ("sunionstore", "sUnionStoreSet", ["TTL", "loop{", "TTL", "LM", "defer:UM", "loop{"]),
  ("ttl", "ttlKey", ["TTL", "RL", "defer:RU"]),
  ("type", "typeKey", ["TTL", "RL", "defer:RU"]),
  ("xadd", "xadd", ["loop{", "loop{", "TTL", "L", "defer:U", "loop{"]),
  ("xrange", "xrange", ["loop{", "TTL", "L", "defer:U", "loop{", "loop{"]),
  ("zadd", "zadd", ["loop{", "loop{", "loop{", "TTL", "L", "defer:U", "loop{"]),
  ("zrange", "zrange", ["loop{", "TTL", "L", "defer:U", "loop{", "loop{", "loop{", "loop{", "loop{", "loop{"]),
  ("zrank", "zrank", ["TTL", "L", "defer:U", "loop{"]),
  ("zrem", "zrem", ["TTL", "L", "defer:U", "loop{", "loop{"])]

/-- F2: the regenerated skeletons equal the recorded ones -/
theorem skeletons_match : Generated.skeletons = Expect.skeletons := by decide +kernel

def isAcquire (t : String) : Bool := t == "L" || t == "RL" || t == "LM" || t == "RLM"

/-- the acquire a release token answers (plain or deferred) -/
def releaseOf (t : String) : Option String :=
  if t == "U" || t == "defer:U" then some "L"
  else if t == "RU" || t == "defer:RU" then some "RL"
  else if t == "UM" || t == "defer:UM" then some "LM"
  else if t == "RUM" || t == "defer:RUM" then some "RLM"
  else none

/-- scan: `open_` = acquires not yet answered by a release token (plain or deferred); a release without an open acquire of its kind fails -/
def balancedFrom : List String → List String → Bool
  | open_, [] => open_.isEmpty
  | open_, t :: ts =>
    if isAcquire t then balancedFrom (t :: open_) ts
    else match releaseOf t with
      | some a => if open_.contains a then balancedFrom (open_.erase a) ts else false
      | none => balancedFrom open_ ts

def balanced (toks : List String) : Bool := balancedFrom [] toks

/-- scan: `held` = stripes held at this point of the source order (a deferred release keeps its stripe to the end) -/
def ttlOutsideFrom : Nat → List String → Bool
  | _, [] => true
  | held, t :: ts =>
    if t == "TTL" then held == 0 && ttlOutsideFrom held ts
    else if isAcquire t then ttlOutsideFrom (held + 1) ts
    else if t == "U" || t == "RU" || t == "UM" || t == "RUM" then ttlOutsideFrom (held - 1) ts
    else ttlOutsideFrom held ts

def ttlOutside (toks : List String) : Bool := ttlOutsideFrom 0 toks

/-- every acquire in an executor's body has its release (plain or deferred), none is released before it is taken -/
theorem every_acquire_released : ∀ s ∈ Generated.skeletons, balanced s.2.2 = true := by decide +kernel

/-- no executor calls CheckTTL while it holds a stripe -/
theorem ttl_never_under_lock : ∀ s ∈ Generated.skeletons, ttlOutside s.2.2 = true := by decide +kernel

/-- the checks are not vacuous: they refuse a missing release, a release before its acquire, and a CheckTTL under a deferred lock -/
example : balanced ["TTL", "L"] = false ∧ balanced ["U", "L"] = false ∧ balanced ["TTL", "L", "defer:U"] = true ∧
    ttlOutside ["L", "defer:U", "TTL"] = false ∧ ttlOutside ["loop{", "TTL", "RL", "RU"] = true ∧ ttlOutside ["L", "TTL", "U"] = false := by
  decide

theorem skeletons_nonempty : 70 ≤ Generated.skeletons.length := by decide +kernel

end Expect
