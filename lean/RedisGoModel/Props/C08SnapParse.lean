import RedisGoModel.Cluster.Snapshot
import RedisGoModel.Props.C14
/-! # C08 — the snapshot decoder reads back what the snapshot encoder writes, member by member

`parseX (encX x ++ rest) = some (x, rest)` for every syntactic class of memdb/snapshot.go's format (`Cluster/Snapshot.lean`):
byte strings (base64: `Codec.base64_roundtrip`), canonical decimals, arrays, hash fields, sorted-set members, stream entries. -/
namespace Snap
open Exec (Db Entry Value StreamId StreamEntry)

/-- padded standard base64 as `encoding/json` writes a `[]byte` (re-exported from the C14 codec: the same functions) -/
theorem base64_roundtrip (b : Bytes) : Codec.b64decode (Codec.b64encode b) = some b := Codec.base64_roundtrip b

/-! ### literals and byte strings -/

theorem lit_append (p r : Bytes) : lit p (p ++ r) = some r := Codec.stripPrefix_append p r

theorem lit_cons_ne {c d : UInt8} (ps r : Bytes) (h : c ≠ d) : lit (c :: ps) (d :: r) = none := by
  simp [lit, Codec.stripPrefix, h]

theorem lit_nil_input (c : UInt8) (ps : Bytes) : lit (c :: ps) [] = none := rfl

theorem pB_enc (b t : Bytes) : pB (encB b ++ t) = some (b, t) := by
  have := Codec.parseElem_enc (some b) t
  simpa [pB, encB] using this

theorem encB_head (b t : Bytes) : ∃ r, encB b ++ t = quote :: r := ⟨_, rfl⟩

/-! ### decimals -/

theorem spanDigits_append (ds rest : Bytes) (hd : ∀ c ∈ ds, isDigit c = true) (hr : ∀ c r, rest = c :: r → isDigit c = false) :
    spanDigits (ds ++ rest) = (ds, rest) := by
  induction ds with
  | nil =>
    cases rest with
    | nil => rfl
    | cons c r => simp [spanDigits, hr c r rfl]
  | cons d ds ih =>
    have h1 := hd d (by simp)
    have ih' := ih (fun c hc => hd c (by simp [hc]))
    simp [spanDigits, h1, ih']

theorem dec_isDigit (n : Nat) : ∀ c ∈ Resp.dec n, isDigit c = true := by
  intro c hc
  have := Resp.dec_digits n c hc
  simp [isDigit, this.1, this.2]

theorem pNat_enc (n : Nat) (rest : Bytes) (hr : ∀ c r, rest = c :: r → isDigit c = false) :
    pNat (encN n ++ rest) = some (n, rest) := by
  unfold pNat encN
  rw [spanDigits_append _ _ (dec_isDigit n) hr]
  simp [Resp.parseNat_dec]

theorem pU64_enc (n : Nat) (hn : n < 2 ^ 64) (rest : Bytes) (hr : ∀ c r, rest = c :: r → isDigit c = false) :
    pU64 (encN n ++ rest) = some (n, rest) := by
  unfold pU64
  rw [pNat_enc n rest hr]
  simp [hn]

theorem dec_cons (n : Nat) : ∃ c r, Resp.dec n = c :: r ∧ isDigit c = true := by
  cases h : Resp.dec n with
  | nil => exact absurd h (Resp.dec_ne_nil n)
  | cons c r => exact ⟨c, r, rfl, dec_isDigit n c (by rw [h]; simp)⟩

theorem isDigit_ne_minus {c : UInt8} (h : isDigit c = true) : c ≠ minus := by
  intro e; subst e; simp [isDigit, minus] at h

theorem pI64_enc (d : Int) (h1 : Exec.minI64 ≤ d) (h2 : d ≤ Exec.maxI64) (rest : Bytes)
    (hr : ∀ c r, rest = c :: r → isDigit c = false) : pI64 (encI d ++ rest) = some (d, rest) := by
  unfold encI Resp.encInt
  cases d with
  | ofNat k =>
    obtain ⟨c, r, e, hc⟩ := dec_cons k
    have hp := pNat_enc k rest hr
    unfold encN at hp
    have hk : k < 2 ^ 63 := by simp [Exec.maxI64] at h2; omega
    simp only
    rw [e] at hp ⊢
    simp only [pI64, List.cons_append, isDigit_ne_minus hc, if_false]
    rw [show c :: (r ++ rest) = (c :: r) ++ rest from rfl, hp]
    simp [hk]
  | negSucc k =>
    have hp := pNat_enc (k + 1) rest hr
    unfold encN at hp
    have hk : k + 1 ≤ 2 ^ 63 := by simp [Exec.minI64] at h1; omega
    simp only [pI64, List.cons_append, Resp.MINUS, minus, if_true, hp]
    simp [hk, Int.negSucc_eq]

/-! ### arrays -/

theorem encArr_length {α : Type} (enc : α → Bytes) : ∀ (xs : List α), xs.length ≤ (encArr enc xs).length
| [] => by simp
| [a] => by simp [encArr]
| a :: b :: as => by
  have := encArr_length enc (b :: as)
  simp [encArr] at *; omega

theorem parseElems_enc_map {α β : Type} (p : P β) (enc : α → Bytes) (f : α → β) : ∀ (xs : List α) (fuel : Nat) (rest : Bytes), xs ≠ [] →
    xs.length ≤ fuel → (∀ x ∈ xs, ∀ t, p (enc x ++ t) = some (f x, t)) → parseElems p fuel (encArr enc xs ++ rest) = some (xs.map f, rest)
| [], _, _, h, _, _ => absurd rfl h
| [a], fuel, rest, _, hf, hp => by
  obtain ⟨f', rfl⟩ : ∃ f', fuel = f' + 1 := ⟨fuel - 1, by simp at hf; omega⟩
  simp [encArr, parseElems, List.append_assoc, hp a (by simp)]
| a :: b :: as, fuel, rest, _, hf, hp => by
  obtain ⟨f', rfl⟩ : ∃ f', fuel = f' + 1 := ⟨fuel - 1, by simp at hf; omega⟩
  have ih := parseElems_enc_map p enc f (b :: as) f' rest (by simp) (by simp at hf ⊢; omega) (fun x hx t => hp x (by simp [hx]) t)
  have hc : comma ≠ rbrack := by decide
  simp only [encArr, parseElems, List.append_assoc, hp a (by simp), List.cons_append, hc, if_false, if_true, ih, List.map_cons]

/-- an array is read back when every element is (possibly as its image under `f`), and no element starts with `]` -/
theorem parseArr_enc_map {α β : Type} (p : P β) (enc : α → Bytes) (f : α → β) (xs : List α) (rest : Bytes)
    (hp : ∀ x ∈ xs, ∀ t, p (enc x ++ t) = some (f x, t))
    (hh : ∀ x ∈ xs, ∀ t, ∃ c r, enc x ++ t = c :: r ∧ c ≠ rbrack) :
    parseArr p (encArr enc xs ++ rest) = some (xs.map f, rest) := by
  cases xs with
  | nil => simp [encArr, parseArr]
  | cons a as =>
    have hlen : (a :: as).length ≤ (encArr enc (a :: as) ++ rest).length := by
      have := encArr_length enc (a :: as); simp at this ⊢; omega
    have hd := parseElems_enc_map p enc f (a :: as) _ rest (by simp) hlen hp
    have : ∃ c r, encArr enc (a :: as) ++ rest = c :: r ∧ c ≠ rbrack := by
      cases as with
      | nil => simpa [encArr, List.append_assoc] using hh a (by simp) _
      | cons b as => simpa [encArr, List.append_assoc] using hh a (by simp) _
    obtain ⟨c, r, e, hc⟩ := this
    unfold parseArr
    rw [e] at hd ⊢
    simp only [List.length_cons] at hd
    simp [hc, hd]

theorem parseArr_enc {α : Type} (p : P α) (enc : α → Bytes) (xs : List α) (rest : Bytes)
    (hp : ∀ x ∈ xs, ∀ t, p (enc x ++ t) = some (x, t))
    (hh : ∀ x ∈ xs, ∀ t, ∃ c r, enc x ++ t = c :: r ∧ c ≠ rbrack) :
    parseArr p (encArr enc xs ++ rest) = some (xs, rest) := by
  have := parseArr_enc_map p enc id xs rest hp hh
  simpa using this

theorem quote_ne_rbrack : quote ≠ rbrack := by decide

theorem parseArr_bytes (l : List Bytes) (rest : Bytes) : parseArr pB (encArr encB l ++ rest) = some (l, rest) :=
  parseArr_enc pB encB l rest (fun x _ t => pB_enc x t) (fun x _ t => ⟨quote, _, rfl, quote_ne_rbrack⟩)

/-! ### scores -/

theorem skey_unkey (k : Int) (h1 : ZT.keyNegInf ≤ k) (h2 : k ≤ ZT.keyInf) : ZT.skey (ZT.unkey k) = k := by
  unfold ZT.keyNegInf at h1
  unfold ZT.keyInf at h2
  unfold ZT.skey ZT.unkey
  by_cases hk : 0 ≤ k
  · simp only [hk, if_true]
    have : (UInt64.ofNat k.toNat).toNat = k.toNat := by
      rw [UInt64.toNat_ofNat']; omega
    have hlt : UInt64.ofNat k.toNat < 0x8000000000000000 := by
      rw [UInt64.lt_iff_toNat_lt, this]; simp; omega
    simp only [hlt, if_true, this]; omega
  · simp only [hk, if_false]
    have : (UInt64.ofNat ((-k).toNat + 9223372036854775808)).toNat = (-k).toNat + 9223372036854775808 := by
      rw [UInt64.toNat_ofNat']; omega
    have hlt : ¬ UInt64.ofNat ((-k).toNat + 9223372036854775808) < 0x8000000000000000 := by
      rw [UInt64.lt_iff_toNat_lt, this]; simp
    simp only [hlt, if_false, this]; omega

/-! ### hash fields, sorted-set members, stream entries -/

theorem nd_comma : ∀ (c : UInt8) (r t : Bytes), comma :: t = c :: r → isDigit c = false := by
  intro c r t h; cases h; decide
theorem nd_rbrace : ∀ (c : UInt8) (r t : Bytes), rbrace :: t = c :: r → isDigit c = false := by
  intro c r t h; cases h; decide

theorem nd_head {rest : Bytes} {c0 : UInt8} {ps : Bytes} (e : rest = c0 :: ps) (h : isDigit c0 = false) :
    ∀ c r, rest = c :: r → isDigit c = false := by
  intro c r h'; rw [e] at h'; cases h'; exact h

theorem pU64_pre (n : Nat) (hn : n < 2 ^ 64) (pre x : Bytes) (c0 : UInt8) (ps : Bytes) (e : pre = c0 :: ps) (h : isDigit c0 = false) :
    pU64 (encN n ++ (pre ++ x)) = some (n, pre ++ x) :=
  pU64_enc n hn _ (nd_head (c0 := c0) (ps := ps ++ x) (by rw [e]; rfl) h)

theorem pField_enc (x : Bytes × Bytes) (t : Bytes) : pField (encField x ++ t) = some (x, t) := by
  simp only [pField, encField, List.append_assoc, lit_append, pB_enc, List.cons_append, List.nil_append]
  simp [lit, Codec.stripPrefix]

theorem validScore_unkey (k : Int) (h1 : ZT.keyNegInf ≤ k) (h2 : k ≤ ZT.keyInf) : validScore (ZT.unkey k) = true := by
  simp [validScore, skey_unkey k h1 h2, h1, h2]

theorem scorePre_eq : ∃ ps, scorePre = comma :: ps := ⟨_, rfl⟩

theorem pMember_enc (x : Bytes × Int) (h1 : ZT.keyNegInf ≤ x.2) (h2 : x.2 ≤ ZT.keyInf) (t : Bytes) :
    pMember (encMember x ++ t) = some (x, t) := by
  have hn : (ZT.unkey x.2).toNat < 2 ^ 64 := (ZT.unkey x.2).toNat_lt
  simp only [pMember, encMember, List.append_assoc, lit_append, pB_enc, List.cons_append, List.nil_append]
  rw [pU64_enc _ hn _ (fun c r h => nd_rbrace c r t h)]
  simp [lit, Codec.stripPrefix, UInt64.ofNat_toNat, validScore_unkey x.2 h1 h2, skey_unkey x.2 h1 h2]

theorem pEntry_enc (e : StreamEntry) (h1 : e.id.ms < 2 ^ 64) (h2 : e.id.seq < 2 ^ 64) (t : Bytes) :
    pEntry (encEntry e ++ t) = some (e, t) := by
  obtain ⟨⟨ms, seq⟩, fs⟩ := e
  simp only [pEntry, encEntry, List.append_assoc, lit_append]
  rw [pU64_pre _ h1 seqPre _ comma _ rfl (by decide)]
  simp only [lit_append]
  rw [pU64_pre _ h2 fieldsPre _ comma _ rfl (by decide)]
  simp only [lit_append, parseArr_bytes]

theorem lbrace_ne_rbrack : (0x7b : UInt8) ≠ rbrack := by decide

theorem encField_head (x : Bytes × Bytes) (t : Bytes) : ∃ c r, encField x ++ t = c :: r ∧ c ≠ rbrack :=
  ⟨0x7b, _, rfl, lbrace_ne_rbrack⟩
theorem encMember_head (x : Bytes × Int) (t : Bytes) : ∃ c r, encMember x ++ t = c :: r ∧ c ≠ rbrack :=
  ⟨0x7b, _, rfl, lbrace_ne_rbrack⟩
theorem encEntry_head (x : StreamEntry) (t : Bytes) : ∃ c r, encEntry x ++ t = c :: r ∧ c ≠ rbrack :=
  ⟨0x7b, _, rfl, lbrace_ne_rbrack⟩

theorem parseArr_fields (l : List (Bytes × Bytes)) (rest : Bytes) : parseArr pField (encArr encField l ++ rest) = some (l, rest) :=
  parseArr_enc pField encField l rest (fun x _ t => pField_enc x t) (fun x _ t => encField_head x t)

theorem parseArr_members (l : List (Bytes × Int)) (hb : ∀ x ∈ l, ZT.keyNegInf ≤ x.2 ∧ x.2 ≤ ZT.keyInf) (rest : Bytes) :
    parseArr pMember (encArr encMember l ++ rest) = some (l, rest) :=
  parseArr_enc pMember encMember l rest (fun x hx t => pMember_enc x (hb x hx).1 (hb x hx).2 t) (fun x _ t => encMember_head x t)

theorem parseArr_entries (l : List StreamEntry) (hb : ∀ e ∈ l, e.id.ms < 2 ^ 64 ∧ e.id.seq < 2 ^ 64) (rest : Bytes) :
    parseArr pEntry (encArr encEntry l ++ rest) = some (l, rest) :=
  parseArr_enc pEntry encEntry l rest (fun x hx t => pEntry_enc x (hb x hx).1 (hb x hx).2 t) (fun x _ t => encEntry_head x t)


/-! ### values -/

theorem optField_some {α : Type} (pre : Bytes) (p : P α) (d : α) (x : Bytes) : optField pre p d (pre ++ x) = p x := by
  simp [optField, lit_append]

theorem optField_none {α : Type} (c0 : UInt8) (ps : Bytes) (p : P α) (d : α) (c : UInt8) (r : Bytes) (h : c0 ≠ c) :
    optField (c0 :: ps) p d (c :: r) = some (d, c :: r) := by
  simp [optField, lit_cons_ne ps r h]

theorem comma_ne_rbrace : comma ≠ rbrace := by decide

/-- what the decoder makes of a value: unordered containers are rebuilt by their own insertion functions from the written order -/
def reVal : Value → Value
| .set s => .set ((setOrder s).foldl sadd [])
| .hash h => .hash ((hashOrder h).foldl hput [])
| .zset t => .zset (zbuild (zsetOrder t))
| v => v

/-- what `restoreValue` checks, and the ranges of the Go integer types -/
def ValOk : Value → Prop
| .zset t => ((zsetOrder t).map (·.1)).Nodup ∧ ∀ x ∈ zsetOrder t, ZT.keyNegInf ≤ x.2 ∧ x.2 ≤ ZT.keyInf
| .stream es last => last.ms < 2 ^ 64 ∧ last.seq < 2 ^ 64 ∧ (∀ e ∈ es, e.id.ms < 2 ^ 64 ∧ e.id.seq < 2 ^ 64) ∧
    increasing es = true ∧ lastOk es last = true
| _ => True

theorem pValue_str (b rest : Bytes) : pValue tString (encStr b ++ rbrace :: rest) = some (.str b, rbrace :: rest) := by
  unfold pValue encStr
  by_cases hb : b = []
  · subst hb
    simp only [if_true, List.nil_append]
    rw [show strPre = comma :: strPre.tail from rfl, optField_none comma _ _ _ _ _ comma_ne_rbrace]
  · simp only [hb, if_true, if_false, List.append_assoc, optField_some, pB_enc]

theorem pValue_list (l : List Bytes) (rest : Bytes) : pValue tList (encList l ++ rbrace :: rest) = some (.list l, rbrace :: rest) := by
  have h1 : tList ≠ tString := by decide
  unfold pValue encList
  by_cases hb : l = []
  · subst hb
    simp only [h1, if_true, if_false, List.nil_append]
    rw [show listPre = comma :: listPre.tail from rfl, optField_none comma _ _ _ _ _ comma_ne_rbrace]
  · simp only [h1, hb, if_true, if_false, List.append_assoc, optField_some, parseArr_bytes]

theorem pValue_set (s : List Bytes) (rest : Bytes) :
    pValue tSet (encSet s ++ rbrace :: rest) = some (.set ((setOrder s).foldl sadd []), rbrace :: rest) := by
  have h1 : tSet ≠ tString := by decide
  have h2 : tSet ≠ tList := by decide
  unfold pValue encSet
  by_cases hb : setOrder s = []
  · simp only [h1, h2, hb, if_true, if_false, List.nil_append]
    rw [show setPre = comma :: setPre.tail from rfl, optField_none comma _ _ _ _ _ comma_ne_rbrace]
  · simp only [h1, h2, hb, if_true, if_false, List.append_assoc, optField_some, parseArr_bytes]

theorem pValue_hash (h : List (Bytes × Bytes)) (rest : Bytes) :
    pValue tHash (encHash h ++ rbrace :: rest) = some (.hash ((hashOrder h).foldl hput []), rbrace :: rest) := by
  have h1 : tHash ≠ tString := by decide
  have h2 : tHash ≠ tList := by decide
  have h3 : tHash ≠ tSet := by decide
  unfold pValue encHash
  by_cases hb : hashOrder h = []
  · simp only [h1, h2, h3, hb, if_true, if_false, List.nil_append]
    rw [show hashPre = comma :: hashPre.tail from rfl, optField_none comma _ _ _ _ _ comma_ne_rbrace]
  · simp only [h1, h2, h3, hb, if_true, if_false, List.append_assoc, optField_some, parseArr_fields]

theorem pValue_zset (t : ZT.T) (rest : Bytes) (hok : ValOk (.zset t)) :
    pValue tZSet (encZSet t ++ rbrace :: rest) = some (.zset (zbuild (zsetOrder t)), rbrace :: rest) := by
  have h1 : tZSet ≠ tString := by decide
  have h2 : tZSet ≠ tList := by decide
  have h3 : tZSet ≠ tSet := by decide
  have h4 : tZSet ≠ tHash := by decide
  unfold pValue encZSet
  by_cases hb : zsetOrder t = []
  · simp only [h1, h2, h3, h4, hb, if_true, if_false, List.nil_append]
    rw [show zsetPre = comma :: zsetPre.tail from rfl, optField_none comma _ _ _ _ _ comma_ne_rbrace]
    simp
  · simp only [h1, h2, h3, h4, hb, if_true, if_false, List.append_assoc, optField_some, parseArr_members _ hok.2, hok.1]

theorem pStream_enc (es : List StreamEntry) (last : StreamId) (rest : Bytes) (hok : ValOk (.stream es last)) :
    pStream (encStream es last ++ rbrace :: rest) = some (.stream es last, rbrace :: rest) := by
  obtain ⟨b1, b2, b3, b4, b5⟩ := hok
  obtain ⟨lms, lseq⟩ := last
  unfold pStream encStream
  simp only [List.append_assoc, lit_append]
  rw [pU64_pre _ b1 lastSeqPre _ comma _ rfl (by decide)]
  simp only [lit_append]
  by_cases hb : es = []
  · subst hb
    simp only [if_true, List.nil_append, List.cons_append]
    rw [pU64_enc _ b2 _ (nd_head (c0 := rbrace) rfl (by decide))]
    simp only
    rw [show entriesPre = comma :: entriesPre.tail from rfl, optField_none comma _ _ _ _ _ comma_ne_rbrace]
    simp [lit, Codec.stripPrefix, increasing, lastOk]
  · simp only [hb, if_false, List.append_assoc]
    rw [pU64_pre _ b2 entriesPre _ comma _ rfl (by decide)]
    simp only [optField_some, parseArr_entries es b3]
    simp [lit, Codec.stripPrefix, b4, b5]

theorem pValue_stream (es : List StreamEntry) (last : StreamId) (rest : Bytes) (hok : ValOk (.stream es last)) :
    pValue tStream (encStream es last ++ rbrace :: rest) = some (.stream es last, rbrace :: rest) := by
  have h1 : tStream ≠ tString := by decide
  have h2 : tStream ≠ tList := by decide
  have h3 : tStream ≠ tSet := by decide
  have h4 : tStream ≠ tHash := by decide
  have h5 : tStream ≠ tZSet := by decide
  unfold pValue
  simp only [h1, h2, h3, h4, h5, if_true, if_false, pStream_enc es last rest hok]

theorem pValue_enc (v : Value) (rest : Bytes) (hok : ValOk v) :
    pValue (typeBytes v) (encVal v ++ rbrace :: rest) = some (reVal v, rbrace :: rest) := by
  cases v with
  | str b => exact pValue_str b rest
  | list l => exact pValue_list l rest
  | set s => exact pValue_set s rest
  | hash h => exact pValue_hash h rest
  | zset t => exact pValue_zset t rest hok
  | stream es last => exact pValue_stream es last rest hok


/-! ### key records and the file -/

theorem typeBytes_plain (v : Value) : ∀ c ∈ typeBytes v, c ≠ Codec.quote ∧ c ≠ Codec.bslash := by
  cases v <;> simp only [typeBytes] <;> decide

theorem dl_none (x : UInt8) (r : Bytes) (hx : x ≠ 0x64) : lit dlPre (comma :: quote :: x :: r) = none := by
  have : ¬ (0x64 : UInt8) = x := fun e => hx e.symm
  simp [lit, dlPre, Codec.stripPrefix, comma, quote, this]

/-- what follows the type (and the deadline): `}` or a value member, never a digit, never the `deadline` member -/
def NextOk (inp : Bytes) : Prop := ∃ c r, inp = c :: r ∧ isDigit c = false ∧ lit dlPre (c :: r) = none

theorem nextOk_rbrace (rest : Bytes) : NextOk (rbrace :: rest) :=
  ⟨rbrace, rest, rfl, by decide, lit_cons_ne _ _ (by decide)⟩

theorem nextOk_pre (pre body : Bytes) (x : UInt8) (tl : Bytes) (e : pre = comma :: quote :: x :: tl) (hx : x ≠ 0x64) :
    NextOk (pre ++ body) := by
  subst e
  exact ⟨comma, quote :: x :: (tl ++ body), rfl, by decide, dl_none x _ hx⟩

theorem encVal_next (v : Value) (rest : Bytes) : NextOk (encVal v ++ rbrace :: rest) := by
  cases v with
  | str b =>
    by_cases hb : b = []
    · simp only [encVal, encStr, hb, if_true, List.nil_append]; exact nextOk_rbrace rest
    · simp only [encVal, encStr, hb, if_false, List.append_assoc]; exact nextOk_pre strPre _ 0x73 _ rfl (by decide)
  | list l =>
    by_cases hb : l = []
    · simp only [encVal, encList, hb, if_true, List.nil_append]; exact nextOk_rbrace rest
    · simp only [encVal, encList, hb, if_false, List.append_assoc]; exact nextOk_pre listPre _ 0x6c _ rfl (by decide)
  | set s =>
    by_cases hb : setOrder s = []
    · simp only [encVal, encSet, hb, if_true, List.nil_append]; exact nextOk_rbrace rest
    · simp only [encVal, encSet, hb, if_false, List.append_assoc]; exact nextOk_pre setPre _ 0x73 _ rfl (by decide)
  | hash h =>
    by_cases hb : hashOrder h = []
    · simp only [encVal, encHash, hb, if_true, List.nil_append]; exact nextOk_rbrace rest
    · simp only [encVal, encHash, hb, if_false, List.append_assoc]; exact nextOk_pre hashPre _ 0x68 _ rfl (by decide)
  | zset t =>
    by_cases hb : zsetOrder t = []
    · simp only [encVal, encZSet, hb, if_true, List.nil_append]; exact nextOk_rbrace rest
    · simp only [encVal, encZSet, hb, if_false, List.append_assoc]; exact nextOk_pre zsetPre _ 0x7a _ rfl (by decide)
  | stream es last =>
    simp only [encVal, encStream, List.append_assoc]; exact nextOk_pre streamPre _ 0x73 _ rfl (by decide)

def DeadlineOk (dl : Option Int) : Prop := ∀ d, dl = some d → Exec.minI64 ≤ d ∧ d ≤ Exec.maxI64

theorem pDeadline_enc (dl : Option Int) (hd : DeadlineOk dl) (inp : Bytes) (hn : NextOk inp) :
    pDeadline (encDeadline dl ++ inp) = some (dl, inp) := by
  obtain ⟨c, r, e, h1, h2⟩ := hn
  cases dl with
  | none => simp [pDeadline, encDeadline, e, h2]
  | some d =>
    have := hd d rfl
    simp only [pDeadline, encDeadline, List.append_assoc, lit_append]
    rw [pI64_enc d this.1 this.2 inp (nd_head e h1)]

/-- what the decoder needs of one entry -/
def EntryOk (p : Bytes × Entry) : Prop := ValOk p.2.val ∧ DeadlineOk p.2.exp

/-- the entry as decoded -/
def reEntry (p : Bytes × Entry) : Bytes × Entry := (p.1, { val := reVal p.2.val, exp := p.2.exp })

theorem pKey_enc (p : Bytes × Entry) (hok : EntryOk p) (t : Bytes) : pKey (encKey p ++ t) = some (reEntry p, t) := by
  obtain ⟨k, v, dl⟩ := p
  have hq : quote = Codec.quote := rfl
  simp only [pKey, encKey, List.append_assoc, lit_append, pB_enc, List.cons_append]
  rw [hq, Codec.spanQuote_body _ _ (typeBytes_plain v)]
  simp only [List.nil_append]
  rw [pDeadline_enc dl hok.2 _ (encVal_next v t)]
  simp only
  rw [pValue_enc v t hok.1]
  simp [lit, Codec.stripPrefix, reEntry]

theorem encKey_head (p : Bytes × Entry) (t : Bytes) : ∃ c r, encKey p ++ t = c :: r ∧ c ≠ rbrack :=
  ⟨0x7b, _, rfl, lbrace_ne_rbrack⟩

/-- the decoder on the encoder's output, before any property of the sorts is used -/
theorem decode_encode_raw (db : Db) (hok : ∀ p ∈ keyOrder db, EntryOk p) (hnd : ((keyOrder db).map (·.1)).Nodup) :
    decode (encode db) = some ((keyOrder db).map reEntry) := by
  unfold decode encode
  simp only [List.append_assoc, lit_append]
  rw [parseArr_enc_map pKey encKey reEntry (keyOrder db) [rbrace] (fun x hx t => pKey_enc x (hok x hx) t) (fun x _ t => encKey_head x t)]
  have : ((keyOrder db).map reEntry).map (·.1) = (keyOrder db).map (·.1) := by
    simp [List.map_map, Function.comp_def, reEntry]
  simp [this, hnd]


end Snap
