import RedisGoModel.Props.C06TBase
/-! C06 table congruence: set commands -/
namespace Exec.C06T
open Resp (Reply Bytes)
open Exec

theorem c_sadd : CmdOk cmdSAdd := by
  intro env a b args hs; unfold cmdSAdd; c06_cmd1 hs
theorem c_srem : CmdOk cmdSRem := by
  intro env a b args hs; unfold cmdSRem; c06_cmd1 hs
theorem c_sismember : CmdOk cmdSIsMember := by
  intro env a b args hs; unfold cmdSIsMember; c06_cmd1 hs
theorem c_scard : CmdOk cmdSCard := by
  intro env a b args hs; unfold cmdSCard; c06_cmd1 hs
theorem c_smembers : CmdOk cmdSMembers := by
  intro env a b args hs; unfold cmdSMembers; c06_cmd1 hs
theorem c_spop : CmdOk cmdSPop := by
  intro env a b args hs; unfold cmdSPop; c06_cmd1 hs
theorem c_srandmember : CmdOk cmdSRandMember := by
  intro env a b args hs; unfold cmdSRandMember; c06_cmd1 hs

/-- the check of every key of a multi-key command: afterwards the two sides agree physically on each of them -/
theorem c_checkAll (now : Int) (ks : List Bytes) : ∀ (a b : Db), Sim now a b →
    Sim now (checkAll now a ks) (checkAll now b ks) ∧
    (∀ k ∈ ks, (checkAll now a ks).get k = (checkAll now b ks).get k) ∧
    (∀ k', a.get k' = b.get k' → (checkAll now a ks).get k' = (checkAll now b ks).get k') := by
  induction ks with
  | nil => intro a b hs; exact ⟨hs, by simp, fun _ h => h⟩
  | cons k ks ih =>
    intro a b hs
    obtain ⟨a', b', x, y, hca, hcb, hs', hk, hkeep⟩ := Sim.ttl hs k
    have ea : checkAll now a (k :: ks) = checkAll now a' ks := by simp [checkAll, hca]
    have eb : checkAll now b (k :: ks) = checkAll now b' ks := by simp [checkAll, hcb]
    rw [ea, eb]
    obtain ⟨h1, h2, h3⟩ := ih a' b' hs'
    refine ⟨h1, ?_, fun k' h => h3 k' (hkeep k' h)⟩
    intro k' hk'
    rcases List.mem_cons.mp hk' with rfl | hk'
    · exact h3 _ hk
    · exact h2 k' hk'

theorem c_collect (a b : Db) : ∀ (ks : List Bytes), (∀ k ∈ ks, a.get k = b.get k) → collect a ks = collect b ks
| [], _ => rfl
| k :: ks, h => by
  unfold collect
  rw [getSet_congr (h k (List.mem_cons_self)), c_collect a b ks (fun k' hk' => h k' (List.mem_cons_of_mem _ hk'))]

theorem c_algebra (op : List SetOps.MSet → SetOps.MSet) : CmdOk (algebra op) := by
  intro env a b args hs; unfold algebra; split
  · rename_i k ks
    obtain ⟨h1, h2, -⟩ := c_checkAll env.now (k :: ks) a b hs
    simp only [c_collect _ _ _ h2]
    split <;> c06_pair
  · c06_pair

theorem c_algebraStore (op : List SetOps.MSet → SetOps.MSet) : CmdOk (algebraStore op) := by
  intro env a b args hs; unfold algebraStore; split
  · rename_i d k ks
    obtain ⟨h1, h2, -⟩ := c_checkAll env.now (d :: k :: ks) a b hs
    simp only [c_collect _ _ (k :: ks) (fun k' hk' => h2 k' (List.mem_cons_of_mem _ hk'))]
    split <;> c06_pair
  · c06_pair

theorem c_sunion : CmdOk cmdSUnion := c_algebra _
theorem c_sinter : CmdOk cmdSInter := c_algebra _
theorem c_sdiff : CmdOk cmdSDiff := c_algebra _
theorem c_sunionstore : CmdOk cmdSUnionStore := c_algebraStore _
theorem c_sinterstore : CmdOk cmdSInterStore := c_algebraStore _
theorem c_sdiffstore : CmdOk cmdSDiffStore := c_algebraStore _

theorem c_smove : CmdOk cmdSMove := by
  intro env a b args hs; unfold cmdSMove; split
  · rename_i src dst m
    obtain ⟨h1, h2, -⟩ := c_checkAll env.now [dst, src] a b hs
    have hsrc := h2 src (by simp)
    have hdst := h2 dst (by simp)
    simp only [getSet_congr hsrc, getSet_congr hdst]
    repeat' (first | c06_pair | split)
  · c06_pair

end Exec.C06T
