import RedisGoModel.Props.C16TornFile
/-! C16: `wal.Repair` after a torn tail. The decoder only looks at bytes below the size it is given, and truncating the
    file at the `lastValidOff` of an EOF / torn verdict leaves a file that reads back as exactly the accepted records
    with a clean EOF; `repair` of File.lean performs that truncation. -/
namespace WalTorn
variable {ρ σ : Type}

/-- the decoder reads only below `size` -/
theorem decode_congr (C : Codec ρ σ) (f g : File) (size : Nat) (h : ∀ x, x < size → f x = g x) :
    ∀ (fuel o : Nat) (st : σ), decode C f size fuel o st = decode C g size fuel o st := by
  intro fuel
  induction fuel with
  | zero => intro o st; rw [decode, decode]
  | succ k ih =>
    intro o st
    rw [decode, decode]
    by_cases h1 : size ≤ o
    · rw [if_pos h1, if_pos h1]
    · rw [if_neg h1, if_neg h1]
      by_cases h2 : size < o + 8
      · rw [if_pos h2, if_pos h2]
      · rw [if_neg h2, if_neg h2]
        have hh : readAt f o 8 = readAt g o 8 := readAt_ext f g o 8 (fun i hi => h _ (by omega))
        simp only [hh]
        cases hu : C.unhdr (readAt g o 8) with
        | none => rfl
        | some n =>
          simp only
          by_cases h3 : size < n + o
          · rw [if_pos h3, if_pos h3]
          · rw [if_neg h3, if_neg h3]
            by_cases h4 : size < o + 8 + n
            · rw [if_pos h4, if_pos h4]
            · rw [if_neg h4, if_neg h4]
              have hb : readAt f (o + 8) n = readAt g (o + 8) n := readAt_ext f g (o + 8) n (fun i hi => h _ (by omega))
              rw [hb]
              simp only [ih]

theorem decode_off_ge (C : Codec ρ σ) (f : File) (size : Nat) :
    ∀ (fuel o : Nat) (st : σ), o ≤ (decode C f size fuel o st).2.2 := by
  intro fuel
  induction fuel with
  | zero => intro o st; rw [decode]
  | succ k ih =>
    intro o st
    by_cases h1 : size ≤ o
    · rw [decode_eof_size C f size k o st h1]
    · by_cases h2 : size < o + 8
      · rw [decode_short_hdr C f size k o st (by omega) h2]
      · cases hu : C.unhdr (readAt f o 8) with
        | none => rw [decode_zero C f size k o st (by omega) hu]
        | some n =>
          by_cases h3 : size < n + o
          · rw [decode_max C f size k o st (by omega) n hu h3]
          · by_cases h4 : size < o + 8 + n
            · rw [decode_short_body C f size k o st (by omega) n hu (by omega) h4]
            · cases hv : C.valid st (readAt f o 8) (readAt f (o + 8) n) with
              | ok r st' =>
                rw [decode_ok C f size k o st n hu (by omega) r st' hv]
                have := ih (o + 8 + n) st'
                simp only
                omega
              | fatal => rw [decode_fatal C f size k o st n hu (by omega) hv]
              | bad =>
                by_cases ht : isTorn (o + 8) (readAt f (o + 8) n)
                · rw [(decode_bad C f size k o st n hu (by omega) hv).1 ht]
                · rw [(decode_bad C f size k o st n hu (by omega) hv).2 ht]

/-- truncating at the offset of an EOF / torn verdict: the same records, then a clean EOF -/
theorem decode_truncate (C : Codec ρ σ) (f : File) (size : Nat) :
    ∀ (fuel o : Nat) (st : σ),
      ((decode C f size fuel o st).2.1 = .eof ∨ (decode C f size fuel o st).2.1 = .torn) →
      decode C f (decode C f size fuel o st).2.2 fuel o st =
        ((decode C f size fuel o st).1, .eof, (decode C f size fuel o st).2.2) := by
  intro fuel
  induction fuel with
  | zero => intro o st _; simp [decode]
  | succ k ih =>
    intro o st he
    by_cases h1 : size ≤ o
    · rw [decode_eof_size C f size k o st h1]; exact decode_eof_size C f o k o st (Nat.le_refl _)
    · by_cases h2 : size < o + 8
      · rw [decode_short_hdr C f size k o st (by omega) h2]; exact decode_eof_size C f o k o st (Nat.le_refl _)
      · cases hu : C.unhdr (readAt f o 8) with
        | none => rw [decode_zero C f size k o st (by omega) hu]; exact decode_eof_size C f o k o st (Nat.le_refl _)
        | some n =>
          by_cases h3 : size < n + o
          · rw [decode_max C f size k o st (by omega) n hu h3] at he; simp at he
          · by_cases h4 : size < o + 8 + n
            · rw [decode_short_body C f size k o st (by omega) n hu (by omega) h4]
              exact decode_eof_size C f o k o st (Nat.le_refl _)
            · cases hv : C.valid st (readAt f o 8) (readAt f (o + 8) n) with
              | ok r st' =>
                rw [decode_ok C f size k o st n hu (by omega) r st' hv] at he ⊢
                simp only at he ⊢
                have hge := decode_off_ge C f size k (o + 8 + n) st'
                rw [decode_ok C f _ k o st n hu hge r st' hv, ih (o + 8 + n) st' he]
              | fatal => rw [decode_fatal C f size k o st n hu (by omega) hv] at he; simp at he
              | bad =>
                by_cases ht : isTorn (o + 8) (readAt f (o + 8) n)
                · rw [(decode_bad C f size k o st n hu (by omega) hv).1 ht]
                  exact decode_eof_size C f o k o st (Nat.le_refl _)
                · rw [(decode_bad C f size k o st n hu (by omega) hv).2 ht] at he; simp at he

/-- more fuel than records returned: one more unit of fuel changes nothing -/
theorem decode_fuel_succ (C : Codec ρ σ) (f : File) (size : Nat) :
    ∀ (k o : Nat) (st : σ), (decode C f size k o st).1.length < k →
      decode C f size (k + 1) o st = decode C f size k o st := by
  intro k
  induction k with
  | zero => intro o st h; simp at h
  | succ k ih =>
    intro o st hlt
    by_cases h1 : size ≤ o
    · rw [decode_eof_size C f size (k + 1) o st h1, decode_eof_size C f size k o st h1]
    · by_cases h2 : size < o + 8
      · rw [decode_short_hdr C f size (k + 1) o st (by omega) h2, decode_short_hdr C f size k o st (by omega) h2]
      · cases hu : C.unhdr (readAt f o 8) with
        | none => rw [decode_zero C f size (k + 1) o st (by omega) hu, decode_zero C f size k o st (by omega) hu]
        | some n =>
          by_cases h3 : size < n + o
          · rw [decode_max C f size (k + 1) o st (by omega) n hu h3, decode_max C f size k o st (by omega) n hu h3]
          · by_cases h4 : size < o + 8 + n
            · rw [decode_short_body C f size (k + 1) o st (by omega) n hu (by omega) h4,
                decode_short_body C f size k o st (by omega) n hu (by omega) h4]
            · cases hv : C.valid st (readAt f o 8) (readAt f (o + 8) n) with
              | ok r st' =>
                rw [decode_ok C f size k o st n hu (by omega) r st' hv] at hlt
                simp only [List.length_cons] at hlt
                rw [decode_ok C f size (k + 1) o st n hu (by omega) r st' hv,
                  decode_ok C f size k o st n hu (by omega) r st' hv, ih (o + 8 + n) st' (by omega)]
              | fatal =>
                rw [decode_fatal C f size (k + 1) o st n hu (by omega) hv, decode_fatal C f size k o st n hu (by omega) hv]
              | bad =>
                by_cases ht : isTorn (o + 8) (readAt f (o + 8) n)
                · rw [(decode_bad C f size (k + 1) o st n hu (by omega) hv).1 ht,
                    (decode_bad C f size k o st n hu (by omega) hv).1 ht]
                · rw [(decode_bad C f size (k + 1) o st n hu (by omega) hv).2 ht,
                    (decode_bad C f size k o st n hu (by omega) hv).2 ht]

theorem decode_fuel_stable (C : Codec ρ σ) (f : File) (size k o : Nat) (st : σ)
    (h : (decode C f size k o st).1.length < k) : ∀ m, k ≤ m → decode C f size m o st = decode C f size k o st := by
  intro m hm
  induction m with
  | zero => have : k = 0 := by omega
            subst this; rfl
  | succ m ih =>
    by_cases hk : k = m + 1
    · rw [hk]
    · have hkm : k ≤ m := by omega
      have e := ih hkm
      rw [decode_fuel_succ C f size m o st (by rw [e]; omega), e]

end WalTorn

namespace WalFile
open WalCodec

/-- a record handed out by `decodeRecord` on the last file leaves the decoder on the last file -/
theorem decodeRecord_got_rest (k : Nat) (d : Dec) (r : Record) (d' : Dec) (hrest : d.rest = [])
    (h : decodeRecord (k + 1) d = .got r d') : d'.rest = [] := by
  rw [decodeRecord] at h
  simp only [hrest] at h
  repeat' (split at h)
  all_goals (first | (cases h; done) | (cases h; rfl) | (cases h; exact hrest))

/-- `Repair`'s loop is the record loop with the records dropped -/
theorem repairLoop_eq : ∀ (fuel : Nat) (d : Dec), d.rest = [] →
    repairLoop fuel d =
      (match (recLoop fuel d).2.1 with
       | .decEof => (true, none)
       | .decErr e => if e = .ueof then (true, some (recLoop fuel d).2.2.off) else (false, none)
       | .failed _ _ => (false, none)) := by
  intro fuel
  induction fuel with
  | zero => intro d _; rfl
  | succ k ih =>
    intro d hrest
    rw [repairLoop, recLoop]
    have h1 : d.rest.length + 1 = 0 + 1 := by rw [hrest]; rfl
    rw [h1]
    cases hdr : decodeRecord (0 + 1) d with
    | eof d' => rfl
    | err e d' =>
      simp only
    | got r d' =>
      have hr := decodeRecord_got_rest 0 d r d' hrest hdr
      simp only
      by_cases hty : r.type = crcType
      · rw [if_pos hty, if_pos hty]
        by_cases hc : d'.crc ≠ 0 ∧ r.crc ≠ d'.crc
        · rw [if_pos hc, if_pos hc]
        · rw [if_neg hc, if_neg hc]
          exact ih _ hr
      · rw [if_neg hty, if_neg hty]
        exact ih _ hr

end WalFile

namespace WalTornC
open WalCodec WalFile WalTorn

theorem fileFn_take (f : Bytes) (T x : Nat) (h : x < T) : fileFn (f.take T) x = fileFn f x := by
  unfold fileFn toNats
  simp [List.getD_eq_getElem?_getD, List.getElem?_take, h]

/-- every frame takes at least 16 bytes -/
theorem endOff_ge (fs : List (Frame Record)) (o : Nat) (hwf : WF walCodec fs) : o + 16 * fs.length ≤ endOff fs o := by
  induction fs generalizing o with
  | nil => simp [endOff]
  | cons fr rest ih =>
    have h1 := (hwf fr (by simp)).1
    have := ih (o + 8 + fr.body.length) (fun x hx => hwf x (by simp [hx]))
    simp only [endOff, List.length_cons]
    omega

/-- what `repair` does, in terms of the record loop -/
theorem repair_eq (f : Bytes) :
    repair f =
      (match (recLoop (f.length / 8 + 2) (Dec.open [f])).2.1 with
       | .decEof => (true, f)
       | .decErr e => if e = .ueof then (true, f.take (recLoop (f.length / 8 + 2) (Dec.open [f])).2.2.off) else (false, f)
       | .failed _ _ => (false, f)) := by
  unfold repair
  rw [repairLoop_eq _ _ rfl]
  cases (recLoop (f.length / 8 + 2) (Dec.open [f])).2.1 with
  | decEof => rfl
  | decErr e => by_cases he : e = .ueof <;> simp [he]
  | failed e st => rfl

/-- **Repair after a torn tail** (partial: under `NoCollision`, as `torn_tail_file_partial`). `wal.Repair` on the
    crashed last segment file reports success; it leaves the file alone (clean EOF) or truncates it at the end of the
    last whole record; and the repaired file reads back — with a clean EOF, so that it can be opened for appending —
    as the CRC record, every synced record and a whole-record prefix of the unsynced ones. -/
theorem repair_torn_tail_partial (c0 : Nat) (hc0 : c0 < 2 ^ 32) (synced unsynced : List Item)
    (hs : ItemsOk synced) (hu : ItemsOk unsynced) (f : Bytes)
    (hcr : Crash (image c0 (synced ++ unsynced)) (fileFn f) (endOff (fileFrames c0 synced) 0))
    (hnc : NoCollision (endOff (fileFrames c0 synced) 0) (crcAfter crcUpdate c0 synced) unsynced)
    (hsize : endOff (fileFrames c0 (synced ++ unsynced)) 0 + 8 ≤ f.length) :
    ∃ p rest, unsynced = p ++ rest ∧ (repair f).1 = true ∧
      ((repair f).2 = f ∨ (repair f).2 = f.take (endOff (fileFrames c0 (synced ++ p)) 0)) ∧
      ∀ fuel, synced.length + unsynced.length + 1 < fuel →
        (recLoop fuel (Dec.open [(repair f).2])).1 = crcRec c0 :: records crcUpdate c0 (synced ++ p) ∧
        (recLoop fuel (Dec.open [(repair f).2])).2.1 = .decEof := by
  have hall : ItemsOk (synced ++ unsynced) := by
    intro it hit
    rcases List.mem_append.mp hit with h | h
    · exact hs it h
    · exact hu it h
  -- the abstract decoder with the minimal fuel
  obtain ⟨p, rest, h1, h2, h3, h4⟩ := torn_tail_concrete_partial c0 hc0 synced unsynced hs hu (fileFn f) hcr hnc
    f.length hsize (synced.length + unsynced.length + 2) (by omega)
  generalize hD : decode walCodec (fileFn f) f.length (synced.length + unsynced.length + 2) 0 0 = D at h2 h3 h4
  have hDlen : D.1.length < synced.length + unsynced.length + 2 := by
    rw [h2, List.length_cons, records_length, List.length_append, h1, List.length_append]; omega
  have hstable : ∀ m, synced.length + unsynced.length + 2 ≤ m → decode walCodec (fileFn f) f.length m 0 0 = D := by
    intro m hm
    rw [← hD]
    exact decode_fuel_stable walCodec (fileFn f) f.length _ 0 0 (by rw [hD]; exact hDlen) m hm
  -- `repair`'s own fuel is enough
  have hfuelR : synced.length + unsynced.length + 2 ≤ f.length / 8 + 2 := by
    have := endOff_ge (fileFrames c0 (synced ++ unsynced)) 0 (fileFrames_wf c0 hc0 _ hall)
    have hl : (fileFrames c0 (synced ++ unsynced)).length = synced.length + unsynced.length + 1 := by
      simp only [fileFrames, List.length_cons, framesOf_length, List.length_append]
    rw [hl] at this
    omega
  obtain ⟨s1, s2, s3⟩ := recLoop_sim f (f.length / 8 + 2) 0 0
  rw [decAt_zero, hstable _ hfuelR] at s1 s2 s3
  refine ⟨p, rest, h1, ?_⟩
  rcases h3 with he | he
  · -- clean EOF: nothing to repair
    have hrep : repair f = (true, f) := by rw [repair_eq, (s2 he).1]
    rw [hrep]
    refine ⟨rfl, Or.inl rfl, ?_⟩
    intro fuel hf
    obtain ⟨t1, t2, _⟩ := recLoop_sim f fuel 0 0
    rw [decAt_zero, hstable _ (by omega)] at t1 t2
    exact ⟨by rw [t1, h2], (t2 he).1⟩
  · -- torn: truncate at the last valid offset
    have hrep : repair f = (true, f.take D.2.2) := by
      rw [repair_eq, (s3 he).1]; simp only [if_true]; rw [(s3 he).2]
    rw [hrep]
    refine ⟨rfl, Or.inr (by rw [h4]), ?_⟩
    intro fuel hf
    -- the truncated file
    have hTle : D.2.2 ≤ f.length := by
      rw [h4]
      have e : fileFrames c0 (synced ++ unsynced) =
          fileFrames c0 (synced ++ p) ++ framesOf (crcAfter crcUpdate c0 (synced ++ p)) rest := by
        rw [h1, ← List.append_assoc]
        simp only [fileFrames, framesOf_append, List.cons_append]
      have := endOff_mono (framesOf (crcAfter crcUpdate c0 (synced ++ p)) rest) (endOff (fileFrames c0 (synced ++ p)) 0)
      rw [← endOff_append, ← e] at this
      omega
    have hlen' : (f.take D.2.2).length = D.2.2 := by rw [List.length_take]; omega
    have htr := decode_truncate walCodec (fileFn f) f.length (synced.length + unsynced.length + 2) 0 0
      (by rw [hD]; exact Or.inr he)
    rw [hD] at htr
    have hst2 : decode walCodec (fileFn f) D.2.2 fuel 0 0 = (D.1, .eof, D.2.2) := by
      rw [← htr]
      exact decode_fuel_stable walCodec (fileFn f) D.2.2 _ 0 0 (by rw [htr]; exact hDlen) fuel (by omega)
    obtain ⟨t1, t2, _⟩ := recLoop_sim (f.take D.2.2) fuel 0 0
    rw [decAt_zero, hlen', decode_congr walCodec (fileFn (f.take D.2.2)) (fileFn f) D.2.2
      (fun x hx => fileFn_take f D.2.2 x hx), hst2] at t1 t2
    exact ⟨by rw [t1, h2], (t2 rfl).1⟩

#print axioms repair_torn_tail_partial
end WalTornC
